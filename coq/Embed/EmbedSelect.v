(* C07 over the hand-written printer model Select/SelectExplainModel.v:

   (1) tail insensitivity: a SelectWithUnionQuery without FORMAT / SETTINGS on any member and
       without union-level SETTINGS is printed identically under EVERY unionTail, hence CREATE ...
       AS, INSERT ... SELECT and EXPLAIN print the embedded union exactly as Node would;
   (2) [Paren q]: the model has no parenthesised-query node (the parser drops the parentheses; a
       parenthesised query IS the query's AST), so there is nothing to state on the printer side;
   (3) the depth lemma for the model printers, from the *_tree theorems and render_shift:
           nrm (explain d q) = map (shift d) (nrm (explain 0 q));
   (4) every embedding context of Embed/EmbedContextModel.v contains the query's own lines,
       shifted by a constant, as one contiguous block ([contains_block]).

   [nrm] (SelectExplainProof) spells "(children 0)" as no suffix; it does not touch indentation,
   so the statements are about the very lines the code prints, up to that spelling. *)
From Coq Require Import List NArith Bool Lia String.
From DC Require Import Tree.LineTree Tree.LineTreeProof.
From DC Require Import Select.SelectExplainModel Select.SelectExplainProof.
From DC Require Import Embed.EmbedContextModel.
Import ListNotations.

(* ---------------------------------------------------------------------------------------- *)
(** * (1) Tail insensitivity *)

(* no FORMAT and no SETTINGS of its own (INTO OUTFILE is printed the same under every tail and
   needs no hypothesis here; the property excludes it all the same) *)
Definition member_tail_free (s : sel_item) : Prop :=
  match s with
  | ItemSelect q => sq_format q = None /\ sq_settings q = 0
  | ItemOther _ => True
  end.

Definition tail_free (n : union_query) : Prop :=
  u_settings n = 0 /\ Forall member_tail_free (u_selects n).

Lemma tail_format_none t i q : sq_format q = None -> tail_format t i q = None.
Proof. intros H. unfold tail_format. rewrite H. destruct (_ || _); reflexivity. Qed.

Lemma tail_select_settings_zero t i q : sq_settings q = 0 -> tail_select_settings t i q = 0.
Proof. intros H. unfold tail_select_settings. rewrite H. destruct (is_idx _ _); reflexivity. Qed.

Lemma no_format_member t l : Forall member_tail_free l ->
  forall i, exists_select_i (tail_has_format t) i l = false.
Proof.
  induction 1 as [|[q|o] l Hm Hl IH]; intros i; cbn; [reflexivity| |apply IH].
  destruct Hm as [Hf _]. unfold tail_has_format. rewrite (tail_format_none t i q Hf). cbn. apply IH.
Qed.

Lemma no_format_first t l : Forall member_tail_free l ->
  forall i, first_select_i (tail_has_format t) i l = None.
Proof.
  induction 1 as [|[q|o] l Hm Hl IH]; intros i; cbn; [reflexivity| |apply IH].
  destruct Hm as [Hf _]. unfold tail_has_format. rewrite (tail_format_none t i q Hf). cbn. apply IH.
Qed.

Lemma no_legacy_settings t l : Forall member_tail_free l ->
  forall i, exists_select_i (tail_legacy_settings t) i l = false.
Proof.
  induction 1 as [|[q|o] l Hm Hl IH]; intros i; cbn; [reflexivity| |apply IH].
  destruct Hm as [_ Hs]. unfold tail_legacy_settings. rewrite (tail_select_settings_zero t i q Hs).
  rewrite andb_false_r. apply IH.
Qed.

Lemma tail_union_settings_zero t n : u_settings n = 0 -> tail_union_settings t n = 0.
Proof. intros H. unfold tail_union_settings. rewrite H. destruct (t_no_settings t); reflexivity. Qed.

(* the children count does not depend on the tail *)
Lemma count_tail_free n t :
  tail_free n ->
  count_select_union_children_tail n t
  = 1 + b2n (existsb (is_select_with (fun q => is_some (sq_into_outfile q))) (u_selects n)).
Proof.
  intros [Hu Hm]. unfold count_select_union_children_tail.
  rewrite (no_format_member t _ Hm), (no_legacy_settings t _ Hm), (tail_union_settings_zero t n Hu).
  cbn. rewrite !andb_false_r. cbn. lia.
Qed.

(* no SETTINGS / FORMAT child is printed, whatever the tail *)
Lemma union_tail_empty d n t : tail_free n -> explain_union_tail d n t = [].
Proof.
  intros [Hu Hm]. unfold explain_union_tail.
  rewrite (no_format_first t _ Hm), (no_legacy_settings t _ Hm), (tail_union_settings_zero t n Hu).
  cbn. rewrite !andb_false_r. reflexivity.
Qed.

Theorem tail_insensitive d n t :
  tail_free n ->
  explain_select_with_union_query_tail d n t = explain_select_with_union_query d n.
Proof.
  intros H. unfold explain_select_with_union_query, explain_select_with_union_query_tail.
  rewrite (count_tail_free n t H), (count_tail_free n tail_none H).
  rewrite (union_tail_empty d n t H), (union_tail_empty d n tail_none H). reflexivity.
Qed.

(* CREATE ... AS SELECT *)
Corollary create_as_select_prints_the_query d n :
  tail_free n -> explain_as_select_without_format d n = explain_select_with_union_query d n.
Proof. apply tail_insensitive. Qed.

(* INSERT INTO t SELECT ...  (the INSERT has no WITH clause of its own) *)
Corollary insert_select_prints_the_query d n :
  tail_free n -> explain_insert_select d [] n = explain_select_with_union_query d n.
Proof. apply tail_insensitive. Qed.

(* EXPLAIN SELECT ... *)
Corollary explain_target_prints_the_query d n :
  tail_free n -> explain_explain_select d n = explain_select_with_union_query d n.
Proof. apply tail_insensitive. Qed.

(* ---------------------------------------------------------------------------------------- *)
(** * (3) The depth lemma for the model printers *)

Theorem select_query_shift d n :
  inv_select n -> nrm (explain_select_query d n) = map (shift d) (nrm (explain_select_query 0 n)).
Proof. intros H. rewrite !explain_select_query_tree by exact H. apply render_shift. Qed.

Theorem inherited_shift d s iw :
  inv_item s ->
  nrm (explain_select_query_with_inherited_with d s iw)
  = map (shift d) (nrm (explain_select_query_with_inherited_with 0 s iw)).
Proof. intros H. rewrite !explain_inherited_tree by exact H. apply render_shift. Qed.

Theorem union_tail_shift d n t :
  inv_union n ->
  nrm (explain_select_with_union_query_tail d n t)
  = map (shift d) (nrm (explain_select_with_union_query_tail 0 n t)).
Proof. intros H. rewrite !explain_union_tree by exact H. apply render_shift. Qed.

Theorem union_shift d n :
  inv_union n ->
  nrm (explain_select_with_union_query d n) = map (shift d) (nrm (explain_select_with_union_query 0 n)).
Proof. apply union_tail_shift. Qed.

Theorem union_inherited_shift d n iw t :
  inv_union n ->
  nrm (explain_select_with_union_query_with_inherited_with d n iw t)
  = map (shift d) (nrm (explain_select_with_union_query_with_inherited_with 0 n iw t)).
Proof. intros H. rewrite !explain_union_inherited_tree by exact H. apply render_shift. Qed.

Theorem intersect_shift d n :
  inv_intersect n ->
  nrm (explain_select_intersect_except_query d n)
  = map (shift d) (nrm (explain_select_intersect_except_query 0 n)).
Proof. intros H. rewrite !explain_intersect_tree by exact H. apply render_shift. Qed.

(* ---------------------------------------------------------------------------------------- *)
(** * (4) The contexts *)

(* [whole] contains [part], every line indented by the same k more, as one contiguous block *)
Definition contains_block (whole part : list line) : Prop :=
  exists k pre post, whole = pre ++ map (shift k) part ++ post.

(* what Explain(q) prints for the query alone *)
Definition alone (q : union_query) : list line := nrm (explain_select_with_union_query 0 q).

Lemma block_at d q pre post :
  inv_union q ->
  contains_block (nrm (pre ++ explain_select_with_union_query d q ++ post)) (alone q).
Proof.
  intros H. exists d, (nrm pre), (nrm post). unfold alone.
  rewrite !nrm_app, (union_shift d q H). reflexivity.
Qed.

Lemma block_at_end d q pre :
  inv_union q -> contains_block (nrm (pre ++ explain_select_with_union_query d q)) (alone q).
Proof.
  intros H. rewrite <- (app_nil_r (explain_select_with_union_query d q)). apply block_at. exact H.
Qed.

(* FROM (q), SELECT (q), any expression position: explainSubquery *)
Theorem subquery_contains_query d alias q :
  inv_union q -> contains_block (nrm (explain_subquery d alias q)) (alone q).
Proof.
  intros H. unfold explain_subquery.
  change (?h :: ?r) with ([h] ++ r). apply block_at_end. exact H.
Qed.

(* FROM (q) AS sub, JOIN (q) AS j ON ...: explainTableExpression *)
Theorem table_subquery_contains_query d alias q :
  inv_union q -> contains_block (nrm (explain_table_subquery_alias d alias q)) (alone q).
Proof.
  intros H. unfold explain_table_subquery_alias.
  change (?h :: ?r) with ([h] ++ r). apply block_at_end. exact H.
Qed.

(* x IN (q) *)
Theorem in_subquery_contains_query d q :
  inv_union q -> contains_block (nrm (explain_in_subquery d q)) (alone q).
Proof.
  intros H. unfold explain_in_subquery.
  change (?h :: ?r) with ([h] ++ r). apply block_at_end. exact H.
Qed.

(* EXISTS (q) *)
Theorem exists_contains_query d lab q :
  inv_union q -> contains_block (nrm (explain_exists d lab q)) (alone q).
Proof.
  intros H. unfold explain_exists.
  change (?a :: ?b :: ?c :: ?r) with ([a; b; c] ++ r). apply block_at_end. exact H.
Qed.

(* WITH cte AS (q) ...  and  WITH (q) AS x ... *)
Theorem with_element_contains_query d sw alias q :
  inv_union q -> contains_block (nrm (explain_with_element_subquery d sw alias q)) (alone q).
Proof.
  intros H. unfold explain_with_element_subquery. destruct sw.
  - change (?h :: ?r) with ([h] ++ r). apply block_at_end. exact H.
  - change (?a :: ?b :: ?r) with ([a; b] ++ r). apply block_at_end. exact H.
Qed.

(* CREATE VIEW v AS q / CREATE MATERIALIZED VIEW ... AS q: explainAsSelectWithoutFormat at depth+1,
   between the other children of the CreateQuery node *)
Theorem create_view_contains_query d pre post q :
  inv_union q -> tail_free q ->
  contains_block (nrm (pre ++ explain_as_select_without_format (S d) q ++ post)) (alone q).
Proof.
  intros H Ht. rewrite (create_as_select_prints_the_query (S d) q Ht). apply block_at. exact H.
Qed.

(* INSERT INTO t q *)
Theorem insert_contains_query d pre post q :
  inv_union q -> tail_free q ->
  contains_block (nrm (pre ++ explain_insert_select (S d) [] q ++ post)) (alone q).
Proof.
  intros H Ht. rewrite (insert_select_prints_the_query (S d) q Ht). apply block_at. exact H.
Qed.

(* EXPLAIN [AST|SYNTAX|...] q *)
Theorem explain_contains_query d pre post q :
  inv_union q -> tail_free q ->
  contains_block (nrm (pre ++ explain_explain_select (S d) q ++ post)) (alone q).
Proof.
  intros H Ht. rewrite (explain_target_prints_the_query (S d) q Ht). apply block_at. exact H.
Qed.

(* ---------------------------------------------------------------------------------------- *)
(** * The hypotheses are satisfiable, and the tail hypothesis is needed *)

Definition sq0 : select_query :=
  mkSQ [] [] None [Node (bytes_of "Literal UInt64_1"%string) []] None None None None [] false false None None 0
       [] [] None [] None None None 0 false None None.

Definition uq0 : union_query := mkUQ [ItemSelect sq0] [ItemSelect sq0] 0 false false.

Example uq0_ok : inv_union uq0 /\ tail_free uq0.
Proof.
  split.
  - constructor; [|constructor]. cbn. split.
    + unfold inv_limit. cbn. split; [intros _; reflexivity|intros _ H; exfalso; apply H; reflexivity].
    + unfold inv_shape. cbn. intros _. constructor.
  - split; [reflexivity|]. constructor; [split; reflexivity|constructor].
Qed.

(* a query WITH a FORMAT tail is printed differently by CREATE ... AS (the property's exclusion) *)
Definition sq_fmt : select_query :=
  mkSQ [] [] None [Node (bytes_of "Literal UInt64_1"%string) []] None None None None [] false false None None 0
       [] [] None [] None None None 0 false None (Some (Node (bytes_of "Identifier Null"%string) [])).

Definition uq_fmt : union_query := mkUQ [ItemSelect sq_fmt] [ItemSelect sq_fmt] 0 false false.

Example tail_matters :
  explain_as_select_without_format 0 uq_fmt <> explain_select_with_union_query 0 uq_fmt.
Proof. vm_compute. intros H. discriminate H. Qed.
