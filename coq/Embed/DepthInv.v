(* Types of the depth/indent inventory that /verif/translator/cmd/depthgen generates into
   Gen/DepthUses.v (property C07).  Definitions only.  See the head comment of
   /verif/translator/cmd/depthgen/main.go for the exact meaning of every field and of the
   abstract values D(k) = depth + k and I(k) = strings.Repeat(" ", depth + k). *)
From Coq Require Import List String ZArith Bool.
Import ListNotations.

(* a function of internal/explain that has the output builder, `depth` or `indent` among its
   parameters, or that owns an output builder *)
Record dfun := mk_dfun {
  f_pkg        : string;
  f_name       : string;
  f_has_sink   : bool;     (* a parameter of type *strings.Builder *)
  f_has_indent : bool;     (* a parameter `indent string` *)
  f_has_depth  : bool;     (* a parameter `depth int` *)
  f_summary    : string;   (* start: writes whole lines | mid: writes a fragment of the current line
                              | none: no builder | root: owns its builder *)
  f_skew_key   : string    (* "" when the function is called with indent = spaces(depth); otherwise
                              "pkg|function|indent == spaces(depth+c)" for the constant c /= 0 that
                              ALL its call sites pass *)
}.

(* one identifier occurrence of `depth`, `indent` or a local derived from them *)
Record duse := mk_duse {
  u_func   : string;
  u_var    : string;
  u_kind   : string;       (* indent-def | depth-def | pass-deeper | indent-pass | indent-prefix
                              | depth-test | other *)
  u_k      : list Z;       (* the possible constant offsets relative to depth (data may choose) *)
  u_callee : string;
  u_text   : string;
  u_key    : string        (* package|function|normalised text [#n] *)
}.

(* a write to the output builder that does not start with an indent-derived prefix although the
   builder is at a line start (or in an unknown line state), an escape of the builder, or a write
   of a function that owns its builder *)
Record dwrite := mk_dwrite {
  w_func  : string;
  w_kind  : string;        (* raw-write | sb-escape | state-mismatch | root-write *)
  w_state : string;
  w_text  : string;
  w_key   : string
}.

(* a call of a function of the package that has a `depth` and/or `indent` parameter *)
Record dpair := mk_dpair {
  p_func       : string;
  p_callee     : string;
  p_indent_k   : list Z;   (* the indent argument is spaces(depth + k); [] if absent / not derived *)
  p_depth_k    : list Z;   (* the depth  argument is depth + k;         [] if absent / not derived *)
  p_consistent : bool;     (* both derived, and k_indent - k_depth = the callee's skew *)
  p_root       : bool;     (* call from a function without depth/indent: Node(&sb, stmt, 0) *)
  p_key        : string
}.

Record dinventory := mk_dinventory {
  di_funcs  : list dfun;
  di_uses   : list duse;
  di_writes : list dwrite;
  di_pairs  : list dpair
}.
