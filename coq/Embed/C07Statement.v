(* C07 -- the printer-side statement, assembled from its three parts.

   PROPERTY (C07): "The EXPLAIN text of a SELECT query (starting with SELECT or WITH, without its
   own FORMAT/SETTINGS/INTO OUTFILE tail) appears verbatim, merely indented, inside the EXPLAIN
   text of any statement that embeds it as a FROM subquery, IN/EXISTS/scalar subquery, CTE body,
   JOIN operand, CREATE VIEW ... AS, INSERT ... SELECT or EXPLAIN target, and wrapping the whole
   query in parentheses at statement level changes nothing.  Rendering a query never depends on
   what surrounds it or on what was rendered before it."

   FULL STATEMENT (not proved as a whole): for every query text q accepted alone, tail-free, and
   every context C of the list:  parse (C[q]) succeeds, and  Explain (parse (C[q]))  =
   pre ++ map (indent by k) (Explain (parse q)) ++ post,  and  Explain (parse ("(" q ")")) =
   Explain (parse q), after every history of earlier calls.

   It splits into
     PARSER HALF (NOT PROVED, `partial`): inside C[q] the text q is parsed to the same AST as on
       its own (the delimiter-simulation lemma of DESIGN C06/C07: the parser run on q followed by
       `)` or by the context's continuation consumes exactly q and builds the node it builds for q
       alone), and "(" q ")" parses to the AST of q.  Covered by the metamorphic harness
       /verif/harness/cmd/embed only (it refuted this half once: statement-level WITH ... UNION,
       fixed in /repo 5f679c112; no counterexample on the corpus and the composed queries since).
     PRINTER HALF ([C07_printer_stmt], proved below under claim (D) of Embed/DepthCheck.v):
       (a) [generated obligation] every function of internal/explain that prints a SELECT query
           obeys the shift law at ALL depths: what it prints at depth d is what it prints at
           depth 0, every line indented by d more; every other function obeys it between all
           depths >= 1 (the only depth inspection is `depth == 0` in explainExplainQuery);
           both for every call that stays out of the quarantined known findings (the
           quarantine list is EMPTY today: check_depth_clean computes to true);
       (b) [model] a tail-free SelectWithUnionQuery is printed identically under every unionTail,
           hence CREATE ... AS / INSERT ... SELECT / EXPLAIN print it exactly as Node would, and
           each context of Embed/EmbedContextModel.v contains the query's own lines, shifted by a
           constant, as one contiguous block;
       (c) [no hidden state] the package has no shared write at all (C10_no_findings = true,
           computed on the inventory of Gen/SharedAccess.v): no package-level flag, no edit of the
           AST; and Explain is a repeatable function of the statement after every history
           (C11).  A new package-level flag makes C10_no_findings compute to false and
           this file stops compiling. *)
From Coq Require Import String List Bool.
From DC Require Import Tree.LineTree Tree.LineTreeProof.
From DC Require Import Select.SelectExplainModel Select.SelectExplainProof.
From DC Require Import Embed.DepthInv Embed.DepthShift Embed.DepthCheck Embed.DepthObligations.
From DC Require Import Embed.EmbedContextModel Embed.EmbedSelect.
From DC Require Import Gen.DepthUses Gen.DepthAllowed.
From DC Require Import Conc.SharedInv Conc.SharedCheck Conc.SharedObligations Gen.SharedAccess.
Import ListNotations.
Local Open Scope string_scope.

(* (a) over the generated inventory, under claim (D) *)
Definition C07_generated_stmt : Prop :=
  forall (data : Type) (sem : string -> data -> printer) (enters : string -> data -> string -> Prop),
    DepthCheck.conforms depth_inventory c07_allow data sem enters ->
    (* the SELECT printers: all depths *)
    (forall f a, In f select_roots -> (forall g, enters f a g -> ~ In g quarantined_funcs) ->
       forall d, sem f a d = map (shift d) (sem f a 0)) /\
    (* every function: all depths >= 1 *)
    (forall f a, (forall g, enters f a g -> ~ In g quarantined_funcs) ->
       forall d, sem f a (S d) = map (shift d) (sem f a 1)).

Lemma C07_generated : C07_generated_stmt.
Proof.
  intros data sem enters HD. split.
  - intros f a Hf Hq. exact (C07_shift_select data sem enters HD f a Hf Hq).
  - intros f a Hq. exact (C07_shift_pos data sem enters HD f a Hq).
Qed.

(* (b) over the hand-written model *)
Definition C07_model_stmt : Prop :=
  (forall d n t, tail_free n ->
     explain_select_with_union_query_tail d n t = explain_select_with_union_query d n) /\
  (forall d n, inv_union n ->
     nrm (explain_select_with_union_query d n) = map (shift d) (nrm (explain_select_with_union_query 0 n))) /\
  (forall q, inv_union q ->
     (forall d alias, contains_block (nrm (explain_subquery d alias q)) (alone q)) /\
     (forall d alias, contains_block (nrm (explain_table_subquery_alias d alias q)) (alone q)) /\
     (forall d, contains_block (nrm (explain_in_subquery d q)) (alone q)) /\
     (forall d lab, contains_block (nrm (explain_exists d lab q)) (alone q)) /\
     (forall d sw alias, contains_block (nrm (explain_with_element_subquery d sw alias q)) (alone q)) /\
     (tail_free q -> forall d pre post,
        contains_block (nrm (pre ++ explain_as_select_without_format (S d) q ++ post)) (alone q) /\
        contains_block (nrm (pre ++ explain_insert_select (S d) [] q ++ post)) (alone q) /\
        contains_block (nrm (pre ++ explain_explain_select (S d) q ++ post)) (alone q))).

Lemma C07_model : C07_model_stmt.
Proof.
  split; [exact tail_insensitive|]. split; [exact union_shift|].
  intros q H. repeat split.
  - intros. apply subquery_contains_query; assumption.
  - intros. apply table_subquery_contains_query; assumption.
  - intros. apply in_subquery_contains_query; assumption.
  - intros. apply exists_contains_query; assumption.
  - intros. apply with_element_contains_query; assumption.
  - apply create_view_contains_query; assumption.
  - apply insert_contains_query; assumption.
  - apply explain_contains_query; assumption.
Qed.

(* (c) no hidden state *)
Definition C07_no_hidden_state_stmt : Prop :=
  C10_no_findings = true /\ explain_is_readonly_and_repeatable inventory.

Lemma C07_no_hidden_state : C07_no_hidden_state_stmt.
Proof. split; [exact (eq_refl : C10_no_findings = true)|exact C11_holds]. Qed.

Definition C07_printer_stmt : Prop :=
  C07_generated_stmt /\ C07_model_stmt /\ C07_no_hidden_state_stmt.

Lemma C07_printer_holds : C07_printer_stmt.
Proof. exact (conj C07_generated (conj C07_model C07_no_hidden_state)). Qed.
