(* C07 -- the embedding contexts of a SELECT query, over Select/SelectExplainModel.v.

   DEFINITIONS ONLY.  Hand-written transcription of the lines the context printers of
   /repo/internal/explain put around an embedded *ast.SelectWithUnionQuery.  Only the part of each
   function that handles the embedded query is transcribed; what the function prints before and
   after it (other children of the enclosing node) is a parameter.  Node(sb, q, depth+k) on a
   *ast.SelectWithUnionQuery is explainSelectWithUnionQuery(sb, q, indent(depth+k), depth+k)
   (explain.go 111-112).  Line numbers of /repo revision 1710f68d6.

     explainSubquery              expressions.go 590-598   [explain_subquery]      scalar (SELECT (q)), FROM (q)
     explainTableExpression       tables.go 58-60          [explain_table_subquery_alias]  FROM (q) AS sub, JOIN (q) AS j
     explainInExpr                functions.go 1116-1119   [explain_in_subquery]   x IN (q)
     explainExistsExprWithAlias   functions.go 1731-1741   [explain_exists]        EXISTS (q)
     explainWithElement           expressions.go 1192-1213 [explain_with_element_subquery]  WITH cte AS (q) / WITH (q) AS x
     explainCreateQuery           via explainAsSelectWithoutFormat: SelectExplainModel.explain_as_select_without_format
     explainInsertQuery           SelectExplainModel.explain_insert_select
     explainExplainQuery          SelectExplainModel.explain_explain_select *)
From Coq Require Import List NArith Bool String Ascii.
From DC Require Import Tree.LineTree Select.SelectExplainModel.
Import ListNotations.

Definition L_Subquery := bytes_of "Subquery".
Definition L_WithElement := bytes_of "WithElement".
(* "%sSubquery (alias %s) (children %d)\n": the alias text is data *)
Definition L_Subquery_alias (alias : list N) : list N :=
  bytes_of "Subquery (alias " ++ alias ++ bytes_of ")".

Definition subquery_label (alias : option (list N)) : list N :=
  match alias with Some a => L_Subquery_alias a | None => L_Subquery end.

(* explainSubquery(sb, n, indent(d), d): header, then Node(sb, n.Query, depth+1) *)
Definition explain_subquery (d : nat) (alias : option (list N)) (q : union_query) : list line :=
  hdr d (subquery_label alias) 1 :: explain_select_with_union_query (S d) q.

(* explainTableExpression, subquery with alias: "%s Subquery (alias %s) (children 1)" at depth+1,
   Node(sb, subq.Query, depth+2).  [before]: the TableExpression header line (its count depends
   on SAMPLE), [after]: the SAMPLE lines. *)
Definition explain_table_subquery_alias (d : nat) (alias : list N) (q : union_query) : list line :=
  hdr (S d) (L_Subquery_alias alias) 1 :: explain_select_with_union_query (2 + d) q.

(* explainInExpr, n.Query != nil: "%s  Subquery (children 1)" at depth+2, Node(sb, n.Query, depth+3) *)
Definition explain_in_subquery (d : nat) (q : union_query) : list line :=
  hdr (2 + d) L_Subquery 1 :: explain_select_with_union_query (3 + d) q.

(* explainExistsExprWithAlias: Function exists / ExpressionList / Subquery / Node(depth+3) *)
Definition explain_exists (d : nat) (fn_label : list N) (q : union_query) : list line :=
  hdr d fn_label 1
  :: hdr (S d) L_ExpressionList 1
  :: hdr (2 + d) L_Subquery 1
  :: explain_select_with_union_query (3 + d) q.

(* explainWithElement, case *ast.Subquery *)
Definition explain_with_element_subquery (d : nat) (scalar_with : bool) (alias : option (list N))
           (q : union_query) : list line :=
  if scalar_with then
    hdr d (subquery_label alias) 1 :: explain_select_with_union_query (S d) q
  else
    hdr d L_WithElement 1 :: hdr (S d) L_Subquery 1 :: explain_select_with_union_query (2 + d) q.
