(* C04 -- text level: [check_text] accepts exactly the texts [print_tree t] of clean trees. *)
From Coq Require Import List NArith Arith Bool Lia ZifyN ZifyNat ZifyBool Decimal DecimalFacts DecimalN.
From DC Require Import Tree.LineTree Tree.LineTreeProof.
Import ListNotations.
Local Open Scope N_scope.

(* ---------------------------------------------------------------------------------------- *)
(** * Decimal digits *)

Lemma uint_of_digits_of_uint u : uint_of_digits (digits_of_uint u) = Some u.
Proof.
  induction u as [|u IH|u IH|u IH|u IH|u IH|u IH|u IH|u IH|u IH|u IH];
    cbn [digits_of_uint uint_of_digits]; try rewrite IH; reflexivity.
Qed.

Lemma digit_cons_inv b u v : digit_cons b u = Some v -> digits_of_uint v = b :: digits_of_uint u.
Proof.
  unfold digit_cons.
  repeat (match goal with
          | |- context [N.eqb b ?c] => destruct (N.eqb_spec b c) as [->|?]
          end; [intros H; inversion H; subst; reflexivity|]).
  discriminate.
Qed.

Lemma digits_of_uint_of_digits ds : forall u, uint_of_digits ds = Some u -> digits_of_uint u = ds.
Proof.
  induction ds as [|b r IH]; intros u H; cbn [uint_of_digits] in H.
  - inversion H; subst. reflexivity.
  - destruct (uint_of_digits r) as [v|] eqn:E; [|discriminate].
    apply digit_cons_inv in H. rewrite H. f_equal. apply IH. reflexivity.
Qed.

Lemma digits_all_digit u : forallb is_digit (digits_of_uint u) = true.
Proof.
  induction u; cbn [digits_of_uint forallb]; try rewrite IHu; reflexivity.
Qed.

Lemma nzhead_not_D0 u : match nzhead u with D0 _ => False | _ => True end.
Proof. induction u; cbn; auto. Qed.

Lemma unorm_canon u : unorm u = u -> canon u = true.
Proof.
  intros H. destruct u; try reflexivity.
  - cbn in H. discriminate.
  - unfold unorm in H. cbn [nzhead] in H. pose proof (nzhead_not_D0 u) as Hz.
    destruct (nzhead u) eqn:E; try contradiction; try discriminate.
    inversion H; subst. reflexivity.
Qed.

Lemma canon_unorm u : canon u = true -> unorm u = u.
Proof.
  destruct u; cbn; try reflexivity; try discriminate.
  destruct u; try discriminate. reflexivity.
Qed.

Lemma canon_to_uint n : canon (N.to_uint n) = true.
Proof.
  apply unorm_canon. rewrite <- (Unsigned.to_of (N.to_uint n)), Unsigned.of_to. reflexivity.
Qed.

Lemma to_of_canon u : canon u = true -> N.to_uint (N.of_uint u) = u.
Proof. intros H. rewrite Unsigned.to_of. apply canon_unorm. exact H. Qed.

Lemma dec_all_digit n : forallb is_digit (dec n) = true.
Proof. apply digits_all_digit. Qed.

(* ---------------------------------------------------------------------------------------- *)
(** * span, strip_prefix *)

Lemma span_app_stop {A} (p : A -> bool) a c b :
  forallb p a = true -> p c = false -> span p (a ++ c :: b) = (a, c :: b).
Proof.
  intros Ha Hc. induction a as [|x a IH]; simpl.
  - rewrite Hc. reflexivity.
  - simpl in Ha. apply andb_true_iff in Ha. destruct Ha as [Hx Ha].
    rewrite Hx, IH by assumption. reflexivity.
Qed.

Lemma span_all {A} (p : A -> bool) a : forallb p a = true -> span p a = (a, []).
Proof.
  intros Ha. induction a as [|x a IH]; [reflexivity|]. cbn [forallb] in Ha.
  apply andb_true_iff in Ha. destruct Ha as [Hx Ha]. simpl. rewrite Hx, IH by assumption.
  reflexivity.
Qed.

Lemma span_spec {A} (p : A -> bool) l x y :
  span p l = (x, y) ->
  l = x ++ y /\ forallb p x = true /\ match y with c :: _ => p c = false | [] => True end.
Proof.
  revert x y. induction l as [|a l IH]; intros x y H; cbn [span] in H.
  - inversion H; subst. auto.
  - destruct (p a) eqn:Ea.
    + destruct (span p l) as [x' y'] eqn:E. inversion H; subst.
      destruct (IH x' y eq_refl) as [H1 [H2 H3]]. subst l. cbn [forallb List.app]. rewrite Ea, H2. auto.
    + inversion H; subst. cbn. auto.
Qed.

Lemma strip_prefix_app p l : strip_prefix p (p ++ l) = Some l.
Proof. induction p as [|a p IH]; [reflexivity|]. cbn [List.app strip_prefix]. rewrite N.eqb_refl. exact IH. Qed.

Lemma strip_prefix_inv p : forall l r, strip_prefix p l = Some r -> l = p ++ r.
Proof.
  induction p as [|a p IH]; intros l r H; cbn [strip_prefix] in H.
  - inversion H; reflexivity.
  - destruct l as [|b l]; [discriminate|]. destruct (N.eqb_spec a b) as [->|]; [|discriminate].
    cbn [List.app]. f_equal. apply IH. exact H.
Qed.

Lemma lrev_rev {A} (l : list A) : lrev l = List.rev l.
Proof. unfold lrev. symmetry. apply rev_alt. Qed.

(* ---------------------------------------------------------------------------------------- *)
(** * strip_suffix *)

Lemma rev_children_pre :
  List.rev children_pre = 32 :: [110; 101; 114; 100; 108; 105; 104; 99; 40; 32].
Proof. reflexivity. Qed.

Lemma strip_suffix_print lab k :
  strip_suffix (lab ++ children_pre ++ dec k ++ [RPAR]) = Some (lab, k).
Proof.
  unfold strip_suffix. rewrite !lrev_rev.
  rewrite !rev_app_distr. cbn [List.rev List.app]. rewrite N.eqb_refl.
  rewrite rev_children_pre. rewrite <- app_assoc. cbn [List.app].
  rewrite span_app_stop.
  - rewrite !lrev_rev, rev_involutive. unfold dec. rewrite uint_of_digits_of_uint, canon_to_uint.
    rewrite <- rev_children_pre. change (32 :: 110 :: 101 :: 114 :: 100 :: 108 :: 105 :: 104 :: 99 :: 40 :: 32 :: List.rev lab)
      with (List.rev children_pre ++ List.rev lab).
    rewrite strip_prefix_app, lrev_rev, rev_involutive, Unsigned.of_to. reflexivity.
  - rewrite forallb_forall. intros x Hx. apply in_rev in Hx.
    pose proof (dec_all_digit k) as Hd. rewrite forallb_forall in Hd. apply Hd. exact Hx.
  - reflexivity.
Qed.

Lemma strip_suffix_inv bs lab k :
  strip_suffix bs = Some (lab, k) -> bs = lab ++ children_pre ++ dec k ++ [RPAR].
Proof.
  unfold strip_suffix. rewrite !lrev_rev. destruct (List.rev bs) as [|c r] eqn:Er; [discriminate|].
  destruct (N.eqb_spec c RPAR) as [->|]; [|discriminate].
  destruct (span is_digit r) as [ds r'] eqn:Es. rewrite !lrev_rev.
  destruct (uint_of_digits (List.rev ds)) as [u|] eqn:Eu; [|discriminate].
  destruct (canon u) eqn:Ec; [|discriminate].
  destruct (strip_prefix (List.rev children_pre) r') as [lr|] eqn:Ep; [|discriminate].
  rewrite lrev_rev. intros H. inversion H; subst. clear H.
  apply span_spec in Es. destruct Es as [Hr _]. apply strip_prefix_inv in Ep.
  apply digits_of_uint_of_digits in Eu.
  unfold dec. rewrite to_of_canon by assumption. rewrite Eu.
  rewrite <- (rev_involutive bs), Er, Hr, Ep. cbn [List.rev].
  rewrite !rev_app_distr, rev_involutive. rewrite <- !app_assoc. reflexivity.
Qed.

Lemma strip_suffix_none_print lab :
  strip_suffix lab = None <-> (forall l k, lab <> l ++ children_pre ++ dec k ++ [RPAR]).
Proof.
  split.
  - intros H l k ->. rewrite strip_suffix_print in H. discriminate.
  - intros H. destruct (strip_suffix lab) as [[l k]|] eqn:E; [|reflexivity].
    apply strip_suffix_inv in E. exfalso. exact (H l k E).
Qed.

(* ---------------------------------------------------------------------------------------- *)
(** * Indentation *)

Lemma count_sp_print n r : no_lead_sp r -> count_sp (repeat SP n ++ r) = (n, r).
Proof.
  intros Hr. induction n as [|n IH]; simpl.
  - destruct r as [|b r]; [reflexivity|]. simpl in Hr. simpl.
    destruct (N.eqb_spec b SP); [contradiction|reflexivity].
  - rewrite IH. reflexivity.
Qed.

Lemma count_sp_spec bs n r :
  count_sp bs = (n, r) -> bs = repeat SP n ++ r /\ no_lead_sp r.
Proof.
  revert n r. induction bs as [|b bs IH]; intros n r H; simpl in H.
  - inversion H; subst. simpl. auto.
  - destruct (N.eqb_spec b SP) as [->|Hb].
    + destruct (count_sp bs) as [n' r'] eqn:E. inversion H; subst.
      destruct (IH n' r eq_refl) as [H1 H2]. subst bs. simpl. auto.
    + inversion H; subst. simpl. auto.
Qed.

(* ---------------------------------------------------------------------------------------- *)
(** * One line: parse after print, print after parse *)

Definition line_ok (l : line) : Prop :=
  no_lead_sp (label l) /\
  (nkids l = None -> strip_suffix (label l) = None) /\
  (nkids l <> None -> label l <> []).

Lemma parse_print l : line_ok l -> parse_line (print_line l) = l.
Proof.
  destruct l as [i lab nk]. unfold line_ok, parse_line, parse_raw, print_line.
  cbn [indent label nkids]. intros [Hsp [Hleaf Hne]].
  assert (Hlead : no_lead_sp (lab ++ suffix nk)).
  { destruct lab as [|b lab]; [|exact Hsp].
    destruct nk as [k|]; [|exact I]. exfalso. apply Hne; [discriminate|reflexivity]. }
  rewrite count_sp_print by exact Hlead.
  destruct nk as [k|]; cbn [suffix].
  - rewrite strip_suffix_print. unfold line_of_raw. cbn [r_indent r_label r_nkids option_map].
    rewrite Nat2N.id. reflexivity.
  - rewrite List.app_nil_r, Hleaf by reflexivity. reflexivity.
Qed.

Lemma print_parse bs : print_line (parse_line bs) = bs.
Proof.
  unfold parse_line, parse_raw, print_line.
  destruct (count_sp bs) as [n r] eqn:Ec. apply count_sp_spec in Ec. destruct Ec as [Hb _].
  destruct (strip_suffix r) as [[lab k]|] eqn:Es; unfold line_of_raw; simpl.
  - apply strip_suffix_inv in Es. rewrite N2Nat.id. subst. reflexivity.
  - rewrite List.app_nil_r. symmetry. exact Hb.
Qed.

Lemma parse_line_ok bs : line_ok (parse_line bs).
Proof.
  unfold parse_line, parse_raw, line_ok.
  destruct (count_sp bs) as [n r] eqn:Ec. apply count_sp_spec in Ec. destruct Ec as [_ Hr].
  destruct (strip_suffix r) as [[lab k]|] eqn:Es; unfold line_of_raw; simpl.
  - apply strip_suffix_inv in Es. subst r. repeat split.
    + destruct lab; [exact I|exact Hr].
    + discriminate.
    + intros _ ->. simpl in Hr. apply Hr. reflexivity.
  - repeat split; [exact Hr|intros _; exact Es|congruence].
Qed.

(* ---------------------------------------------------------------------------------------- *)
(** * Lines of a text *)

Definition join (ls : list (list N)) : list N := flat_map (fun l => l ++ [NL]) ls.

Lemma noNL_nil : noNL [].
Proof. intros []. Qed.

Lemma noNL_cons b l : b <> NL -> noNL l -> noNL (b :: l).
Proof. intros Hb Hl [Hin|Hin]; [congruence|exact (Hl Hin)]. Qed.

Lemma noNL_rev l : noNL l -> noNL (List.rev l).
Proof. intros H Hin. apply H. apply in_rev. exact Hin. Qed.

Lemma split_acc_line l : forall cur acc rest,
  noNL l ->
  split_acc cur acc (l ++ NL :: rest) = split_acc [] ((List.rev cur ++ l) :: acc) rest.
Proof.
  induction l as [|b l IH]; intros cur acc rest Hl; simpl.
  - rewrite lrev_rev, List.app_nil_r. reflexivity.
  - destruct (N.eqb_spec b NL) as [->|]; [exfalso; apply Hl; left; reflexivity|].
    rewrite IH by (intros Hin; apply Hl; right; exact Hin).
    simpl. rewrite <- List.app_assoc. reflexivity.
Qed.

Lemma split_acc_join ls : forall acc,
  Forall noNL ls -> split_acc [] acc (join ls) = (List.rev acc ++ ls, []).
Proof.
  induction ls as [|l ls IH]; intros acc H.
  - simpl. rewrite !lrev_rev, List.app_nil_r. reflexivity.
  - inversion H; subst. unfold join. simpl. rewrite <- List.app_assoc. simpl.
    rewrite split_acc_line by assumption. fold (join ls). rewrite IH by assumption.
    simpl. rewrite <- List.app_assoc. reflexivity.
Qed.

Lemma split_nl_join ls : Forall noNL ls -> split_nl (join ls) = (ls, []).
Proof. intros H. unfold split_nl. rewrite split_acc_join by assumption. reflexivity. Qed.

Lemma split_acc_spec bs : forall cur acc ls rem,
  noNL cur ->
  split_acc cur acc bs = (ls, rem) ->
  exists ls', ls = List.rev acc ++ ls' /\ List.rev cur ++ bs = join ls' ++ rem /\
              Forall noNL ls' /\ noNL rem.
Proof.
  induction bs as [|b bs IH]; intros cur acc ls rem Hcur H; simpl in H.
  - rewrite !lrev_rev in H. inversion H; subst. exists []. rewrite !List.app_nil_r.
    split; [reflexivity|]. split; [reflexivity|]. split; [constructor|apply noNL_rev; exact Hcur].
  - destruct (N.eqb_spec b NL) as [->|Hb].
    + rewrite lrev_rev in H. apply IH in H; [|apply noNL_nil].
      destruct H as [ls' [H1 [H2 [H3 H4]]]]. exists (List.rev cur :: ls').
      split; [rewrite H1; simpl; rewrite <- List.app_assoc; reflexivity|].
      split; [|split; [constructor; [apply noNL_rev; exact Hcur|exact H3]|exact H4]].
      simpl in H2. rewrite H2. unfold join. simpl. rewrite <- !List.app_assoc. reflexivity.
    + apply IH in H; [|apply noNL_cons; assumption].
      destruct H as [ls' [H1 [H2 [H3 H4]]]]. exists ls'.
      split; [exact H1|]. split; [|split; assumption].
      simpl in H2. rewrite <- List.app_assoc in H2. exact H2.
Qed.

Lemma split_nl_spec bs ls rem :
  split_nl bs = (ls, rem) -> bs = join ls ++ rem /\ Forall noNL ls /\ noNL rem.
Proof.
  unfold split_nl. intros H. apply split_acc_spec in H; [|apply noNL_nil].
  destruct H as [ls' [H1 [H2 [H3 H4]]]]. simpl in H1, H2. subst ls'. auto.
Qed.

(* ---------------------------------------------------------------------------------------- *)
(** * Artefacts do not arise from indentation or the children suffix *)

Lemma prefixb_app_stop p : forall l c s, ~ In c p -> prefixb p (l ++ c :: s) = prefixb p l.
Proof.
  induction p as [|a p IH]; intros l c s Hc; [reflexivity|].
  destruct l as [|b l]; simpl.
  - destruct (N.eqb_spec a c) as [->|]; [exfalso; apply Hc; left; reflexivity|reflexivity].
  - rewrite IH; [reflexivity|]. intros Hin. apply Hc. right. exact Hin.
Qed.

Lemma starts_artefact_app_sp l s : starts_artefact (l ++ SP :: s) = starts_artefact l.
Proof.
  unfold starts_artefact, artefacts. cbn [existsb].
  rewrite !prefixb_app_stop; [reflexivity| | | |];
    (intros Hin; cbn in Hin; repeat (destruct Hin as [Hin|Hin]; [discriminate|]); exact Hin).
Qed.

Lemma has_artefact_app_sp l s :
  has_artefact (l ++ SP :: s) = has_artefact l || has_artefact (SP :: s).
Proof.
  induction l as [|x l IH]; [reflexivity|].
  change ((x :: l) ++ SP :: s) with (x :: (l ++ SP :: s)).
  cbn [has_artefact]. rewrite IH.
  change (x :: l ++ SP :: s) with ((x :: l) ++ SP :: s). rewrite starts_artefact_app_sp.
  rewrite orb_assoc. reflexivity.
Qed.

Definition safe_byte (b : N) : Prop := b <> 37 /\ b <> 60 /\ b <> 42 /\ b <> 38.

Lemma starts_artefact_safe b s : safe_byte b -> starts_artefact (b :: s) = false.
Proof.
  intros [H1 [H2 [H3 H4]]]. unfold starts_artefact, artefacts. cbn [existsb prefixb].
  destruct (N.eqb_spec 37 b); [congruence|]. destruct (N.eqb_spec 60 b); [congruence|].
  destruct (N.eqb_spec 42 b); [congruence|]. destruct (N.eqb_spec 38 b); [congruence|].
  reflexivity.
Qed.

Lemma has_artefact_safe s : Forall safe_byte s -> has_artefact s = false.
Proof.
  induction 1 as [|b s Hb Hs IH]; [reflexivity|]. cbn [has_artefact].
  rewrite starts_artefact_safe, IH by assumption. reflexivity.
Qed.

Lemma has_artefact_indent n r : has_artefact (repeat SP n ++ r) = has_artefact r.
Proof.
  induction n as [|n IH]; [reflexivity|]. simpl repeat.
  change ((SP :: repeat SP n) ++ r) with (SP :: (repeat SP n ++ r)).
  cbn [has_artefact]. rewrite starts_artefact_safe, IH; [reflexivity|].
  unfold safe_byte, SP. repeat split; discriminate.
Qed.

Lemma digit_safe b : is_digit b = true -> safe_byte b.
Proof. unfold is_digit, safe_byte. intros H. lia. Qed.

Lemma suffix_safe k : Forall safe_byte (suffix k).
Proof.
  destruct k as [k|]; [|constructor]. unfold suffix. apply Forall_app. split.
  - unfold children_pre, safe_byte. repeat constructor; discriminate.
  - apply Forall_app. split.
    + apply Forall_forall. intros b Hb. apply digit_safe.
      pose proof (dec_all_digit (N.of_nat k)) as Hd. rewrite forallb_forall in Hd. auto.
    + unfold RPAR, safe_byte. repeat constructor; discriminate.
Qed.

Lemma has_artefact_print l : has_artefact (print_line l) = has_artefact (label l).
Proof.
  unfold print_line. rewrite has_artefact_indent.
  destruct (nkids l) as [k|] eqn:Ek.
  - assert (Hs : exists s, suffix (Some k) = SP :: s) by (eexists; reflexivity).
    destruct Hs as [s Hs]. pose proof (suffix_safe (Some k)) as Hsafe. rewrite Hs in *.
    rewrite has_artefact_app_sp, (has_artefact_safe _ Hsafe), orb_false_r. reflexivity.
  - simpl. rewrite List.app_nil_r. reflexivity.
Qed.

(* ---------------------------------------------------------------------------------------- *)
(** * Newlines *)

Lemma noNL_app a b : noNL (a ++ b) <-> noNL a /\ noNL b.
Proof. unfold noNL. rewrite in_app_iff. tauto. Qed.

Lemma noNL_repeat_sp n : noNL (repeat SP n).
Proof. intros Hin. apply repeat_spec in Hin. discriminate. Qed.

Lemma noNL_suffix k : noNL (suffix k).
Proof.
  destruct k as [k|]; [|intros []]. unfold suffix. rewrite !noNL_app. repeat split.
  - intros Hin. cbn in Hin. repeat (destruct Hin as [Hin|Hin]; [discriminate|]). exact Hin.
  - intros Hin. pose proof (dec_all_digit (N.of_nat k)) as Hd. rewrite forallb_forall in Hd.
    apply Hd in Hin. discriminate.
  - intros [Hin|[]]. discriminate.
Qed.

Lemma noNL_print_line l : noNL (print_line l) <-> noNL (label l).
Proof.
  unfold print_line. rewrite !noNL_app. pose proof (noNL_repeat_sp (indent l)).
  pose proof (noNL_suffix (nkids l)). tauto.
Qed.

(* ---------------------------------------------------------------------------------------- *)
(** * Printed counts are bounded by the number of lines *)

Lemma render_forest_in_length d k ks :
  In k ks -> (length (render d k) <= length (render_forest d ks))%nat.
Proof.
  induction ks as [|k' ks IH]; intros Hin; [destruct Hin|].
  rewrite render_forest_cons, app_length. destruct Hin as [->|Hin]; [lia|].
  apply IH in Hin. lia.
Qed.

Lemma render_counts_bounded t : forall d l k,
  In l (render d t) -> nkids l = Some k -> (k < length (render d t))%nat.
Proof.
  induction t as [lab ks IH] using rose_ind'; intros d l k Hin Hk.
  rewrite render_node in *. cbn [length]. destruct Hin as [<-|Hin].
  - cbn [nkids] in Hk. pose proof (render_forest_length (S d) ks).
    destruct (length ks) eqn:E; cbn in Hk; [discriminate|]. inversion Hk; subst. lia.
  - unfold render_forest in Hin. apply in_flat_map in Hin. destruct Hin as [kid [Hkid Hin]].
    rewrite Forall_forall in IH. specialize (IH kid Hkid (S d) l k Hin Hk).
    pose proof (render_forest_in_length (S d) kid ks Hkid). lia.
Qed.

Lemma counts_bounded_of_tree raws t :
  map norm_line (map line_of_raw raws) = render 0 t -> counts_bounded (length raws) raws = true.
Proof.
  intros H. unfold counts_bounded. apply forallb_forall. intros r Hr.
  destruct (r_nkids r) as [v|] eqn:Ev; [|reflexivity].
  destruct (N.to_nat v) as [|k] eqn:Ek; [apply N.leb_le; lia|].
  assert (Hin : In (norm_line (line_of_raw r)) (render 0 t)).
  { rewrite <- H. apply in_map. apply in_map. exact Hr. }
  assert (Hk : nkids (norm_line (line_of_raw r)) = Some (S k)).
  { unfold norm_line, line_of_raw. cbn. rewrite Ev. cbn. rewrite Ek. reflexivity. }
  pose proof (render_counts_bounded t 0 _ _ Hin Hk) as Hb.
  rewrite <- H, !map_length in Hb. apply N.leb_le. lia.
Qed.

(* ---------------------------------------------------------------------------------------- *)
(** * Kinds *)

Lemma bytes_eqb_eq a : forall b, bytes_eqb a b = true <-> a = b.
Proof.
  induction a as [|x a IH]; intros [|y b]; simpl; split; intros H; try congruence; try discriminate.
  - apply andb_true_iff in H. destruct H as [H1 H2]. apply N.eqb_eq in H1. apply IH in H2. congruence.
  - inversion H; subst. rewrite N.eqb_refl. apply IH. reflexivity.
Qed.

Lemma memb_In w kinds : memb w kinds = true <-> In w kinds.
Proof.
  unfold memb. rewrite existsb_exists. split.
  - intros [x [Hin He]]. apply bytes_eqb_eq in He. subst. exact Hin.
  - intros Hin. exists w. split; [exact Hin|apply bytes_eqb_eq; reflexivity].
Qed.

Lemma kind_ok_spec kinds w : kind_ok kinds w = true <-> w <> [] /\ In w kinds.
Proof.
  unfold kind_ok. destruct w as [|b w].
  - split; [discriminate|intros [H _]; congruence].
  - rewrite memb_In. split; [intros H; split; [discriminate|exact H]|intros [_ H]; exact H].
Qed.

Lemma first_word_nil lab : no_lead_sp lab -> first_word lab = [] -> lab = [].
Proof.
  destruct lab as [|b r]; [reflexivity|]. unfold first_word. simpl. intros Hb.
  destruct (N.eqb_spec b SP); [contradiction|]. simpl. destruct (span _ r). discriminate.
Qed.

(* ---------------------------------------------------------------------------------------- *)
(** * Clean trees <-> clean lines *)

Lemma Forall_flat_map' {A B} (P : B -> Prop) (f : A -> list B) l :
  Forall P (flat_map f l) <-> Forall (fun x => Forall P (f x)) l.
Proof.
  induction l as [|a l IH]; simpl.
  - split; constructor.
  - rewrite Forall_app, IH. split.
    + intros [H1 H2]. constructor; assumption.
    + intros H. inversion H; subst. split; assumption.
Qed.

Lemma kcount_none_iff (ks : list rose) : kcount (length ks) = None <-> ks = [].
Proof. destruct ks; simpl; split; congruence. Qed.

Lemma label_ok_iff kinds lab (P Q : Prop) : (P <-> Q) -> label_ok kinds lab P <-> label_ok kinds lab Q.
Proof. unfold label_ok. tauto. Qed.

Lemma clean_render kinds t : forall d, clean kinds t <-> Forall (line_clean kinds) (render d t).
Proof.
  induction t as [l ks IH] using rose_ind'; intros d. rewrite render_node. split.
  - intros H. inversion H as [l' ks' Hl Hks]; subst. constructor.
    + unfold line_clean. cbn [label nkids].
      apply (label_ok_iff kinds l _ _ (kcount_none_iff ks)). exact Hl.
    + unfold render_forest. apply Forall_flat_map'. rewrite Forall_forall in *.
      intros k Hk. apply (IH k Hk). apply Hks. exact Hk.
  - intros H. inversion H as [|x r Hl Hf]; subst. constructor.
    + unfold line_clean in Hl. cbn [label nkids] in Hl.
      apply (label_ok_iff kinds l _ _ (kcount_none_iff ks)). exact Hl.
    + unfold render_forest in Hf. apply Forall_flat_map' in Hf. rewrite Forall_forall in *.
      intros k Hk. apply (IH k Hk (S d)). apply Hf. exact Hk.
Qed.

Lemma line_clean_ok kinds l : line_clean kinds l -> line_ok l /\ noNL (label l).
Proof.
  unfold line_clean, label_ok, line_ok. intros [H1 [H2 [H3 [H4 _]]]]. repeat split; auto.
Qed.

(* ---------------------------------------------------------------------------------------- *)
(** * The text theorems *)

Lemma print_lines_join ls : print_lines ls = join (map print_line ls).
Proof. unfold print_lines, join. rewrite flat_map_concat_map, flat_map_concat_map, map_map. reflexivity. Qed.

Lemma map_parse_raw ls : map line_of_raw (map parse_raw ls) = map parse_line ls.
Proof. rewrite map_map. reflexivity. Qed.

(* what acceptance means, stage by stage *)
Lemma classify_ok kinds text :
  classify kinds text = VOk <->
  unterminated text = [] /\ split_lines text <> [] /\
  existsb has_artefact (split_lines text) = false /\
  check_lines (map parse_line (split_lines text)) = true /\
  forallb (fun bs => kind_ok kinds (first_word (label (parse_line bs)))) (split_lines text) = true.
Proof.
  unfold classify, split_lines, unterminated.
  destruct (split_nl text) as [ls rem]. cbn [fst snd].
  destruct rem as [|c rem].
  2:{ split; [discriminate|]. intros [H _]. discriminate. }
  destruct ls as [|l0 ls0] eqn:Els.
  { split; [discriminate|]. intros [_ [H _]]. congruence. }
  rewrite <- Els. assert (Hne : ls <> []) by (rewrite Els; discriminate). clear Els.
  rewrite map_parse_raw.
  assert (Hk : forallb (fun r => kind_ok kinds (first_word (r_label r))) (map parse_raw ls)
               = forallb (fun bs => kind_ok kinds (first_word (label (parse_line bs)))) ls).
  { generalize ls as l'. induction l' as [|x l' IHl]; [reflexivity|]. cbn [map forallb].
    rewrite IHl. reflexivity. }
  rewrite Hk. clear Hk.
  destruct (existsb has_artefact ls) eqn:Ea.
  { split; [discriminate|]. intros [_ [_ [H _]]]. discriminate. }
  destruct (check_lines (map parse_line ls)) eqn:Ec.
  2:{ split.
      - destruct (counts_bounded (length ls) (map parse_raw ls)); discriminate.
      - intros [_ [_ [_ [H _]]]]. discriminate. }
  assert (Hb : counts_bounded (length ls) (map parse_raw ls) = true).
  { apply check_lines_spec in Ec. destruct Ec as [t Ht].
    rewrite <- (map_length parse_raw ls). apply (counts_bounded_of_tree _ t).
    rewrite map_parse_raw. exact Ht. }
  rewrite Hb. cbn [negb].
  destruct (forallb _ ls) eqn:Ek.
  - split; intros _; [|reflexivity]. repeat split; try reflexivity. exact Hne.
  - split; [discriminate|]. intros [_ [_ [_ [_ H]]]]. discriminate.
Qed.

(* Soundness, as asked: an accepted text is (up to the "(children 0)" spelling of leaves) the
   rendering of a single rooted tree, has no artefact in any line, and the first word of every
   line is a known kind. *)
Theorem check_text_sound kinds text :
  check_text kinds text = true ->
  exists t,
    map norm_line (map parse_line (split_lines text)) = render 0 t /\
    unterminated text = [] /\
    Forall (fun bs => has_artefact bs = false) (split_lines text) /\
    Forall (fun bs => In (first_word (label (parse_line bs))) kinds) (split_lines text).
Proof.
  unfold check_text. destruct (classify kinds text) eqn:E; try discriminate. intros _.
  apply classify_ok in E. destruct E as [Hu [Hne [Ha [Hc Hk]]]].
  apply check_lines_spec in Hc. destruct Hc as [t Ht]. exists t.
  split; [exact Ht|]. split; [exact Hu|]. split.
  - apply Forall_forall. intros bs Hin. destruct (has_artefact bs) eqn:Eb; [|reflexivity].
    assert (existsb has_artefact (split_lines text) = true)
      by (apply existsb_exists; exists bs; auto). congruence.
  - apply Forall_forall. intros bs Hin. rewrite forallb_forall in Hk.
    apply Hk in Hin. apply kind_ok_spec in Hin. apply Hin.
Qed.

(* Exactness: the accepted texts are precisely the print-outs of clean lines that form a single
   rooted tree up to the spelling of a leaf's count ("(children 0)" or nothing). *)
Theorem check_text_exact kinds text :
  check_text kinds text = true <->
  exists ls, text = print_lines ls /\ Forall (line_clean kinds) ls /\
             exists t, map norm_line ls = render 0 t.
Proof.
  split.
  - unfold check_text. destruct (classify kinds text) eqn:E; try discriminate. intros _.
    apply classify_ok in E. destruct E as [Hu [Hne [Ha [Hc Hk]]]].
    apply check_lines_spec in Hc.
    unfold split_lines, unterminated in *.
    destruct (split_nl text) as [ls rem] eqn:Es. cbn [fst snd] in *. subst rem.
    apply split_nl_spec in Es. destruct Es as [Htext [Hnl _]]. rewrite List.app_nil_r in Htext.
    exists (map parse_line ls). split; [|split; [|exact Hc]].
    + rewrite print_lines_join, map_map, Htext. f_equal.
      rewrite <- (map_id ls) at 1. apply map_ext. intros bs. symmetry. apply print_parse.
    + apply Forall_forall. intros ln Hin.
      apply in_map_iff in Hin. destruct Hin as [bs [<- Hbs]].
      rewrite Forall_forall in Hnl. specialize (Hnl bs Hbs).
      rewrite forallb_forall in Hk. specialize (Hk bs Hbs). apply kind_ok_spec in Hk.
      destruct Hk as [Hw Hkin].
      destruct (parse_line_ok bs) as [Hsp [Hleaf Hne']].
      unfold line_clean, label_ok. repeat split.
      * apply noNL_print_line. rewrite print_parse. exact Hnl.
      * intros He. apply Hw. rewrite He. reflexivity.
      * exact Hsp.
      * exact Hleaf.
      * rewrite <- has_artefact_print, print_parse.
        destruct (has_artefact bs) eqn:Eb; [|reflexivity].
        assert (existsb has_artefact ls = true) by (apply existsb_exists; exists bs; auto).
        congruence.
      * exact Hkin.
  - intros [ls [-> [Hc [t Ht]]]].
    unfold check_text. replace (classify kinds (print_lines ls)) with VOk; [reflexivity|].
    symmetry. apply classify_ok.
    assert (Hsplit : split_nl (print_lines ls) = (map print_line ls, [])).
    { rewrite print_lines_join. apply split_nl_join.
      apply Forall_forall. intros bs Hin. apply in_map_iff in Hin. destruct Hin as [l [<- Hl]].
      apply noNL_print_line. rewrite Forall_forall in Hc. apply (line_clean_ok kinds l). auto. }
    unfold split_lines, unterminated. rewrite Hsplit. cbn [fst snd].
    assert (Hpp : map parse_line (map print_line ls) = ls).
    { rewrite map_map. rewrite <- (map_id ls) at 2. apply map_ext_in. intros l Hl.
      apply parse_print. rewrite Forall_forall in Hc. apply (line_clean_ok kinds l). auto. }
    split; [reflexivity|]. split.
    { destruct ls; [destruct t; discriminate|discriminate]. }
    split.
    { destruct (existsb has_artefact (map print_line ls)) eqn:E; [|reflexivity].
      apply existsb_exists in E. destruct E as [bs [Hin Hb]].
      apply in_map_iff in Hin. destruct Hin as [l [<- Hl]].
      rewrite has_artefact_print in Hb. rewrite Forall_forall in Hc.
      destruct (Hc l Hl) as [_ [_ [_ [_ [Hno _]]]]]. congruence. }
    split.
    { rewrite Hpp. apply check_lines_spec. exists t. exact Ht. }
    apply forallb_forall. intros bs Hin.
    assert (Hin' : In (parse_line bs) ls) by (rewrite <- Hpp; apply in_map; exact Hin).
    rewrite Forall_forall in Hc. destruct (Hc _ Hin') as [_ [Hne [Hsp [_ [_ Hkin]]]]].
    apply kind_ok_spec. split; [|exact Hkin].
    intros He. apply Hne. apply first_word_nil; assumption.
Qed.

(* Non-vacuity / completeness at text level, as asked: the canonical print-out of every clean
   tree is accepted ... *)
Corollary check_text_print kinds t : clean kinds t -> check_text kinds (print_tree t) = true.
Proof.
  intros H. apply check_text_exact. exists (render 0 t). split; [reflexivity|]. split.
  - apply (clean_render kinds t 0). exact H.
  - exists t. apply norm_render.
Qed.

(* ... and an accepted text without any "(children 0)" is exactly such a print-out *)
Corollary check_text_exact_canonical kinds text :
  (check_text kinds text = true /\
   Forall (fun bs => nkids (parse_line bs) <> Some 0%nat) (split_lines text))
  <-> exists t, clean kinds t /\ text = print_tree t.
Proof.
  split.
  - intros [H Hz]. pose proof H as H'. apply check_text_exact in H. destruct H as [ls [-> [Hc [t Ht]]]].
    assert (Hsplit : map parse_line (split_lines (print_lines ls)) = ls).
    { unfold split_lines. rewrite print_lines_join, split_nl_join.
      - cbn [fst]. rewrite map_map. rewrite <- (map_id ls) at 2. apply map_ext_in. intros l Hl.
        apply parse_print. rewrite Forall_forall in Hc. apply (line_clean_ok kinds l). auto.
      - apply Forall_forall. intros bs Hin. apply in_map_iff in Hin. destruct Hin as [l [<- Hl]].
        apply noNL_print_line. rewrite Forall_forall in Hc. apply (line_clean_ok kinds l). auto. }
    assert (Hn : map norm_line ls = ls).
    { rewrite <- Hsplit. rewrite <- (map_id (map parse_line _)) at 2. rewrite map_map.
      rewrite map_map. apply map_ext_in. intros bs Hin. apply norm_line_id.
      rewrite Forall_forall in Hz. apply Hz. exact Hin. }
    rewrite Hn in Ht. subst ls. exists t. split; [|reflexivity].
    apply (clean_render kinds t 0). exact Hc.
  - intros [t [Hc ->]]. split; [apply check_text_print; exact Hc|].
    apply (clean_render kinds t 0) in Hc.
    assert (Hsplit : map parse_line (split_lines (print_tree t)) = render 0 t).
    { unfold print_tree, split_lines. rewrite print_lines_join, split_nl_join.
      - cbn [fst]. rewrite map_map. rewrite <- (map_id (render 0 t)) at 2. apply map_ext_in.
        intros l Hl. apply parse_print. rewrite Forall_forall in Hc. apply (line_clean_ok kinds l). auto.
      - apply Forall_forall. intros bs Hin. apply in_map_iff in Hin. destruct Hin as [l [<- Hl]].
        apply noNL_print_line. rewrite Forall_forall in Hc. apply (line_clean_ok kinds l). auto. }
    apply Forall_forall. intros bs Hin.
    pose proof (render_no_zero 0 t) as Hz. rewrite Forall_forall in Hz. apply Hz.
    rewrite <- Hsplit. apply in_map. exact Hin.
Qed.

(* the printed text determines the clean tree *)
Corollary print_tree_inj kinds t t' :
  clean kinds t -> clean kinds t' -> print_tree t = print_tree t' -> t = t'.
Proof.
  intros Hc Hc' He.
  assert (H : forall u, clean kinds u -> map parse_line (split_lines (print_tree u)) = render 0 u).
  { intros u Hu. apply (clean_render kinds u 0) in Hu.
    unfold print_tree, split_lines. rewrite print_lines_join, split_nl_join.
    - cbn [fst]. rewrite map_map. rewrite <- (map_id (render 0 u)) at 2. apply map_ext_in.
      intros l Hl. apply parse_print. rewrite Forall_forall in Hu. apply (line_clean_ok kinds l). auto.
    - apply Forall_forall. intros bs Hin. apply in_map_iff in Hin. destruct Hin as [l [<- Hl]].
      apply noNL_print_line. rewrite Forall_forall in Hu. apply (line_clean_ok kinds l). auto. }
  apply render_inj. rewrite <- (H t Hc), <- (H t' Hc'), He. reflexivity.
Qed.

Corollary check_text_false_not_tree kinds text :
  (forall t, map norm_line (map parse_line (split_lines text)) <> render 0 t) ->
  check_text kinds text = false.
Proof.
  intros H. destruct (check_text kinds text) eqn:E; [|reflexivity].
  apply check_text_sound in E. destruct E as [t [Ht _]]. exfalso. exact (H t Ht).
Qed.
