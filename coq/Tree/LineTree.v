(* C04 -- the EXPLAIN AST text layout, as a specification and a decision procedure.

   DEFINITIONS ONLY (all total and computable; extracted to /verif/driver/tree).
   Proofs: Tree/LineTreeProof.v (line level), Tree/LineTextProof.v (text level).

   Layout (ClickHouse `EXPLAIN AST`, cf. /repo/parser/testdata/*/explain*.txt):
     - one node per line, terminated by a newline (byte 10);
     - a node at depth d is indented by exactly d spaces (byte 32);
     - then the label (node kind, possibly followed by more words);
     - then the suffix " (children k)" with k in canonical decimal, k = the number of nodes
       printed directly beneath; for a node without children the suffix is absent ("absent
       means zero"; this is the only form in the 113774 golden files) or the explicit
       " (children 0)" (the count still equals the number of nodes beneath it, so the property
       holds; /repo prints it e.g. for an empty select list) -- the two spellings of a leaf
       are identified by [norm_line];
     - children follow their parent in pre-order.                                          *)
From Coq Require Import List NArith Bool Decimal.
Import ListNotations.
Local Open Scope N_scope.

(* ---------------------------------------------------------------------------------------- *)
(** * Rose trees and their rendering as lines *)

Inductive rose := Node (lbl : list N) (kids : list rose).

Record line := mkLine { indent : nat; label : list N; nkids : option nat }.

(* the children count as printed: absent for zero *)
Definition kcount (k : nat) : option nat :=
  match k with O => None | S _ => Some k end.

Fixpoint render (d : nat) (t : rose) : list line :=
  match t with
  | Node l ks => mkLine d l (kcount (length ks)) :: flat_map (render (S d)) ks
  end.

Definition render_forest (d : nat) (ks : list rose) : list line := flat_map (render d) ks.

(* ---------------------------------------------------------------------------------------- *)
(** * One-pass recursive-descent recogniser

   [p_tree fuel d ls] reads exactly one tree whose root is at indentation [d] from the front of
   [ls] and returns it with the unread lines.  Each line is looked at once.  [fuel] bounds the
   nesting depth; [length ls] always suffices (LineTreeProof.p_tree_complete).             *)

Fixpoint p_n {A : Type} (p : list line -> option (A * list line)) (k : nat) (ls : list line)
  : option (list A * list line) :=
  match k with
  | O => Some ([], ls)
  | S k' =>
      match p ls with
      | Some (a, rest) =>
          match p_n p k' rest with
          | Some (l, rest') => Some (a :: l, rest')
          | None => None
          end
      | None => None
      end
  end.

Fixpoint p_tree (fuel : nat) (d : nat) (ls : list line) : option (rose * list line) :=
  match fuel with
  | O => None
  | S f =>
      match ls with
      | [] => None
      | l :: rest =>
          if Nat.eqb (indent l) d then
            match nkids l with
            | None => Some (Node (label l) [], rest)
            | Some O => None                      (* not canonical; parse_lines normalises first *)
            | Some k =>
                match p_n (p_tree f (S d)) k rest with
                | Some (ks, rest') => Some (Node (label l) ks, rest')
                | None => None
                end
            end
          else None
      end
  end.

(* "(children 0)" on a line is the same statement as no suffix: a node without children.
   [render] prints the canonical spelling (no suffix); a list of lines is read modulo this. *)
Definition norm_line (l : line) : line :=
  mkLine (indent l) (label l) (match nkids l with Some O => None | k => k end).

(* the whole list is exactly one tree rooted at indentation 0 (up to the spelling of leaves);
   the recogniser itself is strict (it sees canonical lines only) *)
Definition parse_lines (ls : list line) : option rose :=
  match p_tree (length ls) 0 (map norm_line ls) with
  | Some (t, []) => Some t
  | _ => None
  end.

Definition check_lines (ls : list line) : bool :=
  match parse_lines ls with Some _ => true | None => false end.

(* ---------------------------------------------------------------------------------------- *)
(** * Text level: bytes <-> lines *)

Definition SP : N := 32.
Definition NL : N := 10.
Definition RPAR : N := 41.

(* " (children " *)
Definition children_pre : list N := [32; 40; 99; 104; 105; 108; 100; 114; 101; 110; 32].

(* decimal digits <-> Decimal.uint (most significant digit first in both) *)
Fixpoint digits_of_uint (u : uint) : list N :=
  match u with
  | Nil => []
  | D0 u => 48 :: digits_of_uint u
  | D1 u => 49 :: digits_of_uint u
  | D2 u => 50 :: digits_of_uint u
  | D3 u => 51 :: digits_of_uint u
  | D4 u => 52 :: digits_of_uint u
  | D5 u => 53 :: digits_of_uint u
  | D6 u => 54 :: digits_of_uint u
  | D7 u => 55 :: digits_of_uint u
  | D8 u => 56 :: digits_of_uint u
  | D9 u => 57 :: digits_of_uint u
  end.

Definition digit_cons (b : N) (u : uint) : option uint :=
  if b =? 48 then Some (D0 u) else
  if b =? 49 then Some (D1 u) else
  if b =? 50 then Some (D2 u) else
  if b =? 51 then Some (D3 u) else
  if b =? 52 then Some (D4 u) else
  if b =? 53 then Some (D5 u) else
  if b =? 54 then Some (D6 u) else
  if b =? 55 then Some (D7 u) else
  if b =? 56 then Some (D8 u) else
  if b =? 57 then Some (D9 u) else None.

Fixpoint uint_of_digits (ds : list N) : option uint :=
  match ds with
  | [] => Some Nil
  | b :: r =>
      match uint_of_digits r with
      | Some u => digit_cons b u
      | None => None
      end
  end.

(* canonical: non-empty, no leading zero except for "0" itself *)
Definition canon (u : uint) : bool :=
  match u with
  | Nil => false
  | D0 Nil => true
  | D0 _ => false
  | _ => true
  end.

Definition dec (n : N) : list N := digits_of_uint (N.to_uint n).

Definition is_digit (b : N) : bool := (48 <=? b) && (b <=? 57).

Fixpoint span {A : Type} (p : A -> bool) (l : list A) : list A * list A :=
  match l with
  | [] => ([], [])
  | a :: r => if p a then let (x, y) := span p r in (a :: x, y) else ([], l)
  end.

(* linear-time reversal (List.rev is quadratic); = List.rev by LineTextProof.lrev_rev *)
Definition lrev {A : Type} (l : list A) : list A := rev_append l [].

Fixpoint strip_prefix (p l : list N) : option (list N) :=
  match p with
  | [] => Some l
  | a :: p' =>
      match l with
      | b :: l' => if a =? b then strip_prefix p' l' else None
      | [] => None
      end
  end.

(* [strip_suffix bs = Some (lab, k)] iff bs = lab ++ " (children " ++ dec k ++ ")"
   (LineTextProof.strip_suffix_spec); works on the reversed line, from the ")" leftwards. *)
Definition strip_suffix (bs : list N) : option (list N * N) :=
  match lrev bs with
  | c :: r =>
      if c =? RPAR then
        let (ds, r') := span is_digit r in
        match uint_of_digits (lrev ds) with
        | Some u =>
            if canon u then
              match strip_prefix (lrev children_pre) r' with
              | Some lab_rev => Some (lrev lab_rev, N.of_uint u)
              | None => None
              end
            else None
        | None => None
        end
      else None
  | [] => None
  end.

Fixpoint count_sp (bs : list N) : nat * list N :=
  match bs with
  | b :: r => if b =? SP then let (n, r') := count_sp r in (S n, r') else (O, bs)
  | [] => (O, [])
  end.

(* a line whose count is still a binary number (what the executable checker works with, so that
   a hostile "(children 99999999999)" does not build a unary number) *)
Record rawline := mkRaw { r_indent : nat; r_label : list N; r_nkids : option N }.

Definition parse_raw (bs : list N) : rawline :=
  let (n, r) := count_sp bs in
  match strip_suffix r with
  | Some (lab, k) => mkRaw n lab (Some k)
  | None => mkRaw n r None
  end.

Definition line_of_raw (r : rawline) : line :=
  mkLine (r_indent r) (r_label r) (option_map N.to_nat (r_nkids r)).

Definition parse_line (bs : list N) : line := line_of_raw (parse_raw bs).

(* complete (newline-terminated) lines, and the unterminated remainder; one left-to-right pass,
   tail-recursive (EXPLAIN texts of the corpus reach 300 kB).  [cur]: the bytes of the current
   line, reversed; [acc]: the complete lines so far, reversed. *)
Fixpoint split_acc (cur : list N) (acc : list (list N)) (bs : list N) : list (list N) * list N :=
  match bs with
  | [] => (lrev acc, lrev cur)
  | b :: r =>
      if b =? NL then split_acc [] (lrev cur :: acc) r
      else split_acc (b :: cur) acc r
  end.

Definition split_nl (bs : list N) : list (list N) * list N := split_acc [] [] bs.

Definition split_lines (bs : list N) : list (list N) := fst (split_nl bs).
Definition unterminated (bs : list N) : list N := snd (split_nl bs).

Definition first_word (lab : list N) : list N := fst (span (fun b => negb (b =? SP)) lab).

(* printing *)
Definition suffix (k : option nat) : list N :=
  match k with
  | None => []
  | Some k => children_pre ++ dec (N.of_nat k) ++ [RPAR]
  end.

Definition print_line (l : line) : list N :=
  repeat SP (indent l) ++ label l ++ suffix (nkids l).

Definition print_lines (ls : list line) : list N :=
  flat_map (fun l => print_line l ++ [NL]) ls.

Definition print_tree (t : rose) : list N := print_lines (render 0 t).

(* ---------------------------------------------------------------------------------------- *)
(** * Go formatting artefacts *)

Definition artefacts : list (list N) :=
  [ [37; 33]                      (* %!    *)
  ; [60; 110; 105; 108; 62]       (* <nil> *)
  ; [42; 97; 115; 116; 46]        (* *ast. *)
  ; [38; 123] ].                  (* &{    *)

Fixpoint prefixb (p l : list N) : bool :=
  match p with
  | [] => true
  | a :: p' =>
      match l with
      | b :: l' => (a =? b) && prefixb p' l'
      | [] => false
      end
  end.

Definition starts_artefact (l : list N) : bool := existsb (fun p => prefixb p l) artefacts.

Fixpoint has_artefact (l : list N) : bool :=
  match l with
  | [] => false
  | _ :: r => starts_artefact l || has_artefact r
  end.

(* ---------------------------------------------------------------------------------------- *)
(** * Node kinds *)

Fixpoint bytes_eqb (a b : list N) : bool :=
  match a, b with
  | [], [] => true
  | x :: a', y :: b' => (x =? y) && bytes_eqb a' b'
  | _, _ => false
  end.

Definition memb (w : list N) (kinds : list (list N)) : bool := existsb (bytes_eqb w) kinds.

(* the first word of a node line: non-empty and one of the kinds ClickHouse prints *)
Definition kind_ok (kinds : list (list N)) (w : list N) : bool :=
  match w with [] => false | _ => memb w kinds end.

(* ---------------------------------------------------------------------------------------- *)
(** * The text checker *)

Inductive verdict := VOk | VEmpty | VLines | VArtefact | VTree | VKind.

(* no printed count may exceed the number of lines: implied by being a tree
   (LineTextProof.render_counts_bounded); checked first so that the conversion to [nat] below
   is bounded by the size of the input *)
Definition counts_bounded (n : nat) (raws : list rawline) : bool :=
  forallb (fun r => match r_nkids r with
                    | Some k => k <=? N.of_nat n
                    | None => true
                    end) raws.

Definition classify (kinds : list (list N)) (text : list N) : verdict :=
  let (ls, rem) := split_nl text in
  match rem with
  | _ :: _ => VLines                                   (* last line not newline-terminated *)
  | [] =>
      match ls with
      | [] => VEmpty
      | _ =>
          if existsb has_artefact ls then VArtefact else
          let raws := map parse_raw ls in
          if negb (counts_bounded (length ls) raws) then VTree else
          if negb (check_lines (map line_of_raw raws)) then VTree else
          if forallb (fun r => kind_ok kinds (first_word (r_label r))) raws then VOk else VKind
      end
  end.

Definition check_text (kinds : list (list N)) (text : list N) : bool :=
  match classify kinds text with VOk => true | _ => false end.

(* ---------------------------------------------------------------------------------------- *)
(** * Specification predicates (Prop; not extracted) *)

Definition noNL (l : list N) : Prop := ~ In NL l.

Definition no_lead_sp (l : list N) : Prop :=
  match l with b :: _ => b <> SP | [] => True end.

(* what a label must satisfy for the text to be unambiguous and acceptable:
   no line break, non-empty, does not start with a space, (for a leaf) does not itself end in
   something that reads as a children suffix, no Go artefact, first word is a known kind *)
Definition label_ok (kinds : list (list N)) (lab : list N) (leaf : Prop) : Prop :=
  noNL lab /\ lab <> [] /\ no_lead_sp lab /\ (leaf -> strip_suffix lab = None) /\
  has_artefact lab = false /\ In (first_word lab) kinds.

Inductive clean (kinds : list (list N)) : rose -> Prop :=
| clean_node l ks :
    label_ok kinds l (ks = []) -> Forall (clean kinds) ks -> clean kinds (Node l ks).

Definition line_clean (kinds : list (list N)) (ln : line) : Prop :=
  label_ok kinds (label ln) (nkids ln = None).
