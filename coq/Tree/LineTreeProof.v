(* C04 -- line level: [check_lines] decides "is the rendering of a single rooted tree",
   soundly and completely; the tree is unique. *)
From Coq Require Import List Arith Bool Lia.
From DC Require Import Tree.LineTree.
Import ListNotations.

(* ---------------------------------------------------------------------------------------- *)
(** * Induction on rose trees *)

Section RoseInd.
  Variable P : rose -> Prop.
  Hypothesis Hnode : forall l ks, Forall P ks -> P (Node l ks).

  Fixpoint rose_ind' (t : rose) : P t :=
    match t with
    | Node l ks =>
        Hnode l ks
          ((fix go (ks : list rose) : Forall P ks :=
              match ks with
              | [] => Forall_nil P
              | k :: ks' => Forall_cons k (rose_ind' k) (go ks')
              end) ks)
    end.
End RoseInd.

(* ---------------------------------------------------------------------------------------- *)
(** * Basic facts about [render] *)

Lemma render_node d l ks :
  render d (Node l ks) = mkLine d l (kcount (length ks)) :: render_forest (S d) ks.
Proof. reflexivity. Qed.

Lemma render_forest_cons d k ks :
  render_forest d (k :: ks) = render d k ++ render_forest d ks.
Proof. reflexivity. Qed.

Lemma render_nonempty d t : render d t <> [].
Proof. destruct t; discriminate. Qed.

Lemma render_length_pos d t : 1 <= length (render d t).
Proof. destruct t; cbn; lia. Qed.

Lemma render_forest_length d ks : length ks <= length (render_forest d ks).
Proof.
  induction ks as [|k ks IH]; [cbn; lia|].
  rewrite render_forest_cons, app_length. pose proof (render_length_pos d k). cbn [length]. lia.
Qed.

Lemma kcount_some k : k <> 0 -> kcount k = Some k.
Proof. destruct k; [congruence|reflexivity]. Qed.

(* ---------------------------------------------------------------------------------------- *)
(** * Soundness of the recogniser *)

Lemma p_n_sound {A} (p : list line -> option (A * list line)) (r : A -> list line) :
  (forall ls a rest, p ls = Some (a, rest) -> ls = r a ++ rest) ->
  forall k ls l rest, p_n p k ls = Some (l, rest) ->
    length l = k /\ ls = flat_map r l ++ rest.
Proof.
  intros Hp k. induction k as [|k IH]; intros ls l rest H; cbn in H.
  - inversion H; subst. split; reflexivity.
  - destruct (p ls) as [[a r1]|] eqn:E1; [|discriminate].
    destruct (p_n p k r1) as [[l' r2]|] eqn:E2; [|discriminate].
    inversion H; subst. apply Hp in E1. apply IH in E2. destruct E2 as [E2 E3].
    split; [cbn; lia|]. cbn [flat_map]. rewrite <- app_assoc, <- E3. exact E1.
Qed.

Lemma p_tree_sound fuel : forall d ls t rest,
  p_tree fuel d ls = Some (t, rest) -> ls = render d t ++ rest.
Proof.
  induction fuel as [|f IH]; intros d ls t rest H; cbn in H; [discriminate|].
  destruct ls as [|l ls]; [discriminate|].
  destruct (Nat.eqb (indent l) d) eqn:Ed; [|discriminate].
  apply Nat.eqb_eq in Ed.
  destruct l as [i lab nk]; cbn in *. subst i.
  destruct nk as [k|].
  - destruct k as [|k]; [discriminate|].
    destruct (p_n (p_tree f (S d)) (S k) ls) as [[ks r']|] eqn:E; [|discriminate].
    inversion H; subst.
    apply (p_n_sound _ (render (S d))) in E; [|intros; apply IH; assumption].
    destruct E as [E1 E2]. rewrite render_node, E1. cbn [kcount app]. f_equal. exact E2.
  - inversion H; subst. reflexivity.
Qed.

(* ---------------------------------------------------------------------------------------- *)
(** * Completeness of the recogniser *)

Lemma p_n_complete {A} (p : list line -> option (A * list line)) (r : A -> list line) :
  forall l rest,
    Forall (fun a => forall rest', p (r a ++ rest') = Some (a, rest')) l ->
    p_n p (length l) (flat_map r l ++ rest) = Some (l, rest).
Proof.
  induction l as [|a l IH]; intros rest H; [reflexivity|].
  inversion H as [|? ? Ha Hl]; subst. cbn [length flat_map p_n].
  rewrite <- app_assoc, Ha, IH by assumption. reflexivity.
Qed.

Lemma p_tree_complete : forall t d fuel rest,
  length (render d t) <= fuel ->
  p_tree fuel d (render d t ++ rest) = Some (t, rest).
Proof.
  induction t as [l ks IH] using rose_ind'; intros d fuel rest Hf.
  rewrite render_node in *. cbn [length] in Hf.
  destruct fuel as [|f]; [lia|]. cbn [p_tree app indent nkids label].
  rewrite Nat.eqb_refl.
  destruct ks as [|k0 ks0] eqn:Eks; [reflexivity|]. rewrite <- Eks in *.
  assert (Hk : kcount (length ks) = Some (length ks)) by (apply kcount_some; subst; discriminate).
  rewrite Hk. destruct (length ks) as [|n] eqn:El; [subst; discriminate|]. rewrite <- El.
  unfold render_forest.
  rewrite (p_n_complete (p_tree f (S d)) (render (S d))); [reflexivity|].
  clear Hk El Eks. revert IH Hf. unfold render_forest. generalize (S d) as d'.
  induction ks as [|k ks IHks]; intros d' IH Hf; constructor.
  - intros rest'. inversion IH; subst. apply H1.
    cbn [flat_map] in Hf. rewrite app_length in Hf. lia.
  - inversion IH; subst. apply IHks; [assumption|].
    cbn [flat_map] in Hf. rewrite app_length in Hf. lia.
Qed.

(* ---------------------------------------------------------------------------------------- *)
(** * Normalisation *)

Lemma render_no_zero d t : Forall (fun l => nkids l <> Some 0) (render d t).
Proof.
  revert d. induction t as [l ks IH] using rose_ind'; intros d. rewrite render_node.
  constructor.
  - cbn. destruct (length ks); cbn; congruence.
  - unfold render_forest. generalize (S d) as d'. induction ks as [|k ks IHks]; intros d'; cbn.
    + constructor.
    + inversion IH; subst. apply Forall_app. split; [apply H1|apply IHks; assumption].
Qed.

Lemma norm_line_id l : nkids l <> Some 0 -> norm_line l = l.
Proof. destruct l as [i lab [[|k]|]]; cbn; intros H; try reflexivity. congruence. Qed.

Lemma norm_line_idem l : norm_line (norm_line l) = norm_line l.
Proof. destruct l as [i lab [[|k]|]]; reflexivity. Qed.

(* rendered lines are canonical *)
Lemma norm_render d t : map norm_line (render d t) = render d t.
Proof.
  pose proof (render_no_zero d t) as H. induction H as [|l ls Hl _ IH]; [reflexivity|].
  cbn [map]. rewrite IH, norm_line_id by exact Hl. reflexivity.
Qed.

(* ---------------------------------------------------------------------------------------- *)
(** * The theorems *)

Theorem parse_lines_spec ls t : parse_lines ls = Some t <-> map norm_line ls = render 0 t.
Proof.
  unfold parse_lines. split.
  - destruct (p_tree (length ls) 0 (map norm_line ls)) as [[t' [|x r]]|] eqn:E; try discriminate.
    intros H; inversion H; subst. apply p_tree_sound in E. rewrite app_nil_r in E. exact E.
  - intros H. rewrite H. rewrite <- (app_nil_r (render 0 t)) at 1.
    rewrite p_tree_complete; [reflexivity|].
    rewrite <- (map_length norm_line ls), H. lia.
Qed.

(* sound and complete: the lines are, up to writing a leaf's count as "(children 0)" or not at
   all, the rendering of a single rooted tree *)
Theorem check_lines_spec ls : check_lines ls = true <-> exists t, map norm_line ls = render 0 t.
Proof.
  unfold check_lines. split.
  - destruct (parse_lines ls) as [t|] eqn:E; [|discriminate].
    intros _. exists t. apply parse_lines_spec. exact E.
  - intros [t Ht]. apply parse_lines_spec in Ht. rewrite Ht. reflexivity.
Qed.

(* in particular every rendering is accepted, and lines without "(children 0)" are accepted iff
   they are literally a rendering *)
Corollary check_lines_render t : check_lines (render 0 t) = true.
Proof. apply check_lines_spec. exists t. apply norm_render. Qed.

Corollary check_lines_strict ls :
  Forall (fun l => nkids l <> Some 0) ls ->
  (check_lines ls = true <-> exists t, ls = render 0 t).
Proof.
  intros H. rewrite check_lines_spec.
  assert (E : map norm_line ls = ls).
  { induction H as [|l r Hl _ IH]; [reflexivity|]. cbn [map]. rewrite IH, norm_line_id by exact Hl. reflexivity. }
  rewrite E. reflexivity.
Qed.

(* the tree is determined by its lines *)
Theorem render_inj t t' : render 0 t = render 0 t' -> t = t'.
Proof.
  intros H.
  assert (H1 : parse_lines (render 0 t) = Some t) by (apply parse_lines_spec; apply norm_render).
  assert (H2 : parse_lines (render 0 t) = Some t') by (apply parse_lines_spec; rewrite norm_render; exact H).
  congruence.
Qed.

(* the depth lemma: rendering deeper only shifts the indentation *)
Definition shift (n : nat) (l : line) : line := mkLine (n + indent l) (label l) (nkids l).

Lemma render_shift t : forall d, render d t = map (shift d) (render 0 t).
Proof.
  assert (G : forall d e, render (d + e) t = map (shift d) (render e t)).
  { induction t as [l ks IH] using rose_ind'; intros d e. rewrite !render_node. cbn [map].
    f_equal. unfold render_forest.
    replace (S (d + e)) with (d + S e) by lia. generalize (S e) as e'. intros e'.
    induction ks as [|k ks IHks]; [reflexivity|]. inversion IH; subst.
    cbn [flat_map]. rewrite map_app. f_equal; [apply H1|apply IHks; assumption]. }
  intros d. rewrite <- (G d 0). f_equal. lia.
Qed.

(* ---------------------------------------------------------------------------------------- *)
(** * A line that claims no children is not followed by a deeper line *)

Lemma render_indent_ge t : forall d, Forall (fun l => d <= indent l) (render d t).
Proof.
  induction t as [l ks IH] using rose_ind'; intros d. rewrite render_node. constructor; [cbn; lia|].
  unfold render_forest. apply Forall_forall. intros x Hx. apply in_flat_map in Hx.
  destruct Hx as [k [Hk Hx]]. rewrite Forall_forall in IH. specialize (IH k Hk (S d)).
  rewrite Forall_forall in IH. specialize (IH x Hx). lia.
Qed.

Definition leaf_next_ok (ls : list line) : Prop :=
  forall pre a b post, ls = pre ++ a :: b :: post -> nkids a = None -> indent b <= indent a.

Lemma forest_leaf_next d ks :
  Forall (fun k => forall d, leaf_next_ok (render d k)) ks -> leaf_next_ok (render_forest d ks).
Proof.
  induction ks as [|k ks IHks]; intros IH pre a b post E Ha.
  - destruct pre; discriminate.
  - inversion IH as [|? ? Hk Hks]; subst. rewrite render_forest_cons in E.
    apply app_eq_app in E. destruct E as [l [[E1 E2]|[E1 E2]]].
    + destruct l as [|a' l].
      * cbn in E2. apply (IHks Hks [] a b post); [symmetry; exact E2|exact Ha].
      * cbn in E2. inversion E2; subst a'. destruct l as [|b' l].
        -- (* a is the last line of k's rendering, b the first line of the next sibling *)
           cbn in H1. destruct ks as [|[l2 ks2] ks']; [discriminate|].
           rewrite render_forest_cons, render_node in H1. inversion H1; subst. cbn [indent].
           pose proof (render_indent_ge k d) as Hge. rewrite Forall_forall in Hge.
           apply Hge. rewrite E1. apply in_or_app. right. left. reflexivity.
        -- cbn in H1. inversion H1; subst b'. apply (Hk d pre a b l); [exact E1|exact Ha].
    + apply (IHks Hks l a b post); [exact E2|exact Ha].
Qed.

Lemma render_leaf_next t : forall d, leaf_next_ok (render d t).
Proof.
  induction t as [l ks IH] using rose_ind'; intros d pre a b post E Ha.
  rewrite render_node in E. destruct pre as [|x pre].
  - cbn in E. inversion E as [[E1 E2]]. subst a. cbn [nkids] in Ha.
    destruct ks; [discriminate|discriminate].
  - cbn in E. inversion E as [[E1 E2]].
    apply (forest_leaf_next (S d) ks IH pre a b post); [exact E2|exact Ha].
Qed.

(* ... so a "(children 0)" (or suffix-less) line directly followed by a deeper line is rejected *)
Theorem check_lines_rejects_false_leaf pre a b post :
  (nkids a = None \/ nkids a = Some 0) -> indent a < indent b ->
  check_lines (pre ++ a :: b :: post) = false.
Proof.
  intros Ha Hb. destruct (check_lines (pre ++ a :: b :: post)) eqn:E; [|reflexivity].
  apply check_lines_spec in E. destruct E as [t Ht].
  rewrite map_app in Ht. cbn [map] in Ht. symmetry in Ht.
  assert (Hn : nkids (norm_line a) = None).
  { destruct a as [i lab nk]. cbn in *. destruct Ha as [->| ->]; reflexivity. }
  pose proof (render_leaf_next t 0 _ _ _ _ Ht Hn) as Hle.
  unfold norm_line in Hle. cbn [indent] in Hle. lia.
Qed.
