(* C04 — the text inside a `Literal ...` line cannot split the line: literals.

   About the model Expr/LiteralModel.v (tied to /repo/internal/explain/format.go + expressions.go by the C09
   correspondence run: harness/cmd/litdump vs driver/literal):

     esc_byte / escape_string_literal / format_string     escapeStringLiteral, FormatLiteral's LiteralString case
     format_float (go_fmt_e, go_fmt_f, replace_first)     FormatFloat
     format_literal / format_array_elem / format_tuple_elem, array_neg_elem, tuple_neg_elem, neg_as_string
                                                          FormatLiteral, formatArrayLiteral, formatTupleLiteral,
                                                          formatNumericExpr, formatExprAsString
     explain_literal / explain_negated / explain_top      explainLiteral, explainUnaryExpr: which line is printed
     parse_lit / literal_of_tokens                        the parser paths that build these values

   What is proved (for EVERY set [bad] of bytes inside {0, 8, 9, 10, 12, 13}; [no_lf] = the instance {10}):

     A. strings: for every byte string v, [format_string v] avoids [bad]; a control byte b < 32 occurs in
        [format_string v] iff it occurs in v and is not one of the six ([format_string_ctl_exact]).
     B. numbers: decimal renderings are digits; [format_float f] is made of  0-9 - + . e i n f a  when the digits
        of f are digits ([fdigits], implied by the oracle premise [fval_ok] of C09) and of  0-9 - . e i n f a  under
        [fval_ok]; every numeric element text is over a fixed alphabet ([num_abc]).
     C. the whole literal tree (arrays / tuples nested to any depth, negated elements): [format_literal] avoids
        [bad] under [lit_ok bad]: float digits are digits, and the operand of a negated STRING element avoids
        [bad].  Both conditions are necessary in the model ([format_literal_neg_string_refuted]: formatExprAsString
        returns "-" + the raw string; [format_literal_float_digits_refuted]: garbage digits from the oracle).
     D. the line that is actually printed: explainLiteral / explainUnaryExpr print `Literal <text>` only for trees in
        which every negated element is numeric (otherwise `Function array` / `Function tuple` / `Function negate`),
        so the whole line [lout_text (explain_top ...)] avoids [bad] with the oracle premise alone
        ([explain_top_line_avoids]); and for EVERY token list, whatever the tokens' values
        ([literal_of_tokens_line_avoids]). *)
From Coq Require Import List NArith ZArith Bool Lia ZifyN ZifyNat ZifyBool.
From DC Require Import Base.Utf8 Gen.TokenTable Expr.ExprTree Expr.LiteralModel Expr.LiteralProof Expr.LineSafe.
Import ListNotations.
Local Open Scope bool_scope.
Local Open Scope N_scope.

(* ------------------------------------------------------------------------------------------ *)
(* generic list facts *)

Lemma fa_rev : forall (A : Type) (p : A -> bool) l, forallb p (rev l) = forallb p l.
Proof.
  intros A p l. induction l as [|x l IH]; [reflexivity|]. cbn [rev]. rewrite forallb_app, IH. cbn [forallb].
  rewrite andb_true_r. apply andb_comm.
Qed.

Lemma fa_in : forall (A : Type) (p : A -> bool) l x, forallb p l = true -> In x l -> p x = true.
Proof. intros A p l x H Hx. exact (proj1 (forallb_forall p l) H x Hx). Qed.

Lemma ex_false_in : forall (A : Type) (p : A -> bool) l x, existsb p l = false -> In x l -> p x = false.
Proof.
  intros A p l x H Hx. destruct (p x) eqn:E; [|reflexivity].
  assert (Ht : existsb p l = true) by (apply existsb_exists; exists x; split; assumption). congruence.
Qed.

Lemma fa_impl : forall (A : Type) (p q : A -> bool) l,
  (forall x, In x l -> p x = true -> q x = true) -> forallb p l = true -> forallb q l = true.
Proof.
  intros A p q l H Hp. apply forallb_forall. intros x Hx. apply H; [exact Hx|]. exact (fa_in A p l x Hp Hx).
Qed.

(* strings.Join (LiteralModel.join) *)
Lemma all_join : forall (P : N -> bool) sep parts,
  forallb P sep = true -> forallb (forallb P) parts = true -> forallb P (join sep parts) = true.
Proof.
  intros P sep parts Hsep. induction parts as [|p ps IH]; intros Hp; [reflexivity|].
  cbn [forallb] in Hp. apply andb_true_iff in Hp. destruct Hp as [Hp Hps].
  destruct ps as [|q ps]; [exact Hp|].
  change (join sep (p :: q :: ps)) with (p ++ sep ++ join sep (q :: ps)).
  rewrite !all_app, Hp, Hsep, (IH Hps). reflexivity.
Qed.

(* strings.Replace(s, old, new, 1) *)
Lemma all_replace_first : forall (P : N -> bool) old new s,
  forallb P s = true -> forallb P new = true -> forallb P (replace_first old new s) = true.
Proof.
  intros P old new s Hs Hn. induction s as [|c s IH].
  - cbn [replace_first]. destruct (has_prefix [] old).
    + rewrite all_app, Hn. apply all_skipn. reflexivity.
    + reflexivity.
  - cbn [replace_first]. destruct (has_prefix (c :: s) old).
    + rewrite all_app, Hn. apply all_skipn. exact Hs.
    + cbn [forallb] in Hs |- *. apply andb_true_iff in Hs. destruct Hs as [Hc Hs].
      rewrite Hc. cbn [andb]. apply IH, Hs.
Qed.

(* ------------------------------------------------------------------------------------------ *)
(* induction over the literal tree (lists of elements inside) *)

Section lval_mutind.
  Variables (P : lval -> Prop) (Q : lexpr -> Prop).
  Hypothesis HInt : forall n, P (VInt n).
  Hypothesis HUInt : forall n, P (VUInt n).
  Hypothesis HFloat : forall f, P (VFloat f).
  Hypothesis HStr : forall s b, P (VStr s b).
  Hypothesis HArr : forall es, Forall Q es -> P (VArr es).
  Hypothesis HTup : forall es, Forall Q es -> P (VTup es).
  Hypothesis HLit : forall v, P v -> Q (ELit v).
  Hypothesis HNeg : forall v, P v -> Q (ENeg v).

  Fixpoint lval_ind2 (v : lval) : P v :=
    match v with
    | VInt n => HInt n
    | VUInt n => HUInt n
    | VFloat f => HFloat f
    | VStr s b => HStr s b
    | VArr es =>
      HArr es ((fix go (l : list lexpr) : Forall Q l :=
                  match l with
                  | [] => Forall_nil Q
                  | e :: r => Forall_cons e (lexpr_ind2 e) (go r)
                  end) es)
    | VTup es =>
      HTup es ((fix go (l : list lexpr) : Forall Q l :=
                  match l with
                  | [] => Forall_nil Q
                  | e :: r => Forall_cons e (lexpr_ind2 e) (go r)
                  end) es)
    end
  with lexpr_ind2 (e : lexpr) : Q e :=
    match e with
    | ELit v => HLit v (lval_ind2 v)
    | ENeg v => HNeg v (lval_ind2 v)
    end.
End lval_mutind.

(* ========================================================================================== *)
(* A. strings *)

Section Strings.
Variable bad : N -> bool.
Hypothesis Hbad : escaped_set bad.

Lemma esc_byte_avoids : forall b, avoids bad (esc_byte b) = true.
Proof.
  intros b. unfold esc_byte.
  repeat match goal with
  | |- context [if ?c then _ else _] => destruct c eqn:?; [apply (const_avoids bad _ Hbad); reflexivity|]
  end.
  cbn [avoids forallb]. rewrite andb_true_r. apply negb_true_iff. apply (bad_not_esc bad Hbad).
  unfold is_esc_ctl. lia.
Qed.

Lemma escape_string_literal_avoids : forall s, avoids bad (escape_string_literal s) = true.
Proof. intros s. unfold escape_string_literal, avoids. apply all_flat_map. exact esc_byte_avoids. Qed.

(* for EVERY byte string v *)
Theorem format_string_avoids : forall v, avoids bad (format_string v) = true.
Proof.
  intros v. unfold format_string. rewrite !avoids_app, escape_string_literal_avoids.
  rewrite (const_avoids bad [92; 39] Hbad) by reflexivity. reflexivity.
Qed.
End Strings.

Theorem format_string_no_esc_ctl : forall v, no_esc_ctl (format_string v) = true.
Proof. intros v. apply format_string_avoids. exact escaped_set_all. Qed.

Theorem format_string_no_lf : forall v, ~ In 10 (format_string v).
Proof. intros v. apply no_lf_in, no_esc_ctl_no_lf, format_string_no_esc_ctl. Qed.

Theorem format_string_no_cr : forall v, ~ In 13 (format_string v).
Proof.
  intros v Hin. pose proof (format_string_no_esc_ctl v) as H. unfold no_esc_ctl in H.
  rewrite avoids_in in H. specialize (H 13 Hin). discriminate.
Qed.

(* exactly which control bytes reach the output: those of v that are not among the six *)
Lemma esc_byte_ctl_exact : forall x b, b < 32 ->
  (In b (esc_byte x) <-> x = b /\ is_esc_ctl b = false).
Proof.
  intros x b Hb. unfold esc_byte.
  repeat match goal with
  | |- context [if ?c then _ else _] =>
      destruct c eqn:?;
      [cbn [In]; unfold is_esc_ctl; split; [intros H; exfalso; lia|intros [H1 H2]; exfalso; lia]|]
  end.
  cbn [In]. unfold is_esc_ctl. split.
  - intros [H|[]]. split; [exact H|]. lia.
  - intros [H _]. left. exact H.
Qed.

Theorem format_string_ctl_exact : forall v b, b < 32 ->
  (In b (format_string v) <-> In b v /\ is_esc_ctl b = false).
Proof.
  intros v b Hb. unfold format_string, escape_string_literal.
  rewrite !in_app_iff, in_flat_map. cbn [In]. split.
  - intros [H|[[x [Hx Hin]]|H]]; [exfalso; lia| |exfalso; lia].
    apply (esc_byte_ctl_exact x b Hb) in Hin. destruct Hin as [-> Hc]. split; assumption.
  - intros [Hin Hc]. right. left. exists b. split; [exact Hin|]. apply (esc_byte_ctl_exact b b Hb). split; [reflexivity|exact Hc].
Qed.

(* FULL statement one might want: "no raw control byte below 32 in a rendered string".  FALSE of the model (and of
   escapeStringLiteral): bytes 1-7, 11, 14-31 are copied.
     Theorem format_string_no_ctl : forall v, avoids is_ctl (format_string v) = true. *)
Lemma format_string_ctl_refuted : exists v, avoids is_ctl (format_string v) = false /\ In 11 (format_string v).
Proof. exists [97; 11; 1; 31; 98]. split; [vm_compute; reflexivity|vm_compute; tauto]. Qed.

(* ========================================================================================== *)
(* B. numbers: fixed alphabets *)

Definition in_abc (abc : list N) (b : N) : bool := existsb (N.eqb b) abc.
Definition over (abc : list N) (s : list N) : bool := forallb (in_abc abc) s.

Definition digit_abc : list N := [48; 49; 50; 51; 52; 53; 54; 55; 56; 57].
(* 0-9 - U I n t 6 4 _ : UInt64_<n>, Int64_-<n> *)
Definition int_abc : list N := digit_abc ++ [45; 85; 73; 110; 116; 95].
(* 0-9 - + . e i n f a : FormatFloat on (digits, exponent) for ANY digit string and exponent *)
Definition float_abc : list N := digit_abc ++ [45; 43; 46; 101; 105; 110; 102; 97].
(* 0-9 - . e i n f a : the same under the oracle premise fval_ok (no '+' survives the three Replace calls) *)
Definition float_abc_tight : list N := digit_abc ++ [45; 46; 101; 105; 110; 102; 97].
(* every numeric element: the two above and F l o a t 6 4 _ *)
Definition num_abc : list N := int_abc ++ float_abc ++ [70; 108; 111].

Lemma in_abc_app : forall a b x, in_abc (a ++ b) x = in_abc a x || in_abc b x.
Proof. intros a b x. unfold in_abc. apply existsb_app. Qed.

Lemma over_app : forall abc a b, over abc (a ++ b) = over abc a && over abc b.
Proof. intros abc a b. apply all_app. Qed.

Lemma over_weaken_l : forall a b s, over a s = true -> over (a ++ b) s = true.
Proof. intros a b s. apply all_impl. intros x Hx. rewrite in_abc_app, Hx. reflexivity. Qed.
Lemma over_weaken_r : forall a b s, over b s = true -> over (a ++ b) s = true.
Proof. intros a b s. apply all_impl. intros x Hx. rewrite in_abc_app, Hx. apply orb_true_r. Qed.

Lemma digit_in_abc : forall b, is_dec_digit b = true -> in_abc digit_abc b = true.
Proof.
  intros b H. unfold is_dec_digit, in_range in H.
  assert (Hc : b = 48 \/ b = 49 \/ b = 50 \/ b = 51 \/ b = 52 \/ b = 53 \/ b = 54 \/ b = 55 \/ b = 56 \/ b = 57) by lia.
  destruct Hc as [->|[->|[->|[->|[->|[->|[->|[->|[->| ->]]]]]]]]]; reflexivity.
Qed.

Lemma digits_over : forall s, forallb is_dec_digit s = true -> over digit_abc s = true.
Proof. intros s. apply all_impl. exact digit_in_abc. Qed.

(* fmt "%d" *)
Theorem dec_over_digits : forall n, over digit_abc (dec n) = true.
Proof. intros n. apply digits_over, dec_all_digits. Qed.

Lemma abc_high_avoids : forall bad abc s, escaped_set bad -> high abc = true -> over abc s = true -> avoids bad s = true.
Proof.
  intros bad abc s Hbad Hh. apply all_impl. intros b Hb. apply negb_true_iff, (bad_high_byte bad Hbad).
  unfold in_abc in Hb. apply existsb_exists in Hb. destruct Hb as [x [Hx Hbx]]. apply N.eqb_eq in Hbx. subst x.
  unfold high in Hh. pose proof (proj1 (all_in _ abc) Hh b Hx) as H. cbv beta in H. lia.
Qed.

(* ---- floats ---- *)

Definition fdigits (f : fval) : bool :=
  match f with FFin _ ds _ => forallb is_dec_digit ds | _ => true end.

Lemma fval_ok_fdigits : forall f, fval_ok f -> fdigits f = true.
Proof. intros [| |neg ds e]; cbn; [reflexivity|reflexivity|]. intros [[_ H] _]. exact H. Qed.

Lemma fdigits_fneg : forall f, fdigits (fneg f) = fdigits f.
Proof. intros [| |neg ds e]; reflexivity. Qed.

Section FloatText.
(* any predicate that holds of the digits and of  - + . e *)
Variable P : N -> bool.
Hypothesis Pdigit : forall b, is_dec_digit b = true -> P b = true.
Hypothesis Pminus : P 45 = true.
Hypothesis Pplus : P 43 = true.
Hypothesis Pdot : P 46 = true.
Hypothesis Pe : P 101 = true.

Lemma P48 : P 48 = true.
Proof. apply Pdigit. reflexivity. Qed.

Lemma Pdigits : forall s, forallb is_dec_digit s = true -> forallb P s = true.
Proof. intros s. apply all_impl. exact Pdigit. Qed.

Lemma sign_bytes_all : forall neg, forallb P (sign_bytes neg) = true.
Proof. intros [|]; cbn [sign_bytes forallb]; [rewrite Pminus|]; reflexivity. Qed.

Lemma go_fmt_e_all : forall neg ds e, forallb is_dec_digit ds = true -> forallb P (go_fmt_e neg ds e) = true.
Proof.
  intros neg ds e Hd. unfold go_fmt_e. rewrite !all_app, sign_bytes_all. cbn [andb].
  apply andb_true_iff. split.
  - destruct ds as [|d more]; [cbn [forallb]; rewrite P48; reflexivity|].
    cbn [forallb] in Hd. apply andb_true_iff in Hd. destruct Hd as [Hd Hm].
    cbn [forallb]. rewrite (Pdigit d Hd). cbn [andb].
    destruct more as [|d2 more]; [reflexivity|]. cbn [forallb]. rewrite Pdot. cbn [andb]. apply (Pdigits _ Hm).
  - cbn [forallb]. rewrite Pe. cbn [andb]. apply andb_true_iff. split.
    + destruct (e <? 0)%Z; cbn [forallb]; [rewrite Pminus|rewrite Pplus]; reflexivity.
    + cbv zeta. destruct (Z.to_N (Z.abs e) <? 10); [cbn [forallb]; rewrite P48; cbn [andb]|];
        apply Pdigits, dec_all_digits.
Qed.

Lemma digit_at_P : forall ds j, forallb is_dec_digit ds = true -> P (digit_at ds j) = true.
Proof.
  intros ds j Hd. unfold digit_at. destruct (j <? 0)%Z; [exact P48|].
  apply all_nth; [apply (Pdigits _ Hd)|exact P48].
Qed.

Lemma go_fmt_f_all : forall neg ds e, forallb is_dec_digit ds = true -> forallb P (go_fmt_f neg ds e) = true.
Proof.
  intros neg ds e Hd. unfold go_fmt_f. cbv zeta. rewrite !all_app, sign_bytes_all. cbn [andb].
  apply andb_true_iff. split.
  - destruct (0 <? e + 1)%Z.
    + rewrite all_app. rewrite all_firstn by (apply (Pdigits _ Hd)). cbn [andb]. apply all_repeat, P48.
    + cbn [forallb]. rewrite P48. reflexivity.
  - destruct (0 <? Z.max (Z.of_nat (length ds) - (e + 1)) 0)%Z; [|reflexivity].
    cbn [forallb]. rewrite Pdot. cbn [andb]. apply all_map_seq. intros i. apply digit_at_P, Hd.
Qed.

Lemma format_float_all : forall f,
  fdigits f = true -> forallb P [105; 110; 102; 97] = true -> forallb P (format_float f) = true.
Proof.
  intros [|neg|neg ds e] Hd Hw; cbn [forallb] in Hw; repeat (apply andb_true_iff in Hw; destruct Hw as [? Hw]).
  - cbn [format_float forallb]. repeat match goal with H : P _ = true |- _ => rewrite H; clear H end. reflexivity.
  - destruct neg; cbn [format_float forallb]; rewrite ?Pminus;
      repeat match goal with H : P _ = true |- _ => rewrite H; clear H end; reflexivity.
  - cbn [fdigits] in Hd. cbn [format_float].
    destruct ((negb (all_zero ds) && (e <? -6)%Z) || (21 <=? e)%Z).
    + repeat apply all_replace_first; try (cbn [forallb]; rewrite ?Pe, ?Pminus, ?Pplus; reflexivity).
      apply go_fmt_e_all, Hd.
    + apply go_fmt_f_all, Hd.
Qed.
End FloatText.

(* FormatFloat over (digits, exponent): the alphabet 0-9 - + . e i n f a, for every digit string and exponent *)
Theorem format_float_over : forall f, fdigits f = true -> over float_abc (format_float f) = true.
Proof.
  intros f Hd. unfold over. apply format_float_all; try reflexivity; [|exact Hd].
  intros b Hb. unfold float_abc. rewrite in_abc_app, (digit_in_abc b Hb). reflexivity.
Qed.

(* ... and without '+' under the oracle premise of C09 (digits non-empty, -324 <= e <= 308) *)
Lemma mantissa_over : forall ds, forallb is_dec_digit ds = true -> over float_abc_tight (LiteralSpec.mantissa ds) = true.
Proof.
  intros ds Hd. assert (Hdo : over float_abc_tight ds = true) by (apply over_weaken_l, digits_over, Hd).
  destruct ds as [|d [|d2 more]]; [reflexivity|exact Hdo|].
  unfold over in Hdo |- *. cbn [LiteralSpec.mantissa forallb] in Hdo |- *.
  apply andb_true_iff in Hdo. destruct Hdo as [H1 H2]. rewrite H1. cbn [andb].
  change (in_abc float_abc_tight 46) with true. cbn [andb]. exact H2.
Qed.

Theorem format_float_over_tight : forall f, fval_ok f -> over float_abc_tight (format_float f) = true.
Proof.
  intros f Hok. rewrite (format_float_canon f Hok). destruct f as [|neg|neg ds e]; [reflexivity|destruct neg; reflexivity|].
  destruct Hok as [[_ Hd] _].
  assert (Hdo : over float_abc_tight ds = true) by (apply over_weaken_l, digits_over, Hd).
  assert (Hdec : forall n, over float_abc_tight (dec n) = true) by (intros n; apply over_weaken_l, dec_over_digits).
  cbn [LiteralSpec.canon_float]. unfold LiteralSpec.canon_float_fin. rewrite over_app.
  apply andb_true_iff. split; [destruct neg; reflexivity|].
  destruct ((LiteralSpec.nonzero_digits ds && (e <? -6)%Z) || (21 <=? e)%Z).
  - rewrite !over_app, (mantissa_over ds Hd), Hdec. destruct (e <? 0)%Z; reflexivity.
  - destruct (e <? 0)%Z.
    + rewrite !over_app, Hdo. unfold over. rewrite all_repeat by reflexivity. reflexivity.
    + cbv zeta. destruct (Nat.leb (length ds) (Z.to_nat (e + 1))).
      * rewrite over_app, Hdo. unfold over. rewrite all_repeat by reflexivity. reflexivity.
      * rewrite !over_app. unfold over. rewrite all_firstn, all_skipn by exact Hdo. reflexivity.
Qed.

(* ---- the numeric element texts ---- *)

Section Numbers.
Variable int_to_float : N -> fval.
Hypothesis itf_digits : forall n, fdigits (int_to_float n) = true.

Lemma float64_text_over : forall f, fdigits f = true -> over num_abc (t_Float64 ++ format_float f) = true.
Proof.
  intros f Hd. rewrite over_app. apply andb_true_iff. split; [reflexivity|].
  unfold num_abc. apply over_weaken_r, over_weaken_l, format_float_over, Hd.
Qed.

Lemma uint64_text_over : forall n, over int_abc (t_UInt64 ++ dec n) = true.
Proof.
  intros n. rewrite over_app. apply andb_true_iff. split; [reflexivity|].
  unfold int_abc. apply over_weaken_l, dec_over_digits.
Qed.

Lemma int64_text_over : forall n, over int_abc (t_Int64 ++ [45] ++ dec n) = true.
Proof.
  intros n. rewrite !over_app. apply andb_true_iff. split; [reflexivity|]. apply andb_true_iff. split; [reflexivity|].
  unfold int_abc. apply over_weaken_l, dec_over_digits.
Qed.

(* FormatLiteral on integers and floats *)
Theorem format_literal_int_over : forall n,
  over int_abc (format_literal int_to_float (VInt n)) = true /\ over int_abc (format_literal int_to_float (VUInt n)) = true.
Proof. intros n. split; apply uint64_text_over. Qed.

Theorem format_literal_numeric_over : forall v,
  is_numeric v = true -> match v with VFloat f => fdigits f = true | _ => True end ->
  over num_abc (format_literal int_to_float v) = true.
Proof.
  intros v Hn Hf. destruct v; try discriminate; cbn [format_literal].
  - unfold num_abc. apply over_weaken_l, uint64_text_over.
  - unfold num_abc. apply over_weaken_l, uint64_text_over.
  - apply float64_text_over, Hf.
Qed.

(* the unary-minus branches of formatArrayLiteral / formatNumericExpr on numbers: negated numbers *)
Theorem neg_elem_numeric_over : forall v,
  is_numeric v = true -> match v with VFloat f => fdigits f = true | _ => True end ->
  over num_abc (array_neg_elem int_to_float v) = true /\ over num_abc (tuple_neg_elem int_to_float v) = true.
Proof.
  intros v Hn Hf.
  assert (Hu : forall n, over num_abc (t_UInt64 ++ dec n) = true)
    by (intros n; unfold num_abc; apply over_weaken_l, uint64_text_over).
  assert (Hi : forall n, over num_abc (t_Int64 ++ [45] ++ dec n) = true)
    by (intros n; unfold num_abc; apply over_weaken_l, int64_text_over).
  destruct v; try discriminate; cbn [array_neg_elem tuple_neg_elem].
  - destruct (n =? 0); split; auto.
  - destruct (n =? 0); [split; auto|]. destruct (n <=? two63); [split; auto|].
    split; apply float64_text_over; rewrite fdigits_fneg; apply itf_digits.
  - split; apply float64_text_over; rewrite fdigits_fneg; exact Hf.
Qed.
End Numbers.

Lemma num_abc_high : high num_abc = true.
Proof. reflexivity. Qed.

(* ========================================================================================== *)
(* C. the whole literal tree *)

(* the operand of a negated element: float digits are digits; a STRING operand is printed raw after "-" *)
Definition neg_ok (bad : N -> bool) (v : lval) : bool :=
  match v with
  | VFloat f => fdigits f
  | VStr s _ => avoids bad s
  | _ => true
  end.

Fixpoint lit_ok (bad : N -> bool) (v : lval) : bool :=
  match v with
  | VFloat f => fdigits f
  | VArr es => forallb (lexpr_ok bad) es
  | VTup es => forallb (lexpr_ok bad) es
  | _ => true
  end
with lexpr_ok (bad : N -> bool) (e : lexpr) : bool :=
  match e with
  | ELit v => lit_ok bad v
  | ENeg v => neg_ok bad v
  end.

Section Tree.
Variable bad : N -> bool.
Hypothesis Hbad : escaped_set bad.
Variable int_to_float : N -> fval.
Hypothesis itf_digits : forall n, fdigits (int_to_float n) = true.

Notation fl := (format_literal int_to_float).
Notation fae := (format_array_elem int_to_float).
Notation fte := (format_tuple_elem int_to_float).

Lemma num_over_avoids : forall s, over num_abc s = true -> avoids bad s = true.
Proof. intros s. apply (abc_high_avoids bad num_abc s Hbad num_abc_high). Qed.

Lemma neg_elem_avoids : forall v, neg_ok bad v = true ->
  avoids bad (array_neg_elem int_to_float v) = true /\ avoids bad (tuple_neg_elem int_to_float v) = true.
Proof.
  intros v Hv.
  destruct (is_numeric v) eqn:Hn.
  - destruct (neg_elem_numeric_over int_to_float itf_digits v Hn) as [H1 H2].
    { destruct v; try exact I. exact Hv. }
    split; apply num_over_avoids; assumption.
  - assert (Hs : avoids bad (neg_as_string v) = true).
    { destruct v; try discriminate; cbn [neg_as_string neg_ok] in *;
        rewrite ?avoids_cons, ?Hv; rewrite (bad_high_byte bad Hbad 45) by lia; reflexivity. }
    destruct v; try discriminate; cbn [array_neg_elem tuple_neg_elem]; split; exact Hs.
Qed.

Lemma elems_avoid : forall (f : lexpr -> list N) es,
  Forall (fun e => lexpr_ok bad e = true -> avoids bad (f e) = true) es ->
  forallb (lexpr_ok bad) es = true -> forallb (forallb (fun b => negb (bad b))) (map f es) = true.
Proof.
  intros f es HF. induction HF as [|e r He _ IH]; intros Hok; [reflexivity|].
  cbn [forallb] in Hok. apply andb_true_iff in Hok. destruct Hok as [H1 H2].
  cbn [map forallb]. rewrite (IH H2). specialize (He H1). unfold avoids in He. rewrite He. reflexivity.
Qed.

Definition Plit (v : lval) : Prop := lit_ok bad v = true -> avoids bad (fl v) = true.
Definition Qlit (e : lexpr) : Prop :=
  lexpr_ok bad e = true -> avoids bad (fae e) = true /\ avoids bad (fte e) = true.

Lemma format_literal_avoids_all : forall v, Plit v.
Proof.
  assert (Hsep : forallb (fun b => negb (bad b)) t_sep = true)
    by (apply (const_avoids bad t_sep Hbad); reflexivity).
  apply (lval_ind2 Plit Qlit); unfold Plit, Qlit.
  - intros n _. apply num_over_avoids. unfold num_abc. apply over_weaken_l. apply uint64_text_over.
  - intros n _. apply num_over_avoids. unfold num_abc. apply over_weaken_l. apply uint64_text_over.
  - intros f Hf. cbn [lit_ok] in Hf. apply num_over_avoids. apply float64_text_over, Hf.
  - intros s b _. apply (format_string_avoids bad Hbad).
  - intros es HF Hok. cbn [lit_ok] in Hok.
    change (fl (VArr es)) with (t_Array ++ join t_sep (map fae es) ++ [93]).
    rewrite !avoids_app. rewrite (const_avoids bad t_Array Hbad), (const_avoids bad [93] Hbad) by reflexivity.
    rewrite andb_true_r. cbn [andb]. unfold avoids. apply all_join; [exact Hsep|].
    apply elems_avoid; [|exact Hok]. eapply Forall_impl; [|exact HF]. intros e He H. apply (He H).
  - intros es HF Hok. cbn [lit_ok] in Hok.
    change (fl (VTup es)) with (t_Tuple ++ join t_sep (map fte es) ++ [41]).
    rewrite !avoids_app. rewrite (const_avoids bad t_Tuple Hbad), (const_avoids bad [41] Hbad) by reflexivity.
    rewrite andb_true_r. cbn [andb]. unfold avoids. apply all_join; [exact Hsep|].
    apply elems_avoid; [|exact Hok]. eapply Forall_impl; [|exact HF]. intros e He H. apply (He H).
  - intros v IH Hok. cbn [lexpr_ok] in Hok. split; apply (IH Hok).
  - intros v _ Hok. cbn [lexpr_ok] in Hok. apply (neg_elem_avoids v Hok).
Qed.

(* FormatLiteral on the whole literal tree: arrays / tuples nested to any depth, negated elements *)
Theorem format_literal_avoids : forall v, lit_ok bad v = true -> avoids bad (fl v) = true.
Proof. exact format_literal_avoids_all. Qed.

(* ------------------------------------------------------------------------------------------ *)
(* D. what explainLiteral / explainUnaryExpr put on the line *)

(* every negated element is a number *)
Fixpoint negnum_v (v : lval) : bool :=
  match v with
  | VArr es => forallb negnum_e es
  | VTup es => forallb negnum_e es
  | _ => true
  end
with negnum_e (e : lexpr) : bool :=
  match e with
  | ELit v => negnum_v v
  | ENeg v => is_numeric v
  end.

(* the oracle premise seen on a tree: every float in it has digits for digits *)
Definition neg_float_ok (v : lval) : bool := match v with VFloat f => fdigits f | _ => true end.
Fixpoint floats_ok_v (v : lval) : bool :=
  match v with
  | VFloat f => fdigits f
  | VArr es => forallb floats_ok_e es
  | VTup es => forallb floats_ok_e es
  | _ => true
  end
with floats_ok_e (e : lexpr) : bool :=
  match e with
  | ELit v => floats_ok_v v
  | ENeg v => neg_float_ok v
  end.

Lemma negnum_lit_ok_all : forall v, floats_ok_v v = true -> negnum_v v = true -> lit_ok bad v = true.
Proof.
  apply (lval_ind2 (fun v => floats_ok_v v = true -> negnum_v v = true -> lit_ok bad v = true)
                   (fun e => floats_ok_e e = true -> negnum_e e = true -> lexpr_ok bad e = true)).
  - reflexivity.
  - reflexivity.
  - intros f Hf _. exact Hf.
  - reflexivity.
  - intros es HF Hf Hn. cbn [floats_ok_v negnum_v lit_ok] in *. induction HF as [|e r He _ IH]; [reflexivity|].
    cbn [forallb] in *. apply andb_true_iff in Hf. apply andb_true_iff in Hn. destruct Hf as [Hf1 Hf2]. destruct Hn as [Hn1 Hn2].
    rewrite (He Hf1 Hn1), (IH Hf2 Hn2). reflexivity.
  - intros es HF Hf Hn. cbn [floats_ok_v negnum_v lit_ok] in *. induction HF as [|e r He _ IH]; [reflexivity|].
    cbn [forallb] in *. apply andb_true_iff in Hf. apply andb_true_iff in Hn. destruct Hf as [Hf1 Hf2]. destruct Hn as [Hn1 Hn2].
    rewrite (He Hf1 Hn1), (IH Hf2 Hn2). reflexivity.
  - intros v IH Hf Hn. cbn [floats_ok_e negnum_e lexpr_ok] in *. apply IH; assumption.
  - intros v _ Hf Hn. cbn [floats_ok_e negnum_e lexpr_ok] in *. destruct v; try discriminate; try reflexivity. exact Hf.
Qed.

(* nested arrays: nonlit_rec and tuples_rec both false leave only numeric negations *)
Lemma nested_negnum_all : forall e, nonlit_rec_e e = false -> tuples_rec_e e = false -> negnum_e e = true.
Proof.
  apply (lexpr_ind2
    (fun v => match v with
              | VTup _ => True
              | _ => nonlit_rec_v v = false -> tuples_rec_v v = false -> negnum_v v = true
              end)
    (fun e => nonlit_rec_e e = false -> tuples_rec_e e = false -> negnum_e e = true)).
  - reflexivity.
  - reflexivity.
  - reflexivity.
  - reflexivity.
  - intros es HF. cbn [nonlit_rec_v tuples_rec_v negnum_v]. induction HF as [|e r He _ IH]; [reflexivity|].
    cbn [existsb forallb]. intros H1 H2. apply orb_false_iff in H1. apply orb_false_iff in H2.
    destruct H1 as [H1a H1b]. destruct H2 as [H2a H2b]. rewrite (He H1a H2a), (IH H1b H2b). reflexivity.
  - intros es _. exact I.
  - intros v IH. destruct v; cbn [nonlit_rec_e tuples_rec_e negnum_e]; try reflexivity.
    + exact IH.
    + intros _ H. discriminate.
  - intros v _. cbn [nonlit_rec_e negnum_e]. intros H _. apply negb_false_iff in H. exact H.
Qed.

(* nested tuples: containsOnlyPrimitiveLiteralsWithUnary leaves only numeric negations *)
Lemma only_prim_negnum_all : forall e, only_prim_e e = true -> negnum_e e = true.
Proof.
  apply (lexpr_ind2
    (fun v => match v with
              | VArr _ => True
              | _ => only_prim_v v = true -> negnum_v v = true
              end)
    (fun e => only_prim_e e = true -> negnum_e e = true)).
  - reflexivity.
  - reflexivity.
  - reflexivity.
  - reflexivity.
  - intros es _. exact I.
  - intros es HF. cbn [only_prim_v negnum_v]. induction HF as [|e r He _ IH]; [reflexivity|].
    cbn [forallb]. intros H. apply andb_true_iff in H. destruct H as [H1 H2]. rewrite (He H1), (IH H2). reflexivity.
  - intros v IH. destruct v; cbn [only_prim_e negnum_e]; try reflexivity.
    + intros H. discriminate.
    + exact IH.
  - intros v _. cbn [only_prim_e negnum_e]. intros H. exact H.
Qed.

Lemma tuple_not_function_negnum : forall es, tuple_is_function es = false -> forallb negnum_e es = true.
Proof.
  intros es H. unfold tuple_is_function in H. apply orb_false_iff in H. destruct H as [_ Hc].
  apply forallb_forall. intros e He. pose proof (ex_false_in _ _ _ e Hc He) as Hx.
  destruct e as [v|v]; cbn [tuple_elem_complex negnum_e] in *.
  - destruct v; try reflexivity; [discriminate|].
    apply negb_false_iff in Hx. cbn [negnum_v]. unfold only_prim in Hx.
    apply forallb_forall. intros x Hin. apply only_prim_negnum_all. exact (fa_in _ _ _ x Hx Hin).
  - apply negb_false_iff in Hx. exact Hx.
Qed.

Lemma array_not_function_negnum : forall es, array_is_function es = false -> forallb negnum_e es = true.
Proof.
  intros es H. unfold array_is_function in H. cbv zeta in H.
  repeat (apply orb_false_iff in H; destruct H as [H ?]).
  apply forallb_forall. intros e He.
  match goal with Hs : existsb _ es = false |- _ =>
    match type of Hs with existsb (fun e => match e with ELit _ => _ | ENeg _ => _ end) es = false =>
      pose proof (ex_false_in _ _ _ e Hs He) as Hx end end.
  cbv beta in Hx.
  destruct e as [v|v]; cbn [negnum_e].
  - destruct v; try reflexivity; [|discriminate].
    assert (Hnest : existsb is_arr es = true) by (apply existsb_exists; exists (ELit (VArr es0)); split; [exact He|reflexivity]).
    rewrite Hnest in *. cbn [andb] in *.
    match goal with Hn : nonlit_rec es = false, Ht : tuples_rec es = false |- _ =>
      pose proof (ex_false_in _ _ _ _ Hn He) as Hn1; pose proof (ex_false_in _ _ _ _ Ht He) as Ht1 end.
    exact (nested_negnum_all (ELit (VArr es0)) Hn1 Ht1).
  - apply negb_false_iff in Hx. exact Hx.
Qed.

(* explainLiteral: the text after "Literal " *)
Theorem explain_literal_avoids : forall v text,
  floats_ok_v v = true -> explain_literal int_to_float v = OLit text -> avoids bad text = true.
Proof.
  intros v text Hf He. destruct v; cbn [explain_literal] in He.
  - inversion He. apply format_literal_avoids. reflexivity.
  - inversion He. apply format_literal_avoids. reflexivity.
  - inversion He. apply format_literal_avoids. exact Hf.
  - inversion He. apply format_literal_avoids. reflexivity.
  - destruct (array_is_function es) eqn:E; [discriminate|]. inversion He. apply format_literal_avoids.
    apply negnum_lit_ok_all; [exact Hf|]. cbn [negnum_v]. apply array_not_function_negnum, E.
  - destruct (tuple_is_function es) eqn:E; [discriminate|]. inversion He. apply format_literal_avoids.
    apply negnum_lit_ok_all; [exact Hf|]. cbn [negnum_v]. apply tuple_not_function_negnum, E.
Qed.

Variable parse_float : list N -> option fval.
Hypothesis pf_digits : forall s f, parse_float s = Some f -> fdigits f = true.

(* explainUnaryExpr on "-" literal *)
Theorem explain_negated_avoids : forall v text,
  neg_float_ok v = true -> explain_negated parse_float int_to_float v = OLit text -> avoids bad text = true.
Proof.
  intros v text Hf He.
  assert (Hfl : forall f, fdigits f = true -> avoids bad (t_Float64 ++ format_float (fneg f)) = true).
  { intros f Hd. apply num_over_avoids, float64_text_over. rewrite fdigits_fneg. exact Hd. }
  assert (Hu : forall n, avoids bad (t_UInt64 ++ dec n) = true).
  { intros n. apply num_over_avoids. unfold num_abc. apply over_weaken_l, uint64_text_over. }
  assert (Hi : forall n, avoids bad (t_Int64 ++ [45] ++ dec n) = true).
  { intros n. apply num_over_avoids. unfold num_abc. apply over_weaken_l, int64_text_over. }
  destruct v; cbn [explain_negated] in He.
  - destruct (n =? 0); injection He as <-; [apply Hu|apply Hi].
  - destruct (n =? 0); [injection He as <-; apply Hu|].
    destruct (n <=? two63); injection He as <-; [apply Hi|]. apply Hfl, itf_digits.
  - injection He as <-. apply Hfl. exact Hf.
  - destruct bigint; [|discriminate]. destruct (parse_float s) eqn:E; [|discriminate].
    injection He as <-. apply Hfl. exact (pf_digits s f E).
  - discriminate.
  - discriminate.
Qed.

(* the whole line of the first select column: "Literal <text>" or the constant Function line *)
Definition lout_text (o : lout) : list N :=
  match o with
  | OLit text => t_Literal ++ text
  | ONotLit line => line
  end.

Theorem explain_top_line_avoids : forall e,
  floats_ok_e e = true -> avoids bad (lout_text (explain_top parse_float int_to_float e)) = true.
Proof.
  intros e Hf.
  assert (Hc : forall l, l = t_fn_array \/ l = t_fn_tuple \/ l = t_fn_negate -> avoids bad l = true).
  { intros l [->|[->| ->]]; apply (const_avoids bad _ Hbad); reflexivity. }
  destruct (explain_top parse_float int_to_float e) as [text|line] eqn:E; cbn [lout_text].
  - rewrite avoids_app, (const_avoids bad t_Literal Hbad) by reflexivity. cbn [andb].
    destruct e as [v|v]; cbn [explain_top floats_ok_e] in *.
    + exact (explain_literal_avoids v text Hf E).
    + exact (explain_negated_avoids v text Hf E).
  - apply Hc. destruct e as [v|v]; cbn [explain_top] in E.
    + destruct v; cbn [explain_literal] in E; try discriminate.
      * destruct (array_is_function es); inversion E. left. reflexivity.
      * destruct (tuple_is_function es); inversion E. right. left. reflexivity.
    + destruct v; cbn [explain_negated] in E.
      * destruct (n =? 0); discriminate.
      * destruct (n =? 0); [discriminate|]. destruct (n <=? two63); discriminate.
      * discriminate.
      * destruct bigint; [destruct (parse_float s)|]; inversion E; right; right; reflexivity.
      * inversion E. right. right. reflexivity.
      * inversion E. right. right. reflexivity.
Qed.

(* ------------------------------------------------------------------------------------------ *)
(* the parser only builds trees whose floats come from the oracle *)

Notation pl := (parse_lit parse_float int_to_float).
Notation pe := (parse_elems parse_float int_to_float).
Notation pn := (parse_number parse_float int_to_float).

Lemma parse_number_floats_ok : forall value, floats_ok_v (pn value) = true.
Proof.
  intros value. unfold parse_number. cbv zeta.
  assert (Hr : forall f, radix_to_float int_to_float value = Some f -> fdigits f = true).
  { intros f. unfold radix_to_float. destruct (big_set_string0 value) as [[neg n]|]; [|discriminate].
    intros H. inversion H. destruct neg; rewrite ?fdigits_fneg; apply itf_digits. }
  repeat match goal with
  | |- floats_ok_v (if ?c then _ else _) = true => destruct c
  | |- floats_ok_v (match parse_float value with _ => _ end) = true =>
      let E := fresh "E" in destruct (parse_float value) eqn:E; [exact (pf_digits value _ E)|reflexivity]
  | |- floats_ok_v (match parse_int ?a ?b with _ => _ end) = true => destruct (parse_int a b); [reflexivity|]
  | |- floats_ok_v (match parse_uint ?a ?b with _ => _ end) = true => destruct (parse_uint a b); [reflexivity|]
  | |- floats_ok_v (match (if ?c then _ else _) with _ => _ end) = true => destruct c
  end.
  destruct (radix_to_float int_to_float value) as [f|] eqn:E; [exact (Hr f eq_refl)|reflexivity].
Qed.

Lemma with_follow_ok : forall e ts e' ts', with_follow e ts = LOk (e', ts') -> e' = e.
Proof. intros e ts e' ts'. unfold with_follow. destruct (follow_tok ts); intros H; inversion H. reflexivity. Qed.

Lemma parse_floats_ok : forall fuel,
  (forall ts e ts', pl fuel ts = LOk (e, ts') -> floats_ok_e e = true) /\
  (forall close acc ts es ts', forallb floats_ok_e acc = true -> pe fuel close acc ts = LOk (es, ts') ->
     forallb floats_ok_e es = true).
Proof.
  induction fuel as [|f [IHl IHe]]; [split; intros; discriminate|].
  split.
  - intros ts e ts' H. destruct ts as [|cur rest]; [discriminate|].
    rewrite parse_lit_S in H. cbv zeta in H.
    destruct (fst cur =? T_NUMBER).
    { apply with_follow_ok in H. subst e. cbn [floats_ok_e]. apply parse_number_floats_ok. }
    destruct (fst cur =? T_STRING).
    { apply with_follow_ok in H. subst e. reflexivity. }
    destruct (fst cur =? T_MINUS).
    { destruct rest as [|x rest']; [discriminate|].
      destruct (fst x =? T_NUMBER).
      { destruct (peek_tok rest' T_COLONCOLON); [discriminate|]. apply with_follow_ok in H. subst e.
        cbn [floats_ok_e]. pose proof (parse_number_floats_ok (snd x)) as Hp.
        destruct (pn (snd x)); try reflexivity. exact Hp. }
      destruct (fst x =? T_STRING); [|discriminate]. apply with_follow_ok in H. subst e. reflexivity. }
    destruct (fst cur =? T_LBRACKET).
    { destruct rest as [|x rest']; [discriminate|].
      destruct (fst x =? T_RBRACKET). { apply with_follow_ok in H. subst e. reflexivity. }
      destruct (pl f (x :: rest')) as [[e1 ts1]| |] eqn:E1; cbn [lbind] in H; try discriminate.
      destruct (pe f T_RBRACKET [e1] ts1) as [[es ts2]| |] eqn:E2; cbn [lbind] in H; try discriminate.
      apply with_follow_ok in H. subst e. cbn [floats_ok_e floats_ok_v].
      apply (IHe T_RBRACKET [e1] ts1 es ts2); [|exact E2]. cbn [forallb]. rewrite (IHl _ _ _ E1). reflexivity. }
    destruct (fst cur =? T_LPAREN).
    { destruct rest as [|x rest']; [discriminate|].
      destruct (fst x =? T_RPAREN). { apply with_follow_ok in H. subst e. reflexivity. }
      destruct ((fst x =? T_SELECT) || (fst x =? T_WITH) || (fst x =? T_EXPLAIN)); [discriminate|].
      destruct (pl f (x :: rest')) as [[e1 ts1]| |] eqn:E1; cbn [lbind] in H; try discriminate.
      destruct (peek_tok ts1 T_COMMA).
      - destruct (pe f T_RPAREN [e1] ts1) as [[es ts2]| |] eqn:E2; cbn [lbind] in H; try discriminate.
        apply with_follow_ok in H. subst e. cbn [floats_ok_e floats_ok_v].
        apply (IHe T_RPAREN [e1] ts1 es ts2); [|exact E2]. cbn [forallb]. rewrite (IHl _ _ _ E1). reflexivity.
      - destruct (peek_tok ts1 T_RPAREN); discriminate. }
    destruct (fst cur =? T_LINE_COMMENT); discriminate.
  - intros close acc ts es ts' Hacc H. destruct ts as [|c rest]; [discriminate|].
    rewrite parse_elems_S in H.
    destruct (fst c =? T_COMMA).
    + destruct (peek_tok rest close).
      * inversion H. rewrite fa_rev. exact Hacc.
      * destruct (pl f rest) as [[e1 ts1]| |] eqn:E1; cbn [lbind] in H; try discriminate.
        apply (IHe close (e1 :: acc) ts1 es ts'); [|exact H]. cbn [forallb]. rewrite (IHl _ _ _ E1), Hacc. reflexivity.
    + destruct (fst c =? close); [|discriminate]. inversion H. rewrite fa_rev. exact Hacc.
Qed.

(* EVERY token list, whatever the values of its tokens: the line the model prints for it avoids [bad] *)
Theorem literal_of_tokens_line_avoids : forall ts o,
  literal_of_tokens parse_float int_to_float ts = LOk o -> avoids bad (lout_text o) = true.
Proof.
  intros ts o H. unfold literal_of_tokens in H.
  match type of H with context [existsb ?g ts] => destruct (existsb g ts); [discriminate|] end.
  destruct (pl (lit_fuel ts) ts) as [[e rest]| |] eqn:E; cbn [lbind] in H; try discriminate.
  destruct rest; [|discriminate]. inversion H.
  apply explain_top_line_avoids. exact (proj1 (parse_floats_ok (lit_fuel ts)) ts e [] E).
Qed.
End Tree.

(* ========================================================================================== *)
(* the hypotheses are necessary in the model *)

(* FULL statement one might want:
     Theorem format_literal_no_lf_full : forall itf v, no_lf (format_literal itf v) = true.
   FALSE twice: *)

(* (1) a negated STRING element: formatArrayLiteral / formatTupleLiteral hand it to formatExprAsString, which
   returns "-" followed by the RAW string.  No float, no oracle involved.  (explainLiteral prints such an array as
   `Function array`, so this text does not reach a Literal line: [explain_literal_avoids] has no such hypothesis.) *)
Lemma format_literal_neg_string_refuted : exists v,
  (forall itf, floats_ok_v v = true /\ no_lf (format_literal itf v) = false /\ In 10 (format_literal itf v)) /\
  lit_ok is_lf v = false.
Proof.
  exists (VArr [ELit (VInt 1); ENeg (VStr [97; 10; 98] false)]). split; [|reflexivity].
  intros itf. split; [reflexivity|]. split; [reflexivity|]. vm_compute. tauto.
Qed.

Lemma format_literal_neg_string_tuple_refuted : exists v,
  forall itf, floats_ok_v v = true /\ no_lf (format_literal itf v) = false.
Proof. exists (VTup [ELit (VInt 1); ENeg (VStr [10] false)]). intros itf. split; reflexivity. Qed.

(* (2) a float whose "digits" are not digits (an oracle outside its contract) *)
Lemma format_literal_float_digits_refuted : exists v,
  forall itf, no_lf (format_literal itf v) = false /\ floats_ok_v v = false.
Proof. exists (VFloat (FFin false [49; 10] 0)). intros itf. split; reflexivity. Qed.

(* ========================================================================================== *)
(* instances for byte 10 / the six escaped control bytes, and non-vacuity *)

Theorem format_literal_no_lf : forall itf, (forall n, fdigits (itf n) = true) ->
  forall v, lit_ok is_lf v = true -> ~ In 10 (format_literal itf v).
Proof. intros itf Hitf v Hv. apply no_lf_in. exact (format_literal_avoids is_lf escaped_set_lf itf Hitf v Hv). Qed.

Theorem literal_line_no_lf : forall pf itf,
  (forall s f, pf s = Some f -> fval_ok f) -> (forall n, fval_ok (itf n)) ->
  forall ts o, literal_of_tokens pf itf ts = LOk o -> ~ In 10 (lout_text o).
Proof.
  intros pf itf Hpf Hitf ts o H. apply no_lf_in.
  apply (literal_of_tokens_line_avoids is_lf escaped_set_lf itf (fun n => fval_ok_fdigits _ (Hitf n))
           pf (fun s f E => fval_ok_fdigits _ (Hpf s f E)) ts o H).
Qed.

Theorem literal_line_no_esc_ctl : forall pf itf,
  (forall s f, pf s = Some f -> fval_ok f) -> (forall n, fval_ok (itf n)) ->
  forall ts o, literal_of_tokens pf itf ts = LOk o -> no_esc_ctl (lout_text o) = true.
Proof.
  intros pf itf Hpf Hitf ts o H.
  apply (literal_of_tokens_line_avoids is_esc_ctl escaped_set_all itf (fun n => fval_ok_fdigits _ (Hitf n))
           pf (fun s f E => fval_ok_fdigits _ (Hpf s f E)) ts o H).
Qed.

(* a string with LF, CR, NUL, quote, backslash, TAB *)
Definition ex_bytes : list N := [97; 10; 13; 0; 39; 92; 9; 98].
(* [['a<LF>..b', -1.5e-7], [-0, 18446744073709551615]] and ('a<LF>..b', (-1, 2.5), -9223372036854775808) *)
Definition ex_nested_array : lval :=
  VArr [ELit (VArr [ELit (VStr ex_bytes false); ENeg (VFloat (FFin false [49; 53] (-7)))]);
        ELit (VArr [ENeg (VUInt 0); ELit (VUInt 18446744073709551615)])].
Definition ex_nested_tuple : lval :=
  VTup [ELit (VStr ex_bytes false); ELit (VTup [ENeg (VInt 1); ELit (VFloat (FFin false [50; 53] 0))]);
        ENeg (VUInt 9223372036854775808)].

Example ex_string_hyp : In 10 ex_bytes /\ In 39 ex_bytes /\ In 92 ex_bytes /\
  format_string ex_bytes =
    [92; 39; 97; 92; 92; 110; 92; 92; 114; 92; 92; 48; 92; 92; 92; 39; 92; 92; 92; 92; 92; 92; 116; 98; 92; 39] /\
  no_esc_ctl (format_string ex_bytes) = true.
Proof. vm_compute. tauto. Qed.

Example ex_tree_hyp :
  lit_ok is_esc_ctl ex_nested_array = true /\ lit_ok is_esc_ctl ex_nested_tuple = true /\
  floats_ok_v ex_nested_array = true /\ floats_ok_v ex_nested_tuple = true /\
  explain_literal w_int_to_float ex_nested_tuple = OLit (format_literal w_int_to_float ex_nested_tuple) /\
  no_esc_ctl (format_literal w_int_to_float ex_nested_array) = true /\
  no_esc_ctl (format_literal w_int_to_float ex_nested_tuple) = true.
Proof. vm_compute. repeat split; reflexivity. Qed.

(* a negated string whose bytes avoid the set satisfies lit_ok: the hypothesis is not "no negated strings" *)
Example ex_neg_string_hyp : lit_ok is_lf (VArr [ENeg (VStr [97; 39; 92] false)]) = true.
Proof. reflexivity. Qed.

(* the oracle premises are satisfiable (LiteralLex.ex_oracle_premises) and the token theorem applies to
   ['a<LF>b', -1, [2]] : the line is the constant `Function array` line *)
Example ex_tokens_hyp :
  literal_of_tokens w_parse_float w_int_to_float
    [(T_LBRACKET, [91]); (T_STRING, [97; 10; 98]); (T_COMMA, [44]); (T_MINUS, [45]); (T_NUMBER, [49]); (T_RBRACKET, [93])]
  = LOk (OLit [65; 114; 114; 97; 121; 95; 91; 92; 39; 97; 92; 92; 110; 98; 92; 39; 44; 32; 73; 110; 116; 54; 52; 95; 45; 49; 93]).
Proof. vm_compute. reflexivity. Qed.
