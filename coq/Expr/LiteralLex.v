(* C09 — from SOURCE BYTES to the canonical text: the lexer model (LexerModel.tokenize over the pure stream) turns the
   source spelling [src t] of a literal tree into exactly the tokens [toks t], for trees built from decimal
   integers, negated decimal integers, 0x / 0b / 0o integers in every well-formed spelling (either letter case, leading
   zeros, '_' separators: CRad), strings, arrays and tuples (any depth).  Together with
   LiteralProof.literal_tokens_canon:

     literal_source_canon : lexable t -> wfb t -> literal_of_source (src t) = LOk (OLit (canon t))

   Float texts ([CFlt]) are outside [lexable]: which spellings the lexer reads as ONE NUMBER token is not
   characterised here; for them the statement is the token-level one of LiteralProof. *)
From Coq Require Import List NArith ZArith Bool Arith Lia ZifyN ZifyNat ZifyBool.
From DC Require Import Base.Utf8 Base.Unicode Base.UnicodeFacts Base.Stream Base.Item Gen.TokenTable
  Lexer.LexerModel Lexer.LexerTotal Lexer.LexerStringsSpec Lexer.LexerStrings
  Expr.ExprTree Expr.LiteralModel Expr.LiteralSpec Expr.LiteralProof.
Import ListNotations.
Local Open Scope bool_scope.

(* the whole pipeline on source bytes *)
Definition literal_of_source (parse_float : list N -> option fval) (int_to_float : N -> fval) (s : list N)
  : lres lout :=
  match tokenize s with
  | Some its => literal_of_tokens parse_float int_to_float (strip_items its)
  | None => LOutOfFuel
  end.

(* ------------------------------------------------------------------------------------------ *)
(* the character after a token *)

Definition head_ch (rest : list N) : N := match rest with [] => 0%N | c :: _ => c end.
Definition ascii_head (rest : list N) : Prop := match rest with [] => True | c :: _ => (c < 128)%N end.

Lemma At_head : forall l rest, At l rest -> ascii_head rest -> l_ch l = head_ch rest.
Proof.
  intros l [|c r] H Ha; [apply (At_nil l H)|]. cbn in Ha. apply (At_ascii l c r H Ha).
Qed.

Lemma At_not_eof : forall l c r, At l (c :: r) -> l_eof l = false.
Proof. intros l c r (E & _). exact E. Qed.

Lemma skip_ws_none : forall fuel (l : plex), is_ws (l_ch l) = false -> 0 < fuel ->
  skip_whitespace pure_stream fuel l = Some l.
Proof.
  intros fuel l H Hf. destruct fuel as [|f]; [lia|]. unfold skip_whitespace, skip_while. cbn [loop].
  rewrite H. reflexivity.
Qed.

(* the take_while loop over a run of ASCII characters that satisfy the condition *)
Lemma take_while_run : forall cond s, Forall (fun c => (c < 128)%N /\ cond c = true) s ->
  forall rest, ascii_head rest -> cond (head_ch rest) = false ->
  forall fuel (l : plex) b, At l (s ++ rest) -> length s < fuel ->
  exists l', take_while pure_stream fuel cond (l, b) = Some (l', rev s ++ b) /\ At l' rest.
Proof.
  intros cond s. induction s as [|c s IH]; intros Hs rest Ha Hstop fuel l b H Hf.
  - cbn [app] in H. destruct fuel as [|f]; [cbn in Hf; lia|].
    exists l. split; [|exact H]. unfold take_while. cbn [loop].
    rewrite (At_head l rest H Ha), Hstop. reflexivity.
  - inversion Hs as [|? ? [Hc Hcond] Hs']; subst. cbn [app] in H.
    destruct fuel as [|f]; [cbn in Hf; lia|]. cbn [length] in Hf.
    destruct (At_ascii l c _ H Hc) as (E & C & S).
    destruct (IH Hs' rest Ha Hstop f (rc l) (c :: b) (rc_ascii l c _ H Hc) ltac:(lia)) as (l' & Ht & Ha').
    exists l'. split; [|exact Ha'].
    unfold take_while in *. cbn [loop]. rewrite C, Hcond. rewrite wr_ascii by exact Hc.
    etransitivity; [exact Ht|]. cbn [rev]. rewrite <- app_assoc. reflexivity.
Qed.

(* ------------------------------------------------------------------------------------------ *)
(* separators: what follows an element in the source text of a tree *)

Definition sep_rest (rest : list N) : Prop :=
  rest = [] \/ exists c r, rest = c :: r /\ (c = 44%N \/ c = 93%N \/ c = 41%N).

Lemma sep_rest_cases : forall rest, sep_rest rest ->
  ascii_head rest /\ (head_ch rest = 0 \/ head_ch rest = 44 \/ head_ch rest = 93 \/ head_ch rest = 41)%N.
Proof.
  intros rest [->|(c & r & -> & Hc)]; cbn; [auto|]. split; [lia|]. right. exact Hc.
Qed.

Lemma sep_rest_follow : forall rest, sep_rest rest -> follow_ok rest.
Proof. intros rest [->|(c & r & -> & Hc)]; cbn; [exact I|]. destruct Hc as [->|[->| ->]]; exact I. Qed.

(* ------------------------------------------------------------------------------------------ *)
(* punctuation *)

Lemma next_token_punct : forall c k,
  (c = 91%N /\ k = T_LBRACKET) \/ (c = 93%N /\ k = T_RBRACKET) \/ (c = 40%N /\ k = T_LPAREN) \/
  (c = 41%N /\ k = T_RPAREN) \/ (c = 44%N /\ k = T_COMMA) ->
  forall fuel (l : plex) rest, At l (c :: rest) -> 0 < fuel ->
  next_token pure_stream fuel l = Some (mk_item k [c] (l_pos l) false, rc l) /\ At (rc l) rest.
Proof.
  intros c k Hc fuel l rest H Hf.
  assert (Hc128 : (c < 128)%N) by (destruct Hc as [[-> _]|[[-> _]|[[-> _]|[[-> _]|[-> _]]]]]; lia).
  destruct (At_ascii l c rest H Hc128) as (E & C & S).
  split; [|eapply rc_ascii; eassumption].
  unfold next_token.
  rewrite skip_ws_none; [|rewrite C; destruct Hc as [[-> _]|[[-> _]|[[-> _]|[[-> _]|[-> _]]]]]; reflexivity|exact Hf].
  cbn [bind]. rewrite E, C.
  destruct Hc as [[-> ->]|[[-> ->]|[[-> ->]|[[-> ->]|[-> ->]]]]]; reflexivity.
Qed.

Lemma peek_ascii : forall (l : plex) d r, l_eof l = false -> l_src l = d :: r -> (d < 128)%N ->
  fst (peek_char pure_stream l) = d.
Proof.
  intros l d r E S Hd. unfold peek_char. rewrite E. cbn [s_peek pure_stream]. unfold pure_peek.
  rewrite S. cbn [Nat.min bufio_size firstn fst]. unfold decode_rune. apply N.ltb_lt in Hd. rewrite Hd. reflexivity.
Qed.

(* a minus sign followed by a digit *)
Lemma next_token_minus : forall fuel (l : plex) d rest, At l (45%N :: d :: rest) -> (48 <= d <= 57)%N -> 0 < fuel ->
  next_token pure_stream fuel l = Some (mk_item T_MINUS [45%N] (l_pos l) false, rc l) /\ At (rc l) (d :: rest).
Proof.
  intros fuel l d rest H Hd Hf.
  destruct (At_ascii l _ _ H ltac:(lia)) as (E & C & S).
  split; [|eapply rc_ascii; [eassumption|lia]].
  unfold next_token. rewrite skip_ws_none; [|rewrite C; reflexivity|exact Hf].
  cbn [bind]. rewrite E, C. cbn [N.eqb Pos.eqb orb andb].
  pose proof (peek_char_st l) as Hp. pose proof (peek_ascii l d rest E S ltac:(lia)) as Hpk.
  destruct (peek_char pure_stream l) as [pk l1]. cbn [fst snd] in *. subst l1 pk.
  assert (Q1 : (d =? 45)%N = false) by lia. assert (Q2 : (d =? 62)%N = false) by lia.
  rewrite Q1, Q2. reflexivity.
Qed.

(* one space before a token *)
Lemma next_token_space : forall fuel (l : plex) c s, At l (32%N :: c :: s) -> (c < 128)%N -> is_ws c = false ->
  1 < fuel -> next_token pure_stream fuel l = next_token pure_stream fuel (rc l) /\ At (rc l) (c :: s).
Proof.
  intros fuel l c s H Hc Hws Hf.
  destruct (At_ascii l _ _ H ltac:(lia)) as (E & C & S).
  pose proof (rc_ascii l _ _ H ltac:(lia)) as H1.
  destruct (At_ascii (rc l) _ _ H1 Hc) as (E1 & C1 & S1).
  split; [|exact H1].
  unfold next_token.
  assert (Hs1 : skip_whitespace pure_stream fuel l = Some (rc l)).
  { destruct fuel as [|[|f]]; [lia|lia|]. unfold skip_whitespace, skip_while. cbn [loop].
    rewrite C. change (is_ws 32) with true. cbv iota. rewrite C1, Hws. reflexivity. }
  rewrite Hs1. rewrite skip_ws_none; [reflexivity|rewrite C1; exact Hws|lia].
Qed.

(* ------------------------------------------------------------------------------------------ *)
(* numbers *)

Definition plain_stop (h : N) : Prop := (h = 0 \/ h = 44 \/ h = 93 \/ h = 41)%N.

Lemma loopo_once : forall {A} (body : A -> option (A * bool)) a a' f,
  body a = Some (a', false) -> loopo (S f) body a = Some a'.
Proof. intros A body a a' f H. cbn [loopo]. rewrite H. reflexivity. Qed.

(* readNumberOrIdent after the leading digits, when the next character ends the number *)
Lemma number_rest_plain : forall fuel pos sc (l : plex) b h, 0 < fuel -> l_ch l = h -> plain_stop h ->
  number_rest pure_stream fuel pos sc (l, b) = Some (mk_item T_NUMBER (sb_str b) pos false, l).
Proof.
  intros fuel pos sc l b h Hf C Hh. destruct fuel as [|f]; [lia|].
  unfold number_rest.
  assert (U : us_digit_groups pure_stream (S f) (l, b) = Some (l, b)).
  { unfold us_digit_groups. apply loopo_once. rewrite C. destruct Hh as [->|[->|[->| ->]]]; reflexivity. }
  rewrite U. cbn [LexerModel.bind].
  assert (F : fraction_part pure_stream (S f) (l, b) = Some (l, b)).
  { unfold fraction_part. rewrite C. destruct Hh as [->|[->|[->| ->]]]; reflexivity. }
  rewrite F. cbn [LexerModel.bind].
  assert (X : exponent_part pure_stream (S f) (l, b) = Some (l, b)).
  { unfold exponent_part. rewrite C. destruct Hh as [->|[->|[->| ->]]]; reflexivity. }
  rewrite X. cbn [LexerModel.bind fst snd]. rewrite C.
  destruct Hh as [->|[->|[->| ->]]]; cbn [N.eqb Pos.eqb orb]; rewrite !andb_false_r;
    cbn [LexerModel.bind fst snd]; rewrite C; cbn [N.eqb Pos.eqb orb]; rewrite !andb_false_r; reflexivity.
Qed.

Lemma digit_cases : forall c, (48 <= c <= 57)%N ->
  (c = 48 \/ c = 49 \/ c = 50 \/ c = 51 \/ c = 52 \/ c = 53 \/ c = 54 \/ c = 55 \/ c = 56 \/ c = 57)%N.
Proof. intros c H. lia. Qed.

Lemma is_digit_ascii : forall c, (48 <= c <= 57)%N -> is_digit c = true.
Proof.
  intros c H. destruct (digit_cases c H) as [->|[->|[->|[->|[->|[->|[->|[->|[->| ->]]]]]]]]]; reflexivity.
Qed.

(* NextToken on a digit goes to readNumberOrIdent *)
Lemma next_token_digit : forall fuel (l : plex) c, l_eof l = false -> l_ch l = c -> (48 <= c <= 57)%N -> 0 < fuel ->
  next_token pure_stream fuel l = read_number_or_ident pure_stream fuel l.
Proof.
  intros fuel l c E C Hc Hf. unfold next_token.
  rewrite skip_ws_none; [|rewrite C; destruct (digit_cases c Hc) as [->|[->|[->|[->|[->|[->|[->|[->|[->| ->]]]]]]]]]; reflexivity|exact Hf].
  cbn [LexerModel.bind]. rewrite E, C.
  destruct (digit_cases c Hc) as [->|[->|[->|[->|[->|[->|[->|[->|[->| ->]]]]]]]]]; reflexivity.
Qed.

Definition dec_digits (ds : list N) : Prop := ds <> [] /\ Forall (fun c => (48 <= c <= 57)%N) ds.

Lemma digits_run : forall ds, Forall (fun c => (48 <= c <= 57)%N) ds ->
  Forall (fun c => (c < 128)%N /\ is_digit c = true) ds.
Proof.
  intros ds H. apply Forall_forall. intros c Hc. rewrite Forall_forall in H. specialize (H c Hc).
  split; [lia|apply is_digit_ascii; exact H].
Qed.

Lemma plain_stop_tests : forall h, plain_stop h ->
  is_digit h = false /\ is_letter h = false /\ (h =? 95)%N = false.
Proof. intros h [->|[->|[->| ->]]]; repeat split; reflexivity. Qed.

(* a run of decimal digits followed by a separator is one NUMBER token *)
Lemma read_number_digits : forall ds rest, dec_digits ds -> sep_rest rest ->
  forall fuel (l : plex), At l (ds ++ rest) -> length ds < fuel ->
  exists l', read_number_or_ident pure_stream fuel l = Some (mk_item T_NUMBER ds (l_pos l) false, l') /\ At l' rest.
Proof.
  intros ds rest [Hne Hds] Hsep fuel l H Hf.
  destruct (sep_rest_cases rest Hsep) as [Ha Hh].
  destruct (plain_stop_tests _ Hh) as (T1 & T2 & T3).
  destruct (take_while_run is_digit ds (digits_run ds Hds) rest Ha T1 fuel l [] H Hf) as (l1 & Ht & Ha1).
  pose proof (At_head l1 rest Ha1 Ha) as C1.
  exists l1. split; [|exact Ha1].
  unfold read_number_or_ident. unfold sb in *. rewrite Ht. cbn [LexerModel.bind fst snd].
  rewrite C1, T3. cbn [andb]. cbv iota. rewrite C1, T2. cbn [andb]. cbv iota.
  rewrite number_rest_plain with (h := head_ch rest); [|lia|exact C1|exact Hh].
  rewrite app_nil_r. unfold sb_str, frev. rewrite rev_append_rev, app_nil_r, rev_involutive. reflexivity.
Qed.

Lemma next_token_number : forall ds rest, dec_digits ds -> sep_rest rest ->
  forall fuel (l : plex), At l (ds ++ rest) -> length ds < fuel ->
  exists l', next_token pure_stream fuel l = Some (mk_item T_NUMBER ds (l_pos l) false, l') /\ At l' rest.
Proof.
  intros ds rest Hd Hsep fuel l H Hf. destruct Hd as [Hne Hds].
  destruct ds as [|c ds']; [contradiction|].
  assert (Hc : (48 <= c <= 57)%N) by (inversion Hds; assumption).
  cbn [app] in H. destruct (At_ascii l c _ H ltac:(lia)) as (E & C & S).
  rewrite (next_token_digit fuel l c E C Hc) by lia.
  apply read_number_digits; [split; [discriminate|exact Hds]|exact Hsep|exact H|exact Hf].
Qed.

Lemma dec_dec_digits : forall n, dec_digits (dec n).
Proof.
  intros n. split; [apply dec_nonempty|].
  apply Forall_forall. intros c Hc.
  pose proof (proj1 (forallb_forall _ _) (dec_all_digits n) c Hc) as H. unfold is_dec_digit, in_range in H. lia.
Qed.

(* ---- 0x... and 0b... ---- *)

Lemma lhex_run : forall hs, forallb is_lhex hs = true ->
  Forall (fun c => (c < 128)%N /\ (is_hex_digit c || (c =? 95)%N) = true) hs.
Proof.
  intros hs H. apply Forall_forall. intros c Hc.
  pose proof (proj1 (forallb_forall _ _) H c Hc) as Hl. unfold is_lhex, in_range in Hl.
  assert (Hcases : (48 <= c <= 57 \/ 97 <= c <= 102)%N) by lia.
  split; [lia|].
  destruct Hcases as [Hd|Hx].
  - unfold is_hex_digit. rewrite (is_digit_ascii c Hd). reflexivity.
  - assert (Hc6 : (c = 97 \/ c = 98 \/ c = 99 \/ c = 100 \/ c = 101 \/ c = 102)%N) by lia.
    destruct Hc6 as [->|[->|[->|[->|[->| ->]]]]]; reflexivity.
Qed.

Lemma hex_tail_run : forall hs rest,
  Forall (fun c => (c < 128)%N /\ (is_hex_digit c || (c =? 95)%N) = true) hs -> sep_rest rest ->
  forall fuel (l : plex) b, At l (hs ++ rest) -> length hs < fuel ->
  exists l', hex_tail pure_stream fuel (l, b) = Some (l', rev hs ++ b) /\ At l' rest.
Proof.
  intros hs rest Hh Hsep fuel l b H Hf.
  destruct (sep_rest_cases rest Hsep) as [Ha Hst].
  assert (Hstop : (is_hex_digit (head_ch rest) || (head_ch rest =? 95)%N) = false)
    by (destruct Hst as [->|[->|[->| ->]]]; reflexivity).
  destruct (take_while_run _ hs Hh rest Ha Hstop fuel l b H Hf) as (l1 & Ht & Ha1).
  pose proof (At_head l1 rest Ha1 Ha) as C1.
  exists l1. split; [|exact Ha1].
  assert (Q46 : (head_ch rest =? 46)%N = false) by (destruct Hst as [->|[->|[->| ->]]]; reflexivity).
  assert (Qp : ((head_ch rest =? 112)%N || (head_ch rest =? 80)%N) = false)
    by (destruct Hst as [->|[->|[->| ->]]]; reflexivity).
  unfold hex_tail. unfold sb in *. rewrite Ht. cbn [LexerModel.bind]. rewrite C1, Q46.
  cbn [LexerModel.bind]. rewrite C1, Qp. reflexivity.
Qed.

(* the characters of a well-formed prefixed spelling (LiteralSpec.rad_ok) are what the lexer's loops accept *)
Definition rad_cond (r : radix) : N -> bool :=
  match r with
  | RHex => fun c => is_hex_digit c || (c =? 95)%N
  | RBin => is_bin_char
  | ROct => is_oct_char
  end.

Lemma rad_cond_sweep :
  forallb (fun c => (if is_rdigit RHex c then rad_cond RHex c else true) &&
                    (if is_rdigit RBin c then rad_cond RBin c else true) &&
                    (if is_rdigit ROct c then rad_cond ROct c else true)) (map N.of_nat (seq 0 128)) = true.
Proof. vm_compute. reflexivity. Qed.

Lemma rad_run : forall r ds, rad_ok r ds = true -> Forall (fun c => (c < 128)%N /\ rad_cond r c = true) ds.
Proof.
  intros r ds H. apply Forall_forall. intros c Hc.
  pose proof (proj1 (Forall_forall _ _) (rad_ok_chars r ds H) c Hc) as [->|Hd].
  - split; [lia|destruct r; reflexivity].
  - destruct (is_rdigit_some r c Hd) as (d & Ed). pose proof (rdigit_lt r c d Ed) as Hlt. split; [exact Hlt|].
    assert (Hin : In c (map N.of_nat (seq 0 128))).
    { apply in_map_iff. exists (N.to_nat c). split; [lia|]. apply in_seq. lia. }
    pose proof (proj1 (forallb_forall _ _) rad_cond_sweep c Hin) as Hs. cbv beta in Hs.
    apply andb_prop in Hs. destruct Hs as [Hs H3]. apply andb_prop in Hs. destruct Hs as [H1 H2].
    destruct r; [rewrite Hd in H1; exact H1|rewrite Hd in H2; exact H2|rewrite Hd in H3; exact H3].
Qed.

(* readNumberOrIdent on "0" followed by a base letter: the identifier tests fail and number_rest runs on ("0") *)
Lemma number_rest_entry : forall X tail, (X = 120 \/ X = 88 \/ X = 98 \/ X = 66 \/ X = 111 \/ X = 79)%N ->
  forall fuel (l : plex), At l (48%N :: X :: tail) -> 2 < fuel ->
  exists l1, read_number_or_ident pure_stream fuel l = number_rest pure_stream fuel (l_pos l) 48%N (l1, [48%N]) /\
             At l1 (X :: tail) /\ l_ch l = 48%N.
Proof.
  intros X tail HX fuel l H Hf.
  assert (HX128 : (X < 128)%N) by lia.
  destruct (At_ascii l _ _ H ltac:(lia)) as (E & C & Sr).
  assert (Hnd : is_digit (head_ch (X :: tail)) = false)
    by (cbn [head_ch]; destruct HX as [->|[->|[->|[->|[->| ->]]]]]; reflexivity).
  destruct (take_while_run is_digit [48%N] ltac:(constructor; [split; [lia|reflexivity]|constructor])
              (X :: tail) ltac:(cbn; lia) Hnd fuel l [] H ltac:(cbn; lia)) as (l1 & Ht & Ha1).
  destruct (At_ascii l1 _ _ Ha1 HX128) as (E1 & C1 & Sr1).
  exists l1. split; [|split; [exact Ha1|exact C]].
  unfold read_number_or_ident. unfold sb in *. rewrite Ht. cbn [LexerModel.bind fst snd rev app].
  rewrite C, C1.
  assert (Q95 : (X =? 95)%N = false) by (destruct HX as [->|[->|[->|[->|[->| ->]]]]]; reflexivity).
  rewrite Q95. cbn [andb]. cbv iota.
  assert (Ql : is_letter X = true) by (destruct HX as [->|[->|[->|[->|[->| ->]]]]]; reflexivity).
  assert (Qb : ((X =? 120) || (X =? 88) || (X =? 98) || (X =? 66) || (X =? 111) || (X =? 79))%N = true)
    by (destruct HX as [->|[->|[->|[->|[->| ->]]]]]; reflexivity).
  assert (Qe : ((X =? 101) || (X =? 69))%N = false) by (destruct HX as [->|[->|[->|[->|[->| ->]]]]]; reflexivity).
  rewrite ?C1. rewrite Ql, Qb, Qe. change (bytes_eqb (sb_str [48%N]) [48%N]) with true. cbn [andb negb]. cbv iota. reflexivity.
Qed.

(* number_rest on ("0") when the current character is a base letter: no underscore group, fraction or exponent *)
Lemma number_rest_skip : forall X, (X = 120 \/ X = 88 \/ X = 98 \/ X = 66 \/ X = 111 \/ X = 79)%N ->
  forall f (l1 : plex), l_ch l1 = X ->
  us_digit_groups pure_stream (S f) (l1, [48%N]) = Some (l1, [48%N]) /\
  fraction_part pure_stream (S f) (l1, [48%N]) = Some (l1, [48%N]) /\
  exponent_part pure_stream (S f) (l1, [48%N]) = Some (l1, [48%N]).
Proof.
  intros X HX f l1 C1. split; [|split].
  - unfold us_digit_groups. apply loopo_once. rewrite C1. destruct HX as [->|[->|[->|[->|[->| ->]]]]]; reflexivity.
  - unfold fraction_part. rewrite C1. destruct HX as [->|[->|[->|[->|[->| ->]]]]]; reflexivity.
  - unfold exponent_part. rewrite C1. destruct HX as [->|[->|[->|[->|[->| ->]]]]]; reflexivity.
Qed.

Lemma sb_str_rev : forall (ds : list N) X, sb_str (rev ds ++ [X; 48%N]) = (48%N :: X :: ds).
Proof.
  intros ds X. unfold sb_str, frev. rewrite rev_append_rev, app_nil_r, rev_app_distr, rev_involutive. reflexivity.
Qed.

(* "0x" / "0X", hex digits and separators, followed by a separator of the literal syntax: one NUMBER token *)
Lemma next_token_radhex : forall X ds rest, (X = 120 \/ X = 88)%N -> rad_ok RHex ds = true -> sep_rest rest ->
  forall fuel (l : plex), At l ([48; X]%N ++ ds ++ rest) -> length ds + 2 < fuel ->
  exists l', next_token pure_stream fuel l = Some (mk_item T_NUMBER ([48; X]%N ++ ds) (l_pos l) false, l') /\ At l' rest.
Proof.
  intros X ds rest HX Hok Hsep fuel l H Hf. cbn [app] in H.
  destruct (At_ascii l _ _ H ltac:(lia)) as (E & C & Sr).
  rewrite (next_token_digit fuel l 48%N E C ltac:(lia)) by lia.
  destruct (number_rest_entry X (ds ++ rest) ltac:(lia) fuel l H ltac:(lia)) as (l1 & Hr & Ha1 & _).
  rewrite Hr. clear Hr.
  destruct (At_ascii l1 _ _ Ha1 ltac:(lia)) as (E1 & C1 & Sr1).
  pose proof (rc_ascii l1 _ _ Ha1 ltac:(lia)) as Ha2.
  destruct (hex_tail_run ds rest (rad_run RHex ds Hok) Hsep fuel (rc l1) [X; 48]%N Ha2 ltac:(lia)) as (l2 & Hx & Ha3).
  destruct (sep_rest_cases rest Hsep) as [Ha Hst].
  pose proof (At_head l2 rest Ha3 Ha) as C2.
  exists l2. split; [|exact Ha3].
  destruct fuel as [|f]; [lia|].
  destruct (number_rest_skip X ltac:(lia) f l1 C1) as (U & F & Xp).
  unfold number_rest. unfold sb in *. rewrite U. cbn [LexerModel.bind]. rewrite F. cbn [LexerModel.bind].
  rewrite Xp. cbn [LexerModel.bind fst snd]. rewrite C1.
  change (bytes_eqb (sb_str [48%N]) [48%N]) with true.
  assert (Qx : ((X =? 120) || (X =? 88))%N = true) by (destruct HX as [-> | ->]; reflexivity).
  rewrite Qx. cbn [andb]. cbv iota.
  assert (Wx : wr X [48%N] = [X; 48]%N) by (destruct HX as [-> | ->]; reflexivity).
  rewrite Wx, Hx. cbn [LexerModel.bind fst snd]. rewrite C2.
  assert (Ho : ((head_ch rest =? 111)%N || (head_ch rest =? 79)%N) = false)
    by (destruct Hst as [->|[->|[->| ->]]]; reflexivity).
  rewrite Ho, andb_false_r. cbn [LexerModel.bind num_item]. rewrite sb_str_rev. reflexivity.
Qed.

(* "0b" / "0B": the first character after the letter must be a bit (peekChar), then bits and separators *)
Lemma next_token_radbin : forall X ds rest, (X = 98 \/ X = 66)%N -> rad_ok RBin ds = true ->
  (exists b0 ds', ds = b0 :: ds' /\ (b0 = 48 \/ b0 = 49)%N) -> sep_rest rest ->
  forall fuel (l : plex), At l ([48; X]%N ++ ds ++ rest) -> length ds + 2 < fuel ->
  exists l', next_token pure_stream fuel l = Some (mk_item T_NUMBER ([48; X]%N ++ ds) (l_pos l) false, l') /\ At l' rest.
Proof.
  intros X ds rest HX Hok (b0 & ds' & Eds & Hb0) Hsep fuel l H Hf. cbn [app] in H.
  destruct (At_ascii l _ _ H ltac:(lia)) as (E & C & Sr).
  rewrite (next_token_digit fuel l 48%N E C ltac:(lia)) by lia.
  destruct (number_rest_entry X (ds ++ rest) ltac:(lia) fuel l H ltac:(lia)) as (l1 & Hr & Ha1 & _).
  rewrite Hr. clear Hr.
  destruct (At_ascii l1 _ _ Ha1 ltac:(lia)) as (E1 & C1 & Sr1).
  pose proof (rc_ascii l1 _ _ Ha1 ltac:(lia)) as Ha2.
  destruct (sep_rest_cases rest Hsep) as [Ha Hst].
  assert (Hstop : is_bin_char (head_ch rest) = false) by (destruct Hst as [->|[->|[->| ->]]]; reflexivity).
  destruct (take_while_run is_bin_char ds (rad_run RBin ds Hok) rest Ha Hstop fuel (rc l1) [X; 48]%N Ha2 ltac:(lia))
    as (l2 & Hx & Ha3).
  pose proof (At_head l2 rest Ha3 Ha) as C2.
  assert (Sr1' : l_src l1 = b0 :: ds' ++ rest) by (rewrite Sr1, Eds; reflexivity).
  pose proof (peek_ascii l1 b0 (ds' ++ rest) E1 Sr1' ltac:(lia)) as Hpk.
  pose proof (peek_char_st l1) as Hps.
  exists l2. split; [|exact Ha3].
  destruct fuel as [|f]; [lia|].
  destruct (number_rest_skip X ltac:(lia) f l1 C1) as (U & F & Xp).
  unfold number_rest. unfold sb in *. rewrite U. cbn [LexerModel.bind]. rewrite F. cbn [LexerModel.bind].
  rewrite Xp. cbn [LexerModel.bind fst snd]. rewrite C1.
  change (bytes_eqb (sb_str [48%N]) [48%N]) with true.
  assert (Qx : ((X =? 120) || (X =? 88))%N = false) by (destruct HX as [-> | ->]; reflexivity).
  assert (Qb : ((X =? 98) || (X =? 66))%N = true) by (destruct HX as [-> | ->]; reflexivity).
  rewrite Qx, Qb. cbn [andb]. cbv iota.
  rewrite Hpk, Hps.
  assert (Hb01 : ((b0 =? 48)%N || (b0 =? 49)%N) = true) by (destruct Hb0 as [-> | ->]; reflexivity).
  rewrite Hb01. rewrite C1.
  assert (Wx : wr X [48%N] = [X; 48]%N) by (destruct HX as [-> | ->]; reflexivity).
  rewrite Wx, Hx. cbn [LexerModel.bind fst snd]. rewrite C2.
  assert (Ho : ((head_ch rest =? 111)%N || (head_ch rest =? 79)%N) = false)
    by (destruct Hst as [->|[->|[->| ->]]]; reflexivity).
  rewrite Ho, andb_false_r. cbn [LexerModel.bind num_item]. rewrite sb_str_rev. reflexivity.
Qed.

(* "0o" / "0O", octal digits and separators *)
Lemma next_token_radoct : forall X ds rest, (X = 111 \/ X = 79)%N -> rad_ok ROct ds = true -> sep_rest rest ->
  forall fuel (l : plex), At l ([48; X]%N ++ ds ++ rest) -> length ds + 2 < fuel ->
  exists l', next_token pure_stream fuel l = Some (mk_item T_NUMBER ([48; X]%N ++ ds) (l_pos l) false, l') /\ At l' rest.
Proof.
  intros X ds rest HX Hok Hsep fuel l H Hf. cbn [app] in H.
  destruct (At_ascii l _ _ H ltac:(lia)) as (E & C & Sr).
  rewrite (next_token_digit fuel l 48%N E C ltac:(lia)) by lia.
  destruct (number_rest_entry X (ds ++ rest) ltac:(lia) fuel l H ltac:(lia)) as (l1 & Hr & Ha1 & _).
  rewrite Hr. clear Hr.
  destruct (At_ascii l1 _ _ Ha1 ltac:(lia)) as (E1 & C1 & Sr1).
  pose proof (rc_ascii l1 _ _ Ha1 ltac:(lia)) as Ha2.
  destruct (sep_rest_cases rest Hsep) as [Ha Hst].
  assert (Hstop : is_oct_char (head_ch rest) = false) by (destruct Hst as [->|[->|[->| ->]]]; reflexivity).
  destruct (take_while_run is_oct_char ds (rad_run ROct ds Hok) rest Ha Hstop fuel (rc l1) [X; 48]%N Ha2 ltac:(lia))
    as (l2 & Hx & Ha3).
  exists l2. split; [|exact Ha3].
  destruct fuel as [|f]; [lia|].
  destruct (number_rest_skip X ltac:(lia) f l1 C1) as (U & F & Xp).
  unfold number_rest. unfold sb in *. rewrite U. cbn [LexerModel.bind]. rewrite F. cbn [LexerModel.bind].
  rewrite Xp. cbn [LexerModel.bind fst snd]. rewrite C1.
  change (bytes_eqb (sb_str [48%N]) [48%N]) with true.
  assert (Qx : ((X =? 120) || (X =? 88))%N = false) by (destruct HX as [-> | ->]; reflexivity).
  assert (Qb : ((X =? 98) || (X =? 66))%N = false) by (destruct HX as [-> | ->]; reflexivity).
  assert (Qo : ((X =? 111) || (X =? 79))%N = true) by (destruct HX as [-> | ->]; reflexivity).
  rewrite Qx, Qb. cbn [andb]. cbv iota. cbn [LexerModel.bind fst snd]. rewrite C1, Qo.
  cbn [length Nat.eqb N.eqb Pos.eqb andb]. cbv iota.
  assert (Wx : wr X [48%N] = [X; 48]%N) by (destruct HX as [-> | ->]; reflexivity).
  rewrite Wx, Hx. cbn [LexerModel.bind num_item]. rewrite sb_str_rev. reflexivity.
Qed.

Lemma next_token_hex : forall hs rest, hs <> [] -> forallb is_lhex hs = true -> sep_rest rest ->
  forall fuel (l : plex), At l ([48; 120]%N ++ hs ++ rest) -> length hs + 2 < fuel ->
  exists l', next_token pure_stream fuel l = Some (mk_item T_NUMBER ([48; 120]%N ++ hs) (l_pos l) false, l') /\ At l' rest.
Proof.
  intros hs rest Hne Hh Hsep fuel l H Hf. cbn [app] in H.
  destruct (At_ascii l _ _ H ltac:(lia)) as (E & C & Sr).
  rewrite (next_token_digit fuel l 48%N E C ltac:(lia)) by lia.
  destruct (number_rest_entry 120%N (hs ++ rest) ltac:(lia) fuel l H ltac:(lia)) as (l1 & Hr & Ha1 & _).
  rewrite Hr. clear Hr.
  destruct (At_ascii l1 _ _ Ha1 ltac:(lia)) as (E1 & C1 & Sr1).
  pose proof (rc_ascii l1 _ _ Ha1 ltac:(lia)) as Ha2.
  destruct (hex_tail_run hs rest (lhex_run hs Hh) Hsep fuel (rc l1) [120; 48]%N Ha2 ltac:(lia)) as (l2 & Hx & Ha3).
  destruct (sep_rest_cases rest Hsep) as [Ha Hst].
  pose proof (At_head l2 rest Ha3 Ha) as C2.
  exists l2. split; [|exact Ha3].
  destruct fuel as [|f]; [lia|].
  destruct (number_rest_skip 120%N ltac:(lia) f l1 C1) as (U & F & Xp).
  unfold number_rest. unfold sb in *. rewrite U. cbn [LexerModel.bind]. rewrite F. cbn [LexerModel.bind].
  rewrite Xp. cbn [LexerModel.bind fst snd]. rewrite C1.
  change (bytes_eqb (sb_str [48%N]) [48%N]) with true. cbn [N.eqb Pos.eqb andb orb]. cbv iota.
  change (wr 120 [48%N]) with [120; 48]%N. rewrite Hx. cbn [LexerModel.bind fst snd]. rewrite C2.
  assert (Ho : ((head_ch rest =? 111)%N || (head_ch rest =? 79)%N) = false)
    by (destruct Hst as [->|[->|[->| ->]]]; reflexivity).
  rewrite Ho, andb_false_r. cbn [LexerModel.bind num_item]. rewrite sb_str_rev. reflexivity.
Qed.

(* ------------------------------------------------------------------------------------------ *)
(* sequences of tokens *)

Inductive lex_many (fuel : nat) : plex -> list tk -> plex -> Prop :=
| lm_nil : forall l, lex_many fuel l [] l
| lm_cons : forall l it l1 ts l2,
    next_token pure_stream fuel l = Some (it, l1) -> it_tok it <> T_EOF ->
    lex_many fuel l1 ts l2 -> lex_many fuel l ((it_tok it, it_val it) :: ts) l2.

Lemma lex_many_app : forall fuel l ts1 l1 ts2 l2,
  lex_many fuel l ts1 l1 -> lex_many fuel l1 ts2 l2 -> lex_many fuel l (ts1 ++ ts2) l2.
Proof.
  intros fuel l ts1 l1 ts2 l2 H1 H2. induction H1 as [|l it l1' ts l2' Hn Ht Hm IH]; [exact H2|].
  cbn [app]. econstructor; [exact Hn|exact Ht|apply IH; exact H2].
Qed.

Lemma lex_many_one : forall fuel l k v p l1, next_token pure_stream fuel l = Some (mk_item k v p false, l1) ->
  k <> T_EOF -> lex_many fuel l [(k, v)] l1.
Proof.
  intros fuel l k v p l1 Hn Hk.
  change (k, v) with (it_tok (mk_item k v p false), it_val (mk_item k v p false)).
  econstructor; [exact Hn|exact Hk|constructor].
Qed.

(* the same tokens when the first NextToken call gives the same answer *)
Lemma lex_many_first : forall fuel l l0 t ts l2,
  next_token pure_stream fuel l = next_token pure_stream fuel l0 ->
  lex_many fuel l0 (t :: ts) l2 -> lex_many fuel l (t :: ts) l2.
Proof.
  intros fuel l l0 t ts l2 He H. inversion H as [|? it l1 ? ? Hn Ht Hm]; subst.
  econstructor; [rewrite He; exact Hn|exact Ht|exact Hm].
Qed.

Definition lexes (s : list N) (ts : list tk) : Prop :=
  forall rest, sep_rest rest -> forall fuel (l : plex), At l (s ++ rest) -> length (s ++ rest) + 1 < fuel ->
  exists l', lex_many fuel l ts l' /\ At l' rest.

(* ---- leaves ---- *)

Lemma lexes_dec : forall n, lexes (dec n) [(T_NUMBER, dec n)].
Proof.
  intros n rest Hsep fuel l H Hf. rewrite app_length in Hf.
  destruct (next_token_number (dec n) rest (dec_dec_digits n) Hsep fuel l H ltac:(lia)) as (l' & Hn & Ha).
  exists l'. split; [|exact Ha]. eapply lex_many_one; [exact Hn|discriminate].
Qed.

Lemma lexes_neg : forall n, lexes (45%N :: dec n) [(T_MINUS, [45%N]); (T_NUMBER, dec n)].
Proof.
  intros n rest Hsep fuel l H Hf. cbn [app length] in *. rewrite app_length in Hf.
  destruct (dec_dec_digits n) as [Hne Hds].
  destruct (dec n) as [|d ds'] eqn:Ed; [contradiction|].
  assert (Hd : (48 <= d <= 57)%N) by (inversion Hds; assumption).
  cbn [app] in H.
  destruct (next_token_minus fuel l d (ds' ++ rest) H Hd ltac:(lia)) as [Hm Ha1].
  destruct (next_token_number (d :: ds') rest ltac:(split; [discriminate|exact Hds]) Hsep fuel (rc l) Ha1 ltac:(cbn [length] in *; lia))
    as (l' & Hn & Ha).
  exists l'. split; [|exact Ha].
  apply (lex_many_app fuel l [(T_MINUS, [45%N])] (rc l) [(T_NUMBER, d :: ds')] l');
    eapply lex_many_one; try eassumption; discriminate.
Qed.

Lemma lexes_hex : forall n, lexes ([48; 120]%N ++ hex n) [(T_NUMBER, [48; 120]%N ++ hex n)].
Proof.
  intros n rest Hsep fuel l H Hf. rewrite <- app_assoc in H. rewrite !app_length in Hf. cbn [length] in Hf.
  destruct (next_token_hex (hex n) rest (hex_nonempty n) (hex_chars n) Hsep fuel l H ltac:(lia)) as (l' & Hn & Ha).
  exists l'. split; [|exact Ha]. eapply lex_many_one; [exact Hn|discriminate].
Qed.

Lemma lexes_rad : forall r up ds, rad_ok r ds = true ->
  (r = RBin -> exists b0 ds', ds = b0 :: ds' /\ (b0 = 48 \/ b0 = 49)%N) ->
  lexes ([48; radix_letter r up]%N ++ ds) [(T_NUMBER, [48; radix_letter r up]%N ++ ds)].
Proof.
  intros r up ds Hok Hbin rest Hsep fuel l H Hf. rewrite <- app_assoc in H. rewrite !app_length in Hf. cbn [length] in Hf.
  assert (G : exists l', next_token pure_stream fuel l =
                Some (mk_item T_NUMBER ([48; radix_letter r up]%N ++ ds) (l_pos l) false, l') /\ At l' rest).
  { destruct r.
    - apply next_token_radhex; try assumption; [destruct up; cbn; lia|lia].
    - apply next_token_radbin; try assumption; [destruct up; cbn; lia|apply Hbin; reflexivity|lia].
    - apply next_token_radoct; try assumption; [destruct up; cbn; lia|lia]. }
  destruct G as (l' & Hn & Ha). exists l'. split; [|exact Ha]. eapply lex_many_one; [exact Hn|discriminate].
Qed.

Lemma lexes_bin : forall n, lexes ([48; 98]%N ++ bin n) [(T_NUMBER, [48; 98]%N ++ bin n)].
Proof.
  intros n. apply (lexes_rad RBin false (bin n)); [apply bin_rad|]. intros _.
  pose proof (bin_nonempty n) as Hne. pose proof (bin_bits n) as Hb.
  destruct (bin n) as [|b0 ds']; [contradiction|]. exists b0, ds'. split; [reflexivity|].
  cbn [forallb] in Hb. apply andb_prop in Hb. destruct Hb as [Hb _]. unfold is_bit in Hb. lia.
Qed.

Lemma bytes_okb_ok : forall v, bytes_okb v = true -> bytes_ok v.
Proof.
  intros v H. apply Forall_forall. intros b Hb.
  pose proof (proj1 (forallb_forall _ _) H b Hb) as Q. cbv beta in Q. apply N.ltb_lt in Q. exact Q.
Qed.

Lemma lexes_str : forall v, bytes_okb v = true -> lexes (quote v) [(T_STRING, v)].
Proof.
  intros v Hv rest Hsep fuel l H Hf.
  assert (Hlen : length v <= length (quote v)).
  { unfold quote. cbn [length]. rewrite app_length. pose proof (quote_body_length v). lia. }
  rewrite app_length in Hf.
  destruct (next_token_quote v rest (bytes_okb_ok v Hv) (sep_rest_follow rest Hsep) fuel l H ltac:(lia)) as (l' & Hn & Ha).
  exists l'. split; [|exact Ha]. eapply lex_many_one; [exact Hn|discriminate].
Qed.

(* ---- lists of elements ---- *)

Definition tl_src (l : list cval) : list N := flat_map (fun y => 44%N :: 32%N :: src y) l.

Lemma sjoin_src : forall x xs, sjoin s_comma_sp (map src (x :: xs)) = src x ++ tl_src xs.
Proof.
  intros x xs. revert x. induction xs as [|y ys IH]; intros x.
  - cbn. rewrite app_nil_r. reflexivity.
  - change (sjoin s_comma_sp (map src (x :: y :: ys))) with (src x ++ s_comma_sp ++ sjoin s_comma_sp (map src (y :: ys))).
    rewrite IH. reflexivity.
Qed.

Fixpoint lexable (t : cval) : bool :=
  match t with
  | CFlt _ _ => false
  | CRad r _ ds =>                              (* after 0b readNumberOrIdent peeks for a bit: "0b_1" is 0 and an alias *)
      rad_ok r ds && match r, ds with RBin, c :: _ => is_bit c | _, _ => true end
  | CStr v => bytes_okb v
  | CArr l => forallb lexable l
  | CTup l => forallb lexable l
  | _ => true
  end.

(* the first byte of a source text is not white space *)
Lemma src_head : forall t, lexable t = true -> exists c s, src t = c :: s /\ (c < 128)%N /\ is_ws c = false.
Proof.
  intros t Hl. destruct t as [n|n|n|n|r up ds|neg text|v|l|l]; cbn [src app]; try discriminate;
    try (eexists; eexists; split; [reflexivity|split; [lia|reflexivity]]).
  destruct (dec_dec_digits n) as [Hne Hds]. destruct (dec n) as [|d ds]; [contradiction|].
  assert (Hd : (48 <= d <= 57)%N) by (inversion Hds; assumption).
  exists d, ds. split; [reflexivity|]. split; [lia|].
  destruct (digit_cases d Hd) as [->|[->|[->|[->|[->|[->|[->|[->|[->| ->]]]]]]]]]; reflexivity.
Qed.

Definition lexes_tree (t : cval) : Prop := shaped t = true -> lexable t = true -> lexes (src t) (toks t).

Lemma lex_tl : forall xs, Forall lexes_tree xs -> forallb shaped xs = true -> forallb lexable xs = true ->
  forall close rest, close = 93%N \/ close = 41%N ->
  forall fuel (l : plex), At l (tl_src xs ++ close :: rest) -> length (tl_src xs ++ close :: rest) + 1 < fuel ->
  exists l', lex_many fuel l (tl_toks xs) l' /\ At l' (close :: rest).
Proof.
  induction xs as [|y ys IH]; intros HP Hs Hl close rest Hc fuel l H Hf.
  - exists l. split; [constructor|exact H].
  - inversion HP as [|? ? Hy Hys]; subst.
    cbn [forallb] in Hs, Hl. apply andb_prop in Hs. destruct Hs as [Hsy Hsys].
    apply andb_prop in Hl. destruct Hl as [Hly Hlys].
    cbn [tl_src flat_map] in H, Hf. fold (tl_src ys) in H, Hf. cbn [app] in H, Hf. rewrite <- app_assoc in H, Hf.
    cbn [length] in Hf.
    destruct (src_head y Hly) as (c & s & Es & Hc128 & Hws).
    destruct (next_token_punct 44%N T_COMMA ltac:(tauto) fuel l _ H ltac:(lia)) as [Hcomma Ha1].
    rewrite Es in Ha1. cbn [app] in Ha1.
    destruct (next_token_space fuel (rc l) c _ Ha1 Hc128 Hws ltac:(lia)) as [Hsp Ha2].
    change (c :: s ++ tl_src ys ++ close :: rest) with ((c :: s) ++ tl_src ys ++ close :: rest) in Ha2.
    rewrite <- Es in Ha2.
    assert (Hsep : sep_rest (tl_src ys ++ close :: rest)).
    { right. destruct ys as [|z zs]; cbn [tl_src flat_map app]; eexists; eexists; (split; [reflexivity|]); tauto. }
    destruct (Hy Hsy Hly _ Hsep fuel (rc (rc l)) Ha2 ltac:(lia)) as (l2 & Hm & Ha3).
    destruct (IH Hys Hsys Hlys close rest Hc fuel l2 Ha3) as (l3 & Hm3 & Ha4).
    { rewrite !app_length in *. cbn [length] in *. lia. }
    exists l3. split; [|exact Ha4].
    cbn [tl_toks flat_map]. fold (tl_toks ys).
    apply (lex_many_app fuel l [tk_comma] (rc l) (toks y ++ tl_toks ys) l3);
      [eapply lex_many_one; [exact Hcomma|discriminate]|].
    apply (lex_many_app fuel (rc l) (toks y) l2 (tl_toks ys) l3); [|exact Hm3].
    destruct (toks_head y) as (hd & tl & Eh & _). rewrite Eh in *.
    eapply lex_many_first; [exact Hsp|exact Hm].
Qed.

Lemma lex_brackets : forall x xs open close ko kc,
  (open = 91%N /\ close = 93%N /\ ko = T_LBRACKET /\ kc = T_RBRACKET) \/
  (open = 40%N /\ close = 41%N /\ ko = T_LPAREN /\ kc = T_RPAREN) ->
  Forall lexes_tree (x :: xs) -> forallb shaped (x :: xs) = true -> forallb lexable (x :: xs) = true ->
  lexes ([open] ++ sjoin s_comma_sp (map src (x :: xs)) ++ [close])
        ([(ko, [open])] ++ sjoin [tk_comma] (map toks (x :: xs)) ++ [(kc, [close])]).
Proof.
  intros x xs open close ko kc Hk HP Hs Hl rest Hsep fuel l H Hf.
  inversion HP as [|? ? Hx Hxs]; subst.
  cbn [forallb] in Hs, Hl. apply andb_prop in Hs. destruct Hs as [Hsx Hsxs].
  apply andb_prop in Hl. destruct Hl as [Hlx Hlxs].
  rewrite sjoin_src in H, Hf. rewrite sjoin_toks.
  cbn [app] in H, Hf. rewrite <- !app_assoc in H, Hf. cbn [app length] in H, Hf.
  assert (Hoc : (close = 93 \/ close = 41)%N) by (destruct Hk as [(_ & -> & _)|(_ & -> & _)]; tauto).
  assert (Hop : next_token pure_stream fuel l = Some (mk_item ko [open] (l_pos l) false, rc l) /\
                At (rc l) (src x ++ tl_src xs ++ close :: rest)).
  { destruct Hk as [(-> & _ & -> & _)|(-> & _ & -> & _)]; apply next_token_punct; try tauto; try lia; exact H. }
  destruct Hop as [Hopen Ha1].
  assert (Hsep1 : sep_rest (tl_src xs ++ close :: rest)).
  { right. destruct xs as [|z zs]; cbn [tl_src flat_map app]; eexists; eexists; (split; [reflexivity|]); tauto. }
  destruct (Hx Hsx Hlx _ Hsep1 fuel (rc l) Ha1 ltac:(lia)) as (l2 & Hm & Ha2).
  destruct (lex_tl xs Hxs Hsxs Hlxs close rest Hoc fuel l2 Ha2) as (l3 & Hm3 & Ha3).
  { rewrite !app_length in *. cbn [length] in *. lia. }
  assert (Hcl : next_token pure_stream fuel l3 = Some (mk_item kc [close] (l_pos l3) false, rc l3) /\ At (rc l3) rest).
  { destruct Hk as [(_ & -> & _ & ->)|(_ & -> & _ & ->)]; apply next_token_punct; try tauto; try lia; exact Ha3. }
  destruct Hcl as [Hclose Ha4].
  exists (rc l3). split; [|exact Ha4].
  assert (Hko : ko <> T_EOF) by (destruct Hk as [(_ & _ & -> & _)|(_ & _ & -> & _)]; discriminate).
  assert (Hkc : kc <> T_EOF) by (destruct Hk as [(_ & _ & _ & ->)|(_ & _ & _ & ->)]; discriminate).
  apply (lex_many_app fuel l [(ko, [open])] (rc l) ((toks x ++ tl_toks xs) ++ [(kc, [close])]) (rc l3));
    [eapply lex_many_one; [exact Hopen|exact Hko]|].
  rewrite <- app_assoc.
  apply (lex_many_app fuel (rc l) (toks x) l2 (tl_toks xs ++ [(kc, [close])]) (rc l3)); [exact Hm|].
  apply (lex_many_app fuel l2 (tl_toks xs) l3 [(kc, [close])] (rc l3)); [exact Hm3|].
  eapply lex_many_one; [exact Hclose|exact Hkc].
Qed.

Theorem lex_tree : forall t, lexes_tree t.
Proof.
  induction t as [n|n|n|n|r up ds|neg text|v|l IH|l IH] using cval_ind2; intros Hs Hl.
  - apply lexes_dec.
  - apply lexes_neg.
  - apply lexes_hex.
  - apply lexes_bin.
  - cbn [lexable] in Hl. apply andb_prop in Hl. destruct Hl as [Hok Hb].
    cbn [src toks]. apply lexes_rad; [exact Hok|].
    intros ->. destruct ds as [|b0 ds']; [discriminate|]. exists b0, ds'. split; [reflexivity|].
    unfold is_bit in Hb. lia.
  - discriminate.
  - cbn [lexable] in Hl. apply lexes_str. exact Hl.
  - cbn [shaped] in Hs. apply andb_prop in Hs. destruct Hs as [Hlen Hsl]. cbn [lexable] in Hl.
    destruct l as [|x xs]; [cbn in Hlen; discriminate|].
    cbn [src toks]. apply (lex_brackets x xs 91%N 93%N T_LBRACKET T_RBRACKET); try assumption. left. tauto.
  - cbn [shaped] in Hs. apply andb_prop in Hs. destruct Hs as [Hlen Hsl]. cbn [lexable] in Hl.
    destruct l as [|x xs]; [cbn in Hlen; discriminate|].
    cbn [src toks]. apply (lex_brackets x xs 40%N 41%N T_LPAREN T_RPAREN); try assumption. right. tauto.
Qed.

(* ------------------------------------------------------------------------------------------ *)
(* Tokenize *)

Lemma lex_many_tokenize : forall fuel l ts l', lex_many fuel l ts l' -> At l' [] -> 0 < fuel ->
  forall n, length ts < n ->
  exists its, tokenize_loop pure_stream n fuel l = Some its /\ strip_items its = ts.
Proof.
  intros fuel l ts l' H. induction H as [l|l it l1 ts l2 Hn Ht Hm IH]; intros Ha Hf n Hlen.
  - destruct n as [|n]; [cbn in Hlen; lia|]. cbn [tokenize_loop].
    destruct (At_nil l Ha) as (E & C).
    rewrite (next_token_at_end fuel l (At_wf l [] Ha) (or_introl E) Hf).
    cbn [LexerModel.bind eof_item mk_item it_tok]. rewrite N.eqb_refl.
    eexists. split; [reflexivity|]. cbn [strip_items it_tok mk_item]. rewrite N.eqb_refl. reflexivity.
  - destruct n as [|n]; [cbn in Hlen; lia|]. cbn [length] in Hlen.
    destruct (IH Ha Hf n ltac:(lia)) as (its & Hi & Hs).
    cbn [tokenize_loop]. rewrite Hn. cbn [LexerModel.bind].
    apply N.eqb_neq in Ht. rewrite Ht, Hi. cbn [LexerModel.bind].
    eexists. split; [reflexivity|]. cbn [strip_items]. rewrite Ht, Hs. reflexivity.
Qed.

Lemma sjoin_length_le : forall (A B : Type) (f : cval -> list A) (g : cval -> list B) (sa : list A) (sb : list B) l,
  length sa <= length sb -> Forall (fun x => length (f x) <= length (g x)) l ->
  length (sjoin sa (map f l)) <= length (sjoin sb (map g l)).
Proof.
  intros A B f g sa sb l Hsep H. induction l as [|x [|y ys] IH]; [cbn; lia|inversion H; cbn; assumption|].
  inversion H as [|? ? Hx Hr]; subst.
  change (sjoin sa (map f (x :: y :: ys))) with (f x ++ sa ++ sjoin sa (map f (y :: ys))).
  change (sjoin sb (map g (x :: y :: ys))) with (g x ++ sb ++ sjoin sb (map g (y :: ys))).
  rewrite !app_length. specialize (IH Hr). lia.
Qed.

Lemma toks_le_src : forall t, lexable t = true -> length (toks t) <= length (src t).
Proof.
  induction t as [n|n|n|n|r up ds|neg text|v|l IH|l IH] using cval_ind2; intros Hl; cbn [toks src]; try discriminate.
  - pose proof (dec_nonempty n). destruct (dec n); [contradiction|cbn; lia].
  - pose proof (dec_nonempty n). destruct (dec n); [contradiction|cbn; lia].
  - cbn. lia.
  - cbn. lia.
  - cbn. lia.
  - unfold quote. cbn. lia.
  - cbn [lexable] in Hl. rewrite !app_length. cbn [length].
    assert (length (sjoin [tk_comma] (map toks l)) <= length (sjoin s_comma_sp (map src l))).
    { apply sjoin_length_le; [cbn; lia|]. apply Forall_forall. intros x Hx. rewrite Forall_forall in IH.
      apply IH; [exact Hx|exact (proj1 (forallb_forall _ _) Hl x Hx)]. }
    lia.
  - cbn [lexable] in Hl. rewrite !app_length. cbn [length].
    assert (length (sjoin [tk_comma] (map toks l)) <= length (sjoin s_comma_sp (map src l))).
    { apply sjoin_length_le; [cbn; lia|]. apply Forall_forall. intros x Hx. rewrite Forall_forall in IH.
      apply IH; [exact Hx|exact (proj1 (forallb_forall _ _) Hl x Hx)]. }
    lia.
Qed.

(* the lexer model turns the source text of a tree into exactly its tokens *)
Theorem tokenize_src : forall t, shaped t = true -> lexable t = true ->
  exists its, tokenize (src t) = Some its /\ strip_items its = toks t.
Proof.
  intros t Hs Hl. unfold tokenize, tokenize_fuel.
  destruct (lex_tree t Hs Hl [] (or_introl eq_refl) (length (src t) + 2) (init_lex pure_stream (src t ++ [])))
    as (l' & Hm & Ha).
  - apply init_At.
  - rewrite app_nil_r. lia.
  - rewrite app_nil_r in Hm.
    apply (lex_many_tokenize _ _ _ _ Hm Ha ltac:(lia)). pose proof (toks_le_src t Hl). lia.
Qed.

(* MAIN (source level): for every well-formed tree of decimal / hex / binary integers, negated integers, strings,
   arrays and tuples, spelling it and explaining it yields its canonical text *)
Section Source.
Variable parse_float : list N -> option fval.
Variable int_to_float : N -> fval.
Hypothesis parse_float_ok : forall s f, parse_float s = Some f -> fval_ok f.
Hypothesis int_to_float_ok : forall n, fval_ok (int_to_float n).
Hypothesis nearest_coherent : forall n, (two64 <= n)%N -> parse_float (dec n) = Some (int_to_float n).

Theorem literal_source_canon : forall t, lexable t = true -> wfb parse_float t = true ->
  literal_of_source parse_float int_to_float (src t) = LOk (OLit (canon parse_float int_to_float t)).
Proof.
  intros t Hl Hw. unfold literal_of_source.
  destruct (tokenize_src t (wfb_shaped parse_float t Hw) Hl) as (its & Ht & Hs).
  rewrite Ht, Hs.
  apply (literal_tokens_canon parse_float int_to_float parse_float_ok int_to_float_ok nearest_coherent). exact Hw.
Qed.
End Source.

(* for every byte string v: quoting v and explaining it yields the canonical rendering of v — no oracle involved *)
Theorem quote_explain_canon : forall pf itf v, bytes_ok v ->
  literal_of_source pf itf (quote v) = LOk (OLit (canon_string v)) /\
  literal_of_source pf itf (quote_raw v) = LOk (OLit (canon_string v)).
Proof.
  intros pf itf v Hv. unfold literal_of_source.
  destruct (tokenize_quote v Hv) as (e & Ht & He & _).
  destruct (tokenize_quote_raw v Hv) as (e' & Ht' & He' & _).
  rewrite Ht, Ht'. cbn [strip_items it_tok mk_item it_val].
  change (T_STRING =? T_EOF)%N with false. cbv iota. rewrite He, He', N.eqb_refl.
  split; apply string_literal.
Qed.

(* ------------------------------------------------------------------------------------------ *)
(* the premises about the oracle are satisfiable together: an oracle that knows the float nearest to 2^64 (and
   answers 1 elsewhere), with ParseFloat defined through the integer conversion *)
Local Open Scope N_scope.
Definition ex_itf (n : N) : fval :=
  if n =? 18446744073709551616
  then FFin false [49; 56; 52; 52; 54; 55; 52; 52; 48; 55; 51; 55; 48; 57; 53; 53; 50] 19
  else FFin false [49] 0.
Definition ex_pf (s : list N) : option fval := Some (ex_itf (digits_val s)).

Example ex_oracle_premises :
  (forall s f, ex_pf s = Some f -> fval_ok f) /\ (forall n, fval_ok (ex_itf n)) /\
  (forall n, 18446744073709551616 <= n -> ex_pf (dec n) = Some (ex_itf n)).
Proof.
  assert (H : forall n, fval_ok (ex_itf n)).
  { intros n. unfold ex_itf. destruct (n =? 18446744073709551616); cbn; repeat split; try discriminate; lia. }
  split; [|split].
  - intros s f E. inversion E; subst. apply H.
  - exact H.
  - intros n _. unfold ex_pf. rewrite dec_round_trip. reflexivity.
Qed.

