(* C09 — executable model of the literal paths of /repo (definitions only, no proofs):

     strconv.ParseUint / ParseInt / underscoreOK      (GOROOT/src/strconv/atoi.go, transcribed)
     big.Int.SetString(s, 0)                          (GOROOT/src/math/big: nat.scan, Int.scan, setFromScanner, transcribed)
     parser.parseNumber, parseRadixToFloat, parseString, parseUnaryMinus, parseArrayLiteral, parseGroupedOrTuple
                                                      (/repo/parser/expression.go) for literal elements
     explain.FormatLiteral, FormatFloat, escapeStringLiteral, formatArrayLiteral, formatTupleLiteral,
     formatNumericExpr, formatExprAsString (the two cases that are reachable), explainLiteral's
     "Literal or Function array/tuple" decision, explainUnaryExpr's folding
                                                      (/repo/internal/explain/{format,expressions,functions}.go)

   Tokens are (token number, value) pairs: the model never reads a position.  Everything outside the fragment
   (identifiers, operators, casts, parenthesised literals, aliases, ...) gives [OutOfFragment reason].

   strconv.ParseFloat and the float64 conversions are NOT modelled: they are the Section variables
   [parse_float] / [int_to_float] below (the oracle; contract in words at the Section).  What IS modelled of
   strconv's float printing is only the digit LAYOUT of FormatFloat(f,'e',-1,64) and FormatFloat(f,'f',-1,64)
   given the shortest digits (ftoa.go fmtE / fmtF). *)
From Coq Require Import List NArith ZArith Bool.
From DC Require Import Base.Utf8 Base.Item Gen.TokenTable Expr.ExprTree.
Import ListNotations.
Local Open Scope bool_scope.
Local Open Scope N_scope.

(* ------------------------------------------------------------------------------------------ *)
(* results *)

Inductive loof :=
| LoofPrefix          (* a token that does not start a literal of the fragment (incl. end of input) *)
| LoofFollow          (* the literal is followed by something other than , ] ) or the end (operators, aliases, casts, [ . ...) *)
| LoofMinusOperand    (* minus followed by something other than NUMBER / STRING (incl. -Inf, - -1, -(1), -[1]) *)
| LoofMinusCast       (* -NUMBER :: *)
| LoofParen           (* (e) : a parenthesised literal *)
| LoofSubquery        (* (SELECT / (WITH / (EXPLAIN *)
| LoofSyntax          (* expect(RBRACKET/RPAREN) fails: the Go parser records an error *)
| LoofComment         (* a LINE_COMMENT token (parser.nextToken skips them; not modelled) *)
| LoofTrailing.       (* tokens left after the literal *)

Inductive lres (A : Type) :=
| LOk (a : A)
| LOutOfFragment (r : loof)
| LOutOfFuel.
Arguments LOk {A} a.
Arguments LOutOfFragment {A} r.
Arguments LOutOfFuel {A}.

Definition lbind {A B} (r : lres A) (f : A -> lres B) : lres B :=
  match r with
  | LOk a => f a
  | LOutOfFragment x => LOutOfFragment x
  | LOutOfFuel => LOutOfFuel
  end.

(* ------------------------------------------------------------------------------------------ *)
(* byte-string helpers (package strings) *)

Fixpoint lbytes_eqb (a b : list N) : bool :=
  match a, b with
  | [], [] => true
  | x :: a', y :: b' => (x =? y) && lbytes_eqb a' b'
  | _, _ => false
  end.

Fixpoint has_prefix (s p : list N) : bool :=           (* strings.HasPrefix(s, p) *)
  match p, s with
  | [], _ => true
  | x :: p', y :: s' => (x =? y) && has_prefix s' p'
  | _ :: _, [] => false
  end.

Definition contains_byte (s : list N) (c : N) : bool := existsb (N.eqb c) s.
Definition contains_any (s : list N) (cs : list N) : bool :=      (* strings.ContainsAny for ASCII sets *)
  existsb (fun c => existsb (N.eqb c) cs) s.

(* strings.Replace(s, old, new, 1) for a non-empty [old] *)
Fixpoint replace_first (old new s : list N) : list N :=
  if has_prefix s old then new ++ skipn (length old) s
  else match s with
       | [] => []
       | c :: s' => c :: replace_first old new s'
       end.

(* strings.Join *)
Fixpoint join (sep : list N) (parts : list (list N)) : list N :=
  match parts with
  | [] => []
  | [p] => p
  | p :: ps => p ++ sep ++ join sep ps
  end.

(* ------------------------------------------------------------------------------------------ *)
(* strconv/atoi.go *)

Definition lower (c : N) : N := N.lor c 32.             (* func lower(c byte) byte { return c | ('x' - 'X') } *)

Definition max_u64 : N := 18446744073709551615.
Definition two63 : N := 9223372036854775808.
Definition two64 : N := 18446744073709551616.

Inductive perr := ESyntax | ERange.
Inductive pres := POk (n : N) | PErr (e : perr).

(* func underscoreOK(s string) bool;  saw: 0 = '^', 1 = '0', 2 = '_', 3 = '!' *)
Fixpoint uok_loop (hex : bool) (s : list N) (saw : N) : bool :=
  match s with
  | [] => negb (saw =? 2)
  | c :: s' =>
      if in_range 48 57 c || (hex && in_range 97 102 (lower c)) then uok_loop hex s' 1
      else if c =? 95 then (if saw =? 1 then uok_loop hex s' 2 else false)
      else if saw =? 2 then false
      else uok_loop hex s' 3
  end.

Definition underscore_ok (s : list N) : bool :=
  let s := match s with
           | c :: s' => if (c =? 45) || (c =? 43) then s' else s
           | [] => s
           end in
  match s with
  | 48 :: c1 :: s2 =>
      if (lower c1 =? 98) || (lower c1 =? 111) || (lower c1 =? 120)
      then uok_loop (lower c1 =? 120) s2 1
      else uok_loop false s 0
  | _ => uok_loop false s 0
  end.

(* the digit loop of ParseUint with bitSize = 64.  Go computes in uint64: with n < cutoff the product
   n*base does not wrap, and "n1 < n || n1 > maxVal" is "n*base + d > maxUint64". *)
Fixpoint pu_loop (base : N) (base0 : bool) (cutoff : N) (s : list N) (n : N) (us : bool) : pres * bool :=
  match s with
  | [] => (POk n, us)
  | c :: s' =>
      if (c =? 95) && base0 then pu_loop base base0 cutoff s' n true
      else
        let d_opt :=
          if in_range 48 57 c then Some (c - 48)
          else if in_range 97 122 (lower c) then Some (lower c - 97 + 10)
          else None in
        match d_opt with
        | None => (PErr ESyntax, us)
        | Some d =>
            if base <=? d then (PErr ESyntax, us)
            else if cutoff <=? n then (PErr ERange, us)
            else
              let n1 := n * base + d in
              if max_u64 <? n1 then (PErr ERange, us)
              else pu_loop base base0 cutoff s' n1 us
        end
  end.

(* func ParseUint(s string, base int, 64) for base = 0 or 2 <= base <= 36 *)
Definition parse_uint (s : list N) (base : N) : pres :=
  match s with
  | [] => PErr ESyntax
  | c0 :: _ =>
      let base0 := base =? 0 in
      let '(b, body) :=
        if base0 then
          if c0 =? 48 then
            match s with
            | _ :: c1 :: _ :: _ =>                             (* len(s) >= 3 *)
                if lower c1 =? 98 then (2, skipn 2 s)
                else if lower c1 =? 111 then (8, skipn 2 s)
                else if lower c1 =? 120 then (16, skipn 2 s)
                else (8, tl s)
            | _ => (8, tl s)
            end
          else (10, s)
        else (base, s) in
      let cutoff := max_u64 / b + 1 in
      match pu_loop b base0 cutoff body 0 false with
      | (POk n, us) => if us && negb (underscore_ok s) then PErr ESyntax else POk n
      | (e, _) => e
      end
  end.

(* func ParseInt(s string, base int, 64): IOk neg magnitude *)
Inductive ires := IOk (neg : bool) (mag : N) | IErr (e : perr).

Definition parse_int (s : list N) (base : N) : ires :=
  match s with
  | [] => IErr ESyntax
  | c0 :: s' =>
      let neg := c0 =? 45 in
      let body := if (c0 =? 43) || (c0 =? 45) then s' else s in
      match parse_uint body base with
      | PErr ESyntax => IErr ESyntax
      | r =>
          let un := match r with POk n => n | PErr _ => max_u64 end in
          if negb neg && (two63 <=? un) then IErr ERange
          else if neg && (two63 <? un) then IErr ERange
          else IOk neg un
      end
  end.

(* ------------------------------------------------------------------------------------------ *)
(* floats: the value type and the digit layout of strconv.FormatFloat *)

(* a float64 as FormatFloat(f, 'e', -1, 64) shows it: FFin neg [d1;..;dk] e  is  (-)d1.d2..dk * 10^e with
   d1..dk the shortest round-tripping digits (ASCII); zero is FFin neg [48] 0 *)
Inductive fval :=
| FNaN
| FInf (neg : bool)
| FFin (neg : bool) (ds : list N) (e10 : Z).

Definition fneg (f : fval) : fval :=
  match f with
  | FNaN => FNaN
  | FInf n => FInf (negb n)
  | FFin n ds e => FFin (negb n) ds e
  end.

Definition sign_bytes (neg : bool) : list N := if neg then [45] else [].

(* %e (ftoa.go fmtE with prec = nd - 1): d[.ddd]e(+|-)XX, at least two exponent digits *)
Definition go_fmt_e (neg : bool) (ds : list N) (e10 : Z) : list N :=
  sign_bytes neg ++
  (match ds with
   | [] => [48]
   | d :: more => d :: (match more with [] => [] | _ => 46 :: more end)
   end) ++
  [101] ++ (if (e10 <? 0)%Z then [45] else [43]) ++
  (let a := Z.to_N (Z.abs e10) in if a <? 10 then 48 :: dec a else dec a).

Definition digit_at (ds : list N) (j : Z) : N :=
  if (j <? 0)%Z then 48 else nth (Z.to_nat j) ds 48.

(* %f (ftoa.go fmtF with prec = max(nd - dp, 0)); dp = e10 + 1 *)
Definition go_fmt_f (neg : bool) (ds : list N) (e10 : Z) : list N :=
  let nd := Z.of_nat (length ds) in
  let dp := (e10 + 1)%Z in
  let prec := Z.max (nd - dp) 0 in
  sign_bytes neg ++
  (if (0 <? dp)%Z then
     let m := Z.min nd dp in
     firstn (Z.to_nat m) ds ++ repeat 48 (Z.to_nat (dp - m))
   else [48]) ++
  (if (0 <? prec)%Z then
     46 :: map (fun i => digit_at ds (dp + Z.of_nat i)) (seq 0 (Z.to_nat prec))
   else []).

Definition all_zero (ds : list N) : bool := forallb (N.eqb 48) ds.

(* func FormatFloat(val float64) string   (format.go).  The comparisons absVal < 1e-6 and absVal >= 1e21 are
   made on the decimal exponent of the shortest digits: for a non-zero float with shortest digits
   d1.d2..dk * 10^e (d1 <> 0), |f| < 1e-6 <-> e < -6 and |f| >= 1e21 <-> e >= 21, because rounding to nearest is
   monotone and 1e-6, 1e21 print as themselves (part of the oracle contract). *)
Definition format_float (f : fval) : list N :=
  match f with
  | FInf false => [105; 110; 102]                       (* "inf" *)
  | FInf true => [45; 105; 110; 102]                    (* "-inf" *)
  | FNaN => [110; 97; 110]                              (* "nan" *)
  | FFin neg ds e10 =>
      if (negb (all_zero ds) && (e10 <? -6)%Z) || (21 <=? e10)%Z then
        let s := go_fmt_e neg ds e10 in
        let s := replace_first [101; 45; 48] [101; 45] s in      (* "e-0" -> "e-" *)
        let s := replace_first [101; 43; 48] [101; 43] s in      (* "e+0" -> "e+" *)
        replace_first [101; 43] [101] s                          (* "e+"  -> "e"  *)
      else go_fmt_f neg ds e10
  end.

(* ------------------------------------------------------------------------------------------ *)
(* ast.Literal / ast.UnaryExpr{Op:"-"} for literal operands *)

Inductive lval :=
| VInt (n : N)                          (* LiteralInteger, Value int64 (0 <= n < 2^63) *)
| VUInt (n : N)                         (* LiteralInteger, Value uint64 *)
| VFloat (f : fval)                     (* LiteralFloat *)
| VStr (s : list N) (bigint : bool)     (* LiteralString; IsBigInt *)
| VArr (es : list lexpr)                (* LiteralArray *)
| VTup (es : list lexpr)                (* LiteralTuple *)
with lexpr :=
| ELit (v : lval)                       (* not Parenthesized *)
| ENeg (v : lval).                      (* UnaryExpr "-" whose operand is an unparenthesised Literal *)

(* the literal texts *)
Definition t_Literal : list N := [76; 105; 116; 101; 114; 97; 108; 32].          (* "Literal " *)
Definition t_UInt64 : list N := [85; 73; 110; 116; 54; 52; 95].                  (* "UInt64_" *)
Definition t_Int64 : list N := [73; 110; 116; 54; 52; 95].                       (* "Int64_" *)
Definition t_Float64 : list N := [70; 108; 111; 97; 116; 54; 52; 95].            (* "Float64_" *)
Definition t_Array : list N := [65; 114; 114; 97; 121; 95; 91].                  (* "Array_[" *)
Definition t_Tuple : list N := [84; 117; 112; 108; 101; 95; 40].                 (* "Tuple_(" *)
Definition t_sep : list N := [44; 32].                                           (* ", " *)
Definition t_fn_array : list N :=                                                (* "Function array (children 1)" *)
  [70; 117; 110; 99; 116; 105; 111; 110; 32; 97; 114; 114; 97; 121; 32; 40; 99; 104; 105; 108; 100; 114; 101; 110; 32; 49; 41].
Definition t_fn_tuple : list N :=                                                (* "Function tuple (children 1)" *)
  [70; 117; 110; 99; 116; 105; 111; 110; 32; 116; 117; 112; 108; 101; 32; 40; 99; 104; 105; 108; 100; 114; 101; 110; 32; 49; 41].
Definition t_fn_negate : list N :=                                               (* "Function negate (children 1)" *)
  [70; 117; 110; 99; 116; 105; 111; 110; 32; 110; 101; 103; 97; 116; 101; 32; 40; 99; 104; 105; 108; 100; 114; 101; 110; 32; 49; 41].

(* func escapeStringLiteral(s string) string — byte-wise (`for i := 0; i < len(s); i++`), so every byte of an
   invalid UTF-8 string survives *)
Definition esc_byte (b : N) : list N :=
  if b =? 92 then [92; 92; 92; 92]             (* \  -> \\\\ *)
  else if b =? 39 then [92; 92; 92; 39]        (* '  -> \\\' *)
  else if b =? 10 then [92; 92; 110]           (* \n -> \\n  *)
  else if b =? 9 then [92; 92; 116]            (* \t -> \\t  *)
  else if b =? 13 then [92; 92; 114]           (* \r -> \\r  *)
  else if b =? 0 then [92; 92; 48]             (* \0 -> \\0  *)
  else if b =? 8 then [92; 92; 98]             (* \b -> \\b  *)
  else if b =? 12 then [92; 92; 102]           (* \f -> \\f  *)
  else [b].
Definition escape_string_literal (s : list N) : list N := flat_map esc_byte s.

(* FormatLiteral, LiteralString case: fmt.Sprintf("\\'%s\\'", escapeStringLiteral(s)) *)
Definition format_string (s : list N) : list N := [92; 39] ++ escape_string_literal s ++ [92; 39].

Definition is_numeric (v : lval) : bool :=
  match v with VInt _ | VUInt _ | VFloat _ => true | _ => false end.

Section Oracle.
(* THE ORACLE (trusted base, stated in words):
   [parse_float s]   = None  when strconv.ParseFloat(s, 64) returns err != nil (syntax or range), and otherwise
                       Some of the float it returns, shown as the digits/exponent of
                       strconv.FormatFloat(f, 'e', -1, 64): the SHORTEST decimal digits that round-trip
                       (ties: closest to the true value), [FInf]/[FNaN] for infinities and NaN.
   [int_to_float n]  = the float64 nearest to the non-negative integer n (round half to even), shown the same
                       way: this is float64(uint64) for n < 2^64 and big.Float.SetInt(n).Float64() in general.
   Which digits these are is not modelled. *)
Variable parse_float : list N -> option fval.
Variable int_to_float : N -> fval.

(* formatExprAsString on the operand of a unary minus that is not numeric: only the LiteralString case can be
   reached inside the fragment ("-" + e.Value.(string)); arrays/tuples cannot follow a minus (LoofMinusOperand) *)
Definition neg_as_string (v : lval) : list N :=
  match v with
  | VStr s _ => 45 :: s
  | _ => [45]
  end.

(* the unary-minus branch of formatArrayLiteral *)
Definition array_neg_elem (v : lval) : list N :=
  match v with
  | VInt n => if n =? 0 then t_UInt64 ++ dec 0 else t_Int64 ++ [45] ++ dec n     (* negVal := -val; %d *)
  | VUInt n =>
      if n =? 0 then t_UInt64 ++ dec 0
      else if n <=? two63 then t_Int64 ++ [45] ++ dec n                           (* "Int64_-%d" of the uint64 *)
      else t_Float64 ++ format_float (fneg (int_to_float n))                      (* -float64(val) *)
  | VFloat f => t_Float64 ++ format_float (fneg f)
  | _ => neg_as_string v
  end.

(* the unary-minus branch of formatNumericExpr (tuples) *)
Definition tuple_neg_elem (v : lval) : list N :=
  match v with
  | VInt n => if n =? 0 then t_UInt64 ++ dec 0 else t_Int64 ++ [45] ++ dec n
  | VUInt n =>
      if n =? 0 then t_UInt64 ++ dec 0
      else if n <=? two63 then t_Int64 ++ [45] ++ dec n
      else t_Float64 ++ format_float (fneg (int_to_float n))
  | VFloat f => t_Float64 ++ format_float (fneg f)
  | _ => neg_as_string v
  end.

(* FormatLiteral / formatArrayLiteral / formatTupleLiteral *)
Fixpoint format_literal (v : lval) : list N :=
  match v with
  | VInt n => t_UInt64 ++ dec n                      (* val >= 0 *)
  | VUInt n => t_UInt64 ++ dec n
  | VFloat f => t_Float64 ++ format_float f
  | VStr s _ => format_string s
  | VArr es => t_Array ++ join t_sep (map format_array_elem es) ++ [93]
  | VTup es => t_Tuple ++ join t_sep (map format_tuple_elem es) ++ [41]
  end
with format_array_elem (e : lexpr) : list N :=
  match e with
  | ELit v => format_literal v
  | ENeg v => array_neg_elem v
  end
with format_tuple_elem (e : lexpr) : list N :=
  match e with
  | ELit v => format_literal v                       (* formatNumericExpr for numbers = FormatLiteral *)
  | ENeg v => tuple_neg_elem v
  end.

(* ---- explainLiteral's decision between "Literal ..." and "Function tuple/array" ---- *)

(* containsOnlyPrimitiveLiteralsWithUnary(lit) / its test of one element *)
Fixpoint only_prim_v (v : lval) : bool :=
  match v with
  | VTup inner => forallb only_prim_e inner
  | _ => true
  end
with only_prim_e (e : lexpr) : bool :=
  match e with
  | ELit v => match v with VArr _ => false | _ => only_prim_v v end
  | ENeg v => is_numeric v
  end.
Definition only_prim (es : list lexpr) : bool := forallb only_prim_e es.

(* the element loop of the LiteralTuple case: hasComplexExpr *)
Definition tuple_elem_complex (e : lexpr) : bool :=
  match e with
  | ELit (VTup inner) => negb (only_prim inner)
  | ELit (VArr _) => true
  | ELit _ => false
  | ENeg v => negb (is_numeric v)
  end.

Definition tuple_is_function (es : list lexpr) : bool :=
  Nat.eqb (length es) 0 || Nat.eqb (length es) 1 || existsb tuple_elem_complex es.

Definition is_arr (e : lexpr) : bool := match e with ELit (VArr _) => true | _ => false end.
Definition is_tup (e : lexpr) : bool := match e with ELit (VTup _) => true | _ => false end.
Definition is_empty_arr (e : lexpr) : bool := match e with ELit (VArr []) => true | _ => false end.

(* containsEmptyArraysRecursive / containsTuplesRecursive (the [_e] functions are the loop bodies) *)
Fixpoint empty_rec_v (v : lval) : bool :=
  match v with
  | VArr inner => existsb empty_rec_e inner
  | _ => false
  end
with empty_rec_e (e : lexpr) : bool :=
  match e with
  | ELit v => match v with VArr i2 => Nat.eqb (length i2) 0 || empty_rec_v v | _ => false end
  | ENeg _ => false
  end.
Definition empty_arrays_rec (es : list lexpr) : bool := existsb empty_rec_e es.

Fixpoint tuples_rec_v (v : lval) : bool :=
  match v with
  | VArr inner => existsb tuples_rec_e inner
  | _ => false
  end
with tuples_rec_e (e : lexpr) : bool :=
  match e with
  | ELit v => match v with VTup _ => true | VArr _ => tuples_rec_v v | _ => false end
  | ENeg _ => false
  end.
Definition tuples_rec (es : list lexpr) : bool := existsb tuples_rec_e es.

(* containsNonLiteralExpressions / containsNonLiteralExpressionsRecursive.  Inside the fragment every element is an
   unparenthesised Literal or a unary minus of one: only the minus of a NON-numeric literal (a string, which includes
   the number texts parseNumber keeps as strings) is a "non-literal expression" *)
Definition nonlit_e (e : lexpr) : bool :=
  match e with
  | ELit _ => false
  | ENeg v => negb (is_numeric v)
  end.

Fixpoint nonlit_rec_v (v : lval) : bool :=
  match v with
  | VArr inner => existsb nonlit_rec_e inner
  | _ => false
  end
with nonlit_rec_e (e : lexpr) : bool :=
  match e with
  | ELit v => match v with VArr _ => nonlit_rec_v v | _ => false end
  | ENeg v => negb (is_numeric v)
  end.
Definition nonlit_rec (es : list lexpr) : bool := existsb nonlit_rec_e es.

(* the LiteralArray case *)
Definition array_is_function (es : list lexpr) : bool :=
  let should :=
    existsb (fun e => match e with
                      | ELit (VTup _) => true
                      | ELit _ => false
                      | ENeg v => negb (is_numeric v)          (* !isSimpleLiteralOrNegation(e) *)
                      end) es in
  let has_nested := existsb is_arr es in
  let nested_need :=
    existsb (fun e => match e with
                      | ELit (VArr inner) =>
                          existsb nonlit_e inner ||
                          Nat.eqb (length inner) 0 || existsb is_tup inner || existsb is_empty_arr inner
                      | _ => false
                      end) es in
  Nat.eqb (length es) 0 || should || (has_nested && nested_need) ||
  (has_nested && empty_arrays_rec es) || (has_nested && tuples_rec es) || (has_nested && nonlit_rec es).

(* what the first select column's line is *)
Inductive lout :=
| OLit (text : list N)          (* "Literal <text>" *)
| ONotLit (line : list N).      (* another line: Function array / tuple / negate *)

(* func explainLiteral *)
Definition explain_literal (v : lval) : lout :=
  match v with
  | VTup es => if tuple_is_function es then ONotLit t_fn_tuple else OLit (format_literal v)
  | VArr es => if array_is_function es then ONotLit t_fn_array else OLit (format_literal v)
  | _ => OLit (format_literal v)
  end.

(* math/big (GOROOT/src/math/big/{natconv,intconv,int}.go, transcribed): Int.SetString(s, 0)
   = setFromScanner: scanSign, nat.scan(r, 0, false), and the whole text must have been consumed.

   nat.scan with base = 0, fracOk = false: the digit value of a character ('0'..'9', 'a'..'z', 'A'..'Z' -- the
   actual base is at most 16 <= maxBaseSmall, so both letter cases count from 10), MaxBase + 1 = 63 for anything
   else *)
Definition big_digit (c : N) : N :=
  if in_range 48 57 c then c - 48
  else if in_range 97 122 c then c - 97 + 10
  else if in_range 65 90 c then c - 65 + 10
  else 63.

(* the digit loop "for err == nil" of nat.scan (base = 0: '_' is a separator).
   prev: 0 = '.', 1 = '0' (a digit), 2 = '_';  [seen] = (count > 0).
   Returns (the unread rest, prev, invalSep, count > 0, value): the loop ends at the end of the text or, with
   r.UnreadByte(), at the first character that is not a digit of base b. *)
Fixpoint big_scan_loop (b : N) (s : list N) (prev : N) (inval seen : bool) (acc : N)
  : list N * N * bool * bool * N :=
  match s with
  | [] => ([], prev, inval, seen, acc)
  | c :: s' =>
      if c =? 95 then big_scan_loop b s' 2 (inval || negb (prev =? 1)) seen acc
      else
        let d := big_digit c in
        if b <=? d then (s, prev, inval, seen, acc)
        else big_scan_loop b s' 1 inval true (acc * b + d)
  end.

(* nat.scan(r, 0, false): (Some value | None = err != nil, the unread rest).
   A leading "0" is followed by b/B, o/O, x/X (prefix, not counted, the next character is read) or by anything
   else (prefix '0': octal, the character is looked at again by the loop); "0" alone is decimal zero. *)
Definition big_nat_scan0 (s : list N) : option N * list N :=
  let finish (octal0 : bool) (r : list N * N * bool * bool * N) : option N * list N :=
    let '(rest, prev, inval, seen, acc) := r in
    if inval || (prev =? 2) then (None, rest)                       (* errInvalSep *)
    else if seen then (Some acc, rest)
    else if octal0 then (Some 0, rest)                              (* only the octal prefix 0: decimal 0 *)
    else (None, rest) in                                            (* errNoDigits *)
  match s with
  | [] => (None, [])                                                (* no digits *)
  | c0 :: s1 =>
      if c0 =? 48 then
        match s1 with
        | [] => (Some 0, [])                                        (* count = 1, b = 10 *)
        | c1 :: s2 =>
            if (c1 =? 98) || (c1 =? 66) then finish false (big_scan_loop 2 s2 1 false false 0)
            else if (c1 =? 111) || (c1 =? 79) then finish false (big_scan_loop 8 s2 1 false false 0)
            else if (c1 =? 120) || (c1 =? 88) then finish false (big_scan_loop 16 s2 1 false false 0)
            else finish true (big_scan_loop 8 s1 1 false false 0)
        end
      else finish false (big_scan_loop 10 s 0 false false 0)
  end.

(* Int.SetString(s, 0): Some (negative, magnitude); "0 has no sign" *)
Definition big_set_string0 (s : list N) : option (bool * N) :=
  let '(neg, body) :=
    match s with
    | c :: s' => if c =? 45 then (true, s') else if c =? 43 then (false, s') else (false, s)
    | [] => (false, s)
    end in
  match big_nat_scan0 body with
  | (Some n, []) => Some (neg && negb (n =? 0), n)
  | _ => None
  end.

(* func parseRadixToFloat(s string) (float64, bool): big.Int.SetString(s, 0), big.Float.SetInt, Float64() --
   the float64 nearest to the integer (parseNumber calls it only on values with a 0x / 0b / 0o prefix, which
   carry no sign) *)
Definition radix_to_float (value : list N) : option fval :=
  match big_set_string0 value with
  | Some (neg, n) => Some (if neg then fneg (int_to_float n) else int_to_float n)
  | None => None
  end.

(* func (p *Parser) parseNumber(): the literal built from the NUMBER token's value *)
Definition parse_number (value : list N) : lval :=
  let is_hex := has_prefix value [48; 120] || has_prefix value [48; 88] in
  let is_bin := has_prefix value [48; 98] || has_prefix value [48; 66] in
  let is_oct := has_prefix value [48; 111] || has_prefix value [48; 79] in
  let is_hex_float := is_hex && (contains_any value [112; 80] || contains_byte value 46) in
  let is_dec_float :=
    negb is_hex && negb is_bin && negb is_oct && (contains_byte value 46 || contains_any value [101; 69]) in
  if is_dec_float || is_hex_float then
    match parse_float value with
    | Some f => VFloat f
    | None => VStr value false
    end
  else
    let base := if is_hex || is_bin || is_oct then 0 else 10 in
    match parse_int value base with
    | IOk _ n => VInt n
    | IErr _ =>
        match parse_uint value base with
        | POk u => VUInt u
        | PErr _ =>
            match (if is_hex || is_bin || is_oct then radix_to_float value else parse_float value) with
            | Some f => VFloat f
            | None => VStr value true
            end
        end
    end.

(* func explainUnaryExpr for Op "-" and an unparenthesised literal operand *)
Definition explain_negated (v : lval) : lout :=
  match v with
  | VInt n =>
      if n =? 0 then OLit (t_UInt64 ++ dec 0) else OLit (t_Int64 ++ [45] ++ dec n)
  | VUInt n =>
      if n =? 0 then OLit (t_UInt64 ++ dec 0)
      else if n <=? two63 then OLit (t_Int64 ++ [45] ++ dec n)
      else OLit (t_Float64 ++ format_float (fneg (int_to_float n)))     (* -float64(val) *)
  | VFloat f => OLit (t_Float64 ++ format_float (fneg f))
  | VStr s true =>
      match parse_float s with
      | Some f => OLit (t_Float64 ++ format_float (fneg f))
      | None => ONotLit t_fn_negate
      end
  | _ => ONotLit t_fn_negate
  end.

Definition explain_top (e : lexpr) : lout :=
  match e with
  | ELit v => explain_literal v
  | ENeg v => explain_negated v
  end.

(* ------------------------------------------------------------------------------------------ *)
(* the parser on (token, value) pairs *)

Definition tk := (N * list N)%type.

Definition peek_tok (ts : list tk) (t : N) : bool :=
  match ts with x :: _ => fst x =? t | [] => t =? T_EOF end.

(* the Pratt loop after a literal prefix stops at once exactly when the next token has precedence LOWEST; the
   fragment keeps , ] ) and the end of input (identifiers would become aliases, other tokens operators) *)
Definition follow_tok (ts : list tk) : bool :=
  match ts with
  | [] => true
  | x :: _ => (fst x =? T_COMMA) || (fst x =? T_RBRACKET) || (fst x =? T_RPAREN)
  end.

Definition with_follow (e : lexpr) (ts : list tk) : lres (lexpr * list tk) :=
  if follow_tok ts then LOk (e, ts) else LOutOfFragment LoofFollow.

(* parsePrefixExpression + the immediate exit of the Pratt loop / the element loops of parseArrayLiteral and
   parseGroupedOrTuple ([close] = RBRACKET or RPAREN; [acc] reversed) *)
Fixpoint parse_lit (fuel : nat) (ts : list tk) {struct fuel} : lres (lexpr * list tk) :=
  match fuel with
  | O => LOutOfFuel
  | S f =>
      match ts with
      | [] => LOutOfFragment LoofPrefix
      | cur :: rest =>
          let t := fst cur in
          if t =? T_NUMBER then with_follow (ELit (parse_number (snd cur))) rest
          else if t =? T_STRING then with_follow (ELit (VStr (snd cur) false)) rest
          else if t =? T_MINUS then
            match rest with
            | [] => LOutOfFragment LoofMinusOperand
            | x :: rest' =>
                if fst x =? T_NUMBER then
                  if peek_tok rest' T_COLONCOLON then LOutOfFragment LoofMinusCast
                  else with_follow (ENeg (parse_number (snd x))) rest'
                else if fst x =? T_STRING then with_follow (ENeg (VStr (snd x) false)) rest'
                else LOutOfFragment LoofMinusOperand
            end
          else if t =? T_LBRACKET then
            match rest with
            | [] => LOutOfFragment LoofSyntax
            | x :: rest' =>
                if fst x =? T_RBRACKET then with_follow (ELit (VArr [])) rest'
                else
                  lbind (parse_lit f rest) (fun '(e, ts1) =>
                  lbind (parse_elems f T_RBRACKET [e] ts1) (fun '(es, ts2) =>
                  with_follow (ELit (VArr es)) ts2))
            end
          else if t =? T_LPAREN then
            match rest with
            | [] => LOutOfFragment LoofPrefix
            | x :: rest' =>
                if fst x =? T_RPAREN then with_follow (ELit (VTup [])) rest'
                else if (fst x =? T_SELECT) || (fst x =? T_WITH) || (fst x =? T_EXPLAIN)
                then LOutOfFragment LoofSubquery
                else
                  lbind (parse_lit f rest) (fun '(e, ts1) =>
                  if peek_tok ts1 T_COMMA then
                    lbind (parse_elems f T_RPAREN [e] ts1) (fun '(es, ts2) =>
                    with_follow (ELit (VTup es)) ts2)
                  else if peek_tok ts1 T_RPAREN then LOutOfFragment LoofParen
                  else LOutOfFragment LoofSyntax)
            end
          else if t =? T_LINE_COMMENT then LOutOfFragment LoofComment
          else LOutOfFragment LoofPrefix
      end
  end
with parse_elems (fuel : nat) (close : N) (acc : list lexpr) (ts : list tk) {struct fuel}
  : lres (list lexpr * list tk) :=
  match fuel with
  | O => LOutOfFuel
  | S f =>
      match ts with
      | [] => LOutOfFragment LoofSyntax
      | c :: rest =>
          if fst c =? T_COMMA then
            if peek_tok rest close then LOk (rev acc, tl rest)                   (* trailing comma *)
            else lbind (parse_lit f rest) (fun '(e, ts1) => parse_elems f close (e :: acc) ts1)
          else if fst c =? close then LOk (rev acc, rest)
          else LOutOfFragment LoofSyntax
      end
  end.

Definition lit_fuel (ts : list tk) : nat := 2 * length ts + 2.

(* `SELECT <tokens>`: the first select column's line *)
Definition literal_of_tokens (ts : list tk) : lres lout :=
  if existsb (fun x => fst x =? T_LINE_COMMENT) ts then LOutOfFragment LoofComment
  else
    lbind (parse_lit (lit_fuel ts) ts) (fun '(e, rest) =>
    match rest with
    | [] => LOk (explain_top e)
    | _ => LOutOfFragment LoofTrailing
    end).

End Oracle.

(* the tokens of a lexer result: (token, value) pairs up to the EOF item *)
Fixpoint strip_items (its : list item) : list (N * list N) :=
  match its with
  | [] => []
  | it :: its' => if it_tok it =? T_EOF then [] else (it_tok it, it_val it) :: strip_items its'
  end.
