(* C18 — executable model (definitions only) of
     /repo/parser/parser.go      parseDataType, isDataTypeName
     /repo/parser/expression.go  parseCast (the `AS Type` form), parseCastOperator (`::Type`), and the part of
                                 parseExpression(LOWEST) that parseDataType falls back to for parameters
     /repo/internal/explain      FormatDataType, formatBinaryExprForType, formatUnaryExprForType,
                                 escapeStringForTypeParam, escapeStringLiteral, needsBacktickQuoting,
                                 and the type line of explainCastExprWithAlias.

   Input: erased tokens (TypeBase.tok), current = head of the list, peek = second element, EOF past the end.
   Results: [Ok], [ParseErr] (the Go parser records an error: parser.Parse returns err != nil),
   [OOF reason] (the input leaves the modelled fragment; the model never guesses), [OutOfFuel].

   Faithfulness limit stated once: strings.ToUpper is modelled on ASCII ([to_upper]).  The Go code uses
   strings.ToUpper(<name>) only in `==` tests against ASCII constants (parseDataType, isDataTypeName,
   parseIdentifierOrFunction's DATE/TIMESTAMP/TIME test), so the ASCII-only model is exact for a name that is
   ASCII, and also for a name whose Unicode upper-casing cannot be ASCII (some rune of it upper-cases to a rune
   >= 0x80, or it contains an invalid byte, which strings.Map turns into U+FFFD): every such test is false in
   Go, and false in the model because [to_upper] leaves the byte >= 0x80 in place.  The driver entry points
   ([run_cast_as], [run_cast_op]) answer OOF for every other name (`ſtring`, `ı`, KELVIN SIGN ...: all non-ASCII
   runes upper-case into ASCII); see [name_ok]. *)
From Coq Require Import List NArith Bool.
From DC Require Base.Utf8 Base.Unicode.
From DC Require Import Base.Item Gen.TokenTable Expr.TypeBase.
Import ListNotations.
Local Open Scope N_scope.

Inductive oof :=
| OofNonAsciiName      (* a non-ASCII IDENT/keyword value whose strings.ToUpper might be ASCII (see [name_ok]) *)
| OofObjectType        (* JSON(...) / OBJECT(...): ObjectTypeArgument, SKIP, dotted paths *)
| OofExprToken         (* parameter starts with + * ( [ ? {param}: prefix forms outside the fragment *)
| OofExprOperator      (* an operator / postfix token follows a parameter operand (other than STRING = number) *)
| OofNumberFormat      (* NUMBER that is not a plain decimal digit string (hex, float, underscores ...) *)
| OofNumberRange       (* NUMBER >= 2^64: the Go parser switches to float64 *)
| OofMinusOperand      (* '-' not followed by a plain NUMBER, -Inf, -NUMBER:: *)
| OofAnyAll            (* comparison followed by ANY / ALL *)
| OofBinaryLeft        (* a binary expression whose left operand is not a string literal *)
| OofBinaryRight       (* 'str' = <something other than [-]NUMBER> *)
| OofFunctionCall      (* identifier followed by ( : general function-call parameter *)
| OofQualified         (* identifier followed by . *)
| OofTypedLiteral      (* DATE/TIMESTAMP/TIME 'string', @@variables *)
| OofKeywordExpr       (* a keyword token in expression position *)
| OofCastAlias         (* CAST(x AS alias AS T) / CAST(x AS alias, 'T') *)
| OofCastForm          (* CAST(x, 'T') and the implicit-alias forms *)
| OofTrailing.         (* driver only: tokens left after the type *)

Inductive res (A : Type) :=
| Ok (a : A)
| ParseErr
| OOF (r : oof)
| OutOfFuel.
Arguments Ok {A} a.
Arguments ParseErr {A}.
Arguments OOF {A} r.
Arguments OutOfFuel {A}.

(* ------------------------------------------------------------------------------------------ *)
(* the parsed tree: ast.DataType with the parameter kinds the fragment produces *)

Inductive dtype :=
| DT (name : list N) (has_parens : bool) (params : list param)
with param :=
| PType (d : dtype)                                        (* *ast.DataType *)
| PNamed (name : list N) (d : dtype)                       (* *ast.NameTypePair *)
| PStr (s : list N)                                        (* *ast.Literal, LiteralString *)
| PInt (n : N)                                             (* *ast.Literal, LiteralInteger (int64 or uint64) *)
| PNeg (n : N)                                             (* *ast.UnaryExpr{Op "-", Operand integer literal} *)
| PBin (l : list N) (op : list N) (neg : bool) (n : N)     (* *ast.BinaryExpr{string literal, op, [-]integer literal} *)
| PIdent (s : list N).                                     (* *ast.Identifier with one part *)

Definition dt_params (d : dtype) : list param := match d with DT _ _ ps => ps end.

(* ------------------------------------------------------------------------------------------ *)
(* parseDataType: the name and the words glued onto it *)

(* dt.Name = dt.Name + " " + p.current.Value; p.nextToken() *)
Definition glue (st : list N * list tok) : list N * list tok :=
  (fst st ++ [32] ++ tv (cur (snd st)), tl (snd st)).

(* VARYING | LARGE [OBJECT] *)
Definition glue_varying_large (st : list N * list tok) : list N * list tok :=
  if word_is w_VARYING (snd st) then glue st
  else if word_is w_LARGE (snd st) then
    let st' := glue st in
    if word_is w_OBJECT (snd st') then glue st' else st'
  else st.

Definition name_mods (up : list N) (st : list N * list tok) : list N * list tok :=
  (* UNSIGNED / SIGNED *)
  let st :=
    if is_mysql_int up && (word_is w_UNSIGNED (snd st) || word_is w_SIGNED (snd st)) then glue st else st in
  (* DOUBLE PRECISION *)
  let st := if bytes_eqb up w_DOUBLE && word_is w_PRECISION (snd st) then glue st else st in
  (* CHAR / CHARACTER / NCHAR  VARYING | LARGE OBJECT *)
  let st :=
    if bytes_eqb up w_CHAR || bytes_eqb up w_CHARACTER || bytes_eqb up w_NCHAR
    then glue_varying_large st else st in
  (* BINARY VARYING | LARGE OBJECT *)
  let st := if bytes_eqb up w_BINARY then glue_varying_large st else st in
  (* NATIONAL CHAR|CHARACTER [VARYING | LARGE OBJECT] *)
  let st :=
    if bytes_eqb up w_NATIONAL && (word_is w_CHAR (snd st) || word_is w_CHARACTER (snd st))
    then glue_varying_large (glue st) else st in
  st.

(* for !RPAREN && !EOF { nextToken } *)
Fixpoint skip_to_rparen (ts : list tok) : list tok :=
  match ts with
  | [] => []
  | t :: r => if tok_is T_RPAREN t || tok_is T_EOF t then ts else skip_to_rparen r
  end.

(* p.expect(token.RPAREN) *)
Definition expect_rparen (ts : list tok) : res (list tok) :=
  if tok_is T_RPAREN (cur ts) then Ok (tl ts) else ParseErr.

(* INT(11): the display width is skipped *)
Definition mysql_width (up : list N) (ts : list tok) : res (list tok) :=
  if is_mysql_int up && tok_is T_LPAREN (cur ts) then expect_rparen (skip_to_rparen (tl ts)) else Ok ts.

(* ------------------------------------------------------------------------------------------ *)
(* the parameter fragment of parseExpression(LOWEST) *)

(* tokens whose Parser.precedence is above LOWEST (or a NUMBER starting with '.': tuple access) *)
Definition prec_above_lowest (t : tok) : bool :=
  let k := tk t in
  existsb (N.eqb k)
    [ T_AS; T_OR; T_AND; T_NOT; T_EQ; T_NEQ; T_LT; T_GT; T_LTE; T_GTE; T_LIKE; T_ILIKE; T_REGEXP; T_IN;
      T_BETWEEN; T_IS; T_NULL_SAFE_EQ; T_GLOBAL; T_QUESTION; T_CONCAT; T_PLUS; T_MINUS; T_ASTERISK;
      T_SLASH; T_PERCENT; T_DIV; T_MOD; T_LPAREN; T_LBRACKET; T_EXCEPT; T_REPLACE; T_APPLY;
      T_COLONCOLON; T_DOT; T_ARROW ]
  || ((k =? T_NUMBER) && match tv t with 46 :: _ => true | _ => false end).

(* the Pratt loop `for !EOF && prec < precedenceForCurrent()` stops for every prec >= LOWEST *)
Definition expr_stops (ts : list tok) : bool := tok_is T_EOF (cur ts) || negb (prec_above_lowest (cur ts)).

(* parseNumber on a plain decimal literal *)
Definition parse_number (v : list N) : res N :=
  match parse_dec v with
  | Some n => if n <? two64 then Ok n else OOF OofNumberRange
  | None => OOF OofNumberFormat
  end.

(* [-]NUMBER as the operand after '=' (parseExpression(COMPARE)) or as a whole parameter *)
Definition parse_signed (ts : list tok) : res (bool * N * list tok) :=
  if tok_is T_NUMBER (cur ts) then
    match parse_number (tv (cur ts)) with
    | Ok n => Ok (false, n, tl ts)
    | ParseErr => ParseErr | OOF r => OOF r | OutOfFuel => OutOfFuel
    end
  else if tok_is T_MINUS (cur ts) then
    let ts1 := tl ts in
    (* parseUnaryMinus: -Inf and -NUMBER:: are special; otherwise UnaryExpr{"-", parseExpression(UNARY)} *)
    if tok_is T_NUMBER (cur ts1) && negb (tok_is T_COLONCOLON (peek ts1)) then
      match parse_number (tv (cur ts1)) with
      | Ok n => Ok (true, n, tl ts1)
      | ParseErr => ParseErr | OOF r => OOF r | OutOfFuel => OutOfFuel
      end
    else OOF OofMinusOperand
  else OOF OofBinaryRight.

(* tokens for which parsePrefixExpression has no case and which are not keywords: it returns nil without consuming
   and without recording an error *)
Definition no_prefix_tok (t : tok) : bool :=
  existsb (N.eqb (tk t))
    [ T_ILLEGAL; T_EOF; T_SLASH; T_PERCENT; T_EQ; T_NEQ; T_LT; T_GT; T_LTE; T_GTE; T_CONCAT; T_ARROW;
      T_COLONCOLON; T_NULL_SAFE_EQ; T_CARET; T_RPAREN; T_RBRACKET; T_LBRACE; T_RBRACE; T_COMMA; T_DOT;
      T_SEMICOLON; T_COLON ].

(* Some p: the parameter expression; None: parseExpression returned nil *)
Definition parse_expr_param (ts : list tok) : res (option param * list tok) :=
  let c := cur ts in
  if tok_is T_STRING c then
    let ts1 := tl ts in
    if expr_stops ts1 then Ok (Some (PStr (tv c)), ts1)
    else if tok_is T_EQ (cur ts1) then
      (* parseBinaryExpression: Op = the token text ("=" or "=="); ANY/ALL modifiers are out *)
      let op := tv (cur ts1) in
      let ts2 := tl ts1 in
      if tok_is T_ANY (cur ts2) || tok_is T_ALL (cur ts2) then OOF OofAnyAll
      else match parse_signed ts2 with
           | Ok (neg, n, ts3) => if expr_stops ts3 then Ok (Some (PBin (tv c) op neg n), ts3) else OOF OofExprOperator
           | ParseErr => ParseErr | OOF r => OOF r | OutOfFuel => OutOfFuel
           end
    else OOF OofExprOperator
  else if tok_is T_NUMBER c then
    match parse_number (tv c) with
    | Ok n => if expr_stops (tl ts) then Ok (Some (PInt n), tl ts) else OOF OofExprOperator
    | ParseErr => ParseErr | OOF r => OOF r | OutOfFuel => OutOfFuel
    end
  else if tok_is T_MINUS c then
    match parse_signed ts with
    | Ok (_, n, ts2) => if expr_stops ts2 then Ok (Some (PNeg n), ts2) else OOF OofExprOperator
    | ParseErr => ParseErr | OOF r => OOF r | OutOfFuel => OutOfFuel
    end
  else if tok_is T_IDENT c then
    (* parseIdentifierOrFunction *)
    let name := tv c in
    let ts1 := tl ts in
    let up := to_upper name in
    if tok_is T_STRING (cur ts1) && (bytes_eqb up w_DATE || bytes_eqb up w_TIMESTAMP || bytes_eqb up w_TIME)
    then OOF OofTypedLiteral
    else if match name with b1 :: b2 :: _ => (b1 =? 64) && (b2 =? 64) | _ => false end then OOF OofTypedLiteral
    else if tok_is T_LPAREN (cur ts1) then OOF OofFunctionCall
    else if tok_is T_DOT (cur ts1) then OOF OofQualified
    else if expr_stops ts1 then Ok (Some (PIdent name), ts1) else OOF OofExprOperator
  else if is_name c then OOF OofKeywordExpr
  else if no_prefix_tok c then Ok (None, ts)
  else OOF OofExprToken.

(* ------------------------------------------------------------------------------------------ *)
(* parseDataType *)

(* `isNamedParam` *)
Definition named_param (named : bool) (ts : list tok) : bool :=
  let c := cur ts in
  let p := peek ts in
  if named && is_name c then
    if negb (is_dtn (tv c)) && negb (tok_is T_EQ p) && negb (tok_is T_COMMA p) && negb (tok_is T_RPAREN p) then true
    else if negb (tok_is T_EQ p) && (is_name p || tok_is T_LPAREN p) then
      if is_name p && is_dtn (tv p) then true
      else if tok_is T_LPAREN p then negb (is_dtn (tv c))
      else false
    else false
  else false.

Fixpoint parse_dt (fuel : nat) (ts : list tok) {struct fuel} : res (option dtype * list tok) :=
  match fuel with
  | O => OutOfFuel
  | S f =>
    let c := cur ts in
    if negb (is_name c) then Ok (None, ts)                       (* return nil *)
    else
      let name := tv c in
      let up := to_upper name in
      match mysql_width up (tl ts) with
      | Ok ts1 =>
        let '(name', ts2) := name_mods up (name, ts1) in
        if tok_is T_LPAREN (cur ts2) then
          let up' := to_upper name' in
          if is_object_type up' then OOF OofObjectType
          else
            match parse_params f (uses_named up') [] (tl ts2) with
            | Ok (ps, ts3) => Ok (Some (DT name' true ps), ts3)
            | ParseErr => ParseErr | OOF r => OOF r | OutOfFuel => OutOfFuel
            end
        else Ok (Some (DT name' false []), ts2)
      | ParseErr => ParseErr | OOF r => OOF r | OutOfFuel => OutOfFuel
      end
  end

(* the loop `for !RPAREN && !EOF && !COLLATE { ... }` followed by p.expect(RPAREN) *)
with parse_params (fuel : nat) (named : bool) (acc : list param) (ts : list tok) {struct fuel}
  : res (list param * list tok) :=
  match fuel with
  | O => OutOfFuel
  | S f =>
    let c := cur ts in
    let finish (acc : list param) (ts : list tok) : res (list param * list tok) :=
      match expect_rparen ts with
      | Ok ts' => Ok (acc, ts')
      | ParseErr => ParseErr | OOF r => OOF r | OutOfFuel => OutOfFuel
      end in
    (* `if COMMA { nextToken } else { break }` at the end of the loop body *)
    let continue (acc : list param) (ts : list tok) : res (list param * list tok) :=
      if tok_is T_COMMA (cur ts) then parse_params f named acc (tl ts) else finish acc ts in
    if tok_is T_RPAREN c || tok_is T_EOF c || tok_is T_COLLATE c then finish acc ts
    else if named_param named ts then
      (* name, then parseDataType; a nil type drops the parameter *)
      match parse_dt f (tl ts) with
      | Ok (Some d, ts1) => continue (acc ++ [PNamed (tv c) d]) ts1
      | Ok (None, ts1) => continue acc ts1
      | ParseErr => ParseErr | OOF r => OOF r | OutOfFuel => OutOfFuel
      end
    else if is_name c && is_dtn (tv c) then
      match parse_dt f ts with
      | Ok (Some d, ts1) => continue (acc ++ [PType d]) ts1
      | Ok (None, ts1) => continue acc ts1
      | ParseErr => ParseErr | OOF r => OOF r | OutOfFuel => OutOfFuel
      end
    else
      match parse_expr_param ts with
      | Ok (Some p, ts1) => continue (acc ++ [p]) ts1
      | Ok (None, ts1) => continue acc ts1
      | ParseErr => ParseErr | OOF r => OOF r | OutOfFuel => OutOfFuel
      end
  end.

(* ------------------------------------------------------------------------------------------ *)
(* the two cast parsers, from the token after the operand *)

(* parseCast after `CAST ( expr`: only `AS Type )` *)
Definition parse_cast_as (fuel : nat) (ts : list tok) : res (option dtype * list tok) :=
  if tok_is T_AS (cur ts) then
    let ts1 := tl ts in
    if is_name (cur ts1) && (tok_is T_AS (peek ts1) || tok_is T_COMMA (peek ts1)) then OOF OofCastAlias
    else
      match parse_dt fuel ts1 with
      | Ok (d, ts2) =>
        match expect_rparen ts2 with
        | Ok ts3 => Ok (d, ts3)
        | ParseErr => ParseErr | OOF r => OOF r | OutOfFuel => OutOfFuel
        end
      | ParseErr => ParseErr | OOF r => OOF r | OutOfFuel => OutOfFuel
      end
  else OOF OofCastForm.

(* parseCastOperator: current is `::` *)
Definition parse_cast_op (fuel : nat) (ts : list tok) : res (option dtype * list tok) :=
  if tok_is T_COLONCOLON (cur ts) then parse_dt fuel (tl ts) else OOF OofCastForm.

(* ------------------------------------------------------------------------------------------ *)
(* the printer *)

(* escapeStringLiteral *)
Definition esl_byte (b : N) : list N :=
  if b =? 92 then [92; 92; 92; 92]
  else if b =? 39 then [92; 92; 92; 39]
  else if b =? 10 then [92; 92; 110]
  else if b =? 9 then [92; 92; 116]
  else if b =? 13 then [92; 92; 114]
  else if b =? 0 then [92; 92; 48]
  else if b =? 8 then [92; 92; 98]
  else if b =? 12 then [92; 92; 102]
  else [b].
Definition escape_string_literal (s : list N) : list N := flat_map esl_byte s.

(* escapeStringForTypeParam *)
Definition estp_byte (b : N) : list N :=
  if b =? 92 then [92; 92; 92; 92; 92; 92; 92; 92]
  else if b =? 39 then [92; 92; 92; 92; 92; 92; 92; 39]
  else if b =? 10 then [92; 92; 92; 92; 110]
  else if b =? 9 then [92; 92; 92; 92; 116]
  else if b =? 13 then [92; 92; 92; 92; 114]
  else if b =? 0 then [92; 92; 92; 92; 48]
  else if b =? 8 then [92; 92; 92; 92; 98]
  else if b =? 12 then [92; 92; 92; 92; 102]
  else [b].
Definition escape_type_param (s : list N) : list N := flat_map estp_byte s.

(* needsBacktickQuoting: `for _, c := range name` over runes; a rune outside [A-Za-z0-9_] exists iff such a
   byte exists (multi-byte and invalid sequences consist of bytes >= 0x80) *)
Definition needs_backtick (s : list N) : bool :=
  match s with [] => false | _ => negb (forallb is_word_byte s) end.

Definition q3 : list N := [92; 92; 92; 39].        (* \\\' as written by FormatDataType around string parameters *)

Fixpoint fmt_dt (d : dtype) : list N :=
  match d with
  | DT name _ ps =>
    match ps with
    | [] => name
    | _ => name ++ [40] ++ join comma_space (map fmt_param ps) ++ [41]
    end
  end
with fmt_param (p : param) : list N :=
  match p with
  | PType d => fmt_dt d
  | PNamed n d => (if needs_backtick n then [96] ++ n ++ [96] else n) ++ [32] ++ fmt_dt d
  | PStr s => q3 ++ escape_type_param s ++ q3
  | PInt n => to_dec n
  | PNeg n => [45] ++ to_dec n
  | PBin l op neg n =>
    (q3 ++ escape_type_param l ++ q3) ++ [32] ++ op ++ [32] ++ (if neg then [45] else []) ++ to_dec n
  | PIdent s => s
  end.

(* explainCastExprWithAlias, the text after "Literal " on the type line (n.TypeExpr == nil) *)
Definition explain_type (d : option dtype) : list N :=
  let s := match d with None => [] | Some d => fmt_dt d end in
  let s := match d with
           | None => escape_string_literal s
           | Some d => match dt_params d with [] => escape_string_literal s | _ => s end
           end in
  [92; 39] ++ s ++ [92; 39].

(* what the two cast positions show: the type line of EXPLAIN and the remaining input *)
Definition cast_as_text (fuel : nat) (ts : list tok) : res (list N * list tok) :=
  match parse_cast_as fuel ts with
  | Ok (d, rest) => Ok (explain_type d, rest)
  | ParseErr => ParseErr | OOF r => OOF r | OutOfFuel => OutOfFuel
  end.
Definition cast_op_text (fuel : nat) (ts : list tok) : res (list N * list tok) :=
  match parse_cast_op fuel ts with
  | Ok (d, rest) => Ok (explain_type d, rest)
  | ParseErr => ParseErr | OOF r => OOF r | OutOfFuel => OutOfFuel
  end.

(* ------------------------------------------------------------------------------------------ *)
(* entry points used by the driver: the tokens of <T> alone, as lexer.Tokenize returns them *)

Definition drop_eof (ts : list tok) : list tok := filter (fun t => negb (tok_is T_EOF t)) ts.

(* Does some rune of s upper-case (unicode.ToUpper, tables of Gen/UnicodeTables.v) to a rune >= 0x80?
   Runes as `for _, c := range s` / strings.Map deliver them: Base.Utf8.decode_rune, an invalid byte is
   U+FFFD of width 1 (and unicode.ToUpper(U+FFFD) = U+FFFD).  Fuel: the length of s (every step consumes >= 1 byte). *)
Fixpoint upper_has_nonascii (fuel : nat) (s : list N) : bool :=
  match fuel with
  | O => false
  | S f =>
    match s with
    | [] => false
    | _ :: _ =>
      let '(r, sz) := Base.Utf8.decode_rune s in
      (128 <=? Base.Unicode.to_upper r) || upper_has_nonascii f (skipn sz s)
    end
  end.

(* the names for which the ASCII-only [to_upper] decides every `strings.ToUpper(name) == "ASCII CONSTANT"` test
   as Go does: ASCII names (strings.ToUpper has no effect outside a-z), and names for which strings.ToUpper
   is certainly not an ASCII string *)
Definition name_ok (s : list N) : bool := is_ascii s || upper_has_nonascii (length s) s.

Definition names_ok (ts : list tok) : bool :=
  forallb (fun t => negb (is_name t) || name_ok (tv t)) ts.
Definition fuel_for (ts : list tok) : nat := S (S (2 * length ts)).

(* SELECT CAST(x AS <T>) *)
Definition run_cast_as (toks_t : list tok) : res (list N) :=
  let t := drop_eof (strip_trivia toks_t) in
  if negb (names_ok t) then OOF OofNonAsciiName
  else
    match cast_as_text (fuel_for t) ((T_AS, [65; 83]) :: t ++ [(T_RPAREN, [41])]) with
    | Ok (txt, []) => Ok txt
    | Ok (_, _ :: _) => OOF OofTrailing
    | ParseErr => ParseErr | OOF r => OOF r | OutOfFuel => OutOfFuel
    end.

(* SELECT x::<T> *)
Definition run_cast_op (toks_t : list tok) : res (list N) :=
  let t := drop_eof (strip_trivia toks_t) in
  if negb (names_ok t) then OOF OofNonAsciiName
  else
    match cast_op_text (fuel_for t) ((T_COLONCOLON, [58; 58]) :: t) with
    | Ok (txt, []) => Ok txt
    | Ok (_, _ :: _) => OOF OofTrailing
    | ParseErr => ParseErr | OOF r => OOF r | OutOfFuel => OutOfFuel
    end.
