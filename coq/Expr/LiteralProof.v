(* C09 — proofs about the literal model (LiteralModel.v) against the independent specification
   (LiteralSpec.v, LexerStringsSpec.v).

   Main results (the Section variables [parse_float], [int_to_float] and the Section hypotheses about them are
   explicit premises of the closed theorems, see Properties/C09.v):

     format_string_canon    : format_string v = canon_string v                       (every byte string v)
     dec/hex/bin numerals   : parse_uint reads them back; range errors exactly from 2^64
     parse_number_dec/rad/hex/bin, explain of CNat / CNeg / CHex / CBin / CRad / CFlt / CStr  (the integer boundaries)
     format_float_canon     : format.go's FormatFloat on (digits, exponent) = canon_float, for every digit
                              string and every decimal exponent in [-324, 308]
     parse_toks             : the token parser returns the expected AST on the tokens of every shaped tree
     literal_tokens_canon   : wfb t -> literal_of_tokens (toks t) = LOk (OLit (canon t))     (any nesting depth)
     nested_negation_canon  : -n inside an array / a tuple renders as at the top level, for every n
     parse_uint_rad / big_set_string0_rad : strconv.ParseUint(s, 0, 64) and big.Int.SetString(s, 0) read the value of
                              every well-formed 0x / 0b / 0o spelling (either letter case, leading zeros, '_' separators)
     float_range_refuted    : the remaining deviation of the code from the property text, by computation on the model. *)
From Coq Require Import List NArith ZArith Bool Arith Lia ZifyN ZifyNat ZifyBool.
From DC Require Import Base.Utf8 Base.Item Gen.TokenTable Expr.ExprTree Lexer.LexerStringsSpec
  Expr.LiteralModel Expr.LiteralSpec.
Import ListNotations.
Local Open Scope bool_scope.
Local Open Scope N_scope.

(* ========================================================================================== *)
(* A. strings: Go's escapeStringLiteral is ClickHouse's escaping applied twice *)

Lemma esc_byte_two_level : forall b, ch_escape (ch_escape_byte b) = esc_byte b.
Proof.
  intros b. unfold ch_escape_byte, esc_byte.
  destruct (b =? 8) eqn:E8.
  { apply N.eqb_eq in E8. subst b. reflexivity. }
  destruct (b =? 12) eqn:E12.
  { apply N.eqb_eq in E12. subst b. reflexivity. }
  destruct (b =? 10) eqn:E10.
  { apply N.eqb_eq in E10. subst b. reflexivity. }
  destruct (b =? 13) eqn:E13.
  { apply N.eqb_eq in E13. subst b. reflexivity. }
  destruct (b =? 9) eqn:E9.
  { apply N.eqb_eq in E9. subst b. reflexivity. }
  destruct (b =? 0) eqn:E0.
  { apply N.eqb_eq in E0. subst b. reflexivity. }
  destruct (b =? 92) eqn:E92.
  { apply N.eqb_eq in E92. subst b. reflexivity. }
  destruct (b =? 39) eqn:E39.
  { apply N.eqb_eq in E39. subst b. reflexivity. }
  unfold ch_escape. cbn [flat_map]. unfold ch_escape_byte.
  rewrite E8, E12, E10, E13, E9, E0, E92, E39. reflexivity.
Qed.

Lemma ch_escape_app : forall a b, ch_escape (a ++ b) = ch_escape a ++ ch_escape b.
Proof. intros a b. unfold ch_escape. apply flat_map_app. Qed.

Lemma escape_two_level : forall v, ch_escape (ch_escape v) = escape_string_literal v.
Proof.
  induction v as [|b v IH]; [reflexivity|].
  change (ch_escape (b :: v)) with (ch_escape_byte b ++ ch_escape v).
  rewrite ch_escape_app, IH, esc_byte_two_level. reflexivity.
Qed.

Theorem format_string_canon : forall v, format_string v = canon_string v.
Proof.
  intros v. unfold format_string, canon_string.
  rewrite !ch_escape_app, escape_two_level. reflexivity.
Qed.

(* ========================================================================================== *)
(* B. numerals and strconv *)

(* the digit value pu_loop gives a character, and the value of a digit string in base b from n0 *)
Definition dig (c : N) : N := if in_range 48 57 c then c - 48 else lower c - 97 + 10.
Definition bval (b : N) (s : list N) (n0 : N) : N := fold_left (fun a c => a * b + dig c) s n0.

Definition digit_in (b c : N) : Prop :=
  (in_range 48 57 c = true \/ in_range 97 122 (lower c) = true) /\ dig c < b /\ c <> 95.
Definition digits_in (b : N) (s : list N) : Prop := Forall (digit_in b) s.

Lemma bval_ge : forall b s n, 1 <= b -> n <= bval b s n.
Proof.
  intros b s. induction s as [|c s IH]; intros n Hb; [cbn; lia|].
  cbn [bval fold_left]. fold (bval b s (n * b + dig c)). specialize (IH (n * b + dig c) Hb). nia.
Qed.

Lemma bval_app : forall b s1 s2 n, bval b (s1 ++ s2) n = bval b s2 (bval b s1 n).
Proof. intros. unfold bval. apply fold_left_app. Qed.

Lemma pu_loop_val : forall b base0 s n0 us, 2 <= b -> digits_in b s -> n0 <= max_u64 ->
  pu_loop b base0 (max_u64 / b + 1) s n0 us =
  if bval b s n0 <=? max_u64 then (POk (bval b s n0), us) else (PErr ERange, us).
Proof.
  intros b base0 s. induction s as [|c s IH]; intros n0 us Hb Hs Hn.
  - cbn. apply N.leb_le in Hn. rewrite Hn. reflexivity.
  - inversion Hs as [|? ? Hc Hs']; subst. destruct Hc as (Hcls & Hd & H95).
    cbn [pu_loop bval fold_left]. fold (bval b s (n0 * b + dig c)).
    apply N.eqb_neq in H95. rewrite H95. cbn [andb].
    assert (Hdo : (if in_range 48 57 c then Some (c - 48)
                   else if in_range 97 122 (lower c) then Some (lower c - 97 + 10) else None) = Some (dig c)).
    { unfold dig. destruct (in_range 48 57 c); [reflexivity|].
      destruct Hcls as [Hx|Hx]; [discriminate|rewrite Hx; reflexivity]. }
    rewrite Hdo.
    destruct (b <=? dig c) eqn:Hbd; [apply N.leb_le in Hbd; lia|].
    pose proof (bval_ge b s (n0 * b + dig c) ltac:(lia)) as Hge.
    destruct (max_u64 / b + 1 <=? n0) eqn:Hcut.
    + apply N.leb_le in Hcut.
      assert (max_u64 < n0 * b).
      { pose proof (N.mul_succ_div_gt max_u64 b ltac:(lia)). nia. }
      destruct (bval b s (n0 * b + dig c) <=? max_u64) eqn:Q; [apply N.leb_le in Q; lia|reflexivity].
    + destruct (max_u64 <? n0 * b + dig c) eqn:Hov.
      * apply N.ltb_lt in Hov.
        destruct (bval b s (n0 * b + dig c) <=? max_u64) eqn:Q; [apply N.leb_le in Q; lia|reflexivity].
      * apply N.ltb_ge in Hov. apply IH; assumption.
Qed.

(* ---- generic numerals: least significant digit first into the accumulator ---- *)
Fixpoint gen_aux (b : N) (chr : N -> N) (fuel : nat) (n : N) (acc : list N) : list N :=
  match fuel with
  | O => acc
  | S f =>
      let acc' := chr (n mod b) :: acc in
      if n / b =? 0 then acc' else gen_aux b chr f (n / b) acc'
  end.

Lemma dec_aux_gen : forall f n acc, dec_aux f n acc = gen_aux 10 (fun k => 48 + k) f n acc.
Proof. induction f as [|f IH]; intros; [reflexivity|]. cbn [dec_aux gen_aux]. rewrite IH. reflexivity. Qed.
Lemma hex_aux_gen : forall f n acc, hex_aux f n acc = gen_aux 16 hexdigit f n acc.
Proof. induction f as [|f IH]; intros; [reflexivity|]. cbn [hex_aux gen_aux]. rewrite IH. reflexivity. Qed.

Lemma gen_aux_val : forall b chr, 2 <= b -> (forall k, k < b -> dig (chr k) = k) ->
  forall f n acc, n < 2 ^ N.of_nat f -> bval b (gen_aux b chr f n acc) 0 = bval b acc n.
Proof.
  intros b chr Hb Hchr. induction f as [|f IH]; intros n acc Hn.
  - cbn in Hn. assert (n = 0) by lia. subst. reflexivity.
  - cbn [gen_aux].
    assert (Hd : n = b * (n / b) + n mod b) by (apply N.div_mod; lia).
    assert (Hm : n mod b < b) by (apply N.mod_lt; lia).
    destruct (n / b =? 0) eqn:Hq.
    + apply N.eqb_eq in Hq. cbn [bval fold_left]. rewrite Hchr by exact Hm.
      replace (0 * b + n mod b) with n by lia. reflexivity.
    + apply N.eqb_neq in Hq. rewrite IH.
      * cbn [bval fold_left]. rewrite Hchr by exact Hm.
        replace (n / b * b + n mod b) with n by lia. reflexivity.
      * rewrite Nat2N.inj_succ, N.pow_succ_r' in Hn.
        assert (n / b <= n / 2) by (apply N.div_le_compat_l; lia).
        assert (n / 2 < 2 ^ N.of_nat f) by (apply N.div_lt_upper_bound; lia).
        lia.
Qed.

Lemma gen_aux_digits : forall b chr (P : N -> Prop), 2 <= b -> (forall k, k < b -> P (chr k)) ->
  forall f n acc, Forall P acc -> Forall P (gen_aux b chr f n acc).
Proof.
  intros b chr P Hb Hchr. induction f as [|f IH]; intros n acc Hacc; [exact Hacc|].
  cbn [gen_aux].
  assert (Hm : n mod b < b) by (apply N.mod_lt; lia).
  assert (Forall P (chr (n mod b) :: acc)) by (constructor; [apply Hchr; exact Hm|exact Hacc]).
  destruct (n / b =? 0); [assumption|apply IH; assumption].
Qed.

Lemma gen_aux_nonempty : forall b chr f n acc, acc <> [] -> gen_aux b chr f n acc <> [].
Proof.
  induction f as [|f IH]; intros n acc Hacc; [exact Hacc|].
  cbn [gen_aux]. destruct (n / b =? 0); [discriminate|]. apply IH. discriminate.
Qed.

Lemma log2_fuel : forall n, n < 2 ^ N.of_nat (S (N.to_nat (N.log2 n))).
Proof.
  intros n. rewrite Nat2N.inj_succ, N2Nat.id. destruct n as [|p]; [reflexivity|]. apply N.log2_spec. lia.
Qed.

Definition is_dec_digit (c : N) : bool := in_range 48 57 c.

Lemma dec_digit_in : forall k, k < 10 -> is_dec_digit (48 + k) = true /\ digit_in 10 (48 + k).
Proof.
  intros k Hk. unfold is_dec_digit, digit_in, dig, in_range.
  assert (H1 : (48 <=? 48 + k) && (48 + k <=? 57) = true) by lia.
  rewrite H1. repeat split; [left; reflexivity|lia|lia].
Qed.

Lemma dec_val : forall n, bval 10 (dec n) 0 = n.
Proof.
  intros n. unfold dec. rewrite dec_aux_gen. rewrite gen_aux_val; [reflexivity|lia| |apply log2_fuel].
  intros k Hk. unfold dig, in_range. assert (H1 : (48 <=? 48 + k) && (48 + k <=? 57) = true) by lia.
  rewrite H1. lia.
Qed.

Lemma dec_digits_in : forall n, digits_in 10 (dec n).
Proof.
  intros n. unfold dec. rewrite dec_aux_gen. apply gen_aux_digits; [lia| |constructor].
  intros k Hk. apply dec_digit_in. exact Hk.
Qed.

Lemma dec_all_digits : forall n, forallb is_dec_digit (dec n) = true.
Proof.
  intros n. apply forallb_forall. apply Forall_forall. unfold dec. rewrite dec_aux_gen.
  apply gen_aux_digits; [lia| |constructor]. intros k Hk. apply dec_digit_in. exact Hk.
Qed.

Lemma dec_nonempty : forall n, dec n <> [].
Proof.
  intros n. unfold dec. rewrite dec_aux_gen. cbn [gen_aux].
  destruct (n / 10 =? 0); [discriminate|]. apply gen_aux_nonempty. discriminate.
Qed.

Lemma hexdigit_dig : forall k, k < 16 -> dig (hexdigit k) = k /\ digit_in 16 (hexdigit k) /\
  rdigit RHex (hexdigit k) = Some (dig (hexdigit k)).
Proof.
  intros k Hk.
  assert (Hc : k = 0 \/ k = 1 \/ k = 2 \/ k = 3 \/ k = 4 \/ k = 5 \/ k = 6 \/ k = 7 \/ k = 8 \/ k = 9 \/
               k = 10 \/ k = 11 \/ k = 12 \/ k = 13 \/ k = 14 \/ k = 15) by lia.
  destruct Hc as [->|[->|[->|[->|[->|[->|[->|[->|[->|[->|[->|[->|[->|[->|[->| ->]]]]]]]]]]]]]]];
    (split; [reflexivity|split; [|reflexivity]]);
    unfold digit_in; (split; [first [left; reflexivity|right; reflexivity]|split; [vm_compute; reflexivity|discriminate]]).
Qed.

Lemma hex_val_n : forall n, bval 16 (hex n) 0 = n.
Proof.
  intros n. unfold hex. rewrite hex_aux_gen. rewrite gen_aux_val; [reflexivity|lia| |apply log2_fuel].
  intros k Hk. apply hexdigit_dig. exact Hk.
Qed.

Lemma hex_digits_in : forall n, digits_in 16 (hex n).
Proof.
  intros n. unfold hex. rewrite hex_aux_gen. apply gen_aux_digits; [lia| |constructor].
  intros k Hk. apply hexdigit_dig. exact Hk.
Qed.

Lemma hex_nonempty : forall n, hex n <> [].
Proof.
  intros n. unfold hex. rewrite hex_aux_gen. cbn [gen_aux].
  destruct (n / 16 =? 0); [discriminate|]. apply gen_aux_nonempty. discriminate.
Qed.

(* the characters of a hex numeral: digits and a..f *)
Definition is_lhex (c : N) : bool := in_range 48 57 c || in_range 97 102 c.
Lemma hex_chars : forall n, forallb is_lhex (hex n) = true.
Proof.
  intros n. apply forallb_forall. apply Forall_forall. unfold hex. rewrite hex_aux_gen.
  apply gen_aux_digits; [lia| |constructor]. intros k Hk. unfold hexdigit, is_lhex, in_range.
  destruct (k <? 10) eqn:Q; lia.
Qed.

Lemma pos_bits_val : forall p acc, bval 2 (pos_bits p acc) 0 = bval 2 acc (Npos p).
Proof.
  induction p as [p IH|p IH|]; intros acc; cbn [pos_bits].
  - rewrite IH. cbn [bval fold_left]. change (dig 49) with 1.
    replace (N.pos p * 2 + 1) with (N.pos p~1) by lia. reflexivity.
  - rewrite IH. cbn [bval fold_left]. change (dig 48) with 0.
    replace (N.pos p * 2 + 0) with (N.pos p~0) by lia. reflexivity.
  - reflexivity.
Qed.

Lemma bin_val : forall n, bval 2 (bin n) 0 = n.
Proof. intros [|p]; [reflexivity|]. unfold bin. rewrite pos_bits_val. reflexivity. Qed.

Definition is_bit (c : N) : bool := (c =? 48) || (c =? 49).

Lemma pos_bits_all : forall (P : N -> Prop), P 48 -> P 49 -> forall p acc, Forall P acc -> Forall P (pos_bits p acc).
Proof.
  intros P H0 H1. induction p as [p IH|p IH|]; intros acc Hacc; cbn [pos_bits].
  - apply IH. constructor; assumption.
  - apply IH. constructor; assumption.
  - constructor; assumption.
Qed.

Lemma bin_digits_in : forall n, digits_in 2 (bin n).
Proof.
  assert (D0 : digit_in 2 48) by (unfold digit_in; split; [left; reflexivity|split; [vm_compute; reflexivity|discriminate]]).
  assert (D1 : digit_in 2 49) by (unfold digit_in; split; [left; reflexivity|split; [vm_compute; reflexivity|discriminate]]).
  intros [|p]; [constructor; [exact D0|constructor]|]. unfold bin. apply pos_bits_all; [exact D0|exact D1|constructor].
Qed.

Lemma bin_bits : forall n, forallb is_bit (bin n) = true.
Proof.
  intros n. apply forallb_forall. apply Forall_forall.
  destruct n as [|p]; [constructor; [reflexivity|constructor]|].
  unfold bin. apply pos_bits_all; [reflexivity|reflexivity|constructor].
Qed.

Lemma bin_nonempty : forall n, bin n <> [].
Proof.
  assert (G : forall p acc, pos_bits p acc <> []).
  { induction p as [p IH|p IH|]; intros acc; cbn [pos_bits]; [apply IH|apply IH|discriminate]. }
  intros [|p]; [discriminate|]. unfold bin. apply G.
Qed.

(* ---- ParseUint / ParseInt on numerals ---- *)

Definition uint_result (n : N) : pres := if n <=? max_u64 then POk n else PErr ERange.
Definition int_result (n : N) : ires := if n <? two63 then IOk false n else IErr ERange.

Lemma parse_uint_base10 : forall s, s <> [] -> digits_in 10 s ->
  parse_uint s 10 = uint_result (bval 10 s 0).
Proof.
  intros s Hne Hs. destruct s as [|c0 s']; [contradiction|].
  unfold parse_uint. change (10 =? 0) with false. cbv iota beta.
  change (max_u64 / 10 + 1) with (max_u64 / 10 + 1).
  rewrite (pu_loop_val 10 false (c0 :: s') 0 false); [|lia|exact Hs|unfold max_u64; lia].
  unfold uint_result. destruct (bval 10 (c0 :: s') 0 <=? max_u64); reflexivity.
Qed.

Lemma parse_uint_prefixed : forall c1 b hs,
  (c1 = 120 /\ b = 16) \/ (c1 = 98 /\ b = 2) -> hs <> [] -> digits_in b hs ->
  parse_uint (48 :: c1 :: hs) 0 = uint_result (bval b hs 0).
Proof.
  intros c1 b hs Hc Hne Hs. destruct hs as [|h hs']; [contradiction|].
  unfold parse_uint. change (0 =? 0) with true. change (48 =? 48) with true. cbv iota beta.
  destruct Hc as [[-> ->]|[-> ->]].
  - change (lower 120 =? 98) with false. change (lower 120 =? 111) with false. change (lower 120 =? 120) with true.
    cbv iota beta. cbn [skipn].
    rewrite (pu_loop_val 16 true (h :: hs') 0 false); [|lia|exact Hs|unfold max_u64; lia].
    unfold uint_result. destruct (bval 16 (h :: hs') 0 <=? max_u64); reflexivity.
  - change (lower 98 =? 98) with true. cbv iota beta. cbn [skipn].
    rewrite (pu_loop_val 2 true (h :: hs') 0 false); [|lia|exact Hs|unfold max_u64; lia].
    unfold uint_result. destruct (bval 2 (h :: hs') 0 <=? max_u64); reflexivity.
Qed.

Lemma parse_int_of_uint : forall c0 s' base n, c0 <> 43 -> c0 <> 45 ->
  parse_uint (c0 :: s') base = uint_result n -> parse_int (c0 :: s') base = int_result n.
Proof.
  intros c0 s' base n H43 H45 Hu. unfold parse_int.
  apply N.eqb_neq in H43. apply N.eqb_neq in H45. rewrite H43, H45. cbn [orb negb andb].
  rewrite Hu. unfold uint_result, int_result.
  destruct (n <=? max_u64) eqn:Q.
  - destruct (two63 <=? n) eqn:Q2; destruct (n <? two63) eqn:Q3; try reflexivity; unfold two63 in *; lia.
  - change (two63 <=? max_u64) with true. cbv iota.
    destruct (n <? two63) eqn:Q3; [unfold two63, max_u64 in *; lia|reflexivity].
Qed.

Lemma dec_head : forall n, exists c0 s', dec n = c0 :: s' /\ is_dec_digit c0 = true.
Proof.
  intros n. pose proof (dec_all_digits n) as H. pose proof (dec_nonempty n) as Hne.
  destruct (dec n) as [|c0 s']; [contradiction|]. exists c0, s'. split; [reflexivity|].
  cbn [forallb] in H. apply andb_prop in H. apply H.
Qed.

Lemma parse_uint_dec : forall n, parse_uint (dec n) 10 = uint_result n.
Proof.
  intros n. rewrite parse_uint_base10; [rewrite dec_val; reflexivity|apply dec_nonempty|apply dec_digits_in].
Qed.

Lemma parse_int_dec : forall n, parse_int (dec n) 10 = int_result n.
Proof.
  intros n. destruct (dec_head n) as (c0 & s' & E & Hc). rewrite E.
  apply parse_int_of_uint; [| |rewrite <- E; apply parse_uint_dec];
    unfold is_dec_digit, in_range in Hc; lia.
Qed.

Lemma parse_uint_hex : forall n, parse_uint ([48; 120] ++ hex n) 0 = uint_result n.
Proof.
  intros n. cbn [app]. rewrite (parse_uint_prefixed 120 16); [rewrite hex_val_n; reflexivity|left; auto|apply hex_nonempty|apply hex_digits_in].
Qed.
Lemma parse_int_hex : forall n, parse_int ([48; 120] ++ hex n) 0 = int_result n.
Proof.
  intros n. cbn [app]. apply parse_int_of_uint; [discriminate|discriminate|apply parse_uint_hex].
Qed.
Lemma parse_uint_bin : forall n, parse_uint ([48; 98] ++ bin n) 0 = uint_result n.
Proof.
  intros n. cbn [app]. rewrite (parse_uint_prefixed 98 2); [rewrite bin_val; reflexivity|right; auto|apply bin_nonempty|apply bin_digits_in].
Qed.
Lemma parse_int_bin : forall n, parse_int ([48; 98] ++ bin n) 0 = int_result n.
Proof.
  intros n. cbn [app]. apply parse_int_of_uint; [discriminate|discriminate|apply parse_uint_bin].
Qed.

(* the `dec` round trip on N, in the vocabulary of ExprTree *)
Theorem dec_round_trip : forall n, digits_val (dec n) = n.
Proof.
  intros n. rewrite <- (dec_val n) at 2. unfold digits_val, bval.
  pose proof (dec_all_digits n) as H. generalize 0. revert H. generalize (dec n).
  induction l as [|c l IH]; intros H a; [reflexivity|].
  cbn [forallb] in H. apply andb_prop in H. destruct H as [Hc Hl].
  cbn [fold_left]. rewrite IH by exact Hl. f_equal. unfold dig. unfold is_dec_digit in Hc. rewrite Hc. lia.
Qed.

(* ---- the flags of parseNumber ---- *)

Lemma no_byte : forall (P : N -> bool) s c, forallb P s = true -> P c = false -> contains_byte s c = false.
Proof.
  intros P s c Hs Hc. unfold contains_byte. induction s as [|x s IH]; [reflexivity|].
  cbn [forallb existsb] in *. apply andb_prop in Hs. destruct Hs as [Hx Hs].
  destruct (c =? x) eqn:Q; [apply N.eqb_eq in Q; subst; congruence|]. cbn [orb]. apply IH. exact Hs.
Qed.

Lemma no_any : forall (P : N -> bool) s cs, forallb P s = true -> forallb (fun c => negb (P c)) cs = true ->
  contains_any s cs = false.
Proof.
  intros P s cs Hs Hcs. unfold contains_any. induction s as [|x s IH]; [reflexivity|].
  cbn [forallb existsb] in *. apply andb_prop in Hs. destruct Hs as [Hx Hs]. rewrite (IH Hs), orb_false_r.
  clear IH. induction cs as [|c cs IHc]; [reflexivity|].
  cbn [forallb existsb] in *. apply andb_prop in Hcs. destruct Hcs as [Hc Hcs]. rewrite (IHc Hcs), orb_false_r.
  destruct (x =? c) eqn:Q; [apply N.eqb_eq in Q; subst; rewrite Hx in Hc; discriminate|reflexivity].
Qed.

Lemma no_prefix2 : forall (P : N -> bool) s a c, forallb P s = true -> P c = false -> has_prefix s [a; c] = false.
Proof.
  intros P s a c Hs Hc. destruct s as [|x [|y s]]; cbn [has_prefix]; [reflexivity|apply andb_false_r|].
  cbn [forallb] in Hs. apply andb_prop in Hs. destruct Hs as [_ Hs]. apply andb_prop in Hs. destruct Hs as [Hy _].
  destruct (c =? y) eqn:Q; [apply N.eqb_eq in Q; subst; congruence|]. rewrite andb_false_r. reflexivity.
Qed.

(* ---- prefixed spellings with separators (LiteralSpec.rad_ok): strconv and math/big read the same value ---- *)

(* the digit test of pu_loop *)
Definition pu_digit (c : N) : option N :=
  if in_range 48 57 c then Some (c - 48)
  else if in_range 97 122 (lower c) then Some (lower c - 97 + 10)
  else None.

Definition is_hexr (r : radix) : bool := match r with RHex => true | _ => false end.
Definition opt_is (o : option N) (d : N) : bool := match o with Some x => x =? d | None => false end.

(* what strconv, math/big, parseNumber's float tests and the lexer see in a digit character of the radix *)
Definition rdigit_check (r : radix) (c : N) : bool :=
  match rdigit r c with
  | Some d =>
      negb (c =? 95) && opt_is (pu_digit c) d && (d <? radix_base r) && (big_digit c =? d) &&
      (in_range 48 57 c || (is_hexr r && in_range 97 102 (lower c))) &&
      negb ((c =? 112) || (c =? 80) || (c =? 46))
  | None => true
  end.

Lemma rdigit_sweep :
  forallb (fun c => rdigit_check RHex c && rdigit_check RBin c && rdigit_check ROct c) (map N.of_nat (seq 0 128)) = true.
Proof. vm_compute. reflexivity. Qed.

Lemma rdigit_lt : forall r c d, rdigit r c = Some d -> c < 128.
Proof.
  intros r c d H. destruct r; unfold rdigit in H.
  - destruct ((48 <=? c) && (c <=? 57)) eqn:Q1; [lia|].
    destruct ((97 <=? c) && (c <=? 102)) eqn:Q2; [lia|].
    destruct ((65 <=? c) && (c <=? 70)) eqn:Q3; [lia|discriminate].
  - destruct ((c =? 48) || (c =? 49)) eqn:Q1; [lia|discriminate].
  - destruct ((48 <=? c) && (c <=? 55)) eqn:Q1; [lia|discriminate].
Qed.

Lemma rdigit_facts : forall r c d, rdigit r c = Some d ->
  c <> 95 /\ pu_digit c = Some d /\ d < radix_base r /\ big_digit c = d /\
  (in_range 48 57 c || (is_hexr r && in_range 97 102 (lower c))) = true /\
  c <> 112 /\ c <> 80 /\ c <> 46.
Proof.
  intros r c d H. pose proof (rdigit_lt r c d H) as Hlt.
  assert (Hin : In c (map N.of_nat (seq 0 128))).
  { apply in_map_iff. exists (N.to_nat c). split; [lia|]. apply in_seq. lia. }
  pose proof (proj1 (forallb_forall _ _) rdigit_sweep c Hin) as Hs. cbv beta in Hs.
  apply andb_prop in Hs. destruct Hs as [Hs H3]. apply andb_prop in Hs. destruct Hs as [H1 H2].
  assert (Hc : rdigit_check r c = true) by (destruct r; assumption).
  unfold rdigit_check in Hc. rewrite H in Hc.
  repeat (apply andb_prop in Hc; let X := fresh "F" in destruct Hc as [Hc X]).
  unfold opt_is in *. destruct (pu_digit c) as [x|]; [|discriminate].
  repeat split; try lia. f_equal. lia.
Qed.

Lemma rdigit_us : forall r, rdigit r 95 = None.
Proof. intros []; reflexivity. Qed.

Lemma is_rdigit_some : forall r c, is_rdigit r c = true -> exists d, rdigit r c = Some d.
Proof. intros r c H. unfold is_rdigit in H. destruct (rdigit r c) as [d|]; [exists d; reflexivity|discriminate]. Qed.

Lemma radix_base_ge : forall r, 2 <= radix_base r.
Proof. intros []; cbn; lia. Qed.

(* the shape of a well-formed digit string *)
Lemma rad_ok_inv : forall r c ds, rad_ok r (c :: ds) = true ->
  (ds = [] /\ is_rdigit r c = true) \/
  (exists c2 ds2, ds = c2 :: ds2 /\ rad_ok r ds = true /\
     (is_rdigit r c = true \/ (c = 95 /\ is_rdigit r c2 = true))).
Proof.
  intros r c ds H. destruct ds as [|c2 ds2]; [left; split; [reflexivity|exact H]|].
  right. exists c2, ds2. split; [reflexivity|].
  change (rad_ok r (c :: c2 :: ds2)) with ((is_rdigit r c || ((c =? 95) && is_rdigit r c2)) && rad_ok r (c2 :: ds2)) in H.
  apply andb_prop in H. destruct H as [H1 H2]. split; [exact H2|].
  apply orb_prop in H1. destruct H1 as [H1|H1]; [left; exact H1|].
  apply andb_prop in H1. destruct H1 as [H1 H3]. right. split; [lia|exact H3].
Qed.

(* the scanning state: after a digit (or the prefix), or after a '_' that a digit follows *)
Definition st_ok (r : radix) (p : N) (ds : list N) : Prop :=
  p = 1 \/ (p = 2 /\ exists c ds', ds = c :: ds' /\ is_rdigit r c = true).

Lemma is_rdigit_us : forall r, is_rdigit r 95 = false.
Proof. intros []; reflexivity. Qed.

Lemma st_ok_us : forall r p ds, st_ok r p (95 :: ds) -> p = 1.
Proof.
  intros r p ds [H|(_ & c & ds' & E & Hd)]; [exact H|]. inversion E; subst. rewrite is_rdigit_us in Hd. discriminate.
Qed.

(* func underscoreOK *)
Lemma uok_rad : forall r ds saw, rad_ok r ds = true -> st_ok r saw ds -> uok_loop (is_hexr r) ds saw = true.
Proof.
  intros r ds. induction ds as [|c ds IH]; intros saw Hok Hst; [discriminate|].
  destruct (rad_ok_inv r c ds Hok) as [[-> Hd]|(c2 & ds2 & E & Hok' & Hc)].
  - destruct (is_rdigit_some r c Hd) as (d & Ed). destruct (rdigit_facts r c d Ed) as (_ & _ & _ & _ & Ht & _).
    cbn [uok_loop]. rewrite Ht. reflexivity.
  - destruct Hc as [Hd|[-> Hd2]].
    + destruct (is_rdigit_some r c Hd) as (d & Ed). destruct (rdigit_facts r c d Ed) as (_ & _ & _ & _ & Ht & _).
      cbn [uok_loop]. rewrite Ht. apply IH; [exact Hok'|left; reflexivity].
    + pose proof (st_ok_us r saw ds Hst) as ->.
      cbn [uok_loop]. change (in_range 48 57 95) with false. change (in_range 97 102 (lower 95)) with false.
      rewrite andb_false_r. cbn [orb]. change (95 =? 95) with true. change (1 =? 1) with true. cbv iota.
      apply IH; [exact Hok'|]. right. split; [reflexivity|]. exists c2, ds2. split; [exact E|exact Hd2].
Qed.

(* the digit loop of nat.scan *)
Lemma big_scan_rad : forall r ds prev seen acc, rad_ok r ds = true -> st_ok r prev ds ->
  big_scan_loop (radix_base r) ds prev false seen acc = ([], 1, false, true, rad_value r ds acc).
Proof.
  intros r ds. induction ds as [|c ds IH]; intros prev seen acc Hok Hst; [discriminate|].
  destruct (rad_ok_inv r c ds Hok) as [[-> Hd]|(c2 & ds2 & E & Hok' & Hc)].
  - destruct (is_rdigit_some r c Hd) as (d & Ed). destruct (rdigit_facts r c d Ed) as (H95 & _ & Hlt & Hb & _).
    cbn [big_scan_loop rad_value]. apply N.eqb_neq in H95. rewrite H95, Hb, Ed.
    destruct (radix_base r <=? d) eqn:Q; [lia|]. reflexivity.
  - destruct Hc as [Hd|[-> Hd2]].
    + destruct (is_rdigit_some r c Hd) as (d & Ed). destruct (rdigit_facts r c d Ed) as (H95 & _ & Hlt & Hb & _).
      cbn [big_scan_loop rad_value]. apply N.eqb_neq in H95. rewrite H95, Hb, Ed.
      destruct (radix_base r <=? d) eqn:Q; [lia|]. apply IH; [exact Hok'|left; reflexivity].
    + pose proof (st_ok_us r prev ds Hst) as ->.
      cbn [big_scan_loop rad_value]. change (95 =? 95) with true. cbv iota. rewrite rdigit_us.
      change (false || negb (1 =? 1)) with false.
      apply IH; [exact Hok'|]. right. split; [reflexivity|]. exists c2, ds2. split; [exact E|exact Hd2].
Qed.

Lemma rad_value_ge : forall r ds n, n <= rad_value r ds n.
Proof.
  intros r ds. induction ds as [|c ds IH]; intros n; [cbn; lia|].
  cbn [rad_value]. destruct (rdigit r c) as [d|]; [|apply IH].
  pose proof (IH (n * radix_base r + d)). pose proof (radix_base_ge r). nia.
Qed.

Lemma rad_ok_chars : forall r ds, rad_ok r ds = true -> Forall (fun c => c = 95 \/ is_rdigit r c = true) ds.
Proof.
  intros r ds. induction ds as [|c ds IH]; intros H; [discriminate|].
  destruct (rad_ok_inv r c ds H) as [[-> Hd]|(c2 & ds2 & E & Hok' & Hc)].
  - constructor; [right; exact Hd|constructor].
  - constructor; [|apply IH; exact Hok']. destruct Hc as [Hd|[-> _]]; [right; exact Hd|left; reflexivity].
Qed.

(* the digit loop of ParseUint with base 0: separators are skipped *)
Lemma pu_loop_rad : forall r ds n0 us, Forall (fun c => c = 95 \/ is_rdigit r c = true) ds -> n0 <= max_u64 ->
  exists us', pu_loop (radix_base r) true (max_u64 / radix_base r + 1) ds n0 us =
              (if rad_value r ds n0 <=? max_u64 then POk (rad_value r ds n0) else PErr ERange, us').
Proof.
  intros r ds. induction ds as [|c ds IH]; intros n0 us Hs Hn.
  - exists us. cbn. apply N.leb_le in Hn. rewrite Hn. reflexivity.
  - inversion Hs as [|? ? Hc Hs']; subst.
    destruct (N.eq_dec c 95) as [->|Hne].
    + cbn [pu_loop rad_value]. change ((95 =? 95) && true) with true. cbv iota. rewrite rdigit_us.
      apply IH; assumption.
    + destruct Hc as [Hc|Hd]; [contradiction|].
      destruct (is_rdigit_some r c Hd) as (d & Ed). destruct (rdigit_facts r c d Ed) as (_ & Hpu & Hlt & _).
      cbn [pu_loop rad_value]. rewrite Ed. apply N.eqb_neq in Hne. rewrite Hne. cbn [andb].
      unfold pu_digit in Hpu. rewrite Hpu.
      pose proof (radix_base_ge r) as Hb.
      destruct (radix_base r <=? d) eqn:Hbd; [lia|].
      pose proof (rad_value_ge r ds (n0 * radix_base r + d)) as Hge.
      destruct (max_u64 / radix_base r + 1 <=? n0) eqn:Hcut.
      * apply N.leb_le in Hcut. exists us.
        assert (max_u64 < n0 * radix_base r).
        { pose proof (N.mul_succ_div_gt max_u64 (radix_base r) ltac:(lia)). nia. }
        destruct (rad_value r ds (n0 * radix_base r + d) <=? max_u64) eqn:Q; [lia|reflexivity].
      * destruct (max_u64 <? n0 * radix_base r + d) eqn:Hov.
        -- exists us. destruct (rad_value r ds (n0 * radix_base r + d) <=? max_u64) eqn:Q; [lia|reflexivity].
        -- apply IH; [exact Hs'|lia].
Qed.

Lemma radix_letter_lower : forall r up,
  lower (radix_letter r up) = match r with RHex => 120 | RBin => 98 | ROct => 111 end.
Proof. intros [] []; reflexivity. Qed.

Lemma underscore_ok_rad : forall r up ds, rad_ok r ds = true ->
  underscore_ok (48 :: radix_letter r up :: ds) = true.
Proof.
  intros r up ds H. unfold underscore_ok. change ((48 =? 45) || (48 =? 43)) with false. cbv iota.
  rewrite radix_letter_lower.
  assert (E : uok_loop (is_hexr r) ds 1 = true) by (apply uok_rad; [exact H|left; reflexivity]).
  destruct r; cbn [N.eqb Pos.eqb orb]; exact E.
Qed.

Lemma parse_uint_rad : forall r up ds, rad_ok r ds = true ->
  parse_uint (48 :: radix_letter r up :: ds) 0 = uint_result (rad_value r ds 0).
Proof.
  intros r up ds H. pose proof (underscore_ok_rad r up ds H) as Hu.
  destruct (pu_loop_rad r ds 0 false (rad_ok_chars r ds H) ltac:(unfold max_u64; lia)) as (us' & Hp).
  destruct ds as [|h ds']; [discriminate|].
  unfold parse_uint. change (0 =? 0) with true. change (48 =? 48) with true. cbv iota beta.
  rewrite radix_letter_lower.
  destruct r; cbn [N.eqb Pos.eqb radix_base] in *; cbv iota beta; cbn [skipn]; rewrite Hp, Hu;
    unfold uint_result; destruct (rad_value _ (h :: ds') 0 <=? max_u64); try reflexivity; rewrite andb_false_r; reflexivity.
Qed.

Lemma parse_int_rad : forall r up ds, rad_ok r ds = true ->
  parse_int (48 :: radix_letter r up :: ds) 0 = int_result (rad_value r ds 0).
Proof.
  intros r up ds H. apply parse_int_of_uint; [discriminate|discriminate|apply parse_uint_rad; exact H].
Qed.

(* big.Int.SetString(s, 0) *)
Lemma big_set_string0_rad : forall r up ds, rad_ok r ds = true ->
  big_set_string0 (48 :: radix_letter r up :: ds) = Some (false, rad_value r ds 0).
Proof.
  intros r up ds H.
  pose proof (big_scan_rad r ds 1 false 0 H (or_introl eq_refl)) as Hs.
  unfold big_set_string0. change (48 =? 45) with false. change (48 =? 43) with false. cbv iota.
  unfold big_nat_scan0. change (48 =? 48) with true. cbv iota.
  destruct r, up; cbn [radix_letter N.eqb Pos.eqb orb radix_base] in *; cbv iota; rewrite Hs; reflexivity.
Qed.

(* no float marker in such a text *)
Lemma rad_no_float_chars : forall r up ds, rad_ok r ds = true ->
  contains_any (48 :: radix_letter r up :: ds) [112; 80] = false /\
  contains_byte (48 :: radix_letter r up :: ds) 46 = false.
Proof.
  intros r up ds H.
  set (P := fun c : N => negb ((c =? 112) || (c =? 80) || (c =? 46))).
  assert (Hall : forallb P (48 :: radix_letter r up :: ds) = true).
  { cbn [forallb]. assert (P 48 = true) by reflexivity. assert (P (radix_letter r up) = true) by (destruct r, up; reflexivity).
    rewrite H0, H1. cbn [andb]. apply forallb_forall. intros c Hc.
    pose proof (proj1 (Forall_forall _ _) (rad_ok_chars r ds H) c Hc) as [->|Hd]; [reflexivity|].
    destruct (is_rdigit_some r c Hd) as (d & Ed). destruct (rdigit_facts r c d Ed) as (_ & _ & _ & _ & _ & A & B & C).
    unfold P. apply N.eqb_neq in A, B, C. rewrite A, B, C. reflexivity. }
  split; [apply (no_any P _ _ Hall); reflexivity|apply (no_byte P _ _ Hall); reflexivity].
Qed.

Lemma rad_value_cons : forall r c ds acc,
  rad_value r (c :: ds) acc = rad_value r ds (match rdigit r c with Some d => acc * radix_base r + d | None => acc end).
Proof. reflexivity. Qed.

(* plain numerals are such digit strings *)
Lemma rad_pure : forall r ds, ds <> [] -> Forall (fun c => rdigit r c = Some (dig c)) ds ->
  rad_ok r ds = true /\ forall acc, rad_value r ds acc = bval (radix_base r) ds acc.
Proof.
  intros r ds. induction ds as [|c ds IH]; intros Hne Hs; [contradiction|].
  inversion Hs as [|? ? Hc Hs']; subst.
  assert (Hd : is_rdigit r c = true) by (unfold is_rdigit; rewrite Hc; reflexivity).
  destruct ds as [|c2 ds2].
  - split; [exact Hd|]. intros acc. cbn [rad_value bval fold_left]. rewrite Hc. reflexivity.
  - destruct (IH ltac:(discriminate) Hs') as [Hok Hv]. split.
    + change (rad_ok r (c :: c2 :: ds2)) with ((is_rdigit r c || ((c =? 95) && is_rdigit r c2)) && rad_ok r (c2 :: ds2)).
      rewrite Hd, Hok. reflexivity.
    + intros acc. rewrite rad_value_cons, Hc, Hv. reflexivity.
Qed.

Lemma hex_rad : forall n, rad_ok RHex (hex n) = true /\ rad_value RHex (hex n) 0 = n.
Proof.
  intros n. destruct (rad_pure RHex (hex n) (hex_nonempty n)) as [H1 H2].
  { unfold hex. rewrite hex_aux_gen. apply gen_aux_digits; [lia| |constructor].
    intros k Hk. apply hexdigit_dig. exact Hk. }
  split; [exact H1|]. rewrite H2. apply hex_val_n.
Qed.

Lemma bin_rad : forall n, rad_ok RBin (bin n) = true /\ rad_value RBin (bin n) 0 = n.
Proof.
  intros n. destruct (rad_pure RBin (bin n) (bin_nonempty n)) as [H1 H2].
  { destruct n as [|p]; [constructor; [reflexivity|constructor]|].
    unfold bin. apply pos_bits_all; [reflexivity|reflexivity|constructor]. }
  split; [exact H1|]. rewrite H2. apply bin_val.
Qed.

Lemma oct_aux_gen : forall f n acc, oct_aux f n acc = gen_aux 8 (fun k => 48 + k) f n acc.
Proof. induction f as [|f IH]; intros; [reflexivity|]. cbn [oct_aux gen_aux]. rewrite IH. reflexivity. Qed.

Lemma oct_digit : forall k, k < 8 -> dig (48 + k) = k /\ rdigit ROct (48 + k) = Some (dig (48 + k)).
Proof.
  intros k Hk. assert (Hc : k = 0 \/ k = 1 \/ k = 2 \/ k = 3 \/ k = 4 \/ k = 5 \/ k = 6 \/ k = 7) by lia.
  destruct Hc as [->|[->|[->|[->|[->|[->|[->| ->]]]]]]]; split; reflexivity.
Qed.

Lemma oct_nonempty : forall n, oct n <> [].
Proof.
  intros n. unfold oct. rewrite oct_aux_gen. cbn [gen_aux].
  destruct (n / 8 =? 0); [discriminate|]. apply gen_aux_nonempty. discriminate.
Qed.

Lemma oct_rad : forall n, rad_ok ROct (oct n) = true /\ rad_value ROct (oct n) 0 = n.
Proof.
  intros n. destruct (rad_pure ROct (oct n) (oct_nonempty n)) as [H1 H2].
  { unfold oct. rewrite oct_aux_gen. apply gen_aux_digits; [lia| |constructor].
    intros k Hk. apply oct_digit. exact Hk. }
  split; [exact H1|]. rewrite H2. unfold oct. rewrite oct_aux_gen.
  rewrite gen_aux_val; [reflexivity|lia| |apply log2_fuel]. intros k Hk. apply oct_digit. exact Hk.
Qed.

(* ========================================================================================== *)
(* C. FormatFloat (format.go) on digits/exponent = canon_float *)

Definition digits_ok (ds : list N) : Prop := ds <> [] /\ forallb is_dec_digit ds = true.
Definition exp_ok (e10 : Z) : Prop := (-324 <= e10 <= 308)%Z.
Definition fval_ok (f : fval) : Prop :=
  match f with FFin _ ds e => digits_ok ds /\ exp_ok e | _ => True end.

Lemma fneg_ok : forall f, fval_ok f -> fval_ok (fneg f).
Proof. intros [| |n ds e]; cbn; auto. Qed.

(* the %e output is  sign ++ mantissa ++ e-suffix *)
Definition e_suffix (e10 : Z) : list N :=
  [101] ++ (if (e10 <? 0)%Z then [45] else [43]) ++
  (let a := Z.to_N (Z.abs e10) in if a <? 10 then 48 :: dec a else dec a).
Definition e_suffix_canon (e10 : Z) : list N :=
  [101] ++ (if (e10 <? 0)%Z then [45] else []) ++ dec (Z.to_N (Z.abs e10)).
Definition replace_chain (s : list N) : list N :=
  replace_first [101; 43] [101] (replace_first [101; 43; 48] [101; 43] (replace_first [101; 45; 48] [101; 45] s)).

Lemma go_fmt_e_split : forall neg ds e10,
  go_fmt_e neg ds e10 = (sign_bytes neg ++ mantissa ds) ++ e_suffix e10.
Proof.
  intros neg ds e10. unfold go_fmt_e, e_suffix. rewrite <- app_assoc. f_equal.
  destruct ds as [|d [|d2 more]]; reflexivity.
Qed.

(* replace_first skips a prefix that does not contain the first byte of the pattern *)
Lemma replace_first_skip : forall o old' new pre s, ~ In o pre ->
  replace_first (o :: old') new (pre ++ s) = pre ++ replace_first (o :: old') new s.
Proof.
  intros o old' new pre s. induction pre as [|c pre IH]; intros Hn; [reflexivity|].
  cbn [app]. cbn [replace_first has_prefix].
  destruct (o =? c) eqn:Q; [apply N.eqb_eq in Q; subst; exfalso; apply Hn; left; reflexivity|].
  cbn [andb]. f_equal. apply IH. intros Hi. apply Hn. right. exact Hi.
Qed.

Lemma replace_chain_skip : forall pre s, ~ In 101 pre -> replace_chain (pre ++ s) = pre ++ replace_chain s.
Proof.
  intros pre s Hn. unfold replace_chain. rewrite !replace_first_skip by exact Hn. reflexivity.
Qed.

(* the finite sweep over the exponents *)
Definition exp_range : list Z := map (fun i => (Z.of_nat i - 324)%Z) (seq 0 633).

Lemma exp_range_complete : forall e, exp_ok e -> In e exp_range.
Proof.
  intros e [H1 H2]. unfold exp_range. apply in_map_iff. exists (Z.to_nat (e + 324)). split; [lia|].
  apply in_seq. lia.
Qed.

Lemma e_suffix_sweep :
  forallb (fun e => lbytes_eqb (replace_chain (e_suffix e)) (e_suffix_canon e)) exp_range = true.
Proof. vm_compute. reflexivity. Qed.

Lemma lbytes_eqb_eq : forall a b, lbytes_eqb a b = true -> a = b.
Proof.
  induction a as [|x a IH]; destruct b as [|y b]; cbn; intros H; try discriminate; [reflexivity|].
  apply andb_prop in H. destruct H as [H1 H2]. apply N.eqb_eq in H1. subst. f_equal. apply IH. exact H2.
Qed.

Lemma e_suffix_ok : forall e, exp_ok e -> replace_chain (e_suffix e) = e_suffix_canon e.
Proof.
  intros e He. apply lbytes_eqb_eq.
  exact (proj1 (forallb_forall _ _) e_suffix_sweep e (exp_range_complete e He)).
Qed.

Lemma mantissa_no_e : forall neg ds, forallb is_dec_digit ds = true -> ~ In 101 (sign_bytes neg ++ mantissa ds).
Proof.
  intros neg ds Hd Hi. apply in_app_or in Hi. destruct Hi as [Hi|Hi].
  - destruct neg; cbn in Hi; [destruct Hi as [Hi|[]]; discriminate|contradiction].
  - assert (G : forall x, In x ds -> x <> 101).
    { intros x Hx. pose proof (proj1 (forallb_forall _ _) Hd x Hx) as H. unfold is_dec_digit, in_range in H. lia. }
    destruct ds as [|d [|d2 more]]; cbn in Hi.
    + destruct Hi as [Hi|[]]; discriminate.
    + destruct Hi as [Hi|[]]. apply (G d); [left; reflexivity|auto].
    + destruct Hi as [Hi|[Hi|Hi]].
      * apply (G d); [left; reflexivity|auto].
      * discriminate.
      * apply (G 101); [right; exact Hi|reflexivity].
Qed.

Lemma all_zero_nonzero : forall ds, nonzero_digits ds = negb (all_zero ds).
Proof.
  induction ds as [|d ds IH]; [reflexivity|].
  cbn [nonzero_digits all_zero existsb forallb]. fold (nonzero_digits ds). fold (all_zero ds). rewrite IH.
  rewrite (N.eqb_sym 48 d). destruct (d =? 48); reflexivity.
Qed.

(* ---- the fixed notation ---- *)

Lemma map_nth_seq : forall (ds : list N) d, map (fun j => nth j ds d) (seq 0 (length ds)) = ds.
Proof.
  induction ds as [|x ds IH]; intros d; [reflexivity|].
  cbn [length seq map nth]. f_equal. rewrite <- seq_shift, map_map. apply IH.
Qed.

Lemma map_nth_skip : forall k (ds : list N) d, (k <= length ds)%nat ->
  map (fun j => nth (k + j) ds d) (seq 0 (length ds - k)) = skipn k ds.
Proof.
  induction k as [|k IH]; intros ds d Hk.
  - rewrite Nat.sub_0_r. cbn [skipn Nat.add]. apply map_nth_seq.
  - destruct ds as [|x ds]; [cbn in Hk; lia|]. cbn [length skipn Nat.sub]. cbn [length] in Hk.
    rewrite <- (IH ds d) by lia. apply map_ext. intros j. reflexivity.
Qed.

Lemma seq_add_map : forall a n, seq a n = map (fun j => (a + j)%nat) (seq 0 n).
Proof.
  induction a as [|a IH]; intros n; [cbn; symmetry; apply map_id|].
  rewrite <- seq_shift, IH, map_map. apply map_ext. intros j. reflexivity.
Qed.

Lemma go_fmt_f_canon : forall neg ds e10, ds <> [] ->
  go_fmt_f neg ds e10 =
  sign_bytes neg ++
  (if (e10 <? 0)%Z then [48; 46] ++ repeat 48 (Z.to_nat (- e10 - 1)) ++ ds
   else let k := Z.to_nat (e10 + 1) in
        if Nat.leb (length ds) k then ds ++ repeat 48 (k - length ds)
        else firstn k ds ++ [46] ++ skipn k ds).
Proof.
  intros neg ds e10 Hne. unfold go_fmt_f. f_equal.
  assert (Hlen : (0 < length ds)%nat) by (destruct ds; [contradiction|cbn; lia]).
  destruct (e10 <? 0)%Z eqn:Hneg.
  - apply Z.ltb_lt in Hneg.
    destruct (0 <? e10 + 1)%Z eqn:Q; [apply Z.ltb_lt in Q; lia|].
    replace (Z.max (Z.of_nat (length ds) - (e10 + 1)) 0) with (Z.of_nat (length ds) - (e10 + 1))%Z by lia.
    destruct (0 <? Z.of_nat (length ds) - (e10 + 1))%Z eqn:Q2; [|apply Z.ltb_ge in Q2; lia].
    cbn [app]. f_equal. f_equal.
    replace (Z.to_nat (Z.of_nat (length ds) - (e10 + 1))) with (Z.to_nat (- e10 - 1) + length ds)%nat by lia.
    rewrite seq_app, map_app. f_equal.
    + set (a := Z.to_nat (- e10 - 1)). 
      assert (G : forall n s, (s + n <= a)%nat ->
                map (fun i : nat => digit_at ds (e10 + 1 + Z.of_nat i)) (seq s n) = repeat 48 n).
      { induction n as [|n IH]; intros s Hs; [reflexivity|]. cbn [seq map repeat]. f_equal.
        - unfold digit_at. destruct (e10 + 1 + Z.of_nat s <? 0)%Z eqn:Q3; [reflexivity|apply Z.ltb_ge in Q3; lia].
        - apply IH. lia. }
      apply G. lia.
    + cbn [Nat.add]. rewrite <- (map_nth_seq ds 48) at 2.
      rewrite (seq_add_map (Z.to_nat (- e10 - 1))). rewrite map_map. apply map_ext. intros j.
      unfold digit_at.
      destruct (e10 + 1 + Z.of_nat (Z.to_nat (- e10 - 1) + j) <? 0)%Z eqn:Q3; [apply Z.ltb_lt in Q3; lia|].
      f_equal. lia.
  - apply Z.ltb_ge in Hneg.
    destruct (0 <? e10 + 1)%Z eqn:Q; [|apply Z.ltb_ge in Q; lia]. cbv zeta.
    destruct (Nat.leb (length ds) (Z.to_nat (e10 + 1))) eqn:L.
    + apply Nat.leb_le in L.
      replace (Z.min (Z.of_nat (length ds)) (e10 + 1)) with (Z.of_nat (length ds)) by lia.
      rewrite Nat2Z.id, firstn_all.
      replace (Z.max (Z.of_nat (length ds) - (e10 + 1)) 0) with 0%Z by lia.
      cbn [Z.ltb Z.compare]. rewrite app_nil_r. f_equal. f_equal. lia.
    + apply Nat.leb_gt in L.
      replace (Z.min (Z.of_nat (length ds)) (e10 + 1)) with (e10 + 1)%Z by lia.
      rewrite Z.sub_diag. cbn [Z.to_nat repeat]. rewrite app_nil_r.
      replace (Z.max (Z.of_nat (length ds) - (e10 + 1)) 0) with (Z.of_nat (length ds) - (e10 + 1))%Z by lia.
      destruct (0 <? Z.of_nat (length ds) - (e10 + 1))%Z eqn:Q2; [|apply Z.ltb_ge in Q2; lia].
      f_equal. cbn [app]. f_equal.
      rewrite <- (map_nth_skip (Z.to_nat (e10 + 1)) ds 48) by lia.
      replace (Z.to_nat (Z.of_nat (length ds) - (e10 + 1))) with (length ds - Z.to_nat (e10 + 1))%nat by lia.
      apply map_ext. intros j. unfold digit_at.
      destruct (e10 + 1 + Z.of_nat j <? 0)%Z eqn:Q3; [apply Z.ltb_lt in Q3; lia|]. f_equal. lia.
Qed.

Theorem format_float_canon_fin : forall neg ds e10, digits_ok ds -> exp_ok e10 ->
  format_float (FFin neg ds e10) = canon_float_fin neg ds e10.
Proof.
  intros neg ds e10 [Hne Hd] He. unfold format_float, canon_float_fin.
  rewrite all_zero_nonzero.
  destruct ((negb (all_zero ds) && (e10 <? -6)%Z) || (21 <=? e10)%Z).
  - fold (replace_chain (go_fmt_e neg ds e10)).
    rewrite go_fmt_e_split, replace_chain_skip by (apply mantissa_no_e; exact Hd).
    rewrite e_suffix_ok by exact He. unfold e_suffix_canon, sign_bytes.
    rewrite <- !app_assoc. reflexivity.
  - rewrite go_fmt_f_canon by exact Hne. reflexivity.
Qed.

Theorem format_float_canon : forall f, fval_ok f -> format_float f = canon_float f.
Proof.
  intros [|[]|neg ds e] H; try reflexivity. destruct H as [H1 H2]. apply format_float_canon_fin; assumption.
Qed.

(* ========================================================================================== *)
(* D. parseNumber and the printer on the scalars, then arrays and tuples *)

Lemma cval_ind2 : forall P : cval -> Prop,
  (forall n, P (CNat n)) -> (forall n, P (CNeg n)) -> (forall n, P (CHex n)) -> (forall n, P (CBin n)) ->
  (forall r up ds, P (CRad r up ds)) -> (forall neg text, P (CFlt neg text)) -> (forall v, P (CStr v)) ->
  (forall l, Forall P l -> P (CArr l)) -> (forall l, Forall P l -> P (CTup l)) ->
  forall t, P t.
Proof.
  intros P H1 H2 H3 H4 HR H5 H6 HA HT. fix IH 1. intros t.
  destruct t as [n|n|n|n|r up ds|neg text|v|l|l];
    [apply H1|apply H2|apply H3|apply H4|apply HR|apply H5|apply H6| | ].
  - apply HA. induction l as [|x l IHl]; constructor; [apply IH|exact IHl].
  - apply HT. induction l as [|x l IHl]; constructor; [apply IH|exact IHl].
Qed.

Lemma join_sjoin : forall sep parts, join sep parts = sjoin sep parts.
Proof.
  intros sep parts. induction parts as [|p [|q ps] IH]; [reflexivity|reflexivity|].
  change (join sep (p :: q :: ps)) with (p ++ sep ++ join sep (q :: ps)).
  change (sjoin sep (p :: q :: ps)) with (p ++ sep ++ sjoin sep (q :: ps)).
  rewrite IH. reflexivity.
Qed.

Section Oracle.
Variable parse_float : list N -> option fval.
Variable int_to_float : N -> fval.
(* what the theorems need from the oracle: its finite answers are digit strings with an exponent in the
   float64 range, and ParseFloat of a decimal integer >= 2^64 is the float nearest to that integer *)
Hypothesis parse_float_ok : forall s f, parse_float s = Some f -> fval_ok f.
Hypothesis int_to_float_ok : forall n, fval_ok (int_to_float n).
Hypothesis nearest_coherent : forall n, two64 <= n -> parse_float (dec n) = Some (int_to_float n).

Notation pn := (parse_number parse_float int_to_float).
Notation canon := (LiteralSpec.canon parse_float int_to_float).
Notation wfb := (LiteralSpec.wfb parse_float).

(* the literal parseNumber builds for an integer with value n, when strconv reads the text as n *)
Definition int_lval (n : N) : lval :=
  if n <? two63 then VInt n else if n <? two64 then VUInt n else VFloat (int_to_float n).

Lemma parse_number_dec : forall n, pn (dec n) = int_lval n.
Proof.
  intros n. unfold parse_number.
  pose proof (dec_all_digits n) as Hd.
  rewrite (no_prefix2 is_dec_digit _ 48 120 Hd eq_refl), (no_prefix2 is_dec_digit _ 48 88 Hd eq_refl),
          (no_prefix2 is_dec_digit _ 48 98 Hd eq_refl), (no_prefix2 is_dec_digit _ 48 66 Hd eq_refl),
          (no_prefix2 is_dec_digit _ 48 111 Hd eq_refl), (no_prefix2 is_dec_digit _ 48 79 Hd eq_refl).
  rewrite (no_byte is_dec_digit _ 46 Hd eq_refl), (no_any is_dec_digit _ [101; 69] Hd eq_refl).
  cbn [orb andb negb]. rewrite parse_int_dec, parse_uint_dec.
  unfold int_result, uint_result, int_lval.
  destruct (n <? two63) eqn:Q1; [reflexivity|].
  destruct (n <=? max_u64) eqn:Q2.
  - destruct (n <? two64) eqn:Q3; [reflexivity|unfold two64, max_u64 in *; lia].
  - destruct (n <? two64) eqn:Q3; [unfold two64, max_u64 in *; lia|].
    rewrite nearest_coherent by (unfold two64, max_u64 in *; lia). reflexivity.
Qed.

Lemma has_prefix_cons2 : forall a b s c d, has_prefix (a :: b :: s) [c; d] = (c =? a) && (d =? b).
Proof. intros. cbn [has_prefix]. destruct s; rewrite andb_true_r; reflexivity. Qed.

Lemma lhex_no_p : forallb (fun c => negb (is_lhex c)) [112; 80] = true. Proof. reflexivity. Qed.

(* every well-formed prefixed spelling: int64, then uint64, then big.Int -> float64 *)
Lemma parse_number_rad : forall r up ds, rad_ok r ds = true ->
  pn (48 :: radix_letter r up :: ds) = int_lval (rad_value r ds 0).
Proof using.
  clear parse_float_ok int_to_float_ok nearest_coherent.
  intros r up ds H.
  pose proof (parse_int_rad r up ds H) as Hi. pose proof (parse_uint_rad r up ds H) as Hu.
  pose proof (big_set_string0_rad r up ds H) as Hb.
  destruct (rad_no_float_chars r up ds H) as [Hp Hd].
  unfold parse_number. rewrite !has_prefix_cons2.
  set (n := rad_value r ds 0) in Hi, Hu, Hb |- *.
  assert (E : (if n <? two63 then VInt n
               else if n <=? max_u64 then VUInt n else VFloat (int_to_float n)) = int_lval n).
  { unfold int_lval. destruct (n <? two63); [reflexivity|].
    destruct (n <=? max_u64) eqn:Q2; destruct (n <? two64) eqn:Q3; try reflexivity;
      unfold two64, max_u64 in Q2, Q3; lia. }
  rewrite <- E. unfold int_result, uint_result in Hi, Hu.
  destruct r, up; cbn [radix_letter N.eqb Pos.eqb orb andb negb] in Hi, Hu, Hb, Hp, Hd |- *; rewrite ?Hp, ?Hd;
    cbn [orb andb negb];
    rewrite Hi, Hu; unfold radix_to_float; rewrite Hb;
    destruct (n <? two63); try reflexivity; destruct (n <=? max_u64); reflexivity.
Qed.

Lemma parse_number_hex : forall n, pn ([48; 120] ++ hex n) = int_lval n.
Proof using.
  intros n. destruct (hex_rad n) as [H1 H2]. rewrite <- H2 at 2. exact (parse_number_rad RHex false (hex n) H1).
Qed.

Lemma parse_number_bin : forall n, pn ([48; 98] ++ bin n) = int_lval n.
Proof using.
  intros n. destruct (bin_rad n) as [H1 H2]. rewrite <- H2 at 2. exact (parse_number_rad RBin false (bin n) H1).
Qed.

Lemma parse_number_oct : forall n, pn ([48; 111] ++ oct n) = int_lval n.
Proof using.
  intros n. destruct (oct_rad n) as [H1 H2]. rewrite <- H2 at 2. exact (parse_number_rad ROct false (oct n) H1).
Qed.

Lemma parse_number_float : forall text, float_text parse_float text = true ->
  exists f, parse_float text = Some f /\ pn text = VFloat f /\ fval_ok f.
Proof.
  intros text H. unfold float_text in H. apply andb_prop in H. destruct H as [H Hp].
  apply andb_prop in H. destruct H as [Hpre Hdot].
  destruct (parse_float text) as [f|] eqn:E; [|discriminate].
  exists f. split; [reflexivity|]. split; [|eapply parse_float_ok; exact E].
  unfold parse_number.
  apply negb_true_iff in Hpre. repeat (apply orb_false_iff in Hpre; destruct Hpre as [Hpre ?]).
  repeat match goal with H : has_prefix _ _ = false |- _ => rewrite H; clear H end.
  cbn [orb andb negb]. rewrite Hdot. cbn [orb]. rewrite E. reflexivity.
Qed.

Lemma int_lval_numeric : forall n, is_numeric (int_lval n) = true.
Proof. intros n. unfold int_lval. destruct (n <? two63); [reflexivity|]. destruct (n <? two64); reflexivity. Qed.

(* FormatLiteral of an integer literal with value n *)
Lemma format_int_lval : forall n,
  format_literal int_to_float (int_lval n) =
  if n <? p64 then s_UInt64 ++ dec n else s_Float64 ++ canon_float (int_to_float n).
Proof.
  intros n. unfold int_lval. change p64 with two64.
  destruct (n <? two63) eqn:Q1.
  - destruct (n <? two64) eqn:Q2; [reflexivity|unfold two63, two64 in *; lia].
  - destruct (n <? two64) eqn:Q2; [reflexivity|].
    cbn [format_literal]. rewrite format_float_canon by apply int_to_float_ok. reflexivity.
Qed.

Lemma explain_int_lval : forall n,
  explain_literal int_to_float (int_lval n) =
  OLit (if n <? p64 then s_UInt64 ++ dec n else s_Float64 ++ canon_float (int_to_float n)).
Proof.
  intros n. pose proof (format_int_lval n) as Hf. unfold int_lval in *.
  destruct (n <? two63); [cbn [explain_literal]; rewrite Hf; reflexivity|].
  destruct (n <? two64); cbn [explain_literal]; rewrite Hf; reflexivity.
Qed.

Lemma int_lval_simple : forall n, match int_lval n with VArr _ | VTup _ => false | _ => true end = true.
Proof. intros n. unfold int_lval. destruct (n <? two63); [reflexivity|]. destruct (n <? two64); reflexivity. Qed.

(* the canonical text of -n *)
Definition canon_neg (n : N) : list N :=
  if n =? 0 then s_UInt64 ++ dec 0
  else if n <=? p63 then s_Int64 ++ [45] ++ dec n
  else s_Float64 ++ canon_float (fneg (int_to_float n)).

Lemma explain_negated_int : forall n, explain_negated parse_float int_to_float (int_lval n) = OLit (canon_neg n).
Proof.
  intros n. unfold int_lval, canon_neg. change p63 with two63.
  destruct (n <? two63) eqn:Q1.
  - cbn [explain_negated]. destruct (n =? 0); [reflexivity|].
    destruct (n <=? two63) eqn:Q2; [reflexivity|unfold two63 in *; lia].
  - destruct (n <? two64) eqn:Q2.
    + cbn [explain_negated]. destruct (n =? 0) eqn:Q0; [apply N.eqb_eq in Q0; unfold two63 in *; lia|].
      destruct (n <=? two63); [reflexivity|].
      rewrite format_float_canon by (apply fneg_ok, int_to_float_ok). reflexivity.
    + cbn [explain_negated]. destruct (n =? 0) eqn:Q0; [apply N.eqb_eq in Q0; unfold two63 in *; lia|].
      destruct (n <=? two63) eqn:Q3; [unfold two63, two64 in *; lia|].
      rewrite format_float_canon by (apply fneg_ok, int_to_float_ok). reflexivity.
Qed.

(* inside arrays and tuples: the same text as at the top level, for every n *)
Lemma nested_neg_int : forall n,
  array_neg_elem int_to_float (int_lval n) = canon_neg n /\ tuple_neg_elem int_to_float (int_lval n) = canon_neg n.
Proof.
  intros n. unfold int_lval, canon_neg. change p63 with two63 in *.
  destruct (n <? two63) eqn:Q1.
  - cbn [array_neg_elem tuple_neg_elem]. destruct (n =? 0); [split; reflexivity|].
    destruct (n <=? two63) eqn:Q2; [split; reflexivity|unfold two63 in *; lia].
  - destruct (n <? two64) eqn:Q2.
    + cbn [array_neg_elem tuple_neg_elem].
      destruct (n =? 0) eqn:Q0; [apply N.eqb_eq in Q0; unfold two63 in *; lia|].
      destruct (n <=? two63); [split; reflexivity|].
      rewrite format_float_canon by (apply fneg_ok, int_to_float_ok). split; reflexivity.
    + cbn [array_neg_elem tuple_neg_elem].
      destruct (n =? 0) eqn:Q0; [apply N.eqb_eq in Q0; unfold two63 in *; lia|].
      destruct (n <=? two63) eqn:Q3; [unfold two63, two64 in *; lia|].
      rewrite format_float_canon by (apply fneg_ok, int_to_float_ok). split; reflexivity.
Qed.

(* ---- the AST the parser is expected to build ---- *)
Fixpoint ast (t : cval) : lexpr :=
  match t with
  | CNat n => ELit (pn (dec n))
  | CNeg n => ENeg (pn (dec n))
  | CHex n => ELit (pn ([48; 120] ++ hex n))
  | CBin n => ELit (pn ([48; 98] ++ bin n))
  | CRad r up ds => ELit (pn ([48; radix_letter r up] ++ ds))
  | CFlt neg text => if neg then ENeg (pn text) else ELit (pn text)
  | CStr v => ELit (VStr v false)
  | CArr l => ELit (VArr (map ast l))
  | CTup l => ELit (VTup (map ast l))
  end.

Definition is_scalar (t : cval) : bool := match t with CArr _ | CTup _ => false | _ => true end.

(* a scalar at the top level *)
Lemma scalar_top : forall t, scalar_ok parse_float t = true ->
  explain_top parse_float int_to_float (ast t) = OLit (canon t).
Proof.
  intros t H. destruct t as [n|n|n|n|r up ds|neg text|v|l|l]; cbn [scalar_ok] in H; try discriminate.
  - cbn [ast explain_top LiteralSpec.canon]. rewrite parse_number_dec. apply explain_int_lval.
  - cbn [ast explain_top LiteralSpec.canon]. rewrite parse_number_dec, explain_negated_int. reflexivity.
  - cbn [ast explain_top LiteralSpec.canon]. rewrite parse_number_hex. apply explain_int_lval.
  - cbn [ast explain_top LiteralSpec.canon]. rewrite parse_number_bin. apply explain_int_lval.
  - cbn [ast explain_top LiteralSpec.canon app]. rewrite parse_number_rad by exact H. apply explain_int_lval.
  - destruct (parse_number_float text H) as (f & Ep & En & Hok).
    cbn [ast LiteralSpec.canon]. unfold float_of_text. rewrite Ep.
    destruct neg; cbn [explain_top explain_literal explain_negated]; rewrite En.
    + cbn [explain_negated]. rewrite format_float_canon by (apply fneg_ok; exact Hok). reflexivity.
    + cbn [explain_literal format_literal]. rewrite format_float_canon by exact Hok. reflexivity.
  - cbn [ast explain_top explain_literal format_literal LiteralSpec.canon]. rewrite format_string_canon. reflexivity.
Qed.

(* a scalar as an element of an array / a tuple *)
Definition elem_simple (e : lexpr) : bool :=
  match e with
  | ELit v => match v with VArr _ | VTup _ => false | _ => true end
  | ENeg v => is_numeric v
  end.

Lemma scalar_elem : forall t, scalar_ok parse_float t = true ->
  elem_simple (ast t) = true /\ format_array_elem int_to_float (ast t) = canon t /\
  format_tuple_elem int_to_float (ast t) = canon t.
Proof.
  intros t H. destruct t as [n|n|n|n|r up ds|neg text|v|l|l]; cbn [scalar_ok] in H; try discriminate.
  - cbn [ast format_array_elem format_tuple_elem LiteralSpec.canon elem_simple]. rewrite parse_number_dec.
    pose proof (format_int_lval n) as Hf. split; [|split; exact Hf].
    unfold int_lval. destruct (n <? two63); [reflexivity|]. destruct (n <? two64); reflexivity.
  - cbn [ast format_array_elem format_tuple_elem LiteralSpec.canon elem_simple].
    rewrite parse_number_dec. destruct (nested_neg_int n) as [Ha Ht].
    split; [apply int_lval_numeric|]. split; [exact Ha|exact Ht].
  - cbn [ast format_array_elem format_tuple_elem LiteralSpec.canon elem_simple]. rewrite parse_number_hex.
    pose proof (format_int_lval n) as Hf. split; [|split; exact Hf].
    unfold int_lval. destruct (n <? two63); [reflexivity|]. destruct (n <? two64); reflexivity.
  - cbn [ast format_array_elem format_tuple_elem LiteralSpec.canon elem_simple].
    rewrite parse_number_bin.
    pose proof (format_int_lval n) as Hf. split; [|split; exact Hf].
    unfold int_lval. destruct (n <? two63); [reflexivity|]. destruct (n <? two64); reflexivity.
  - cbn [ast format_array_elem format_tuple_elem LiteralSpec.canon elem_simple app].
    rewrite parse_number_rad by exact H.
    pose proof (format_int_lval (rad_value r ds 0)) as Hf. split; [|split; exact Hf].
    apply int_lval_simple.
  - destruct (parse_number_float text H) as (f & Ep & En & Hok).
    cbn [ast LiteralSpec.canon]. unfold float_of_text. rewrite Ep.
    destruct neg; cbn [format_array_elem format_tuple_elem elem_simple]; rewrite En.
    + cbn [array_neg_elem tuple_neg_elem is_numeric]. rewrite format_float_canon by (apply fneg_ok; exact Hok). auto.
    + cbn [format_literal]. rewrite format_float_canon by exact Hok. auto.
  - cbn [ast format_array_elem format_tuple_elem format_literal LiteralSpec.canon elem_simple].
    rewrite format_string_canon. auto.
Qed.

Lemma scalar_is_scalar : forall t, scalar_ok parse_float t = true -> is_scalar t = true.
Proof. intros t H. destruct t; cbn in *; try reflexivity; discriminate. Qed.

(* consequences of elem_simple for the decision functions *)
Lemma simple_facts : forall e, elem_simple e = true ->
  is_arr e = false /\ is_tup e = false /\ is_empty_arr e = false /\ empty_rec_e e = false /\
  tuples_rec_e e = false /\ tuple_elem_complex e = false /\ only_prim_e e = true /\
  (match e with ELit (VTup _) => true | ELit _ => false | ENeg v => negb (is_numeric v) end) = false /\
  nonlit_e e = false /\ nonlit_rec_e e = false.
Proof.
  intros [v|v] H; cbn [elem_simple] in H.
  - destruct v; try discriminate; cbn; repeat split; reflexivity.
  - cbn. rewrite H. repeat split; reflexivity.
Qed.

(* ---- arrays ---- *)
Definition aelem (x : cval) : bool := if is_carr x then arr_ok parse_float x else scalar_ok parse_float x.

Record arr_facts (x : cval) : Prop := {
  af_tup : is_tup (ast x) = false;
  af_empty : is_empty_arr (ast x) = false;
  af_empty_rec : empty_rec_e (ast x) = false;
  af_tuples_rec : tuples_rec_e (ast x) = false;
  af_should : (match ast x with ELit (VTup _) => true | ELit _ => false | ENeg v => negb (is_numeric v) end) = false;
  af_need : (match ast x with
             | ELit (VArr inner) =>
                 existsb nonlit_e inner || Nat.eqb (length inner) 0 || existsb is_tup inner || existsb is_empty_arr inner
             | _ => false
             end) = false;
  af_nonlit : nonlit_e (ast x) = false;
  af_nonlit_rec : nonlit_rec_e (ast x) = false;
  af_format : format_array_elem int_to_float (ast x) = canon x
}.

Lemma existsb_false : forall {A} (f : A -> bool) l, (forall x, In x l -> f x = false) -> existsb f l = false.
Proof.
  intros A f l H. induction l as [|x l IH]; [reflexivity|]. cbn [existsb].
  rewrite (H x (or_introl eq_refl)). apply IH. intros y Hy. apply H. right. exact Hy.
Qed.

Lemma map_canon : forall (f : lexpr -> list N) l, (forall x, In x l -> f (ast x) = canon x) ->
  map f (map ast l) = map canon l.
Proof.
  intros f l H. rewrite map_map. apply map_ext_in. exact H.
Qed.

Lemma arr_elem_facts : forall x, aelem x = true -> arr_facts x.
Proof.
  induction x as [n|n|n|n|r up ds|neg text|v|l IH|l IH] using cval_ind2; intros H; unfold aelem in H; cbn [is_carr] in H;
    try (destruct (scalar_elem _ H) as (Hs & Hfa & _);
         destruct (simple_facts _ Hs) as (F1 & F2 & F3 & F4 & F5 & F6 & F7 & F8 & F9 & F10);
         constructor; try assumption;
         match goal with |- (match ?e with _ => _ end) = false => destruct e as [[]|]; try reflexivity; discriminate end).
  - (* CArr l *)
    cbn [arr_ok] in H. apply andb_prop in H. destruct H as [Hlen Hall].
    assert (Hel : forall y, In y l -> arr_facts y).
    { intros y Hy. rewrite Forall_forall in IH. apply IH; [exact Hy|].
      exact (proj1 (forallb_forall _ _) Hall y Hy). }
    assert (Hlen' : Nat.eqb (length (map ast l)) 0 = false).
    { rewrite map_length. apply negb_true_iff. exact Hlen. }
    assert (Hin : forall (g : lexpr -> bool), (forall y, In y l -> g (ast y) = false) -> existsb g (map ast l) = false).
    { intros g Hg. apply existsb_false. intros e He. apply in_map_iff in He. destruct He as (y & <- & Hy). apply Hg. exact Hy. }
    constructor; cbn [ast].
    + reflexivity.
    + cbn [is_empty_arr]. destruct (map ast l) eqn:E; [cbn in Hlen'; discriminate|reflexivity].
    + cbn [empty_rec_e empty_rec_v]. rewrite Hlen'. cbn [orb]. apply Hin. intros y Hy. apply (af_empty_rec y (Hel y Hy)).
    + cbn [tuples_rec_e tuples_rec_v]. apply Hin. intros y Hy. apply (af_tuples_rec y (Hel y Hy)).
    + reflexivity.
    + rewrite Hlen'.
      rewrite (Hin nonlit_e) by (intros y Hy; apply (af_nonlit y (Hel y Hy))). cbn [orb].
      rewrite (Hin is_tup) by (intros y Hy; apply (af_tup y (Hel y Hy))).
      rewrite (Hin is_empty_arr) by (intros y Hy; apply (af_empty y (Hel y Hy))). reflexivity.
    + reflexivity.
    + cbn [nonlit_rec_e nonlit_rec_v]. apply Hin. intros y Hy. apply (af_nonlit_rec y (Hel y Hy)).
    + cbn [format_array_elem format_literal LiteralSpec.canon].
      rewrite map_canon by (intros y Hy; apply (af_format y (Hel y Hy))).
      rewrite join_sjoin. reflexivity.
Qed.

Lemma array_top : forall l, arr_ok parse_float (CArr l) = true ->
  explain_top parse_float int_to_float (ast (CArr l)) = OLit (canon (CArr l)).
Proof.
  intros l H. pose proof (arr_elem_facts (CArr l) H) as F.
  cbn [arr_ok] in H. apply andb_prop in H. destruct H as [Hlen Hall].
  assert (Hel : forall y, In y l -> arr_facts y).
  { intros y Hy. apply arr_elem_facts. exact (proj1 (forallb_forall _ _) Hall y Hy). }
  assert (Hin : forall (g : lexpr -> bool), (forall y, In y l -> g (ast y) = false) -> existsb g (map ast l) = false).
  { intros g Hg. apply existsb_false. intros e He. apply in_map_iff in He. destruct He as (y & <- & Hy). apply Hg. exact Hy. }
  cbn [ast explain_top explain_literal].
  assert (Hf : array_is_function (map ast l) = false).
  { unfold array_is_function.
    rewrite map_length. apply negb_true_iff in Hlen. rewrite Hlen. cbn [orb].
    rewrite (Hin _ (fun y Hy => af_should y (Hel y Hy))). cbn [orb].
    rewrite (Hin _ (fun y Hy => af_need y (Hel y Hy))). rewrite andb_false_r. cbn [orb].
    unfold empty_arrays_rec, tuples_rec, nonlit_rec.
    rewrite (Hin _ (fun y Hy => af_empty_rec y (Hel y Hy))), (Hin _ (fun y Hy => af_tuples_rec y (Hel y Hy))),
            (Hin _ (fun y Hy => af_nonlit_rec y (Hel y Hy))).
    rewrite !andb_false_r. reflexivity. }
  rewrite Hf. f_equal. exact (af_format _ F).
Qed.

(* ---- tuples ---- *)
Definition telem (x : cval) : bool := if is_ctup x then tup_ok parse_float x else scalar_ok parse_float x.

Record tup_facts (x : cval) : Prop := {
  tf_complex : tuple_elem_complex (ast x) = false;
  tf_prim : only_prim_e (ast x) = true;
  tf_format : format_tuple_elem int_to_float (ast x) = canon x
}.

Lemma forallb_true : forall {A} (f : A -> bool) l, (forall x, In x l -> f x = true) -> forallb f l = true.
Proof. intros A f l H. apply forallb_forall. exact H. Qed.

Lemma tup_elem_facts : forall x, telem x = true -> tup_facts x.
Proof.
  induction x as [n|n|n|n|r up ds|neg text|v|l IH|l IH] using cval_ind2; intros H; unfold telem in H; cbn [is_ctup] in H;
    try (destruct (scalar_elem _ H) as (Hs & _ & Hft); destruct (simple_facts _ Hs) as (F1 & F2 & F3 & F4 & F5 & F6 & F7 & F8 & _);
         constructor; assumption).
  - cbn [tup_ok] in H. apply andb_prop in H. destruct H as [Hlen Hall].
    assert (Hel : forall y, In y l -> tup_facts y).
    { intros y Hy. rewrite Forall_forall in IH. apply IH; [exact Hy|].
      exact (proj1 (forallb_forall _ _) Hall y Hy). }
    assert (Hprim : forallb only_prim_e (map ast l) = true).
    { apply forallb_true. intros e He. apply in_map_iff in He. destruct He as (y & <- & Hy). apply (tf_prim y (Hel y Hy)). }
    constructor; cbn [ast].
    + cbn [tuple_elem_complex]. unfold only_prim. rewrite Hprim. reflexivity.
    + cbn [only_prim_e only_prim_v]. exact Hprim.
    + cbn [format_tuple_elem format_literal LiteralSpec.canon].
      rewrite map_canon by (intros y Hy; apply (tf_format y (Hel y Hy))).
      rewrite join_sjoin. reflexivity.
Qed.

Lemma tuple_top : forall l, tup_ok parse_float (CTup l) = true ->
  explain_top parse_float int_to_float (ast (CTup l)) = OLit (canon (CTup l)).
Proof.
  intros l H. pose proof (tup_elem_facts (CTup l) H) as F.
  cbn [tup_ok] in H. apply andb_prop in H. destruct H as [Hlen Hall].
  assert (Hel : forall y, In y l -> tup_facts y).
  { intros y Hy. apply tup_elem_facts. exact (proj1 (forallb_forall _ _) Hall y Hy). }
  cbn [ast explain_top explain_literal].
  assert (Hf : tuple_is_function (map ast l) = false).
  { unfold tuple_is_function. rewrite map_length. apply Nat.leb_le in Hlen.
    destruct (length l) as [|[|k]] eqn:E; [lia|lia|]. cbn [Nat.eqb orb].
    apply existsb_false. intros e He. apply in_map_iff in He. destruct He as (y & <- & Hy). apply (tf_complex y (Hel y Hy)). }
  rewrite Hf. f_equal. exact (tf_format _ F).
Qed.

(* the printer on every well-formed literal tree *)
Theorem explain_ast_canon : forall t, wfb t = true ->
  explain_top parse_float int_to_float (ast t) = OLit (canon t).
Proof.
  intros t H. destruct t as [n|n|n|n|r up ds|neg text|v|l|l]; unfold LiteralSpec.wfb in H;
    try (apply scalar_top; exact H).
  - apply array_top. exact H.
  - apply tuple_top. exact H.
Qed.

(* ========================================================================================== *)
(* E. the token parser on the tokens of a literal tree *)

Fixpoint shaped (t : cval) : bool :=
  match t with
  | CArr l => negb (Nat.eqb (length l) 0) && forallb shaped l
  | CTup l => Nat.leb 2 (length l) && forallb shaped l
  | _ => true
  end.

Lemma wfb_shaped : forall t, wfb t = true -> shaped t = true.
Proof.
  induction t as [n|n|n|n|r up ds|neg text|v|l IH|l IH] using cval_ind2; intros H; try reflexivity.
  - unfold LiteralSpec.wfb in H. cbn [arr_ok] in H. apply andb_prop in H. destruct H as [Hlen Hall].
    cbn [shaped]. rewrite Hlen. cbn [andb]. apply forallb_true. intros y Hy.
    rewrite Forall_forall in IH. pose proof (proj1 (forallb_forall _ _) Hall y Hy) as Hy'.
    destruct y; cbn [is_carr] in Hy'; try reflexivity; [apply IH; [exact Hy|exact Hy']|cbn in Hy'; discriminate].
  - unfold LiteralSpec.wfb in H. cbn [tup_ok] in H. apply andb_prop in H. destruct H as [Hlen Hall].
    cbn [shaped]. rewrite Hlen. cbn [andb]. apply forallb_true. intros y Hy.
    rewrite Forall_forall in IH. pose proof (proj1 (forallb_forall _ _) Hall y Hy) as Hy'.
    destruct y; cbn [is_ctup] in Hy'; try reflexivity; [cbn in Hy'; discriminate|apply IH; [exact Hy|exact Hy']].
Qed.

Definition tl_toks (l : list cval) : list tk := flat_map (fun y => tk_comma :: toks y) l.

Lemma sjoin_toks : forall x xs, sjoin [tk_comma] (map toks (x :: xs)) = toks x ++ tl_toks xs.
Proof.
  intros x xs. revert x. induction xs as [|y ys IH]; intros x.
  - cbn. rewrite app_nil_r. reflexivity.
  - change (sjoin [tk_comma] (map toks (x :: y :: ys))) with (toks x ++ [tk_comma] ++ sjoin [tk_comma] (map toks (y :: ys))).
    rewrite IH. reflexivity.
Qed.

(* the first token of a literal starts a literal *)
Definition starts_lit (k : N) : Prop :=
  k = T_NUMBER \/ k = T_MINUS \/ k = T_STRING \/ k = T_LBRACKET \/ k = T_LPAREN.

Lemma toks_head : forall t, exists hd tl, toks t = hd :: tl /\ starts_lit (fst hd).
Proof.
  intros t. unfold starts_lit. destruct t as [n|n|n|n|r up ds|neg text|v|l|l]; cbn [toks app]; try (eexists; eexists; split; [reflexivity|cbn; tauto]).
  destruct neg; cbn [app]; eexists; eexists; split; try reflexivity; cbn; tauto.
Qed.

Lemma starts_lit_tests : forall k, starts_lit k ->
  (k =? T_RBRACKET) = false /\ (k =? T_RPAREN) = false /\ (k =? T_COMMA) = false /\
  (k =? T_SELECT) = false /\ (k =? T_WITH) = false /\ (k =? T_EXPLAIN) = false.
Proof. intros k [->|[->|[->|[->| ->]]]]; repeat split; reflexivity. Qed.

(* one step of parse_lit per kind of first token *)
Lemma parse_lit_number : forall f v rest,
  parse_lit parse_float int_to_float (S f) ((T_NUMBER, v) :: rest) = with_follow (ELit (pn v)) rest.
Proof. reflexivity. Qed.
Lemma parse_lit_string : forall f v rest,
  parse_lit parse_float int_to_float (S f) ((T_STRING, v) :: rest) = with_follow (ELit (VStr v false)) rest.
Proof. reflexivity. Qed.
Lemma parse_lit_minus_number : forall f a v rest,
  parse_lit parse_float int_to_float (S f) ((T_MINUS, a) :: (T_NUMBER, v) :: rest) =
  if peek_tok rest T_COLONCOLON then LOutOfFragment LoofMinusCast else with_follow (ENeg (pn v)) rest.
Proof. reflexivity. Qed.

Lemma parse_lit_lbracket : forall f a hd tl, (fst hd =? T_RBRACKET) = false ->
  parse_lit parse_float int_to_float (S f) ((T_LBRACKET, a) :: hd :: tl) =
  lbind (parse_lit parse_float int_to_float f (hd :: tl)) (fun '(e, ts1) =>
  lbind (parse_elems parse_float int_to_float f T_RBRACKET [e] ts1) (fun '(es, ts2) =>
  with_follow (ELit (VArr es)) ts2)).
Proof. intros f a hd tl H. cbn [parse_lit fst]. change (T_LBRACKET =? T_NUMBER) with false.
  change (T_LBRACKET =? T_STRING) with false. change (T_LBRACKET =? T_MINUS) with false.
  change (T_LBRACKET =? T_LBRACKET) with true. cbv iota. rewrite H. reflexivity. Qed.

Lemma parse_lit_lparen : forall f a hd tl, starts_lit (fst hd) ->
  parse_lit parse_float int_to_float (S f) ((T_LPAREN, a) :: hd :: tl) =
  lbind (parse_lit parse_float int_to_float f (hd :: tl)) (fun '(e, ts1) =>
    if peek_tok ts1 T_COMMA then
      lbind (parse_elems parse_float int_to_float f T_RPAREN [e] ts1) (fun '(es, ts2) =>
      with_follow (ELit (VTup es)) ts2)
    else if peek_tok ts1 T_RPAREN then LOutOfFragment LoofParen
    else LOutOfFragment LoofSyntax).
Proof.
  intros f a hd tl H. destruct (starts_lit_tests _ H) as (_ & H2 & _ & H4 & H5 & H6).
  cbn [parse_lit fst]. change (T_LPAREN =? T_NUMBER) with false.
  change (T_LPAREN =? T_STRING) with false. change (T_LPAREN =? T_MINUS) with false.
  change (T_LPAREN =? T_LBRACKET) with false. change (T_LPAREN =? T_LPAREN) with true. cbv iota.
  rewrite H2, H4, H5, H6. reflexivity.
Qed.

Lemma parse_elems_comma : forall f close acc a rest, peek_tok rest close = false ->
  parse_elems parse_float int_to_float (S f) close acc ((T_COMMA, a) :: rest) =
  lbind (parse_lit parse_float int_to_float f rest)
        (fun '(e, ts1) => parse_elems parse_float int_to_float f close (e :: acc) ts1).
Proof.
  intros f close acc a rest H.
  transitivity (if peek_tok rest close then LOk (rev acc, List.tl rest)
                else lbind (parse_lit parse_float int_to_float f rest)
                       (fun '(e, ts1) => parse_elems parse_float int_to_float f close (e :: acc) ts1));
    [reflexivity|rewrite H; reflexivity].
Qed.

Lemma follow_tok_peek : forall rest, follow_tok rest = true -> peek_tok rest T_COLONCOLON = false.
Proof.
  intros [|x rest] H; [reflexivity|]. cbn [follow_tok peek_tok] in *.
  destruct (fst x =? T_COMMA) eqn:Q1; [apply N.eqb_eq in Q1; rewrite Q1; reflexivity|].
  destruct (fst x =? T_RBRACKET) eqn:Q2; [apply N.eqb_eq in Q2; rewrite Q2; reflexivity|].
  destruct (fst x =? T_RPAREN) eqn:Q3; [apply N.eqb_eq in Q3; rewrite Q3; reflexivity|discriminate].
Qed.

Definition parses (t : cval) : Prop :=
  shaped t = true -> forall fuel rest, follow_tok rest = true -> (length (toks t) < fuel)%nat ->
  parse_lit parse_float int_to_float fuel (toks t ++ rest) = LOk (ast t, rest).

Lemma tl_toks_follow : forall l close cv rest, close = T_RBRACKET \/ close = T_RPAREN ->
  follow_tok (tl_toks l ++ (close, cv) :: rest) = true.
Proof. intros [|y l] close cv rest [-> | ->]; reflexivity. Qed.

Lemma parse_elems_ok : forall l, Forall parses l -> forallb shaped l = true ->
  forall close cv, close = T_RBRACKET \/ close = T_RPAREN ->
  forall fuel acc rest, (length (tl_toks l) < fuel)%nat ->
  parse_elems parse_float int_to_float fuel close acc (tl_toks l ++ (close, cv) :: rest) =
  LOk (rev acc ++ map ast l, rest).
Proof.
  induction l as [|y l IH]; intros HP Hs close cv Hc fuel acc rest Hf.
  - destruct fuel as [|f]; [cbn in Hf; lia|]. cbn [tl_toks flat_map app map]. rewrite app_nil_r.
    destruct Hc as [-> | ->]; reflexivity.
  - inversion HP as [|? ? Hy Hl]; subst. cbn [forallb] in Hs. apply andb_prop in Hs. destruct Hs as [Hsy Hsl].
    assert (Hlen : length (tl_toks (y :: l)) = S (length (toks y) + length (tl_toks l))).
    { unfold tl_toks. cbn [flat_map app length]. rewrite app_length. reflexivity. }
    destruct fuel as [|f]; [lia|].
    cbn [tl_toks flat_map]. fold (tl_toks l). cbn [app]. rewrite <- app_assoc.
    destruct (toks_head y) as (hd & tl & Eh & Hst). destruct (starts_lit_tests _ Hst) as (H1 & H2 & _).
    assert (Hpk : peek_tok (toks y ++ tl_toks l ++ (close, cv) :: rest) close = false).
    { rewrite Eh. cbn [app peek_tok]. destruct Hc as [-> | ->]; assumption. }
    unfold tk_comma at 1. rewrite parse_elems_comma by exact Hpk.
    rewrite (Hy Hsy f (tl_toks l ++ (close, cv) :: rest)); [|apply tl_toks_follow; exact Hc|lia].
    cbn [lbind]. rewrite (IH Hl Hsl close cv Hc f (ast y :: acc) rest) by lia.
    cbn [rev map]. rewrite <- app_assoc. reflexivity.
Qed.

Lemma parse_toks : forall t, parses t.
Proof.
  induction t as [n|n|n|n|r up ds|neg text|v|l IH|l IH] using cval_ind2; intros Hs fuel rest Hfo Hf;
    (destruct fuel as [|f]; [cbn in Hf; lia|]).
  - cbn [toks app ast]. rewrite parse_lit_number. unfold with_follow. rewrite Hfo. reflexivity.
  - cbn [toks app ast]. rewrite parse_lit_minus_number, (follow_tok_peek rest Hfo). unfold with_follow. rewrite Hfo. reflexivity.
  - cbn [toks ast]. cbn [app]. rewrite parse_lit_number. unfold with_follow. rewrite Hfo. reflexivity.
  - cbn [toks ast]. cbn [app]. rewrite parse_lit_number. unfold with_follow. rewrite Hfo. reflexivity.
  - cbn [toks ast]. cbn [app]. rewrite parse_lit_number. unfold with_follow. rewrite Hfo. reflexivity.
  - cbn [toks ast]. destruct neg; cbn [app].
    + rewrite parse_lit_minus_number, (follow_tok_peek rest Hfo). unfold with_follow. rewrite Hfo. reflexivity.
    + rewrite parse_lit_number. unfold with_follow. rewrite Hfo. reflexivity.
  - cbn [toks app ast]. rewrite parse_lit_string. unfold with_follow. rewrite Hfo. reflexivity.
  - (* arrays *)
    cbn [shaped] in Hs. apply andb_prop in Hs. destruct Hs as [Hlen Hsl].
    destruct l as [|x xs]; [cbn in Hlen; discriminate|].
    inversion IH as [|? ? Hx Hxs]; subst. cbn [forallb] in Hsl. apply andb_prop in Hsl. destruct Hsl as [Hsx Hsxs].
    cbn [toks ast] in *. rewrite sjoin_toks in *. cbn [app] in *. rewrite <- !app_assoc. cbn [app].
    cbn [length] in Hf. rewrite !app_length in Hf. cbn [length] in Hf.
    destruct (toks_head x) as (hd & tl & Eh & Hst). destruct (starts_lit_tests _ Hst) as (H1 & _).
    rewrite Eh. cbn [app]. rewrite parse_lit_lbracket by exact H1.
    change (hd :: tl ++ tl_toks xs ++ (T_RBRACKET, [93]) :: rest) with ((hd :: tl) ++ tl_toks xs ++ (T_RBRACKET, [93]) :: rest).
    rewrite <- Eh.
    rewrite (Hx Hsx f (tl_toks xs ++ (T_RBRACKET, [93]) :: rest)); [|apply tl_toks_follow; left; reflexivity|lia].
    cbn [lbind].
    rewrite (parse_elems_ok xs Hxs Hsxs T_RBRACKET [93] (or_introl eq_refl) f [ast x] rest) by lia.
    cbn [lbind rev app map]. unfold with_follow. rewrite Hfo. reflexivity.
  - (* tuples *)
    cbn [shaped] in Hs. apply andb_prop in Hs. destruct Hs as [Hlen Hsl].
    destruct l as [|x [|x2 xs]]; [cbn in Hlen; discriminate|cbn in Hlen; discriminate|].
    inversion IH as [|? ? Hx Hxs]; subst. cbn [forallb] in Hsl. apply andb_prop in Hsl. destruct Hsl as [Hsx Hsxs].
    cbn [toks ast] in *. rewrite sjoin_toks in *. cbn [app] in *. rewrite <- !app_assoc. cbn [app].
    cbn [length] in Hf. rewrite !app_length in Hf. cbn [length] in Hf.
    destruct (toks_head x) as (hd & tl & Eh & Hst).
    rewrite Eh. cbn [app]. rewrite parse_lit_lparen by exact Hst.
    change (hd :: tl ++ tl_toks (x2 :: xs) ++ (T_RPAREN, [41]) :: rest) with ((hd :: tl) ++ tl_toks (x2 :: xs) ++ (T_RPAREN, [41]) :: rest).
    rewrite <- Eh.
    rewrite (Hx Hsx f (tl_toks (x2 :: xs) ++ (T_RPAREN, [41]) :: rest)); [|apply tl_toks_follow; right; reflexivity|lia].
    cbn [lbind].
    assert (Hpk : peek_tok (tl_toks (x2 :: xs) ++ (T_RPAREN, [41]) :: rest) T_COMMA = true) by reflexivity.
    rewrite Hpk.
    rewrite (parse_elems_ok (x2 :: xs) Hxs Hsxs T_RPAREN [41] (or_intror eq_refl) f [ast x] rest) by lia.
    cbn [lbind rev app map]. unfold with_follow. rewrite Hfo. reflexivity.
Qed.

(* no LINE_COMMENT among the tokens of a tree *)
Definition plain_tok (x : tk) : Prop := fst x <> T_LINE_COMMENT.

Lemma toks_plain : forall t, Forall plain_tok (toks t).
Proof.
  assert (J : forall l, Forall (fun t => Forall plain_tok (toks t)) l -> Forall plain_tok (sjoin [tk_comma] (map toks l))).
  { induction l as [|x [|y ys] IH]; intros H; [constructor|inversion H; assumption|].
    inversion H as [|? ? Hx Hr]; subst.
    change (sjoin [tk_comma] (map toks (x :: y :: ys))) with (toks x ++ [tk_comma] ++ sjoin [tk_comma] (map toks (y :: ys))).
    apply Forall_app. split; [exact Hx|]. apply Forall_app. split; [constructor; [discriminate|constructor]|apply IH; exact Hr]. }
  induction t as [n|n|n|n|r up ds|neg text|v|l IH|l IH] using cval_ind2; cbn [toks];
    try (repeat constructor; discriminate).
  - destruct neg; repeat constructor; discriminate.
  - apply Forall_app. split; [repeat constructor; discriminate|]. apply Forall_app. split; [apply J; exact IH|repeat constructor; discriminate].
  - apply Forall_app. split; [repeat constructor; discriminate|]. apply Forall_app. split; [apply J; exact IH|repeat constructor; discriminate].
Qed.

(* MAIN (token level): every well-formed literal tree — any nesting depth — renders canonically *)
Theorem literal_tokens_canon : forall t, wfb t = true ->
  literal_of_tokens parse_float int_to_float (toks t) = LOk (OLit (canon t)).
Proof.
  intros t H. unfold literal_of_tokens.
  assert (Hc : existsb (fun x : N * list N => fst x =? T_LINE_COMMENT) (toks t) = false).
  { apply existsb_false. intros x Hx. pose proof (proj1 (Forall_forall _ _) (toks_plain t) x Hx) as Hp.
    apply N.eqb_neq. exact Hp. }
  rewrite Hc.
  pose proof (parse_toks t (wfb_shaped t H) (lit_fuel (toks t)) [] eq_refl) as Hp.
  rewrite app_nil_r in Hp. rewrite Hp by (unfold lit_fuel; lia).
  cbn [lbind]. rewrite explain_ast_canon by exact H. reflexivity.
Qed.

(* a negated integer of ANY size, inside an array or a tuple, renders as at the top level:
   UInt64_0 / Int64_-n (n <= 2^63) / Float64_ of the negated nearest float *)
Theorem nested_negation_canon : forall n,
  literal_of_tokens parse_float int_to_float (toks (CArr [CNeg n])) =
    LOk (OLit (s_Array ++ canon_neg n ++ [93])) /\
  literal_of_tokens parse_float int_to_float (toks (CTup [CNat 1; CNeg n])) =
    LOk (OLit (s_Tuple ++ s_UInt64 ++ dec 1 ++ s_comma_sp ++ canon_neg n ++ [41])) /\
  literal_of_tokens parse_float int_to_float (toks (CNeg n)) = LOk (OLit (canon_neg n)).
Proof.
  intros n. split; [|split]; rewrite literal_tokens_canon by reflexivity; reflexivity.
Qed.

End Oracle.

(* ========================================================================================== *)
(* F. the integer statements of the property, for EVERY oracle (no hypothesis on strconv's float side) *)

Section Integers.
Variable parse_float : list N -> option fval.
Variable int_to_float : N -> fval.
Notation pn := (parse_number parse_float int_to_float).
Notation lot := (literal_of_tokens parse_float int_to_float).

(* parseNumber on a decimal numeral: int64, then uint64, then the float branch (OutOfInt) *)
Theorem parse_number_dec_cases : forall n,
  pn (dec n) =
  if n <? two63 then VInt n
  else if n <? two64 then VUInt n
  else match parse_float (dec n) with Some f => VFloat f | None => VStr (dec n) true end.
Proof.
  intros n. unfold parse_number.
  pose proof (dec_all_digits n) as Hd.
  rewrite (no_prefix2 is_dec_digit _ 48 120 Hd eq_refl), (no_prefix2 is_dec_digit _ 48 88 Hd eq_refl),
          (no_prefix2 is_dec_digit _ 48 98 Hd eq_refl), (no_prefix2 is_dec_digit _ 48 66 Hd eq_refl),
          (no_prefix2 is_dec_digit _ 48 111 Hd eq_refl), (no_prefix2 is_dec_digit _ 48 79 Hd eq_refl).
  rewrite (no_byte is_dec_digit _ 46 Hd eq_refl), (no_any is_dec_digit _ [101; 69] Hd eq_refl).
  cbn [orb andb negb]. rewrite parse_int_dec, parse_uint_dec.
  unfold int_result, uint_result.
  destruct (n <? two63) eqn:Q1; [reflexivity|].
  destruct (n <=? max_u64) eqn:Q2.
  - destruct (n <? two64) eqn:Q3; [reflexivity|unfold two64, max_u64 in *; lia].
  - destruct (n <? two64) eqn:Q3; [unfold two64, max_u64 in *; lia|reflexivity].
Qed.

Lemma lot_number : forall v, lot [(T_NUMBER, v)] = LOk (explain_literal int_to_float (pn v)).
Proof. reflexivity. Qed.
Lemma lot_minus_number : forall v,
  lot [(T_MINUS, [45]); (T_NUMBER, v)] = LOk (explain_negated parse_float int_to_float (pn v)).
Proof. reflexivity. Qed.

(* n < 2^64: UInt64_n *)
Theorem uint64_literal : forall n, n < two64 ->
  lot [(T_NUMBER, dec n)] = LOk (OLit (t_UInt64 ++ dec n)).
Proof.
  intros n Hn. rewrite lot_number, parse_number_dec_cases.
  destruct (n <? two63); [reflexivity|]. destruct (n <? two64) eqn:Q; [reflexivity|lia].
Qed.

(* 0 < n <= 2^63: Int64_-n *)
Theorem int64_literal : forall n, 0 < n -> n <= two63 ->
  lot [(T_MINUS, [45]); (T_NUMBER, dec n)] = LOk (OLit (t_Int64 ++ [45] ++ dec n)).
Proof.
  intros n H0 Hn. rewrite lot_minus_number, parse_number_dec_cases.
  destruct (n <? two63) eqn:Q1.
  - cbn [explain_negated]. destruct (n =? 0) eqn:Q0; [apply N.eqb_eq in Q0; lia|reflexivity].
  - destruct (n <? two64) eqn:Q2; [|unfold two63, two64 in *; lia].
    cbn [explain_negated]. destruct (n =? 0) eqn:Q0; [apply N.eqb_eq in Q0; lia|].
    destruct (n <=? two63) eqn:Q3; [reflexivity|lia].
Qed.

(* -0: UInt64_0 *)
Theorem minus_zero_literal : lot [(T_MINUS, [45]); (T_NUMBER, dec 0)] = LOk (OLit (t_UInt64 ++ dec 0)).
Proof. rewrite lot_minus_number, parse_number_dec_cases. reflexivity. Qed.

(* n >= 2^64 goes to the float branch, 2^63 < n negated too *)
Theorem out_of_int : forall n, two64 <= n ->
  lot [(T_NUMBER, dec n)] =
  LOk (match parse_float (dec n) with
       | Some f => OLit (t_Float64 ++ format_float f)
       | None => OLit (format_string (dec n))
       end).
Proof.
  intros n Hn. rewrite lot_number, parse_number_dec_cases.
  destruct (n <? two63) eqn:Q1; [unfold two63, two64 in *; lia|].
  destruct (n <? two64) eqn:Q2; [lia|]. destruct (parse_float (dec n)); reflexivity.
Qed.

Theorem out_of_int_negated : forall n, two63 < n -> n < two64 ->
  lot [(T_MINUS, [45]); (T_NUMBER, dec n)] =
  LOk (OLit (t_Float64 ++ format_float (fneg (int_to_float n)))).
Proof.
  intros n H1 H2. rewrite lot_minus_number, parse_number_dec_cases.
  destruct (n <? two63) eqn:Q1; [lia|]. destruct (n <? two64) eqn:Q2; [|lia].
  cbn [explain_negated]. destruct (n =? 0) eqn:Q0; [apply N.eqb_eq in Q0; unfold two63 in *; lia|].
  destruct (n <=? two63) eqn:Q3; [lia|reflexivity].
Qed.

(* hex, binary and octal literals by value, for EVERY n and every well-formed spelling: UInt64_n below 2^64, from
   there on Float64_ of the float64 nearest to n (big.Int.SetString, big.Float.SetInt, Float64) *)
Definition by_value_text (n : N) : list N :=
  if n <? 18446744073709551616 then t_UInt64 ++ dec n else t_Float64 ++ format_float (int_to_float n).

Lemma explain_int_lval_text : forall n,
  explain_literal int_to_float (int_lval int_to_float n) = OLit (by_value_text n).
Proof.
  intros n. unfold int_lval, by_value_text. change 18446744073709551616 with two64.
  destruct (n <? two63) eqn:Q1.
  - destruct (n <? two64) eqn:Q2; [reflexivity|unfold two63, two64 in *; lia].
  - destruct (n <? two64); reflexivity.
Qed.

Theorem radix_literal : forall r up ds, rad_ok r ds = true ->
  lot [(T_NUMBER, [48; radix_letter r up] ++ ds)] =
  LOk (OLit (let n := rad_value r ds 0 in
             if n <? 18446744073709551616 then t_UInt64 ++ dec n else t_Float64 ++ format_float (int_to_float n))).
Proof.
  intros r up ds H. rewrite lot_number. cbn [app].
  rewrite (parse_number_rad parse_float int_to_float r up ds H), explain_int_lval_text. reflexivity.
Qed.

Theorem hex_literal : forall n, lot [(T_NUMBER, [48; 120] ++ hex n)] =
  LOk (OLit (if n <? 18446744073709551616 then t_UInt64 ++ dec n else t_Float64 ++ format_float (int_to_float n))).
Proof. intros n. rewrite lot_number, parse_number_hex, explain_int_lval_text. reflexivity. Qed.

Theorem bin_literal : forall n, lot [(T_NUMBER, [48; 98] ++ bin n)] =
  LOk (OLit (if n <? 18446744073709551616 then t_UInt64 ++ dec n else t_Float64 ++ format_float (int_to_float n))).
Proof. intros n. rewrite lot_number, parse_number_bin, explain_int_lval_text. reflexivity. Qed.

Theorem oct_literal : forall n, lot [(T_NUMBER, [48; 111] ++ oct n)] =
  LOk (OLit (if n <? 18446744073709551616 then t_UInt64 ++ dec n else t_Float64 ++ format_float (int_to_float n))).
Proof. intros n. rewrite lot_number, parse_number_oct, explain_int_lval_text. reflexivity. Qed.

(* strings: the canonical rendering, for every byte string *)
Theorem string_literal : forall v, lot [(T_STRING, v)] = LOk (OLit (canon_string v)).
Proof. intros v. rewrite <- format_string_canon. reflexivity. Qed.

End Integers.

(* ========================================================================================== *)
(* G. where the code deviates from the property text (computed on the model with concrete oracles) *)

(* an oracle that knows the floats nearest to 2^64-1 and to 2^64+2^11+1 ... only what the witnesses ask *)
Definition w_int_to_float (n : N) : fval :=
  if n =? 18446744073709551615 then FFin false [49; 56; 52; 52; 54; 55; 52; 52; 48; 55; 51; 55; 48; 57; 53; 53; 50] 19
  else FNaN.
Definition w_parse_float (s : list N) : option fval := None.

(* -n inside an array or a tuple renders like -n at the top level, also beyond the Int64 range (this was a finding
   on the first version of the code: Int64_-18446744073709551615 in arrays, Int64_1 in tuples; fixed in /repo by
   "a negated integer beyond the Int64 range inside an array or tuple literal is a Float64"); the general statement
   is nested_negation_canon above, this is its instance n = 2^64 - 1 computed on the model *)
Definition w_n : N := 18446744073709551615.
Definition w_neg_text : list N :=          (* Float64_-18446744073709552000 *)
  s_Float64 ++ [45; 49; 56; 52; 52; 54; 55; 52; 52; 48; 55; 51; 55; 48; 57; 53; 53; 50; 48; 48; 48].
Lemma nested_neg_example :
  literal_of_tokens w_parse_float w_int_to_float (toks (CNeg w_n)) = LOk (OLit w_neg_text)
  /\ literal_of_tokens w_parse_float w_int_to_float (toks (CArr [CNeg w_n]))
    = LOk (OLit (s_Array ++ w_neg_text ++ [93]))
  /\ literal_of_tokens w_parse_float w_int_to_float (toks (CTup [CNat 1; CNeg w_n]))
    = LOk (OLit (s_Tuple ++ s_UInt64 ++ [49; 44; 32] ++ w_neg_text ++ [41])).
Proof. vm_compute. repeat split; reflexivity. Qed.

(* a decimal literal that overflows float64 (1e999: strconv returns a range error) is printed as a STRING literal *)
Lemma float_range_refuted :
  literal_of_tokens w_parse_float w_int_to_float [(T_NUMBER, [49; 101; 57; 57; 57])]
  = LOk (OLit (format_string [49; 101; 57; 57; 57])).
Proof. vm_compute. reflexivity. Qed.

(* ========================================================================================== *)
(* H. the fuel of the token parser is never exhausted, on any token list *)

Section Total.
Variable parse_float : list N -> option fval.
Variable int_to_float : N -> fval.
Notation pl := (parse_lit parse_float int_to_float).
Notation pe := (parse_elems parse_float int_to_float).

Lemma parse_lit_S : forall f cur rest,
  pl (S f) (cur :: rest) =
  let t := fst cur in
  if t =? T_NUMBER then with_follow (ELit (parse_number parse_float int_to_float (snd cur))) rest
  else if t =? T_STRING then with_follow (ELit (VStr (snd cur) false)) rest
  else if t =? T_MINUS then
    match rest with
    | [] => LOutOfFragment LoofMinusOperand
    | x :: rest' =>
        if fst x =? T_NUMBER then
          if peek_tok rest' T_COLONCOLON then LOutOfFragment LoofMinusCast
          else with_follow (ENeg (parse_number parse_float int_to_float (snd x))) rest'
        else if fst x =? T_STRING then with_follow (ENeg (VStr (snd x) false)) rest'
        else LOutOfFragment LoofMinusOperand
    end
  else if t =? T_LBRACKET then
    match rest with
    | [] => LOutOfFragment LoofSyntax
    | x :: rest' =>
        if fst x =? T_RBRACKET then with_follow (ELit (VArr [])) rest'
        else
          lbind (pl f rest) (fun '(e, ts1) =>
          lbind (pe f T_RBRACKET [e] ts1) (fun '(es, ts2) =>
          with_follow (ELit (VArr es)) ts2))
    end
  else if t =? T_LPAREN then
    match rest with
    | [] => LOutOfFragment LoofPrefix
    | x :: rest' =>
        if fst x =? T_RPAREN then with_follow (ELit (VTup [])) rest'
        else if (fst x =? T_SELECT) || (fst x =? T_WITH) || (fst x =? T_EXPLAIN)
        then LOutOfFragment LoofSubquery
        else
          lbind (pl f rest) (fun '(e, ts1) =>
          if peek_tok ts1 T_COMMA then
            lbind (pe f T_RPAREN [e] ts1) (fun '(es, ts2) =>
            with_follow (ELit (VTup es)) ts2)
          else if peek_tok ts1 T_RPAREN then LOutOfFragment LoofParen
          else LOutOfFragment LoofSyntax)
    end
  else if t =? T_LINE_COMMENT then LOutOfFragment LoofComment
  else LOutOfFragment LoofPrefix.
Proof. reflexivity. Qed.

Lemma parse_elems_S : forall f close acc c rest,
  pe (S f) close acc (c :: rest) =
  if fst c =? T_COMMA then
    if peek_tok rest close then LOk (rev acc, List.tl rest)
    else lbind (pl f rest) (fun '(e, ts1) => pe f close (e :: acc) ts1)
  else if fst c =? close then LOk (rev acc, rest)
  else LOutOfFragment LoofSyntax.
Proof. reflexivity. Qed.

Lemma with_follow_shape : forall e ts r, with_follow e ts = r ->
  r = LOk (e, ts) \/ exists x, r = LOutOfFragment x.
Proof. intros e ts r <-. unfold with_follow. destruct (follow_tok ts); [left; reflexivity|right; eexists; reflexivity]. Qed.

Definition lit_good (fuel : nat) (ts : list tk) : Prop :=
  pl fuel ts <> LOutOfFuel /\ forall e ts', pl fuel ts = LOk (e, ts') -> (length ts' < length ts)%nat.
Definition elems_good (fuel : nat) (ts : list tk) : Prop :=
  forall close acc, pe fuel close acc ts <> LOutOfFuel /\
    forall es ts', pe fuel close acc ts = LOk (es, ts') -> (length ts' < length ts)%nat.

Ltac wf_case :=
  match goal with
  | |- context [with_follow ?e ?ts] =>
      let r := fresh "r" in let E := fresh "E" in
      destruct (with_follow_shape e ts _ eq_refl) as [E|[? E]]; rewrite E;
      (split; [discriminate|intros ? ? Hq; inversion Hq; subst; cbn [length]; lia])
  end.

Lemma parse_good : forall fuel,
  (forall ts, (2 * length ts < fuel)%nat -> lit_good fuel ts) /\
  (forall ts, (2 * length ts < fuel)%nat -> elems_good fuel ts).
Proof.
  induction fuel as [|f [IHl IHe]]; [split; intros ts H; lia|].
  assert (Hoof : forall (A : Type) (x : loof) (n : nat),
            (@LOutOfFragment A x <> LOutOfFuel) /\ (forall (e : A), LOutOfFragment x = LOk e -> (n < n)%nat)).
  { intros; split; [discriminate|intros e Hq; discriminate]. }
  split.
  - intros ts Hf. unfold lit_good. destruct ts as [|cur rest].
    { cbn [parse_lit]. split; [discriminate|intros e ts' Hq; discriminate]. }
    cbn [length] in Hf. rewrite parse_lit_S. cbv zeta.
    destruct (fst cur =? T_NUMBER). { wf_case. }
    destruct (fst cur =? T_STRING). { wf_case. }
    destruct (fst cur =? T_MINUS).
    { destruct rest as [|x rest']; [split; [discriminate|intros ? ? Hq; discriminate]|].
      destruct (fst x =? T_NUMBER).
      { destruct (peek_tok rest' T_COLONCOLON); [split; [discriminate|intros ? ? Hq; discriminate]|]. wf_case. }
      destruct (fst x =? T_STRING); [wf_case|split; [discriminate|intros ? ? Hq; discriminate]]. }
    destruct (fst cur =? T_LBRACKET).
    { destruct rest as [|x rest']; [split; [discriminate|intros ? ? Hq; discriminate]|].
      destruct (fst x =? T_RBRACKET). { wf_case. }
      destruct (IHl (x :: rest') ltac:(cbn [length] in *; lia)) as [Hn Hs].
      destruct (pl f (x :: rest')) as [[e ts1]| |] eqn:E1; cbn [lbind];
        [|split; [discriminate|intros ? ? Hq; discriminate]|contradiction].
      specialize (Hs e ts1 eq_refl).
      destruct (IHe ts1 ltac:(cbn [length] in *; lia) T_RBRACKET [e]) as [Hn2 Hs2].
      destruct (pe f T_RBRACKET [e] ts1) as [[es ts2]| |] eqn:E2; cbn [lbind];
        [|split; [discriminate|intros ? ? Hq; discriminate]|contradiction].
      specialize (Hs2 es ts2 eq_refl).
      destruct (with_follow_shape (ELit (VArr es)) ts2 _ eq_refl) as [E|[? E]]; rewrite E;
        (split; [discriminate|intros ? ? Hq; inversion Hq; subst; cbn [length] in *; lia]). }
    destruct (fst cur =? T_LPAREN).
    { destruct rest as [|x rest']; [split; [discriminate|intros ? ? Hq; discriminate]|].
      destruct (fst x =? T_RPAREN). { wf_case. }
      destruct ((fst x =? T_SELECT) || (fst x =? T_WITH) || (fst x =? T_EXPLAIN));
        [split; [discriminate|intros ? ? Hq; discriminate]|].
      destruct (IHl (x :: rest') ltac:(cbn [length] in *; lia)) as [Hn Hs].
      destruct (pl f (x :: rest')) as [[e ts1]| |] eqn:E1; cbn [lbind];
        [|split; [discriminate|intros ? ? Hq; discriminate]|contradiction].
      specialize (Hs e ts1 eq_refl).
      destruct (peek_tok ts1 T_COMMA).
      - destruct (IHe ts1 ltac:(cbn [length] in *; lia) T_RPAREN [e]) as [Hn2 Hs2].
        destruct (pe f T_RPAREN [e] ts1) as [[es ts2]| |] eqn:E2; cbn [lbind];
          [|split; [discriminate|intros ? ? Hq; discriminate]|contradiction].
        specialize (Hs2 es ts2 eq_refl).
        destruct (with_follow_shape (ELit (VTup es)) ts2 _ eq_refl) as [E|[? E]]; rewrite E;
          (split; [discriminate|intros ? ? Hq; inversion Hq; subst; cbn [length] in *; lia]).
      - destruct (peek_tok ts1 T_RPAREN); split; try discriminate; intros ? ? Hq; discriminate. }
    destruct (fst cur =? T_LINE_COMMENT); split; try discriminate; intros ? ? Hq; discriminate.
  - intros ts Hf close acc. destruct ts as [|c rest].
    { cbn [parse_elems]. split; [discriminate|intros ? ? Hq; discriminate]. }
    cbn [length] in Hf. rewrite parse_elems_S.
    destruct (fst c =? T_COMMA).
    + destruct (peek_tok rest close).
      * split; [discriminate|]. intros es ts' Hq. inversion Hq; subst. destruct rest; cbn [tl length]; lia.
      * destruct (IHl rest ltac:(lia)) as [Hn Hs].
        destruct (pl f rest) as [[e ts1]| |] eqn:E1; cbn [lbind];
          [|split; [discriminate|intros ? ? Hq; discriminate]|contradiction].
        specialize (Hs e ts1 eq_refl).
        destruct (IHe ts1 ltac:(lia) close (e :: acc)) as [Hn2 Hs2].
        split; [exact Hn2|]. intros es ts' Hq. specialize (Hs2 es ts' Hq). cbn [length]. lia.
    + destruct (fst c =? close).
      * split; [discriminate|]. intros es ts' Hq. inversion Hq; subst. cbn [length]. lia.
      * split; [discriminate|intros ? ? Hq; discriminate].
Qed.

Theorem literal_of_tokens_total : forall ts, literal_of_tokens parse_float int_to_float ts <> LOutOfFuel.
Proof.
  intros ts. unfold literal_of_tokens.
  match goal with |- context [existsb ?g ts] => destruct (existsb g ts); [discriminate|] end.
  destruct (proj1 (parse_good (lit_fuel ts)) ts ltac:(unfold lit_fuel; lia)) as [Hn _].
  destruct (parse_lit parse_float int_to_float (lit_fuel ts) ts) as [[e rest]| |]; cbn [lbind];
    [destruct rest; discriminate|discriminate|contradiction].
Qed.
End Total.
