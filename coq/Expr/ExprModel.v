(* C08 — executable model of the expression fragment of /repo/parser/expression.go (Pratt parser)
   and of /repo/internal/explain/{expressions.go,format.go} (printer) — definitions only, no proofs.

   Token stream: [list item]; the end of the list is EOF.  The Go parser keeps a three-token
   window (current/peek/peekPeek); here current = head of the list, peek = second element.
   Every look-ahead test the Go code makes on a path that stays inside the fragment is kept.

   Anything that leaves the fragment (identifiers, plain decimal NUMBER literals < 2^64, parentheses,
   prefix NOT / prefix minus, the binary operator tokens handled by parseBinaryExpression) yields
   [OutOfFragment reason]; the model never guesses.

   The progress guard of the Pratt loop (`p.current.Pos == startPos`) is modelled by comparing the
   lengths of the remaining token lists: for lexer output positions are strictly increasing (C13),
   so "same position" is "same index". *)
From Coq Require Import List NArith Bool.
From DC Require Import Base.Item Gen.TokenTable Expr.ExprTree.
Import ListNotations.
Local Open Scope N_scope.

(* ------------------------------------------------------------------------------------------ *)
(* results *)

Inductive oof :=
| OofPrefixToken      (* parsePrefixExpression: a token other than IDENT NUMBER MINUS NOT LPAREN (incl. EOF -> nil) *)
| OofInfixToken       (* parseInfixExpression: ?: LIKE ILIKE REGEXP IN GLOBAL BETWEEN IS [ . AS :: -> EXCEPT REPLACE APPLY .N *)
| OofNotInfix         (* a NOT IN / NOT LIKE / NOT ILIKE / NOT REGEXP / NOT BETWEEN *)
| OofAnyAll           (* comparison followed by ANY / ALL *)
| OofFunctionCall     (* identifier followed by ( *)
| OofQualified        (* identifier followed by . *)
| OofTypedLiteral     (* DATE/TIMESTAMP/TIME 'string' *)
| OofIdentChars       (* identifier with a byte outside [A-Za-z0-9_] (escaping / @@ variables) *)
| OofNumberFormat     (* NUMBER that is not a plain decimal digit string *)
| OofNumberRange      (* NUMBER >= 2^64 (float branch) *)
| OofMinusInf         (* -Inf *)
| OofMinusCast        (* -NUMBER :: *)
| OofEmptyTuple       (* () *)
| OofSubquery         (* (SELECT / (WITH / (EXPLAIN *)
| OofTuple            (* (e, ...) *)
| OofMissingRParen    (* expect(RPAREN) fails: error recorded by the Go parser *)
| OofNegFloat         (* negate of an integer literal > 2^63: Float64 formatting *)
| OofTrailing.        (* used by the driver only: tokens remaining after the expression *)

Inductive res (A : Type) :=
| Ok (a : A)
| OutOfFragment (r : oof)
| OutOfFuel.
Arguments Ok {A} a.
Arguments OutOfFragment {A} r.
Arguments OutOfFuel {A}.

Definition bind {A B} (r : res A) (f : A -> res B) : res B :=
  match r with
  | Ok a => f a
  | OutOfFragment x => OutOfFragment x
  | OutOfFuel => OutOfFuel
  end.

(* ------------------------------------------------------------------------------------------ *)
(* byte strings *)

Fixpoint bytes_eqb (a b : list N) : bool :=
  match a, b with
  | [], [] => true
  | x :: a', y :: b' => (x =? y) && bytes_eqb a' b'
  | _, _ => false
  end.

Definition upper_byte (b : N) : N := if (97 <=? b) && (b <=? 122) then b - 32 else b.
(* strings.ToUpper, exact wherever its result is compared with an ASCII constant: ASCII letters, and the two code points whose
   upper case is an ASCII letter -- U+0131 (dotless i, bytes C4 B1) -> I and U+017F (long s, bytes C5 BF) -> S.  The lexer's
   keyword lookup upper-cases the same way, so `dıv` IS the keyword DIV and its operator text must upper-case to "DIV" *)
Fixpoint to_upper (s : list N) : list N :=
  match s with
  | [] => []
  | b :: t =>
      match t with
      | c :: t' =>
          if (b =? 196) && (c =? 177) then 73 :: to_upper t'
          else if (b =? 197) && (c =? 191) then 83 :: to_upper t'
          else upper_byte b :: to_upper t
      | [] => [upper_byte b]
      end
  end.

Definition is_digit_byte (b : N) : bool := (48 <=? b) && (b <=? 57).
Definition is_word_byte (b : N) : bool :=
  is_digit_byte b || ((65 <=? b) && (b <=? 90)) || ((97 <=? b) && (b <=? 122)) || (b =? 95).

(* the constant strings of the Go code, as bytes *)
Definition s_minus  : list N := [45].                     (* "-"  *)
Definition s_plus   : list N := [43].                     (* "+"  *)
Definition s_star   : list N := [42].                     (* "*"  *)
Definition s_slash  : list N := [47].                     (* "/"  *)
Definition s_pct    : list N := [37].                     (* "%"  *)
Definition s_eq     : list N := [61].                     (* "="  *)
Definition s_eq2    : list N := [61; 61].                 (* "==" *)
Definition s_ne     : list N := [33; 61].                 (* "!=" *)
Definition s_ne2    : list N := [60; 62].                 (* "<>" *)
Definition s_lt     : list N := [60].                     (* "<"  *)
Definition s_gt     : list N := [62].                     (* ">"  *)
Definition s_le     : list N := [60; 61].                 (* "<=" *)
Definition s_ge     : list N := [62; 61].                 (* ">=" *)
Definition s_nse    : list N := [60; 61; 62].             (* "<=>" *)
Definition s_concat : list N := [124; 124].               (* "||" *)
Definition s_AND    : list N := [65; 78; 68].             (* "AND" *)
Definition s_OR     : list N := [79; 82].                 (* "OR"  *)
Definition s_DIV    : list N := [68; 73; 86].             (* "DIV" *)
Definition s_MOD    : list N := [77; 79; 68].             (* "MOD" *)
Definition s_DATE      : list N := [68; 65; 84; 69].
Definition s_TIMESTAMP : list N := [84; 73; 77; 69; 83; 84; 65; 77; 80].
Definition s_TIME      : list N := [84; 73; 77; 69].

Definition f_plus     : list N := [112; 108; 117; 115].
Definition f_minus    : list N := [109; 105; 110; 117; 115].
Definition f_multiply : list N := [109; 117; 108; 116; 105; 112; 108; 121].
Definition f_divide   : list N := [100; 105; 118; 105; 100; 101].
Definition f_intDiv   : list N := [105; 110; 116; 68; 105; 118].
Definition f_modulo   : list N := [109; 111; 100; 117; 108; 111].
Definition f_equals   : list N := [101; 113; 117; 97; 108; 115].
Definition f_notEquals : list N := [110; 111; 116; 69; 113; 117; 97; 108; 115].
Definition f_less     : list N := [108; 101; 115; 115].
Definition f_greater  : list N := [103; 114; 101; 97; 116; 101; 114].
Definition f_lessOrEquals : list N := [108; 101; 115; 115; 79; 114; 69; 113; 117; 97; 108; 115].
Definition f_greaterOrEquals : list N := [103; 114; 101; 97; 116; 101; 114; 79; 114; 69; 113; 117; 97; 108; 115].
Definition f_isNotDistinctFrom : list N :=
  [105; 115; 78; 111; 116; 68; 105; 115; 116; 105; 110; 99; 116; 70; 114; 111; 109].
Definition f_and      : list N := [97; 110; 100].
Definition f_or       : list N := [111; 114].
Definition f_concat   : list N := [99; 111; 110; 99; 97; 116].
Definition f_negate   : list N := [110; 101; 103; 97; 116; 101].
Definition f_not      : list N := [110; 111; 116].

Definition lower_byte (b : N) : N := if (65 <=? b) && (b <=? 90) then b + 32 else b.
Definition to_lower (s : list N) : list N := map lower_byte s.   (* strings.ToLower on ASCII *)

(* ------------------------------------------------------------------------------------------ *)
(* precedence levels (expression.go:31-45) *)

Definition LOWEST : N := 0.
Definition ALIAS_PREC : N := 1.
Definition TERNARY_PREC : N := 2.
Definition OR_PREC : N := 3.
Definition AND_PREC : N := 4.
Definition NOT_PREC : N := 5.
Definition COMPARE : N := 6.
Definition CONCAT_PREC : N := 7.
Definition ADD_PREC : N := 8.
Definition MUL_PREC : N := 9.
Definition UNARY : N := 10.
Definition CALL : N := 11.
Definition HIGHEST : N := 12.

Definition tok_in (t : N) (l : list N) : bool := existsb (N.eqb t) l.

(* (p *Parser) precedence(tok) — expression.go:47-85, complete *)
Definition precedence (tok : N) : N :=
  if tok =? T_AS then ALIAS_PREC
  else if tok =? T_OR then OR_PREC
  else if tok =? T_AND then AND_PREC
  else if tok =? T_NOT then NOT_PREC
  else if tok_in tok [T_EQ; T_NEQ; T_LT; T_GT; T_LTE; T_GTE; T_LIKE; T_ILIKE; T_REGEXP; T_IN;
                      T_BETWEEN; T_IS; T_NULL_SAFE_EQ; T_GLOBAL] then COMPARE
  else if tok =? T_QUESTION then TERNARY_PREC
  else if tok =? T_CONCAT then CONCAT_PREC
  else if tok_in tok [T_PLUS; T_MINUS] then ADD_PREC
  else if tok_in tok [T_ASTERISK; T_SLASH; T_PERCENT; T_DIV; T_MOD] then MUL_PREC
  else if tok_in tok [T_LPAREN; T_LBRACKET] then CALL
  else if tok_in tok [T_EXCEPT; T_REPLACE; T_APPLY] then CALL
  else if tok =? T_COLONCOLON then CALL
  else if tok =? T_DOT then HIGHEST
  else if tok =? T_ARROW then OR_PREC
  else LOWEST.

Definition has_dot_prefix (s : list N) : bool :=
  match s with 46 :: _ => true | _ => false end.

Definition peek_is (ts : list item) (t : N) : bool :=
  match ts with x :: _ => it_tok x =? t | [] => t =? T_EOF end.

(* precedenceForCurrent — expression.go:90-103; [cur] is the current token, [rest] what follows it *)
Definition precedence_for_current (cur : item) (rest : list item) : N :=
  if (it_tok cur =? T_NUMBER) && has_dot_prefix (it_val cur) then HIGHEST
  else if (it_tok cur =? T_NOT) &&
          (peek_is rest T_BETWEEN || peek_is rest T_IN || peek_is rest T_LIKE ||
           peek_is rest T_ILIKE || peek_is rest T_REGEXP) then COMPARE
  else precedence (it_tok cur).

(* token.Token.IsKeyword *)
Definition is_keyword (tok : N) : bool := (T_keyword_beg <? tok) && (tok <? T_keyword_end).

(* ------------------------------------------------------------------------------------------ *)
(* AST of the fragment (ast.Identifier / ast.Literal / ast.UnaryExpr / ast.BinaryExpr) *)

Inductive unop := UMinus | UNot.                 (* UnaryExpr.Op = "-" | "NOT" *)

Inductive lit :=
| LInt64 (v : N)      (* LiteralInteger, Value int64 (v < 2^63; never negative here) *)
| LUInt64 (v : N).    (* LiteralInteger, Value uint64 (2^63 <= v < 2^64) *)

Inductive expr :=
| EIdent (name : list N) (paren : bool)                 (* Parts = [name]; Parenthesized *)
| ELit (v : lit) (paren : bool)                         (* Parenthesized *)
| EUnary (op : unop) (e : expr)
| EBinary (op : list N) (l r : expr) (paren : bool).    (* Op string; Parenthesized *)

Definition P := (expr * list item)%type.

(* ------------------------------------------------------------------------------------------ *)
(* prefix parsers; [pe] is parseExpression at the remaining fuel *)

(* parseNumber — plain decimal integers only *)
Definition parse_number (cur : item) (rest : list item) : res P :=
  let value := it_val cur in
  if negb (forallb is_digit_byte value) || bytes_eqb value [] then OutOfFragment OofNumberFormat
  else
    let v := digits_val value in
    if v <? 9223372036854775808 then Ok (ELit (LInt64 v) false, rest)            (* strconv.ParseInt ok *)
    else if v <? 18446744073709551616 then Ok (ELit (LUInt64 v) false, rest)     (* strconv.ParseUint ok *)
    else OutOfFragment OofNumberRange.

(* parseIdentifierOrFunction — single-part, not a call *)
Definition parse_identifier (cur : item) (rest : list item) : res P :=
  let name := it_val cur in
  if negb (forallb is_word_byte name) then OutOfFragment OofIdentChars
  else
    let upper := to_upper name in
    if peek_is rest T_STRING &&
       (bytes_eqb upper s_DATE || bytes_eqb upper s_TIMESTAMP || bytes_eqb upper s_TIME)
    then OutOfFragment OofTypedLiteral
    else if peek_is rest T_LPAREN then OutOfFragment OofFunctionCall
    else if peek_is rest T_DOT then OutOfFragment OofQualified
    else Ok (EIdent name false, rest).

(* parseUnaryMinus; [rest] = tokens after the minus *)
Definition parse_unary_minus (pe : N -> list item -> res P) (rest : list item) : res P :=
  if peek_is rest T_INF then OutOfFragment OofMinusInf
  else if peek_is rest T_NUMBER && peek_is (tl rest) T_COLONCOLON then OutOfFragment OofMinusCast
  else bind (pe UNARY rest) (fun '(operand, ts) => Ok (EUnary UMinus operand, ts)).

(* parseNot; [rest] = tokens after NOT *)
Definition parse_not (pe : N -> list item -> res P) (rest : list item) : res P :=
  if peek_is rest T_LPAREN
  then bind (pe UNARY rest) (fun '(operand, ts) => Ok (EUnary UNot operand, ts))
  else bind (pe NOT_PREC rest) (fun '(operand, ts) => Ok (EUnary UNot operand, ts)).

(* the Parenthesized marking at the end of parseGroupedOrTuple *)
Definition mark_paren (e : expr) : expr :=
  match e with
  | EBinary op l r _ => EBinary op l r true
  | EIdent n _ => EIdent n true
  | ELit v _ => ELit v true
  | EUnary _ _ => e
  end.

(* parseGroupedOrTuple; [rest] = tokens after ( *)
Definition parse_grouped (pe : N -> list item -> res P) (rest : list item) : res P :=
  if peek_is rest T_RPAREN then OutOfFragment OofEmptyTuple
  else if peek_is rest T_SELECT || peek_is rest T_WITH || peek_is rest T_EXPLAIN
  then OutOfFragment OofSubquery
  else bind (pe LOWEST rest) (fun '(first, ts) =>
    if peek_is ts T_COMMA then OutOfFragment OofTuple
    else match ts with
         | t :: ts' => if it_tok t =? T_RPAREN then Ok (mark_paren first, ts')
                       else OutOfFragment OofMissingRParen
         | [] => OutOfFragment OofMissingRParen
         end).

(* parsePrefixExpression *)
Definition parse_prefix (pe : N -> list item -> res P) (ts : list item) : res P :=
  match ts with
  | [] => OutOfFragment OofPrefixToken
  | cur :: rest =>
      let t := it_tok cur in
      if t =? T_IDENT then parse_identifier cur rest
      else if t =? T_NUMBER then parse_number cur rest
      else if t =? T_MINUS then parse_unary_minus pe rest
      else if t =? T_NOT then parse_not pe rest
      else if t =? T_LPAREN then parse_grouped pe rest
      else OutOfFragment OofPrefixToken
  end.

(* ------------------------------------------------------------------------------------------ *)
(* infix parsers *)

Definition is_comparison_op (op : list N) : bool :=
  bytes_eqb op s_eq || bytes_eqb op s_eq2 || bytes_eqb op s_ne || bytes_eqb op s_ne2 ||
  bytes_eqb op s_lt || bytes_eqb op s_le || bytes_eqb op s_gt || bytes_eqb op s_ge.

(* parseBinaryExpression; [cur] = the operator token, [rest] = what follows it *)
Definition parse_binary (pe : N -> list item -> res P) (lhs : expr) (cur : item) (rest : list item)
  : res P :=
  let op := if is_keyword (it_tok cur) then to_upper (it_val cur) else it_val cur in
  let prec := precedence (it_tok cur) in
  if is_comparison_op op && (peek_is rest T_ANY || peek_is rest T_ALL) then OutOfFragment OofAnyAll
  else bind (pe prec rest) (fun '(rhs, ts) => Ok (EBinary op lhs rhs false, ts)).

Definition binary_tokens : list N :=
  [T_PLUS; T_MINUS; T_ASTERISK; T_SLASH; T_PERCENT; T_EQ; T_NEQ; T_LT; T_GT; T_LTE; T_GTE;
   T_AND; T_OR; T_CONCAT; T_DIV; T_MOD; T_NULL_SAFE_EQ].

(* parseInfixExpression; returns the new lhs and the remaining tokens *)
Definition parse_infix (pe : N -> list item -> res P) (lhs : expr) (ts : list item) : res P :=
  match ts with
  | [] => Ok (lhs, ts)                                   (* EOF: default branch, returns lhs *)
  | cur :: rest =>
      let t := it_tok cur in
      if tok_in t binary_tokens then parse_binary pe lhs cur rest
      else if t =? T_NOT then
        (* p.nextToken(); then IN/LIKE/ILIKE/REGEXP/BETWEEN leave the fragment; default: return lhs
           with NOT consumed *)
        if peek_is rest T_IN || peek_is rest T_LIKE || peek_is rest T_ILIKE ||
           peek_is rest T_REGEXP || peek_is rest T_BETWEEN
        then OutOfFragment OofNotInfix
        else Ok (lhs, rest)
      else if t =? T_LPAREN then
        match lhs with
        | EIdent _ _ => OutOfFragment OofFunctionCall
        | _ => Ok (lhs, ts)                              (* return lhs, nothing consumed *)
        end
      else if t =? T_NUMBER then
        if has_dot_prefix (it_val cur) then OutOfFragment OofInfixToken else Ok (lhs, ts)
      else if tok_in t [T_QUESTION; T_LIKE; T_ILIKE; T_REGEXP; T_IN; T_GLOBAL; T_BETWEEN; T_IS;
                        T_LBRACKET; T_DOT; T_AS; T_COLONCOLON; T_ARROW; T_EXCEPT; T_REPLACE; T_APPLY]
      then OutOfFragment OofInfixToken
      else Ok (lhs, ts)                                  (* default: return lhs *)
  end.

(* ------------------------------------------------------------------------------------------ *)
(* parseExpression: prefix, then the Pratt loop with its no-progress guard.
   One fuel for both the recursion depth and the loop iterations. *)

Fixpoint parse_expr (fuel : nat) (prec : N) (ts : list item) {struct fuel} : res P :=
  match fuel with
  | O => OutOfFuel
  | S f => bind (parse_prefix (parse_expr f) ts) (fun '(lhs, ts1) => pratt_loop f prec lhs ts1)
  end
with pratt_loop (fuel : nat) (prec : N) (lhs : expr) (ts : list item) {struct fuel} : res P :=
  match fuel with
  | O => OutOfFuel
  | S f =>
      match ts with
      | [] => Ok (lhs, ts)                                           (* currentIs(EOF) *)
      | cur :: rest =>
          if prec <? precedence_for_current cur rest then
            bind (parse_infix (parse_expr f) lhs ts) (fun '(lhs', ts') =>
              if Nat.eqb (length ts') (length ts) then Ok (lhs', ts')  (* no progress: break *)
              else pratt_loop f prec lhs' ts')
          else Ok (lhs, ts)
      end
  end.

Definition fuel_for (ts : list item) : nat := 2 * length ts + 2.

Definition parse_model (ts : list item) : res P := parse_expr (fuel_for ts) LOWEST ts.

(* ------------------------------------------------------------------------------------------ *)
(* printer *)

Definition t_Function : list N := [70; 117; 110; 99; 116; 105; 111; 110; 32].          (* "Function " *)
Definition t_children : list N := [32; 40; 99; 104; 105; 108; 100; 114; 101; 110; 32].  (* " (children " *)
Definition t_ExpressionList : list N :=
  [69; 120; 112; 114; 101; 115; 115; 105; 111; 110; 76; 105; 115; 116].              (* "ExpressionList" *)
Definition t_Identifier : list N := [73; 100; 101; 110; 116; 105; 102; 105; 101; 114; 32]. (* "Identifier " *)
Definition t_Literal : list N := [76; 105; 116; 101; 114; 97; 108; 32].                (* "Literal " *)
Definition t_UInt64 : list N := [85; 73; 110; 116; 54; 52; 95].                        (* "UInt64_" *)
Definition t_Int64 : list N := [73; 110; 116; 54; 52; 95].                             (* "Int64_" *)

(* "Function <f> (children 1)" / " ExpressionList (children <n>)" / the n operands *)
Definition function_node (fname : list N) (args : list rose) : rose :=
  Node (t_Function ++ fname ++ t_children ++ dec 1 ++ [41])
       [Node (t_ExpressionList ++ t_children ++ dec (N.of_nat (length args)) ++ [41]) args].

(* OperatorToFunction — format.go:476-513 *)
Definition operator_to_function (op : list N) : list N :=
  if bytes_eqb op s_plus then f_plus
  else if bytes_eqb op s_minus then f_minus
  else if bytes_eqb op s_star then f_multiply
  else if bytes_eqb op s_slash then f_divide
  else if bytes_eqb op s_DIV then f_intDiv
  else if bytes_eqb op s_pct || bytes_eqb op s_MOD then f_modulo
  else if bytes_eqb op s_eq || bytes_eqb op s_eq2 then f_equals
  else if bytes_eqb op s_ne || bytes_eqb op s_ne2 then f_notEquals
  else if bytes_eqb op s_lt then f_less
  else if bytes_eqb op s_gt then f_greater
  else if bytes_eqb op s_le then f_lessOrEquals
  else if bytes_eqb op s_ge then f_greaterOrEquals
  else if bytes_eqb op s_nse then f_isNotDistinctFrom
  else if bytes_eqb op s_AND then f_and
  else if bytes_eqb op s_OR then f_or
  else if bytes_eqb op s_concat then f_concat
  else to_lower op.

(* UnaryOperatorToFunction *)
Definition unary_operator_to_function (op : unop) : list N :=
  match op with UMinus => f_negate | UNot => f_not end.

(* FormatLiteral, integer cases *)
Definition format_literal (v : lit) : list N :=
  match v with
  | LInt64 n => t_UInt64 ++ dec n          (* val >= 0 always holds for parsed literals *)
  | LUInt64 n => t_UInt64 ++ dec n
  end.

(* collectConcatOperands / collectLogicalOperands, literally (used for reference; [explain] below
   fuses "collect, then print each operand" into one recursion and ExprProof.explain_binary_unfused
   proves the two readings equal) *)
Fixpoint collect_concat (n : expr) : list expr :=
  match n with
  | EBinary _ l r _ =>
      (match l with
       | EBinary opl _ _ _ => if bytes_eqb opl s_concat then collect_concat l else [l]
       | _ => [l]
       end) ++
      (match r with
       | EBinary opr _ _ _ => if bytes_eqb opr s_concat then collect_concat r else [r]
       | _ => [r]
       end)
  | _ => []
  end.

Fixpoint collect_logical (n : expr) : list expr :=
  match n with
  | EBinary op l r _ =>
      (match l with
       | EBinary opl _ _ parl => if bytes_eqb opl op && negb parl then collect_logical l else [l]
       | _ => [l]
       end) ++
      (match r with
       | EBinary opr _ _ parr => if bytes_eqb opr op && negb parr then collect_logical r else [r]
       | _ => [r]
       end)
  | _ => []
  end.

Definition app_res (a b : res (list rose)) : res (list rose) :=
  bind a (fun x => bind b (fun y => Ok (x ++ y))).
Definition single (a : res rose) : res (list rose) := bind a (fun x => Ok [x]).

(* explainUnaryExpr's literal folding: operand is an unparenthesised integer literal *)
Definition explain_negated_literal (v : lit) : res rose :=
  match v with
  | LInt64 n =>                                                      (* negVal := -val *)
      if n =? 0 then Ok (Node (t_Literal ++ t_UInt64 ++ dec 0) [])
      else Ok (Node (t_Literal ++ t_Int64 ++ [45] ++ dec n) [])       (* %d of a negative int64 *)
  | LUInt64 n =>
      if n =? 0 then Ok (Node (t_Literal ++ t_UInt64 ++ dec 0) [])
      else if n <=? 9223372036854775808 then Ok (Node (t_Literal ++ t_Int64 ++ [45] ++ dec n) [])
      else OutOfFragment OofNegFloat
  end.

(* Node / explainIdentifier / explainLiteral / explainUnaryExpr / explainBinaryExpr *)
Fixpoint explain (e : expr) : res rose :=
  match e with
  | EIdent name _ => Ok (Node (t_Identifier ++ name) [])
  | ELit v _ => Ok (Node (t_Literal ++ format_literal v) [])
  | EUnary op operand =>
      match op, operand with
      | UMinus, ELit v false => explain_negated_literal v
      | _, _ => bind (explain operand) (fun c => Ok (function_node (unary_operator_to_function op) [c]))
      end
  | EBinary op l r _ =>
      let fname := operator_to_function op in
      if bytes_eqb op s_concat then
        let fix operands (x : expr) : res (list rose) :=
          match x with
          | EBinary opx a b _ =>
              if bytes_eqb opx s_concat then app_res (operands a) (operands b) else single (explain x)
          | _ => single (explain x)
          end in
        bind (app_res (operands l) (operands r)) (fun args => Ok (function_node fname args))
      else if bytes_eqb op s_OR || bytes_eqb op s_AND then
        let fix operands (x : expr) : res (list rose) :=
          match x with
          | EBinary opx a b parx =>
              if bytes_eqb opx op && negb parx then app_res (operands a) (operands b)
              else single (explain x)
          | _ => single (explain x)
          end in
        bind (app_res (operands l) (operands r)) (fun args => Ok (function_node fname args))
      else
        bind (explain l) (fun cl => bind (explain r) (fun cr => Ok (function_node fname [cl; cr])))
  end.

Definition explain_model (r : res P) : res (rose * list item) :=
  bind r (fun '(e, rest) => bind (explain e) (fun t => Ok (t, rest))).
