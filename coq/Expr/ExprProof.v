(* C08 — proofs: the expression model (ExprModel.v) realises the independent specification
   (ExprSpec.v) on every well-formed surface tree, for every admissible follow set, with no bound
   on depth or operator count.

   Main results (end of file):
     parse_print   : wfx e -> follow_ok rest -> parse_model (print e ++ rest) = Ok (ast e, rest)
     explain_ast   : wfx e -> explain (ast e) = Ok (ref e)
     c08_expr_climb: wfx e -> follow_ok rest ->
                     explain_model (parse_model (print e ++ rest)) = Ok (ref e, rest)
     wf_wfx        : wf e -> wfx e            (the layered grammar is part of wfx)
     c08_expr      : wf e -> follow_ok rest ->
                     explain_model (parse_model (print e ++ rest)) = Ok (ref e, rest)
     parse_model_total / explain_model_total : OutOfFuel never occurs, on any token list
     explain_binary_unfused : the fused operand recursion of [explain] is
                     "collectLogicalOperands / collectConcatOperands, then print each operand". *)
From Coq Require Import List NArith Bool Arith Lia ZifyN ZifyNat ZifyBool.
From DC Require Import Base.Item Gen.TokenTable Expr.ExprTree Expr.ExprModel Expr.ExprSpec.
Import ListNotations.
Local Open Scope N_scope.

(* ========================================================================================== *)
(* A. decimal numerals *)

Lemma dec_aux_val : forall f n acc,
  n < 2 ^ N.of_nat f ->
  fold_left (fun a d => 10 * a + (d - 48)) (dec_aux f n acc) 0 =
  fold_left (fun a d => 10 * a + (d - 48)) acc n.
Proof.
  induction f as [|f IH]; intros n acc Hn.
  - simpl in *. assert (n = 0) by lia. subst. reflexivity.
  - cbn [dec_aux].
    assert (Hd : n = 10 * (n / 10) + n mod 10) by (apply N.div_mod; lia).
    assert (Hm : n mod 10 < 10) by (apply N.mod_lt; lia).
    destruct (n / 10 =? 0) eqn:Hq.
    + apply N.eqb_eq in Hq. cbn [fold_left].
      replace (10 * 0 + (48 + n mod 10 - 48)) with n by lia. reflexivity.
    + apply N.eqb_neq in Hq. rewrite IH.
      * cbn [fold_left]. replace (10 * (n / 10) + (48 + n mod 10 - 48)) with n by lia. reflexivity.
      * rewrite Nat2N.inj_succ, N.pow_succ_r' in Hn.
        assert (n / 10 <= n / 2) by (apply N.div_le_compat_l; lia).
        assert (n / 2 < 2 ^ N.of_nat f) by (apply N.div_lt_upper_bound; lia).
        lia.
Qed.

Lemma digits_val_dec : forall n, digits_val (dec n) = n.
Proof.
  intros n. unfold digits_val, dec. rewrite dec_aux_val; [reflexivity|].
  rewrite Nat2N.inj_succ, N2Nat.id.
  destruct n as [|p]; [reflexivity|].
  apply N.log2_spec. lia.
Qed.

Lemma dec_aux_digits : forall f n acc,
  forallb is_digit_byte acc = true -> forallb is_digit_byte (dec_aux f n acc) = true.
Proof.
  induction f as [|f IH]; intros n acc Hacc; [exact Hacc|].
  cbn [dec_aux].
  assert (Hm : n mod 10 < 10) by (apply N.mod_lt; lia).
  assert (Hd : forallb is_digit_byte ((48 + n mod 10) :: acc) = true).
  { cbn [forallb]. rewrite Hacc. unfold is_digit_byte.
    replace (48 <=? 48 + n mod 10) with true by (symmetry; apply N.leb_le; lia).
    replace (48 + n mod 10 <=? 57) with true by (symmetry; apply N.leb_le; lia).
    reflexivity. }
  destruct (n / 10 =? 0); [exact Hd|]. apply IH. exact Hd.
Qed.

Lemma dec_digits : forall n, forallb is_digit_byte (dec n) = true.
Proof. intros n. unfold dec. apply dec_aux_digits. reflexivity. Qed.

Lemma dec_aux_nonempty : forall f n acc, acc <> [] -> dec_aux f n acc <> [].
Proof.
  induction f as [|f IH]; intros n acc Hacc; [exact Hacc|].
  cbn [dec_aux]. destruct (n / 10 =? 0); [discriminate|]. apply IH. discriminate.
Qed.

Lemma dec_nonempty : forall n, bytes_eqb (dec n) [] = false.
Proof.
  intros n. unfold dec. cbn [dec_aux].
  destruct (n / 10 =? 0); [reflexivity|].
  pose proof (dec_aux_nonempty (N.to_nat (N.log2 n)) (n / 10) [48 + n mod 10]) as H.
  destruct (dec_aux _ _ _); [exfalso; apply H; [discriminate|reflexivity]|reflexivity].
Qed.

(* ========================================================================================== *)
(* B. more fuel never changes a result other than OutOfFuel *)

Definition res_le {A} (r r' : res A) : Prop := r = OutOfFuel \/ r = r'.

Definition pe_le (pe pe' : N -> list item -> res P) : Prop :=
  forall p ts, res_le (pe p ts) (pe' p ts).

Lemma res_le_refl : forall A (r : res A), res_le r r.
Proof. intros; right; reflexivity. Qed.

Lemma bind_le : forall A B (r r' : res A) (f f' : A -> res B),
  res_le r r' -> (forall a, res_le (f a) (f' a)) -> res_le (bind r f) (bind r' f').
Proof.
  intros A B r r' f f' [H|H] Hf; subst.
  - left; reflexivity.
  - destruct r'; simpl; [apply Hf|right; reflexivity|right; reflexivity].
Qed.

Ltac le_refl := apply res_le_refl.

Lemma parse_unary_minus_le : forall pe pe' rest,
  pe_le pe pe' -> res_le (parse_unary_minus pe rest) (parse_unary_minus pe' rest).
Proof.
  intros pe pe' rest H. unfold parse_unary_minus.
  destruct (peek_is rest T_INF); [le_refl|].
  destruct (peek_is rest T_NUMBER && peek_is (tl rest) T_COLONCOLON); [le_refl|].
  apply bind_le; [apply H|intros [o ts]; le_refl].
Qed.

Lemma parse_not_le : forall pe pe' rest,
  pe_le pe pe' -> res_le (parse_not pe rest) (parse_not pe' rest).
Proof.
  intros pe pe' rest H. unfold parse_not.
  destruct (peek_is rest T_LPAREN); (apply bind_le; [apply H|intros [o ts]; le_refl]).
Qed.

Lemma parse_grouped_le : forall pe pe' rest,
  pe_le pe pe' -> res_le (parse_grouped pe rest) (parse_grouped pe' rest).
Proof.
  intros pe pe' rest H. unfold parse_grouped.
  destruct (peek_is rest T_RPAREN); [le_refl|].
  destruct (peek_is rest T_SELECT || peek_is rest T_WITH || peek_is rest T_EXPLAIN); [le_refl|].
  apply bind_le; [apply H|intros [o ts]; le_refl].
Qed.

Lemma parse_prefix_le : forall pe pe' ts,
  pe_le pe pe' -> res_le (parse_prefix pe ts) (parse_prefix pe' ts).
Proof.
  intros pe pe' ts H. unfold parse_prefix.
  destruct ts as [|cur rest]; [le_refl|].
  destruct (it_tok cur =? T_IDENT); [le_refl|].
  destruct (it_tok cur =? T_NUMBER); [le_refl|].
  destruct (it_tok cur =? T_MINUS); [apply parse_unary_minus_le, H|].
  destruct (it_tok cur =? T_NOT); [apply parse_not_le, H|].
  destruct (it_tok cur =? T_LPAREN); [apply parse_grouped_le, H|].
  le_refl.
Qed.

Lemma parse_binary_le : forall pe pe' lhs cur rest,
  pe_le pe pe' -> res_le (parse_binary pe lhs cur rest) (parse_binary pe' lhs cur rest).
Proof.
  intros pe pe' lhs cur rest H. unfold parse_binary.
  match goal with |- context [if ?c then _ else _] => destruct c end; [le_refl|].
  apply bind_le; [apply H|intros [o ts]; le_refl].
Qed.

Lemma parse_infix_le : forall pe pe' lhs ts,
  pe_le pe pe' -> res_le (parse_infix pe lhs ts) (parse_infix pe' lhs ts).
Proof.
  intros pe pe' lhs ts H. unfold parse_infix.
  destruct ts as [|cur rest]; [le_refl|].
  destruct (tok_in (it_tok cur) binary_tokens); [apply parse_binary_le, H|].
  le_refl.
Qed.

Lemma fuel_step : forall n,
  pe_le (parse_expr n) (parse_expr (S n)) /\
  (forall p lhs ts, res_le (pratt_loop n p lhs ts) (pratt_loop (S n) p lhs ts)).
Proof.
  induction n as [|n [IHe IHl]].
  - split; [intros p ts|intros p lhs ts]; left; reflexivity.
  - split.
    + intros p ts. cbn [parse_expr].
      apply bind_le; [apply parse_prefix_le, IHe|intros [l ts1]; apply IHl].
    + intros p lhs ts. cbn [pratt_loop].
      destruct ts as [|cur rest]; [le_refl|].
      destruct (p <? precedence_for_current cur rest); [|le_refl].
      apply bind_le; [apply parse_infix_le, IHe|].
      intros [l' ts']. destruct (Nat.eqb (length ts') (length (cur :: rest))); [le_refl|apply IHl].
Qed.

Lemma parse_expr_mono : forall n m p ts r,
  parse_expr n p ts = Ok r -> (n <= m)%nat -> parse_expr m p ts = Ok r.
Proof.
  intros n m p ts r H Hle. induction Hle as [|m Hle IH]; [exact H|].
  destruct (proj1 (fuel_step m) p ts) as [E|E]; congruence.
Qed.

Lemma pratt_loop_mono : forall n m p lhs ts r,
  pratt_loop n p lhs ts = Ok r -> (n <= m)%nat -> pratt_loop m p lhs ts = Ok r.
Proof.
  intros n m p lhs ts r H Hle. induction Hle as [|m Hle IH]; [exact H|].
  destruct (proj2 (fuel_step m) p lhs ts) as [E|E]; congruence.
Qed.

(* ========================================================================================== *)
(* C. the Pratt parser on [print e] *)

(* spec level k (1..9)  |->  Go precedence constant (OR_PREC = 3 .. CALL = 11) *)
Definition gp (k : nat) : N := N.of_nat k + 2.

(* BinaryExpr.Op as computed by parseBinaryExpression from the operator token *)
Definition mop (op : binop) : list N :=
  if is_keyword (it_tok (op_item op)) then to_upper (it_val (op_item op)) else it_val (op_item op).

Definition num_lit (n : N) : lit := if n <? 9223372036854775808 then LInt64 n else LUInt64 n.

(* the AST the Go parser builds for a well-formed surface tree *)
Fixpoint ast (e : sexpr) : expr :=
  match e with
  | Id s => EIdent s false
  | Num n => ELit (num_lit n) false
  | Paren e1 => mark_paren (ast e1)
  | Not _ e1 => EUnary UNot (ast e1)
  | NotCall _ e1 => EUnary UNot (mark_paren (ast e1))
  | Neg e1 => EUnary UMinus (ast e1)
  | Bin op l r => EBinary (mop op) (ast l) (ast r) false
  end.

(* [rest] does not continue an expression whose right edge is at precedence [lvl] *)
Definition stopb (lvl : N) (rest : list item) : bool :=
  match rest with
  | [] => true
  | t :: tl => (precedence_for_current t tl <=? lvl) && negb (it_tok t =? T_STRING)
  end.

Definition rlvl (e : sexpr) : N := N.min (gp (redge e)) 10.

Definition fits (p : N) (e : sexpr) : Prop :=
  match e with Bin op _ _ => p < gp (op_level op) | _ => True end.

Fixpoint cost (e : sexpr) : nat :=
  match e with
  | Id _ | Num _ => 1
  | Paren e1 => 2 + cost e1
  | Not _ e1 => 2 + cost e1
  | NotCall _ e1 => 4 + cost e1
  | Neg e1 => 2 + cost e1
  | Bin _ l r => cost l + cost r + 2
  end%nat.

Definition head_tok (e : sexpr) : N :=
  (fix go (e : sexpr) : N :=
     match e with
     | Id _ => T_IDENT
     | Num _ => T_NUMBER
     | Paren _ => T_LPAREN
     | Not _ _ | NotCall _ _ => T_NOT
     | Neg _ => T_MINUS
     | Bin _ l _ => go l
     end) e.

Lemma print_head : forall e, exists t tl, print e = t :: tl /\ it_tok t = head_tok e.
Proof.
  induction e as [s|n|e1 IH|lc e1 IH|lc e1 IH|e1 IH|op l IHl r IHr];
    try (eexists; eexists; split; reflexivity).
  destruct IHl as (t & tl & E & Ht). cbn [print]. rewrite E.
  exists t, (tl ++ op_item op :: print r). split; [reflexivity|exact Ht].
Qed.

Lemma peek_print : forall e rest x, peek_is (print e ++ rest) x = (head_tok e =? x).
Proof.
  intros e rest x. destruct (print_head e) as (t & tl & E & Ht).
  rewrite E. cbn [app peek_is]. rewrite Ht. reflexivity.
Qed.

Lemma head_tok_cases : forall e,
  head_tok e = T_IDENT \/ head_tok e = T_NUMBER \/ head_tok e = T_LPAREN \/
  head_tok e = T_NOT \/ head_tok e = T_MINUS.
Proof.
  induction e; cbn; auto.
Qed.

Ltac head_cases e :=
  destruct (head_tok_cases e) as [HH|[HH|[HH|[HH|HH]]]]; rewrite HH; try reflexivity.

Lemma head_tok_paren : forall e, starts_with_paren e = false -> (head_tok e =? T_LPAREN) = false.
Proof.
  induction e; cbn; intros H; try reflexivity; try discriminate. apply IHe1. exact H.
Qed.

(* ---- tokens of the operators ---- *)

Lemma pfc_plain : forall t tl,
  (it_tok t =? T_NUMBER) = false -> (it_tok t =? T_NOT) = false ->
  precedence_for_current t tl = precedence (it_tok t).
Proof. intros t tl H1 H2. unfold precedence_for_current. rewrite H1, H2. reflexivity. Qed.

Lemma prec_op_item : forall op, precedence (it_tok (op_item op)) = gp (op_level op).
Proof. destruct op; reflexivity. Qed.

Lemma pfc_op_item : forall op tl, precedence_for_current (op_item op) tl = gp (op_level op).
Proof.
  intros op tl. rewrite pfc_plain; [apply prec_op_item| |]; destruct op; reflexivity.
Qed.

Lemma tok_in_op_item : forall op, tok_in (it_tok (op_item op)) binary_tokens = true.
Proof. destruct op; reflexivity. Qed.

Lemma op_item_not_string : forall op, (it_tok (op_item op) =? T_STRING) = false.
Proof. destruct op; reflexivity. Qed.

Lemma op_level_bounds : forall op, (1 <= op_level op <= 7)%nat /\ op_level op <> 3%nat.
Proof. destruct op; cbn; lia. Qed.

Lemma level_bounds : forall e, (1 <= level e <= 9)%nat.
Proof. destruct e; cbn; try lia. pose proof (op_level_bounds op). lia. Qed.

Lemma redge_bounds : forall e, (1 <= redge e <= level e)%nat.
Proof.
  induction e; cbn [redge level]; try lia.
  pose proof (op_level_bounds op). lia.
Qed.

(* ---- stop conditions ---- *)

Lemma stopb_mono : forall l l' rest, stopb l rest = true -> l <= l' -> stopb l' rest = true.
Proof.
  intros l l' [|t tl] H Hle; [reflexivity|]. cbn [stopb] in *.
  apply andb_prop in H as [H1 H2]. rewrite H2, andb_true_r.
  apply N.leb_le in H1. apply N.leb_le. lia.
Qed.

Lemma stop_loop : forall l rest p f lhs,
  stopb l rest = true -> l <= p -> pratt_loop (S f) p lhs rest = Ok (lhs, rest).
Proof.
  intros l [|t tl] p f lhs H Hle; [reflexivity|]. cbn [stopb pratt_loop] in *.
  apply andb_prop in H as [H1 _]. apply N.leb_le in H1.
  replace (p <? precedence_for_current t tl) with false; [reflexivity|].
  symmetry. apply N.ltb_ge. lia.
Qed.

Lemma stop_peek_tok : forall l t tl x,
  precedence_for_current t tl <= l -> l <= 10 ->
  (x =? T_NUMBER) = false -> (x =? T_NOT) = false -> 10 < precedence x ->
  (it_tok t =? x) = false.
Proof.
  intros l t tl x H1 Hle Hx1 Hx2 Hp.
  destruct (it_tok t =? x) eqn:E; [exfalso|reflexivity]. apply N.eqb_eq in E.
  rewrite pfc_plain in H1 by (rewrite E; assumption). rewrite E in H1. lia.
Qed.

Lemma stop_peeks : forall l rest,
  stopb l rest = true -> l <= 10 ->
  peek_is rest T_LPAREN = false /\ peek_is rest T_DOT = false /\
  peek_is rest T_STRING = false /\ peek_is rest T_COLONCOLON = false.
Proof.
  intros l [|t tl] H Hle; [repeat split; reflexivity|].
  cbn [stopb peek_is] in *. apply andb_prop in H as [H1 H2]. apply N.leb_le in H1.
  apply negb_true_iff in H2.
  repeat split; try exact H2;
    (apply stop_peek_tok with (l := l) (tl := tl); [exact H1|exact Hle|reflexivity|reflexivity|];
     vm_compute; reflexivity).
Qed.

Lemma stopb_rparen : forall l rest, stopb l (rparen_item :: rest) = true.
Proof. intros l rest. cbn [stopb]. rewrite pfc_plain by reflexivity. destruct l; reflexivity. Qed.

Lemma fits_level : forall p e, p < gp (level e) -> fits p e.
Proof. intros p e H. destruct e; cbn in *; auto. Qed.

(* ---- prefix steps ---- *)

Lemma word_byte_eq : forall c, is_word_byte c = word_byte c.
Proof. reflexivity. Qed.

Lemma ident_ok_word : forall s, ident_ok s = true -> forallb is_word_byte s = true.
Proof.
  intros s H. destruct s as [|c s]; [discriminate|]. unfold ident_ok in H.
  exact H.
Qed.

Lemma parse_prefix_ident : forall pe s rest,
  ident_ok s = true -> peek_is rest T_STRING = false -> peek_is rest T_LPAREN = false ->
  peek_is rest T_DOT = false ->
  parse_prefix pe (tk T_IDENT s :: rest) = Ok (EIdent s false, rest).
Proof.
  intros pe s rest Hs H1 H2 H3. unfold parse_prefix.
  change (it_tok (tk T_IDENT s)) with T_IDENT. cbn [N.eqb T_IDENT Pos.eqb].
  unfold parse_identifier. change (it_val (tk T_IDENT s)) with s.
  rewrite (ident_ok_word s Hs), H1, H2, H3. reflexivity.
Qed.

Lemma parse_prefix_num : forall pe n rest,
  (n <? 18446744073709551616) = true ->
  parse_prefix pe (tk T_NUMBER (dec n) :: rest) = Ok (ELit (num_lit n) false, rest).
Proof.
  intros pe n rest Hn. unfold parse_prefix.
  change (it_tok (tk T_NUMBER (dec n))) with T_NUMBER.
  change (T_NUMBER =? T_IDENT) with false. change (T_NUMBER =? T_NUMBER) with true. cbv iota.
  unfold parse_number. change (it_val (tk T_NUMBER (dec n))) with (dec n).
  rewrite dec_digits, dec_nonempty, digits_val_dec. cbn [negb orb].
  unfold num_lit. destruct (n <? 9223372036854775808); [reflexivity|]. rewrite Hn. reflexivity.
Qed.

Lemma parse_prefix_minus : forall pe rest,
  peek_is rest T_INF = false ->
  peek_is rest T_NUMBER && peek_is (tl rest) T_COLONCOLON = false ->
  parse_prefix pe (minus_item :: rest) =
  bind (pe UNARY rest) (fun '(operand, ts) => Ok (EUnary UMinus operand, ts)).
Proof.
  intros pe rest H1 H2. unfold parse_prefix.
  change (it_tok minus_item) with T_MINUS.
  change (T_MINUS =? T_IDENT) with false. change (T_MINUS =? T_NUMBER) with false.
  change (T_MINUS =? T_MINUS) with true. cbv iota.
  unfold parse_unary_minus. rewrite H1, H2. reflexivity.
Qed.

Lemma parse_prefix_not : forall pe lc rest,
  parse_prefix pe (not_item lc :: rest) = parse_not pe rest.
Proof. intros pe lc rest. destruct lc; reflexivity. Qed.

Lemma parse_prefix_lparen : forall pe rest,
  parse_prefix pe (lparen_item :: rest) = parse_grouped pe rest.
Proof. reflexivity. Qed.

(* ---- the generalised statement ---- *)

Definition Main (e : sexpr) : Prop :=
  forall n m p rest r,
    fits p e -> stopb (rlvl e) rest = true ->
    pratt_loop n p (ast e) rest = Ok r -> (n + cost e <= m)%nat ->
    parse_expr m p (print e ++ rest) = Ok r.

Lemma main_id : forall s, ident_ok s = true -> Main (Id s).
Proof.
  intros s Hs n m p rest r _ Hstop Hloop Hm. cbn [print cost app ast] in *.
  destruct m as [|m]; [lia|]. cbn [parse_expr].
  destruct (stop_peeks _ _ Hstop) as (H1 & H2 & H3 & _); [unfold rlvl; lia|].
  rewrite parse_prefix_ident by assumption. cbn [bind].
  apply pratt_loop_mono with n; [exact Hloop|lia].
Qed.

Lemma main_num : forall k, (k <? 18446744073709551616) = true -> Main (Num k).
Proof.
  intros k Hk n m p rest r _ Hstop Hloop Hm. cbn [print cost app ast] in *.
  destruct m as [|m]; [lia|]. cbn [parse_expr].
  rewrite parse_prefix_num by assumption. cbn [bind].
  apply pratt_loop_mono with n; [exact Hloop|lia].
Qed.

Lemma length_neq_suffix : forall (x : item) (pre rest : list item),
  Nat.eqb (length rest) (length (x :: pre ++ rest)) = false.
Proof.
  intros. apply Nat.eqb_neq. cbn [length]. rewrite app_length. lia.
Qed.

Lemma main_paren : forall e1, Main e1 -> Main (Paren e1).
Proof.
  intros e1 IH n m p rest r _ Hstop Hloop Hm. cbn [print cost ast] in *.
  change ((lparen_item :: print e1 ++ [rparen_item]) ++ rest)
    with (lparen_item :: (print e1 ++ [rparen_item]) ++ rest).
  rewrite <- app_assoc. cbn [app].
  destruct m as [|m]; [lia|]. cbn [parse_expr]. rewrite parse_prefix_lparen.
  unfold parse_grouped. rewrite !peek_print.
  replace (head_tok e1 =? T_RPAREN) with false by (head_cases e1).
  replace (head_tok e1 =? T_SELECT) with false by (head_cases e1).
  replace (head_tok e1 =? T_WITH) with false by (head_cases e1).
  replace (head_tok e1 =? T_EXPLAIN) with false by (head_cases e1).
  cbn [orb].
  rewrite (IH 1%nat m LOWEST (rparen_item :: rest) (ast e1, rparen_item :: rest)).
  - cbn [bind]. change (peek_is (rparen_item :: rest) T_COMMA) with false. cbv iota.
    change (it_tok rparen_item =? T_RPAREN) with true. cbv iota.
    apply pratt_loop_mono with n; [exact Hloop|lia].
  - apply fits_level. unfold gp, LOWEST. lia.
  - apply stopb_rparen.
  - apply stop_loop with (l := LOWEST); [|unfold LOWEST; lia].
    cbn [stopb]. rewrite pfc_plain by reflexivity. reflexivity.
  - lia.
Qed.

Lemma main_notcall : forall lc e1, Main e1 -> Main (NotCall lc e1).
Proof.
  intros lc e1 IH n m p rest r _ Hstop Hloop Hm. cbn [print cost ast] in *.
  change ((not_item lc :: lparen_item :: print e1 ++ [rparen_item]) ++ rest)
    with (not_item lc :: print (Paren e1) ++ rest).
  destruct m as [|m]; [lia|]. cbn [parse_expr]. rewrite parse_prefix_not.
  unfold parse_not. rewrite peek_print. change (head_tok (Paren e1) =? T_LPAREN) with true. cbv iota.
  rewrite (main_paren e1 IH 1%nat m UNARY rest (mark_paren (ast e1), rest)).
  - cbn [bind]. apply pratt_loop_mono with n; [exact Hloop|lia].
  - exact I.
  - exact Hstop.
  - apply stop_loop with (l := rlvl (NotCall lc e1)); [exact Hstop|]. unfold rlvl, UNARY. lia.
  - cbn [cost]. lia.
Qed.

Lemma main_not : forall lc e1,
  Main e1 -> (3 <= level e1)%nat -> starts_with_paren e1 = false -> Main (Not lc e1).
Proof.
  intros lc e1 IH Hlvl Hsp n m p rest r _ Hstop Hloop Hm. cbn [print cost ast] in *.
  change ((not_item lc :: print e1) ++ rest) with (not_item lc :: print e1 ++ rest).
  destruct m as [|m]; [lia|]. cbn [parse_expr]. rewrite parse_prefix_not.
  unfold parse_not. rewrite peek_print, (head_tok_paren e1 Hsp).
  pose proof (redge_bounds e1) as Hb.
  assert (Hr1 : rlvl (Not lc e1) <= NOT_PREC).
  { unfold rlvl. cbn [redge]. unfold gp, NOT_PREC. lia. }
  assert (Hr2 : rlvl (Not lc e1) <= rlvl e1).
  { unfold rlvl. cbn [redge]. unfold gp. lia. }
  rewrite (IH 1%nat m NOT_PREC rest (ast e1, rest)).
  - cbn [bind]. apply pratt_loop_mono with n; [exact Hloop|lia].
  - destruct e1; try exact I. cbn [fits level] in *.
    pose proof (op_level_bounds op). unfold gp, NOT_PREC. lia.
  - apply stopb_mono with (l := rlvl (Not lc e1)); [exact Hstop|exact Hr2].
  - apply stop_loop with (l := rlvl (Not lc e1)); [exact Hstop|exact Hr1].
  - lia.
Qed.

Lemma main_neg : forall e1,
  Main e1 -> (forall op l r, e1 <> Bin op l r) -> Main (Neg e1).
Proof.
  intros e1 IH Hshape n m p rest r _ Hstop Hloop Hm. cbn [print cost ast] in *.
  change ((minus_item :: print e1) ++ rest) with (minus_item :: print e1 ++ rest).
  destruct m as [|m]; [lia|]. cbn [parse_expr].
  pose proof (redge_bounds e1) as Hb.
  assert (Hr1 : rlvl (Neg e1) <= UNARY).
  { unfold rlvl. cbn [redge]. unfold gp, UNARY. lia. }
  assert (Hr2 : rlvl (Neg e1) <= rlvl e1).
  { unfold rlvl. cbn [redge]. unfold gp. lia. }
  rewrite parse_prefix_minus.
  - rewrite (IH 1%nat m UNARY rest (ast e1, rest)).
    + cbn [bind]. apply pratt_loop_mono with n; [exact Hloop|lia].
    + destruct e1; try exact I. exfalso. eapply Hshape. reflexivity.
    + apply stopb_mono with (l := rlvl (Neg e1)); [exact Hstop|exact Hr2].
    + apply stop_loop with (l := rlvl (Neg e1)); [exact Hstop|exact Hr1].
    + lia.
  - rewrite peek_print. head_cases e1.
  - destruct (stop_peeks _ _ Hstop) as (_ & _ & _ & H4); [unfold UNARY in Hr1; lia|].
    destruct e1; try reflexivity.
    + cbn [print app tl peek_is]. rewrite H4. apply andb_false_r.
    + exfalso. eapply Hshape. reflexivity.
Qed.

Lemma main_bin : forall op l r,
  Main l -> Main r -> (op_level op <= redge l)%nat ->
  ((op_level op < level r)%nat \/ is_not r = true) ->
  Main (Bin op l r).
Proof.
  intros op l r IHl IHr Hl Hr n m p rest res Hfit Hstop Hloop Hm.
  cbn [print cost fits ast] in *.
  rewrite <- app_assoc. cbn [app].
  pose proof (op_level_bounds op) as Hb.
  pose proof (redge_bounds l) as Hbl. pose proof (redge_bounds r) as Hbr.
  pose proof (level_bounds l) as Hbl'. pose proof (level_bounds r) as Hbr'.
  assert (Hr1 : rlvl (Bin op l r) <= gp (op_level op)).
  { unfold rlvl. cbn [redge]. unfold gp. lia. }
  assert (Hr2 : rlvl (Bin op l r) <= rlvl r).
  { unfold rlvl. cbn [redge]. unfold gp. lia. }
  set (k := Nat.max n (S (cost r))).
  apply (IHl (S k) m p (op_item op :: print r ++ rest) res).
  - apply fits_level. unfold gp in *. lia.
  - cbn [stopb]. rewrite pfc_op_item, op_item_not_string. cbn [negb]. rewrite andb_true_r.
    apply N.leb_le. unfold rlvl, gp. lia.
  - cbn [pratt_loop]. rewrite pfc_op_item.
    replace (p <? gp (op_level op)) with true by (symmetry; apply N.ltb_lt; exact Hfit).
    unfold parse_infix. rewrite tok_in_op_item. unfold parse_binary.
    rewrite prec_op_item. rewrite !peek_print.
    replace (head_tok r =? T_ANY) with false by (head_cases r).
    replace (head_tok r =? T_ALL) with false by (head_cases r).
    cbn [orb]. rewrite andb_false_r. fold (mop op).
    rewrite (IHr 1%nat k (gp (op_level op)) rest (ast r, rest)).
    + cbn [bind]. rewrite length_neq_suffix.
      apply pratt_loop_mono with n; [exact Hloop|unfold k; lia].
    + destruct Hr as [Hr|Hr].
      * apply fits_level. unfold gp. lia.
      * destruct r; try discriminate Hr. exact I.
    + apply stopb_mono with (l := rlvl (Bin op l r)); [exact Hstop|exact Hr2].
    + apply stop_loop with (l := rlvl (Bin op l r)); [exact Hstop|exact Hr1].
    + unfold k. lia.
  - unfold k. lia.
Qed.

Lemma main_all : forall e, wfx e -> Main e.
Proof.
  unfold wfx.
  induction e as [s|n|e1 IH|lc e1 IH|lc e1 IH|e1 IH|op l IHl r IHr]; intros H; cbn [wfxb] in H.
  - apply main_id, H.
  - apply main_num, H.
  - apply main_paren, IH, H.
  - apply andb_prop in H as [H H3]. apply andb_prop in H as [H1 H2].
    apply main_not; [apply IH, H1|apply Nat.leb_le, H2|apply negb_true_iff, H3].
  - apply main_notcall, IH, H.
  - apply andb_prop in H as [H _]. apply andb_prop in H as [H1 H2].
    apply main_neg; [apply IH, H1|].
    intros op l r E. subst e1. cbn [level is_not] in H2. rewrite orb_false_r in H2.
    apply Nat.leb_le in H2. pose proof (op_level_bounds op). lia.
  - apply andb_prop in H as [H _]. apply andb_prop in H as [H H4].
    apply andb_prop in H as [H H3]. apply andb_prop in H as [H1 H2].
    apply main_bin; [apply IHl, H1|apply IHr, H2|apply Nat.leb_le, H3|].
    apply orb_prop in H4 as [H4|H4]; [left; apply Nat.ltb_lt, H4|right; exact H4].
Qed.
Lemma cost_bound : forall e, (cost e <= 2 * length (print e))%nat.
Proof.
  induction e; cbn [cost print length]; rewrite ?app_length; cbn [length]; lia.
Qed.

Lemma follow_stop : forall rest, follow_ok rest -> stopb LOWEST rest = true.
Proof.
  intros [|t tl] H; [reflexivity|].
  unfold follow_ok, follow_okb in H. apply negb_true_iff in H.
  unfold continuing_tokens in H. cbn [existsb] in H.
  repeat (apply orb_false_elim in H; destruct H as [? H]).
  cbn [stopb]. unfold precedence_for_current, precedence, tok_in. cbn [existsb].
  repeat match goal with Hx : (it_tok t =? _) = false |- _ => rewrite Hx; clear Hx end.
  reflexivity.
Qed.

Theorem parse_print : forall e rest,
  wfx e -> follow_ok rest -> parse_model (print e ++ rest) = Ok (ast e, rest).
Proof.
  intros e rest Hwf Hf. unfold parse_model.
  pose proof (follow_stop rest Hf) as Hs.
  pose proof (level_bounds e) as Hb.
  apply (main_all e Hwf 1%nat).
  - apply fits_level. unfold gp, LOWEST. lia.
  - apply stopb_mono with (l := LOWEST); [exact Hs|]. unfold rlvl, LOWEST. lia.
  - apply stop_loop with (l := LOWEST); [exact Hs|]. lia.
  - unfold fuel_for. rewrite app_length. pose proof (cost_bound e). lia.
Qed.

(* ========================================================================================== *)
(* D. the printer on [ast e] *)

(* the operand recursions of [explain] and [ref] as standalone functions *)
Fixpoint m_ops_concat (x : expr) : res (list rose) :=
  match x with
  | EBinary opx a b0 _ =>
      if bytes_eqb opx s_concat then app_res (m_ops_concat a) (m_ops_concat b0)
      else single (explain x)
  | _ => single (explain x)
  end.

Definition m_ops_logical (op : list N) : expr -> res (list rose) :=
  fix go (x : expr) : res (list rose) :=
  match x with
  | EBinary opx a b0 parx =>
      if bytes_eqb opx op && negb parx then app_res (go a) (go b0)
      else single (explain x)
  | _ => single (explain x)
  end.

Definition s_operands (c : chain) : sexpr -> list rose :=
  fix go (x : sexpr) : list rose :=
  match x with
  | Bin op' x1 x2 => if in_chain c op' then go x1 ++ go x2 else [ref x]
  | _ => [ref x]
  end.

Lemma m_ops_logical_bin : forall op opx a b0 parx,
  m_ops_logical op (EBinary opx a b0 parx) =
  if bytes_eqb opx op && negb parx then app_res (m_ops_logical op a) (m_ops_logical op b0)
  else single (explain (EBinary opx a b0 parx)).
Proof. reflexivity. Qed.

Lemma s_operands_bin : forall c op' x1 x2,
  s_operands c (Bin op' x1 x2) =
  if in_chain c op' then s_operands c x1 ++ s_operands c x2 else [ref (Bin op' x1 x2)].
Proof. reflexivity. Qed.

Lemma explain_binary : forall op l r par,
  explain (EBinary op l r par) =
  if bytes_eqb op s_concat then
    bind (app_res (m_ops_concat l) (m_ops_concat r))
         (fun args => Ok (function_node (operator_to_function op) args))
  else if bytes_eqb op s_OR || bytes_eqb op s_AND then
    bind (app_res (m_ops_logical op l) (m_ops_logical op r))
         (fun args => Ok (function_node (operator_to_function op) args))
  else
    bind (explain l) (fun cl => bind (explain r) (fun cr =>
      Ok (function_node (operator_to_function op) [cl; cr]))).
Proof. intros. cbn [explain]. reflexivity. Qed.

Lemma ref_bin : forall op l r,
  ref (Bin op l r) =
  match chain_of op with
  | None => call (fname op) [ref l; ref r]
  | Some c => call (fname op) (s_operands c l ++ s_operands c r)
  end.
Proof. reflexivity. Qed.

Lemma fn_call : forall f args, function_node f args = call f args.
Proof. reflexivity. Qed.

(* ---- the literal reading: collect the operands, then print each of them ---- *)

Fixpoint map_res (f : expr -> res rose) (l : list expr) : res (list rose) :=
  match l with
  | [] => Ok []
  | x :: l' => bind (f x) (fun y => bind (map_res f l') (fun ys => Ok (y :: ys)))
  end.

Lemma map_res_app : forall f l1 l2,
  map_res f (l1 ++ l2) = app_res (map_res f l1) (map_res f l2).
Proof.
  intros f l1 l2. induction l1 as [|x l1 IH]; cbn [app map_res].
  - unfold app_res. cbn [bind]. destruct (map_res f l2); reflexivity.
  - rewrite IH. unfold app_res. destruct (f x); cbn [bind]; try reflexivity.
    destruct (map_res f l1); cbn [bind]; try reflexivity.
    destruct (map_res f l2); reflexivity.
Qed.

Lemma single_map_res : forall x, single (explain x) = map_res explain [x].
Proof. intros x. unfold single. cbn [map_res]. destruct (explain x); reflexivity. Qed.

Definition concat_operand (x : expr) : list expr :=
  match x with
  | EBinary opx _ _ _ => if bytes_eqb opx s_concat then collect_concat x else [x]
  | _ => [x]
  end.

Definition logical_operand (op : list N) (x : expr) : list expr :=
  match x with
  | EBinary opx _ _ parx => if bytes_eqb opx op && negb parx then collect_logical x else [x]
  | _ => [x]
  end.

Lemma m_ops_concat_collect : forall x, m_ops_concat x = map_res explain (concat_operand x).
Proof.
  induction x as [n p|v p|o x IH|opx a IHa b0 IHb parx]; try apply single_map_res.
  cbn [m_ops_concat concat_operand]. destruct (bytes_eqb opx s_concat) eqn:E; [|apply single_map_res].
  rewrite IHa, IHb, <- map_res_app. reflexivity.
Qed.

Lemma bytes_eqb_eq : forall a b0, bytes_eqb a b0 = true -> a = b0.
Proof.
  induction a as [|x a IH]; destruct b0 as [|y b0]; cbn; intros H; try discriminate; [reflexivity|].
  apply andb_prop in H as [H1 H2]. apply N.eqb_eq in H1. subst. f_equal. apply IH, H2.
Qed.

Lemma m_ops_logical_collect : forall op x,
  m_ops_logical op x = map_res explain (logical_operand op x).
Proof.
  intros op.
  induction x as [n p|v p|o x IH|opx a IHa b0 IHb parx]; try apply single_map_res.
  cbn [m_ops_logical logical_operand].
  destruct (bytes_eqb opx op && negb parx) eqn:E; [|apply single_map_res].
  apply andb_prop in E as [E1 E2]. apply bytes_eqb_eq in E1. subst opx.
  rewrite IHa, IHb, <- map_res_app. reflexivity.
Qed.

(* explainBinaryExpr as written in Go: operands := collect...(n); print each operand *)
Theorem explain_binary_unfused : forall op l r par,
  explain (EBinary op l r par) =
  if bytes_eqb op s_concat then
    bind (map_res explain (collect_concat (EBinary op l r par)))
         (fun args => Ok (function_node (operator_to_function op) args))
  else if bytes_eqb op s_OR || bytes_eqb op s_AND then
    bind (map_res explain (collect_logical (EBinary op l r par)))
         (fun args => Ok (function_node (operator_to_function op) args))
  else
    bind (explain l) (fun cl => bind (explain r) (fun cr =>
      Ok (function_node (operator_to_function op) [cl; cr]))).
Proof.
  intros op l r par. rewrite explain_binary.
  destruct (bytes_eqb op s_concat).
  - rewrite !m_ops_concat_collect, <- map_res_app. reflexivity.
  - destruct (bytes_eqb op s_OR || bytes_eqb op s_AND); [|reflexivity].
    rewrite !m_ops_logical_collect, <- map_res_app. reflexivity.
Qed.

(* ---- marking ---- *)

Lemma explain_mark : forall x, explain (mark_paren x) = explain x.
Proof. destruct x; reflexivity. Qed.

Lemma ops_logical_mark : forall op x, m_ops_logical op (mark_paren x) = single (explain x).
Proof.
  intros op x. destruct x; try reflexivity.
  cbn [mark_paren m_ops_logical negb]. rewrite andb_false_r. reflexivity.
Qed.

Definition is_concat_expr (x : expr) : bool :=
  match x with EBinary opx _ _ _ => bytes_eqb opx s_concat | _ => false end.

Lemma ops_concat_mark : forall x,
  is_concat_expr x = false -> m_ops_concat (mark_paren x) = single (explain x).
Proof.
  intros x H. destruct x; try reflexivity.
  cbn [is_concat_expr] in H. cbn [mark_paren m_ops_concat]. rewrite H. reflexivity.
Qed.

Lemma is_concat_mark : forall x, is_concat_expr (mark_paren x) = is_concat_expr x.
Proof. destruct x; reflexivity. Qed.

Definition chain_str (c : chain) : list N :=
  match c with COr => s_OR | CAnd => s_AND | CConcat => s_concat end.

Lemma mop_chain : forall op c, chain_of op = Some c -> mop op = chain_str c.
Proof. intros op c H. destruct op as [[]|[]| | | | | | | | | | | | | | | |[]|[]]; inversion H; reflexivity. Qed.

Lemma mop_nochain : forall op, chain_of op = None ->
  bytes_eqb (mop op) s_concat = false /\ bytes_eqb (mop op) s_OR = false /\
  bytes_eqb (mop op) s_AND = false.
Proof.
  intros op H.
  destruct op as [[]|[]| | | | | | | | | | | | | | | |[]|[]]; try discriminate H; repeat split; reflexivity.
Qed.

Lemma otf_fname : forall op, operator_to_function (mop op) = fname op.
Proof. destruct op as [[]|[]| | | | | | | | | | | | | | | |[]|[]]; reflexivity. Qed.

Lemma ast_not_concat : forall e,
  match strip_parens e with Bin OConcat _ _ => true | _ => false end = false ->
  is_concat_expr (ast e) = false.
Proof.
  induction e as [s|n|e1 IH|lc e1 IH|lc e1 IH|e1 IH|op l IHl r IHr]; cbn [strip_parens ast];
    intros H; try reflexivity.
  - rewrite is_concat_mark. apply IH, H.
  - cbn [is_concat_expr].
    destruct op as [[]|[]| | | | | | | | | | | | | | | |[]|[]]; try reflexivity; discriminate H.
Qed.

Lemma mark_not_plain_lit : forall x v, mark_paren x <> ELit v false.
Proof. destruct x; discriminate. Qed.

Lemma explain_neg_nonlit : forall x,
  (forall v, x <> ELit v false) ->
  explain (EUnary UMinus x) = bind (explain x) (fun c => Ok (function_node f_negate [c])).
Proof.
  intros x H. destruct x as [n p|v p|o y|opx a b0 parx]; try reflexivity.
  destruct p; [reflexivity|]. exfalso. apply (H v). reflexivity.
Qed.

Lemma explain_neg_num : forall n,
  (n <=? 9223372036854775808) = true ->
  explain (EUnary UMinus (ELit (num_lit n) false)) = Ok (negative_literal n).
Proof.
  intros n Hn. cbn [explain]. unfold num_lit, negative_literal.
  destruct (n <? 9223372036854775808); cbn [explain_negated_literal].
  - destruct (n =? 0); reflexivity.
  - rewrite Hn. destruct (n =? 0); reflexivity.
Qed.

Lemma ops_default : forall c e, (forall op l r, e <> Bin op l r) -> s_operands c e = [ref e].
Proof. intros c e H. destruct e; try reflexivity. exfalso. eapply H. reflexivity. Qed.

Theorem explain_ast_gen : forall e, wfx e ->
  explain (ast e) = Ok (ref e) /\
  m_ops_logical s_OR (ast e) = Ok (s_operands COr e) /\
  m_ops_logical s_AND (ast e) = Ok (s_operands CAnd e) /\
  (is_paren_concat e = false -> m_ops_concat (ast e) = Ok (s_operands CConcat e)).
Proof.
  unfold wfx.
  induction e as [s|n|e1 IH|lc e1 IH|lc e1 IH|e1 IH|op l IHl r IHr]; intros H; cbn [wfxb] in H.
  - repeat split; reflexivity.
  - assert (E : explain (ast (Num n)) = Ok (ref (Num n))).
    { cbn [ast explain ref]. unfold num_lit. destruct (n <? 9223372036854775808); reflexivity. }
    repeat split; try exact E; intros; cbn [ast m_ops_logical m_ops_concat] in *;
      unfold single; cbn [ast] in E; rewrite E; reflexivity.
  - destruct (IH H) as (E & _ & _ & _). cbn [ast ref].
    repeat split.
    + rewrite explain_mark. exact E.
    + rewrite ops_logical_mark, E. reflexivity.
    + rewrite ops_logical_mark, E. reflexivity.
    + intros Hc. cbn [is_paren_concat] in Hc.
      rewrite ops_concat_mark by (apply ast_not_concat; exact Hc). rewrite E. reflexivity.
  - apply andb_prop in H as [H _]. apply andb_prop in H as [H _].
    destruct (IH H) as (E & _ & _ & _).
    assert (E' : explain (ast (Not lc e1)) = Ok (ref (Not lc e1))).
    { cbn [ast explain ref]. rewrite E. reflexivity. }
    repeat split; try exact E'; intros; cbn [ast m_ops_logical m_ops_concat] in *;
      unfold single; rewrite E'; reflexivity.
  - destruct (IH H) as (E & _ & _ & _).
    assert (E' : explain (ast (NotCall lc e1)) = Ok (ref (NotCall lc e1))).
    { cbn [ast ref]. cbn [explain]. fold explain. rewrite explain_mark, E. reflexivity. }
    repeat split; try exact E'; intros; cbn [ast m_ops_logical m_ops_concat] in *;
      unfold single; rewrite E'; reflexivity.
  - apply andb_prop in H as [H Hn]. apply andb_prop in H as [H _].
    destruct (IH H) as (E & _ & _ & _).
    assert (E' : explain (ast (Neg e1)) = Ok (ref (Neg e1))).
    { cbn [ast]. destruct e1 as [s|n|e2|lc e2|lc e2|e2|op l r].
      - rewrite explain_neg_nonlit by discriminate. rewrite E. reflexivity.
      - cbn [ast ref]. apply explain_neg_num, Hn.
      - rewrite explain_neg_nonlit by (cbn [ast]; apply mark_not_plain_lit). rewrite E. reflexivity.
      - rewrite explain_neg_nonlit by discriminate. rewrite E. reflexivity.
      - rewrite explain_neg_nonlit by discriminate. rewrite E. reflexivity.
      - rewrite explain_neg_nonlit by discriminate. rewrite E. reflexivity.
      - rewrite explain_neg_nonlit by discriminate. rewrite E. reflexivity. }
    repeat split; try exact E'; intros; cbn [ast m_ops_logical m_ops_concat] in *;
      unfold single; rewrite E'; reflexivity.
  - apply andb_prop in H as [H Hx]. apply andb_prop in H as [H _].
    apply andb_prop in H as [H _]. apply andb_prop in H as [H1 H2].
    destruct (IHl H1) as (El & Ol & Al & Cl). destruct (IHr H2) as (Er & Or & Ar & Cr).
    apply negb_true_iff in Hx.
    assert (E' : explain (ast (Bin op l r)) = Ok (ref (Bin op l r))).
    { cbn [ast]. rewrite ref_bin, explain_binary, otf_fname.
      destruct (chain_of op) as [c|] eqn:Hc.
      - rewrite (mop_chain op c Hc).
        destruct c; cbn [chain_str].
        + change (bytes_eqb s_OR s_concat) with false. change (bytes_eqb s_OR s_OR) with true.
          cbv iota. cbn [orb]. rewrite Ol, Or. reflexivity.
        + change (bytes_eqb s_AND s_concat) with false. change (bytes_eqb s_AND s_OR) with false.
          change (bytes_eqb s_AND s_AND) with true.
          cbv iota. cbn [orb]. rewrite Al, Ar. reflexivity.
        + change (bytes_eqb s_concat s_concat) with true. cbv iota.
          assert (Hop : is_concat op = true) by (destruct op; try discriminate Hc; reflexivity).
          rewrite Hop in Hx. cbn [andb] in Hx. apply orb_false_elim in Hx as [Hx1 Hx2].
          rewrite (Cl Hx1), (Cr Hx2). reflexivity.
      - destruct (mop_nochain op Hc) as (N1 & N2 & N3). rewrite N1, N2, N3. cbn [orb].
        rewrite El, Er. reflexivity. }
    assert (Hops : forall c, in_chain c op = false -> s_operands c (Bin op l r) = [ref (Bin op l r)]).
    { intros c Hc. rewrite s_operands_bin, Hc. reflexivity. }
    change (ast (Bin op l r)) with (EBinary (mop op) (ast l) (ast r) false) in *.
    assert (Hm : forall s, bytes_eqb (mop op) s = false ->
                 m_ops_logical s (EBinary (mop op) (ast l) (ast r) false) = Ok [ref (Bin op l r)]).
    { intros s Hs. rewrite m_ops_logical_bin, Hs. cbn [andb]. unfold single. rewrite E'. reflexivity. }
    repeat split; try exact E'.
    + destruct (in_chain COr op) eqn:Hc.
      * assert (Hop : mop op = s_OR).
        { apply (mop_chain op COr). unfold in_chain in Hc.
          destruct (chain_of op) as [[]|]; try discriminate Hc; reflexivity. }
        rewrite m_ops_logical_bin, s_operands_bin, Hop, Hc.
        change (bytes_eqb s_OR s_OR && negb false) with true. cbv iota.
        rewrite Ol, Or. reflexivity.
      * rewrite Hops by exact Hc. apply Hm.
        destruct op as [[]|[]| | | | | | | | | | | | | | | |[]|[]]; try discriminate Hc; reflexivity.
    + destruct (in_chain CAnd op) eqn:Hc.
      * assert (Hop : mop op = s_AND).
        { apply (mop_chain op CAnd). unfold in_chain in Hc.
          destruct (chain_of op) as [[]|]; try discriminate Hc; reflexivity. }
        rewrite m_ops_logical_bin, s_operands_bin, Hop, Hc.
        change (bytes_eqb s_AND s_AND && negb false) with true. cbv iota.
        rewrite Al, Ar. reflexivity.
      * rewrite Hops by exact Hc. apply Hm.
        destruct op as [[]|[]| | | | | | | | | | | | | | | |[]|[]]; try discriminate Hc; reflexivity.
    + intros _. destruct (in_chain CConcat op) eqn:Hc.
      * assert (Hop : mop op = s_concat).
        { apply (mop_chain op CConcat). unfold in_chain in Hc.
          destruct (chain_of op) as [[]|]; try discriminate Hc; reflexivity. }
        assert (Hop' : is_concat op = true) by (destruct op; try discriminate Hc; reflexivity).
        rewrite Hop' in Hx. cbn [andb] in Hx. apply orb_false_elim in Hx as [Hx1 Hx2].
        cbn [m_ops_concat]. rewrite s_operands_bin, Hop, Hc.
        change (bytes_eqb s_concat s_concat) with true. cbv iota.
        rewrite (Cl Hx1), (Cr Hx2). reflexivity.
      * rewrite Hops by exact Hc. cbn [m_ops_concat].
        replace (bytes_eqb (mop op) s_concat) with false
          by (destruct op as [[]|[]| | | | | | | | | | | | | | | |[]|[]]; try discriminate Hc; reflexivity).
        unfold single. rewrite E'. reflexivity.
Qed.

Theorem explain_ast : forall e, wfx e -> explain (ast e) = Ok (ref e).
Proof. intros e H. apply (explain_ast_gen e H). Qed.

(* ========================================================================================== *)
(* E. the property *)

(* on layered trees the right edge is the level, and the layered grammar is part of [wfx] *)
Lemma wf_redge : forall e, wf e -> redge e = level e.
Proof.
  unfold wf.
  induction e as [s|n|e1 IH|lc e1 IH|lc e1 IH|e1 IH|op l IHl r IHr]; intros H; cbn [wfb] in H;
    cbn [redge level]; try reflexivity.
  - apply andb_prop in H as [H _]. apply andb_prop in H as [H1 H2].
    apply Nat.leb_le in H2. rewrite (IH H1). lia.
  - apply andb_prop in H as [H _]. apply andb_prop in H as [H1 H2].
    apply Nat.leb_le in H2. rewrite (IH H1). lia.
  - apply andb_prop in H as [H _]. apply andb_prop in H as [H H4].
    apply andb_prop in H as [H _]. apply andb_prop in H as [_ H2].
    apply Nat.ltb_lt in H4. rewrite (IHr H2). lia.
Qed.

Lemma wf_wfx : forall e, wf e -> wfx e.
Proof.
  unfold wfx.
  induction e as [s|n|e1 IH|lc e1 IH|lc e1 IH|e1 IH|op l IHl r IHr]; intros H;
    pose proof H as H0; unfold wf in H; cbn [wfb] in H; cbn [wfxb]; try exact H.
  - apply IH, H.
  - apply andb_prop in H as [H H3]. apply andb_prop in H as [H1 H2].
    rewrite (IH H1), H2, H3. reflexivity.
  - apply IH, H.
  - apply andb_prop in H as [H H3]. apply andb_prop in H as [H1 H2].
    rewrite (IH H1), H2, H3. reflexivity.
  - apply andb_prop in H as [H H5]. apply andb_prop in H as [H H4].
    apply andb_prop in H as [H H3]. apply andb_prop in H as [H1 H2].
    rewrite (IHl H1), (IHr H2), H4, H5. rewrite (wf_redge l H1), H3. reflexivity.
Qed.

(* every reading of the precedence climb (layered or not) *)
Theorem c08_expr_climb : forall e, wfx e -> forall rest, follow_ok rest ->
  explain_model (parse_model (print e ++ rest)) = Ok (ref e, rest).
Proof.
  intros e Hwf rest Hf. rewrite (parse_print e rest Hwf Hf).
  unfold explain_model. cbn [bind]. rewrite (explain_ast e Hwf). reflexivity.
Qed.

(* the layered grammar *)
Theorem c08_expr : forall e, wf e -> forall rest, follow_ok rest ->
  explain_model (parse_model (print e ++ rest)) = Ok (ref e, rest).
Proof. intros e Hwf. apply c08_expr_climb, wf_wfx, Hwf. Qed.

(* ========================================================================================== *)
(* F. the fuel chosen by [parse_model] is enough for EVERY token list: OutOfFuel never occurs
      (so it is not an artefact that could hide a divergence from the fuel-less Go code), and the
      parser never returns more tokens than it was given. *)

Definition shorter (r : res P) (k : nat) : Prop :=
  match r with
  | Ok (_, ts') => (length ts' <= k)%nat
  | OutOfFragment _ => True
  | OutOfFuel => False
  end.

Definition pe_ok (n : nat) (pe : N -> list item -> res P) : Prop :=
  forall p ts, (2 * length ts + 2 <= n)%nat -> shorter (pe p ts) (length ts).

Lemma shorter_bind_ok : forall (r : res P) k (f : expr -> list item -> expr),
  shorter r k -> shorter (bind r (fun '(o, ts) => Ok (f o ts, ts))) k.
Proof. intros [[o ts]| |] k f H; cbn in *; auto. Qed.

Lemma prefix_shorter : forall n pe cur rest,
  pe_ok n pe -> (2 * length (cur :: rest) <= n)%nat ->
  shorter (parse_prefix pe (cur :: rest)) (length rest).
Proof.
  intros n pe cur rest Hpe Hn. cbn [length] in Hn. unfold parse_prefix.
  destruct (it_tok cur =? T_IDENT).
  { unfold parse_identifier. repeat match goal with |- context [if ?c then _ else _] => destruct c end;
      cbn; auto. }
  destruct (it_tok cur =? T_NUMBER).
  { unfold parse_number. repeat match goal with |- context [if ?c then _ else _] => destruct c end;
      cbn; auto. }
  assert (Hr : forall p, shorter (pe p rest) (length rest)) by (intros p; apply Hpe; lia).
  destruct (it_tok cur =? T_MINUS).
  { unfold parse_unary_minus.
    destruct (peek_is rest T_INF); [exact I|].
    destruct (peek_is rest T_NUMBER && peek_is (tl rest) T_COLONCOLON); [exact I|].
    apply (shorter_bind_ok _ _ (fun o _ => EUnary UMinus o)), Hr. }
  destruct (it_tok cur =? T_NOT).
  { unfold parse_not.
    destruct (peek_is rest T_LPAREN); apply (shorter_bind_ok _ _ (fun o _ => EUnary UNot o)), Hr. }
  destruct (it_tok cur =? T_LPAREN); [|exact I].
  unfold parse_grouped.
  destruct (peek_is rest T_RPAREN); [exact I|].
  destruct (peek_is rest T_SELECT || peek_is rest T_WITH || peek_is rest T_EXPLAIN); [exact I|].
  specialize (Hr LOWEST). destruct (pe LOWEST rest) as [[o ts]| |]; cbn [bind shorter] in *; auto.
  destruct (peek_is ts T_COMMA); [exact I|].
  destruct ts as [|t ts']; [exact I|].
  destruct (it_tok t =? T_RPAREN); cbn [shorter length] in *; [lia|exact I].
Qed.

Lemma infix_shorter : forall n pe lhs cur rest,
  pe_ok n pe -> (2 * length (cur :: rest) <= n)%nat ->
  shorter (parse_infix pe lhs (cur :: rest)) (length (cur :: rest)).
Proof.
  intros n pe lhs cur rest Hpe Hn. cbn [length] in *. unfold parse_infix.
  destruct (tok_in (it_tok cur) binary_tokens).
  { unfold parse_binary.
    match goal with |- context [if ?c then _ else _] => destruct c end; [exact I|].
    match goal with |- context [pe ?p rest] =>
      pose proof (Hpe p rest) as Hr; destruct (pe p rest) as [[o ts]| |] end;
      cbn [bind shorter] in *; try (apply Hr; lia); auto.
    assert (length ts <= length rest)%nat by (apply Hr; lia). lia. }
  repeat match goal with
         | |- context [if ?c then _ else _] => destruct c
         | |- context [match lhs with _ => _ end] => destruct lhs
         end; cbn [shorter length]; auto; lia.
Qed.

Lemma fuel_enough : forall n,
  pe_ok n (parse_expr n) /\
  (forall p lhs ts, (2 * length ts + 1 <= n)%nat -> shorter (pratt_loop n p lhs ts) (length ts)).
Proof.
  induction n as [|n [IHe IHl]].
  - split; [intros p ts H|intros p lhs ts H]; lia.
  - split.
    + intros p ts Hn. cbn [parse_expr].
      destruct ts as [|cur rest]; [exact I|].
      pose proof (prefix_shorter n (parse_expr n) cur rest IHe) as Hp.
      cbn [length] in *.
      destruct (parse_prefix (parse_expr n) (cur :: rest)) as [[l ts1]| |]; cbn [bind shorter] in *;
        try (apply Hp; lia); auto.
      assert (H1 : (length ts1 <= length rest)%nat) by (apply Hp; lia).
      pose proof (IHl p l ts1) as Hl.
      destruct (pratt_loop n p l ts1) as [[e ts2]| |]; cbn [shorter] in *;
        try (apply Hl; lia); auto.
      assert (length ts2 <= length ts1)%nat by (apply Hl; lia). lia.
    + intros p lhs ts Hn. cbn [pratt_loop].
      destruct ts as [|cur rest]; [cbn; lia|].
      destruct (p <? precedence_for_current cur rest); [|cbn [shorter]; lia].
      pose proof (infix_shorter n (parse_expr n) lhs cur rest IHe) as Hi.
      cbn [length] in *.
      destruct (parse_infix (parse_expr n) lhs (cur :: rest)) as [[l' ts']| |];
        cbn [bind shorter] in *; try (apply Hi; lia); auto.
      assert (H1 : (length ts' <= S (length rest))%nat) by (apply Hi; lia).
      destruct (Nat.eqb (length ts') (S (length rest))) eqn:E; [cbn [shorter]; lia|].
      apply Nat.eqb_neq in E.
      pose proof (IHl p l' ts') as Hl.
      destruct (pratt_loop n p l' ts') as [[e ts2]| |]; cbn [shorter] in *;
        try (apply Hl; lia); auto.
      assert (length ts2 <= length ts')%nat by (apply Hl; lia). lia.
Qed.

Theorem parse_model_total : forall ts, parse_model ts <> OutOfFuel.
Proof.
  intros ts H. unfold parse_model in H.
  pose proof (proj1 (fuel_enough (fuel_for ts)) LOWEST ts) as Hs.
  rewrite H in Hs. apply Hs. unfold fuel_for. lia.
Qed.

Lemma single_fuel : forall r : res rose, r <> OutOfFuel -> single r <> OutOfFuel.
Proof. intros [x| |] H; cbn; congruence. Qed.

Lemma app_res_fuel : forall a b0 : res (list rose),
  a <> OutOfFuel -> b0 <> OutOfFuel -> app_res a b0 <> OutOfFuel.
Proof. intros [x| |] [y| |] Ha Hb; cbn; congruence. Qed.

Lemma explain_fuel : forall x,
  explain x <> OutOfFuel /\ m_ops_concat x <> OutOfFuel /\
  (forall op, m_ops_logical op x <> OutOfFuel).
Proof.
  induction x as [n p|v p|o y IHy|opx l IHl r IHr par].
  - split; [discriminate|split; [discriminate|intros op; discriminate]].
  - split; [discriminate|split; [discriminate|intros op; discriminate]].
  - destruct IHy as (Hy & _ & _).
    assert (E : explain (EUnary o y) <> OutOfFuel).
    { cbn [explain]. destruct o.
      - destruct y as [n p|v p|o' z|op l r par];
          try (destruct (explain _); cbn in *; congruence).
        destruct p; [discriminate|].
        unfold explain_negated_literal. destruct v;
          repeat match goal with |- context [if ?c then _ else _] => destruct c end; discriminate.
      - destruct (explain y); cbn in *; congruence. }
    split; [exact E|split; [apply single_fuel, E|intros op; apply single_fuel, E]].
  - destruct IHl as (Hl & Cl & Ll). destruct IHr as (Hr & Cr & Lr).
    assert (E : explain (EBinary opx l r par) <> OutOfFuel).
    { rewrite explain_binary.
      destruct (bytes_eqb opx s_concat).
      - pose proof (app_res_fuel _ _ Cl Cr) as H.
        destruct (app_res (m_ops_concat l) (m_ops_concat r)); cbn; congruence.
      - destruct (bytes_eqb opx s_OR || bytes_eqb opx s_AND).
        + pose proof (app_res_fuel _ _ (Ll opx) (Lr opx)) as H.
          destruct (app_res (m_ops_logical opx l) (m_ops_logical opx r)); cbn; congruence.
        + destruct (explain l); cbn; try congruence. destruct (explain r); cbn; congruence. }
    split; [exact E|split].
    + cbn [m_ops_concat]. destruct (bytes_eqb opx s_concat);
        [apply app_res_fuel; assumption|apply single_fuel, E].
    + intros op. rewrite m_ops_logical_bin. destruct (bytes_eqb opx op && negb par);
        [apply app_res_fuel; [apply Ll|apply Lr]|apply single_fuel, E].
Qed.

Theorem explain_model_total : forall ts, explain_model (parse_model ts) <> OutOfFuel.
Proof.
  intros ts H. pose proof (parse_model_total ts) as Hp. unfold explain_model in H.
  destruct (parse_model ts) as [[e rest]| |]; cbn [bind] in H; try discriminate; [|contradiction].
  pose proof (proj1 (explain_fuel e)) as He.
  destruct (explain e); cbn [bind] in H; try discriminate. contradiction.
Qed.
