(* C04 — the text inside a `Literal '<type>'` line cannot split the line: type expressions.

   About the model Expr/TypeModel.v and the spec Expr/TypeSpec.v (tied to /repo/parser/parser.go parseDataType,
   /repo/parser/expression.go parseCast / parseCastOperator and /repo/internal/explain/format.go FormatDataType,
   escapeStringForTypeParam, escapeStringLiteral, needsBacktickQuoting + the type line of
   explainCastExprWithAlias by the C18 correspondence run: harness/cmd/typedump vs driver/types):

     esl_byte / escape_string_literal, estp_byte / escape_type_param       the two escaping functions
     fmt_dt / fmt_param                                                    FormatDataType
     explain_type                                                          the text after "Literal " on the type line
     parse_dt / parse_params / cast_as_text / cast_op_text / run_cast_*    the parser paths that build the tree
     TypeSpec.esc / canon_ty / shown / wf_ty                               the specification

   What is proved (for EVERY set [bad] of bytes inside {0, 8, 9, 10, 12, 13}; [no_lf] = the instance {10}):

     A. spec: [shown t] avoids [bad] for EVERY type tree t, well formed or not (the whole canonical text goes
        through esc twice).
     B. model, exact: FormatDataType copies these strings to the output unescaped -- every type name, every
        element name (back-quoted or not: needsBacktickQuoting adds the back quotes, it escapes nothing), every
        identifier parameter, the operator text of 'str' = n -- and escapes string parameters (three levels).
        [avoids bad (fmt_dt d) = dt_raw_ok bad d]: the output avoids [bad] IF AND ONLY IF those raw strings do.
        explainCastExprWithAlias escapes the whole text only when the type has no parameters:
        [avoids bad (explain_type d) = explain_ok bad d].
     C. hence the hypothesis "no name contains byte 10" is necessary for a type with parameters:
        [explain_type_*_refuted] (element name, nested type name, head name, identifier parameter), and the
        parser model lets such names through: [run_cast_elem_name_refuted] (Tuple(`a<LF>b` UInt8), replayed on the
        Go code: the Literal line is split in two).
     D. well-formed trees ([wf_ty]: names are [A-Za-z_][A-Za-z0-9_]*, string arguments are arbitrary bytes):
        the text both cast positions show avoids [bad], no further hypothesis ([cast_texts_avoid]).
     E. the parser model on EVERY token list: if the value of every token other than a STRING avoids [bad]
        (in lexer terms: no quoted identifier contains such a byte), the type line both cast forms print avoids
        [bad] ([cast_as_text_avoids], [cast_op_text_avoids], [run_cast_avoids]). *)
From Coq Require Import List NArith Bool Lia ZifyN ZifyNat ZifyBool Strings.String.
From DC Require Import Base.Item Gen.TokenTable Expr.TypeBase Expr.TypeSpec Expr.TypeModel Expr.TypeProof Expr.LineSafe.
Import ListNotations.
Local Open Scope bool_scope.
Local Open Scope N_scope.

(* ------------------------------------------------------------------------------------------ *)
(* strings.Join (TypeBase.join) *)

Lemma all_tjoin : forall (P : N -> bool) sep (l : list (list N)),
  forallb P sep = true -> forallb P (TypeBase.join sep l) = forallb (forallb P) l.
Proof.
  intros P sep l Hsep. induction l as [|x r IH]; [reflexivity|].
  destruct r as [|y r].
  - cbn [TypeBase.join forallb]. rewrite andb_true_r. reflexivity.
  - change (TypeBase.join sep (x :: y :: r)) with (x ++ sep ++ TypeBase.join sep (y :: r)).
    rewrite !all_app, Hsep, IH. reflexivity.
Qed.

Lemma forallb_map_list : forall (A : Type) (f : A -> list N) (p : list N -> bool) l,
  forallb p (map f l) = forallb (fun x => p (f x)) l.
Proof. intros A f p l. induction l as [|x l IH]; [reflexivity|]. cbn [map forallb]. rewrite IH. reflexivity. Qed.

Lemma forallb_ext_Forall : forall (A : Type) (p q : A -> bool) l,
  Forall (fun x => p x = q x) l -> forallb p l = forallb q l.
Proof. intros A p q l H. induction H as [|x l Hx _ IH]; [reflexivity|]. cbn [forallb]. rewrite Hx, IH. reflexivity. Qed.

(* induction over the parsed tree (lists of parameters inside) *)
Section dtype_mutind.
  Variables (P : dtype -> Prop) (Q : param -> Prop).
  Hypothesis HDT : forall name hp ps, Forall Q ps -> P (DT name hp ps).
  Hypothesis HType : forall d, P d -> Q (PType d).
  Hypothesis HNamed : forall n d, P d -> Q (PNamed n d).
  Hypothesis HStr : forall s, Q (PStr s).
  Hypothesis HInt : forall n, Q (PInt n).
  Hypothesis HNeg : forall n, Q (PNeg n).
  Hypothesis HBin : forall l op neg n, Q (PBin l op neg n).
  Hypothesis HIdent : forall s, Q (PIdent s).

  Fixpoint dtype_ind2 (d : dtype) : P d :=
    match d with
    | DT name hp ps =>
      HDT name hp ps
        ((fix go (l : list param) : Forall Q l :=
            match l with
            | [] => Forall_nil Q
            | p :: r => Forall_cons p (param_ind2 p) (go r)
            end) ps)
    end
  with param_ind2 (p : param) : Q p :=
    match p with
    | PType d => HType d (dtype_ind2 d)
    | PNamed n d => HNamed n d (dtype_ind2 d)
    | PStr s => HStr s
    | PInt n => HInt n
    | PNeg n => HNeg n
    | PBin l op neg n => HBin l op neg n
    | PIdent s => HIdent s
    end.
End dtype_mutind.

(* ------------------------------------------------------------------------------------------ *)
(* the strings FormatDataType copies to the output unescaped *)

Fixpoint dt_raw_ok (bad : N -> bool) (d : dtype) : bool :=
  match d with
  | DT name _ ps => avoids bad name && forallb (param_raw_ok bad) ps
  end
with param_raw_ok (bad : N -> bool) (p : param) : bool :=
  match p with
  | PType d => dt_raw_ok bad d
  | PNamed n d => avoids bad n && dt_raw_ok bad d       (* the element name *)
  | PStr _ => true                                      (* escaped: every byte string *)
  | PInt _ => true
  | PNeg _ => true
  | PBin _ op _ _ => avoids bad op                      (* the string is escaped; the operator text is copied *)
  | PIdent s => avoids bad s
  end.

(* the type line: a type WITHOUT parameters is escaped as a whole by explainCastExprWithAlias *)
Definition explain_ok (bad : N -> bool) (d : option dtype) : bool :=
  match d with
  | None => true
  | Some d => match dt_params d with [] => true | _ => dt_raw_ok bad d end
  end.

(* "no element name contains a bad byte", alone (used by the refutations) *)
Fixpoint dt_elem_names_ok (bad : N -> bool) (d : dtype) : bool :=
  match d with DT _ _ ps => forallb (param_elem_names_ok bad) ps end
with param_elem_names_ok (bad : N -> bool) (p : param) : bool :=
  match p with
  | PType d => dt_elem_names_ok bad d
  | PNamed n d => avoids bad n && dt_elem_names_ok bad d
  | _ => true
  end.

Section Types.
Variable bad : N -> bool.
Hypothesis Hbad : escaped_set bad.

Lemma cst : forall s, high s = true -> avoids bad s = true.
Proof. intros s. apply (const_avoids bad s Hbad). Qed.

(* ---- the escaping functions ---- *)

Ltac esc_cases :=
  repeat match goal with
  | |- context [if ?c then _ else _] => destruct c eqn:?; [apply cst; reflexivity|]
  end;
  cbn [avoids forallb]; rewrite andb_true_r; apply negb_true_iff; apply (bad_not_esc bad Hbad);
  unfold is_esc_ctl; lia.

Lemma spec_esc_byte_avoids : forall b, avoids bad (TypeSpec.esc_byte b) = true.
Proof. intros b. unfold TypeSpec.esc_byte. esc_cases. Qed.

Lemma esl_byte_avoids : forall b, avoids bad (esl_byte b) = true.
Proof. intros b. unfold esl_byte. esc_cases. Qed.

Lemma estp_byte_avoids : forall b, avoids bad (estp_byte b) = true.
Proof. intros b. unfold estp_byte. esc_cases. Qed.

(* one level of ClickHouse escaping is enough: for EVERY byte string *)
Theorem esc_avoids : forall s, avoids bad (esc s) = true.
Proof. intros s. unfold esc, avoids. apply all_flat_map. exact spec_esc_byte_avoids. Qed.

Theorem escape_string_literal_avoids : forall s, avoids bad (escape_string_literal s) = true.
Proof. intros s. unfold escape_string_literal, avoids. apply all_flat_map. exact esl_byte_avoids. Qed.

Theorem escape_type_param_avoids : forall s, avoids bad (escape_type_param s) = true.
Proof. intros s. unfold escape_type_param, avoids. apply all_flat_map. exact estp_byte_avoids. Qed.

(* ---- A. the specification ---- *)

Theorem shown_avoids : forall t, avoids bad (shown t) = true.
Proof. intros t. unfold shown. rewrite !avoids_app, esc_avoids, (cst [92; 39]) by reflexivity. reflexivity. Qed.

(* ---- B. FormatDataType, exactly ---- *)

Lemma to_dec_avoids : forall n, avoids bad (to_dec n) = true.
Proof.
  intros n. apply (high_avoids bad Hbad). generalize (to_dec_digits n). apply all_impl.
  intros b Hb. unfold is_digit_byte in Hb. lia.
Qed.

Lemma word_bytes_avoid : forall s, forallb is_word_byte s = true -> avoids bad s = true.
Proof.
  intros s H. apply (high_avoids bad Hbad). revert H. apply all_impl.
  intros b Hb. unfold is_word_byte, is_digit_byte, is_alpha_byte in Hb. lia.
Qed.

(* needsBacktickQuoting adds the back quotes and nothing else *)
Lemma elem_name_avoids : forall n,
  avoids bad (if needs_backtick n then [96] ++ n ++ [96] else n) = avoids bad n.
Proof.
  intros n. destruct (needs_backtick n).
  - rewrite !avoids_app, (cst [96]) by reflexivity. rewrite andb_true_r. reflexivity.
  - reflexivity.
Qed.

Lemma q3_avoids : avoids bad q3 = true.
Proof. apply cst. reflexivity. Qed.

Lemma fmt_dt_unfold : forall name hp ps,
  avoids bad (fmt_dt (DT name hp ps)) = avoids bad name && forallb (fun p => avoids bad (fmt_param p)) ps.
Proof.
  intros name hp ps. destruct ps as [|p ps].
  - cbn [fmt_dt forallb]. rewrite andb_true_r. reflexivity.
  - rewrite fmt_dt_cons. rewrite !avoids_app, (cst [40]), (cst [41]) by reflexivity.
    rewrite andb_true_r. cbn [andb]. f_equal. unfold avoids at 1.
    rewrite all_tjoin by (apply cst; reflexivity). rewrite forallb_map_list. reflexivity.
Qed.

Theorem fmt_dt_avoids_exact : forall d, avoids bad (fmt_dt d) = dt_raw_ok bad d.
Proof.
  apply (dtype_ind2 (fun d => avoids bad (fmt_dt d) = dt_raw_ok bad d)
                    (fun p => avoids bad (fmt_param p) = param_raw_ok bad p)).
  - intros name hp ps HF. rewrite fmt_dt_unfold. cbn [dt_raw_ok]. f_equal. apply forallb_ext_Forall. exact HF.
  - intros d IH. exact IH.
  - intros n d IH. cbn [fmt_param param_raw_ok]. rewrite !avoids_app, elem_name_avoids, IH, (cst [32]) by reflexivity.
    reflexivity.
  - intros s. cbn [fmt_param param_raw_ok]. rewrite !avoids_app, q3_avoids, escape_type_param_avoids. reflexivity.
  - intros n. apply to_dec_avoids.
  - intros n. cbn [fmt_param param_raw_ok]. rewrite avoids_app, to_dec_avoids, (cst [45]) by reflexivity. reflexivity.
  - intros l op neg n. cbn [fmt_param param_raw_ok].
    rewrite !avoids_app, q3_avoids, escape_type_param_avoids, to_dec_avoids, (cst [32]) by reflexivity.
    destruct neg; [rewrite (cst [45]) by reflexivity|]; cbn [avoids forallb andb]; rewrite ?andb_true_r; reflexivity.
  - intros s. reflexivity.
Qed.

Theorem explain_type_avoids_exact : forall d, avoids bad (explain_type d) = explain_ok bad d.
Proof.
  intros d. unfold explain_type, explain_ok. cbv zeta.
  rewrite !avoids_app, (cst [92; 39]) by reflexivity. rewrite andb_true_r. cbn [andb].
  destruct d as [d|]; [|reflexivity].
  destruct (dt_params d); [apply escape_string_literal_avoids|apply fmt_dt_avoids_exact].
Qed.

(* the implications, as they are used *)
Theorem fmt_dt_avoids : forall d, dt_raw_ok bad d = true -> avoids bad (fmt_dt d) = true.
Proof. intros d H. rewrite fmt_dt_avoids_exact. exact H. Qed.

Theorem explain_type_avoids : forall d, explain_ok bad d = true -> avoids bad (explain_type d) = true.
Proof. intros d H. rewrite explain_type_avoids_exact. exact H. Qed.

Lemma dt_raw_explain_ok : forall d, dt_raw_ok bad d = true -> explain_ok bad (Some d) = true.
Proof. intros d H. unfold explain_ok. destruct (dt_params d); [reflexivity|exact H]. Qed.

(* a type without parameters: any name at all (a back-quoted name with a line break included) *)
Theorem explain_type_plain_avoids : forall name hp, avoids bad (explain_type (Some (DT name hp []))) = true.
Proof. intros name hp. apply explain_type_avoids. reflexivity. Qed.

(* ---- D. well-formed type trees ---- *)

Theorem wf_explain_type_avoids : forall t, wf_ty t = true -> avoids bad (explain_type (Some (expect_dt t))) = true.
Proof. intros t Hw. rewrite (explain_expect t Hw). apply shown_avoids. Qed.

(* so the raw strings of the tree parseDataType builds for a well-formed type avoid [bad] *)
Corollary wf_explain_ok : forall t, wf_ty t = true -> explain_ok bad (Some (expect_dt t)) = true.
Proof. intros t Hw. rewrite <- explain_type_avoids_exact. apply wf_explain_type_avoids, Hw. Qed.

Theorem cast_texts_avoid : forall t, wf_ty t = true ->
  (forall fuel vas rest, (fuel_ty t <= fuel)%nat ->
     exists txt, cast_as_text fuel ((T_AS, vas) :: print_ty t ++ t_rparen :: rest) = Ok (txt, rest) /\
                 avoids bad txt = true) /\
  (forall fuel vcc rest, (fuel_ty t <= fuel)%nat -> follow_ok rest = true ->
     exists txt, cast_op_text fuel ((T_COLONCOLON, vcc) :: print_ty t ++ rest) = Ok (txt, rest) /\
                 avoids bad txt = true).
Proof.
  intros t Hw. destruct (C18_casts t Hw) as [Has Hop]. split.
  - intros fuel vas rest Hf. exists (shown t). split; [apply Has, Hf|apply shown_avoids].
  - intros fuel vcc rest Hf Hfo. exists (shown t). split; [apply Hop; assumption|apply shown_avoids].
Qed.

(* ---- E. the parser model on every token list ---- *)

(* a token whose value may reach the output unescaped: every token except a STRING *)
Definition tok_fine (t : tok) : bool := tok_is T_STRING t || avoids bad (tv t).
Definition toks_fine (ts : list tok) : bool := forallb tok_fine ts.

Lemma fine_tl : forall ts, toks_fine ts = true -> toks_fine (tl ts) = true.
Proof. intros [|t ts] H; [reflexivity|]. cbn [toks_fine forallb] in H. apply andb_true_iff in H. apply H. Qed.

Lemma fine_cur : forall ts, toks_fine ts = true -> tok_fine (cur ts) = true.
Proof. intros [|t ts] H; [reflexivity|]. cbn [toks_fine forallb] in H. apply andb_true_iff in H. apply H. Qed.

Lemma fine_kind : forall k t, tok_fine t = true -> tok_is k t = true -> (k =? T_STRING) = false ->
  avoids bad (tv t) = true.
Proof.
  intros k t Hf Hk Hne. unfold tok_fine in Hf. unfold tok_is in *. apply N.eqb_eq in Hk. rewrite Hk, Hne in Hf.
  exact Hf.
Qed.

Lemma fine_name : forall t, tok_fine t = true -> is_name t = true -> avoids bad (tv t) = true.
Proof.
  intros t Hf Hn. unfold tok_fine in Hf. destruct (tok_is T_STRING t) eqn:E; [|exact Hf].
  unfold tok_is in E. apply N.eqb_eq in E. unfold is_name in Hn. rewrite E in Hn. vm_compute in Hn. discriminate.
Qed.

Lemma fine_skip : forall ts, toks_fine ts = true -> toks_fine (skip_to_rparen ts) = true.
Proof.
  induction ts as [|t r IH]; intros H; [reflexivity|]. cbn [skip_to_rparen].
  destruct (tok_is T_RPAREN t || tok_is T_EOF t); [exact H|]. apply IH. exact (fine_tl (t :: r) H).
Qed.

Lemma fine_expect : forall ts ts', expect_rparen ts = Ok ts' -> toks_fine ts = true -> toks_fine ts' = true.
Proof.
  intros ts ts' H Hf. unfold expect_rparen in H. destruct (tok_is T_RPAREN (cur ts)); [|discriminate].
  injection H as <-. apply fine_tl, Hf.
Qed.

Lemma fine_mysql : forall up ts ts', mysql_width up ts = Ok ts' -> toks_fine ts = true -> toks_fine ts' = true.
Proof.
  intros up ts ts' H Hf. unfold mysql_width in H. destruct (is_mysql_int up && tok_is T_LPAREN (cur ts)).
  - apply (fine_expect _ _ H). apply fine_skip, fine_tl, Hf.
  - injection H as <-. exact Hf.
Qed.

Definition good_st (st : list N * list tok) : Prop := avoids bad (fst st) = true /\ toks_fine (snd st) = true.

Lemma glue_good : forall st, good_st st -> is_name (cur (snd st)) = true -> good_st (glue st).
Proof.
  intros [n ts] [Hn Hts] Hname. cbn [fst snd] in *. unfold glue, good_st. cbn [fst snd]. split.
  - rewrite !avoids_app, Hn, (cst [32]) by reflexivity. cbn [andb]. apply fine_name; [apply fine_cur, Hts|exact Hname].
  - apply fine_tl, Hts.
Qed.

Lemma word_is_name : forall w ts, word_is w ts = true -> is_name (cur ts) = true.
Proof. intros w ts H. unfold word_is in H. apply andb_true_iff in H. apply H. Qed.

Lemma gvl_good : forall st, good_st st -> good_st (glue_varying_large st).
Proof.
  intros st Hg. unfold glue_varying_large.
  destruct (word_is w_VARYING (snd st)) eqn:E1; [apply glue_good; [exact Hg|exact (word_is_name _ _ E1)]|].
  destruct (word_is w_LARGE (snd st)) eqn:E2; [|exact Hg].
  pose proof (glue_good st Hg (word_is_name _ _ E2)) as Hg'. cbv zeta.
  destruct (word_is w_OBJECT (snd (glue st))) eqn:E3; [|exact Hg'].
  apply glue_good; [exact Hg'|exact (word_is_name _ _ E3)].
Qed.

Lemma name_mods_good : forall up st, good_st st -> good_st (name_mods up st).
Proof.
  intros up st Hg. unfold name_mods.
  set (st1 := if is_mysql_int up && (word_is w_UNSIGNED (snd st) || word_is w_SIGNED (snd st)) then glue st else st).
  assert (H1 : good_st st1).
  { subst st1. destruct (is_mysql_int up); cbn [andb]; [|exact Hg].
    destruct (word_is w_UNSIGNED (snd st)) eqn:Ea; cbn [orb].
    - apply glue_good; [exact Hg|exact (word_is_name _ _ Ea)].
    - destruct (word_is w_SIGNED (snd st)) eqn:Eb; [|exact Hg]. apply glue_good; [exact Hg|exact (word_is_name _ _ Eb)]. }
  clearbody st1. cbv zeta.
  set (st2 := if bytes_eqb up w_DOUBLE && word_is w_PRECISION (snd st1) then glue st1 else st1).
  assert (H2 : good_st st2).
  { subst st2. destruct (bytes_eqb up w_DOUBLE); cbn [andb]; [|exact H1].
    destruct (word_is w_PRECISION (snd st1)) eqn:Ea; [|exact H1]. apply glue_good; [exact H1|exact (word_is_name _ _ Ea)]. }
  clearbody st2.
  set (st3 := if bytes_eqb up w_CHAR || bytes_eqb up w_CHARACTER || bytes_eqb up w_NCHAR then glue_varying_large st2 else st2).
  assert (H3 : good_st st3).
  { subst st3. destruct (bytes_eqb up w_CHAR || bytes_eqb up w_CHARACTER || bytes_eqb up w_NCHAR); [apply gvl_good|]; exact H2. }
  clearbody st3.
  set (st4 := if bytes_eqb up w_BINARY then glue_varying_large st3 else st3).
  assert (H4 : good_st st4).
  { subst st4. destruct (bytes_eqb up w_BINARY); [apply gvl_good|]; exact H3. }
  clearbody st4.
  destruct (bytes_eqb up w_NATIONAL); cbn [andb]; [|exact H4].
  destruct (word_is w_CHAR (snd st4)) eqn:Ea; cbn [orb].
  - apply gvl_good, glue_good; [exact H4|exact (word_is_name _ _ Ea)].
  - destruct (word_is w_CHARACTER (snd st4)) eqn:Eb; [|exact H4].
    apply gvl_good, glue_good; [exact H4|exact (word_is_name _ _ Eb)].
Qed.

Lemma fine_signed : forall ts neg n ts', parse_signed ts = Ok (neg, n, ts') -> toks_fine ts = true -> toks_fine ts' = true.
Proof.
  intros ts neg n ts' H Hf. unfold parse_signed in H.
  destruct (tok_is T_NUMBER (cur ts)).
  - destruct (parse_number (tv (cur ts))); try discriminate. injection H as _ _ <-. apply fine_tl, Hf.
  - destruct (tok_is T_MINUS (cur ts)); [|discriminate].
    destruct (tok_is T_NUMBER (cur (tl ts)) && negb (tok_is T_COLONCOLON (peek (tl ts)))); [|discriminate].
    destruct (parse_number (tv (cur (tl ts)))); try discriminate. injection H as _ _ <-. apply fine_tl, fine_tl, Hf.
Qed.

Definition opt_param_ok (o : option param) : Prop :=
  match o with Some p => param_raw_ok bad p = true | None => True end.

Lemma fine_expr_param : forall ts o ts', parse_expr_param ts = Ok (o, ts') -> toks_fine ts = true ->
  toks_fine ts' = true /\ opt_param_ok o.
Proof.
  intros ts o ts' H Hf. unfold parse_expr_param in H. cbv zeta in H.
  destruct (tok_is T_STRING (cur ts)).
  { destruct (expr_stops (tl ts)).
    - injection H as <- <-. split; [apply fine_tl, Hf|reflexivity].
    - destruct (tok_is T_EQ (cur (tl ts))) eqn:Eq; [|discriminate].
      destruct (tok_is T_ANY (cur (tl (tl ts))) || tok_is T_ALL (cur (tl (tl ts)))); [discriminate|].
      destruct (parse_signed (tl (tl ts))) as [[[neg n] ts3]| | |] eqn:Es; try discriminate.
      destruct (expr_stops ts3); [|discriminate]. injection H as <- <-. split.
      + apply (fine_signed _ _ _ _ Es). apply fine_tl, fine_tl, Hf.
      + cbn [opt_param_ok param_raw_ok]. apply (fine_kind T_EQ); [apply fine_cur, fine_tl, Hf|exact Eq|reflexivity]. }
  destruct (tok_is T_NUMBER (cur ts)).
  { destruct (parse_number (tv (cur ts))); try discriminate. destruct (expr_stops (tl ts)); [|discriminate].
    injection H as <- <-. split; [apply fine_tl, Hf|reflexivity]. }
  destruct (tok_is T_MINUS (cur ts)).
  { destruct (parse_signed ts) as [[[neg n] ts2]| | |] eqn:Es; try discriminate.
    destruct (expr_stops ts2); [|discriminate]. injection H as <- <-. split; [exact (fine_signed _ _ _ _ Es Hf)|reflexivity]. }
  destruct (tok_is T_IDENT (cur ts)) eqn:Ei.
  { repeat match type of H with (if ?c then _ else _) = _ => destruct c; [discriminate|] end.
    destruct (expr_stops (tl ts)); [|discriminate]. injection H as <- <-. split; [apply fine_tl, Hf|].
    cbn [opt_param_ok param_raw_ok]. apply (fine_kind T_IDENT); [apply fine_cur, Hf|exact Ei|reflexivity]. }
  destruct (is_name (cur ts)); [discriminate|].
  destruct (no_prefix_tok (cur ts)); [|discriminate]. injection H as <- <-. split; [exact Hf|exact I].
Qed.

Definition opt_dt_ok (o : option dtype) : Prop :=
  match o with Some d => dt_raw_ok bad d = true | None => True end.

Lemma params_snoc_ok : forall acc p, forallb (param_raw_ok bad) acc = true -> param_raw_ok bad p = true ->
  forallb (param_raw_ok bad) (acc ++ [p]) = true.
Proof. intros acc p Ha Hp. rewrite forallb_app, Ha. cbn [forallb]. rewrite Hp. reflexivity. Qed.

Lemma parse_fine : forall fuel,
  (forall ts o ts', parse_dt fuel ts = Ok (o, ts') -> toks_fine ts = true -> toks_fine ts' = true /\ opt_dt_ok o) /\
  (forall named acc ts ps ts', parse_params fuel named acc ts = Ok (ps, ts') -> toks_fine ts = true ->
     forallb (param_raw_ok bad) acc = true -> toks_fine ts' = true /\ forallb (param_raw_ok bad) ps = true).
Proof.
  induction fuel as [|f [IHd IHp]]; [split; intros; discriminate|].
  assert (Hfin : forall acc ts ps ts', finish_m acc ts = Ok (ps, ts') -> toks_fine ts = true ->
            forallb (param_raw_ok bad) acc = true -> toks_fine ts' = true /\ forallb (param_raw_ok bad) ps = true).
  { intros acc ts ps ts' H Hf Ha. unfold finish_m in H. destruct (expect_rparen ts) as [ts2| | |] eqn:E; try discriminate.
    injection H as <- <-. split; [exact (fine_expect _ _ E Hf)|exact Ha]. }
  assert (Haft : forall named acc ts ps ts', after f named acc ts = Ok (ps, ts') -> toks_fine ts = true ->
            forallb (param_raw_ok bad) acc = true -> toks_fine ts' = true /\ forallb (param_raw_ok bad) ps = true).
  { intros named acc ts ps ts' H Hf Ha. unfold after in H. destruct (tok_is T_COMMA (cur ts)).
    - apply (IHp named acc (tl ts) ps ts' H); [apply fine_tl, Hf|exact Ha].
    - exact (Hfin acc ts ps ts' H Hf Ha). }
  split.
  - intros ts o ts' H Hf. rewrite parse_dt_eq in H.
    destruct (negb (is_name (cur ts))) eqn:En.
    { injection H as <- <-. split; [exact Hf|exact I]. }
    apply negb_false_iff in En.
    destruct (mysql_width (to_upper (tv (cur ts))) (tl ts)) as [ts1| | |] eqn:Em; try discriminate.
    pose proof (name_mods_good (to_upper (tv (cur ts))) (tv (cur ts), ts1)) as Hg.
    destruct (name_mods (to_upper (tv (cur ts))) (tv (cur ts), ts1)) as [name' ts2].
    destruct Hg as [Hn Hts2].
    { split; cbn [fst snd]; [apply fine_name; [apply fine_cur, Hf|exact En]|].
      apply (fine_mysql _ _ _ Em). apply fine_tl, Hf. }
    cbn [fst snd] in Hn, Hts2.
    destruct (tok_is T_LPAREN (cur ts2)).
    + destruct (is_object_type (to_upper name')); [discriminate|].
      destruct (parse_params f (uses_named (to_upper name')) [] (tl ts2)) as [[ps ts3]| | |] eqn:Ep; try discriminate.
      injection H as <- <-.
      destruct (IHp _ _ _ _ _ Ep (fine_tl _ Hts2) eq_refl) as [H1 H2].
      split; [exact H1|]. cbn [opt_dt_ok dt_raw_ok]. rewrite Hn, H2. reflexivity.
    + injection H as <- <-. split; [exact Hts2|]. cbn [opt_dt_ok dt_raw_ok forallb]. rewrite Hn. reflexivity.
  - intros named acc ts ps ts' H Hf Ha. rewrite parse_params_eq in H.
    destruct (tok_is T_RPAREN (cur ts) || tok_is T_EOF (cur ts) || tok_is T_COLLATE (cur ts)).
    { exact (Hfin acc ts ps ts' H Hf Ha). }
    destruct (named_param named ts) eqn:Enp.
    { assert (Hname : is_name (cur ts) = true).
      { destruct (is_name (cur ts)) eqn:E; [reflexivity|]. rewrite (named_param_nonname named ts E) in Enp. discriminate. }
      destruct (parse_dt f (tl ts)) as [[[d|] ts1]| | |] eqn:Ed; try discriminate;
        destruct (IHd _ _ _ Ed (fine_tl _ Hf)) as [H1 H2].
      - apply (Haft _ _ _ _ _ H H1). apply params_snoc_ok; [exact Ha|].
        cbn [param_raw_ok]. cbn [opt_dt_ok] in H2. rewrite H2, (fine_name _ (fine_cur _ Hf) Hname). reflexivity.
      - exact (Haft _ _ _ _ _ H H1 Ha). }
    destruct (is_name (cur ts) && is_dtn (tv (cur ts))).
    { destruct (parse_dt f ts) as [[[d|] ts1]| | |] eqn:Ed; try discriminate;
        destruct (IHd _ _ _ Ed Hf) as [H1 H2].
      - apply (Haft _ _ _ _ _ H H1). apply params_snoc_ok; [exact Ha|exact H2].
      - exact (Haft _ _ _ _ _ H H1 Ha). }
    destruct (parse_expr_param ts) as [[[p|] ts1]| | |] eqn:Ee; try discriminate;
      destruct (fine_expr_param _ _ _ Ee Hf) as [H1 H2].
    + apply (Haft _ _ _ _ _ H H1). apply params_snoc_ok; [exact Ha|exact H2].
    + exact (Haft _ _ _ _ _ H H1 Ha).
Qed.

Lemma opt_dt_explain_ok : forall o, opt_dt_ok o -> explain_ok bad o = true.
Proof. intros [d|] H; [apply dt_raw_explain_ok, H|reflexivity]. Qed.

(* CAST(x AS <tokens>) : whatever the tokens are *)
Theorem cast_as_text_avoids : forall fuel ts txt rest,
  toks_fine ts = true -> cast_as_text fuel ts = Ok (txt, rest) -> avoids bad txt = true.
Proof.
  intros fuel ts txt rest Hf H. unfold cast_as_text in H.
  destruct (parse_cast_as fuel ts) as [[d r]| | |] eqn:E; try discriminate. injection H as <- _.
  apply explain_type_avoids, opt_dt_explain_ok.
  unfold parse_cast_as in E. destruct (tok_is T_AS (cur ts)); [|discriminate].
  destruct (is_name (cur (tl ts)) && (tok_is T_AS (peek (tl ts)) || tok_is T_COMMA (peek (tl ts)))); [discriminate|].
  destruct (parse_dt fuel (tl ts)) as [[d2 ts2]| | |] eqn:Ed; try discriminate.
  destruct (expect_rparen ts2); try discriminate. injection E as <- _.
  exact (proj2 (proj1 (parse_fine fuel) _ _ _ Ed (fine_tl _ Hf))).
Qed.

(* x::<tokens> *)
Theorem cast_op_text_avoids : forall fuel ts txt rest,
  toks_fine ts = true -> cast_op_text fuel ts = Ok (txt, rest) -> avoids bad txt = true.
Proof.
  intros fuel ts txt rest Hf H. unfold cast_op_text in H.
  destruct (parse_cast_op fuel ts) as [[d r]| | |] eqn:E; try discriminate. injection H as <- _.
  apply explain_type_avoids, opt_dt_explain_ok.
  unfold parse_cast_op in E. destruct (tok_is T_COLONCOLON (cur ts)); [|discriminate].
  exact (proj2 (proj1 (parse_fine fuel) _ _ _ E (fine_tl _ Hf))).
Qed.

Lemma fine_filter : forall (p : tok -> bool) ts, toks_fine ts = true -> toks_fine (filter p ts) = true.
Proof.
  intros p ts. induction ts as [|t r IH]; intros H; [reflexivity|].
  cbn [toks_fine forallb] in H. apply andb_true_iff in H. destruct H as [Ht Hr]. cbn [filter].
  destruct (p t); [cbn [toks_fine forallb]; rewrite Ht; exact (IH Hr)|exact (IH Hr)].
Qed.

(* the entry points of the correspondence driver: the tokens of <T> as lexer.Tokenize returns them *)
Theorem run_cast_avoids : forall toks_t txt,
  toks_fine toks_t = true ->
  (run_cast_as toks_t = Ok txt -> avoids bad txt = true) /\ (run_cast_op toks_t = Ok txt -> avoids bad txt = true).
Proof.
  intros toks_t txt Hf.
  assert (Ht : toks_fine (drop_eof (strip_trivia toks_t)) = true).
  { unfold drop_eof, strip_trivia. apply fine_filter, fine_filter, Hf. }
  split; intros H.
  - unfold run_cast_as in H. cbv zeta in H. destruct (negb (names_ok (drop_eof (strip_trivia toks_t)))); [discriminate|].
    match type of H with match ?c with _ => _ end = _ => destruct c as [[tx [|x r]]| | |] eqn:E; try discriminate end.
    injection H as <-. refine (cast_as_text_avoids _ _ _ [] _ E).
    cbn [toks_fine forallb]. unfold toks_fine. rewrite forallb_app. fold (toks_fine (drop_eof (strip_trivia toks_t))).
    rewrite Ht. unfold tok_fine at 1. cbn [tv snd]. rewrite (cst [65; 83]) by reflexivity. rewrite orb_true_r.
    cbn [forallb andb]. unfold tok_fine. cbn [tv snd]. rewrite (cst [41]) by reflexivity. rewrite orb_true_r. reflexivity.
  - unfold run_cast_op in H. cbv zeta in H. destruct (negb (names_ok (drop_eof (strip_trivia toks_t)))); [discriminate|].
    match type of H with match ?c with _ => _ end = _ => destruct c as [[tx [|x r]]| | |] eqn:E; try discriminate end.
    injection H as <-. refine (cast_op_text_avoids _ _ _ [] _ E).
    cbn [toks_fine forallb]. fold (toks_fine (drop_eof (strip_trivia toks_t))). rewrite Ht.
    unfold tok_fine. cbn [tv snd]. rewrite (cst [58; 58]) by reflexivity. rewrite orb_true_r. reflexivity.
Qed.
End Types.

(* ========================================================================================== *)
(* C. the hypothesis is necessary *)

(* FULL statement one might want:
     Theorem explain_type_no_lf_full : forall d, no_lf (explain_type d) = true.
   FALSE of the model (and of FormatDataType / explainCastExprWithAlias): a type WITH parameters is printed
   unescaped apart from its string parameters. *)

(* Tuple(`a<LF>b` UInt8): the element name is back-quoted, not escaped.  Every other raw string of the tree is
   clean, so "no element name contains byte 10" cannot be dropped. *)
Definition w_elem_name : dtype := DT (B "Tuple") true [PNamed [97; 10; 98] (DT (B "UInt8") false [])].

Lemma explain_type_elem_name_refuted : exists d,
  dt_elem_names_ok is_lf d = false /\
  no_lf (explain_type (Some d)) = false /\ In 10 (explain_type (Some d)).
Proof. exists w_elem_name. split; [reflexivity|]. split; [reflexivity|]. vm_compute. tauto. Qed.

(* ... and it is not the only raw string: with clean element names, a nested type name, an identifier parameter or
   the head name carry byte 10 to the output as well (so the exact hypothesis is [dt_raw_ok], all names) *)
Lemma explain_type_other_names_refuted :
  (exists d, dt_elem_names_ok is_lf d = true /\ no_lf (explain_type (Some d)) = false) /\       (* Array(`a<LF>b`) *)
  (exists d, dt_elem_names_ok is_lf d = true /\ no_lf (explain_type (Some d)) = false) /\       (* AggregateFunction(`a<LF>b`, UInt8) *)
  (exists d, dt_elem_names_ok is_lf d = true /\ no_lf (explain_type (Some d)) = false).         (* `a<LF>b`(UInt8) *)
Proof.
  split; [|split].
  - exists (DT (B "Array") true [PType (DT [97; 10; 98] false [])]). split; reflexivity.
  - exists (DT (B "AggregateFunction") true [PIdent [97; 10; 98]; PType (DT (B "UInt8") false [])]). split; reflexivity.
  - exists (DT [97; 10; 98] true [PType (DT (B "UInt8") false [])]). split; reflexivity.
Qed.

(* the parser model builds these trees from the tokens of  Tuple(`a<LF>b` UInt8)  and  Array(`a<LF>b`)  in both cast
   positions (replayed on the Go code: `SELECT CAST(x AS Tuple(`a<LF>b` UInt8))` prints the Literal line in two
   pieces) *)
Definition w_elem_name_toks : list tok :=
  [(T_IDENT, B "Tuple"); (T_LPAREN, [40]); (T_IDENT, [97; 10; 98]); (T_IDENT, B "UInt8"); (T_RPAREN, [41]); (T_EOF, [])].
Definition w_type_name_toks : list tok :=
  [(T_ARRAY, B "Array"); (T_LPAREN, [40]); (T_IDENT, [97; 10; 98]); (T_RPAREN, [41]); (T_EOF, [])].

Lemma run_cast_elem_name_refuted :
  (exists txt, run_cast_as w_elem_name_toks = Ok txt /\ run_cast_op w_elem_name_toks = Ok txt /\ no_lf txt = false) /\
  (exists txt, run_cast_as w_type_name_toks = Ok txt /\ run_cast_op w_type_name_toks = Ok txt /\ no_lf txt = false).
Proof. split; eexists; vm_compute; repeat split; reflexivity. Qed.

(* control bytes other than the six are copied even from string parameters: DateTime('<VT>') *)
Lemma explain_type_ctl_refuted : exists d,
  dt_raw_ok is_ctl d = true /\ avoids is_ctl (explain_type (Some d)) = false.
Proof. exists (DT (B "DateTime") true [PStr [11]]). split; reflexivity. Qed.

(* ========================================================================================== *)
(* instances and non-vacuity *)

Theorem shown_no_lf : forall t, ~ In 10 (shown t).
Proof. intros t. apply no_lf_in. exact (shown_avoids is_lf escaped_set_lf t). Qed.

Theorem explain_type_no_lf : forall d, dt_raw_ok is_lf d = true -> ~ In 10 (explain_type (Some d)).
Proof.
  intros d H. apply no_lf_in. apply (explain_type_avoids is_lf escaped_set_lf). apply dt_raw_explain_ok, H.
Qed.

Theorem wf_cast_no_lf : forall t, wf_ty t = true -> ~ In 10 (explain_type (Some (expect_dt t))).
Proof. intros t Hw. apply no_lf_in. exact (wf_explain_type_avoids is_lf escaped_set_lf t Hw). Qed.

Theorem cast_tokens_no_lf : forall fuel ts txt rest, toks_fine is_lf ts = true ->
  (cast_as_text fuel ts = Ok (txt, rest) -> ~ In 10 txt) /\ (cast_op_text fuel ts = Ok (txt, rest) -> ~ In 10 txt).
Proof.
  intros fuel ts txt rest Hf. split; intros H; apply no_lf_in.
  - exact (cast_as_text_avoids is_lf escaped_set_lf fuel ts txt rest Hf H).
  - exact (cast_op_text_avoids is_lf escaped_set_lf fuel ts txt rest Hf H).
Qed.

(* Tuple(`a b` DateTime('<LF>'\<CR>'), c Enum8('x<TAB>' = -1)): a quoted element name, string arguments with LF, quote,
   backslash, CR, TAB *)
Definition ex_dtype : dtype :=
  DT (B "Tuple") true
    [PNamed (B "a b") (DT (B "DateTime") true [PStr [10; 39; 92; 13]]);
     PNamed (B "c") (DT (B "Enum8") true [PBin [120; 9] [61] true 1])].

Example ex_dtype_hyp :
  dt_raw_ok is_esc_ctl ex_dtype = true /\ needs_backtick (B "a b") = true /\
  no_esc_ctl (explain_type (Some ex_dtype)) = true /\
  explain_type (Some ex_dtype) =
    B "\'Tuple(`a b` DateTime(\\\'\\\\n\\\\\\\'\\\\\\\\\\\\r\\\'), c Enum8(\\\'x\\\\t\\\' = -1))\'".
Proof. vm_compute. repeat split; reflexivity. Qed.

(* the same as a well-formed spec tree (element names unquoted), through both cast parsers *)
Definition ex_ty : ty :=
  TApp (B "Tuple") [ANamed (B "a") (TApp (B "DateTime") [AStr [10; 39; 92; 13]]);
                    ANamed (B "c") (TApp (B "Enum8") [AEnum [120; 9] true 1])].
Example ex_ty_hyp : wf_ty ex_ty = true /\ no_esc_ctl (shown ex_ty) = true.
Proof. vm_compute. split; reflexivity. Qed.

(* tokens: a STRING token with LF is fine, the quoted name `a b` is fine *)
Example ex_toks_hyp :
  toks_fine is_lf [(T_IDENT, B "Tuple"); (T_LPAREN, [40]); (T_IDENT, B "a b"); (T_IDENT, B "DateTime"); (T_LPAREN, [40]);
                   (T_STRING, [10; 39]); (T_RPAREN, [41]); (T_RPAREN, [41]); (T_EOF, [])] = true /\
  toks_fine is_lf w_elem_name_toks = false.
Proof. vm_compute. split; reflexivity. Qed.
