(* C18 — specification: type expressions, their canonical text, their token spelling, and the text
   EXPLAIN must show for them in a cast.

   Canonical text (what ClickHouse prints, decided against the goldens in /repo/parser/testdata):
     T            ::= name | name "(" arg ", " arg ... ")"
     arg          ::= T | name " " T | digits | "-" digits | "'" esc(s) "'" | "'" esc(s) "'" " = " ["-"] digits
   with ONE escaping function [esc] (ClickHouse writeAnyEscapedString<'\''>):
     \  ->  \\      '  ->  \'      LF -> \n   TAB -> \t   CR -> \r   NUL -> \0   BS -> \b   FF -> \f
   The EXPLAIN line is  Literal  followed by [shown T] = \' esc(esc(canon T)) \' : the type text is the value of a
   string literal (quoted + escaped once by the literal dump) and the reference files are TSV (escaped once
   more).  Evidence for the three layers in the goldens:
     00298_enum_width_and_cast:  '\\' = 0          prints  \\\'\\\\\\\\\\\' = 0      (backslash -> 8)
                                 '\t\\t' = 111     prints  \\\'\\\\t\\\\\\\\t\\\'   (TAB -> \\\\t)
     the 46 `DateTime(\\\'UTC\\\')` lines                                      (delimiting quote -> \\\')
     02499/03xxx array-as-string `[\\\'Hello\\\', \\\'wo\\\\\\\'rld\\\\\\\\\\\']`   (quote inside -> 7 backslashes + ')
   and Go's own escapeStringLiteral is esc . esc (TypeProof.escape_string_literal_is_esc2), its
   escapeStringForTypeParam is esc . esc . esc (TypeProof.escape_type_param_esc3).

   Token spelling: [print_ty] gives the erased token sequence (kind, value) of a type; separators,
   comments and positions do not exist at this level (TypeBase.erase), which is how "any spacing" is stated. *)
From Coq Require Import List NArith Bool.
From DC Require Import Base.Item Gen.TokenTable Expr.TypeBase.
Import ListNotations.
Local Open Scope N_scope.

Inductive ty :=
| TName (s : list N)                         (* UInt8, String, Date, ... *)
| TApp (s : list N) (args : list arg)        (* Array(...), Tuple(...), Decimal(...), Enum8(...), ... *)
with arg :=
| AType (t : ty)                             (* nested type *)
| ANamed (s : list N) (t : ty)               (* tuple element  name Type *)
| ANum (n : N)                               (* Decimal(10, 2), FixedString(16), DateTime64(3) *)
| ANeg (n : N)                               (* -n *)
| AStr (s : list N)                          (* DateTime('UTC'), Enum('a', 'b'): the string VALUE (unescaped) *)
| AEnum (s : list N) (neg : bool) (n : N).   (* 'a' = 1, 'b' = -2 *)

Definition head_name (t : ty) : list N := match t with TName s => s | TApp s _ => s end.

(* ------------------------------------------------------------------------------------------ *)
(* escaping and canonical text *)

Definition esc_byte (b : N) : list N :=
  if b =? 92 then [92; 92]
  else if b =? 39 then [92; 39]
  else if b =? 10 then [92; 110]
  else if b =? 9 then [92; 116]
  else if b =? 13 then [92; 114]
  else if b =? 0 then [92; 48]
  else if b =? 8 then [92; 98]
  else if b =? 12 then [92; 102]
  else [b].
Definition esc (s : list N) : list N := flat_map esc_byte s.

Definition quoted (s : list N) : list N := 39 :: esc s ++ [39].
Definition sign (neg : bool) : list N := if neg then [45] else [].

Fixpoint canon_ty (t : ty) : list N :=
  match t with
  | TName s => s
  | TApp s args => s ++ [40] ++ join comma_space (map canon_arg args) ++ [41]
  end
with canon_arg (a : arg) : list N :=
  match a with
  | AType t => canon_ty t
  | ANamed s t => s ++ [32] ++ canon_ty t
  | ANum n => to_dec n
  | ANeg n => 45 :: to_dec n
  | AStr s => quoted s
  | AEnum s neg n => quoted s ++ [32; 61; 32] ++ sign neg ++ to_dec n
  end.

(* the text after "Literal " on the type line of EXPLAIN, in both cast positions *)
Definition shown (t : ty) : list N := [92; 39] ++ esc (esc (canon_ty t)) ++ [92; 39].

(* ------------------------------------------------------------------------------------------ *)
(* token spelling *)

Definition t_lparen : tok := (T_LPAREN, [40]).
Definition t_rparen : tok := (T_RPAREN, [41]).
Definition t_comma : tok := (T_COMMA, [44]).
Definition t_minus : tok := (T_MINUS, [45]).
Definition t_eq : tok := (T_EQ, [61]).
Definition t_name (s : list N) : tok := (name_tok s, s).     (* IDENT, or the keyword token for Array, Interval, key ... *)
Definition t_number (n : N) : tok := (T_NUMBER, to_dec n).
Definition t_string (s : list N) : tok := (T_STRING, s).     (* lexer.readString stores the unescaped value *)

Fixpoint print_ty (t : ty) : list tok :=
  match t with
  | TName s => [t_name s]
  | TApp s args => t_name s :: t_lparen :: join [t_comma] (map print_arg args) ++ [t_rparen]
  end
with print_arg (a : arg) : list tok :=
  match a with
  | AType t => print_ty t
  | ANamed s t => t_name s :: print_ty t
  | ANum n => [t_number n]
  | ANeg n => [t_minus; t_number n]
  | AStr s => [t_string s]
  | AEnum s neg n => t_string s :: t_eq :: (if neg then [t_minus] else []) ++ [t_number n]
  end.

(* ------------------------------------------------------------------------------------------ *)
(* well-formed type expressions: the objects the property quantifies over *)

(* [A-Za-z_][A-Za-z0-9_]*  — an unquoted ASCII identifier *)
Definition ident_ok (s : list N) : bool :=
  match s with
  | [] => false
  | b :: r => (is_alpha_byte b || (b =? 95)) && forallb is_word_byte r
  end.

(* a constructor taking arguments: one of the names parseDataType knows (isDataTypeName), except
     INT          — MySQL display width: `INT(11)` is parsed as `INT` (not a ClickHouse constructor)
     JSON, OBJECT — path arguments / SKIP clauses (outside the constructor set of the property)
   The constructor set of the property (Array Nullable LowCardinality Map Tuple Variant Decimal* FixedString
   DateTime DateTime64 Enum Enum8 Enum16) is included, in any letter case. *)
Definition ctor_ok (s : list N) : bool :=
  is_dtn s && negb (is_mysql_int (to_upper s)) && negb (is_object_type (to_upper s)).

(* first token of an argument: the parameter loop of parseDataType stops at the COLLATE keyword *)
Definition first_name_ok (s : list N) : bool := negb (name_tok s =? T_COLLATE).

(* a plain name in argument position that isDataTypeName does not know is read by the expression parser
   as an identifier; that path is modelled for IDENT tokens only (not for keywords used as names) *)
Definition arg_type_ok (t : ty) : bool :=
  first_name_ok (head_name t) &&
  match t with
  | TName s => is_dtn s || (name_tok s =? T_IDENT)
  | TApp _ _ => true
  end.

(* RESIDUAL restriction on named elements (the only one left after the fixes of F1..F4):
   an element NAME that isDataTypeName knows (date, time, string, uuid, ...) is recognised as a name only when the
   element TYPE starts with a name that isDataTypeName also knows.  `Tuple(date Date)`, `Tuple(date Array(Int32))`,
   `Tuple(d LineString)` are fine; `Tuple(date LineString)` (known name + unknown plain type) is still a parse
   error in parseDataType and stays outside wf_ty.  Every constructor with arguments is known (ctor_ok), so the
   excluded trees are exactly: ANamed s (TName s') with is_dtn s = true and is_dtn s' = false. *)
Definition elem_name_ok (s : list N) (t : ty) : bool := negb (is_dtn s) || is_dtn (head_name t).

Fixpoint wf_ty (t : ty) : bool :=
  match t with
  | TName s => ident_ok s
  | TApp s args =>
    ident_ok s && ctor_ok s && negb (match args with [] => true | _ => false end) &&
    forallb (wf_arg (uses_named (to_upper s))) args
  end
with wf_arg (named : bool) (a : arg) : bool :=
  match a with
  | AType t => wf_ty t && arg_type_ok t
  | ANamed s t => named && ident_ok s && first_name_ok s && elem_name_ok s t && wf_ty t   (* element names only in Tuple / Nested *)
  | ANum n => n <? two64
  | ANeg n => n <? two64
  | AStr _ => true                                                        (* every byte string *)
  | AEnum _ _ n => n <? two64
  end.

(* what may follow a type: not "(" and not one of the words parseDataType glues onto a preceding name
   (INT UNSIGNED, DOUBLE PRECISION, CHAR VARYING, CHAR LARGE OBJECT, NATIONAL CHAR ...).  ")" "," EOF FROM AS ... are fine. *)
Definition glue_words : list (list N) :=
  [w_UNSIGNED; w_SIGNED; w_PRECISION; w_VARYING; w_LARGE; w_CHAR; w_CHARACTER].
Definition follow_ok (rest : list tok) : bool :=
  negb (tok_is T_LPAREN (cur rest)) && negb (existsb (fun w => word_is w rest) glue_words).
