(* C04 — the text INSIDE a node line (format.go): shared vocabulary.

   A node line of EXPLAIN AST ends with byte 10.  The tree theorems of C04 (Properties/C04_*.v) treat the text of
   a line as an opaque byte string; they are about real lines only when that text contains no byte 10.  This file
   fixes the vocabulary used by LineSafeLit.v (literals: Expr/LiteralModel.v) and LineSafeType.v (types:
   Expr/TypeModel.v, Expr/TypeSpec.v):

     [avoids bad s]        no byte of s is in the set [bad : N -> bool]
     [is_lf] [is_cr]       the sets {10}, {13}
     [is_esc_ctl]          {0, 8, 9, 10, 12, 13}: exactly the control bytes that escapeStringLiteral /
                           escapeStringForTypeParam / ClickHouse's writeAnyEscapedString replace
     [is_ctl]              {0..31}
     [escaped_set bad]     bad is a subset of {0, 8, 9, 10, 12, 13}

   The printers' theorems are proved once, for EVERY [bad] with [escaped_set bad] (a Section variable), and
   instantiated with {10}, {13} and the whole set.  Bytes 1-7, 11 (VT), 14-31 and 127 are copied raw by every
   escaping function of format.go (the [*_ctl_refuted] lemmas of the two files), so {0, 8, 9, 10, 12, 13} is the
   largest set of control bytes the statements hold for.

   Everything is a [forallb]; the generic lemmas are stated for an arbitrary predicate. *)
From Coq Require Import List NArith Bool Lia ZifyN ZifyNat ZifyBool.
Import ListNotations.
Local Open Scope N_scope.

Definition avoids (bad : N -> bool) (s : list N) : bool := forallb (fun b => negb (bad b)) s.

Definition is_lf (b : N) : bool := b =? 10.
Definition is_cr (b : N) : bool := b =? 13.
Definition is_esc_ctl (b : N) : bool :=
  (b =? 0) || (b =? 8) || (b =? 9) || (b =? 10) || (b =? 12) || (b =? 13).
Definition is_ctl (b : N) : bool := b <? 32.

Definition no_lf (s : list N) : bool := avoids is_lf s.
Definition no_esc_ctl (s : list N) : bool := avoids is_esc_ctl s.

Definition escaped_set (bad : N -> bool) : Prop := forall b, bad b = true -> is_esc_ctl b = true.

(* bytes from 14 up (every constant text of the printers: letters, digits, punctuation, the space) *)
Definition high (s : list N) : bool := forallb (fun b => 14 <=? b) s.

(* ------------------------------------------------------------------------------------------ *)
(* forallb over the list operations the printers use *)

Section Forallb.
Variable P : N -> bool.

Lemma all_app : forall a b : list N, forallb P (a ++ b) = forallb P a && forallb P b.
Proof. intros a b. apply forallb_app. Qed.

Lemma all_cons : forall (x : N) s, forallb P (x :: s) = P x && forallb P s.
Proof. reflexivity. Qed.

Lemma all_in : forall s, forallb P s = true <-> (forall b, In b s -> P b = true).
Proof. intros s. apply forallb_forall. Qed.

Lemma all_flat_map : forall (f : N -> list N) s,
  (forall b, forallb P (f b) = true) -> forallb P (flat_map f s) = true.
Proof.
  intros f s Hf. induction s as [|b s IH]; [reflexivity|].
  cbn [flat_map]. rewrite all_app, Hf, IH. reflexivity.
Qed.

Lemma all_firstn : forall k s, forallb P s = true -> forallb P (firstn k s) = true.
Proof.
  induction k as [|k IH]; intros s Hs; [reflexivity|]. destruct s as [|b s]; [reflexivity|].
  cbn [firstn]. cbn [forallb] in Hs |- *. apply andb_true_iff in Hs. destruct Hs as [Hb Hs].
  rewrite Hb. cbn [andb]. apply IH, Hs.
Qed.

Lemma all_skipn : forall k s, forallb P s = true -> forallb P (skipn k s) = true.
Proof.
  induction k as [|k IH]; intros s Hs; [exact Hs|]. destruct s as [|b s]; [reflexivity|].
  cbn [skipn]. cbn [forallb] in Hs. apply andb_true_iff in Hs. apply IH, Hs.
Qed.

Lemma all_repeat : forall (x : N) k, P x = true -> forallb P (repeat x k) = true.
Proof. intros x k Hx. induction k as [|k IH]; [reflexivity|]. cbn [repeat forallb]. rewrite Hx, IH. reflexivity. Qed.

Lemma all_rev : forall s, forallb P (rev s) = forallb P s.
Proof.
  induction s as [|b s IH]; [reflexivity|]. cbn [rev]. rewrite all_app, IH. cbn [forallb].
  rewrite andb_true_r. apply andb_comm.
Qed.

Lemma all_nth : forall s (k : nat) (d : N), forallb P s = true -> P d = true -> P (nth k s d) = true.
Proof.
  induction s as [|b s IH]; intros k d Hs Hd; [destruct k; exact Hd|].
  cbn [forallb] in Hs. apply andb_true_iff in Hs. destruct Hs as [Hb Hs].
  destruct k as [|k]; [exact Hb|]. cbn [nth]. apply IH; assumption.
Qed.

Lemma all_map_seq : forall (f : nat -> N) a k, (forall i, P (f i) = true) -> forallb P (map f (seq a k)) = true.
Proof.
  intros f a k Hf. revert a. induction k as [|k IH]; intros a; [reflexivity|].
  cbn [seq map forallb]. rewrite Hf, IH. reflexivity.
Qed.
End Forallb.

Lemma all_impl : forall (P Q : N -> bool) s,
  (forall b, P b = true -> Q b = true) -> forallb P s = true -> forallb Q s = true.
Proof.
  intros P Q s H. induction s as [|b s IH]; [reflexivity|]. cbn [forallb]. intros Hs.
  apply andb_true_iff in Hs. destruct Hs as [Hb Hs]. rewrite (H b Hb), (IH Hs). reflexivity.
Qed.

(* ------------------------------------------------------------------------------------------ *)
(* avoids *)

Lemma avoids_app : forall bad a b, avoids bad (a ++ b) = avoids bad a && avoids bad b.
Proof. intros bad a b. apply all_app. Qed.

Lemma avoids_cons : forall bad x s, avoids bad (x :: s) = negb (bad x) && avoids bad s.
Proof. reflexivity. Qed.

Lemma avoids_in : forall bad s, avoids bad s = true <-> (forall b, In b s -> bad b = false).
Proof.
  intros bad s. unfold avoids. rewrite all_in. split; intros H b Hb; specialize (H b Hb).
  - apply negb_true_iff. exact H.
  - apply negb_true_iff. exact H.
Qed.

(* the reading the property text uses: byte 10 does not occur *)
Lemma no_lf_in : forall s, no_lf s = true <-> ~ In 10 s.
Proof.
  intros s. unfold no_lf. rewrite avoids_in. unfold is_lf. split.
  - intros H Hin. specialize (H 10 Hin). discriminate.
  - intros H b Hb. destruct (b =? 10) eqn:E; [|reflexivity]. apply N.eqb_eq in E. subst. contradiction.
Qed.

Lemma avoids_subset : forall (bad bad' : N -> bool) s,
  (forall b, bad' b = true -> bad b = true) -> avoids bad s = true -> avoids bad' s = true.
Proof.
  intros bad bad' s H. apply all_impl. intros b Hb. apply negb_true_iff in Hb. apply negb_true_iff.
  destruct (bad' b) eqn:E; [|reflexivity]. rewrite (H b E) in Hb. discriminate.
Qed.

Lemma escaped_set_lf : escaped_set is_lf.
Proof. intros b H. unfold is_lf in H. apply N.eqb_eq in H. subst. reflexivity. Qed.
Lemma escaped_set_cr : escaped_set is_cr.
Proof. intros b H. unfold is_cr in H. apply N.eqb_eq in H. subst. reflexivity. Qed.
Lemma escaped_set_all : escaped_set is_esc_ctl.
Proof. intros b H. exact H. Qed.

Lemma no_esc_ctl_no_lf : forall s, no_esc_ctl s = true -> no_lf s = true.
Proof. intros s. apply avoids_subset. exact escaped_set_lf. Qed.

Lemma is_esc_ctl_cases : forall b, is_esc_ctl b = true -> b = 0 \/ b = 8 \/ b = 9 \/ b = 10 \/ b = 12 \/ b = 13.
Proof. intros b H. unfold is_esc_ctl in H. lia. Qed.

Section Bad.
Variable bad : N -> bool.
Hypothesis Hbad : escaped_set bad.

Lemma bad_high_byte : forall b, 14 <= b -> bad b = false.
Proof.
  intros b Hb. destruct (bad b) eqn:E; [|reflexivity]. apply Hbad, is_esc_ctl_cases in E. lia.
Qed.

Lemma bad_not_esc : forall b, is_esc_ctl b = false -> bad b = false.
Proof. intros b Hb. destruct (bad b) eqn:E; [|reflexivity]. apply Hbad in E. congruence. Qed.

Lemma high_avoids : forall s, high s = true -> avoids bad s = true.
Proof.
  intros s. apply all_impl. intros b Hb. apply negb_true_iff, bad_high_byte. lia.
Qed.
End Bad.

(* constant texts: [apply const_avoids; [assumption|reflexivity]] *)
Lemma const_avoids : forall bad s, escaped_set bad -> high s = true -> avoids bad s = true.
Proof. intros bad s H. apply high_avoids. exact H. Qed.
