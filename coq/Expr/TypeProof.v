(* C18 — proofs about TypeModel against TypeSpec.

   Main results:
     parse_print            : parse_dt fuel (print_ty t ++ rest) = Ok (Some (expect_dt t), rest)
     fmt_expect             : fmt_dt (expect_dt t) = esc (esc (canon_ty t))
     C18_casts              : both cast parsers obtain the type and both positions show [shown t], for every wf_ty t
     C18_run                : the same for the driver entry points run_cast_as / run_cast_op
     former_F1..F4_fixed    : the four former counterexamples now print the canonical text
     residual_named_elem    : the one combination left outside wf_ty (Tuple(date LineString)) is a parse error *)
From Coq Require Import List NArith Bool Lia ZifyN ZifyNat ZifyBool.
From DC Require Import Base.Item Gen.TokenTable Expr.TypeBase Expr.TypeSpec Expr.TypeModel.
Import ListNotations.
Local Open Scope N_scope.

(* ------------------------------------------------------------------------------------------ *)
(* A. escaping *)

Definition e2 (s : list N) : list N := esc (esc s).

Lemma esc_app : forall a b, esc (a ++ b) = esc a ++ esc b.
Proof. intros a b. unfold esc. apply flat_map_app. Qed.

Lemma e2_app : forall a b, e2 (a ++ b) = e2 a ++ e2 b.
Proof. intros a b. unfold e2. rewrite !esc_app. reflexivity. Qed.

Lemma esc_cons : forall b s, esc (b :: s) = esc_byte b ++ esc s.
Proof. reflexivity. Qed.

Ltac split_byte b :=
  destruct (b =? 92) eqn:E92; [try reflexivity|
  destruct (b =? 39) eqn:E39; [try reflexivity|
  destruct (b =? 10) eqn:E10; [try reflexivity|
  destruct (b =? 9) eqn:E9; [try reflexivity|
  destruct (b =? 13) eqn:E13; [try reflexivity|
  destruct (b =? 0) eqn:E0; [try reflexivity|
  destruct (b =? 8) eqn:E8; [try reflexivity|
  destruct (b =? 12) eqn:E12; [try reflexivity|]]]]]]]].

Lemma esc_byte_other : forall b,
  (b =? 92) = false -> (b =? 39) = false -> (b =? 10) = false -> (b =? 9) = false ->
  (b =? 13) = false -> (b =? 0) = false -> (b =? 8) = false -> (b =? 12) = false ->
  esc_byte b = [b].
Proof. intros b H1 H2 H3 H4 H5 H6 H7 H8. unfold esc_byte. rewrite H1, H2, H3, H4, H5, H6, H7, H8. reflexivity. Qed.

(* Go's escapeStringLiteral is two applications of the one-level escape *)
Lemma esl_byte_esc2 : forall b, esl_byte b = esc (esc_byte b).
Proof.
  intros b. unfold esl_byte, esc_byte. split_byte b.
  cbn. rewrite app_nil_r. symmetry. apply esc_byte_other; assumption.
Qed.

Lemma escape_string_literal_is_esc2 : forall s, escape_string_literal s = esc (esc s).
Proof.
  induction s as [|b s IH]; [reflexivity|].
  unfold escape_string_literal in *. cbn [flat_map]. rewrite IH, esl_byte_esc2.
  rewrite esc_cons, esc_app. reflexivity.
Qed.

(* Go's escapeStringForTypeParam is three applications of the one-level escape *)
Lemma estp_byte_esc3 : forall b, estp_byte b = esc (esc (esc_byte b)).
Proof.
  intros b. unfold estp_byte, esc_byte. split_byte b.
  cbn. rewrite !app_nil_r. unfold esc_byte. rewrite E92, E39, E10, E9, E13, E0, E8, E12. cbn.
  unfold esc_byte. rewrite E92, E39, E10, E9, E13, E0, E8, E12. reflexivity.
Qed.

Lemma escape_type_param_esc3 : forall s, escape_type_param s = esc (esc (esc s)).
Proof.
  induction s as [|b s IH]; [reflexivity|].
  unfold escape_type_param in *. cbn [flat_map]. rewrite IH, (estp_byte_esc3 b).
  rewrite esc_cons, !esc_app. reflexivity.
Qed.

(* bytes the escape leaves alone *)
Definition plain_byte (b : N) : bool :=
  negb ((b =? 92) || (b =? 39) || (b =? 10) || (b =? 9) || (b =? 13) || (b =? 0) || (b =? 8) || (b =? 12)).

Lemma plain_byte_esc : forall b, plain_byte b = true -> esc_byte b = [b].
Proof.
  intros b H. unfold plain_byte in H. apply negb_true_iff in H.
  repeat (apply orb_false_iff in H; destruct H as [H ?]).
  apply esc_byte_other; assumption.
Qed.

Lemma plain_esc : forall s, forallb plain_byte s = true -> esc s = s.
Proof.
  induction s as [|b s IH]; intros H; [reflexivity|].
  cbn [forallb] in H. apply andb_true_iff in H. destruct H as [Hb Hs].
  rewrite esc_cons, (plain_byte_esc b Hb), (IH Hs). reflexivity.
Qed.

Lemma word_byte_plain : forall b, is_word_byte b = true -> plain_byte b = true.
Proof. intros b H. unfold is_word_byte, is_digit_byte, is_alpha_byte in H. unfold plain_byte. lia. Qed.

Lemma digit_byte_plain : forall b, is_digit_byte b = true -> plain_byte b = true.
Proof. intros b H. unfold is_digit_byte in H. unfold plain_byte. lia. Qed.

Lemma forallb_impl : forall (A : Type) (p q : A -> bool) l,
  (forall x, p x = true -> q x = true) -> forallb p l = true -> forallb q l = true.
Proof.
  intros A p q l Hpq. induction l as [|x l IH]; cbn; [reflexivity|].
  intros H. apply andb_true_iff in H. destruct H as [Hx Hl]. rewrite (Hpq x Hx), (IH Hl). reflexivity.
Qed.

Lemma ident_ok_word : forall s, ident_ok s = true -> forallb is_word_byte s = true.
Proof.
  intros [|b r] H; [discriminate|]. cbn in H. apply andb_true_iff in H. destruct H as [Hb Hr].
  cbn [forallb]. rewrite Hr, andb_true_r. unfold is_word_byte. unfold is_alpha_byte in *. lia.
Qed.

Lemma ident_esc : forall s, ident_ok s = true -> esc s = s.
Proof.
  intros s H. apply plain_esc. apply (forallb_impl _ is_word_byte); [apply word_byte_plain|].
  apply ident_ok_word, H.
Qed.

Lemma ident_e2 : forall s, ident_ok s = true -> e2 s = s.
Proof. intros s H. unfold e2. rewrite !(ident_esc s H). reflexivity. Qed.

Lemma dec_e2 : forall n, e2 (to_dec n) = to_dec n.
Proof.
  intros n. unfold e2.
  assert (H : esc (to_dec n) = to_dec n).
  { apply plain_esc. apply (forallb_impl _ is_digit_byte); [apply digit_byte_plain|apply to_dec_digits]. }
  rewrite !H. reflexivity.
Qed.

Lemma join_cons2 : forall (A : Type) (sep x y : list A) r,
  join sep (x :: y :: r) = x ++ sep ++ join sep (y :: r).
Proof. reflexivity. Qed.

Lemma e2_join : forall l, e2 (join comma_space l) = join comma_space (map e2 l).
Proof.
  induction l as [|x r IH]; [reflexivity|].
  destruct r as [|y r']; [reflexivity|].
  cbn [map] in IH |- *. rewrite !join_cons2, !e2_app, IH. reflexivity.
Qed.

(* ------------------------------------------------------------------------------------------ *)
(* B. the expected parse tree and its formatting *)

Section ty_mutind.
  Variables (P : ty -> Prop) (Q : arg -> Prop).
  Hypothesis HName : forall s, P (TName s).
  Hypothesis HApp : forall s args, Forall Q args -> P (TApp s args).
  Hypothesis HType : forall t, P t -> Q (AType t).
  Hypothesis HNamed : forall s t, P t -> Q (ANamed s t).
  Hypothesis HNum : forall n, Q (ANum n).
  Hypothesis HNeg : forall n, Q (ANeg n).
  Hypothesis HStr : forall s, Q (AStr s).
  Hypothesis HEnum : forall s neg n, Q (AEnum s neg n).

  Fixpoint ty_ind2 (t : ty) : P t :=
    match t with
    | TName s => HName s
    | TApp s args =>
      HApp s args
        ((fix go (l : list arg) : Forall Q l :=
            match l with
            | [] => Forall_nil Q
            | a :: r => Forall_cons a (arg_ind2 a) (go r)
            end) args)
    end
  with arg_ind2 (a : arg) : Q a :=
    match a with
    | AType t => HType t (ty_ind2 t)
    | ANamed s t => HNamed s t (ty_ind2 t)
    | ANum n => HNum n
    | ANeg n => HNeg n
    | AStr s => HStr s
    | AEnum s neg n => HEnum s neg n
    end.
End ty_mutind.

(* the tree parseDataType builds for print_ty t *)
Fixpoint expect_dt (t : ty) : dtype :=
  match t with
  | TName s => DT s false []
  | TApp s args => DT s true (map expect_param args)
  end
with expect_param (a : arg) : param :=
  match a with
  | AType t =>
    match t with
    | TName s => if is_dtn s then PType (expect_dt t) else PIdent s   (* unknown plain name: expression fallback *)
    | TApp _ _ => PType (expect_dt t)
    end
  | ANamed s t => PNamed s (expect_dt t)
  | ANum n => PInt n
  | ANeg n => PNeg n
  | AStr s => PStr s
  | AEnum s neg n => PBin s [61] neg n
  end.

Lemma wf_ty_app : forall s args,
  wf_ty (TApp s args) =
  ident_ok s && ctor_ok s && negb (match args with [] => true | _ => false end) &&
  forallb (wf_arg (uses_named (to_upper s))) args.
Proof. reflexivity. Qed.

Lemma fmt_dt_cons : forall n b p ps,
  fmt_dt (DT n b (p :: ps)) = n ++ [40] ++ join comma_space (map fmt_param (p :: ps)) ++ [41].
Proof. reflexivity. Qed.

Lemma wf_app_inv : forall s args, wf_ty (TApp s args) = true ->
  ident_ok s = true /\ ctor_ok s = true /\ args <> [] /\
  forallb (wf_arg (uses_named (to_upper s))) args = true.
Proof.
  intros s args H. rewrite wf_ty_app in H.
  repeat (apply andb_true_iff in H; destruct H as [H ?]).
  repeat split; try assumption.
  intros ->. discriminate.
Qed.

Definition Pf (t : ty) : Prop :=
  wf_ty t = true -> fmt_dt (expect_dt t) = e2 (canon_ty t).
Definition Qf (a : arg) : Prop :=
  forall named, wf_arg named a = true -> fmt_param (expect_param a) = e2 (canon_arg a).

Lemma fmt_args : forall named args, Forall Qf args ->
  forallb (wf_arg named) args = true ->
  map fmt_param (map expect_param args) = map e2 (map canon_arg args).
Proof.
  intros named args HF. induction HF as [|a r Ha _ IH]; intros Hw; [reflexivity|].
  cbn [forallb] in Hw. apply andb_true_iff in Hw. destruct Hw as [Hw1 Hw2].
  cbn [map]. rewrite (Ha named Hw1), (IH Hw2). reflexivity.
Qed.

Lemma needs_backtick_ident : forall s, ident_ok s = true -> needs_backtick s = false.
Proof.
  intros s H. unfold needs_backtick. rewrite (ident_ok_word s H). destruct s; reflexivity.
Qed.

Lemma fmt_expect_all : forall t, Pf t.
Proof.
  apply (ty_ind2 Pf Qf).
  - (* TName *) intros s Hw. cbn in Hw |- *. symmetry. apply ident_e2, Hw.
  - (* TApp *)
    intros s args HF Hw. apply wf_app_inv in Hw. destruct Hw as (Hs & _ & Hne & Hwa).
    destruct args as [|a r]; [congruence|].
    cbn [expect_dt canon_ty]. cbn [map]. rewrite fmt_dt_cons.
    change (expect_param a :: map expect_param r) with (map expect_param (a :: r)).
    rewrite (fmt_args _ _ HF Hwa).
    rewrite !e2_app, e2_join, (ident_e2 s Hs). reflexivity.
  - (* AType *)
    intros t IH named Hw. cbn [wf_arg] in Hw.
    apply andb_true_iff in Hw. destruct Hw as [Hwt Hat].
    destruct t as [s|s args].
    + cbn [expect_param]. destruct (is_dtn s).
      * cbn [fmt_param canon_arg]. apply IH; assumption.
      * cbn in Hwt |- *. symmetry. apply ident_e2, Hwt.
    + cbn [expect_param fmt_param canon_arg]. apply IH; assumption.
  - (* ANamed *)
    intros s t IH named Hw. cbn [wf_arg] in Hw.
    repeat (apply andb_true_iff in Hw; destruct Hw as [Hw ?]).
    cbn [expect_param fmt_param canon_arg].
    rewrite (needs_backtick_ident s) by assumption.
    rewrite (IH ltac:(assumption)), !e2_app, (ident_e2 s) by assumption. reflexivity.
  - (* ANum *) intros n named _. cbn [expect_param fmt_param canon_arg]. symmetry. apply dec_e2.
  - (* ANeg *)
    intros n named _. cbn [expect_param fmt_param canon_arg].
    change (45 :: to_dec n) with ([45] ++ to_dec n). rewrite e2_app, dec_e2. reflexivity.
  - (* AStr: every byte string *)
    intros s named _. cbn [expect_param fmt_param canon_arg].
    unfold quoted. change (39 :: esc s ++ [39]) with ([39] ++ esc s ++ [39]).
    rewrite !e2_app. unfold e2 at 2. rewrite (escape_type_param_esc3 s). reflexivity.
  - (* AEnum: every byte string *)
    intros s neg n named _. cbn [expect_param fmt_param canon_arg].
    unfold quoted. change (39 :: esc s ++ [39]) with ([39] ++ esc s ++ [39]).
    rewrite !e2_app, dec_e2. unfold e2 at 2. rewrite (escape_type_param_esc3 s).
    destruct neg; reflexivity.
Qed.

Theorem fmt_expect : forall t, wf_ty t = true ->
  fmt_dt (expect_dt t) = esc (esc (canon_ty t)).
Proof. intros t. apply fmt_expect_all. Qed.

(* ------------------------------------------------------------------------------------------ *)
(* C. the parser returns the expected tree *)

(* evaluate token tests whose value does not depend on the variables of the goal *)
Ltac simp_tok :=
  repeat match goal with
  | |- context [tok_is ?k ?t] =>
    let b := eval vm_compute in (tok_is k t) in
    match b with true => idtac | false => idtac end; change (tok_is k t) with b
  | |- context [is_name ?t] =>
    let b := eval vm_compute in (is_name t) in
    match b with true => idtac | false => idtac end; change (is_name t) with b
  | |- context [expr_stops ?t] =>
    let b := eval vm_compute in (expr_stops t) in
    match b with true => idtac | false => idtac end; change (expr_stops t) with b
  end.

Lemma is_name_t_name : forall s, is_name (t_name s) = true.
Proof. intros s. apply name_tok_is_name. Qed.

Lemma tok_is_name_false : forall k s, is_name_kind k = false -> tok_is k (t_name s) = false.
Proof.
  intros k s H. unfold tok_is, t_name, tk. cbn [fst].
  destruct (name_tok s =? k) eqn:E; [|reflexivity].
  apply N.eqb_eq in E. rewrite <- E, name_tok_is_name in H. discriminate.
Qed.

Lemma cur_print_ty : forall t tail, cur (print_ty t ++ tail) = t_name (head_name t).
Proof. intros [s|s args] tail; reflexivity. Qed.

Lemma tl_print_named : forall s t tail, tl ((t_name s :: print_ty t) ++ tail) = print_ty t ++ tail.
Proof. reflexivity. Qed.

(* a tail that starts with "," or ")" *)
Definition sep_head (tail : list tok) : bool := tok_is T_COMMA (cur tail) || tok_is T_RPAREN (cur tail).

Lemma sep_head_cases : forall tail, sep_head tail = true ->
  tk (cur tail) = T_COMMA \/ tk (cur tail) = T_RPAREN.
Proof.
  intros tail H. unfold sep_head, tok_is in H. apply orb_true_iff in H.
  destruct H as [H|H]; apply N.eqb_eq in H; auto.
Qed.

Lemma sep_tok_is : forall k tail, sep_head tail = true ->
  (T_COMMA =? k) = false -> (T_RPAREN =? k) = false -> tok_is k (cur tail) = false.
Proof.
  intros k tail H H1 H2. unfold tok_is. destruct (sep_head_cases tail H) as [E|E]; rewrite E; assumption.
Qed.

Lemma sep_is_name : forall tail, sep_head tail = true -> is_name (cur tail) = false.
Proof.
  intros tail H. unfold is_name. destruct (sep_head_cases tail H) as [E|E]; rewrite E; reflexivity.
Qed.

Lemma sep_expr_stops : forall tail, sep_head tail = true -> expr_stops tail = true.
Proof.
  intros tail H. unfold expr_stops, prec_above_lowest, tok_is.
  destruct (sep_head_cases tail H) as [E|E]; rewrite E; reflexivity.
Qed.

Lemma sep_follow_ok : forall tail, sep_head tail = true -> follow_ok tail = true.
Proof.
  intros tail H. unfold follow_ok, glue_words, word_is. cbn [existsb].
  rewrite (sep_is_name tail H), (sep_tok_is T_LPAREN tail H) by reflexivity. reflexivity.
Qed.

Lemma follow_ok_inv : forall rest, follow_ok rest = true ->
  tok_is T_LPAREN (cur rest) = false /\
  word_is w_UNSIGNED rest = false /\ word_is w_SIGNED rest = false /\ word_is w_PRECISION rest = false /\
  word_is w_VARYING rest = false /\ word_is w_LARGE rest = false /\ word_is w_CHAR rest = false /\
  word_is w_CHARACTER rest = false.
Proof.
  intros rest H. unfold follow_ok, glue_words in H. cbn [existsb] in H.
  apply andb_true_iff in H. destruct H as [H1 H2].
  apply negb_true_iff in H1. apply negb_true_iff in H2.
  repeat (apply orb_false_iff in H2; destruct H2 as [? H2]).
  repeat split; assumption.
Qed.

Lemma name_mods_noop : forall up n ts,
  word_is w_UNSIGNED ts = false -> word_is w_SIGNED ts = false -> word_is w_PRECISION ts = false ->
  word_is w_VARYING ts = false -> word_is w_LARGE ts = false -> word_is w_CHAR ts = false ->
  word_is w_CHARACTER ts = false ->
  name_mods up (n, ts) = (n, ts).
Proof.
  intros up n ts H1 H2 H3 H4 H5 H6 H7. unfold name_mods, glue_varying_large. cbv zeta.
  destruct (is_mysql_int up); destruct (bytes_eqb up w_DOUBLE);
    destruct (bytes_eqb up w_CHAR || bytes_eqb up w_CHARACTER || bytes_eqb up w_NCHAR);
    destruct (bytes_eqb up w_BINARY); destruct (bytes_eqb up w_NATIONAL);
    do 6 (cbn [andb orb snd fst]; rewrite ?H1, ?H2, ?H3, ?H4, ?H5, ?H6, ?H7);
    reflexivity.
Qed.

Lemma mysql_width_noop : forall up ts, tok_is T_LPAREN (cur ts) = false -> mysql_width up ts = Ok ts.
Proof. intros up ts H. unfold mysql_width. rewrite H, andb_false_r. reflexivity. Qed.

Lemma word_is_lparen : forall w X, word_is w (t_lparen :: X) = false.
Proof. reflexivity. Qed.

Lemma parse_number_to_dec : forall n, (n <? two64) = true -> parse_number (to_dec n) = Ok n.
Proof. intros n H. unfold parse_number. rewrite parse_dec_to_dec, H. reflexivity. Qed.

(* the end-of-iteration code of the parameter loop *)
Definition finish_m (acc : list param) (ts : list tok) : res (list param * list tok) :=
  match expect_rparen ts with
  | Ok ts' => Ok (acc, ts')
  | ParseErr => ParseErr | OOF r => OOF r | OutOfFuel => OutOfFuel
  end.
Definition after (f : nat) (named : bool) (acc : list param) (ts : list tok) : res (list param * list tok) :=
  if tok_is T_COMMA (cur ts) then parse_params f named acc (tl ts) else finish_m acc ts.

Lemma parse_params_eq : forall f named acc ts,
  parse_params (S f) named acc ts =
  if tok_is T_RPAREN (cur ts) || tok_is T_EOF (cur ts) || tok_is T_COLLATE (cur ts) then finish_m acc ts
  else if named_param named ts then
    match parse_dt f (tl ts) with
    | Ok (Some d, ts1) => after f named (acc ++ [PNamed (tv (cur ts)) d]) ts1
    | Ok (None, ts1) => after f named acc ts1
    | ParseErr => ParseErr | OOF r => OOF r | OutOfFuel => OutOfFuel
    end
  else if is_name (cur ts) && is_dtn (tv (cur ts)) then
    match parse_dt f ts with
    | Ok (Some d, ts1) => after f named (acc ++ [PType d]) ts1
    | Ok (None, ts1) => after f named acc ts1
    | ParseErr => ParseErr | OOF r => OOF r | OutOfFuel => OutOfFuel
    end
  else
    match parse_expr_param ts with
    | Ok (Some p, ts1) => after f named (acc ++ [p]) ts1
    | Ok (None, ts1) => after f named acc ts1
    | ParseErr => ParseErr | OOF r => OOF r | OutOfFuel => OutOfFuel
    end.
Proof. reflexivity. Qed.

Lemma parse_dt_eq : forall f ts,
  parse_dt (S f) ts =
  if negb (is_name (cur ts)) then Ok (None, ts)
  else
    match mysql_width (to_upper (tv (cur ts))) (tl ts) with
    | Ok ts1 =>
      let '(name', ts2) := name_mods (to_upper (tv (cur ts))) (tv (cur ts), ts1) in
      if tok_is T_LPAREN (cur ts2) then
        if is_object_type (to_upper name') then OOF OofObjectType
        else
          match parse_params f (uses_named (to_upper name')) [] (tl ts2) with
          | Ok (ps, ts3) => Ok (Some (DT name' true ps), ts3)
          | ParseErr => ParseErr | OOF r => OOF r | OutOfFuel => OutOfFuel
          end
      else Ok (Some (DT name' false []), ts2)
    | ParseErr => ParseErr | OOF r => OOF r | OutOfFuel => OutOfFuel
    end.
Proof. reflexivity. Qed.

Fixpoint fuel_ty (t : ty) : nat :=
  match t with
  | TName _ => 1%nat
  | TApp _ args => S (length args + list_sum (map fuel_arg args))
  end
with fuel_arg (a : arg) : nat :=
  match a with
  | AType t => fuel_ty t
  | ANamed _ t => fuel_ty t
  | _ => 0%nat
  end.

Definition Pp (t : ty) : Prop :=
  forall fuel rest, (fuel_ty t <= fuel)%nat -> follow_ok rest = true ->
  wf_ty t = true ->
  parse_dt fuel (print_ty t ++ rest) = Ok (Some (expect_dt t), rest).

Definition Qp (a : arg) : Prop :=
  forall named f acc tail, (fuel_arg a <= f)%nat -> sep_head tail = true ->
  wf_arg named a = true ->
  parse_params (S f) named acc (print_arg a ++ tail) = after f named (acc ++ [expect_param a]) tail.

Lemma named_param_nonname : forall named ts, is_name (cur ts) = false -> named_param named ts = false.
Proof. intros named ts H. unfold named_param. rewrite H, andb_false_r. reflexivity. Qed.

Lemma step_num : forall n, Qp (ANum n).
Proof.
  intros n named f acc tail _ Hsep Hw. cbn [wf_arg] in Hw.
  cbn [print_arg expect_param app]. rewrite parse_params_eq.
  rewrite (named_param_nonname named (t_number n :: tail)) by reflexivity.
  cbn [cur]. simp_tok. cbn [orb andb].
  unfold parse_expr_param. cbn [cur tl]. simp_tok.
  change (tv (t_number n)) with (to_dec n). rewrite (parse_number_to_dec n Hw).
  rewrite (sep_expr_stops tail Hsep). reflexivity.
Qed.

Lemma parse_signed_pos : forall n tail, (n <? two64) = true ->
  parse_signed (t_number n :: tail) = Ok (false, n, tail).
Proof.
  intros n tail H. unfold parse_signed. cbn [cur tl]. simp_tok.
  change (tv (t_number n)) with (to_dec n). rewrite (parse_number_to_dec n H). reflexivity.
Qed.

Lemma parse_signed_neg : forall n tail, (n <? two64) = true -> sep_head tail = true ->
  parse_signed (t_minus :: t_number n :: tail) = Ok (true, n, tail).
Proof.
  intros n tail H Hsep. unfold parse_signed. cbn [cur tl peek]. simp_tok.
  unfold peek. cbn [tl].
  rewrite (sep_tok_is T_COLONCOLON tail Hsep) by reflexivity. cbn [negb andb].
  change (tv (t_number n)) with (to_dec n). rewrite (parse_number_to_dec n H). reflexivity.
Qed.

Lemma step_neg : forall n, Qp (ANeg n).
Proof.
  intros n named f acc tail _ Hsep Hw. cbn [wf_arg] in Hw.
  cbn [print_arg expect_param app]. rewrite parse_params_eq.
  rewrite (named_param_nonname named (t_minus :: t_number n :: tail)) by reflexivity.
  cbn [cur]. simp_tok. cbn [orb andb].
  unfold parse_expr_param. cbn [cur tl]. simp_tok.
  rewrite (parse_signed_neg n tail Hw Hsep), (sep_expr_stops tail Hsep). reflexivity.
Qed.

Lemma step_str : forall s, Qp (AStr s).
Proof.
  intros s named f acc tail _ Hsep _.
  cbn [print_arg expect_param app]. rewrite parse_params_eq.
  rewrite (named_param_nonname named (t_string s :: tail)) by reflexivity.
  cbn [cur]. simp_tok. cbn [orb andb].
  unfold parse_expr_param. cbn [cur tl]. simp_tok.
  rewrite (sep_expr_stops tail Hsep). reflexivity.
Qed.

Lemma step_enum : forall s neg n, Qp (AEnum s neg n).
Proof.
  intros s neg n named f acc tail _ Hsep Hw. cbn [wf_arg] in Hw.
  cbn [print_arg expect_param]. rewrite parse_params_eq.
  rewrite (named_param_nonname named ((t_string s :: t_eq :: (if neg then [t_minus] else []) ++ [t_number n]) ++ tail))
    by reflexivity.
  cbn [cur app]. simp_tok. cbn [orb andb].
  unfold parse_expr_param. cbn [cur tl]. simp_tok.
  destruct neg; cbn [app cur tl]; simp_tok; cbn [orb].
  - rewrite (parse_signed_neg n tail Hw Hsep), (sep_expr_stops tail Hsep). reflexivity.
  - rewrite (parse_signed_pos n tail Hw), (sep_expr_stops tail Hsep). reflexivity.
Qed.

Lemma first_name_ok_collate : forall s, first_name_ok s = true -> tok_is T_COLLATE (t_name s) = false.
Proof. intros s H. unfold first_name_ok in H. apply negb_true_iff in H. exact H. Qed.

Lemma loop_guard_name : forall s, first_name_ok s = true ->
  tok_is T_RPAREN (t_name s) || tok_is T_EOF (t_name s) || tok_is T_COLLATE (t_name s) = false.
Proof.
  intros s H. rewrite (first_name_ok_collate s H).
  rewrite (tok_is_name_false T_RPAREN), (tok_is_name_false T_EOF) by reflexivity. reflexivity.
Qed.

Lemma ident_no_atat : forall s, ident_ok s = true ->
  match s with b1 :: b2 :: _ => (b1 =? 64) && (b2 =? 64) | _ => false end = false.
Proof.
  intros [|b [|b2 r]] H; try reflexivity.
  cbn in H. apply andb_true_iff in H. destruct H as [H _].
  assert (E : (b =? 64) = false) by (unfold is_alpha_byte in H; lia).
  rewrite E. reflexivity.
Qed.

(* an unknown plain name in argument position goes through parseIdentifierOrFunction *)
Lemma parse_expr_ident : forall s tail,
  ident_ok s = true -> (name_tok s =? T_IDENT) = true -> sep_head tail = true ->
  parse_expr_param (t_name s :: tail) = Ok (Some (PIdent s), tail).
Proof.
  intros s tail Hid Htok Hsep. unfold parse_expr_param. cbn [cur tl].
  rewrite (tok_is_name_false T_STRING), (tok_is_name_false T_NUMBER), (tok_is_name_false T_MINUS) by reflexivity.
  replace (tok_is T_IDENT (t_name s)) with true by (symmetry; exact Htok).
  rewrite (sep_tok_is T_STRING tail Hsep), (sep_tok_is T_LPAREN tail Hsep), (sep_tok_is T_DOT tail Hsep)
    by reflexivity.
  cbn [andb]. change (tv (t_name s)) with s. rewrite (ident_no_atat s Hid).
  rewrite (sep_expr_stops tail Hsep). reflexivity.
Qed.

Lemma step_type : forall t, Pp t -> Qp (AType t).
Proof.
  intros t IH named f acc tail Hf Hsep Hw.
  cbn [wf_arg fuel_arg] in Hw, Hf.
  apply andb_true_iff in Hw. destruct Hw as [Hwt Hat].
  unfold arg_type_ok in Hat. apply andb_true_iff in Hat. destruct Hat as [Hfirst Hat].
  cbn [print_arg]. rewrite parse_params_eq, (cur_print_ty t tail), (loop_guard_name _ Hfirst).
  (* isNamedParam is false: a plain name is followed by "," or ")", a constructor is a known type name *)
  assert (Hnp : named_param named (print_ty t ++ tail) = false).
  { unfold named_param. rewrite (cur_print_ty t tail), is_name_t_name.
    destruct named; [|reflexivity]. cbn [andb].
    change (tv (t_name (head_name t))) with (head_name t).
    destruct t as [s|s args].
    - unfold peek. cbn [print_ty app tl head_name].
      rewrite (sep_is_name tail Hsep), (sep_tok_is T_LPAREN tail Hsep), (sep_tok_is T_EQ tail Hsep) by reflexivity.
      cbn [orb andb negb].
      unfold sep_head in Hsep. apply orb_true_iff in Hsep. destruct Hsep as [E|E]; rewrite E; cbn [negb andb];
        rewrite ?andb_false_r; reflexivity.
    - apply wf_app_inv in Hwt. destruct Hwt as (_ & Hctor & _ & _).
      unfold ctor_ok in Hctor. apply andb_true_iff in Hctor. destruct Hctor as [Hctor _].
      apply andb_true_iff in Hctor. destruct Hctor as [Hd _].
      unfold peek. cbn [print_ty app tl cur head_name]. rewrite Hd. simp_tok. reflexivity. }
  rewrite Hnp, is_name_t_name. change (tv (t_name (head_name t))) with (head_name t). cbn [andb].
  destruct (is_dtn (head_name t)) eqn:Hd.
  - rewrite (IH f tail Hf (sep_follow_ok tail Hsep) Hwt).
    destruct t as [s|s args]; cbn [expect_param]; cbn [head_name] in Hd; [rewrite Hd|]; reflexivity.
  - destruct t as [s|s args].
    + cbn [head_name] in Hd. rewrite Hd in Hat. cbn [orb] in Hat. cbn [wf_ty] in Hwt.
      cbn [print_ty app]. rewrite (parse_expr_ident s tail Hwt Hat Hsep).
      cbn [expect_param]. rewrite Hd. reflexivity.
    + apply wf_app_inv in Hwt. destruct Hwt as (_ & Hctor & _ & _).
      unfold ctor_ok in Hctor. cbn [head_name] in Hd. rewrite Hd in Hctor. discriminate.
Qed.

Lemma step_named : forall s t, Pp t -> Qp (ANamed s t).
Proof.
  intros s t IH named f acc tail Hf Hsep Hw.
  cbn [wf_arg fuel_arg] in Hw, Hf.
  apply andb_true_iff in Hw. destruct Hw as [Hw Hwt].
  apply andb_true_iff in Hw. destruct Hw as [Hw Helem].
  apply andb_true_iff in Hw. destruct Hw as [Hw Hfirst].
  apply andb_true_iff in Hw. destruct Hw as [Hnamed Hid].
  subst named. cbn [print_arg]. rewrite parse_params_eq.
  cbn [app cur]. rewrite (loop_guard_name s Hfirst).
  assert (Hnp : named_param true ((t_name s :: print_ty t) ++ tail) = true).
  { unfold named_param, peek. cbn [app cur tl andb].
    rewrite (cur_print_ty t tail), !is_name_t_name.
    rewrite (tok_is_name_false T_EQ), (tok_is_name_false T_COMMA), (tok_is_name_false T_RPAREN) by reflexivity.
    change (tv (t_name s)) with s. change (tv (t_name (head_name t))) with (head_name t).
    unfold elem_name_ok in Helem.
    destruct (is_dtn s); [|reflexivity].
    cbn [negb orb andb] in Helem |- *. rewrite Helem. reflexivity. }
  change (t_name s :: (print_ty t ++ tail)) with ((t_name s :: print_ty t) ++ tail).
  rewrite Hnp, tl_print_named.
  rewrite (IH f tail Hf (sep_follow_ok tail Hsep) Hwt).
  reflexivity.
Qed.

Lemma after_rparen : forall f named acc rest, after f named acc (t_rparen :: rest) = Ok (acc, rest).
Proof. reflexivity. Qed.

Lemma after_comma : forall f named acc X, after f named acc (t_comma :: X) = parse_params f named acc X.
Proof. reflexivity. Qed.

Lemma parse_args : forall named args, Forall Qp args ->
  forallb (wf_arg named) args = true -> args <> [] ->
  forall fuel acc rest, (length args + list_sum (map fuel_arg args) <= fuel)%nat ->
  parse_params fuel named acc (join [t_comma] (map print_arg args) ++ t_rparen :: rest) =
  Ok (acc ++ map expect_param args, rest).
Proof.
  intros named args HF. induction HF as [|a r Ha HFr IH]; intros Hw Hne fuel acc rest Hfuel; [congruence|].
  cbn [forallb] in Hw. apply andb_true_iff in Hw. destruct Hw as [Hw1 Hw2].
  destruct r as [|b r']; cbn [length map list_sum fold_right] in Hfuel; (destruct fuel as [|f]; [lia|]).
  - cbn [map join]. rewrite (Ha named f acc (t_rparen :: rest)) by (try reflexivity; try assumption; lia).
    rewrite after_rparen. reflexivity.
  - cbn [map]. rewrite join_cons2. rewrite <- !app_assoc. cbn [app].
    rewrite (Ha named f acc (t_comma :: _)) by (try reflexivity; try assumption; lia).
    rewrite after_comma.
    change (print_arg b :: map print_arg r') with (map print_arg (b :: r')).
    rewrite IH by (try assumption; try discriminate; cbn [length map list_sum fold_right]; lia).
    rewrite <- app_assoc. reflexivity.
Qed.

Lemma ctor_ok_inv : forall s, ctor_ok s = true ->
  is_mysql_int (to_upper s) = false /\ is_object_type (to_upper s) = false.
Proof.
  intros s H. unfold ctor_ok in H.
  repeat (apply andb_true_iff in H; destruct H as [H ?]).
  split; apply negb_true_iff; assumption.
Qed.

Lemma parse_print_all : forall t, Pp t.
Proof.
  apply (ty_ind2 Pp Qp).
  - (* TName *)
    intros s fuel rest Hfuel Hfol _. cbn [fuel_ty] in Hfuel. destruct fuel as [|f]; [lia|].
    apply follow_ok_inv in Hfol. destruct Hfol as (Hlp & H1 & H2 & H3 & H4 & H5 & H6 & H7).
    cbn [print_ty app expect_dt]. rewrite parse_dt_eq. cbn [cur tl].
    rewrite is_name_t_name. cbn [negb]. change (tv (t_name s)) with s.
    rewrite (mysql_width_noop _ rest Hlp), (name_mods_noop _ s rest H1 H2 H3 H4 H5 H6 H7), Hlp.
    reflexivity.
  - (* TApp *)
    intros s args HF fuel rest Hfuel _ Hw. cbn [fuel_ty] in Hfuel. destruct fuel as [|f]; [lia|].
    apply wf_app_inv in Hw. destruct Hw as (_ & Hctor & Hne & Hwa).
    apply ctor_ok_inv in Hctor. destruct Hctor as [Hmy Hobj].
    cbn [print_ty expect_dt]. rewrite <- !app_comm_cons, <- app_assoc. cbn [app].
    rewrite parse_dt_eq. cbn [cur tl].
    rewrite is_name_t_name. cbn [negb]. change (tv (t_name s)) with s.
    unfold mysql_width. rewrite Hmy. cbn [andb].
    rewrite name_mods_noop by apply word_is_lparen.
    cbn [cur tl]. simp_tok. rewrite Hobj.
    rewrite (parse_args _ args HF Hwa Hne f [] rest) by lia.
    reflexivity.
  - exact step_type.
  - exact step_named.
  - exact step_num.
  - exact step_neg.
  - exact step_str.
  - exact step_enum.
Qed.

Theorem parse_print : forall t fuel rest,
  wf_ty t = true -> follow_ok rest = true -> (fuel_ty t <= fuel)%nat ->
  parse_dt fuel (print_ty t ++ rest) = Ok (Some (expect_dt t), rest).
Proof. intros t fuel rest Hw Hf Hfuel. apply parse_print_all; assumption. Qed.

(* ------------------------------------------------------------------------------------------ *)
(* D. the two cast positions *)

Lemma explain_expect : forall t, wf_ty t = true -> explain_type (Some (expect_dt t)) = shown t.
Proof.
  intros [s|s args] Hw.
  - unfold explain_type, shown. cbn [expect_dt dt_params fmt_dt canon_ty].
    rewrite escape_string_literal_is_esc2. reflexivity.
  - pose proof (fmt_expect _ Hw) as Hf.
    apply wf_app_inv in Hw. destruct Hw as (_ & _ & Hne & _).
    destruct args as [|a r]; [congruence|].
    unfold explain_type, shown. rewrite Hf. reflexivity.
Qed.

Lemma follow_ok_rparen : forall rest, follow_ok (t_rparen :: rest) = true.
Proof. reflexivity. Qed.

Lemma peek_print_ty_rparen : forall t rest,
  tok_is T_AS (peek (print_ty t ++ t_rparen :: rest)) || tok_is T_COMMA (peek (print_ty t ++ t_rparen :: rest)) = false.
Proof. intros [s|s args] rest; reflexivity. Qed.

(* CAST(x AS T): from the AS token on; [vas] is the spelling of AS *)
Theorem cast_as_shows : forall t, wf_ty t = true ->
  forall fuel vas rest, (fuel_ty t <= fuel)%nat ->
  cast_as_text fuel ((T_AS, vas) :: print_ty t ++ t_rparen :: rest) = Ok (shown t, rest).
Proof.
  intros t Hw fuel vas rest Hfuel. unfold cast_as_text, parse_cast_as. cbn [cur tl].
  change (tok_is T_AS (T_AS, vas)) with true. cbv iota.
  rewrite (cur_print_ty t), is_name_t_name, peek_print_ty_rparen. cbn [andb].
  rewrite (parse_print t fuel (t_rparen :: rest) Hw (follow_ok_rparen rest) Hfuel).
  change (expect_rparen (t_rparen :: rest)) with (@Ok (list tok) rest). cbv iota.
  rewrite (explain_expect t Hw). reflexivity.
Qed.

(* x::T: from the :: token on *)
Theorem cast_op_shows : forall t, wf_ty t = true ->
  forall fuel vcc rest, (fuel_ty t <= fuel)%nat -> follow_ok rest = true ->
  cast_op_text fuel ((T_COLONCOLON, vcc) :: print_ty t ++ rest) = Ok (shown t, rest).
Proof.
  intros t Hw fuel vcc rest Hfuel Hfol. unfold cast_op_text, parse_cast_op. cbn [cur tl].
  change (tok_is T_COLONCOLON (T_COLONCOLON, vcc)) with true. cbv iota.
  rewrite (parse_print t fuel rest Hw Hfol Hfuel), (explain_expect t Hw). reflexivity.
Qed.

(* C18 at full strength over wf_ty: every well-formed type expression, any nesting depth, any argument count,
   every byte string as a string argument or Enum value; both positions show the same canonical text *)
Theorem C18_casts : forall t, wf_ty t = true ->
  (forall fuel vas rest, (fuel_ty t <= fuel)%nat ->
     cast_as_text fuel ((T_AS, vas) :: print_ty t ++ t_rparen :: rest) = Ok (shown t, rest)) /\
  (forall fuel vcc rest, (fuel_ty t <= fuel)%nat -> follow_ok rest = true ->
     cast_op_text fuel ((T_COLONCOLON, vcc) :: print_ty t ++ rest) = Ok (shown t, rest)).
Proof.
  intros t Hw. split.
  - intros fuel vas rest Hfuel. apply cast_as_shows; assumption.
  - intros fuel vcc rest Hfuel Hfol. apply cast_op_shows; assumption.
Qed.

(* the same over lexer items: any spacing, comments and positions (everything [erase] forgets) *)
Corollary C18_items : forall t, wf_ty t = true ->
  forall fuel (its_as its_op : list item) vas vcc rest_as rest_op,
  (fuel_ty t <= fuel)%nat -> follow_ok rest_op = true ->
  erase its_as = (T_AS, vas) :: print_ty t ++ t_rparen :: rest_as ->
  erase its_op = (T_COLONCOLON, vcc) :: print_ty t ++ rest_op ->
  cast_as_text fuel (erase its_as) = Ok (shown t, rest_as) /\
  cast_op_text fuel (erase its_op) = Ok (shown t, rest_op).
Proof.
  intros t Hw fuel its_as its_op vas vcc rest_as rest_op Hfuel Hfol Ea Eo.
  rewrite Ea, Eo. split; [apply cast_as_shows|apply cast_op_shows]; assumption.
Qed.

(* ------------------------------------------------------------------------------------------ *)
(* E. the driver entry points *)

Definition tok_good (t : tok) : bool :=
  negb (is_trivia t) && negb (tok_is T_EOF t) && (negb (is_name t) || is_ascii (tv t)).

Lemma forallb_join : forall (p : tok -> bool) sep ls,
  forallb p sep = true -> Forall (fun l => forallb p l = true) ls -> forallb p (join sep ls) = true.
Proof.
  intros p sep ls Hsep HF. induction HF as [|x r Hx Hr IH]; [reflexivity|].
  destruct r as [|y r']; [exact Hx|].
  rewrite join_cons2, !forallb_app, Hx, Hsep, IH. reflexivity.
Qed.

Lemma ident_ascii : forall s, ident_ok s = true -> is_ascii s = true.
Proof.
  intros s H. unfold is_ascii. apply (forallb_impl _ is_word_byte); [|apply ident_ok_word, H].
  intros b Hb. unfold is_word_byte, is_digit_byte, is_alpha_byte in Hb. lia.
Qed.

Lemma tok_good_name : forall s, ident_ok s = true -> tok_good (t_name s) = true.
Proof.
  intros s H. unfold tok_good, is_trivia.
  change (tk (t_name s) =? T_WHITESPACE) with (tok_is T_WHITESPACE (t_name s)).
  change (tk (t_name s) =? T_LINE_COMMENT) with (tok_is T_LINE_COMMENT (t_name s)).
  rewrite !tok_is_name_false by reflexivity.
  change (tv (t_name s)) with s. rewrite (ident_ascii s H), orb_true_r. reflexivity.
Qed.

Definition Pg (t : ty) : Prop := wf_ty t = true -> forallb tok_good (print_ty t) = true.
Definition Qg (a : arg) : Prop := forall named, wf_arg named a = true -> forallb tok_good (print_arg a) = true.

Lemma good_args : forall named args, Forall Qg args -> forallb (wf_arg named) args = true ->
  Forall (fun l => forallb tok_good l = true) (map print_arg args).
Proof.
  intros named args HF. induction HF as [|a r Ha _ IH]; intros Hw; [constructor|].
  cbn [forallb] in Hw. apply andb_true_iff in Hw. destruct Hw as [H1 H2].
  cbn [map]. constructor; [apply (Ha named H1)|apply IH, H2].
Qed.

Lemma print_good_all : forall t, Pg t.
Proof.
  apply (ty_ind2 Pg Qg).
  - intros s Hw. cbn in Hw. cbn [print_ty forallb]. rewrite (tok_good_name s Hw). reflexivity.
  - intros s args HF Hw. apply wf_app_inv in Hw. destruct Hw as (Hs & _ & _ & Hwa).
    cbn [print_ty forallb]. rewrite (tok_good_name s Hs). cbn [andb].
    change (tok_good t_lparen) with true. cbn [andb].
    rewrite forallb_app, (forallb_join tok_good [t_comma] _ eq_refl (good_args _ _ HF Hwa)). reflexivity.
  - intros t IH named Hw. cbn [wf_arg] in Hw. apply andb_true_iff in Hw. destruct Hw as [Hw _].
    apply IH, Hw.
  - intros s t IH named Hw. cbn [wf_arg] in Hw.
    repeat (apply andb_true_iff in Hw; destruct Hw as [Hw ?]).
    cbn [print_arg forallb]. rewrite (tok_good_name s) by assumption. apply IH. assumption.
  - intros n named _. reflexivity.
  - intros n named _. reflexivity.
  - intros s named _. reflexivity.
  - intros s [|] n named _; reflexivity.
Qed.

Lemma filter_all : forall (A : Type) (p : A -> bool) l, forallb p l = true -> filter p l = l.
Proof.
  intros A p l. induction l as [|x l IH]; cbn; [reflexivity|].
  intros H. apply andb_true_iff in H. destruct H as [Hx Hl]. rewrite Hx, (IH Hl). reflexivity.
Qed.

Lemma print_clean : forall t, wf_ty t = true ->
  drop_eof (strip_trivia (print_ty t)) = print_ty t /\ names_ok (print_ty t) = true.
Proof.
  intros t Hw. pose proof (print_good_all t Hw) as Hg. split.
  - unfold drop_eof, strip_trivia.
    rewrite (filter_all _ (fun t0 => negb (is_trivia t0))).
    + apply filter_all. revert Hg. apply forallb_impl. intros x Hx. unfold tok_good in Hx.
      destruct (negb (tok_is T_EOF x)); [reflexivity|]. rewrite andb_false_r in Hx. discriminate.
    + revert Hg. apply forallb_impl. intros x Hx. unfold tok_good in Hx.
      destruct (negb (is_trivia x)); [reflexivity|discriminate].
  - unfold names_ok. revert Hg. apply forallb_impl. intros x Hx. unfold tok_good in Hx.
    apply andb_true_iff in Hx. destruct Hx as [_ Hx]. unfold name_ok.
    destruct (negb (is_name x)); [reflexivity|]. cbn [orb] in Hx |- *. rewrite Hx. reflexivity.
Qed.

Lemma join_length : forall (A : Type) (c : A) (ls : list (list A)),
  (list_sum (map (@length A) ls) + length ls <= length (join [c] ls) + 1)%nat.
Proof.
  intros A c ls. induction ls as [|x r IH]; [cbn; lia|].
  destruct r as [|y r'].
  - cbn. lia.
  - rewrite join_cons2, !app_length. unfold list_sum in *. cbn [map fold_right length] in IH |- *. lia.
Qed.

Definition Pl (t : ty) : Prop := (fuel_ty t <= length (print_ty t))%nat.
Definition Ql (a : arg) : Prop := (fuel_arg a <= length (print_arg a))%nat.

Lemma fuel_args_le : forall args, Forall Ql args ->
  (list_sum (map fuel_arg args) <= list_sum (map (@length tok) (map print_arg args)))%nat.
Proof.
  intros args HF. induction HF as [|a r Ha _ IH]; [cbn; lia|].
  unfold list_sum in *. cbn [map fold_right] in IH |- *. unfold Ql in Ha. lia.
Qed.

Lemma fuel_le_tokens_all : forall t, Pl t.
Proof.
  apply (ty_ind2 Pl Ql); unfold Pl, Ql.
  - intros s. cbn. lia.
  - intros s args HF. cbn [fuel_ty print_ty length]. rewrite app_length. cbn [length].
    pose proof (fuel_args_le args HF) as H1.
    pose proof (join_length tok t_comma (map print_arg args)) as H2.
    rewrite map_length in H2. lia.
  - intros t IH. exact IH.
  - intros s t IH. cbn [fuel_arg print_arg length]. lia.
  - intros n. cbn. lia.
  - intros n. cbn. lia.
  - intros s. cbn. lia.
  - intros s neg n. cbn [fuel_arg]. lia.
Qed.

Theorem C18_run : forall t, wf_ty t = true ->
  forall toks, drop_eof (strip_trivia toks) = print_ty t ->
  run_cast_as toks = Ok (shown t) /\ run_cast_op toks = Ok (shown t).
Proof.
  intros t Hw toks E. destruct (print_clean t Hw) as [_ Hascii].
  assert (Hfuel : (fuel_ty t <= fuel_for (print_ty t))%nat).
  { pose proof (fuel_le_tokens_all t) as H. unfold Pl in H. unfold fuel_for. lia. }
  unfold run_cast_as, run_cast_op. rewrite E, Hascii. cbn [negb]. split.
  - change ((T_AS, [65; 83]) :: print_ty t ++ [(T_RPAREN, [41])])
      with ((T_AS, [65; 83]) :: print_ty t ++ t_rparen :: []).
    rewrite (cast_as_shows t Hw _ _ [] Hfuel). reflexivity.
  - rewrite <- (app_nil_r (print_ty t)) at 2.
    rewrite (cast_op_shows t Hw _ _ [] Hfuel eq_refl). reflexivity.
Qed.

(* what the lexer hands over for a type written with any separators: trivia anywhere, EOF at the end *)
Corollary C18_run_print : forall t, wf_ty t = true ->
  run_cast_as (print_ty t ++ [eof_tok]) = Ok (shown t) /\ run_cast_op (print_ty t ++ [eof_tok]) = Ok (shown t).
Proof.
  intros t Hw. apply C18_run; try assumption.
  destruct (print_clean t Hw) as [Hclean _].
  unfold drop_eof, strip_trivia in *. rewrite !filter_app, Hclean. cbn. apply app_nil_r.
Qed.

Theorem parse_and_print : forall t fuel rest,
  wf_ty t = true -> follow_ok rest = true -> (fuel_ty t <= fuel)%nat ->
  parse_dt fuel (print_ty t ++ rest) = Ok (Some (expect_dt t), rest) /\
  fmt_dt (expect_dt t) = esc (esc (canon_ty t)).
Proof.
  intros t fuel rest Hw Hf Hfuel. split; [apply parse_print|apply fmt_expect]; assumption.
Qed.

(* ------------------------------------------------------------------------------------------ *)
(* F. the four former counterexamples (findings F1..F4, fixed in /repo by 32c2210d9 1efc0f566 42e55a7bf 85b302a0b):
      each is well-formed and now prints the canonical text in both positions.  The equalities with [shown]
      are instances of C18_run_print; they are also evaluated here, with the expected text written out. *)
From Coq Require Import Strings.String Strings.Ascii.

Definition B (s : string) : list N := map N_of_ascii (list_ascii_of_string s).

(* the name guard of the entry points ([name_ok]): ASCII names pass (used above); a non-ASCII name passes iff
   some rune of it upper-cases to a rune >= 0x80 (then strings.ToUpper(name) is not an ASCII string) *)
Lemma name_ok_ascii : forall s, is_ascii s = true -> name_ok s = true.
Proof. intros s H. unfold name_ok. rewrite H. reflexivity. Qed.

(* refused: `ſtring` (U+017F LATIN SMALL LETTER LONG S upper-cases to 'S': strings.ToUpper gives "STRING", which
   isDataTypeName knows, while the ASCII-only [to_upper] does not), and `ı` (U+0131, upper-cases to 'I') *)
Example name_refused :
  name_ok [197; 191; 116; 114; 105; 110; 103] = false /\ name_ok [196; 177] = false /\
  run_cast_as [(T_IDENT, [84; 117; 112; 108; 101]); (T_LPAREN, [40]); (T_IDENT, [197; 191; 116; 114; 105; 110; 103]);
               (T_IDENT, [68; 97; 116; 101]); (T_RPAREN, [41]); (T_EOF, [])] = OOF OofNonAsciiName.
Proof. vm_compute. repeat split; reflexivity. Qed.

(* accepted: `é` (U+00E9 -> U+00C9), `имя` (-> ИМЯ), `日本` (no case), KELVIN SIGN U+212A (already upper case:
   unicode.ToUpper leaves it, only ToLower maps it to 'k'), a stray continuation byte (strings.ToUpper writes U+FFFD);
   Tuple(`é` Date) then shows the element name in backticks, in both positions *)
Example name_accepted :
  name_ok [195; 169] = true /\ name_ok [208; 184; 208; 188; 209; 143] = true /\
  name_ok [230; 151; 165; 230; 156; 172] = true /\ name_ok [226; 132; 170] = true /\ name_ok [97; 128] = true /\
  let toks := [(T_IDENT, [84; 117; 112; 108; 101]); (T_LPAREN, [40]); (T_IDENT, [195; 169]);
               (T_IDENT, [68; 97; 116; 101]); (T_RPAREN, [41]); (T_EOF, [])] in
  run_cast_as toks = Ok (B "\'Tuple(`" ++ [195; 169] ++ B "` Date)\'") /\
  run_cast_op toks = Ok (B "\'Tuple(`" ++ [195; 169] ++ B "` Date)\'").
Proof. vm_compute. repeat split; reflexivity. Qed.


(* F1  DateTime('it's'): a plain string argument is escaped like an Enum value *)
Definition wit_F1 : ty := TApp (B "DateTime") [AStr (B "it's")].
(* F2  Enum8('it's' = 1): the quote takes 7 backslashes *)
Definition wit_F2 : ty := TApp (B "Enum8") [AEnum (B "it's") false 1].
(* F3  Tuple(LineString, String): an unknown plain name followed by "," keeps its place *)
Definition wit_F3 : ty := TApp (B "Tuple") [AType (TName (B "LineString")); AType (TName (B "String"))].
(* F4  Tuple(date Array(Int32)): element name that isDataTypeName knows, before the keyword token Array *)
Definition wit_F4 : ty := TApp (B "Tuple") [ANamed (B "date") (TApp (B "Array") [AType (TName (B "Int32"))])].

Definition shows (t : ty) (text : list N) : Prop :=
  wf_ty t = true /\ shown t = text /\
  run_cast_as (print_ty t ++ [eof_tok]) = Ok text /\ run_cast_op (print_ty t ++ [eof_tok]) = Ok text.

Lemma former_F1_fixed : shows wit_F1 (B "\'DateTime(\\\'it\\\\\\\'s\\\')\'").
Proof. vm_compute. repeat split; reflexivity. Qed.

Lemma former_F2_fixed : shows wit_F2 (B "\'Enum8(\\\'it\\\\\\\'s\\\' = 1)\'").
Proof. vm_compute. repeat split; reflexivity. Qed.

Lemma former_F3_fixed : shows wit_F3 (B "\'Tuple(LineString, String)\'").
Proof. vm_compute. repeat split; reflexivity. Qed.

Lemma former_F4_fixed : shows wit_F4 (B "\'Tuple(date Array(Int32))\'").
Proof. vm_compute. repeat split; reflexivity. Qed.

Theorem former_findings_fixed :
  shows wit_F1 (B "\'DateTime(\\\'it\\\\\\\'s\\\')\'") /\
  shows wit_F2 (B "\'Enum8(\\\'it\\\\\\\'s\\\' = 1)\'") /\
  shows wit_F3 (B "\'Tuple(LineString, String)\'") /\
  shows wit_F4 (B "\'Tuple(date Array(Int32))\'").
Proof. exact (conj former_F1_fixed (conj former_F2_fixed (conj former_F3_fixed former_F4_fixed))). Qed.

(* the residual restriction of wf_ty (TypeSpec.elem_name_ok) is needed: an element name that isDataTypeName knows
   before a plain type name that it does not know is still a parse error in both positions *)
Definition residual_ty : ty := TApp (B "Tuple") [ANamed (B "date") (TName (B "LineString"))].

Lemma residual_named_elem :
  wf_ty residual_ty = false /\
  run_cast_as (print_ty residual_ty ++ [eof_tok]) = ParseErr /\
  run_cast_op (print_ty residual_ty ++ [eof_tok]) = ParseErr.
Proof. vm_compute. repeat split; reflexivity. Qed.

(* ------------------------------------------------------------------------------------------ *)
(* G. a non-trivial object satisfying the hypotheses *)

(* Map(String, Array(Tuple(a Nullable(DateTime64(3, 'UTC')), date Array(Enum8('x\y' = -1, 'it''s' = 2)),
                            LineString, Decimal(10, 2)))) *)
Definition example_ty : ty :=
  TApp (B "Map")
    [ AType (TName (B "String"))
    ; AType (TApp (B "Array")
        [ AType (TApp (B "Tuple")
            [ ANamed (B "a") (TApp (B "Nullable") [AType (TApp (B "DateTime64") [ANum 3; AStr (B "UTC")])])
            ; ANamed (B "date") (TApp (B "Array") [AType (TApp (B "Enum8") [AEnum (B "x\y") true 1; AEnum (B "it's") false 2])])
            ; AType (TName (B "LineString"))
            ; AType (TApp (B "Decimal") [ANum 10; ANum 2]) ]) ]) ].

Lemma example_ok :
  wf_ty example_ty = true /\
  canon_ty example_ty =
    B "Map(String, Array(Tuple(a Nullable(DateTime64(3, 'UTC')), date Array(Enum8('x\\y' = -1, 'it\'s' = 2)), LineString, Decimal(10, 2))))" /\
  shown example_ty =
    B "\'Map(String, Array(Tuple(a Nullable(DateTime64(3, \\\'UTC\\\')), date Array(Enum8(\\\'x\\\\\\\\y\\\' = -1, \\\'it\\\\\\\'s\\\' = 2)), LineString, Decimal(10, 2))))\'".
Proof. vm_compute. repeat split; reflexivity. Qed.
