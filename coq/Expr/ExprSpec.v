(* C08 — the INDEPENDENT specification of operator precedence and associativity.

   Nothing here refers to ExprModel.v.  It says, in terms of surface syntax only:
     - what the expressions of the property are                         ([sexpr]),
     - how they are written down as tokens                              ([print]),
     - which trees are the readings of the standard layered grammar
         OR < AND < NOT < comparison < || < additive < multiplicative < unary minus
       with left associativity (left operand at the operator's level, right operand one level
       above, parentheses reset)                                        ([wf]),
     - and which EXPLAIN tree ClickHouse prints for such a reading     ([ref]),
     - plus the readings the precedence climb gives outside the layered grammar — a prefix NOT in
       the operand position of a tighter operator                      ([wfx], see there).

   Readings fixed by DESIGN.md §7 / the experiments on the code where the property text is silent:
     - NOT immediately followed by "(" is the function-call spelling not(...), an atom ([NotCall]);
       consequently a prefix [Not] whose operand starts with "(" is not a reading of the grammar
       (its token string is the one of a [NotCall]).
     - unary minus applied directly to an (unparenthesised) integer literal folds into a negative
       literal: -1 and - 1 print "Literal Int64_-1", -0 prints "Literal UInt64_0"; -(1), -a, - -1
       are calls of negate (the inner -1 of - -1 folds).  Literals above 2^63 under a minus are
       Float64 in ClickHouse and belong to C09, not here.
     - excluded, as in the property: a parenthesised || as an operand of ||. *)
From Coq Require Import List NArith Bool String Ascii.
From DC Require Import Base.Item Gen.TokenTable Expr.ExprTree.
Import ListNotations.
Local Open Scope N_scope.

(* ------------------------------------------------------------------------------------------ *)
(* text constants *)

Fixpoint b (s : string) : list N :=
  match s with
  | EmptyString => []
  | String c s' => N_of_ascii c :: b s'
  end.

(* ------------------------------------------------------------------------------------------ *)
(* surface syntax *)

(* [lc = true]: the keyword is spelled in lower case *)
Inductive binop :=
| OOr (lc : bool) | OAnd (lc : bool)
| OEq | OEq2 | ONe | ONe2 | OLt | OLe | OGt | OGe | ONse
| OConcat
| OPlus | OMinus
| OMul | ODiv | OPct | OIntDiv (lc : bool) | OMod (lc : bool).

Inductive sexpr :=
| Id (s : list N)                  (* identifier *)
| Num (n : N)                      (* unsigned integer literal *)
| Paren (e : sexpr)                (* ( e ) *)
| Not (lc : bool) (e : sexpr)      (* NOT e, prefix operator *)
| NotCall (lc : bool) (e : sexpr)  (* NOT ( e ), the function-call spelling *)
| Neg (e : sexpr)                  (* - e *)
| Bin (op : binop) (l r : sexpr).

(* ------------------------------------------------------------------------------------------ *)
(* tokens *)

Definition tk (t : N) (v : list N) : item :=
  {| it_tok := t; it_val := v; it_pos := {| p_off := 0; p_line := 0; p_col := 0 |}; it_quoted := false |}.

Definition kw (lc : bool) (upper lower : string) : list N := if lc then b lower else b upper.

Definition op_item (op : binop) : item :=
  match op with
  | OOr lc => tk T_OR (kw lc "OR" "or")
  | OAnd lc => tk T_AND (kw lc "AND" "and")
  | OEq => tk T_EQ (b "=")
  | OEq2 => tk T_EQ (b "==")
  | ONe => tk T_NEQ (b "!=")
  | ONe2 => tk T_NEQ (b "<>")
  | OLt => tk T_LT (b "<")
  | OLe => tk T_LTE (b "<=")
  | OGt => tk T_GT (b ">")
  | OGe => tk T_GTE (b ">=")
  | ONse => tk T_NULL_SAFE_EQ (b "<=>")
  | OConcat => tk T_CONCAT (b "||")
  | OPlus => tk T_PLUS (b "+")
  | OMinus => tk T_MINUS (b "-")
  | OMul => tk T_ASTERISK (b "*")
  | ODiv => tk T_SLASH (b "/")
  | OPct => tk T_PERCENT (b "%")
  | OIntDiv lc => tk T_DIV (kw lc "DIV" "div")
  | OMod lc => tk T_MOD (kw lc "MOD" "mod")
  end.

Definition not_item (lc : bool) : item := tk T_NOT (kw lc "NOT" "not").
Definition lparen_item : item := tk T_LPAREN (b "(").
Definition rparen_item : item := tk T_RPAREN (b ")").
Definition minus_item : item := tk T_MINUS (b "-").

Fixpoint print (e : sexpr) : list item :=
  match e with
  | Id s => [tk T_IDENT s]
  | Num n => [tk T_NUMBER (dec n)]
  | Paren e1 => lparen_item :: print e1 ++ [rparen_item]
  | Not lc e1 => not_item lc :: print e1
  | NotCall lc e1 => not_item lc :: lparen_item :: print e1 ++ [rparen_item]
  | Neg e1 => minus_item :: print e1
  | Bin op l r => print l ++ op_item op :: print r
  end.

(* ------------------------------------------------------------------------------------------ *)
(* the layered grammar *)

(* levels: 1 OR, 2 AND, 3 NOT, 4 comparison, 5 ||, 6 additive, 7 multiplicative, 8 unary minus, 9 atom *)
Definition op_level (op : binop) : nat :=
  match op with
  | OOr _ => 1
  | OAnd _ => 2
  | OEq | OEq2 | ONe | ONe2 | OLt | OLe | OGt | OGe | ONse => 4
  | OConcat => 5
  | OPlus | OMinus => 6
  | OMul | ODiv | OPct | OIntDiv _ | OMod _ => 7
  end%nat.

Definition level (e : sexpr) : nat :=
  match e with
  | Bin op _ _ => op_level op
  | Not _ _ => 3
  | Neg _ => 8
  | Id _ | Num _ | Paren _ | NotCall _ _ => 9
  end%nat.

(* the first token of [print e] is "(" *)
Fixpoint starts_with_paren (e : sexpr) : bool :=
  match e with
  | Paren _ => true
  | Bin _ l _ => starts_with_paren l
  | _ => false
  end.

Fixpoint strip_parens (e : sexpr) : sexpr :=
  match e with
  | Paren e1 => strip_parens e1
  | _ => e
  end.

(* a parenthesised || *)
Definition is_paren_concat (e : sexpr) : bool :=
  match e with
  | Paren e1 => match strip_parens e1 with Bin OConcat _ _ => true | _ => false end
  | _ => false
  end.

Definition is_concat (op : binop) : bool := match op with OConcat => true | _ => false end.

Definition word_byte (c : N) : bool :=
  ((48 <=? c) && (c <=? 57)) || ((65 <=? c) && (c <=? 90)) || ((97 <=? c) && (c <=? 122)) || (c =? 95).

Definition ident_ok (s : list N) : bool :=
  match s with [] => false | _ => forallb word_byte s end.

Fixpoint wfb (e : sexpr) : bool :=
  match e with
  | Id s => ident_ok s
  | Num n => n <? 18446744073709551616                              (* 2^64 *)
  | Paren e1 => wfb e1
  | NotCall _ e1 => wfb e1
  | Not _ e1 => wfb e1 && Nat.leb 3 (level e1) && negb (starts_with_paren e1)
  | Neg e1 =>
      wfb e1 && Nat.leb 8 (level e1) &&
      match e1 with Num n => n <=? 9223372036854775808 | _ => true end   (* 2^63 *)
  | Bin op l r =>
      wfb l && wfb r &&
      Nat.leb (op_level op) (level l) &&          (* left operand: same level or above  *)
      Nat.ltb (op_level op) (level r) &&          (* right operand: strictly above      *)
      negb (is_concat op && (is_paren_concat l || is_paren_concat r))
  end.

Definition wf (e : sexpr) : Prop := wfb e = true.

(* ---- extension: the readings of precedence climbing outside the layered grammar ----
   The precedence climb also assigns a reading to token strings that the layered grammar does not
   derive: a prefix NOT (level 3) may stand where the operand of a tighter operator is expected —
   as the right operand of any binary operator (a = NOT b, a + NOT b * c) or under a unary minus
   (- NOT a = b) — and then, as every prefix operator, extends as far to the right as it can
   (a + NOT(b * c), -(NOT(a = b))).  [wfx] describes exactly those trees: an operand position may
   hold a prefix NOT whatever the level, and what stands to the LEFT of a binary operator must not
   end (along its right edge, parentheses shielding) in an operator that binds less tightly —
   otherwise that operator would have taken the rest.  On layered trees the two notions coincide
   (ExprProof.wf_wfx). *)

(* the lowest level met along the right edge of [print e] *)
Fixpoint redge (e : sexpr) : nat :=
  match e with
  | Bin op _ r => Nat.min (op_level op) (redge r)
  | Not _ e1 => Nat.min 3 (redge e1)
  | Neg e1 => Nat.min 8 (redge e1)
  | Id _ | Num _ | Paren _ | NotCall _ _ => 9
  end%nat.

Definition is_not (e : sexpr) : bool := match e with Not _ _ => true | _ => false end.

Fixpoint wfxb (e : sexpr) : bool :=
  match e with
  | Id s => ident_ok s
  | Num n => n <? 18446744073709551616
  | Paren e1 => wfxb e1
  | NotCall _ e1 => wfxb e1
  | Not _ e1 => wfxb e1 && Nat.leb 3 (level e1) && negb (starts_with_paren e1)
  | Neg e1 =>
      wfxb e1 && (Nat.leb 8 (level e1) || is_not e1) &&
      match e1 with Num n => n <=? 9223372036854775808 | _ => true end
  | Bin op l r =>
      wfxb l && wfxb r &&
      Nat.leb (op_level op) (redge l) &&                       (* nothing looser on l's right edge *)
      (Nat.ltb (op_level op) (level r) || is_not r) &&         (* strictly above, or a prefix NOT  *)
      negb (is_concat op && (is_paren_concat l || is_paren_concat r))
  end.

Definition wfx (e : sexpr) : Prop := wfxb e = true.

(* what may follow the expression: nothing, or a token that cannot continue an expression *)
Definition continuing_tokens : list N :=
  [ T_PLUS; T_MINUS; T_ASTERISK; T_SLASH; T_PERCENT; T_EQ; T_NEQ; T_LT; T_GT; T_LTE; T_GTE;
    T_NULL_SAFE_EQ; T_CONCAT; T_AND; T_OR; T_NOT; T_DIV; T_MOD;
    T_AS; T_QUESTION; T_LIKE; T_ILIKE; T_REGEXP; T_IN; T_BETWEEN; T_IS; T_GLOBAL;
    T_LPAREN; T_LBRACKET; T_EXCEPT; T_REPLACE; T_APPLY; T_COLONCOLON; T_DOT; T_ARROW;
    T_NUMBER; T_STRING ].

Definition follow_okb (rest : list item) : bool :=
  match rest with
  | [] => true
  | t :: _ => negb (existsb (N.eqb (it_tok t)) continuing_tokens)
  end.

Definition follow_ok (rest : list item) : Prop := follow_okb rest = true.

(* ------------------------------------------------------------------------------------------ *)
(* the reference EXPLAIN tree *)

Definition fname (op : binop) : list N :=
  match op with
  | OOr _ => b "or"
  | OAnd _ => b "and"
  | OEq | OEq2 => b "equals"
  | ONe | ONe2 => b "notEquals"
  | OLt => b "less"
  | OLe => b "lessOrEquals"
  | OGt => b "greater"
  | OGe => b "greaterOrEquals"
  | ONse => b "isNotDistinctFrom"
  | OConcat => b "concat"
  | OPlus => b "plus"
  | OMinus => b "minus"
  | OMul => b "multiply"
  | ODiv => b "divide"
  | OPct | OMod _ => b "modulo"
  | OIntDiv _ => b "intDiv"
  end.

(* the three operators whose unparenthesised chains are flattened *)
Inductive chain := COr | CAnd | CConcat.
Definition chain_of (op : binop) : option chain :=
  match op with
  | OOr _ => Some COr
  | OAnd _ => Some CAnd
  | OConcat => Some CConcat
  | _ => None
  end.
Definition chain_eqb (a b : chain) : bool :=
  match a, b with COr, COr | CAnd, CAnd | CConcat, CConcat => true | _, _ => false end.
Definition in_chain (c : chain) (op : binop) : bool :=
  match chain_of op with Some c' => chain_eqb c c' | None => false end.

Definition leaf (text : list N) : rose := Node text [].

(* Function f (children 1) / ExpressionList (children n) / the n arguments *)
Definition call (f : list N) (args : list rose) : rose :=
  Node (b "Function " ++ f ++ b " (children 1)")
       [Node (b "ExpressionList (children " ++ dec (N.of_nat (List.length args)) ++ b ")") args].

Definition negative_literal (n : N) : rose :=
  if n =? 0 then leaf (b "Literal UInt64_0") else leaf (b "Literal Int64_-" ++ dec n).

Fixpoint ref (e : sexpr) : rose :=
  match e with
  | Id s => leaf (b "Identifier " ++ s)
  | Num n => leaf (b "Literal UInt64_" ++ dec n)
  | Paren e1 => ref e1
  | Not _ e1 => call (b "not") [ref e1]
  | NotCall _ e1 => call (b "not") [ref e1]
  | Neg e1 =>
      match e1 with
      | Num n => negative_literal n
      | _ => call (b "negate") [ref e1]
      end
  | Bin op l r =>
      match chain_of op with
      | None => call (fname op) [ref l; ref r]
      | Some c =>
          (* the operands of the chain through x: an unparenthesised application of the same
             chain operator contributes its own operands, anything else is one operand *)
          let fix operands (x : sexpr) : list rose :=
            match x with
            | Bin op' x1 x2 => if in_chain c op' then operands x1 ++ operands x2 else [ref x]
            | _ => [ref x]
            end in
          call (fname op) (operands l ++ operands r)
      end
  end.
