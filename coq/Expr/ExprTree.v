(* C08 — the vocabulary shared by the expression model (ExprModel.v) and the independent
   specification (ExprSpec.v): EXPLAIN trees, their text lines, and decimal numerals.
   Definitions only.  [dec] is pinned down in ExprProof.v by [digits_val (dec n) = n],
   [Forall digit (dec n)] — i.e. it is a right inverse of the obvious value function. *)
From Coq Require Import List NArith Bool.
Import ListNotations.
Local Open Scope N_scope.

(* a node of the EXPLAIN tree: the text of its line (without indentation) and its children *)
Inductive rose := Node (label : list N) (children : list rose).

(* the EXPLAIN text lines of a tree: (depth, text) in print order; the Go printer indents by one
   space per depth *)
Fixpoint rose_lines (depth : nat) (t : rose) : list (nat * list N) :=
  match t with
  | Node label children =>
      (depth, label) ::
      (fix go (l : list rose) : list (nat * list N) :=
         match l with
         | [] => []
         | c :: l' => rose_lines (S depth) c ++ go l'
         end) children
  end.

(* decimal rendering (fmt %d of a non-negative integer) *)
Fixpoint dec_aux (fuel : nat) (n : N) (acc : list N) : list N :=
  match fuel with
  | O => acc
  | S f =>
      let acc' := (48 + n mod 10) :: acc in
      if n / 10 =? 0 then acc' else dec_aux f (n / 10) acc'
  end.
Definition dec (n : N) : list N := dec_aux (S (N.to_nat (N.log2 n))) n [].

(* value of a decimal digit string *)
Definition digits_val (ds : list N) : N := fold_left (fun a d => 10 * a + (d - 48)) ds 0.
