(* C18 — shared vocabulary of the type-expression development (TypeSpec / TypeModel / TypeProof).

   * tokens with position and quoting erased: the parser paths modelled here (parseDataType, the type part
     of parseCast / parseCastOperator, the parameter fragment of parseExpression) never look at
     Item.Pos or Item.Quoted, and Parser.nextToken drops WHITESPACE and LINE_COMMENT items, so the
     model sees [erase items : list tok].  "Any spacing" is therefore: any item list with the same erasure.
   * byte-string helpers (ASCII upper-casing, comparison, strings.Join)
   * decimal numerals through Coq's [N.to_uint] / [N.of_uint] (round trip from DecimalN)
   * the table of Parser.isDataTypeName and the constant words parseDataType compares with
   * keyword lookup (token.Lookup) over the generated [Gen.TokenTable.token_table]. *)
From Coq Require Import List NArith Bool Decimal DecimalN Lia ZifyN ZifyBool.
From DC Require Import Base.Item Gen.TokenTable.
Import ListNotations.
Local Open Scope N_scope.

(* ------------------------------------------------------------------------------------------ *)
(* erased tokens *)

Definition tok := (N * list N)%type.            (* (token.Token, Value) *)
Definition tk (t : tok) : N := fst t.
Definition tv (t : tok) : list N := snd t.

Definition tok_of_item (it : item) : tok := (it_tok it, it_val it).
Definition is_trivia (t : tok) : bool := (tk t =? T_WHITESPACE) || (tk t =? T_LINE_COMMENT).
Definition strip_trivia (ts : list tok) : list tok := filter (fun t => negb (is_trivia t)) ts.
(* what Parser.nextToken hands to the parser, without positions *)
Definition erase (its : list item) : list tok := strip_trivia (map tok_of_item its).

Definition eof_tok : tok := (T_EOF, []).
(* p.current / p.peek over the remaining input; past the end the lexer keeps returning EOF *)
Definition cur (ts : list tok) : tok := match ts with [] => eof_tok | t :: _ => t end.
Definition peek (ts : list tok) : tok := cur (tl ts).
Definition tok_is (k : N) (t : tok) : bool := tk t =? k.

(* p.currentIs(token.IDENT) || p.current.Token.IsKeyword() *)
Definition is_name_kind (k : N) : bool := (k =? T_IDENT) || ((keyword_beg <? k) && (k <? keyword_end)).
Definition is_name (t : tok) : bool := is_name_kind (tk t).

(* ------------------------------------------------------------------------------------------ *)
(* byte strings *)

Fixpoint bytes_eqb (a b : list N) : bool :=
  match a, b with
  | [], [] => true
  | x :: a', y :: b' => (x =? y) && bytes_eqb a' b'
  | _, _ => false
  end.

Definition mem_bytes (s : list N) (l : list (list N)) : bool := existsb (bytes_eqb s) l.

Definition upper_byte (b : N) : N := if (97 <=? b) && (b <=? 122) then b - 32 else b.
(* strings.ToUpper restricted to ASCII input; the driver refuses inputs with a non-ASCII name token *)
Definition to_upper (s : list N) : list N := map upper_byte s.

Definition is_digit_byte (b : N) : bool := (48 <=? b) && (b <=? 57).
Definition is_alpha_byte (b : N) : bool := ((65 <=? b) && (b <=? 90)) || ((97 <=? b) && (b <=? 122)).
Definition is_word_byte (b : N) : bool := is_digit_byte b || is_alpha_byte b || (b =? 95).
Definition is_ascii (s : list N) : bool := forallb (fun b => b <? 128) s.

(* strings.Join *)
Fixpoint join {A : Type} (sep : list A) (l : list (list A)) : list A :=
  match l with
  | [] => []
  | x :: r => match r with [] => x | _ => x ++ sep ++ join sep r end
  end.

Definition comma_space : list N := [44; 32].

(* ------------------------------------------------------------------------------------------ *)
(* decimal numerals *)

Fixpoint bytes_of_uint (u : Decimal.uint) : list N :=
  match u with
  | Nil => []
  | D0 u => 48 :: bytes_of_uint u | D1 u => 49 :: bytes_of_uint u | D2 u => 50 :: bytes_of_uint u
  | D3 u => 51 :: bytes_of_uint u | D4 u => 52 :: bytes_of_uint u | D5 u => 53 :: bytes_of_uint u
  | D6 u => 54 :: bytes_of_uint u | D7 u => 55 :: bytes_of_uint u | D8 u => 56 :: bytes_of_uint u
  | D9 u => 57 :: bytes_of_uint u
  end.

Fixpoint uint_of_bytes (s : list N) : option Decimal.uint :=
  match s with
  | [] => Some Nil
  | b :: r =>
    match uint_of_bytes r with
    | None => None
    | Some u =>
      if b =? 48 then Some (D0 u) else if b =? 49 then Some (D1 u) else if b =? 50 then Some (D2 u)
      else if b =? 51 then Some (D3 u) else if b =? 52 then Some (D4 u) else if b =? 53 then Some (D5 u)
      else if b =? 54 then Some (D6 u) else if b =? 55 then Some (D7 u) else if b =? 56 then Some (D8 u)
      else if b =? 57 then Some (D9 u) else None
    end
  end.

(* fmt "%d" / "%v" of an int64 >= 0 or a uint64 *)
Definition to_dec (n : N) : list N := bytes_of_uint (N.to_uint n).
(* the value of a non-empty string of decimal digits (strconv.ParseUint(s, 10, 64) before the range check) *)
Definition parse_dec (s : list N) : option N :=
  match s with
  | [] => None
  | _ => match uint_of_bytes s with Some u => Some (N.of_uint u) | None => None end
  end.

Definition two64 : N := 18446744073709551616.

(* ------------------------------------------------------------------------------------------ *)
(* Parser.isDataTypeName — the `types` slice of parser.go, in order *)

Definition dtn_names : list (list N) :=
  [ [73; 78; 84] (* INT *)
  ; [73; 78; 84; 56] (* INT8 *)
  ; [73; 78; 84; 49; 54] (* INT16 *)
  ; [73; 78; 84; 51; 50] (* INT32 *)
  ; [73; 78; 84; 54; 52] (* INT64 *)
  ; [73; 78; 84; 49; 50; 56] (* INT128 *)
  ; [73; 78; 84; 50; 53; 54] (* INT256 *)
  ; [85; 73; 78; 84; 56] (* UINT8 *)
  ; [85; 73; 78; 84; 49; 54] (* UINT16 *)
  ; [85; 73; 78; 84; 51; 50] (* UINT32 *)
  ; [85; 73; 78; 84; 54; 52] (* UINT64 *)
  ; [85; 73; 78; 84; 49; 50; 56] (* UINT128 *)
  ; [85; 73; 78; 84; 50; 53; 54] (* UINT256 *)
  ; [70; 76; 79; 65; 84; 51; 50] (* FLOAT32 *)
  ; [70; 76; 79; 65; 84; 54; 52] (* FLOAT64 *)
  ; [70; 76; 79; 65; 84] (* FLOAT *)
  ; [68; 79; 85; 66; 76; 69] (* DOUBLE *)
  ; [66; 70; 76; 79; 65; 84; 49; 54] (* BFLOAT16 *)
  ; [68; 69; 67; 73; 77; 65; 76] (* DECIMAL *)
  ; [68; 69; 67; 73; 77; 65; 76; 51; 50] (* DECIMAL32 *)
  ; [68; 69; 67; 73; 77; 65; 76; 54; 52] (* DECIMAL64 *)
  ; [68; 69; 67; 73; 77; 65; 76; 49; 50; 56] (* DECIMAL128 *)
  ; [68; 69; 67; 73; 77; 65; 76; 50; 53; 54] (* DECIMAL256 *)
  ; [68; 69; 67] (* DEC *)
  ; [83; 84; 82; 73; 78; 71] (* STRING *)
  ; [70; 73; 88; 69; 68; 83; 84; 82; 73; 78; 71] (* FIXEDSTRING *)
  ; [85; 85; 73; 68] (* UUID *)
  ; [68; 65; 84; 69] (* DATE *)
  ; [68; 65; 84; 69; 51; 50] (* DATE32 *)
  ; [68; 65; 84; 69; 84; 73; 77; 69] (* DATETIME *)
  ; [68; 65; 84; 69; 84; 73; 77; 69; 54; 52] (* DATETIME64 *)
  ; [69; 78; 85; 77] (* ENUM *)
  ; [69; 78; 85; 77; 56] (* ENUM8 *)
  ; [69; 78; 85; 77; 49; 54] (* ENUM16 *)
  ; [65; 82; 82; 65; 89] (* ARRAY *)
  ; [84; 85; 80; 76; 69] (* TUPLE *)
  ; [77; 65; 80] (* MAP *)
  ; [78; 69; 83; 84; 69; 68] (* NESTED *)
  ; [78; 85; 76; 76; 65; 66; 76; 69] (* NULLABLE *)
  ; [76; 79; 87; 67; 65; 82; 68; 73; 78; 65; 76; 73; 84; 89] (* LOWCARDINALITY *)
  ; [66; 79; 79; 76] (* BOOL *)
  ; [66; 79; 79; 76; 69; 65; 78] (* BOOLEAN *)
  ; [73; 80; 86; 52] (* IPV4 *)
  ; [73; 80; 86; 54] (* IPV6 *)
  ; [78; 79; 84; 72; 73; 78; 71] (* NOTHING *)
  ; [73; 78; 84; 69; 82; 86; 65; 76] (* INTERVAL *)
  ; [74; 83; 79; 78] (* JSON *)
  ; [79; 66; 74; 69; 67; 84] (* OBJECT *)
  ; [86; 65; 82; 73; 65; 78; 84] (* VARIANT *)
  ; [65; 71; 71; 82; 69; 71; 65; 84; 69; 70; 85; 78; 67; 84; 73; 79; 78] (* AGGREGATEFUNCTION *)
  ; [83; 73; 77; 80; 76; 69; 65; 71; 71; 82; 69; 71; 65; 84; 69; 70; 85; 78; 67; 84; 73; 79; 78] (* SIMPLEAGGREGATEFUNCTION *)
  ; [80; 79; 73; 78; 84] (* POINT *)
  ; [82; 73; 78; 71] (* RING *)
  ; [80; 79; 76; 89; 71; 79; 78] (* POLYGON *)
  ; [77; 85; 76; 84; 73; 80; 79; 76; 89; 71; 79; 78] (* MULTIPOLYGON *)
  ; [84; 73; 77; 69; 54; 52] (* TIME64 *)
  ; [84; 73; 77; 69] (* TIME *)
  ; [68; 89; 78; 65; 77; 73; 67] (* DYNAMIC *)
  ; [81; 66; 73; 84] (* QBIT *) ].

Definition is_dtn (name : list N) : bool := mem_bytes (to_upper name) dtn_names.

(* words parseDataType compares strings.ToUpper(...) with *)
Definition w_INT : list N := [73; 78; 84].
Definition w_INT1 : list N := [73; 78; 84; 49].
Definition w_TINYINT : list N := [84; 73; 78; 89; 73; 78; 84].
Definition w_SMALLINT : list N := [83; 77; 65; 76; 76; 73; 78; 84].
Definition w_MEDIUMINT : list N := [77; 69; 68; 73; 85; 77; 73; 78; 84].
Definition w_BIGINT : list N := [66; 73; 71; 73; 78; 84].
Definition w_INTEGER : list N := [73; 78; 84; 69; 71; 69; 82].
Definition w_UNSIGNED : list N := [85; 78; 83; 73; 71; 78; 69; 68].
Definition w_SIGNED : list N := [83; 73; 71; 78; 69; 68].
Definition w_DOUBLE : list N := [68; 79; 85; 66; 76; 69].
Definition w_PRECISION : list N := [80; 82; 69; 67; 73; 83; 73; 79; 78].
Definition w_CHAR : list N := [67; 72; 65; 82].
Definition w_CHARACTER : list N := [67; 72; 65; 82; 65; 67; 84; 69; 82].
Definition w_NCHAR : list N := [78; 67; 72; 65; 82].
Definition w_VARYING : list N := [86; 65; 82; 89; 73; 78; 71].
Definition w_LARGE : list N := [76; 65; 82; 71; 69].
Definition w_OBJECT : list N := [79; 66; 74; 69; 67; 84].
Definition w_BINARY : list N := [66; 73; 78; 65; 82; 89].
Definition w_NATIONAL : list N := [78; 65; 84; 73; 79; 78; 65; 76].
Definition w_NESTED : list N := [78; 69; 83; 84; 69; 68].
Definition w_TUPLE : list N := [84; 85; 80; 76; 69].
Definition w_JSON : list N := [74; 83; 79; 78].
Definition w_DATE : list N := [68; 65; 84; 69].
Definition w_TIMESTAMP : list N := [84; 73; 77; 69; 83; 84; 65; 77; 80].
Definition w_TIME : list N := [84; 73; 77; 69].

(* (p.currentIs(IDENT) || p.current.Token.IsKeyword()) && strings.ToUpper(p.current.Value) == w *)
Definition word_is (w : list N) (ts : list tok) : bool :=
  is_name (cur ts) && bytes_eqb (to_upper (tv (cur ts))) w.

Definition mysql_int_names : list (list N) :=
  [w_INT; w_INT1; w_TINYINT; w_SMALLINT; w_MEDIUMINT; w_BIGINT; w_INTEGER].
(* isMySQLIntType, on the upper-cased name *)
Definition is_mysql_int (up : list N) : bool := mem_bytes up mysql_int_names.
(* usesNamedParams / isObjectType, on the upper-cased name *)
Definition uses_named (up : list N) : bool :=
  bytes_eqb up w_NESTED || bytes_eqb up w_TUPLE || bytes_eqb up w_JSON || bytes_eqb up w_OBJECT.
Definition is_object_type (up : list N) : bool := bytes_eqb up w_JSON || bytes_eqb up w_OBJECT.

(* ------------------------------------------------------------------------------------------ *)
(* token.Lookup(strings.ToUpper(ident)) as lexer.readIdentifier calls it *)

Definition kw_entry_matches (u : list N) (e : N * list N * list N) : bool :=
  let '(i, _, str) := e in (keyword_beg <? i) && (i <? keyword_end) && bytes_eqb str u.

Definition kw_lookup (u : list N) : option N :=
  match find (kw_entry_matches u) token_table with
  | Some (i, _, _) => Some i
  | None => None
  end.

Definition name_tok (s : list N) : N :=
  match kw_lookup (to_upper s) with Some i => i | None => T_IDENT end.

(* ------------------------------------------------------------------------------------------ *)
(* basic facts (kept here so that Spec/Model stay proof-free) *)

Lemma bytes_eqb_refl : forall a, bytes_eqb a a = true.
Proof. induction a as [|x a IH]; cbn; [reflexivity|]. rewrite N.eqb_refl, IH. reflexivity. Qed.

Lemma bytes_eqb_eq : forall a b, bytes_eqb a b = true <-> a = b.
Proof.
  induction a as [|x a IH]; intros [|y b]; cbn; split; intros H; try reflexivity; try discriminate.
  - apply andb_true_iff in H. destruct H as [H1 H2]. apply N.eqb_eq in H1. apply IH in H2. congruence.
  - injection H as -> ->. rewrite N.eqb_refl. cbn. apply bytes_eqb_refl.
Qed.

Lemma name_tok_is_name : forall s, is_name_kind (name_tok s) = true.
Proof.
  intros s. unfold name_tok, kw_lookup.
  destruct (find (kw_entry_matches (to_upper s)) token_table) as [[[i c] str]|] eqn:Hf.
  - apply find_some in Hf. destruct Hf as [_ Hm]. unfold kw_entry_matches in Hm.
    apply andb_true_iff in Hm. destruct Hm as [Hm _].
    unfold is_name_kind. rewrite Hm. apply orb_true_r.
  - reflexivity.
Qed.

(* the keyword strings are pairwise distinct, so Go's map construction and [find] agree *)
Definition kw_strings : list (list N) :=
  map (fun e : N * list N * list N => snd e)
      (filter (fun e : N * list N * list N => let '(i, _, _) := e in (keyword_beg <? i) && (i <? keyword_end)) token_table).

Fixpoint nodup_bytes (l : list (list N)) : bool :=
  match l with [] => true | x :: r => negb (mem_bytes x r) && nodup_bytes r end.

Lemma kw_strings_nodup : nodup_bytes kw_strings = true.
Proof. vm_compute. reflexivity. Qed.

Lemma uint_of_bytes_of_uint : forall u, uint_of_bytes (bytes_of_uint u) = Some u.
Proof. induction u as [|u IH|u IH|u IH|u IH|u IH|u IH|u IH|u IH|u IH|u IH]; cbn; try rewrite IH; reflexivity. Qed.

Lemma to_dec_nonempty : forall n, to_dec n <> [].
Proof.
  intros n H. unfold to_dec in H.
  destruct (N.to_uint n) eqn:E; cbn in H; try discriminate.
  pose proof (DecimalN.Unsigned.of_to n) as Ho. rewrite E in Ho. cbn in Ho. subst n. cbn in E. discriminate.
Qed.

Lemma parse_dec_to_dec : forall n, parse_dec (to_dec n) = Some n.
Proof.
  intros n. unfold parse_dec. pose proof (to_dec_nonempty n) as Hne.
  destruct (to_dec n) eqn:E; [congruence|]. rewrite <- E. unfold to_dec.
  rewrite uint_of_bytes_of_uint, DecimalN.Unsigned.of_to. reflexivity.
Qed.

Lemma bytes_of_uint_digits : forall u, forallb is_digit_byte (bytes_of_uint u) = true.
Proof. induction u; cbn; try rewrite IHu; reflexivity. Qed.

Lemma to_dec_digits : forall n, forallb is_digit_byte (to_dec n) = true.
Proof. intros n. apply bytes_of_uint_digits. Qed.
