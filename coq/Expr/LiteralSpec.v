(* C09 — the independent specification of literals (definitions only).

   A literal is a surface tree [cval]; [src] is its source text, [toks] the tokens of that text, [canon] the
   text that EXPLAIN AST shows after "Literal " according to the property:

     an unsigned decimal literal up to 2^64-1 prints as UInt64_n, a negated one down to -2^63 as Int64_-n
     (with -0 as UInt64_0), anything larger and every decimal/exponent literal as Float64_ followed by the
     shortest round-tripping digits in ClickHouse's fixed/exponent style, hex and binary integer literals by
     value (so do octal ones, and every spelling with an upper-case prefix, leading zeros or '_' separators:
     [CRad]); strings by ClickHouse's two-level escaping; arrays as Array_[e1, e2, ...], tuples as Tuple_(e1, ...).

   Floats: WHICH digits are the shortest round-tripping ones is the oracle's business (the two functions of
   the Section, same contract as in LiteralModel.v); the spec fixes how digits d1..dk and a decimal exponent e
   (value d1.d2..dk * 10^e) are laid out: fixed notation for 1e-6 <= |x| < 1e21 (and for zero), otherwise
   d1[.d2..dk]e[-]E with no padding of E and no plus sign; inf, -inf, nan.

   Nothing here mentions strconv, the parser model or the Go printer. *)
From Coq Require Import List NArith ZArith Bool.
From DC Require Import Base.Item Gen.TokenTable Expr.ExprTree Lexer.LexerStringsSpec Expr.LiteralModel.
(* from LiteralModel only the data type [fval] (a float shown as digits/exponent), [fneg], the string predicates
   [has_prefix]/[contains_byte]/[contains_any] and the type [tk] of tokens are used *)
Import ListNotations.
Local Open Scope bool_scope.
Local Open Scope N_scope.

(* s1 ++ sep ++ s2 ++ sep ++ ... ++ sn *)
Fixpoint sjoin {A : Type} (sep : list A) (parts : list (list A)) : list A :=
  match parts with
  | [] => []
  | [p] => p
  | p :: ps => p ++ sep ++ sjoin sep ps
  end.

(* ---------- numerals ---------- *)

(* hexadecimal / binary numeral of n, most significant digit first, "0" for 0 *)
Fixpoint pos_bits (p : positive) (acc : list N) : list N :=
  match p with
  | xH => 49 :: acc
  | xO p' => pos_bits p' (48 :: acc)
  | xI p' => pos_bits p' (49 :: acc)
  end.
Definition bin (n : N) : list N := match n with N0 => [48] | Npos p => pos_bits p [] end.

Fixpoint hex_aux (fuel : nat) (n : N) (acc : list N) : list N :=
  match fuel with
  | O => acc
  | S f =>
      let acc' := hexdigit (n mod 16) :: acc in
      if n / 16 =? 0 then acc' else hex_aux f (n / 16) acc'
  end.
Definition hex (n : N) : list N := hex_aux (S (N.to_nat (N.log2 n))) n [].

(* octal numeral of n *)
Fixpoint oct_aux (fuel : nat) (n : N) (acc : list N) : list N :=
  match fuel with
  | O => acc
  | S f =>
      let acc' := (48 + n mod 8) :: acc in
      if n / 8 =? 0 then acc' else oct_aux f (n / 8) acc'
  end.
Definition oct (n : N) : list N := oct_aux (S (N.to_nat (N.log2 n))) n [].

(* ---------- prefixed integer spellings in general ---------- *)

(* 0x / 0b / 0o (or 0X / 0B / 0O) followed by digits of the radix in either letter case, with '_' separators:
   leading zeros, "0xFF_ff", "0b_1" ... *)
Inductive radix := RHex | RBin | ROct.

Definition radix_base (r : radix) : N := match r with RHex => 16 | RBin => 2 | ROct => 8 end.

Definition radix_letter (r : radix) (up : bool) : N :=
  match r with
  | RHex => if up then 88 else 120
  | RBin => if up then 66 else 98
  | ROct => if up then 79 else 111
  end.

(* the value of a digit character of the radix *)
Definition rdigit (r : radix) (c : N) : option N :=
  match r with
  | RHex => if (48 <=? c) && (c <=? 57) then Some (c - 48)
            else if (97 <=? c) && (c <=? 102) then Some (c - 87)
            else if (65 <=? c) && (c <=? 70) then Some (c - 55)
            else None
  | RBin => if (c =? 48) || (c =? 49) then Some (c - 48) else None
  | ROct => if (48 <=? c) && (c <=? 55) then Some (c - 48) else None
  end.
Definition is_rdigit (r : radix) (c : N) : bool := match rdigit r c with Some _ => true | None => false end.

(* the value of the digits, separators skipped *)
Fixpoint rad_value (r : radix) (ds : list N) (acc : N) : N :=
  match ds with
  | [] => acc
  | c :: ds' => rad_value r ds' (match rdigit r c with Some d => acc * radix_base r + d | None => acc end)
  end.

(* well-formed: only digits and '_', every '_' directly followed by a digit, the last character a digit (so there
   is at least one digit, no "__", no trailing '_'; a '_' directly after the prefix is allowed, as in Go) *)
Fixpoint rad_ok (r : radix) (ds : list N) : bool :=
  match ds with
  | [] => false
  | c :: ds' =>
      match ds' with
      | [] => is_rdigit r c
      | c2 :: _ => (is_rdigit r c || ((c =? 95) && is_rdigit r c2)) && rad_ok r ds'
      end
  end.

(* ---------- floats ---------- *)

Definition nonzero_digits (ds : list N) : bool := existsb (fun d => negb (d =? 48)) ds.

Definition mantissa (ds : list N) : list N :=
  match ds with
  | [] => [48]
  | [d] => [d]
  | d :: more => d :: 46 :: more
  end.

Definition canon_float_fin (neg : bool) (ds : list N) (e10 : Z) : list N :=
  (if neg then [45] else []) ++
  if (nonzero_digits ds && (e10 <? -6)%Z) || (21 <=? e10)%Z then
    mantissa ds ++ [101] ++ (if (e10 <? 0)%Z then [45] else []) ++ dec (Z.to_N (Z.abs e10))
  else if (e10 <? 0)%Z then
    [48; 46] ++ repeat 48 (Z.to_nat (- e10 - 1)) ++ ds
  else
    let k := Z.to_nat (e10 + 1) in
    if Nat.leb (length ds) k then ds ++ repeat 48 (k - length ds)
    else firstn k ds ++ [46] ++ skipn k ds.

Definition canon_float (f : fval) : list N :=
  match f with
  | FNaN => [110; 97; 110]
  | FInf false => [105; 110; 102]
  | FInf true => [45; 105; 110; 102]
  | FFin neg ds e10 => canon_float_fin neg ds e10
  end.

(* ---------- surface trees ---------- *)

Inductive cval :=
| CNat (n : N)                          (* decimal integer literal *)
| CNeg (n : N)                          (* - decimal integer literal *)
| CHex (n : N)                          (* 0x... *)
| CBin (n : N)                          (* 0b... *)
| CRad (r : radix) (up : bool) (ds : list N)   (* 0x / 0b / 0o (upper-case letter when [up]) ++ ds: any digits and '_' *)
| CFlt (neg : bool) (text : list N)     (* decimal / exponent literal with this source text, possibly negated *)
| CStr (v : list N)                     (* string literal with this VALUE *)
| CArr (l : list cval)
| CTup (l : list cval).

Definition s_UInt64 : list N := [85; 73; 110; 116; 54; 52; 95].
Definition s_Int64 : list N := [73; 110; 116; 54; 52; 95].
Definition s_Float64 : list N := [70; 108; 111; 97; 116; 54; 52; 95].
Definition s_Array : list N := [65; 114; 114; 97; 121; 95; 91].
Definition s_Tuple : list N := [84; 117; 112; 108; 101; 95; 40].
Definition s_comma_sp : list N := [44; 32].

Definition p63 : N := 9223372036854775808.
Definition p64 : N := 18446744073709551616.

(* the source text *)
Fixpoint src (t : cval) : list N :=
  match t with
  | CNat n => dec n
  | CNeg n => 45 :: dec n
  | CHex n => [48; 120] ++ hex n
  | CBin n => [48; 98] ++ bin n
  | CRad r up ds => [48; radix_letter r up] ++ ds
  | CFlt neg text => (if neg then [45] else []) ++ text
  | CStr v => quote v
  | CArr l => [91] ++ sjoin s_comma_sp (map src l) ++ [93]
  | CTup l => [40] ++ sjoin s_comma_sp (map src l) ++ [41]
  end.

(* its tokens *)
Definition tk_comma : tk := (T_COMMA, [44]).
Fixpoint toks (t : cval) : list tk :=
  match t with
  | CNat n => [(T_NUMBER, dec n)]
  | CNeg n => [(T_MINUS, [45]); (T_NUMBER, dec n)]
  | CHex n => [(T_NUMBER, [48; 120] ++ hex n)]
  | CBin n => [(T_NUMBER, [48; 98] ++ bin n)]
  | CRad r up ds => [(T_NUMBER, [48; radix_letter r up] ++ ds)]
  | CFlt neg text => (if neg then [(T_MINUS, [45])] else []) ++ [(T_NUMBER, text)]
  | CStr v => [(T_STRING, v)]
  | CArr l => [(T_LBRACKET, [91])] ++ sjoin [tk_comma] (map toks l) ++ [(T_RBRACKET, [93])]
  | CTup l => [(T_LPAREN, [40])] ++ sjoin [tk_comma] (map toks l) ++ [(T_RPAREN, [41])]
  end.

Section Oracle.
Variable parse_float : list N -> option fval.      (* the float denoted by a decimal/exponent text *)
Variable int_to_float : N -> fval.                 (* the float nearest to an integer *)

Definition float_of_text (text : list N) : fval :=
  match parse_float text with Some f => f | None => FNaN end.

(* the text after "Literal " *)
Fixpoint canon (t : cval) : list N :=
  match t with
  | CNat n | CHex n | CBin n =>
      if n <? p64 then s_UInt64 ++ dec n else s_Float64 ++ canon_float (int_to_float n)
  | CRad r _ ds =>
      let n := rad_value r ds 0 in
      if n <? p64 then s_UInt64 ++ dec n else s_Float64 ++ canon_float (int_to_float n)
  | CNeg n =>
      if n =? 0 then s_UInt64 ++ dec 0
      else if n <=? p63 then s_Int64 ++ [45] ++ dec n
      else s_Float64 ++ canon_float (fneg (int_to_float n))
  | CFlt neg text =>
      s_Float64 ++ canon_float (if neg then fneg (float_of_text text) else float_of_text text)
  | CStr v => canon_string v
  | CArr l => s_Array ++ sjoin s_comma_sp (map canon l) ++ [93]
  | CTup l => s_Tuple ++ sjoin s_comma_sp (map canon l) ++ [41]
  end.

(* ---------- the literals the theorems speak about ---------- *)

(* a float text: digits with a '.' and/or an exponent, as the lexer's readNumber accepts them; only used to
   keep [CFlt] apart from the integer spellings (the model decides by the same test as parseNumber) *)
Definition float_text (text : list N) : bool :=
  negb (has_prefix text [48; 120] || has_prefix text [48; 88] || has_prefix text [48; 98] ||
        has_prefix text [48; 66] || has_prefix text [48; 111] || has_prefix text [48; 79]) &&
  (contains_byte text 46 || contains_any text [101; 69]) &&
  match parse_float text with Some _ => true | None => false end.

Definition is_ctup (t : cval) : bool := match t with CTup _ => true | _ => false end.
Definition is_carr (t : cval) : bool := match t with CArr _ => true | _ => false end.

(* scalars: integers of every size in every spelling, negated decimal integers of every size, at every depth *)
Definition scalar_ok (t : cval) : bool :=
  match t with
  | CNat _ | CHex _ | CBin _ | CNeg _ => true
  | CRad r _ ds => rad_ok r ds
  | CFlt _ text => float_text text
  | CStr v => bytes_okb v
  | _ => false
  end.

(* arrays: non-empty, elements scalars or arrays; tuples: at least two elements, scalars or tuples *)
Fixpoint arr_ok (t : cval) : bool :=
  match t with
  | CArr l => negb (Nat.eqb (length l) 0) && forallb (fun x => if is_carr x then arr_ok x else scalar_ok x) l
  | _ => false
  end.
Fixpoint tup_ok (t : cval) : bool :=
  match t with
  | CTup l => Nat.leb 2 (length l) && forallb (fun x => if is_ctup x then tup_ok x else scalar_ok x) l
  | _ => false
  end.

Definition wfb (t : cval) : bool :=
  match t with
  | CArr _ => arr_ok t
  | CTup _ => tup_ok t
  | _ => scalar_ok t
  end.

End Oracle.
