(* C02: small-step semantics of skeletons. Definitions only. *)
From Coq Require Import List NArith Arith.
From DC Require Import Skel.SkelLang.
Import ListNotations.

(* A configuration: function, node, snapshot slot of the current frame (number of remaining tokens when
   the snapshot was taken; set to the current number on entry), remaining token kinds (EOF = []), oracle
   (resolves Unknown / TestPeek / the equal-position case of TestProgress), stack of suspended frames. *)
Record frame := mkFrame { fr_f : N; fr_pc : N; fr_snap : nat }.
Record conf := mkConf { c_f : N; c_pc : N; c_snap : nat; c_toks : list N; c_orc : list bool; c_stack : list frame }.

Definition cur (eof : N) (toks : list N) : N := match toks with [] => eof | t :: _ => t end.
Definition pop_orc (o : list bool) : bool * list bool := match o with [] => (false, []) | b :: o' => (b, o') end.

Definition step (p : prog) (c : conf) : option conf :=
  match getf p (c_f c) with None => None | Some fn =>
  match getn fn (c_pc c) with None => None | Some nd =>
  let goto pc := Some (mkConf (c_f c) pc (c_snap c) (c_toks c) (c_orc c) (c_stack c)) in
  let choose n1 n2 := let '(b, o) := pop_orc (c_orc c) in
                      Some (mkConf (c_f c) (if b then n1 else n2) (c_snap c) (c_toks c) o (c_stack c)) in
  match nd_instr nd with
  | IGoto n => goto n
  | ITestCur s nt nf => goto (if N.testbit s (cur (p_eof p) (c_toks c)) then nt else nf)
  | ITestPeek nt nf => if N.eqb (cur (p_eof p) (c_toks c)) (p_eof p) then goto nf else choose nt nf
  | IUnknown n1 n2 => choose n1 n2
  | INext n => Some (mkConf (c_f c) n (c_snap c) (tl (c_toks c)) (c_orc c) (c_stack c))
  | ICall f n => Some (mkConf f 0%N (length (c_toks c)) (c_toks c) (c_orc c)
                              (mkFrame (c_f c) n (c_snap c) :: c_stack c))
  | IRet => match c_stack c with
            | [] => None
            | fr :: stk => Some (mkConf (fr_f fr) (fr_pc fr) (fr_snap fr) (c_toks c) (c_orc c) stk)
            end
  | ISnap n => Some (mkConf (c_f c) n (length (c_toks c)) (c_toks c) (c_orc c) (c_stack c))
  | ITestProgress ns nd' => if Nat.eqb (length (c_toks c)) (c_snap c) then goto ns else choose ns nd'
  | IAssumeProgress n => if Nat.eqb (length (c_toks c)) (c_snap c) then None else goto n
  end end end.

(* run with fuel: final configuration and number of steps executed *)
Fixpoint run (p : prog) (n : nat) (c : conf) : conf * nat :=
  match n with
  | O => (c, O)
  | S n' => match step p c with
            | None => (c, O)
            | Some c' => let '(c'', k) := run p n' c' in (c'', S k)
            end
  end.

Definition init (p : prog) (toks : list N) (orc : list bool) : conf :=
  mkConf (p_main p) 0%N (length toks) toks orc [].

Definition at_instr (p : prog) (c : conf) (i : instr) : Prop :=
  exists fn nd, getf p (c_f c) = Some fn /\ getn fn (c_pc c) = Some nd /\ nd_instr nd = i.

(* the entry function has returned *)
Definition final (p : prog) (c : conf) : Prop :=
  c_f c = p_main p /\ c_stack c = [] /\ at_instr p c IRet.

(* stuck at an assumed-progress marker (only possible if the skeleton contains one) *)
Definition blocked (p : prog) (c : conf) : Prop :=
  exists n, at_instr p c (IAssumeProgress n) /\ length (c_toks c) = c_snap c.

Definition is_assume (i : instr) : bool := match i with IAssumeProgress _ => true | _ => false end.
Definition no_assume (p : prog) : bool :=
  forallb (fun g => forallb (fun nd => negb (is_assume (nd_instr nd))) (fn_body g)) (p_funcs p).
