(* C02: the boolean certificate checker. Purely local: one pass over the nodes of every function, each
   node checked against the annotations of its successors and the specs of its callees. No fixpoint.
   Definitions only; soundness is in SkelSound.v. *)
From Coq Require Import List NArith Bool.
From DC Require Import Skel.SkelLang.
Import ListNotations.
Local Open Scope N_scope.

(* ---- facts ---- *)
Definition fact_any : fact := FNotIn 0.
Definition fact_empty (F : fact) : bool := match F with FIn s => N.eqb s 0 | FNotIn _ => false end.
Definition fact_le (F G : fact) : bool :=
  match F, G with
  | FIn a, FIn b => N.eqb (N.ldiff a b) 0
  | FIn a, FNotIn b => N.eqb (N.land a b) 0
  | FNotIn a, FNotIn b => N.eqb (N.ldiff b a) 0
  | FNotIn _, FIn _ => false
  end.
Definition fact_inter (F : fact) (s : N) : fact :=
  match F with FIn a => FIn (N.land a s) | FNotIn a => FIn (N.ldiff s a) end.
Definition fact_minus (F : fact) (s : N) : fact :=
  match F with FIn a => FIn (N.ldiff a s) | FNotIn a => FNotIn (N.lor a s) end.
Definition single (t : N) : N := 2 ^ t.

(* how the outcome of a test refines a fact *)
Inductive refine := RId | RInter (s : N) | RMinus (s : N).
Definition app_ref (rf : refine) (F : fact) : fact :=
  match rf with RId => F | RInter s => fact_inter F s | RMinus s => fact_minus F s end.

(* ---- option-valued counters ---- *)
(* x = Some v  ->  x' = Some v' with v + k <= v' *)
Definition up (x : option N) (k : N) (x' : option N) : bool :=
  match x with
  | None => true
  | Some v => match x' with Some v' => v + k <=? v' | None => false end
  end.
(* the claim c' = Some z' is justified by c = Some z with z + k <= z' *)
Definition cjust (c : option N) (k : N) (c' : option N) : bool :=
  match c' with
  | None => true
  | Some z' => match c with Some z => z + k <=? z' | None => false end
  end.
Definition is_some {A : Type} (o : option A) : bool := match o with Some _ => true | None => false end.

Section Check.
Variable P : prog.
Variable B : N.
Variable Emain : N.

Let eof := p_eof P.

(* an edge that consumes nothing and leaves the snapshot alone (chkc = true) or resets it (chkc = false) *)
Definition edge_ok (rf : refine) (chkc : bool) (s t : ann) : bool :=
  (match an_a s with
   | None => true
   | Some x => fact_empty (app_ref rf (an_fa s)) ||
               (up (Some x) 1 (an_a t) && fact_le (app_ref rf (an_fa s)) (an_fa t))
   end) &&
  (match an_b s with
   | None => true
   | Some y => fact_empty (app_ref rf (an_fb s)) ||
               (up (Some y) 1 (an_b t) && fact_le (app_ref rf (an_fb s)) (an_fb t) &&
                (negb chkc || cjust (an_c s) 1 (an_c t)))
   end).

Definition next_ok (s t : ann) : bool :=
  (* at EOF nextToken changes nothing *)
  (match an_a s with
   | None => true
   | Some x => negb (fact_mem eof (an_fa s)) || (up (Some x) 1 (an_a t) && fact_mem eof (an_fa t))
   end) &&
  (match an_b s with
   | None => true
   | Some y => negb (fact_mem eof (an_fb s)) || (up (Some y) 1 (an_b t) && cjust (an_c s) 1 (an_c t))
   end) &&
  (* otherwise a token is consumed: the b case holds afterwards, nothing is known about the new token *)
  ((negb (is_some (an_a s)) && negb (is_some (an_b s))) ||
   (is_some (an_b t) && fact_le fact_any (an_fb t))).

Definition call_ok (sg sf : fspec) (s t : ann) : bool :=
  (* the callee can be entered *)
  (match an_a s with
   | None => true
   | Some x => fact_le (an_fa s) (fs_pre sf) && (fs_E sf + x + 1 <=? fs_E sg)
   end) &&
  (match an_b s with
   | None => true
   | Some y => fact_le (an_fb s) (fs_pre sf) && (fs_E sf + y + 1 <=? B)
   end) &&
  (* it returns without having consumed *)
  (match fs_L sf with
   | None => true
   | Some l =>
     (match an_a s with
      | None => true
      | Some x => up (Some x) (2 + l) (an_a t) && fact_le (an_fa s) (an_fa t)
      end) &&
     (match an_b s with
      | None => true
      | Some y => up (Some y) (2 + l) (an_b t) && fact_le (an_fb s) (an_fb t) && cjust (an_c s) (2 + l) (an_c t)
      end)
   end) &&
  (* it returns having consumed *)
  (match fs_T sf with
   | None => true
   | Some tc =>
     (negb (is_some (an_a s)) && negb (is_some (an_b s))) ||
     (let bound w :=
        (match an_a s with None => true | Some x => x + 2 + fs_E sf + tc <=? w + fs_E sg end) &&
        (match an_b s with None => true | Some y => y + 2 + fs_E sf + tc <=? w + B end) in
      match an_b t with
      | None => false
      | Some y' => fact_le fact_any (an_fb t) && bound y' &&
                   (match an_c t with None => true | Some z' => bound z' end)
      end)
   end).

Definition ret_ok (sg : fspec) (s : ann) : bool :=
  (match an_a s with
   | None => true
   | Some x => match fs_L sg with Some l => x <=? l | None => false end
   end) &&
  (match an_b s with
   | None => true
   | Some y => match fs_T sg with Some t => y <=? t | None => false end
   end).

(* the successor taken only when a token was consumed since the snapshot *)
Definition diff_ok (s t : ann) : bool :=
  match an_b s with
  | None => true
  | Some _ =>
    match an_c s with
    | None => false
    | Some z =>
      (match an_b t with Some y' => z + 1 <=? y' | None => false end) &&
      fact_le (an_fb s) (an_fb t) &&
      (match an_c t with None => true | Some z' => z + 1 <=? z' end)
    end
  end.

Definition can_pay (sg : fspec) (s : ann) : bool :=
  (match an_a s with None => true | Some x => x + 1 <=? fs_E sg end) &&
  (match an_b s with None => true | Some y => y + 1 <=? B end).

Definition tgt (g : func) (n : N) (k : ann -> bool) : bool :=
  match getn g n with Some t => k (nd_ann t) | None => false end.

Definition instr_ok (g : func) (i : instr) (s : ann) : bool :=
  let sg := fn_spec g in
  match i with
  | IGoto n => tgt g n (edge_ok RId true s)
  | ITestCur m nt nf => tgt g nt (edge_ok (RInter m) true s) && tgt g nf (edge_ok (RMinus m) true s)
  | ITestPeek nt nf => tgt g nt (edge_ok (RMinus (single eof)) true s) && tgt g nf (edge_ok RId true s)
  | IUnknown n1 n2 => tgt g n1 (edge_ok RId true s) && tgt g n2 (edge_ok RId true s)
  | INext n => tgt g n (next_ok s)
  | ICall f n => match getf P f with
                 | None => false
                 | Some fn' => tgt g n (call_ok sg (fn_spec fn') s)
                 end
  | IRet => ret_ok sg s
  | ISnap n => tgt g n (edge_ok RId false s)
  | ITestProgress ns nd => tgt g ns (edge_ok RId true s) && tgt g nd (diff_ok s)
  | IAssumeProgress n => tgt g n (diff_ok s)
  end.

Definition check_node (g : func) (nd : node) : bool :=
  can_pay (fn_spec g) (nd_ann nd) && instr_ok g (nd_instr nd) (nd_ann nd).

(* the entry node: case a with any counter, and the precondition implies its fact *)
Definition entry_ok (g : func) : bool :=
  match getn g 0 with
  | None => false
  | Some nd => is_some (an_a (nd_ann nd)) && fact_le (fs_pre (fn_spec g)) (an_fa (nd_ann nd))
  end.

Definition check_func (g : func) : bool := entry_ok g && forallb (check_node g) (fn_body g).

Definition main_ok : bool :=
  match getf P (p_main P) with
  | None => false
  | Some g => fact_le fact_any (fs_pre (fn_spec g)) && (fs_E (fn_spec g) <=? Emain)
  end.

Definition check_prog : bool := main_ok && forallb check_func (p_funcs P).

End Check.
