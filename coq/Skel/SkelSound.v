(* C02: soundness of the certificate checker.
   check_prog P B Emain = true  ->  every run of P (any token list, any oracle) executes at most
   Emain + B * (number of tokens) steps, and then has halted in the final Ret of the entry function. *)
From Coq Require Import List NArith Arith Bool Lia ZifyN ZifyNat.
From DC Require Import Skel.SkelLang Skel.SkelSem Skel.SkelCheck.
Import ListNotations.
Local Open Scope N_scope.

(* ---------- facts ---------- *)
Lemma fact_any_spec : forall t, fact_mem t fact_any = true.
Proof. intros t. unfold fact_any, fact_mem. rewrite N.bits_0. reflexivity. Qed.

Lemma fact_empty_spec : forall F t, fact_empty F = true -> fact_mem t F = false.
Proof.
  intros [s|s] t H; cbn in *; [|discriminate].
  apply N.eqb_eq in H. subst s. apply N.bits_0.
Qed.

Lemma fact_inter_spec : forall F s t, fact_mem t (fact_inter F s) = fact_mem t F && N.testbit s t.
Proof.
  intros [a|a] s t; cbn.
  - apply N.land_spec.
  - rewrite N.ldiff_spec. apply andb_comm.
Qed.

Lemma fact_minus_spec : forall F s t, fact_mem t (fact_minus F s) = fact_mem t F && negb (N.testbit s t).
Proof.
  intros [a|a] s t; cbn.
  - apply N.ldiff_spec.
  - rewrite N.lor_spec. apply negb_orb.
Qed.

Lemma fact_le_spec : forall F G t, fact_le F G = true -> fact_mem t F = true -> fact_mem t G = true.
Proof.
  intros [a|a] [b|b] t H Hm; cbn in *; try discriminate; apply N.eqb_eq in H.
  - assert (Hb : N.testbit (N.ldiff a b) t = false) by (rewrite H; apply N.bits_0).
    rewrite N.ldiff_spec, Hm in Hb. cbn in Hb. destruct (N.testbit b t); [reflexivity|discriminate].
  - assert (Hb : N.testbit (N.land a b) t = false) by (rewrite H; apply N.bits_0).
    rewrite N.land_spec, Hm in Hb. cbn in Hb. rewrite Hb. reflexivity.
  - assert (Hb : N.testbit (N.ldiff b a) t = false) by (rewrite H; apply N.bits_0).
    rewrite N.ldiff_spec in Hb. destruct (N.testbit a t); [discriminate|].
    cbn in Hb. rewrite andb_true_r in Hb. rewrite Hb. reflexivity.
Qed.

Lemma single_spec : forall t u, N.testbit (single t) u = N.eqb t u.
Proof. intros t u. unfold single. apply N.pow2_bits_eqb. Qed.

Definition ref_sem (rf : refine) (t : N) : bool :=
  match rf with RId => true | RInter s => N.testbit s t | RMinus s => negb (N.testbit s t) end.

Lemma app_ref_spec : forall rf F t, fact_mem t (app_ref rf F) = fact_mem t F && ref_sem rf t.
Proof.
  intros [|s|s] F t; cbn.
  - symmetry. apply andb_true_r.
  - apply fact_inter_spec.
  - apply fact_minus_spec.
Qed.

(* ---------- counters ---------- *)
Lemma up_spec : forall v k x', up (Some v) k x' = true -> exists v', x' = Some v' /\ v + k <= v'.
Proof.
  intros v k [v'|] H; cbn in H; [|discriminate].
  exists v'. split; [reflexivity|]. apply N.leb_le. exact H.
Qed.

Lemma cjust_spec : forall c k z', cjust c k (Some z') = true -> exists z, c = Some z /\ z + k <= z'.
Proof.
  intros [z|] k z' H; cbn in H; [|discriminate].
  exists z. split; [reflexivity|]. apply N.leb_le. exact H.
Qed.

Lemma is_some_spec : forall (A : Type) (o : option A), is_some o = true -> exists v, o = Some v.
Proof. intros A [v|] H; [exists v; reflexivity|discriminate]. Qed.

(* ---------- suffixes ---------- *)
Definition suff (l' l : list N) : Prop := exists pre, l = pre ++ l'.

Lemma suff_refl : forall l, suff l l.
Proof. intros l. exists []. reflexivity. Qed.

Lemma suff_trans : forall a b c, suff a b -> suff b c -> suff a c.
Proof. intros a b c [p Hp] [q Hq]. exists (q ++ p). subst. apply app_assoc. Qed.

Lemma suff_tl : forall t l, suff l (t :: l).
Proof. intros t l. exists [t]. reflexivity. Qed.

Lemma suff_length : forall a b, suff a b -> (length a <= length b)%nat.
Proof. intros a b [p Hp]. subst. rewrite app_length. lia. Qed.

Lemma suff_eq : forall a b, suff a b -> length a = length b -> a = b.
Proof.
  intros a b [p Hp] Hl. subst. rewrite app_length in Hl.
  destruct p as [|x p]; [reflexivity|]. cbn in Hl. lia.
Qed.

(* ---------- list access ---------- *)
Lemma nth_N_In : forall (A : Type) (l : list A) n x, nth_N l n = Some x -> In x l.
Proof. intros A l n x H. unfold nth_N in H. eapply nth_error_In. exact H. Qed.

Ltac bsplit :=
  repeat match goal with
         | H : _ && _ = true |- _ => apply andb_true_iff in H; destruct H
         end.

Local Arguments N.add : simpl never.
Local Arguments N.mul : simpl never.
Local Arguments N.sub : simpl never.
Local Arguments N.leb : simpl never.
Local Arguments Nat.sub : simpl never.

Section Sound.
Variable P : prog.
Variable B : N.
Variable Emain : N.
Hypothesis Hchk : check_prog P B Emain = true.

Let eof := p_eof P.

(* ---------- the invariant ---------- *)
(* the annotation a holds in a frame of a function with spec sg that was entered with potential e, floor r
   and token list toks0; snap is the snapshot slot, toks the current list, Pt the current potential *)
Definition holds (a : ann) (sg : fspec) (e r : N) (toks0 : list N) (snap : nat) (toks : list N) (Pt : N) : Prop :=
  suff toks toks0 /\ (length toks <= snap)%nat /\ (snap <= length toks0)%nat /\ fs_E sg + r <= e /\
  (length toks = length toks0 ->
     exists x, an_a a = Some x /\ e <= Pt + x /\ fact_mem (cur eof toks) (an_fa a) = true) /\
  ((length toks < length toks0)%nat ->
     exists y, an_b a = Some y /\ r + B <= Pt + y /\ fact_mem (cur eof toks) (an_fb a) = true) /\
  (forall z, an_c a = Some z -> (length toks < snap)%nat -> r + B <= Pt + z).

(* every suspended frame: whatever the callee's spec allows at its return re-establishes the annotation of
   the return node *)
Fixpoint stack_inv (f : N) (ef rf : N) (toksf : list N) (stk : list frame) : Prop :=
  match stk with
  | [] => f = p_main P
  | fr :: stk' =>
    exists fn g nd eg rg toksg,
      getf P f = Some fn /\ getf P (fr_f fr) = Some g /\ getn g (fr_pc fr) = Some nd /\
      (forall Pret toks', suff toks' toksf ->
         (length toks' = length toksf -> exists l, fs_L (fn_spec fn) = Some l /\ ef <= Pret + l) ->
         ((length toks' < length toksf)%nat -> exists t, fs_T (fn_spec fn) = Some t /\ rf + B <= Pret + t) ->
         rf + 1 <= Pret ->
         holds (nd_ann nd) (fn_spec g) eg rg toksg (fr_snap fr) toks' (Pret - 1)) /\
      stack_inv (fr_f fr) eg rg toksg stk'
  end.

Definition inv (c : conf) (Pt : N) : Prop :=
  exists fn nd e r toks0,
    getf P (c_f c) = Some fn /\ getn fn (c_pc c) = Some nd /\
    holds (nd_ann nd) (fn_spec fn) e r toks0 (c_snap c) (c_toks c) Pt /\
    stack_inv (c_f c) e r toks0 (c_stack c).

(* ---------- what the checker gives ---------- *)
Lemma chk_func : forall f g, getf P f = Some g -> check_func P B g = true.
Proof.
  intros f g Hg. unfold check_prog in Hchk. apply andb_true_iff in Hchk. destruct Hchk as [_ Hall].
  rewrite forallb_forall in Hall. apply Hall. eapply nth_N_In. exact Hg.
Qed.

Lemma chk_node : forall f g pc nd, getf P f = Some g -> getn g pc = Some nd -> check_node P B g nd = true.
Proof.
  intros f g pc nd Hg Hn. pose proof (chk_func _ _ Hg) as H. unfold check_func in H.
  apply andb_true_iff in H. destruct H as [_ Hall]. rewrite forallb_forall in Hall.
  apply Hall. eapply nth_N_In. exact Hn.
Qed.

Lemma tgt_spec : forall g n k, tgt g n k = true -> exists t, getn g n = Some t /\ k (nd_ann t) = true.
Proof.
  intros g n k H. unfold tgt in H. destruct (getn g n) as [t|]; [|discriminate].
  exists t. split; [reflexivity|exact H].
Qed.

(* ---------- paying for a step ---------- *)
Lemma pay : forall sg s e r toks0 snap toks Pt,
  can_pay B sg s = true -> holds s sg e r toks0 snap toks Pt -> r + 1 <= Pt.
Proof.
  intros sg s e r toks0 snap toks Pt Hp (Hsuf & Hl1 & Hl2 & HE & Ha & Hb & Hc).
  unfold can_pay in Hp. apply andb_true_iff in Hp. destruct Hp as [Hpa Hpb].
  pose proof (suff_length _ _ Hsuf) as Hle.
  destruct (Nat.eq_dec (length toks) (length toks0)) as [Heq|Hne].
  - destruct (Ha Heq) as (x & Hx & Hpx & _). rewrite Hx in Hpa. apply N.leb_le in Hpa. lia.
  - assert (Hlt : (length toks < length toks0)%nat) by lia.
    destruct (Hb Hlt) as (y & Hy & Hpy & _). rewrite Hy in Hpb. apply N.leb_le in Hpb. lia.
Qed.

(* ---------- an edge that consumes nothing ---------- *)
Lemma edge_holds : forall rf chkc s t sg e r toks0 snap snap' toks Pt,
  edge_ok rf chkc s t = true ->
  ref_sem rf (cur eof toks) = true ->
  holds s sg e r toks0 snap toks Pt ->
  1 <= Pt ->
  (if chkc then snap' = snap else snap' = length toks) ->
  holds t sg e r toks0 snap' toks (Pt - 1).
Proof.
  intros rf chkc s t sg e r toks0 snap snap' toks Pt He Hrf (Hsuf & Hl1 & Hl2 & HE & Ha & Hb & Hc) HP Hsn.
  pose proof (suff_length _ _ Hsuf) as Hle.
  unfold edge_ok in He. apply andb_true_iff in He. destruct He as [Hea Heb].
  assert (Hs1 : (length toks <= snap')%nat) by (destruct chkc; subst; lia).
  assert (Hs2 : (snap' <= length toks0)%nat) by (destruct chkc; subst; lia).
  split; [exact Hsuf|]. split; [exact Hs1|]. split; [exact Hs2|]. split; [exact HE|].
  split; [|split].
  - intros Heq. destruct (Ha Heq) as (x & Hx & Hpx & Hfx). rewrite Hx in Hea.
    apply orb_true_iff in Hea. destruct Hea as [Hemp|Hea].
    + pose proof (fact_empty_spec _ (cur eof toks) Hemp) as Hf. rewrite app_ref_spec, Hfx, Hrf in Hf. discriminate.
    + apply andb_true_iff in Hea. destruct Hea as [Hup Hfl].
      destruct (up_spec _ _ _ Hup) as (x' & Hx' & Hxx). exists x'. split; [exact Hx'|]. split; [lia|].
      eapply fact_le_spec; [exact Hfl|]. rewrite app_ref_spec, Hfx, Hrf. reflexivity.
  - intros Hlt. destruct (Hb Hlt) as (y & Hy & Hpy & Hfy). rewrite Hy in Heb.
    apply orb_true_iff in Heb. destruct Heb as [Hemp|Heb].
    + pose proof (fact_empty_spec _ (cur eof toks) Hemp) as Hf. rewrite app_ref_spec, Hfy, Hrf in Hf. discriminate.
    + bsplit. destruct (up_spec _ _ _ H) as (y' & Hy' & Hyy). exists y'. split; [exact Hy'|]. split; [lia|].
      eapply fact_le_spec; [eassumption|]. rewrite app_ref_spec, Hfy, Hrf. reflexivity.
  - intros z' Hz' Hlt.
    destruct chkc; [subst snap'|subst snap'; lia].
    assert (Hlt0 : (length toks < length toks0)%nat) by lia.
    destruct (Hb Hlt0) as (y & Hy & Hpy & Hfy). rewrite Hy in Heb.
    apply orb_true_iff in Heb. destruct Heb as [Hemp|Heb].
    + pose proof (fact_empty_spec _ (cur eof toks) Hemp) as Hf. rewrite app_ref_spec, Hfy, Hrf in Hf. discriminate.
    + bsplit. cbn in H0. rewrite Hz' in H0. destruct (cjust_spec _ _ _ H0) as (z & Hz & Hzz).
      pose proof (Hc _ Hz Hlt). lia.
Qed.

Definition credit (c c' : conf) (Pt : N) : N :=
  Pt + B * N.of_nat (length (c_toks c) - length (c_toks c')) - 1.

Lemma credit_same : forall c c' Pt, c_toks c' = c_toks c -> credit c c' Pt = Pt - 1.
Proof.
  intros c c' Pt H. unfold credit. rewrite H, Nat.sub_diag. cbn. rewrite N.mul_0_r, N.add_0_r. reflexivity.
Qed.

(* a step inside the current frame that leaves the tokens alone *)
Lemma same_frame : forall c fn s e r toks0 Pt pc t snap' orc',
  getf P (c_f c) = Some fn ->
  stack_inv (c_f c) e r toks0 (c_stack c) ->
  getn fn pc = Some t ->
  holds (nd_ann t) (fn_spec fn) e r toks0 snap' (c_toks c) (Pt - 1) ->
  s = mkConf (c_f c) pc snap' (c_toks c) orc' (c_stack c) ->
  inv s (credit c s Pt).
Proof.
  intros c fn s e r toks0 Pt pc t snap' orc' Hf Hst Ht Hh ->.
  rewrite credit_same by reflexivity.
  exists fn, t, e, r, toks0. cbn [c_f c_pc c_snap c_toks c_stack].
  split; [exact Hf|]. split; [exact Ht|]. split; [exact Hh|exact Hst].
Qed.

Lemma holds_live : forall s sg e r toks0 snap toks Pt,
  holds s sg e r toks0 snap toks Pt -> is_some (an_a s) = true \/ is_some (an_b s) = true.
Proof.
  intros s sg e r toks0 snap toks Pt (Hsuf & _ & _ & _ & Ha & Hb & _).
  pose proof (suff_length _ _ Hsuf) as Hle.
  destruct (Nat.eq_dec (length toks) (length toks0)) as [Heq|Hne].
  - destruct (Ha Heq) as (x & Hx & _). left. rewrite Hx. reflexivity.
  - assert (Hlt : (length toks < length toks0)%nat) by lia.
    destruct (Hb Hlt) as (y & Hy & _). right. rewrite Hy. reflexivity.
Qed.

Lemma live_not_dead : forall s, is_some (an_a s) = true \/ is_some (an_b s) = true ->
  negb (is_some (an_a s)) && negb (is_some (an_b s)) = false.
Proof. intros s [H|H]; rewrite H; cbn; [reflexivity|apply andb_false_r]. Qed.

(* the successor reached only when a token was consumed since the snapshot *)
Lemma diff_holds : forall s t sg e r toks0 snap toks Pt,
  diff_ok s t = true ->
  holds s sg e r toks0 snap toks Pt ->
  1 <= Pt ->
  (length toks < snap)%nat ->
  holds t sg e r toks0 snap toks (Pt - 1).
Proof.
  intros s t sg e r toks0 snap toks Pt Hd (Hsuf & Hl1 & Hl2 & HE & Ha & Hb & Hc) HP Hlt.
  assert (Hlt0 : (length toks < length toks0)%nat) by lia.
  destruct (Hb Hlt0) as (y & Hy & Hpy & Hfy).
  unfold diff_ok in Hd. rewrite Hy in Hd.
  destruct (an_c s) as [z|] eqn:Hz; [|discriminate].
  pose proof (Hc _ eq_refl Hlt) as Hpz.
  bsplit.
  destruct (an_b t) as [y'|] eqn:Hy'; [|discriminate]. apply N.leb_le in H.
  split; [exact Hsuf|]. split; [exact Hl1|]. split; [exact Hl2|]. split; [exact HE|].
  split; [|split].
  - intros Heq. lia.
  - intros _. exists y'. split; [exact Hy'|]. split; [lia|].
    eapply fact_le_spec; eassumption.
  - intros z' Hz' _. rewrite Hz' in H0. apply N.leb_le in H0. lia.
Qed.


(* the call rule, in propositional form *)
Lemma call_ok_spec : forall sg sf s t, call_ok B sg sf s t = true ->
  (forall x, an_a s = Some x -> fact_le (an_fa s) (fs_pre sf) = true /\ fs_E sf + x + 1 <= fs_E sg) /\
  (forall y, an_b s = Some y -> fact_le (an_fb s) (fs_pre sf) = true /\ fs_E sf + y + 1 <= B) /\
  (forall l, fs_L sf = Some l ->
     (forall x, an_a s = Some x ->
        exists x', an_a t = Some x' /\ x + (2 + l) <= x' /\ fact_le (an_fa s) (an_fa t) = true) /\
     (forall y, an_b s = Some y ->
        exists y', an_b t = Some y' /\ y + (2 + l) <= y' /\ fact_le (an_fb s) (an_fb t) = true /\
                   (forall z', an_c t = Some z' -> exists z, an_c s = Some z /\ z + (2 + l) <= z'))) /\
  (forall tc, fs_T sf = Some tc -> is_some (an_a s) = true \/ is_some (an_b s) = true ->
     exists y', an_b t = Some y' /\ fact_le fact_any (an_fb t) = true /\
       (forall x, an_a s = Some x -> x + 2 + fs_E sf + tc <= y' + fs_E sg) /\
       (forall y, an_b s = Some y -> y + 2 + fs_E sf + tc <= y' + B) /\
       (forall z', an_c t = Some z' ->
          (forall x, an_a s = Some x -> x + 2 + fs_E sf + tc <= z' + fs_E sg) /\
          (forall y, an_b s = Some y -> y + 2 + fs_E sf + tc <= z' + B))).
Proof.
  intros sg sf s t H. unfold call_ok in H.
  apply andb_true_iff in H. destruct H as [H HT].
  apply andb_true_iff in H. destruct H as [H HL].
  apply andb_true_iff in H. destruct H as [HA HB].
  split; [|split; [|split]].
  - intros x Hx. rewrite Hx in HA. apply andb_true_iff in HA. destruct HA as [H1 H2].
    apply N.leb_le in H2. split; assumption.
  - intros y Hy. rewrite Hy in HB. apply andb_true_iff in HB. destruct HB as [H1 H2].
    apply N.leb_le in H2. split; assumption.
  - intros l Hl. rewrite Hl in HL. apply andb_true_iff in HL. destruct HL as [HLa HLb]. split.
    + intros x Hx. rewrite Hx in HLa. apply andb_true_iff in HLa. destruct HLa as [H1 H2].
      destruct (up_spec _ _ _ H1) as (x' & Hx' & Hxx). exists x'. repeat split; assumption.
    + intros y Hy. rewrite Hy in HLb. apply andb_true_iff in HLb. destruct HLb as [H1 H3].
      apply andb_true_iff in H1. destruct H1 as [H1 H2].
      destruct (up_spec _ _ _ H1) as (y' & Hy' & Hyy). exists y'.
      split; [exact Hy'|]. split; [exact Hyy|]. split; [exact H2|].
      intros z' Hz'. rewrite Hz' in H3. apply cjust_spec. exact H3.
  - intros tc Htc Hlive. rewrite Htc in HT. rewrite (live_not_dead _ Hlive) in HT. cbn [orb] in HT.
    destruct (an_b t) as [y'|]; [|discriminate]. exists y'. split; [reflexivity|].
    apply andb_true_iff in HT. destruct HT as [HT1 HT3].
    apply andb_true_iff in HT1. destruct HT1 as [HT1 HT2].
    apply andb_true_iff in HT2. destruct HT2 as [HT2a HT2b].
    split; [exact HT1|]. split; [|split].
    + intros x Hx. rewrite Hx in HT2a. apply N.leb_le in HT2a. exact HT2a.
    + intros y Hy. rewrite Hy in HT2b. apply N.leb_le in HT2b. exact HT2b.
    + intros z' Hz'. rewrite Hz' in HT3. apply andb_true_iff in HT3. destruct HT3 as [HT3a HT3b]. split.
      * intros x Hx. rewrite Hx in HT3a. apply N.leb_le in HT3a. exact HT3a.
      * intros y Hy. rewrite Hy in HT3b. apply N.leb_le in HT3b. exact HT3b.
Qed.

Ltac sframe PC T HT :=
  eapply same_frame with (pc := PC) (t := T); [eassumption | eassumption | exact HT | | reflexivity].

Theorem step_preserves : forall c c' Pt,
  inv c Pt -> step P c = Some c' -> 1 <= Pt /\ inv c' (credit c c' Pt).
Proof.
  intros c c' Pt (fn & nd & e & r & toks0 & Hf & Hn & Hh & Hst) Hstep.
  pose proof (chk_node _ _ _ _ Hf Hn) as Hck. unfold check_node in Hck.
  apply andb_true_iff in Hck. destruct Hck as [Hpay Hio].
  pose proof (pay _ _ _ _ _ _ _ _ Hpay Hh) as HrP.
  assert (HP : 1 <= Pt) by lia. split; [exact HP|].
  unfold step in Hstep. rewrite Hf, Hn in Hstep.
  set (s := nd_ann nd) in *.
  destruct (nd_instr nd) as [n|m nt nf|nt nf|n1 n2|n|f n| |n|ns nd'|n] eqn:Hi; cbn in Hio.
  - (* Goto *)
    destruct (tgt_spec _ _ _ Hio) as (t & Ht & He).
    inversion Hstep; subst c'; clear Hstep.
    sframe n t Ht.
    eapply edge_holds with (chkc := true); [exact He|reflexivity|exact Hh|exact HP|reflexivity].
  - (* TestCur *)
    bsplit. destruct (tgt_spec _ _ _ H) as (t1 & Ht1 & He1). destruct (tgt_spec _ _ _ H0) as (t2 & Ht2 & He2).
    inversion Hstep; subst c'; clear Hstep.
    destruct (N.testbit m (cur (p_eof P) (c_toks c))) eqn:Hb.
    + assert (Hrs : ref_sem (RInter m) (cur eof (c_toks c)) = true) by (cbn; exact Hb).
      sframe nt t1 Ht1. eapply edge_holds with (chkc := true); [exact He1|exact Hrs|exact Hh|exact HP|reflexivity].
    + assert (Hrs : ref_sem (RMinus m) (cur eof (c_toks c)) = true) by (cbn; unfold eof; rewrite Hb; reflexivity).
      sframe nf t2 Ht2. eapply edge_holds with (chkc := true); [exact He2|exact Hrs|exact Hh|exact HP|reflexivity].
  - (* TestPeek *)
    bsplit. destruct (tgt_spec _ _ _ H) as (t1 & Ht1 & He1). destruct (tgt_spec _ _ _ H0) as (t2 & Ht2 & He2).
    destruct (N.eqb (cur (p_eof P) (c_toks c)) (p_eof P)) eqn:Hb.
    + inversion Hstep; subst c'; clear Hstep.
      sframe nf t2 Ht2. eapply edge_holds with (chkc := true); [exact He2|reflexivity|exact Hh|exact HP|reflexivity].
    + destruct (pop_orc (c_orc c)) as [b o]. inversion Hstep; subst c'; clear Hstep.
      destruct b.
      * assert (Hrs : ref_sem (RMinus (single eof)) (cur eof (c_toks c)) = true)
          by (cbn; rewrite single_spec; unfold eof; rewrite N.eqb_sym, Hb; reflexivity).
        sframe nt t1 Ht1. eapply edge_holds with (chkc := true); [exact He1|exact Hrs|exact Hh|exact HP|reflexivity].
      * sframe nf t2 Ht2. eapply edge_holds with (chkc := true); [exact He2|reflexivity|exact Hh|exact HP|reflexivity].
  - (* Unknown *)
    bsplit. destruct (tgt_spec _ _ _ H) as (t1 & Ht1 & He1). destruct (tgt_spec _ _ _ H0) as (t2 & Ht2 & He2).
    destruct (pop_orc (c_orc c)) as [b o]. inversion Hstep; subst c'; clear Hstep.
    destruct b.
    + sframe n1 t1 Ht1. eapply edge_holds with (chkc := true); [exact He1|reflexivity|exact Hh|exact HP|reflexivity].
    + sframe n2 t2 Ht2. eapply edge_holds with (chkc := true); [exact He2|reflexivity|exact Hh|exact HP|reflexivity].
  - (* Next *)
    destruct (tgt_spec _ _ _ Hio) as (t & Ht & He).
    inversion Hstep; subst c'; clear Hstep.
    unfold next_ok in He. bsplit.
    rename H into Hna. rename H1 into Hnb. rename H0 into Hnc.
    rewrite (live_not_dead _ (holds_live _ _ _ _ _ _ _ _ Hh)) in Hnc. cbn [orb] in Hnc. bsplit.
    rename H into Hbt. rename H0 into Hfbt.
    destruct Hh as (Hsuf & Hl1 & Hl2 & HE & Ha & Hb & Hc).
    pose proof (suff_length _ _ Hsuf) as Hle.
    destruct (c_toks c) as [|tk tks] eqn:Htoks.
    + (* EOF: nothing changes *)
      cbn [tl]. rewrite <- Htoks.
      eapply same_frame with (pc := n) (t := t) (snap' := c_snap c) (orc' := c_orc c);
        [eassumption | eassumption | exact Ht | | rewrite Htoks; reflexivity].
      rewrite Htoks. cbn [length] in *.
      split; [exact Hsuf|]. split; [exact Hl1|]. split; [exact Hl2|]. split; [exact HE|].
      split; [|split].
      * intros Heq. destruct (Ha Heq) as (x & Hx & Hpx & Hfx). fold s in Hx. rewrite Hx in Hna.
        cbn [cur] in Hfx. fold s in Hfx. fold eof in Hna. rewrite Hfx in Hna. cbn in Hna. bsplit.
        destruct (up_spec _ _ _ H) as (x' & Hx' & Hxx). exists x'. split; [exact Hx'|]. split; [lia|]. exact H0.
      * intros Hlt. destruct (Hb Hlt) as (y & Hy & Hpy & Hfy). fold s in Hy. rewrite Hy in Hnb.
        cbn [cur] in Hfy. fold s in Hfy. fold eof in Hnb. rewrite Hfy in Hnb. cbn in Hnb. bsplit.
        destruct (up_spec _ _ _ H) as (y' & Hy' & Hyy). exists y'. split; [exact Hy'|]. split; [lia|].
        eapply fact_le_spec; [exact Hfbt|]. apply fact_any_spec.
      * intros z' Hz' Hlt. assert (Hlt0 : (0 < length toks0)%nat) by lia.
        destruct (Hb Hlt0) as (y & Hy & Hpy & Hfy). fold s in Hy. rewrite Hy in Hnb.
        cbn [cur] in Hfy. fold s in Hfy. fold eof in Hnb. rewrite Hfy in Hnb. cbn in Hnb. bsplit.
        rewrite Hz' in H0. destruct (cjust_spec _ _ _ H0) as (z & Hz & Hzz).
        pose proof (Hc _ Hz Hlt). lia.
    + (* a token is consumed *)
      cbn [tl]. destruct (is_some_spec _ _ Hbt) as (y' & Hy').
      exists fn, t, e, r, toks0. cbn [c_f c_pc c_snap c_toks c_stack].
      split; [exact Hf|]. split; [exact Ht|]. split; [|exact Hst].
      unfold credit. cbn [c_toks]. rewrite Htoks. cbn [length] in *.
      replace (S (length tks) - length tks)%nat with 1%nat by lia.
      replace (Pt + B * N.of_nat 1 - 1) with (Pt + B - 1) by lia.
      split; [eapply suff_trans; [apply suff_tl|exact Hsuf]|].
      split; [lia|]. split; [exact Hl2|]. split; [exact HE|].
      split; [|split].
      * intros Heq. lia.
      * intros _. exists y'. split; [exact Hy'|]. split; [lia|].
        eapply fact_le_spec; [exact Hfbt|]. apply fact_any_spec.
      * intros z' _ _. lia.
  - (* Call *)
    destruct (getf P f) as [fn'|] eqn:Hf'; [|discriminate].
    destruct (tgt_spec _ _ _ Hio) as (t & Ht & Hcall).
    inversion Hstep; subst c'; clear Hstep.
    rewrite credit_same by reflexivity.
    pose proof (chk_func _ _ Hf') as Hcf. unfold check_func in Hcf. apply andb_true_iff in Hcf.
    destruct Hcf as [Hentry _]. unfold entry_ok in Hentry.
    destruct (getn fn' 0) as [nd0|] eqn:Hnd0; [|discriminate].
    apply andb_true_iff in Hentry. destruct Hentry as [Hx0 Hpre0].
    destruct (is_some_spec _ _ Hx0) as (x0 & Hx0').
    pose proof (holds_live _ _ _ _ _ _ _ _ Hh) as Hlive.
    destruct (call_ok_spec _ _ _ _ Hcall) as (Hca & Hcb & HcL & HcT).
    destruct Hh as (Hsuf & Hl1 & Hl2 & HE & Ha & Hb & Hc).
    pose proof (suff_length _ _ Hsuf) as Hle.
    (* the callee's entry potential and the caller's fact imply its precondition *)
    assert (Hent : fs_E (fn_spec fn') + r + 1 <= Pt /\ fact_mem (cur eof (c_toks c)) (fs_pre (fn_spec fn')) = true).
    { destruct (Nat.eq_dec (length (c_toks c)) (length toks0)) as [Heq|Hne].
      - destruct (Ha Heq) as (x & Hx & Hpx & Hfx). destruct (Hca _ Hx) as (Hle1 & HE1).
        split; [lia|]. eapply fact_le_spec; eassumption.
      - assert (Hlt : (length (c_toks c) < length toks0)%nat) by lia.
        destruct (Hb Hlt) as (y & Hy & Hpy & Hfy). destruct (Hcb _ Hy) as (Hle1 & HE1).
        split; [lia|]. eapply fact_le_spec; eassumption. }
    destruct Hent as (HentE & HentF).
    exists fn', nd0, (Pt - 1), (Pt - 1 - fs_E (fn_spec fn')), (c_toks c).
    cbn [c_f c_pc c_snap c_toks c_stack].
    split; [exact Hf'|]. split; [exact Hnd0|]. split.
    + (* the callee's entry annotation *)
      split; [apply suff_refl|]. split; [lia|]. split; [lia|]. split; [lia|].
      split; [|split].
      * intros _. exists x0. split; [exact Hx0'|]. split; [lia|]. eapply fact_le_spec; eassumption.
      * intros Hlt. lia.
      * intros z _ Hlt. lia.
    + (* the new suspended frame *)
      cbn [stack_inv fr_f fr_pc fr_snap].
      exists fn', fn, t, e, r, toks0.
      split; [exact Hf'|]. split; [exact Hf|]. split; [exact Ht|]. split; [|exact Hst].
      intros Pret toks' Hsuf' HretL HretT HretP.
      pose proof (suff_length _ _ Hsuf') as Hle'.
      split; [eapply suff_trans; eassumption|]. split; [lia|]. split; [exact Hl2|]. split; [exact HE|].
      split; [|split].
      * (* nothing consumed since the caller's entry *)
        intros Heq'. assert (Heq1 : length toks' = length (c_toks c)) by lia.
        assert (Heq : length (c_toks c) = length toks0) by lia.
        pose proof (suff_eq _ _ Hsuf' Heq1) as ->.
        destruct (HretL eq_refl) as (l & Hl & HpL).
        destruct (Ha Heq) as (x & Hx & Hpx & Hfx).
        destruct (HcL _ Hl) as (HcLa & _). destruct (HcLa _ Hx) as (x' & Hx' & Hxx & Hfl).
        exists x'. split; [exact Hx'|]. split; [lia|]. eapply fact_le_spec; eassumption.
      * intros Hlt'.
        destruct (Nat.eq_dec (length toks') (length (c_toks c))) as [Heq1|Hne1].
        -- (* the callee did not consume; the caller had *)
           pose proof (suff_eq _ _ Hsuf' Heq1) as ->.
           destruct (HretL eq_refl) as (l & Hl & HpL).
           destruct (Hb Hlt') as (y & Hy & Hpy & Hfy).
           destruct (HcL _ Hl) as (_ & HcLb). destruct (HcLb _ Hy) as (y' & Hy' & Hyy & Hfl & _).
           exists y'. split; [exact Hy'|]. split; [lia|]. eapply fact_le_spec; eassumption.
        -- (* the callee consumed *)
           assert (Hlt1 : (length toks' < length (c_toks c))%nat) by lia.
           destruct (HretT Hlt1) as (tc & Htc & HpT).
           destruct (HcT _ Htc Hlive) as (y' & Hy' & Hfl & Hba & Hbb & _).
           exists y'. split; [exact Hy'|]. split; [|eapply fact_le_spec; [exact Hfl|apply fact_any_spec]].
           destruct (Nat.eq_dec (length (c_toks c)) (length toks0)) as [Heq|Hne].
           ++ destruct (Ha Heq) as (x & Hx & Hpx & Hfx). pose proof (Hba _ Hx). lia.
           ++ assert (Hlt : (length (c_toks c) < length toks0)%nat) by lia.
              destruct (Hb Hlt) as (y & Hy & Hpy & Hfy). pose proof (Hbb _ Hy). lia.
      * intros z' Hz' Hlts.
        destruct (Nat.eq_dec (length toks') (length (c_toks c))) as [Heq1|Hne1].
        -- pose proof (suff_eq _ _ Hsuf' Heq1) as ->.
           destruct (HretL eq_refl) as (l & Hl & HpL).
           assert (Hlt : (length (c_toks c) < length toks0)%nat) by lia.
           destruct (Hb Hlt) as (y & Hy & Hpy & Hfy).
           destruct (HcL _ Hl) as (_ & HcLb). destruct (HcLb _ Hy) as (y' & Hy' & Hyy & Hfl & Hcj).
           destruct (Hcj _ Hz') as (z & Hz & Hzz).
           pose proof (Hc _ Hz Hlts). lia.
        -- assert (Hlt1 : (length toks' < length (c_toks c))%nat) by lia.
           destruct (HretT Hlt1) as (tc & Htc & HpT).
           destruct (HcT _ Htc Hlive) as (y' & Hy' & Hfl & _ & _ & Hbz).
           destruct (Hbz _ Hz') as (Hza & Hzb).
           destruct (Nat.eq_dec (length (c_toks c)) (length toks0)) as [Heq|Hne].
           ++ destruct (Ha Heq) as (x & Hx & Hpx & Hfx). pose proof (Hza _ Hx). lia.
           ++ assert (Hlt : (length (c_toks c) < length toks0)%nat) by lia.
              destruct (Hb Hlt) as (y & Hy & Hpy & Hfy). pose proof (Hzb _ Hy). lia.
  - (* Ret *)
    destruct (c_stack c) as [|fr stk] eqn:Hstk; [discriminate|].
    inversion Hstep; subst c'; clear Hstep.
    rewrite credit_same by reflexivity.
    cbn [stack_inv] in Hst.
    destruct Hst as (fn0 & g & ndr & eg & rg & toksg & Hf0 & Hg & Hndr & Hpost & Hst').
    rewrite Hf in Hf0. inversion Hf0; subst fn0; clear Hf0.
    exists g, ndr, eg, rg, toksg. cbn [c_f c_pc c_snap c_toks c_stack].
    split; [exact Hg|]. split; [exact Hndr|]. split; [|exact Hst'].
    unfold ret_ok in Hio. bsplit.
    destruct Hh as (Hsuf & Hl1 & Hl2 & HE & Ha & Hb & Hc).
    apply Hpost; [exact Hsuf| | |exact HrP].
    + intros Heq. destruct (Ha Heq) as (x & Hx & Hpx & _). fold s in Hx. rewrite Hx in H.
      destruct (fs_L (fn_spec fn)) as [l|]; [|discriminate]. apply N.leb_le in H.
      exists l. split; [reflexivity|lia].
    + intros Hlt. destruct (Hb Hlt) as (y & Hy & Hpy & _). fold s in Hy. rewrite Hy in H0.
      destruct (fs_T (fn_spec fn)) as [tc|]; [|discriminate]. apply N.leb_le in H0.
      exists tc. split; [reflexivity|lia].
  - (* Snap *)
    destruct (tgt_spec _ _ _ Hio) as (t & Ht & He).
    inversion Hstep; subst c'; clear Hstep.
    sframe n t Ht.
    eapply edge_holds with (chkc := false); [exact He|reflexivity|exact Hh|exact HP|reflexivity].
  - (* TestProgress *)
    bsplit. destruct (tgt_spec _ _ _ H) as (t1 & Ht1 & He1). destruct (tgt_spec _ _ _ H0) as (t2 & Ht2 & He2).
    destruct (Nat.eqb (length (c_toks c)) (c_snap c)) eqn:Hb.
    + inversion Hstep; subst c'; clear Hstep.
      sframe ns t1 Ht1. eapply edge_holds with (chkc := true); [exact He1|reflexivity|exact Hh|exact HP|reflexivity].
    + destruct (pop_orc (c_orc c)) as [b o]. inversion Hstep; subst c'; clear Hstep.
      apply Nat.eqb_neq in Hb.
      destruct b.
      * sframe ns t1 Ht1. eapply edge_holds with (chkc := true); [exact He1|reflexivity|exact Hh|exact HP|reflexivity].
      * sframe nd' t2 Ht2. eapply diff_holds; [exact He2|exact Hh|exact HP|].
        destruct Hh as (_ & Hl1 & _). lia.
  - (* AssumeProgress *)
    destruct (tgt_spec _ _ _ Hio) as (t & Ht & He).
    destruct (Nat.eqb (length (c_toks c)) (c_snap c)) eqn:Hb; [discriminate|].
    inversion Hstep; subst c'; clear Hstep.
    apply Nat.eqb_neq in Hb.
    sframe n t Ht. eapply diff_holds; [exact He|exact Hh|exact HP|].
    destruct Hh as (_ & Hl1 & _). lia.
Qed.

(* ---------- the initial configuration ---------- *)
Lemma init_inv : forall toks orc, inv (init P toks orc) Emain.
Proof.
  intros toks orc.
  unfold check_prog in Hchk. pose proof Hchk as Hc0. apply andb_true_iff in Hc0. destruct Hc0 as [Hmain _].
  unfold main_ok in Hmain. destruct (getf P (p_main P)) as [g|] eqn:Hg; [|discriminate].
  apply andb_true_iff in Hmain. destruct Hmain as [Hpre HE]. apply N.leb_le in HE.
  pose proof (chk_func _ _ Hg) as Hcf. unfold check_func in Hcf. apply andb_true_iff in Hcf.
  destruct Hcf as [Hentry _]. unfold entry_ok in Hentry.
  destruct (getn g 0) as [nd0|] eqn:Hnd0; [|discriminate].
  apply andb_true_iff in Hentry. destruct Hentry as [Hx0 Hpre0].
  destruct (is_some_spec _ _ Hx0) as (x0 & Hx0').
  exists g, nd0, Emain, 0, toks. unfold init. cbn [c_f c_pc c_snap c_toks c_stack].
  split; [exact Hg|]. split; [exact Hnd0|]. split; [|reflexivity].
  split; [apply suff_refl|]. split; [lia|]. split; [lia|]. split; [lia|].
  split; [|split].
  - intros _. exists x0. split; [exact Hx0'|]. split; [lia|].
    eapply fact_le_spec; [exact Hpre0|]. eapply fact_le_spec; [exact Hpre|]. apply fact_any_spec.
  - intros Hlt. lia.
  - intros z _ Hlt. lia.
Qed.

(* ---------- where a run can stop ---------- *)
Lemma stuck_final : forall c Pt, inv c Pt -> step P c = None -> final P c \/ blocked P c.
Proof.
  intros c Pt (fn & nd & e & r & toks0 & Hf & Hn & Hh & Hst) Hstep.
  unfold step in Hstep. rewrite Hf, Hn in Hstep.
  destruct (nd_instr nd) as [n|m nt nf|nt nf|n1 n2|n|f n| |n|ns nd'|n] eqn:Hi; try discriminate.
  - destruct (N.eqb (cur (p_eof P) (c_toks c)) (p_eof P)); [discriminate|].
    destruct (pop_orc (c_orc c)); discriminate.
  - destruct (pop_orc (c_orc c)); discriminate.
  - destruct (c_stack c) as [|fr stk] eqn:Hstk; [|discriminate].
    left. cbn in Hst. split; [exact Hst|]. split; [exact Hstk|].
    exists fn, nd. repeat split; assumption.
  - destruct (Nat.eqb (length (c_toks c)) (c_snap c)); [discriminate|].
    destruct (pop_orc (c_orc c)); discriminate.
  - destruct (Nat.eqb (length (c_toks c)) (c_snap c)) eqn:Hb; [|discriminate].
    right. exists n. split; [exists fn, nd; repeat split; assumption|].
    apply Nat.eqb_eq. exact Hb.
Qed.

Lemma step_len : forall c c', step P c = Some c' -> (length (c_toks c') <= length (c_toks c))%nat.
Proof.
  intros c c' H. unfold step in H.
  destruct (getf P (c_f c)) as [fn|]; [|discriminate].
  destruct (getn fn (c_pc c)) as [nd|]; [|discriminate].
  destruct (nd_instr nd); cbn in H.
  - inversion H; cbn; lia.
  - inversion H; cbn; lia.
  - destruct (N.eqb _ _); [inversion H; cbn; lia|]. destruct (pop_orc (c_orc c)); inversion H; cbn; lia.
  - destruct (pop_orc (c_orc c)); inversion H; cbn; lia.
  - inversion H; cbn. destruct (c_toks c); cbn; lia.
  - inversion H; cbn; lia.
  - destruct (c_stack c); [discriminate|]. inversion H; cbn; lia.
  - inversion H; cbn; lia.
  - destruct (Nat.eqb _ _); [inversion H; cbn; lia|]. destruct (pop_orc (c_orc c)); inversion H; cbn; lia.
  - destruct (Nat.eqb _ _); [discriminate|]. inversion H; cbn; lia.
Qed.

(* ---------- runs ---------- *)
Lemma run_inv : forall n c0 P0 c k,
  inv c0 P0 -> run P n c0 = (c, k) ->
  (length (c_toks c) <= length (c_toks c0))%nat /\
  exists Pk, inv c Pk /\ Pk + N.of_nat k = P0 + B * N.of_nat (length (c_toks c0) - length (c_toks c)).
Proof.
  induction n as [|n IH]; intros c0 P0 c k Hinv Hrun; cbn in Hrun.
  - inversion Hrun; subst. split; [lia|]. exists P0. split; [exact Hinv|].
    rewrite Nat.sub_diag. cbn. lia.
  - destruct (step P c0) as [c1|] eqn:Hs.
    + destruct (run P n c1) as [c2 k2] eqn:Hr. inversion Hrun; subst c2 k; clear Hrun.
      destruct (step_preserves _ _ _ Hinv Hs) as (HP & Hinv1).
      pose proof (step_len _ _ Hs) as Hl1.
      destruct (IH _ _ _ _ Hinv1 Hr) as (Hl2 & Pk & Hinvk & Hk).
      split; [lia|]. exists Pk. split; [exact Hinvk|].
      unfold credit in Hk.
      assert (Hsplit : N.of_nat (length (c_toks c0) - length (c_toks c)) =
                       N.of_nat (length (c_toks c0) - length (c_toks c1)) +
                       N.of_nat (length (c_toks c1) - length (c_toks c))) by lia.
      rewrite Hsplit, N.mul_add_distr_l.
      set (X := B * N.of_nat (length (c_toks c0) - length (c_toks c1))) in *.
      set (Y := B * N.of_nat (length (c_toks c1) - length (c_toks c))) in *.
      clearbody X Y. lia.
    + inversion Hrun; subst. split; [lia|]. exists P0. split; [exact Hinv|].
      rewrite Nat.sub_diag. cbn. lia.
Qed.

Lemma run_stops : forall n c0 c k, run P n c0 = (c, k) -> (k < n)%nat -> step P c = None.
Proof.
  induction n as [|n IH]; intros c0 c k Hrun Hk; [lia|]. cbn in Hrun.
  destruct (step P c0) as [c1|] eqn:Hs.
  - destruct (run P n c1) as [c2 k2] eqn:Hr. inversion Hrun; subst c2 k; clear Hrun.
    eapply IH; [exact Hr|lia].
  - inversion Hrun; subst. exact Hs.
Qed.

(* ---------- the theorems ---------- *)
Theorem linear_bound : forall toks orc n,
  let '(c, k) := run P n (init P toks orc) in
  N.of_nat k <= Emain + B * N.of_nat (length toks).
Proof.
  intros toks orc n. destruct (run P n (init P toks orc)) as [c k] eqn:Hrun.
  destruct (run_inv _ _ _ _ _ (init_inv toks orc) Hrun) as (Hl & Pk & _ & Hk).
  unfold init in Hk, Hl. cbn [c_toks] in Hk, Hl.
  assert (Hm : B * N.of_nat (length toks - length (c_toks c)) <= B * N.of_nat (length toks)).
  { apply N.mul_le_mono_l. lia. }
  set (X := B * N.of_nat (length toks - length (c_toks c))) in *.
  set (Y := B * N.of_nat (length toks)) in *. clearbody X Y. lia.
Qed.

Theorem halts : forall toks orc,
  let fuel := S (N.to_nat (Emain + B * N.of_nat (length toks))) in
  let '(c, k) := run P fuel (init P toks orc) in
  step P c = None /\ (final P c \/ blocked P c).
Proof.
  intros toks orc fuel. destruct (run P fuel (init P toks orc)) as [c k] eqn:Hrun.
  pose proof (linear_bound toks orc fuel) as Hb. rewrite Hrun in Hb.
  assert (Hk : (k < fuel)%nat) by (unfold fuel; lia).
  pose proof (run_stops _ _ _ _ Hrun Hk) as Hstop.
  split; [exact Hstop|].
  destruct (run_inv _ _ _ _ _ (init_inv toks orc) Hrun) as (_ & Pk & Hinv & _).
  eapply stuck_final; eassumption.
Qed.

Lemma no_assume_not_blocked : forall c, no_assume P = true -> ~ blocked P c.
Proof.
  intros c Hna (n & (fn & nd & Hf & Hn & Hi) & _).
  unfold no_assume in Hna. rewrite forallb_forall in Hna.
  pose proof (Hna _ (nth_N_In _ _ _ _ Hf)) as Hg. rewrite forallb_forall in Hg.
  pose proof (Hg _ (nth_N_In _ _ _ _ Hn)) as Hnd. rewrite Hi in Hnd. discriminate.
Qed.

Corollary halts_final : forall toks orc,
  no_assume P = true ->
  let fuel := S (N.to_nat (Emain + B * N.of_nat (length toks))) in
  let '(c, k) := run P fuel (init P toks orc) in
  step P c = None /\ final P c.
Proof.
  intros toks orc Hna. pose proof (halts toks orc) as H. cbv zeta in H |- *.
  destruct (run P (S (N.to_nat (Emain + B * N.of_nat (length toks)))) (init P toks orc)) as [c k].
  destruct H as (Hs & [Hf|Hb]).
  - split; assumption.
  - exfalso. eapply no_assume_not_blocked; eassumption.
Qed.

End Sound.

(* The statement used by Properties/C02.v *)
Theorem check_prog_sound : forall (sk : prog) (B Emain : N),
  check_prog sk B Emain = true ->
  forall (toks : list N) (orc : list bool),
    (forall n, let '(c, k) := run sk n (init sk toks orc) in
               N.of_nat k <= Emain + B * N.of_nat (length toks)) /\
    (let '(c, k) := run sk (S (N.to_nat (Emain + B * N.of_nat (length toks)))) (init sk toks orc) in
     step sk c = None /\ (final sk c \/ blocked sk c)).
Proof.
  intros sk B Emain H toks orc. split.
  - intros n. apply (linear_bound sk B Emain H).
  - apply (halts sk B Emain H).
Qed.

Theorem check_prog_sound_final : forall (sk : prog) (B Emain : N),
  check_prog sk B Emain = true -> no_assume sk = true ->
  forall (toks : list N) (orc : list bool),
    (forall n, let '(c, k) := run sk n (init sk toks orc) in
               N.of_nat k <= Emain + B * N.of_nat (length toks)) /\
    (let '(c, k) := run sk (S (N.to_nat (Emain + B * N.of_nat (length toks)))) (init sk toks orc) in
     step sk c = None /\ final sk c).
Proof.
  intros sk B Emain H Hna toks orc. split.
  - intros n. apply (linear_bound sk B Emain H).
  - apply (halts_final sk B Emain H toks orc Hna).
Qed.

(* The hypothesis is satisfiable by a non-trivial program: eof kind 1;
   main:  0: TestCur {eof} ? 4 : 1     1: Call skip -> 2     2: Goto 0      4: Ret     (for !EOF { skip() })
   skip:  0: Next -> 1                 1: Ret                                           (entered on a non-EOF token) *)
Example tiny : prog :=
  mkProg
    [ mkFunc (mkSpec 4 (Some 1) (Some 4) (FNotIn 0))
        [ mkNode (ITestCur 2 3 1) (mkAnn (Some 0) (FNotIn 0) (Some 3) (FNotIn 0) None);
          mkNode (ICall 1 2)      (mkAnn (Some 1) (FNotIn 2) (Some 4) (FNotIn 2) None);
          mkNode (IGoto 0)        (mkAnn None (FIn 0) (Some 2) (FNotIn 0) None);
          mkNode IRet             (mkAnn (Some 1) (FIn 2) (Some 4) (FIn 2) None) ];
      mkFunc (mkSpec 2 None (Some 1) (FNotIn 2))
        [ mkNode (INext 1) (mkAnn (Some 0) (FNotIn 2) None (FIn 0) None);
          mkNode IRet      (mkAnn None (FIn 0) (Some 1) (FNotIn 0) None) ] ]
    0 1.
Example tiny_ok : check_prog tiny 8 4 = true /\ no_assume tiny = true.
Proof. vm_compute. split; reflexivity. Qed.
