(* C02: the language of parser skeletons -- control-flow graphs with an untrusted potential certificate.
   Generated instance: DC.Gen.ParserSkeleton (by /verif/translator/cmd/skelgen).
   Definitions only (no proofs). *)
From Coq Require Import List NArith.
Import ListNotations.
Local Open Scope N_scope.

(* One instruction per node; node and function identifiers are positions in lists.
   Token kinds are numbers; a set of token kinds is a bit mask (bit t set <-> kind t in the set). *)
Inductive instr :=
| IGoto (n : N)                       (* one step, e.g. a currentIs/peekIs whose result is not branched on *)
| ITestCur (s : N) (nt nf : N)        (* current token kind in set s ? nt : nf *)
| ITestPeek (nt nf : N)               (* peekIs(T), T <> EOF: nt only possible when the current token is not EOF *)
| IUnknown (n1 n2 : N)                (* data dependent: both successors possible *)
| INext (n : N)                       (* nextToken: consume one token; no-op at EOF *)
| ICall (f : N) (n : N)               (* call function f, continue at n *)
| IRet
| ISnap (n : N)                       (* startPos := p.current.Pos *)
| ITestProgress (ns nd : N)           (* p.current.Pos == startPos ? ns : nd  (nd only if a token was consumed) *)
| IAssumeProgress (n : N).            (* blocks unless a token was consumed since the snapshot *)

(* A fact: a set of possible kinds of the current token (EOF has the kind p_eof). *)
Inductive fact := FIn (s : N) | FNotIn (s : N).

(* Annotation of a node of function g, entered with potential e and floor r (e >= E_g + r):
     an_a = Some x : if no token was consumed since entry then potential >= e - x, and the current
                     (= entry) token satisfies an_fa;            None: that case is impossible here
     an_b = Some y : if a token was consumed since entry then potential >= r + B - y, and the current
                     token satisfies an_fb;                      None: that case is impossible here
     an_c = Some z : if a token was consumed since the snapshot then potential >= r + B - z;
                                                                 None: no claim                     *)
Record ann := mkAnn { an_a : option N; an_fa : fact; an_b : option N; an_fb : fact; an_c : option N }.
Record node := mkNode { nd_instr : instr; nd_ann : ann }.

(* Specification of a function: potential E needed on entry; L = Some l: it may return without having
   consumed, then at most l steps after entry (None: it always consumes); T = Some t: it may consume, and then
   returns at most t steps after its last certain consumption (None: it never consumes); pre: what the
   callers guarantee about the current token. *)
Record fspec := mkSpec { fs_E : N; fs_L : option N; fs_T : option N; fs_pre : fact }.
Record func := mkFunc { fn_spec : fspec; fn_body : list node }.
Record prog := mkProg { p_funcs : list func; p_main : N; p_eof : N }.

Definition nth_N {A : Type} (l : list A) (n : N) : option A := nth_error l (N.to_nat n).
Definition getf (p : prog) (f : N) : option func := nth_N (p_funcs p) f.
Definition getn (g : func) (pc : N) : option node := nth_N (fn_body g) pc.

Definition fact_mem (t : N) (F : fact) : bool :=
  match F with FIn s => N.testbit s t | FNotIn s => negb (N.testbit s t) end.
