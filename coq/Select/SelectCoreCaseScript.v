(* C05, fragment layer -- the keyword-case / layout theorems of SelectCoreCase.v lifted from one
   statement (parse_model) to a whole input (parse_script = the ParseStatements loop of the model:
   skip semicolons, parse a statement, repeat; print_script = the concatenated EXPLAIN texts).

   The relation on token lists is the same item-by-item relation; in particular the SEMICOLON tokens
   stand at the same places in both lists.  Inserting / removing leading and trailing semicolons is the
   driver's theorem (Properties/C06_driver.v, C05_driver_semicolons; C06_fragment_script for the
   SELECT core), not repeated here. *)
From Coq Require Import List NArith Arith Bool.
From DC Require Import Base.Item Gen.TokenTable Tree.LineTree.
From DC Require Import Lexer.LexerModel Lexer.LexerLayoutSpec.
From DC Require Import Select.SelectParseModel Select.SelectPrintModel Select.SelectAstRel
  Select.SelectCoreCase Select.SelectCoreCaseLex.
Import ListNotations.
Local Open Scope N_scope.

Definition script_result : Type := res (list query * list err).

Definition script_rel (brel : N -> N -> Prop) (r r' : script_result) : Prop :=
  match r, r' with
  | Ok (qs, es), Ok (qs', es') => Forall2 (qrel brel) qs qs' /\ es = es'
  | Panic p, Panic p' => p = p'
  | OutOfFragment o, OutOfFragment o' => o = o'
  | OutOfFuel, OutOfFuel => True
  | _, _ => False
  end.

Section Script.
  Variable brel : N -> N -> Prop.
  Hypothesis brel_refl : forall a, brel a a.
  Hypothesis brel_ci : forall a b, brel a b -> ci_byte a b.

  Lemma skip_semis_rel : forall l l', Forall2 (irel brel) l l' ->
    Forall2 (irel brel) (skip_semis l) (skip_semis l').
  Proof.
    intros l l' F. induction F as [|x y l l' Hxy F IH]; [constructor|].
    cbn [skip_semis]. pose proof Hxy as [Ht _]. rewrite <- Ht.
    destruct (it_tok x =? T_SEMICOLON); [exact IH|constructor; assumption].
  Qed.

  Lemma script_loop_rel : forall n fuel acc acc' s s',
    Forall2 (qrel brel) acc acc' -> srel brel s s' ->
    script_rel brel (script_loop n fuel acc s) (script_loop n fuel acc' s').
  Proof.
    induction n as [|n IH]; intros fuel acc acc' s s' Ha Hs; [exact I|].
    cbn [script_loop]. destruct Hs as [Ht He].
    pose proof (skip_semis_rel _ _ Ht) as Hk.
    destruct Hk as [|t t' l l' Htt Hl]; [cbn; auto|].
    assert (Hs1 : srel brel (mkSt (t :: l) (errs s)) (mkSt (t' :: l') (errs s')))
      by (split; [constructor; assumption|exact He]).
    pose proof (parse_statement_rel brel brel_refl brel_ci fuel _ _ Hs1) as R.
    destruct (parse_statement fuel (mkSt (t :: l) (errs s))) as [[q s1]|p|o|],
             (parse_statement fuel (mkSt (t' :: l') (errs s'))) as [[q' s1']|p'|o'|];
      cbn in R |- *; try contradiction; try exact R.
    destruct R as [Hq Hs2].
    assert (Hs3 : srel brel (mkSt (skip_semis (toks s1)) (errs s1)) (mkSt (skip_semis (toks s1')) (errs s1')))
      by (destruct Hs2 as [Ht2 He2]; split; [apply skip_semis_rel; exact Ht2|exact He2]).
    destruct Hq as [|x y Hxy].
    - apply IH; assumption.
    - rewrite <- (cur_is_rel brel _ _ T_PARALLEL Hs2), <- (peek_is_rel brel _ _ T_WITH Hs2).
      destruct (cur_is s1 T_PARALLEL && peek_is s1 T_WITH); [reflexivity|].
      apply IH; [|assumption]. apply Forall2_app; [assumption|]. constructor; [assumption|constructor].
  Qed.

  Theorem parse_script_rel : forall ts ts', Forall2 (irel brel) ts ts' ->
    script_rel brel (parse_script ts) (parse_script ts').
  Proof.
    intros ts ts' F. unfold parse_script, fuel_for. rewrite <- (Forall2_len _ _ _ F).
    apply script_loop_rel; [constructor|]. split; [exact F|reflexivity].
  Qed.
End Script.

(* ------------------------------------------------------------------------------------------ *)
(** * Keyword case *)

Definition script_same (r r' : script_result) : Prop := r = r'.

Definition script_names (r : script_result) : list (list N) :=
  match r with Ok (qs, _) => flat_map names_query qs | _ => [] end.

Definition script_names_agree (ts ts' : list item) : Prop :=
  script_names (parse_script ts) = script_names (parse_script ts').

Theorem parse_script_case : forall ts ts', case_related ts ts' ->
  script_rel ci_byte (parse_script ts) (parse_script ts').
Proof.
  intros ts ts' H. apply (parse_script_rel ci_byte ci_refl (fun a b H => H)). apply case_related_irel. exact H.
Qed.

Theorem parse_script_case_same : forall ts ts', case_related ts ts' -> script_names_agree ts ts' ->
  parse_script ts = parse_script ts'.
Proof.
  intros ts ts' H Hn. pose proof (parse_script_case ts ts' H) as R. unfold script_names_agree in Hn.
  destruct (parse_script ts) as [[qs es]|p|o|], (parse_script ts') as [[qs' es']|p'|o'|];
    cbn in R, Hn |- *; try contradiction; try (rewrite R; reflexivity); try reflexivity.
  destruct R as [Hq ->]. f_equal. f_equal.
  destruct (flat_inj (qrel ci_byte) names_query qs qs') with (k := @nil (list N)) (k' := @nil (list N)) as [E _];
    [apply Forall_forall; intros q _; apply (proj1 (proj2 (names_inj ci_byte)))|exact Hq|rewrite !app_nil_r; exact Hn|exact E].
Qed.

(* EXPLAIN of every statement of the input, concatenated, with p.errors *)
Definition explain_script_tokens (ts : list item) : res (list line * list err) :=
  bind (parse_script ts) (fun '(qs, es) => bind (print_script qs) (fun ls => Ok (ls, es))).

Theorem explain_script_case_insensitive : forall ts ts', case_related ts ts' -> script_names_agree ts ts' ->
  explain_script_tokens ts = explain_script_tokens ts'.
Proof. intros ts ts' H Hn. unfold explain_script_tokens. rewrite (parse_script_case_same ts ts' H Hn). reflexivity. Qed.

(* no keyword token is used as a name by any statement of the input *)
Definition script_ast (r : script_result) : res (list query) := bind r (fun '(qs, _) => Ok qs).

Definition script_kw_blind (ts : list item) : Prop :=
  script_ast (parse_script (kw_upper ts)) = script_ast (parse_script (kw_lower ts)).

Lemma script_ast_pos : forall a b, Forall2 (irel eq) a b ->
  script_ast (parse_script a) = script_ast (parse_script b) /\
  (forall qs es qs' es', parse_script a = Ok (qs, es) -> parse_script b = Ok (qs', es') -> es = es').
Proof.
  intros a b F. pose proof (parse_script_rel eq (fun x => eq_refl) eq_ci _ _ F) as R. unfold script_ast.
  destruct (parse_script a) as [[qs es]|p|o|], (parse_script b) as [[qs' es']|p'|o'|];
    cbn in R |- *; try contradiction; (split; [|intros ? ? ? ? E1 E2; try discriminate]);
    try (rewrite R; reflexivity); try reflexivity.
  - destruct R as [Hq _]. f_equal.
    eapply (Forall2_two (qrel eq) (qrel eq)); [|exact Hq|exact Hq].
    apply Forall_forall. intros q _. apply (proj1 (proj2 (erel_two eq eq (fun x y Hxy _ => Hxy)))).
  - destruct R as [_ He]. inversion E1; inversion E2; subst. reflexivity.
Qed.

Lemma script_kw_blind_ast : forall ts, script_kw_blind ts ->
  match parse_script ts, parse_script (kw_upper ts) with
  | Ok (qs, es), Ok (qu, eu) => qs = qu /\ es = eu
  | Panic p, Panic p' => p = p'
  | OutOfFragment o, OutOfFragment o' => o = o'
  | OutOfFuel, OutOfFuel => True
  | _, _ => False
  end.
Proof.
  intros ts Hb.
  pose proof (parse_script_rel up_byte up_refl up_ci _ _ (irel_kw_upper ts)) as RU.
  pose proof (parse_script_rel lo_byte lo_refl lo_ci _ _ (irel_kw_lower ts)) as RL.
  unfold script_kw_blind, script_ast in Hb.
  destruct (parse_script ts) as [[qs es]|p|o|],
           (parse_script (kw_upper ts)) as [[qu eu]|pu|ou|],
           (parse_script (kw_lower ts)) as [[ql el]|pl|ol|];
    cbn in RU, RL, Hb |- *; try contradiction; try discriminate; try exact RU.
  inversion Hb; subst. destruct RU as [Hq He]. destruct RL as [Hq' _]. split; [|exact He].
  eapply (Forall2_two (qrel up_byte) (qrel lo_byte)); [|exact Hq|exact Hq'].
  apply Forall_forall. intros q _. apply (proj1 (proj2 (erel_two up_byte lo_byte up_lo_eq))).
Qed.

Lemma script_kw_blind_case : forall ts ts', case_related ts ts' -> script_kw_blind ts -> script_kw_blind ts'.
Proof.
  intros ts ts' H Hb. unfold script_kw_blind in *.
  rewrite <- (proj1 (script_ast_pos _ _ (kw_upper_case _ _ H))), <- (proj1 (script_ast_pos _ _ (kw_lower_case _ _ H))).
  exact Hb.
Qed.

Theorem parse_script_kw_blind : forall ts ts', case_related ts ts' -> script_kw_blind ts ->
  parse_script ts = parse_script ts'.
Proof.
  intros ts ts' H Hb.
  pose proof (parse_script_case ts ts' H) as R.
  pose proof (script_kw_blind_ast ts Hb) as A.
  pose proof (script_kw_blind_ast ts' (script_kw_blind_case _ _ H Hb)) as A'.
  pose proof (proj1 (script_ast_pos _ _ (kw_upper_case _ _ H))) as E. unfold script_ast in E.
  destruct (parse_script ts) as [[qs es]|p|o|], (parse_script ts') as [[qs' es']|p'|o'|];
    cbn in R |- *; try contradiction; try (rewrite R; reflexivity); try reflexivity.
  destruct R as [_ ->]. f_equal. f_equal.
  destruct (parse_script (kw_upper ts)) as [[qu eu]|pu|ou|]; cbn in A; try contradiction.
  destruct (parse_script (kw_upper ts')) as [[qu' eu']|pu'|ou'|]; cbn in A'; try contradiction.
  destruct A as [-> _]. destruct A' as [-> _]. cbn in E. inversion E. reflexivity.
Qed.

Theorem explain_script_kw_blind : forall ts ts', case_related ts ts' -> script_kw_blind ts ->
  explain_script_tokens ts = explain_script_tokens ts'.
Proof. intros ts ts' H Hb. unfold explain_script_tokens. rewrite (parse_script_kw_blind ts ts' H Hb). reflexivity. Qed.

(* ------------------------------------------------------------------------------------------ *)
(** * Source text -> EXPLAIN text of the whole input *)

Definition explain_script (src : list N) : option (res (list N * list err)) :=
  match tokenize src with
  | Some its => Some (bind (explain_script_tokens (parser_tokens its)) (fun '(ls, es) => Ok (print_lines ls, es)))
  | None => None
  end.

Definition src_script_kw_blind (src : list N) : Prop :=
  match tokenize src with Some its => script_kw_blind (parser_tokens its) | None => True end.

Definition src_script_names_agree (x y : list N) : Prop :=
  match tokenize x, tokenize y with
  | Some its, Some its' => script_names_agree (parser_tokens its) (parser_tokens its')
  | _, _ => True
  end.

Lemma parse_script_pos : forall a b, Forall2 (irel eq) a b -> parse_script a = parse_script b.
Proof.
  intros a b F. pose proof (script_ast_pos a b F) as [E He]. unfold script_ast in E.
  pose proof (parse_script_rel eq (fun x => eq_refl) eq_ci _ _ F) as R.
  destruct (parse_script a) as [[qs es]|p|o|], (parse_script b) as [[qs' es']|p'|o'|];
    cbn in R, E |- *; try contradiction; try (rewrite R; reflexivity); try reflexivity.
  inversion E; subst. rewrite (He _ _ _ _ eq_refl eq_refl). reflexivity.
Qed.

Theorem explain_script_layout : forall x y, lex_sig_raw x = lex_sig_raw y -> explain_script x = explain_script y.
Proof.
  intros x y H. unfold lex_sig_raw, explain_script in *.
  destruct (tokenize x) as [its|], (tokenize y) as [its'|]; cbn [option_map] in H; try discriminate; [|reflexivity].
  inversion H as [H']. f_equal. f_equal. unfold explain_script_tokens.
  rewrite (parse_script_pos _ _ (sig_raw_pos_related _ _ H')). reflexivity.
Qed.

Theorem explain_script_layout_case : forall x y, lex_sig x = lex_sig y -> src_script_kw_blind x ->
  explain_script x = explain_script y.
Proof.
  intros x y H Hb. unfold lex_sig, explain_script, src_script_kw_blind in *.
  destruct (tokenize x) as [its|], (tokenize y) as [its'|]; cbn [option_map] in H; try discriminate; [|reflexivity].
  inversion H as [H']. f_equal. f_equal.
  apply explain_script_kw_blind; [apply sig_of_case_related; exact H'|exact Hb].
Qed.

Theorem explain_script_layout_case_names : forall x y, lex_sig x = lex_sig y -> src_script_names_agree x y ->
  explain_script x = explain_script y.
Proof.
  intros x y H Hn. unfold lex_sig, explain_script, src_script_names_agree in *.
  destruct (tokenize x) as [its|], (tokenize y) as [its'|]; cbn [option_map] in H; try discriminate; [|reflexivity].
  inversion H as [H']. f_equal. f_equal.
  apply explain_script_case_insensitive; [apply sig_of_case_related; exact H'|exact Hn].
Qed.
