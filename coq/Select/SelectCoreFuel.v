(* C01, fragment layer -- fuel: the parser model never returns OutOfFuel with the fuel that
   parse_model / parse_script supply (fuel_for ts = 8 * length ts + 16).

   [fin b r]: r is not OutOfFuel and, when Ok, leaves at most b tokens.  Every function of the model
   gets a lemma [fin (rem s) (f .. s)] under "the recursive arguments are fine on strictly shorter
   states and the loop fuel covers the remaining tokens"; the mutual block is closed by induction on
   the fuel with the potentials
       parse_expr, parse_select_with_union : 3 * remaining + 2
       pratt_loop, parse_select, union_loop : 3 * remaining + 1
   (each recursive call happens after a token was consumed, except the constant-length chain
   parse_select_with_union -> parse_select -> parse_expr and parse_expr -> pratt_loop). *)
From Coq Require Import List NArith Arith Bool Lia ZifyN ZifyNat ZifyBool.
From DC Require Import Base.Item Gen.TokenTable.
From DC Require Import Select.SelectParseModel.
Import ListNotations.
Local Open Scope N_scope.

Definition rem (s : st) : nat := List.length (toks s).

(* no OutOfFuel, and the resulting state has at most b tokens left *)
Definition fin {X} (b : nat) (r : res (X * st)) : Prop :=
  match r with
  | Ok (_, s') => (rem s' <= b)%nat
  | OutOfFuel => False
  | _ => True
  end.

Lemma fin_bind {X Y} b (r : res (X * st)) (k : X * st -> res (Y * st)) :
  fin b r -> (forall x s', (rem s' <= b)%nat -> fin b (k (x, s'))) -> fin b (bind r k).
Proof. destruct r as [[x s']|p|o|]; cbn; intros Hr Hk; auto. Qed.

Lemma fin_weaken {X} b b' (r : res (X * st)) : fin b r -> (b <= b')%nat -> fin b' r.
Proof. destruct r as [[x s']|p|o|]; cbn; intros; auto; lia. Qed.

(* a result without state (set_alias, is_keyword_for_clause) *)
Definition nf {X} (r : res X) : Prop := r <> OutOfFuel.
Lemma fin_bind_nf {X Y} b (r : res X) (k : X -> res (Y * st)) :
  nf r -> (forall x, fin b (k x)) -> fin b (bind r k).
Proof. destruct r as [x|p|o|]; cbn; intros Hr Hk; auto; exfalso; apply Hr; reflexivity. Qed.

Lemma rem_next : forall s, rem (next s) = Nat.pred (rem s).
Proof. intros [l e]. unfold rem, next. cbn. destruct l; reflexivity. Qed.
Lemma rem_add_err : forall e s, rem (add_err e s) = rem s.
Proof. reflexivity. Qed.
Lemma rem_mk : forall l e, rem (mkSt l e) = List.length l.
Proof. reflexivity. Qed.

Lemma expect_rem : forall t s b s', expect t s = (b, s') -> (rem s' <= rem s)%nat.
Proof.
  intros t s b s' H. unfold expect in H. destruct (cur_is s t); inversion H; subst.
  - rewrite rem_next. lia.
  - rewrite rem_add_err. lia.
Qed.

(* a state on which some token test succeeded is not at EOF *)
Ltac nonempty_by s H :=
  let E := fresh "E" in
  assert (1 <= rem s)%nat by
    (unfold rem; destruct (toks s) eqn:E;
     [exfalso; unfold cur_is, peek_is, peek2_is, cur_kw, cur_tok, peek_tok, peek2_tok, cur_val in H;
      rewrite E in H; vm_compute in H; discriminate H
     |cbn [List.length]; apply le_n_S, Nat.le_0_l]).

Ltac add_nonempty :=
  repeat match goal with
         | H : context[cur_is ?s _] |- _ =>
             lazymatch type of H with @eq bool _ _ => idtac end;
             lazymatch goal with Hn : (1 <= rem s)%nat |- _ => fail | _ => idtac end;
             nonempty_by s H
         | H : context[cur_tok ?s] |- _ =>
             lazymatch type of H with @eq bool _ _ => idtac end;
             lazymatch goal with Hn : (1 <= rem s)%nat |- _ => fail | _ => idtac end;
             nonempty_by s H
         | H : context[cur_kw ?s] |- _ =>
             lazymatch type of H with @eq bool _ _ => idtac end;
             lazymatch goal with Hn : (1 <= rem s)%nat |- _ => fail | _ => idtac end;
             nonempty_by s H
         end.

Ltac rem_norm :=
  repeat match goal with
         | H : expect _ _ = (_, _) |- _ => apply expect_rem in H
         end;
  rewrite ?rem_next, ?rem_add_err, ?rem_mk in *.

Ltac clear_bools :=
  repeat match goal with
         | H : @eq bool _ _ |- _ => clear H
         end.

Ltac rem_solve :=
  rem_norm; first [solve [clear_bools; lia] | add_nonempty; rem_norm; clear_bools; lia].


Notation PEfin pe B := (forall prec s1, (rem s1 < B)%nat -> fin (rem s1) (pe prec s1)).
Notation PSUfin psu B := (forall s1, (rem s1 < B)%nat -> fin (rem s1) (psu s1)).

Lemma fin_bind' {X Y} b1 b (r : res (X * st)) (k : X * st -> res (Y * st)) :
  fin b1 r -> (b1 <= b)%nat -> (forall x s', (rem s' <= b1)%nat -> fin b (k (x, s'))) -> fin b (bind r k).
Proof. destruct r as [[x s']|p|o|]; cbn; intros Hr Hb Hk; auto. Qed.

(* [fin (rem X) (f .. X)] for a call, with the exact bound *)
Ltac use_hyp :=
  match goal with
  | H : forall prec s1, (rem s1 < _)%nat -> fin _ (?pe prec s1) |- fin _ (?pe _ _) => apply H; rem_solve
  | H : forall s1, (rem s1 < _)%nat -> fin _ (?psu s1) |- fin _ (?psu _) => apply H; rem_solve
  end.

(* extended below, lemma by lemma *)
Ltac fin_call := fail.
Ltac call_exact := first [use_hyp | fin_call].

Ltac destruct_pairs :=
  repeat match goal with
         | x : (_ * _)%type |- _ => destruct x
         end.

Ltac intro_cont :=
  let x := fresh "x" in let s' := fresh "s" in let Hs := fresh "Hs" in
  intros x s' Hs; destruct_pairs.

Ltac fin_step :=
  match goal with
  | |- context[if ?c then next ?a else ?b] =>
      lazymatch type of a with st => idtac end;
      let E := fresh "E" in destruct c eqn:E; try rewrite E in *
  | |- fin _ (Ok (_, _)) => unfold fin; rem_solve
  | |- fin _ (ret _ _) => unfold ret, fin; rem_solve
  | |- fin _ (OutOfFragment _) => exact I
  | |- fin _ (Panic _) => exact I
  | |- fin _ (bind ?r _) =>
      let t := type of r in
      let t' := eval cbv delta [R] beta in t in
      lazymatch t' with
      | res (_ * st) =>
          lazymatch r with
          | (if _ then _ else _) => compound_bind r
          | (match _ with _ => _ end) => compound_bind r
          | bind _ _ => compound_bind r
          | _ => eapply fin_bind'; [call_exact|rem_solve|intro_cont]
          end
      | _ => apply fin_bind_nf; [|let x := fresh "x" in intros x]
      end
  | |- fin _ (if ?c then _ else _) => destruct c eqn:?
  | |- fin _ (match ?x with _ => _ end) =>
      lazymatch x with
      | (if ?c then _ else _) => destruct c eqn:?
      | _ => destruct x eqn:?
      end
  | |- fin _ _ => eapply fin_weaken; [call_exact|rem_solve]
  end
(* a first argument that is itself a conditional: bound it by the state its first test looks at *)
with compound_bind r :=
  lazymatch r with
  | (if ?c then _ else _) =>
      lazymatch c with
      | context[cur_is ?s0 _] =>
          eapply (@fin_bind' _ _ (rem s0)); [|rem_solve|intro_cont]
      | _ => apply fin_bind; [|intro_cont]
      end
  | _ => apply fin_bind; [|intro_cont]
  end
with fin_auto := repeat (cbv beta zeta; cbn iota; fin_step).

(* ---- helpers without recursion ---- *)

Lemma set_alias_nf : forall site e alias, nf (set_alias site e alias).
Proof. intros site e alias. unfold nf, set_alias. destruct e as [[]|]; discriminate. Qed.

Lemma parse_alias_fin : forall e s, fin (rem s) (parse_alias e s).
Proof.
  intros e s. unfold parse_alias. cbv zeta.
  destruct (cur_is (next s) T_IDENT || cur_kw (next s)) eqn:E;
    (apply fin_bind_nf; [apply set_alias_nf|intros x; fin_auto]).
Qed.

Lemma parse_implicit_alias_fin : forall e s, fin (rem s) (parse_implicit_alias e s).
Proof.
  intros e s. unfold parse_implicit_alias. fin_auto. apply set_alias_nf.
Qed.

Ltac fin_call ::=
  first [ apply parse_alias_fin | apply parse_implicit_alias_fin ].

(* ---- the comma loops ---- *)

Lemma expr_list_loop_fin : forall pe B, PEfin pe B ->
  forall fuel acc s, (rem s <= B)%nat -> (rem s < fuel)%nat -> fin (rem s) (expr_list_loop pe fuel acc s).
Proof.
  intros pe B Hpe. induction fuel as [|f IH]; intros acc s Hb Hf; [lia|].
  cbn [expr_list_loop]. fin_auto.
  eapply fin_weaken; [apply IH; rem_solve|rem_solve].
Qed.

Lemma parse_expression_list_fin : forall pe B, PEfin pe B ->
  forall fuel s, (rem s < B)%nat -> (rem s < fuel)%nat -> fin (rem s) (parse_expression_list pe fuel s).
Proof.
  intros pe B Hpe fuel s Hb Hf. unfold parse_expression_list. fin_auto.
  eapply fin_weaken; [eapply expr_list_loop_fin; [exact Hpe|rem_solve|rem_solve]|rem_solve].
Qed.

Lemma arg_list_loop_fin : forall pe B, PEfin pe B ->
  forall fuel acc s, (rem s <= B)%nat -> (rem s < fuel)%nat -> fin (rem s) (arg_list_loop pe fuel acc s).
Proof.
  intros pe B Hpe. induction fuel as [|f IH]; intros acc s Hb Hf; [lia|].
  cbn [arg_list_loop]. fin_auto.
  eapply fin_weaken; [apply IH; rem_solve|rem_solve].
Qed.

Lemma parse_function_argument_list_fin : forall pe B, PEfin pe B ->
  forall fuel s, (rem s < B)%nat -> (rem s < fuel)%nat ->
  fin (rem s) (parse_function_argument_list pe fuel s).
Proof.
  intros pe B Hpe fuel s Hb Hf. unfold parse_function_argument_list. fin_auto.
  eapply fin_weaken; [eapply arg_list_loop_fin; [exact Hpe|rem_solve|rem_solve]|rem_solve].
Qed.

(* ---- list-consuming helpers ---- *)

Definition dlen (r : dotted_result) (n : nat) : Prop :=
  match r with
  | DParts _ rest => (List.length rest <= n)%nat
  | DAsterisk _ rest => (List.length rest <= n)%nat
  | DOof _ => True
  end.

Lemma dlen_weaken : forall r n m, dlen r n -> (n <= m)%nat -> dlen r m.
Proof. intros [p r|t r|o] n m H Hle; cbn in *; try lia; exact I. Qed.

Lemma dotted_loop_len : forall json l parts, dlen (dotted_loop json parts l) (List.length l).
Proof.
  intros json. fix F 1. intros l parts. destruct l as [|d l1]; [cbn; lia|].
  cbn [dotted_loop]. destruct (it_tok d =? T_DOT); [|cbn; lia].
  destruct l1 as [|x l2]; [cbn; lia|].
  destruct (json && (it_tok x =? T_CARET)); [exact I|].
  destruct (json && (it_tok x =? T_COLON)); [exact I|].
  destruct ((it_tok x =? T_IDENT) || is_keyword (it_tok x)).
  - eapply dlen_weaken; [apply F|cbn [List.length]; lia].
  - destruct (it_tok x =? T_ASTERISK); cbn [dlen List.length]; lia.
Qed.

Lemma skip_parens_len : forall l d, (List.length (skip_parens d l) <= List.length l)%nat.
Proof.
  induction l as [|x r IH]; intros d; [cbn; lia|].
  cbn [skip_parens]. destruct (it_tok x =? T_SEMICOLON); [lia|].
  destruct (if it_tok x =? T_LPAREN then S d else if it_tok x =? T_RPAREN then Nat.pred d else d);
    [lia|]. specialize (IH (S n)). cbn [List.length]. lia.
Qed.

Lemma parse_identifier_name_rem : forall s name s', parse_identifier_name s = (name, s') -> (rem s' <= rem s)%nat.
Proof.
  intros s name s' H. unfold parse_identifier_name in H.
  repeat match type of H with
         | (if ?c then _ else _) = _ => destruct c
         | (let s1 := _ in _) = _ => cbv zeta in H
         end; inversion H; subst; rewrite ?rem_next; lia.
Qed.

Lemma union_mode_rem : forall s m b s', union_mode s = (m, b, s') -> (rem s' <= rem s)%nat.
Proof.
  intros s m b s' H. unfold union_mode in H.
  destruct (cur_is s T_ALL); [|destruct (cur_is s T_DISTINCT)]; inversion H; subst; rewrite ?rem_next; lia.
Qed.

Ltac fold_rem :=
  repeat match goal with
         | H : context[List.length (toks ?x)] |- _ => change (List.length (toks x)) with (rem x) in H
         | |- context[List.length (toks ?x)] => change (List.length (toks x)) with (rem x)
         end.

Ltac rem_norm ::=
  repeat match goal with
         | H : expect _ _ = (_, _) |- _ => apply expect_rem in H
         | H : parse_identifier_name _ = (_, _) |- _ => apply parse_identifier_name_rem in H
         | H : union_mode _ = (_, _, _) |- _ => apply union_mode_rem in H
         | H : dotted_loop ?j ?p ?l = _ |- _ =>
             let H' := fresh "Hd" in
             pose proof (dotted_loop_len j l p) as H'; rewrite H in H'; cbn [dlen] in H'; clear H
         end;
  repeat match goal with
         | |- context[List.length (skip_parens ?d ?l)] =>
             lazymatch goal with
             | _ : (List.length (skip_parens d l) <= List.length l)%nat |- _ => fail
             | _ => pose proof (skip_parens_len l d)
             end
         end;
  fold_rem;
  rewrite ?rem_next, ?rem_add_err, ?rem_mk in *.

(* ---- function calls and prefix parsers ---- *)

Ltac fin_call ::=
  first [ apply parse_alias_fin | apply parse_implicit_alias_fin
        | eapply expr_list_loop_fin; [eassumption|rem_solve|rem_solve]
        | eapply parse_expression_list_fin; [eassumption|rem_solve|rem_solve]
        | eapply arg_list_loop_fin; [eassumption|rem_solve|rem_solve]
        | eapply parse_function_argument_list_fin; [eassumption|rem_solve|rem_solve] ].

Lemma parse_function_call_fin : forall pe B, PEfin pe B ->
  forall fuel name s, (rem s <= B)%nat -> (B <= fuel)%nat -> (1 <= rem s)%nat ->
  fin (rem s) (parse_function_call pe fuel name s).
Proof.
  intros pe B Hpe fuel name s Hb Hf Hne. unfold parse_function_call. fin_auto.
Qed.

Ltac fin_call ::=
  first [ apply parse_alias_fin | apply parse_implicit_alias_fin
        | eapply expr_list_loop_fin; [eassumption|rem_solve|rem_solve]
        | eapply parse_expression_list_fin; [eassumption|rem_solve|rem_solve]
        | eapply arg_list_loop_fin; [eassumption|rem_solve|rem_solve]
        | eapply parse_function_argument_list_fin; [eassumption|rem_solve|rem_solve]
        | eapply parse_function_call_fin; [eassumption|rem_solve|rem_solve|rem_solve] ].

Lemma parse_identifier_or_function_fin : forall pe B, PEfin pe B ->
  forall fuel s, (rem s <= B)%nat -> (B <= fuel)%nat -> (1 <= rem s)%nat ->
  fin (rem s) (parse_identifier_or_function pe fuel s).
Proof. intros pe B Hpe fuel s Hb Hf Hne. unfold parse_identifier_or_function. fin_auto. Qed.

Lemma parse_keyword_as_identifier_fin : forall s, fin (rem s) (parse_keyword_as_identifier s).
Proof. intros s. unfold parse_keyword_as_identifier. fin_auto. Qed.

Lemma parse_keyword_as_function_fin : forall pe B, PEfin pe B ->
  forall fuel s, (rem s <= B)%nat -> (B <= fuel)%nat -> (1 <= rem s)%nat -> peek_is s T_LPAREN = true ->
  fin (rem s) (parse_keyword_as_function pe fuel s).
Proof. intros pe B Hpe fuel s Hb Hf Hne Hpk. unfold parse_keyword_as_function. fin_auto. Qed.

Lemma parse_number_fin : forall s, fin (rem s) (parse_number s).
Proof. intros s. unfold parse_number. fin_auto. Qed.

Ltac fin_call ::=
  first [ apply parse_alias_fin | apply parse_implicit_alias_fin
        | apply parse_keyword_as_identifier_fin | apply parse_number_fin
        | eapply expr_list_loop_fin; [eassumption|rem_solve|rem_solve]
        | eapply parse_expression_list_fin; [eassumption|rem_solve|rem_solve]
        | eapply arg_list_loop_fin; [eassumption|rem_solve|rem_solve]
        | eapply parse_function_argument_list_fin; [eassumption|rem_solve|rem_solve]
        | eapply parse_function_call_fin; [eassumption|rem_solve|rem_solve|rem_solve]
        | eapply parse_identifier_or_function_fin; [eassumption|rem_solve|rem_solve|rem_solve]
        | eapply parse_keyword_as_function_fin; [eassumption|rem_solve|rem_solve|rem_solve|assumption] ].

Lemma parse_unary_minus_fin : forall pe B, PEfin pe B ->
  forall s, (rem s <= B)%nat -> (1 <= rem s)%nat -> fin (rem s) (parse_unary_minus pe s).
Proof. intros pe B Hpe s Hb Hne. unfold parse_unary_minus. fin_auto. Qed.

Lemma parse_unary_plus_fin : forall pe B, PEfin pe B ->
  forall s, (rem s <= B)%nat -> (1 <= rem s)%nat -> fin (rem s) (parse_unary_plus pe s).
Proof. intros pe B Hpe s Hb Hne. unfold parse_unary_plus. fin_auto. Qed.

Lemma parse_not_fin : forall pe B, PEfin pe B ->
  forall s, (rem s <= B)%nat -> (1 <= rem s)%nat -> fin (rem s) (parse_not pe s).
Proof. intros pe B Hpe s Hb Hne. unfold parse_not. fin_auto. Qed.

Lemma parse_grouped_or_tuple_fin : forall pe psu B, PEfin pe B -> PSUfin psu B ->
  forall s, (rem s <= B)%nat -> (1 <= rem s)%nat -> fin (rem s) (parse_grouped_or_tuple pe psu s).
Proof. intros pe psu B Hpe Hpsu s Hb Hne. unfold parse_grouped_or_tuple. fin_auto. Qed.

Ltac fin_call ::=
  first [ apply parse_alias_fin | apply parse_implicit_alias_fin
        | apply parse_keyword_as_identifier_fin | apply parse_number_fin
        | eapply expr_list_loop_fin; [eassumption|rem_solve|rem_solve]
        | eapply parse_expression_list_fin; [eassumption|rem_solve|rem_solve]
        | eapply arg_list_loop_fin; [eassumption|rem_solve|rem_solve]
        | eapply parse_function_argument_list_fin; [eassumption|rem_solve|rem_solve]
        | eapply parse_function_call_fin; [eassumption|rem_solve|rem_solve|rem_solve]
        | eapply parse_identifier_or_function_fin; [eassumption|rem_solve|rem_solve|rem_solve]
        | eapply parse_keyword_as_function_fin; [eassumption|rem_solve|rem_solve|rem_solve|assumption]
        | eapply parse_unary_minus_fin; [eassumption|rem_solve|rem_solve]
        | eapply parse_unary_plus_fin; [eassumption|rem_solve|rem_solve]
        | eapply parse_not_fin; [eassumption|rem_solve|rem_solve]
        | eapply parse_grouped_or_tuple_fin; [eassumption|eassumption|rem_solve|rem_solve] ].

Lemma parse_prefix_fin : forall pe psu B, PEfin pe B -> PSUfin psu B ->
  forall fuel s, (rem s <= B)%nat -> (B <= fuel)%nat -> fin (rem s) (parse_prefix pe psu fuel s).
Proof. intros pe psu B Hpe Hpsu fuel s Hb Hf. unfold parse_prefix. fin_auto. Qed.

Lemma parse_binary_fin : forall pe B, PEfin pe B ->
  forall l s, (rem s <= B)%nat -> (1 <= rem s)%nat -> fin (rem s) (parse_binary pe l s).
Proof. intros pe B Hpe l s Hb Hne. unfold parse_binary. fin_auto. Qed.

Lemma parse_dot_access_fin : forall pe B, PEfin pe B ->
  forall fuel l s, (rem s <= B)%nat -> (B <= fuel)%nat -> (1 <= rem s)%nat ->
  fin (rem s) (parse_dot_access pe fuel l s).
Proof. intros pe B Hpe fuel l s Hb Hf Hne. unfold parse_dot_access. fin_auto. Qed.

Ltac fin_call ::=
  first [ apply parse_alias_fin | apply parse_implicit_alias_fin
        | apply parse_keyword_as_identifier_fin | apply parse_number_fin
        | eapply expr_list_loop_fin; [eassumption|rem_solve|rem_solve]
        | eapply parse_expression_list_fin; [eassumption|rem_solve|rem_solve]
        | eapply arg_list_loop_fin; [eassumption|rem_solve|rem_solve]
        | eapply parse_function_argument_list_fin; [eassumption|rem_solve|rem_solve]
        | eapply parse_function_call_fin; [eassumption|rem_solve|rem_solve|rem_solve]
        | eapply parse_identifier_or_function_fin; [eassumption|rem_solve|rem_solve|rem_solve]
        | eapply parse_keyword_as_function_fin; [eassumption|rem_solve|rem_solve|rem_solve|assumption]
        | eapply parse_unary_minus_fin; [eassumption|rem_solve|rem_solve]
        | eapply parse_unary_plus_fin; [eassumption|rem_solve|rem_solve]
        | eapply parse_not_fin; [eassumption|rem_solve|rem_solve]
        | eapply parse_grouped_or_tuple_fin; [eassumption|eassumption|rem_solve|rem_solve]
        | eapply parse_prefix_fin; [eassumption|eassumption|rem_solve|rem_solve]
        | eapply parse_binary_fin; [eassumption|rem_solve|rem_solve]
        | eapply parse_dot_access_fin; [eassumption|rem_solve|rem_solve|rem_solve] ].

Lemma parse_infix_fin : forall pe B, PEfin pe B ->
  forall fuel l s, (rem s <= B)%nat -> (B <= fuel)%nat -> (1 <= rem s)%nat ->
  fin (rem s) (parse_infix pe fuel l s).
Proof. intros pe B Hpe fuel l s Hb Hf Hne. unfold parse_infix. fin_auto. Qed.

Lemma order_by_loop_fin : forall pe B, PEfin pe B ->
  forall fuel acc s, (rem s < B)%nat -> (rem s < fuel)%nat -> fin (rem s) (order_by_loop pe fuel acc s).
Proof.
  intros pe B Hpe. induction fuel as [|f IH]; intros acc s Hb Hf; [lia|].
  cbn [order_by_loop]. fin_auto.
  all: eapply fin_weaken; [apply IH; rem_solve|rem_solve].
Qed.

Lemma is_keyword_for_clause_nf : forall s, nf (is_keyword_for_clause s).
Proof.
  intros s. unfold nf, is_keyword_for_clause.
  repeat match goal with |- (if ?c then _ else _) <> _ => destruct c end; discriminate.
Qed.

Lemma parse_table_expression_fin : forall psu B, PSUfin psu B ->
  forall s, (rem s <= B)%nat -> fin (rem s) (parse_table_expression psu s).
Proof.
  intros psu B Hpsu s Hb. unfold parse_table_expression. fin_auto.
  all: try apply is_keyword_for_clause_nf.
Qed.

Lemma parse_tables_in_select_fin : forall psu B, PSUfin psu B ->
  forall s, (rem s <= B)%nat -> fin (rem s) (parse_tables_in_select psu s).
Proof.
  intros psu B Hpsu s Hb. unfold parse_tables_in_select.
  eapply fin_bind'; [eapply parse_table_expression_fin; [eassumption|rem_solve]|rem_solve|intro_cont; fin_auto].
Qed.

(* ---- the recursive core ---- *)

Lemma expect_true : forall t s s', expect t s = (true, s') -> s' = next s /\ cur_is s t = true.
Proof.
  intros t s s' H. unfold expect in H. destruct (cur_is s t) eqn:E; inversion H; subst. split; reflexivity.
Qed.

Ltac rem_norm ::=
  repeat match goal with
         | H : negb ?b = false |- _ => is_var b; destruct b; [clear H|discriminate H]
         | H : negb ?b = true |- _ => is_var b; destruct b; [discriminate H|clear H]
         end;
  repeat match goal with
         | H : Nat.eqb _ _ = false |- _ => apply Nat.eqb_neq in H
         | H : Nat.eqb _ _ = true |- _ => apply Nat.eqb_eq in H
         end;
  repeat match goal with
         | H : expect _ _ = (true, ?s') |- _ =>
             let H1 := fresh "Hx" in let H2 := fresh "Hx" in
             apply expect_true in H; destruct H as [H1 H2]; subst s'
         | H : expect _ _ = (_, _) |- _ => apply expect_rem in H
         | H : parse_identifier_name _ = (_, _) |- _ => apply parse_identifier_name_rem in H
         | H : union_mode _ = (_, _, _) |- _ => apply union_mode_rem in H
         | H : dotted_loop ?j ?p ?l = _ |- _ =>
             let H' := fresh "Hd" in
             pose proof (dotted_loop_len j l p) as H'; rewrite H in H'; cbn [dlen] in H'; clear H
         end;
  repeat match goal with
         | |- context[List.length (skip_parens ?d ?l)] =>
             lazymatch goal with
             | _ : (List.length (skip_parens d l) <= List.length l)%nat |- _ => fail
             | _ => pose proof (skip_parens_len l d)
             end
         end;
  unfold remaining in *; fold_rem;
  rewrite ?rem_next, ?rem_add_err, ?rem_mk in *.

Ltac use_hyp ::=
  match goal with
  | H : forall prec s1, (rem s1 < _)%nat -> fin _ (?pe prec s1) |- fin _ (?pe _ _) => apply H; rem_solve
  | H : forall s1, (rem s1 < _)%nat -> fin _ (?psu s1) |- fin _ (?psu _) => apply H; rem_solve
  | H : forall a b c d s1, (rem s1 < _)%nat -> fin _ (?g a b c d s1) |- fin _ (?g _ _ _ _ _) => apply H; rem_solve
  | H : forall a b s1, (rem s1 < _)%nat -> fin _ (?g a b s1) |- fin _ (?g _ _ _) => apply H; rem_solve
  end.

Ltac fin_call ::=
  first [ apply parse_alias_fin | apply parse_implicit_alias_fin
        | apply parse_keyword_as_identifier_fin | apply parse_number_fin
        | eapply expr_list_loop_fin; [eassumption|rem_solve|rem_solve]
        | eapply parse_expression_list_fin; [eassumption|rem_solve|rem_solve]
        | eapply arg_list_loop_fin; [eassumption|rem_solve|rem_solve]
        | eapply parse_function_argument_list_fin; [eassumption|rem_solve|rem_solve]
        | eapply parse_function_call_fin; [eassumption|rem_solve|rem_solve|rem_solve]
        | eapply parse_identifier_or_function_fin; [eassumption|rem_solve|rem_solve|rem_solve]
        | eapply parse_keyword_as_function_fin; [eassumption|rem_solve|rem_solve|rem_solve|assumption]
        | eapply parse_unary_minus_fin; [eassumption|rem_solve|rem_solve]
        | eapply parse_unary_plus_fin; [eassumption|rem_solve|rem_solve]
        | eapply parse_not_fin; [eassumption|rem_solve|rem_solve]
        | eapply parse_grouped_or_tuple_fin; [eassumption|eassumption|rem_solve|rem_solve]
        | eapply parse_prefix_fin; [eassumption|eassumption|rem_solve|rem_solve]
        | eapply parse_binary_fin; [eassumption|rem_solve|rem_solve]
        | eapply parse_dot_access_fin; [eassumption|rem_solve|rem_solve|rem_solve]
        | eapply parse_infix_fin; [eassumption|rem_solve|rem_solve|rem_solve]
        | eapply order_by_loop_fin; [eassumption|rem_solve|rem_solve]
        | eapply parse_table_expression_fin; [eassumption|rem_solve]
        | eapply parse_tables_in_select_fin; [eassumption|rem_solve] ].

Lemma core_fin : forall fuel,
  (forall prec s, (3 * rem s + 2 <= fuel)%nat -> fin (rem s) (parse_expr fuel prec s)) /\
  (forall prec l s, (3 * rem s + 1 <= fuel)%nat -> fin (rem s) (pratt_loop fuel prec l s)) /\
  (forall s, (3 * rem s + 1 <= fuel)%nat -> fin (rem s) (parse_select fuel s)) /\
  (forall prefix sels modes all s, (3 * rem s + 1 <= fuel)%nat ->
     fin (rem s) (union_loop fuel prefix sels modes all s)) /\
  (forall s, (3 * rem s + 2 <= fuel)%nat -> fin (rem s) (parse_select_with_union fuel s)).
Proof.
  induction fuel as [|f IH].
  - repeat split; intros; lia.
  - destruct IH as (IHe & IHp & IHs & IHu & IHq). repeat split.
    + intros prec s Hf.
      assert (Hpe : PEfin (parse_expr f) (rem s)) by (intros p1 s1 H1; apply IHe; lia).
      assert (Hpsu : PSUfin (parse_select_with_union f) (rem s)) by (intros s1 H1; apply IHq; lia).
      assert (Hl : forall a b s1, (rem s1 < S (rem s))%nat -> fin (rem s1) (pratt_loop f a b s1))
        by (intros a b s1 H1; apply IHp; lia).
      clear IHe IHp IHs IHu IHq. cbn [parse_expr]. fin_auto.
    + intros prec l s Hf.
      assert (Hpe : PEfin (parse_expr f) (rem s)) by (intros p1 s1 H1; apply IHe; lia).
      assert (Hl : forall a b s1, (rem s1 < rem s)%nat -> fin (rem s1) (pratt_loop f a b s1))
        by (intros a b s1 H1; apply IHp; lia).
      clear IHe IHp IHs IHu IHq. cbn [pratt_loop]. fin_auto.
    + intros s Hf.
      assert (Hpe : PEfin (parse_expr f) (rem s)) by (intros p1 s1 H1; apply IHe; lia).
      assert (Hpsu : PSUfin (parse_select_with_union f) (rem s)) by (intros s1 H1; apply IHq; lia).
      clear IHe IHp IHs IHu IHq. cbn [parse_select]. fin_auto.
    + intros prefix sels modes all s Hf.
      assert (Hs : forall s1, (rem s1 < rem s)%nat -> fin (rem s1) (parse_select f s1))
        by (intros s1 H1; apply IHs; lia).
      assert (Hu : forall a b c d s1, (rem s1 < rem s)%nat -> fin (rem s1) (union_loop f a b c d s1))
        by (intros a b c d s1 H1; apply IHu; lia).
      clear IHe IHp IHs IHu IHq. cbn [union_loop]. fin_auto.
    + intros s Hf.
      assert (Hq : forall s1, (rem s1 < rem s)%nat -> fin (rem s1) (parse_select_with_union f s1))
        by (intros s1 H1; apply IHq; lia).
      assert (Hs : forall s1, (rem s1 < S (rem s))%nat -> fin (rem s1) (parse_select f s1))
        by (intros s1 H1; apply IHs; lia).
      assert (Hu : forall a b c d s1, (rem s1 < S (rem s))%nat -> fin (rem s1) (union_loop f a b c d s1))
        by (intros a b c d s1 H1; apply IHu; lia).
      clear IHe IHp IHs IHu IHq. cbn [parse_select_with_union]. fin_auto.
Qed.

(* ---- statements ---- *)

Lemma parse_select_with_union_fin : forall fuel s,
  (3 * rem s + 2 <= fuel)%nat -> fin (rem s) (parse_select_with_union fuel s).
Proof. intros fuel. exact (proj2 (proj2 (proj2 (proj2 (core_fin fuel))))). Qed.

Lemma union_loop_fin : forall fuel prefix sels modes all s,
  (3 * rem s + 1 <= fuel)%nat -> fin (rem s) (union_loop fuel prefix sels modes all s).
Proof. intros fuel. exact (proj1 (proj2 (proj2 (proj2 (core_fin fuel))))). Qed.

Lemma parse_parenthesized_select_fin : forall fuel s,
  (3 * rem s + 2 <= fuel)%nat -> fin (rem s) (parse_parenthesized_select fuel s).
Proof.
  intros fuel s Hf.
  assert (Hq : forall s1, (rem s1 < S (rem s))%nat -> fin (rem s1) (parse_select_with_union fuel s1))
    by (intros s1 H1; apply parse_select_with_union_fin; lia).
  assert (Hu : forall a b c d s1, (rem s1 < S (rem s))%nat -> fin (rem s1) (union_loop fuel a b c d s1))
    by (intros a b c d s1 H1; apply union_loop_fin; lia).
  unfold parse_parenthesized_select. fin_auto.
Qed.

Lemma parse_statement_raw_fin : forall fuel s,
  (3 * rem s + 2 <= fuel)%nat -> fin (rem s) (parse_statement_raw fuel s).
Proof.
  intros fuel s Hf. unfold parse_statement_raw. cbv zeta.
  destruct (cur_tok s =? T_SELECT); [apply parse_select_with_union_fin; exact Hf|].
  destruct (cur_tok s =? T_LPAREN); [apply parse_parenthesized_select_fin; exact Hf|].
  fin_auto.
Qed.

Lemma parse_statement_fin : forall fuel s,
  (3 * rem s + 2 <= fuel)%nat -> fin (rem s) (parse_statement fuel s).
Proof.
  intros fuel s Hf. unfold parse_statement.
  apply fin_bind; [apply parse_statement_raw_fin; exact Hf|].
  intros q s' Hs. unfold printer_check. fin_auto.
Qed.

(* T2, fuel: the fuel that parse_model supplies is sufficient *)
Theorem parse_model_fuel_enough : forall fuel ts,
  (3 * List.length ts + 2 <= fuel)%nat -> parse_model_fuel fuel ts <> OutOfFuel.
Proof.
  intros fuel ts Hf H. unfold parse_model_fuel in H.
  pose proof (parse_statement_fin fuel (mkSt ts []) Hf) as G.
  destruct (parse_statement fuel (mkSt ts [])) as [[q s]|p|o|]; cbn in H; try discriminate. exact G.
Qed.

Theorem parse_model_no_out_of_fuel : forall ts, parse_model ts <> OutOfFuel.
Proof. intros ts. apply parse_model_fuel_enough. unfold fuel_for. lia. Qed.

(* ---- whole scripts: every statement consumes a token ---- *)

Lemma parse_expr_fin : forall fuel prec s, (3 * rem s + 2 <= fuel)%nat -> fin (rem s) (parse_expr fuel prec s).
Proof. intros fuel. exact (proj1 (core_fin fuel)). Qed.

Lemma expect_hit : forall t s, cur_is s t = true -> expect t s = (true, next s).
Proof. intros t s H. unfold expect. rewrite H. reflexivity. Qed.

Lemma parse_select_strict : forall f s,
  cur_is s T_SELECT = true -> (3 * rem s + 1 <= S f)%nat -> fin (rem (next s)) (parse_select (S f) s).
Proof.
  intros f s Hc Hf.
  assert (Hpe : PEfin (parse_expr f) (rem s)) by (intros p1 s1 H1; apply parse_expr_fin; lia).
  assert (Hpsu : PSUfin (parse_select_with_union f) (rem s))
    by (intros s1 H1; apply parse_select_with_union_fin; lia).
  cbn [parse_select]. rewrite (expect_hit _ _ Hc). fin_auto.
Qed.

Lemma parse_select_with_union_strict : forall fuel s,
  cur_is s T_SELECT = true -> (3 * rem s + 2 <= fuel)%nat ->
  fin (rem (next s)) (parse_select_with_union fuel s).
Proof.
  intros fuel s Hc Hf. destruct fuel as [|[|f]]; [lia|lia|].
  assert (Hu : forall a b c d s1, (rem s1 < S (rem s))%nat -> fin (rem s1) (union_loop (S f) a b c d s1))
    by (intros a b c d s1 H1; apply union_loop_fin; lia).
  cbn [parse_select_with_union].
  assert (Hl : cur_is s T_LPAREN = false).
  { unfold cur_is in *. apply N.eqb_eq in Hc. rewrite Hc. reflexivity. }
  rewrite Hl.
  apply fin_bind.
  - eapply fin_bind'; [apply parse_select_strict; [exact Hc|lia]|lia|intro_cont; fin_auto].
  - intro_cont. fin_auto.
Qed.

Lemma parse_parenthesized_select_strict : forall fuel s,
  cur_is s T_LPAREN = true -> (3 * rem s + 2 <= fuel)%nat ->
  fin (rem (next s)) (parse_parenthesized_select fuel s).
Proof.
  intros fuel s Hc Hf.
  assert (Hq : forall s1, (rem s1 < S (rem s))%nat -> fin (rem s1) (parse_select_with_union fuel s1))
    by (intros s1 H1; apply parse_select_with_union_fin; lia).
  assert (Hu : forall a b c d s1, (rem s1 < S (rem s))%nat -> fin (rem s1) (union_loop fuel a b c d s1))
    by (intros a b c d s1 H1; apply union_loop_fin; lia).
  unfold parse_parenthesized_select. fin_auto.
Qed.

Lemma parse_statement_strict : forall fuel s,
  (3 * rem s + 2 <= fuel)%nat -> fin (rem (next s)) (parse_statement fuel s).
Proof.
  intros fuel s Hf. unfold parse_statement.
  apply fin_bind.
  - unfold parse_statement_raw. cbv zeta.
    destruct (cur_tok s =? T_SELECT) eqn:E1; [apply parse_select_with_union_strict; assumption|].
    destruct (cur_tok s =? T_LPAREN) eqn:E2; [apply parse_parenthesized_select_strict; assumption|].
    fin_auto.
  - intros q s' Hs. unfold printer_check. fin_auto.
Qed.

Lemma skip_semis_len : forall l, (List.length (skip_semis l) <= List.length l)%nat.
Proof.
  induction l as [|x r IH]; [cbn; lia|]. cbn [skip_semis].
  destruct (it_tok x =? T_SEMICOLON); cbn [List.length] in *; lia.
Qed.

Theorem parse_script_no_out_of_fuel : forall ts, parse_script ts <> OutOfFuel.
Proof.
  intros ts. unfold parse_script.
  assert (H : forall n fuel acc s, (rem s < n)%nat -> (3 * rem s + 2 <= fuel)%nat ->
              script_loop n fuel acc s <> OutOfFuel).
  { induction n as [|n IH]; intros fuel acc s Hn Hf; [lia|].
    cbn [script_loop]. pose proof (skip_semis_len (toks s)) as Hsk.
    destruct (skip_semis (toks s)) as [|t l] eqn:E; [discriminate|].
    pose proof (parse_statement_strict fuel (mkSt (t :: l) (errs s))) as G.
    rewrite rem_mk in G. fold (rem s) in Hsk.
    specialize (G ltac:(lia)).
    destruct (parse_statement fuel (mkSt (t :: l) (errs s))) as [[q s1]|p|o|]; cbn [bind]; try discriminate;
      [|destruct G].
    cbn [fin] in G. rewrite rem_next, rem_mk in G. cbn [List.length Nat.pred] in G.
    assert (Hs1 : (rem (mkSt (skip_semis (toks s1)) (errs s1)) < n)%nat).
    { rewrite rem_mk. pose proof (skip_semis_len (toks s1)). fold (rem s1) in *. cbn [List.length] in Hsk. lia. }
    assert (Hf1 : (3 * rem (mkSt (skip_semis (toks s1)) (errs s1)) + 2 <= fuel)%nat).
    { rewrite rem_mk. pose proof (skip_semis_len (toks s1)). fold (rem s1) in *. cbn [List.length] in Hsk. lia. }
    destruct q as [q|].
    - destruct (cur_is s1 T_PARALLEL && peek_is s1 T_WITH); [discriminate|]. apply IH; assumption.
    - apply IH; assumption. }
  apply H; rewrite rem_mk; unfold fuel_for; lia.
Qed.
