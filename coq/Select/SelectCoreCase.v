(* C05, fragment layer -- the parser/printer half of "layout and keyword case do not matter", proved
   DIRECTLY over the SELECT-core parser model (SelectParseModel.v) and printer model
   (SelectPrintModel.v): no inventory, no trusted translator.

   Setting.  Two token lists [ts], [ts'] are related item by item ([case_related]): same token kind,
   same quoted flag, same value -- EXCEPT that the value of a KEYWORD-kind token may differ in the
   letter case of its ASCII letters; positions are arbitrary.

   What the AST keeps.  The AST of the model has NO positions (the printer never reads one), it keeps
   the user's spelling of identifiers and aliases (IDENT values: equal in [ts] and [ts']), and it keeps
   the VALUE of a keyword token wherever the keyword is used as a NAME:
        parseKeywordAsIdentifier   (`select key`, `select interval`)      -> Identifier parts
        the dotted-name loops       (`t.select`, `t.key.index`)            -> Identifier parts / t.* qualifier
        parseDotAccess              (`(x).y` is outside; `a.from`)         -> Identifier parts
        parseKeywordAsFunction      (`any(x)`, `left(s, 1)`, `replace(..)`)-> Function name
        parseAlias / parseImplicitAlias (`x as first`, `x key`)            -> aliases
        parseIdentifierName / table alias (`from system.tables as final`)  -> database, table, alias
   EXPLAIN echoes those spellings, so such an occurrence is a keyword used AS A NAME; C05 speaks about
   keywords used AS KEYWORDS.  Everywhere else the model reads a keyword token's value only through
   strings.ToUpper / ToLower (parse_binary: the operator text of AND / OR / DIV / MOD is upper-cased;
   the `view(` test lower-cases) or not at all.

   Method.  One relational proof, parametric in a relation [brel] on bytes that relates only bytes with
   the same ASCII upper-casing: related token lists give related runs of every function of the model
   -- same result constructor (Ok / Panic site / OutOfFragment reason / OutOfFuel), related remaining
   tokens, EQUAL error lists (the model's p.errors entries carry token kinds only: the position and
   the token text of the Go message are what the model erases), and ASTs related by
   [SelectAstRel.erel brel] (equal up to the stored names, which are related byte by byte).
   Instances of [brel]:
        ci_byte          (same upper-casing)       -> the main theorem;
        up_byte/lo_byte  (b' = b or b' = upper b /  b' = b or b' = lower b)
                                                   -> the decidable token-level criterion [kw_blind]:
                         the parses of the all-upper and all-lower variants store the same names iff
                         no letter of a keyword token's value reaches the AST. *)
From Coq Require Import List NArith Arith Bool Lia ZifyN ZifyNat ZifyBool.
From DC Require Import Base.Item Gen.TokenTable Tree.LineTree.
From DC Require Import Select.SelectParseModel Select.SelectPrintModel Select.SelectCoreSafe.
From DC Require Import Select.SelectAstRel.
Import ListNotations.
Local Open Scope N_scope.

(* ------------------------------------------------------------------------------------------ *)
(** * Related tokens, states, results *)

Class Rel (A : Type) := { rel : A -> A -> Prop }.

Section CaseRel.
  Variable brel : N -> N -> Prop.
  Hypothesis brel_refl : forall a, brel a a.
  Hypothesis brel_ci : forall a b, brel a b -> ci_byte a b.

  Notation vrel := (vrel brel).

  (* same kind, same quoted flag, values related byte by byte, EQUAL unless the kind is a keyword;
     the positions are not mentioned *)
  Definition irel (a b : item) : Prop :=
    it_tok a = it_tok b /\ it_quoted a = it_quoted b /\ vrel (it_val a) (it_val b) /\
    (is_keyword (it_tok a) = false -> it_val a = it_val b).

  Definition srel (s s' : st) : Prop := Forall2 irel (toks s) (toks s') /\ errs s = errs s'.

  #[local] Instance R_st : Rel st := {| rel := srel |}.
  #[local] Instance R_expr : Rel expr := {| rel := erel brel |}.
  #[local] Instance R_query : Rel query := {| rel := qrel brel |}.
  #[local] Instance R_select : Rel select := {| rel := selrel brel |}.
  #[local] Instance R_table : Rel table_elem := {| rel := trel brel |}.
  #[local] Instance R_src : Rel table_src := {| rel := srcrel brel |}.
  #[local] Instance R_order : Rel order_elem := {| rel := ordrel brel |}.
  #[local] Instance R_bool : Rel bool := {| rel := eq |}.
  #[local] Instance R_bytes : Rel (list N) | 1 := {| rel := vrel |}.
  #[local] Instance R_option {A} `{Rel A} : Rel (option A) | 10 := {| rel := orel rel |}.
  #[local] Instance R_list {A} `{Rel A} : Rel (list A) | 10 := {| rel := Forall2 rel |}.
  #[local] Instance R_prod {A B} `{Rel A} `{Rel B} : Rel (A * B) :=
    {| rel := fun p p' => rel (fst p) (fst p') /\ rel (snd p) (snd p') |}.

  (* same constructor; Ok values related *)
  Definition rrel {A} `{Rel A} (r r' : res A) : Prop :=
    match r, r' with
    | Ok a, Ok a' => rel a a'
    | Panic p, Panic p' => p = p'
    | OutOfFragment o, OutOfFragment o' => o = o'
    | OutOfFuel, OutOfFuel => True
    | _, _ => False
    end.

  Lemma rrel_bind {A C} `{Rel A} `{Rel C} (r r' : res A) (f f' : A -> res C) :
    rrel r r' -> (forall x x', rel x x' -> rrel (f x) (f' x')) -> rrel (bind r f) (bind r' f').
  Proof. destruct r, r'; cbn; intros Hr Hf; try contradiction; auto. Qed.

  Ltac rel_simpl :=
    cbn beta iota delta [rel R_st R_expr R_query R_select R_table R_src R_order R_bool R_bytes R_option
         R_list R_prod fst snd] in *.

  (* ---------------------------------------------------------------------------------------- *)
  (** ** Values *)

  Lemma vrel_refl : forall v, vrel v v.
  Proof. intros v. apply Forall2_refl. exact brel_refl. Qed.

  Lemma vrel_app : forall a a' b b', vrel a a' -> vrel b b' -> vrel (a ++ b) (a' ++ b').
  Proof. intros. apply Forall2_app; assumption. Qed.

  Lemma vrel_cons : forall x a a', vrel a a' -> vrel (x :: a) (x :: a').
  Proof. intros. constructor; auto. Qed.

  Lemma join_dot_rel : forall p p', Forall2 vrel p p' -> vrel (join_dot p) (join_dot p').
  Proof.
    intros p p' F. induction F as [|x y l l' Hxy F IH]; [constructor|].
    cbn [join_dot]. destruct F as [|x2 y2 l2 l2' H2 F2]; [exact Hxy|].
    apply vrel_app; [exact Hxy|]. apply vrel_cons. exact IH.
  Qed.

  Lemma parts_snoc_rel : forall p p' v v', Forall2 vrel p p' -> vrel v v' -> Forall2 vrel (p ++ [v]) (p' ++ [v']).
  Proof. intros. apply Forall2_app; [assumption|]. constructor; [assumption|constructor]. Qed.

  Lemma last_rel : forall p p', Forall2 vrel p p' -> vrel (last p []) (last p' []).
  Proof.
    intros p p' F. induction F as [|x y l l' Hxy F IH]; [constructor|].
    cbn [last]. destruct F; [exact Hxy|exact IH].
  Qed.

  Lemma vrel_has_prefix_atat : forall a b, vrel a b -> has_prefix [64; 64] a = has_prefix [64; 64] b.
  Proof.
    intros a b H. destruct H as [|x y l l' Hxy F]; [reflexivity|]. cbn [has_prefix].
    rewrite (ci_eqb_nonletter' 64 x y eq_refl (brel_ci _ _ Hxy)). f_equal.
    destruct F as [|x2 y2 l2 l2' H2 F2]; [reflexivity|].
    rewrite (ci_eqb_nonletter' 64 x2 y2 eq_refl (brel_ci _ _ H2)). reflexivity.
  Qed.

  Lemma is46 : forall x : N, match x with 46 => true | _ => false end = (x =? 46).
  Proof. intros [|p]; [reflexivity|]. do 8 (try destruct p as [p|p|]; try reflexivity). Qed.

  Lemma vrel_starts_with_dot : forall a b, vrel a b -> starts_with_dot a = starts_with_dot b.
  Proof.
    intros a b H. destruct H as [|x y l l' Hxy F]; [reflexivity|]. unfold starts_with_dot.
    rewrite !is46. apply ci_eqb_nonletter; [reflexivity|apply brel_ci; assumption].
  Qed.

  (* ---------------------------------------------------------------------------------------- *)
  (** ** The token window *)

  Lemma tok_at_rel : forall l l', Forall2 irel l l' -> tok_at l = tok_at l'.
  Proof. intros l l' F. destruct F as [|x y ? ? [H _] _]; [reflexivity|exact H]. Qed.

  Lemma val_at_rel : forall l l', Forall2 irel l l' -> vrel (val_at l) (val_at l').
  Proof. intros l l' F. destruct F as [|x y ? ? [_ [_ [H _]]] _]; [constructor|exact H]. Qed.

  Lemma val_at_eq : forall l l', Forall2 irel l l' -> is_keyword (tok_at l) = false -> val_at l = val_at l'.
  Proof. intros l l' F. destruct F as [|x y ? ? [_ [_ [_ H]]] _]; [reflexivity|exact H]. Qed.

  Lemma tl_rel : forall l l', Forall2 irel l l' -> Forall2 irel (tl l) (tl l').
  Proof. intros l l' F. destruct F; [constructor|assumption]. Qed.

  Lemma cur_tok_rel : forall s s', srel s s' -> cur_tok s = cur_tok s'.
  Proof. intros s s' [H _]. apply tok_at_rel; assumption. Qed.
  Lemma peek_tok_rel : forall s s', srel s s' -> peek_tok s = peek_tok s'.
  Proof. intros s s' [H _]. apply tok_at_rel, tl_rel; assumption. Qed.
  Lemma peek2_tok_rel : forall s s', srel s s' -> peek2_tok s = peek2_tok s'.
  Proof. intros s s' [H _]. apply tok_at_rel, tl_rel, tl_rel; assumption. Qed.

  Lemma cur_is_rel : forall s s' t, srel s s' -> cur_is s t = cur_is s' t.
  Proof. intros s s' t H. unfold cur_is. rewrite (cur_tok_rel _ _ H). reflexivity. Qed.
  Lemma peek_is_rel : forall s s' t, srel s s' -> peek_is s t = peek_is s' t.
  Proof. intros s s' t H. unfold peek_is. rewrite (peek_tok_rel _ _ H). reflexivity. Qed.
  Lemma peek2_is_rel : forall s s' t, srel s s' -> peek2_is s t = peek2_is s' t.
  Proof. intros s s' t H. unfold peek2_is. rewrite (peek2_tok_rel _ _ H). reflexivity. Qed.
  Lemma cur_kw_rel : forall s s', srel s s' -> cur_kw s = cur_kw s'.
  Proof. intros s s' H. unfold cur_kw. rewrite (cur_tok_rel _ _ H). reflexivity. Qed.

  Lemma cur_val_rel : forall s s', srel s s' -> vrel (cur_val s) (cur_val s').
  Proof. intros s s' [H _]. apply val_at_rel; assumption. Qed.

  (* the value of a token that is not a keyword is the same on both sides *)
  Lemma cur_val_eq : forall s s', srel s s' -> cur_kw s = false -> cur_val s = cur_val s'.
  Proof. intros s s' [H _] Hk. apply val_at_eq; assumption. Qed.

  Lemma cur_val_eq_tok : forall s s' t, srel s s' -> cur_is s t = true -> is_keyword t = false ->
    cur_val s = cur_val s'.
  Proof.
    intros s s' t H Ht Hk. apply cur_val_eq; [assumption|]. unfold cur_kw. unfold cur_is in Ht.
    apply N.eqb_eq in Ht. rewrite Ht. exact Hk.
  Qed.

  Lemma remaining_rel : forall s s', srel s s' -> remaining s = remaining s'.
  Proof. intros s s' [H _]. unfold remaining. eapply Forall2_len; eassumption. Qed.

  Lemma srel_next : forall s s', srel s s' -> srel (next s) (next s').
  Proof. intros s s' [H E]. split; cbn [next toks errs]; [apply tl_rel; assumption|assumption]. Qed.

  Lemma srel_add_err : forall e s s', srel s s' -> srel (add_err e s) (add_err e s').
  Proof. intros e s s' [H E]. split; cbn [add_err toks errs]; [assumption|rewrite E; reflexivity]. Qed.

  Lemma srel_add_err_expected : forall t s s', srel s s' ->
    srel (add_err (ErrExpected t (cur_tok s)) s) (add_err (ErrExpected t (cur_tok s')) s').
  Proof. intros t s s' H. rewrite <- (cur_tok_rel _ _ H). apply srel_add_err; assumption. Qed.

  Lemma srel_add_err_unexpected : forall s s', srel s s' ->
    srel (add_err (ErrUnexpected (cur_tok s)) s) (add_err (ErrUnexpected (cur_tok s')) s').
  Proof. intros s s' H. rewrite <- (cur_tok_rel _ _ H). apply srel_add_err; assumption. Qed.

  Lemma srel_mk : forall l l' s s', Forall2 irel l l' -> srel s s' -> srel (mkSt l (errs s)) (mkSt l' (errs s')).
  Proof. intros l l' s s' F [_ E]. split; cbn [toks errs]; assumption. Qed.

  Lemma srel_toks : forall s s', srel s s' -> Forall2 irel (toks s) (toks s').
  Proof. intros s s' [H _]. exact H. Qed.

  Lemma is_clause_keyword_rel : forall s s', srel s s' -> is_clause_keyword s = is_clause_keyword s'.
  Proof.
    intros s s' H. unfold is_clause_keyword.
    rewrite (cur_tok_rel _ _ H), !(peek_is_rel _ _ _ H), !(peek2_is_rel _ _ _ H). reflexivity.
  Qed.

  Lemma is_join_keyword_rel : forall s s', srel s s' -> is_join_keyword s = is_join_keyword s'.
  Proof. intros s s' H. unfold is_join_keyword. rewrite (cur_tok_rel _ _ H). reflexivity. Qed.

  Lemma settings_clause_rel : forall s s', srel s s' -> settings_clause s = settings_clause s'.
  Proof. intros s s' H. unfold settings_clause. rewrite (cur_is_rel _ _ _ H), (peek_is_rel _ _ _ H). reflexivity. Qed.

  Lemma precedence_for_current_rel : forall s s', srel s s' ->
    precedence_for_current s = precedence_for_current s'.
  Proof.
    intros s s' H. unfold precedence_for_current.
    rewrite <- !(cur_is_rel _ _ _ H), <- !(peek_is_rel _ _ _ H), <- (cur_tok_rel _ _ H).
    rewrite <- (vrel_starts_with_dot _ _ (cur_val_rel _ _ H)). reflexivity.
  Qed.

  Create HintDb crel.
  #[local] Hint Resolve srel_next srel_add_err srel_add_err_expected srel_add_err_unexpected srel_mk srel_toks tl_rel cur_val_rel vrel_refl vrel_app
    vrel_cons join_dot_rel last_rel parts_snoc_rel : crel.
  #[local] Hint Constructors erel qrel selrel trel srcrel ordrel orel Forall2 : crel.
  #[local] Hint Resolve Forall2_app : crel.

  Ltac srel_solve := solve [eauto 6 with crel].

  (* equality of two tests that differ only in the state / value they look at *)
  Ltac teq :=
    lazymatch goal with
    | |- ?x = ?x => reflexivity
    | |- andb _ _ = andb _ _ => apply (f_equal2 andb); teq
    | |- orb _ _ = orb _ _ => apply (f_equal2 orb); teq
    | |- negb _ = negb _ => apply (f_equal negb); teq
    | |- cur_is _ _ = cur_is _ _ => apply cur_is_rel; srel_solve
    | |- peek_is _ _ = peek_is _ _ => apply peek_is_rel; srel_solve
    | |- peek2_is _ _ = peek2_is _ _ => apply peek2_is_rel; srel_solve
    | |- cur_kw _ = cur_kw _ => apply cur_kw_rel; srel_solve
    | |- is_clause_keyword _ = is_clause_keyword _ => apply is_clause_keyword_rel; srel_solve
    | |- is_join_keyword _ = is_join_keyword _ => apply is_join_keyword_rel; srel_solve
    | |- settings_clause _ = settings_clause _ => apply settings_clause_rel; srel_solve
    | |- tok_in (cur_tok _) ?l = tok_in (cur_tok _) ?l =>
        apply (f_equal (fun t => tok_in t l)); apply cur_tok_rel; srel_solve
    | |- (cur_tok _ =? ?t) = (cur_tok _ =? ?t) =>
        apply (f_equal (fun x => x =? t)); apply cur_tok_rel; srel_solve
    | |- is_keyword (cur_tok _) = is_keyword (cur_tok _) =>
        apply (f_equal is_keyword); apply cur_tok_rel; srel_solve
    | |- ascii_only _ = ascii_only _ => apply (vrel_ascii_only brel brel_ci); srel_solve
    | |- bytes_eqb (to_upper _) ?c = bytes_eqb (to_upper _) ?c =>
        apply (f_equal (fun x => bytes_eqb x c)); apply (vrel_upper brel brel_ci); srel_solve
    | |- bytes_eqb (to_lower _) ?c = bytes_eqb (to_lower _) ?c =>
        apply (f_equal (fun x => bytes_eqb x c)); apply (vrel_lower brel brel_ci); srel_solve
    | |- mem_bytes (to_upper _) ?c = mem_bytes (to_upper _) ?c =>
        apply (f_equal (fun x => mem_bytes x c)); apply (vrel_upper brel brel_ci); srel_solve
    | |- has_prefix [64; 64] _ = has_prefix [64; 64] _ => apply vrel_has_prefix_atat; srel_solve
    | |- starts_with_dot _ = starts_with_dot _ => apply vrel_starts_with_dot; srel_solve
    | |- Nat.eqb (remaining _) (remaining _) = Nat.eqb (remaining _) (remaining _) =>
        apply (f_equal2 Nat.eqb); apply remaining_rel; srel_solve
    | |- (?p <? precedence_for_current _) = (?p <? precedence_for_current _) =>
        apply (f_equal (fun x => p <? x)); apply precedence_for_current_rel; srel_solve
    | |- Nat.leb ?n (List.length _) = Nat.leb ?n (List.length _) =>
        apply (f_equal (Nat.leb n)); eapply Forall2_len; srel_solve
    | |- match ?o with Some _ => true | None => false end =
         match ?o' with Some _ => true | None => false end =>
        match goal with H : orel _ o o' |- _ => destruct H; reflexivity end
    | |- _ => solve [auto with crel]
    end.

  (* destructure related pairs that a continuation is about to take apart *)
  Ltac rel_pairs :=
    repeat match goal with x : (_ * _)%type |- _ => destruct x end;
    cbn beta iota delta [rel R_prod fst snd] in *;
    repeat match goal with H : _ /\ _ |- _ => destruct H end.

  Ltac rel_subst :=
    repeat match goal with
           | H : @rel bool _ ?a ?b |- _ => cbn beta iota delta [rel R_bool] in H
           | H : ?a = ?b |- _ => is_var a; is_var b; subst b
           end.

  Ltac split_and := repeat match goal with |- _ /\ _ => split end.

  Ltac rel_done := rel_simpl; split_and; try reflexivity; try solve [eauto 8 with crel].

  Ltac rel_extra := fail.

  (* one step of the simultaneous symbolic execution of the two runs *)
  Ltac rel_step :=
    match goal with
    | |- rrel (Ok _) (Ok _) => unfold rrel; rel_done
    | |- rrel (ret _ _) (ret _ _) => unfold ret, rrel; rel_done
    | |- rrel (OutOfFragment _) (OutOfFragment _) => reflexivity
    | |- rrel OutOfFuel OutOfFuel => exact I
    | |- rrel (Panic _) (Panic _) => reflexivity
    | |- rrel (bind _ _) (bind _ _) =>
        eapply rrel_bind;
        [|let x := fresh "x" in let x' := fresh "x'" in let Hx := fresh "Hx" in
          intros x x' Hx; rel_pairs; rel_simpl; rel_subst]
    | |- rrel (if ?c then _ else _) (if ?c' then _ else _) =>
        let T := type of c in constr_eq T bool;
        let H := fresh in
        assert (H : c' = c) by (symmetry; teq); rewrite H; clear H; destruct c eqn:?
    | |- rrel (let x := if ?c then _ else _ in @?b x) (let y := if ?c' then _ else _ in @?b' y) =>
        let T := type of c in constr_eq T bool;
        let H := fresh in
        assert (H : c' = c) by (symmetry; teq); rewrite H; clear H; destruct c eqn:?
    | |- rrel (let x := ?v in @?b x) (let y := ?v' in @?b' y) =>
        change (rrel (b v) (b' v')); cbv beta
    | |- rrel (match (if ?c then _ else _) with _ => _ end) (match (if ?c' then _ else _) with _ => _ end) =>
        let T := type of c in constr_eq T bool;
        let H := fresh in
        assert (H : c' = c) by (symmetry; teq); rewrite H; clear H; destruct c eqn:?
    | |- _ => rel_extra
    | |- rrel (match (match ?x with _ => _ end) with _ => _ end)
              (match (match ?y with _ => _ end) with _ => _ end) =>
        match goal with
        | H : orel _ x y |- _ => destruct H
        | H : qrel _ x y |- _ => destruct H
        end
    | |- rrel (match ?x with _ => _ end) (match ?y with _ => _ end) =>
        first
          [ constr_eq x y; destruct x eqn:?
          | match goal with
            | H : orel _ x y |- _ => destruct H
            | H : erel _ x y |- _ => destruct H
            | H : qrel _ x y |- _ => destruct H
            end ]
    | |- rrel _ _ => solve [eauto 9 with crel]
    end.

  Ltac rel_auto := repeat (cbv beta iota; rel_step).

  (* ---------------------------------------------------------------------------------------- *)
  (** ** Function by function *)

  Notation pe_rel pe := (forall prec s s', srel s s' -> rrel (pe prec s) (pe prec s')).
  Notation psu_rel psu := (forall s s', srel s s' -> rrel (psu s) (psu s')).

  Lemma set_alias_rel : forall site e e' a a',
    orel (erel brel) e e' -> vrel a a' -> rrel (set_alias site e a) (set_alias site e' a').
  Proof.
    intros site e e' a a' He Ha. unfold set_alias. destruct He as [|x y Hxy]; [reflexivity|].
    destruct Hxy; unfold rrel; rel_done.
  Qed.
  #[local] Hint Resolve set_alias_rel : crel.

  Lemma parse_alias_rel : forall e e' s s', orel (erel brel) e e' -> srel s s' ->
    rrel (parse_alias e s) (parse_alias e' s').
  Proof. intros e e' s s' He Hs. unfold parse_alias. rel_auto. Qed.
  #[local] Hint Resolve parse_alias_rel : crel.

  Lemma parse_implicit_alias_rel : forall e e' s s', orel (erel brel) e e' -> srel s s' ->
    rrel (parse_implicit_alias e s) (parse_implicit_alias e' s').
  Proof. intros e e' s s' He Hs. unfold parse_implicit_alias. rel_auto. Qed.
  #[local] Hint Resolve parse_implicit_alias_rel : crel.

  Lemma snoc_opt_rel : forall (acc acc' : list expr) (o o' : option expr),
    Forall2 (erel brel) acc acc' -> orel (erel brel) o o' ->
    Forall2 (erel brel) (match o with Some x => acc ++ [x] | None => acc end)
                        (match o' with Some x => acc' ++ [x] | None => acc' end).
  Proof. intros acc acc' o o' Ha Ho. destruct Ho; eauto with crel. Qed.

  Lemma single_opt_rel : forall (o o' : option expr), orel (erel brel) o o' ->
    Forall2 (erel brel) (match o with Some x => [x] | None => [] end)
                        (match o' with Some x => [x] | None => [] end).
  Proof. intros o o' Ho. destruct Ho; eauto with crel. Qed.
  #[local] Hint Resolve snoc_opt_rel single_opt_rel : crel.

  Lemma expr_list_loop_rel : forall pe, pe_rel pe ->
    forall fuel acc acc' s s', Forall2 (erel brel) acc acc' -> srel s s' ->
    rrel (expr_list_loop pe fuel acc s) (expr_list_loop pe fuel acc' s').
  Proof.
    intros pe Hpe. induction fuel as [|f IH]; intros acc acc' s s' Ha Hs; [exact I|].
    cbn [expr_list_loop]. rel_auto; try (apply IH; eauto with crel).
  Qed.
  #[local] Hint Resolve expr_list_loop_rel : crel.

  Lemma parse_expression_list_rel : forall pe, pe_rel pe ->
    forall fuel s s', srel s s' -> rrel (parse_expression_list pe fuel s) (parse_expression_list pe fuel s').
  Proof. intros pe Hpe fuel s s' Hs. unfold parse_expression_list. rel_auto. Qed.
  #[local] Hint Resolve parse_expression_list_rel : crel.

  Lemma arg_list_loop_rel : forall pe, pe_rel pe ->
    forall fuel acc acc' s s', Forall2 (erel brel) acc acc' -> srel s s' ->
    rrel (arg_list_loop pe fuel acc s) (arg_list_loop pe fuel acc' s').
  Proof.
    intros pe Hpe. induction fuel as [|f IH]; intros acc acc' s s' Ha Hs; [exact I|].
    cbn [arg_list_loop]. rel_auto; try (apply IH; eauto with crel).
  Qed.
  #[local] Hint Resolve arg_list_loop_rel : crel.

  Lemma parse_function_argument_list_rel : forall pe, pe_rel pe ->
    forall fuel s s', srel s s' ->
    rrel (parse_function_argument_list pe fuel s) (parse_function_argument_list pe fuel s').
  Proof. intros pe Hpe fuel s s' Hs. unfold parse_function_argument_list. rel_auto. Qed.
  #[local] Hint Resolve parse_function_argument_list_rel : crel.

  Lemma parse_function_call_rel : forall pe, pe_rel pe ->
    forall fuel name name' s s', vrel name name' -> srel s s' ->
    rrel (parse_function_call pe fuel name s) (parse_function_call pe fuel name' s').
  Proof. intros pe Hpe fuel name name' s s' Hn Hs. cbv delta [parse_function_call expect]; cbv beta. rel_auto. Qed.
  #[local] Hint Resolve parse_function_call_rel : crel.

  (* the dotted-name loop: the parts it collects are VALUES of IDENT and keyword tokens *)
  Inductive drel : dotted_result -> dotted_result -> Prop :=
  | dr_parts : forall p p' r r', Forall2 vrel p p' -> Forall2 irel r r' -> drel (DParts p r) (DParts p' r')
  | dr_ast : forall t t' r r', vrel t t' -> Forall2 irel r r' -> drel (DAsterisk t r) (DAsterisk t' r')
  | dr_oof : forall o, drel (DOof o) (DOof o).

  Lemma dotted_loop_rel_n : forall json n l l', (List.length l <= n)%nat -> Forall2 irel l l' ->
    forall p p', Forall2 vrel p p' -> drel (dotted_loop json p l) (dotted_loop json p' l').
  Proof.
    intros json. induction n as [|n IH]; intros l l' Hn F p p' Hp.
    - destruct F; [|cbn in Hn; lia]. cbn [dotted_loop]. constructor; auto.
    - destruct F as [|d d' l1 l1' Hd F1]; [cbn [dotted_loop]; constructor; auto|].
      cbn [dotted_loop]. pose proof Hd as [Hdt _]. rewrite <- Hdt.
      destruct (it_tok d =? T_DOT); [|constructor; auto].
      destruct F1 as [|x x' l2 l2' Hx F2]; [constructor; auto|].
      pose proof Hx as [Hxt [_ [Hxv _]]]. rewrite <- Hxt.
      destruct (json && (it_tok x =? T_CARET)); [constructor|].
      destruct (json && (it_tok x =? T_COLON)); [constructor|].
      destruct ((it_tok x =? T_IDENT) || is_keyword (it_tok x)).
      + apply IH; [cbn [List.length] in Hn; lia|assumption|].
        apply Forall2_app; [assumption|]. constructor; [assumption|constructor].
      + destruct (it_tok x =? T_ASTERISK); constructor; auto.
        apply join_dot_rel; assumption.
  Qed.

  Lemma dotted_loop_rel : forall json l l' p p', Forall2 irel l l' -> Forall2 vrel p p' ->
    drel (dotted_loop json p l) (dotted_loop json p' l').
  Proof. intros json l l' p p' F Hp. eapply dotted_loop_rel_n; eauto. Qed.

  Ltac rel_extra ::=
    match goal with
    | |- rrel (match dotted_loop ?j ?p ?l with _ => _ end) (match dotted_loop ?j ?p' ?l' with _ => _ end) =>
        let H := fresh in
        assert (H : drel (dotted_loop j p l) (dotted_loop j p' l')) by (apply dotted_loop_rel; eauto 6 with crel);
        destruct H
    end.

  Lemma parse_identifier_or_function_rel : forall pe, pe_rel pe ->
    forall fuel s s', srel s s' ->
    rrel (parse_identifier_or_function pe fuel s) (parse_identifier_or_function pe fuel s').
  Proof.
    intros pe Hpe fuel s s' Hs. cbv delta [parse_identifier_or_function]; cbv beta. rel_auto.
  Qed.
  #[local] Hint Resolve parse_identifier_or_function_rel : crel.

  Lemma parse_keyword_as_identifier_rel : forall s s', srel s s' ->
    rrel (parse_keyword_as_identifier s) (parse_keyword_as_identifier s').
  Proof. intros s s' Hs. cbv delta [parse_keyword_as_identifier]; cbv beta. rel_auto. Qed.
  #[local] Hint Resolve parse_keyword_as_identifier_rel : crel.

  Lemma parse_keyword_as_function_rel : forall pe, pe_rel pe ->
    forall fuel s s', srel s s' ->
    rrel (parse_keyword_as_function pe fuel s) (parse_keyword_as_function pe fuel s').
  Proof. intros pe Hpe fuel s s' Hs. cbv delta [parse_keyword_as_function expect]; cbv beta. rel_auto. Qed.
  #[local] Hint Resolve parse_keyword_as_function_rel : crel.

  Lemma parse_number_rel : forall s s', srel s s' -> (cur_tok s =? T_NUMBER) = true ->
    rrel (parse_number s) (parse_number s').
  Proof.
    intros s s' Hs Ht. cbv delta [parse_number]; cbv beta.
    rewrite <- (cur_val_eq_tok s s' T_NUMBER Hs Ht eq_refl). rel_auto.
  Qed.
  #[local] Hint Resolve parse_number_rel : crel.

  Lemma parse_unary_minus_rel : forall pe, pe_rel pe -> forall s s', srel s s' ->
    rrel (parse_unary_minus pe s) (parse_unary_minus pe s').
  Proof. intros pe Hpe s s' Hs. cbv delta [parse_unary_minus]; cbv beta. rel_auto. Qed.
  Lemma parse_unary_plus_rel : forall pe, pe_rel pe -> forall s s', srel s s' ->
    rrel (parse_unary_plus pe s) (parse_unary_plus pe s').
  Proof. intros pe Hpe s s' Hs. cbv delta [parse_unary_plus]; cbv beta. rel_auto. Qed.
  Lemma parse_not_rel : forall pe, pe_rel pe -> forall s s', srel s s' ->
    rrel (parse_not pe s) (parse_not pe s').
  Proof.
    intros pe Hpe s s' Hs. cbv delta [parse_not]; cbv beta. cbv zeta.
    rewrite <- (cur_is_rel (next s) (next s') T_LPAREN (srel_next _ _ Hs)). rel_auto.
  Qed.
  #[local] Hint Resolve parse_unary_minus_rel parse_unary_plus_rel parse_not_rel : crel.

  Lemma mark_paren_rel : forall e e', erel brel e e' -> erel brel (mark_paren e) (mark_paren e').
  Proof. intros e e' H. destruct H; cbn [mark_paren]; eauto with crel. Qed.
  Lemma option_mark_paren_rel : forall o o', orel (erel brel) o o' ->
    orel (erel brel) (option_map mark_paren o) (option_map mark_paren o').
  Proof. intros o o' H. destruct H; cbn [option_map]; constructor. apply mark_paren_rel; assumption. Qed.
  #[local] Hint Resolve mark_paren_rel option_mark_paren_rel : crel.

  Lemma parse_grouped_or_tuple_rel : forall pe psu, pe_rel pe -> psu_rel psu -> forall s s', srel s s' ->
    rrel (parse_grouped_or_tuple pe psu s) (parse_grouped_or_tuple pe psu s').
  Proof. intros pe psu Hpe Hpsu s s' Hs. cbv delta [parse_grouped_or_tuple expect]; cbv beta. rel_auto. Qed.
  #[local] Hint Resolve parse_grouped_or_tuple_rel : crel.

  Lemma parse_prefix_rel : forall pe psu, pe_rel pe -> psu_rel psu -> forall fuel s s', srel s s' ->
    rrel (parse_prefix pe psu fuel s) (parse_prefix pe psu fuel s').
  Proof.
    intros pe psu Hpe Hpsu fuel s s' Hs. cbv delta [parse_prefix]; cbv beta. rel_auto.
    rewrite <- (cur_val_eq_tok s s' T_STRING Hs Heqb1 eq_refl). eauto with crel.
  Qed.
  #[local] Hint Resolve parse_prefix_rel : crel.

  (* parseBinaryExpression: the operator text of a keyword operator (AND OR DIV MOD) is UPPER-CASED
     before it is stored; an operator token's value is not a keyword value *)
  Lemma binary_op_eq : forall s s', srel s s' ->
    (if cur_kw s then to_upper (cur_val s) else cur_val s) =
    (if cur_kw s' then to_upper (cur_val s') else cur_val s').
  Proof.
    intros s s' H. rewrite <- (cur_kw_rel _ _ H). destruct (cur_kw s) eqn:E.
    - apply (vrel_upper brel brel_ci). apply cur_val_rel; assumption.
    - apply cur_val_eq; assumption.
  Qed.

  Lemma parse_binary_rel : forall pe, pe_rel pe -> forall l l' s s', erel brel l l' -> srel s s' ->
    rrel (parse_binary pe l s) (parse_binary pe l' s').
  Proof.
    intros pe Hpe l l' s s' Hl Hs. cbv delta [parse_binary]; cbv beta.
    rewrite <- (binary_op_eq _ _ Hs), <- (cur_tok_rel _ _ Hs). rel_auto.
  Qed.
  #[local] Hint Resolve parse_binary_rel : crel.

  Lemma parse_dot_access_rel : forall pe, pe_rel pe -> forall fuel l l' s s',
    orel (erel brel) l l' -> srel s s' ->
    rrel (parse_dot_access pe fuel l s) (parse_dot_access pe fuel l' s').
  Proof.
    intros pe Hpe fuel l l' s s' Hl Hs. cbv delta [parse_dot_access]; cbv beta. rel_auto.
  Qed.
  #[local] Hint Resolve parse_dot_access_rel : crel.

  Lemma is_asterisk_rel : forall e e', erel brel e e' -> is_asterisk e = is_asterisk e'.
  Proof. intros e e' H. destruct H; reflexivity. Qed.

  Lemma parse_infix_rel : forall pe, pe_rel pe -> forall fuel l l' s s', erel brel l l' -> srel s s' ->
    rrel (parse_infix pe fuel l s) (parse_infix pe fuel l' s').
  Proof.
    intros pe Hpe fuel l l' s s' Hl Hs. cbv delta [parse_infix]; cbv beta.
    rewrite <- (is_asterisk_rel _ _ Hl). rel_auto.
  Qed.
  #[local] Hint Resolve parse_infix_rel : crel.

  Lemma order_by_loop_rel : forall pe, pe_rel pe ->
    forall fuel acc acc' s s', Forall2 (ordrel brel) acc acc' -> srel s s' ->
    rrel (order_by_loop pe fuel acc s) (order_by_loop pe fuel acc' s').
  Proof.
    intros pe Hpe. induction fuel as [|f IH]; intros acc acc' s s' Ha Hs; [exact I|].
    cbn [order_by_loop]. rel_auto; try (apply IH; eauto 8 with crel).
  Qed.
  #[local] Hint Resolve order_by_loop_rel : crel.

  Lemma is_keyword_for_clause_eq : forall s s', srel s s' -> is_keyword_for_clause s = is_keyword_for_clause s'.
  Proof.
    intros s s' H. unfold is_keyword_for_clause.
    rewrite <- (cur_tok_rel _ _ H), <- (cur_is_rel _ _ _ H).
    rewrite <- (vrel_ascii_only brel brel_ci _ _ (cur_val_rel _ _ H)).
    rewrite <- (vrel_upper brel brel_ci _ _ (cur_val_rel _ _ H)). reflexivity.
  Qed.

  Lemma is_keyword_for_clause_rel : forall s s', srel s s' ->
    rrel (is_keyword_for_clause s) (is_keyword_for_clause s').
  Proof.
    intros s s' H. rewrite <- (is_keyword_for_clause_eq _ _ H).
    destruct (is_keyword_for_clause s); cbn; auto.
  Qed.
  #[local] Hint Resolve is_keyword_for_clause_rel : crel.

  Lemma parse_table_expression_rel : forall psu, psu_rel psu -> forall s s', srel s s' ->
    rrel (parse_table_expression psu s) (parse_table_expression psu s').
  Proof.
    intros psu Hpsu s s' Hs. cbv delta [parse_table_expression parse_identifier_name expect]; cbv beta zeta.
    rel_auto.
    all: repeat (first [apply orel_some | apply sr_ident | apply vrel_cons | apply vrel_app]); eauto 8 with crel.
  Qed.
  #[local] Hint Resolve parse_table_expression_rel : crel.

  Lemma parse_tables_in_select_rel : forall psu, psu_rel psu -> forall s s', srel s s' ->
    rrel (parse_tables_in_select psu s) (parse_tables_in_select psu s').
  Proof. intros psu Hpsu s s' Hs. cbv delta [parse_tables_in_select]; cbv beta. rel_auto. Qed.
  #[local] Hint Resolve parse_tables_in_select_rel : crel.

  Lemma skip_parens_rel : forall l l', Forall2 irel l l' -> forall d,
    Forall2 irel (skip_parens d l) (skip_parens d l').
  Proof.
    intros l l' F. induction F as [|x y l l' Hxy F IH]; intros d; [constructor|].
    cbn [skip_parens]. pose proof Hxy as [Ht _]. rewrite <- Ht.
    destruct (it_tok x =? T_SEMICOLON); [constructor; assumption|].
    destruct (if it_tok x =? T_LPAREN then S d else if it_tok x =? T_RPAREN then Nat.pred d else d);
      [constructor; assumption|apply IH].
  Qed.
  #[local] Hint Resolve skip_parens_rel : crel.

  Lemma q_selects_rel : forall q q', qrel brel q q' -> Forall2 (orel (selrel brel)) (q_selects q) (q_selects q').
  Proof. intros q q' H. destruct H. assumption. Qed.
  #[local] Hint Resolve q_selects_rel : crel.

  Notation sels_rel := (Forall2 (orel (selrel brel))).

  Lemma core_rel : forall fuel,
    (forall prec s s', srel s s' -> rrel (parse_expr fuel prec s) (parse_expr fuel prec s')) /\
    (forall prec l l' s s', erel brel l l' -> srel s s' ->
       rrel (pratt_loop fuel prec l s) (pratt_loop fuel prec l' s')) /\
    (forall s s', srel s s' -> rrel (parse_select fuel s) (parse_select fuel s')) /\
    (forall prefix sels sels' modes all s s', sels_rel sels sels' -> srel s s' ->
       rrel (union_loop fuel prefix sels modes all s) (union_loop fuel prefix sels' modes all s')) /\
    (forall s s', srel s s' -> rrel (parse_select_with_union fuel s) (parse_select_with_union fuel s')).
  Proof.
    induction fuel as [|f IH].
    - repeat split; intros; exact I.
    - destruct IH as (IHe & IHp & IHs & IHu & IHq). repeat split; intros.
      + cbn beta iota fix delta [parse_expr]. rel_auto.
      + cbn beta iota fix delta [pratt_loop]. rel_auto.
      + cbn beta iota fix delta [parse_select]. cbv delta [expect]; cbv beta. rel_auto.
      + cbn beta iota fix delta [union_loop]. cbv delta [union_mode]; cbv beta. rel_auto.
      + cbn beta iota fix delta [parse_select_with_union]. cbv delta [expect]; cbv beta. rel_auto.
  Qed.

  Lemma parse_expr_rel : forall fuel, pe_rel (parse_expr fuel).
  Proof. intros fuel. exact (proj1 (core_rel fuel)). Qed.
  Lemma parse_select_rel : forall fuel, psu_rel (parse_select fuel).
  Proof. intros fuel. exact (proj1 (proj2 (proj2 (core_rel fuel)))). Qed.
  Lemma union_loop_rel : forall fuel prefix sels sels' modes all s s', sels_rel sels sels' -> srel s s' ->
    rrel (union_loop fuel prefix sels modes all s) (union_loop fuel prefix sels' modes all s').
  Proof. intros fuel. exact (proj1 (proj2 (proj2 (proj2 (core_rel fuel))))). Qed.
  Lemma parse_select_with_union_rel : forall fuel, psu_rel (parse_select_with_union fuel).
  Proof. intros fuel. exact (proj2 (proj2 (proj2 (proj2 (core_rel fuel))))). Qed.
  #[local] Hint Resolve parse_expr_rel parse_select_rel union_loop_rel parse_select_with_union_rel : crel.

  Lemma parse_parenthesized_select_rel : forall fuel s s', srel s s' ->
    rrel (parse_parenthesized_select fuel s) (parse_parenthesized_select fuel s').
  Proof.
    intros fuel s s' Hs. cbv delta [parse_parenthesized_select expect]; cbv beta. rel_auto.
  Qed.
  #[local] Hint Resolve parse_parenthesized_select_rel : crel.

  Lemma parse_statement_raw_rel : forall fuel s s', srel s s' ->
    rrel (parse_statement_raw fuel s) (parse_statement_raw fuel s').
  Proof.
    intros fuel s s' Hs. cbv delta [parse_statement_raw]; cbv beta.
    rewrite <- (cur_tok_rel _ _ Hs). rel_auto.
  Qed.

  (* the printer-model boundary is case-blind (SelectAstRel.printable_rel) *)
  Lemma printer_check_rel : forall r r' : option query * st, rel r r' ->
    rrel (printer_check r) (printer_check r').
  Proof.
    intros [q s] [q' s'] [Hq Hs]. rel_simpl. unfold printer_check.
    destruct Hq as [|x y Hxy]; [unfold rrel; rel_done|].
    destruct Hs as [Ht He]. rewrite <- He.
    rewrite <- (proj1 (proj2 (printable_rel brel brel_ci)) x false y Hxy).
    destruct (is_nil (errs s) && negb (printable_query false x)); [reflexivity|].
    unfold rrel. rel_simpl. split; [constructor; assumption|split; assumption].
  Qed.

  Lemma parse_statement_rel : forall fuel s s', srel s s' ->
    rrel (parse_statement fuel s) (parse_statement fuel s').
  Proof.
    intros fuel s s' Hs. unfold parse_statement. eapply rrel_bind; [apply parse_statement_raw_rel; assumption|].
    intros x x' Hx. apply printer_check_rel; assumption.
  Qed.

End CaseRel.

(* ------------------------------------------------------------------------------------------ *)
(** * The statements *)

(* what parse_model returns: (statement | nil Statement, remaining tokens, p.errors) *)
Definition result : Type := res (option query * list item * list err).

(* same constructor -- Ok / Panic site / OutOfFragment reason / OutOfFuel --, statements equal up to
   the stored names ([brel] byte by byte), remaining tokens related, p.errors EQUAL.
   An [err] of the model carries token KINDS only; the position and the token text that the Go message
   prints ("... got %s at line %d, column %d") are exactly what the model's [err] erases, so "equal
   error lists" means: the same messages up to positions and token spelling. *)
Definition result_rel (brel : N -> N -> Prop) (r r' : result) : Prop :=
  match r, r' with
  | Ok (q, rest, es), Ok (q', rest', es') =>
      orel (qrel brel) q q' /\ Forall2 (irel brel) rest rest' /\ es = es'
  | Panic p, Panic p' => p = p'
  | OutOfFragment o, OutOfFragment o' => o = o'
  | OutOfFuel, OutOfFuel => True
  | _, _ => False
  end.

(* ... and the SAME statement *)
Definition result_same (brel : N -> N -> Prop) (r r' : result) : Prop :=
  match r, r' with
  | Ok (q, rest, es), Ok (q', rest', es') => q = q' /\ Forall2 (irel brel) rest rest' /\ es = es'
  | Panic p, Panic p' => p = p'
  | OutOfFragment o, OutOfFragment o' => o = o'
  | OutOfFuel, OutOfFuel => True
  | _, _ => False
  end.

Section General.
  Variable brel : N -> N -> Prop.
  Hypothesis brel_refl : forall a, brel a a.
  Hypothesis brel_ci : forall a b, brel a b -> ci_byte a b.

  Theorem parse_model_fuel_rel : forall fuel ts ts', Forall2 (irel brel) ts ts' ->
    result_rel brel (parse_model_fuel fuel ts) (parse_model_fuel fuel ts').
  Proof.
    intros fuel ts ts' F. unfold parse_model_fuel.
    assert (Hs : srel brel (mkSt ts []) (mkSt ts' [])) by (split; [exact F|reflexivity]).
    pose proof (parse_statement_rel brel brel_refl brel_ci fuel _ _ Hs) as H.
    destruct (parse_statement fuel (mkSt ts [])) as [[q s]|p|o|],
             (parse_statement fuel (mkSt ts' [])) as [[q' s']|p'|o'|]; cbn in H |- *; try contradiction; exact H.
  Qed.

  Theorem parse_model_rel : forall ts ts', Forall2 (irel brel) ts ts' ->
    result_rel brel (parse_model ts) (parse_model ts').
  Proof.
    intros ts ts' F. unfold parse_model, fuel_for. rewrite <- (Forall2_len _ _ _ F).
    apply parse_model_fuel_rel. exact F.
  Qed.
End General.

(* ------------------------------------------------------------------------------------------ *)
(** * C05's keyword-case clause *)

(* item by item: same kind, same quoted flag, same value -- except that the value of a KEYWORD-kind
   token may differ in the letter case of its ASCII letters; positions arbitrary *)
Definition case_item (a b : item) : Prop :=
  it_tok a = it_tok b /\ it_quoted a = it_quoted b /\
  (if is_keyword (it_tok a) then to_upper (it_val a) = to_upper (it_val b) else it_val a = it_val b).

Definition case_related (ts ts' : list item) : Prop := Forall2 case_item ts ts'.

Lemma map_eq_Forall2 {A C} (f : A -> C) : forall l l', map f l = map f l' -> Forall2 (fun a b => f a = f b) l l'.
Proof.
  induction l as [|a l IH]; intros [|b l'] E; try discriminate; [constructor|].
  cbn [map] in E. inversion E. constructor; auto.
Qed.

Lemma ci_refl : forall a, ci_byte a a.
Proof. reflexivity. Qed.

Lemma case_item_irel : forall a b, case_item a b -> irel ci_byte a b.
Proof.
  intros a b [Ht [Hq Hv]]. repeat split; try assumption.
  - destruct (is_keyword (it_tok a)).
    + apply (map_eq_Forall2 upper_byte). exact Hv.
    + rewrite Hv. apply Forall2_refl. exact ci_refl.
  - intros Hk. rewrite Hk in Hv. exact Hv.
Qed.

Lemma irel_case_item : forall brel : N -> N -> Prop, (forall a b, brel a b -> ci_byte a b) ->
  forall a b, irel brel a b -> case_item a b.
Proof.
  intros brel Hci a b [Ht [Hq [Hv He]]]. repeat split; try assumption.
  destruct (is_keyword (it_tok a)); [|auto]. apply (vrel_upper brel Hci). exact Hv.
Qed.

Lemma case_related_irel : forall ts ts', case_related ts ts' -> Forall2 (irel ci_byte) ts ts'.
Proof. intros ts ts' H. eapply Forall2_impl; [|exact H]. exact case_item_irel. Qed.

(* (1) related token lists give related results *)
Theorem parse_model_case : forall ts ts', case_related ts ts' ->
  result_rel ci_byte (parse_model ts) (parse_model ts').
Proof.
  intros ts ts' H. apply (parse_model_rel ci_byte ci_refl (fun a b H => H)). apply case_related_irel. exact H.
Qed.

(* every name the returned statement stores *)
Definition result_names (r : result) : list (list N) :=
  match r with Ok (q, _, _) => stored_names q | _ => [] end.

(* the two parses agree literally on the names they store: the keyword tokens that the parse uses AS
   NAMES are spelled alike in both texts (all other stored names are IDENT values, equal anyway) *)
Definition names_agree (ts ts' : list item) : Prop :=
  result_names (parse_model ts) = result_names (parse_model ts').

(* (2) ... and then the two parses return the SAME statement *)
Theorem parse_model_case_same : forall ts ts', case_related ts ts' -> names_agree ts ts' ->
  result_same ci_byte (parse_model ts) (parse_model ts').
Proof.
  intros ts ts' H Hn. pose proof (parse_model_case ts ts' H) as R. unfold names_agree in Hn.
  destruct (parse_model ts) as [[[q rest] es]|p|o|], (parse_model ts') as [[[q' rest'] es']|p'|o'|];
    cbn in R, Hn |- *; try contradiction; try exact R.
  destruct R as [Hq [Hr He]]. repeat split; try assumption.
  eapply stored_names_inj; eassumption.
Qed.

(* EXPLAIN of the first statement of a token list, with p.errors *)
Definition explain_tokens (ts : list item) : res (list line * list err) :=
  bind (parse_model ts) (fun '(q, _, es) => bind (print_model q) (fun ls => Ok (ls, es))).

Lemma result_same_explain : forall brel ts ts', result_same brel (parse_model ts) (parse_model ts') ->
  explain_tokens ts = explain_tokens ts'.
Proof.
  intros brel ts ts' R. unfold explain_tokens.
  destruct (parse_model ts) as [[[q rest] es]|p|o|], (parse_model ts') as [[[q' rest'] es']|p'|o'|];
    cbn in R |- *; try contradiction; try (rewrite R; reflexivity); try reflexivity.
  destruct R as [-> [_ ->]]. reflexivity.
Qed.

(* C05, keyword-case clause, parser + printer of the fragment: *)
Theorem explain_case_insensitive : forall ts ts', case_related ts ts' -> names_agree ts ts' ->
  explain_tokens ts = explain_tokens ts'.
Proof. intros ts ts' H Hn. eapply result_same_explain. apply parse_model_case_same; eassumption. Qed.

(* ------------------------------------------------------------------------------------------ *)
(** * No keyword token is used as a name: a criterion on the token list *)

Definition kw_map (f : N -> N) (it : item) : item :=
  if is_keyword (it_tok it)
  then {| it_tok := it_tok it; it_val := map f (it_val it); it_pos := it_pos it; it_quoted := it_quoted it |}
  else it.

(* all keyword tokens spelled in upper case / in lower case *)
Definition kw_upper (ts : list item) : list item := map (kw_map upper_byte) ts.
Definition kw_lower (ts : list item) : list item := map (kw_map lower_byte) ts.

Definition result_ast (r : result) : res (option query) := bind r (fun '(q, _, _) => Ok q).

(* the parse of the all-upper variant and the parse of the all-lower variant return the same statement:
   no letter of a keyword token's value reaches the AST, i.e. the parse uses no keyword as a name.
   (An equation between two computed values: decided by computation.) *)
Definition kw_blind (ts : list item) : Prop :=
  result_ast (parse_model (kw_upper ts)) = result_ast (parse_model (kw_lower ts)).

Definition up_byte (a b : N) : Prop := b = a \/ b = upper_byte a.
Definition lo_byte (a b : N) : Prop := b = a \/ b = lower_byte a.

Lemma up_refl : forall a, up_byte a a. Proof. left; reflexivity. Qed.
Lemma lo_refl : forall a, lo_byte a a. Proof. left; reflexivity. Qed.

Lemma up_ci : forall a b, up_byte a b -> ci_byte a b.
Proof. unfold up_byte, ci_byte, upper_byte. intros a b [->| ->]; [reflexivity|].
  destruct ((97 <=? a) && (a <=? 122)) eqn:E1; [|rewrite E1; reflexivity].
  destruct ((97 <=? a - 32) && (a - 32 <=? 122)) eqn:E2; lia. Qed.

Lemma lo_ci : forall a b, lo_byte a b -> ci_byte a b.
Proof. unfold lo_byte, ci_byte, upper_byte, lower_byte. intros a b [->| ->]; [reflexivity|].
  destruct ((65 <=? a) && (a <=? 90)) eqn:E1.
  - destruct ((97 <=? a) && (a <=? 122)) eqn:E2, ((97 <=? a + 32) && (a + 32 <=? 122)) eqn:E3; lia.
  - reflexivity. Qed.

Lemma up_lo_eq : forall a b, up_byte a b -> lo_byte a b -> a = b.
Proof. unfold up_byte, lo_byte, upper_byte, lower_byte. intros a b [->| ->] [H|H]; auto.
  destruct ((97 <=? a) && (a <=? 122)) eqn:E1, ((65 <=? a) && (a <=? 90)) eqn:E2; lia. Qed.

Lemma irel_kw_map : forall (brel : N -> N -> Prop) f, (forall a, brel a a) -> (forall a, brel a (f a)) ->
  forall it, irel brel it (kw_map f it).
Proof.
  intros brel f Hr Hf it. unfold kw_map. destruct (is_keyword (it_tok it)) eqn:E.
  - repeat split; cbn; try reflexivity.
    + induction (it_val it); constructor; auto.
    + intros Hk. congruence.
  - repeat split; try reflexivity. apply Forall2_refl. exact Hr.
Qed.

Lemma irel_kw_upper : forall ts, Forall2 (irel up_byte) ts (kw_upper ts).
Proof. induction ts; constructor; [|assumption]. apply irel_kw_map; [exact up_refl|intros; right; reflexivity]. Qed.
Lemma irel_kw_lower : forall ts, Forall2 (irel lo_byte) ts (kw_lower ts).
Proof. induction ts; constructor; [|assumption]. apply irel_kw_map; [exact lo_refl|intros; right; reflexivity]. Qed.

(* the all-upper variants of two related lists differ in positions only *)
Lemma kw_map_case : forall f, (forall a b, ci_byte a b -> f a = f b) ->
  forall a b, case_item a b -> irel eq (kw_map f a) (kw_map f b).
Proof.
  intros f Hf a b [Ht [Hq Hv]]. unfold kw_map. rewrite <- Ht.
  destruct (is_keyword (it_tok a)) eqn:E.
  - assert (Hm : map f (it_val a) = map f (it_val b)).
    { apply (map_rel ci_byte f Hf). apply (map_eq_Forall2 upper_byte). exact Hv. }
    repeat split; cbn; try assumption.
    + rewrite Hm. apply Forall2_refl. reflexivity.
    + intros _. exact Hm.
  - repeat split; try assumption.
    + rewrite Hv. apply Forall2_refl. reflexivity.
    + intros _. exact Hv.
Qed.

Lemma kw_upper_case : forall ts ts', case_related ts ts' -> Forall2 (irel eq) (kw_upper ts) (kw_upper ts').
Proof.
  intros ts ts' H. induction H; constructor; [|assumption].
  apply kw_map_case; [|assumption]. intros x0 y0 Hxy. exact Hxy.
Qed.

Lemma eq_ci : forall a b : N, a = b -> ci_byte a b.
Proof. intros a b ->. reflexivity. Qed.

Lemma case_related_sym : forall ts ts', case_related ts ts' -> case_related ts' ts.
Proof.
  intros ts ts' H. induction H as [|a b l l' [Ht [Hq Hv]] F IH]; constructor; [|assumption].
  repeat split; try (symmetry; assumption). rewrite <- Ht. destruct (is_keyword (it_tok a)); symmetry; assumption.
Qed.

(* under kw_blind the statement is the one the all-upper variant returns *)
Lemma kw_blind_ast : forall ts, kw_blind ts ->
  result_same up_byte (parse_model ts) (parse_model (kw_upper ts)).
Proof.
  intros ts Hb.
  pose proof (parse_model_rel up_byte up_refl up_ci _ _ (irel_kw_upper ts)) as RU.
  pose proof (parse_model_rel lo_byte lo_refl lo_ci _ _ (irel_kw_lower ts)) as RL.
  unfold kw_blind, result_ast in Hb.
  destruct (parse_model ts) as [[[q rest] es]|p|o|],
           (parse_model (kw_upper ts)) as [[[qu restu] esu]|pu|ou|],
           (parse_model (kw_lower ts)) as [[[ql restl] esl]|pl|ol|];
    cbn in RU, RL, Hb |- *; try contradiction; try discriminate; try exact RU.
  inversion Hb; subst. destruct RU as [Hq [Hr He]]. destruct RL as [Hq' _].
  repeat split; try assumption. eapply stmt_two; [exact up_lo_eq|eassumption|eassumption].
Qed.

(* token lists that differ in positions only return the same statement *)
Lemma result_ast_pos : forall a b, Forall2 (irel eq) a b ->
  result_ast (parse_model a) = result_ast (parse_model b).
Proof.
  intros a b F. pose proof (parse_model_rel eq (fun x => eq_refl) eq_ci _ _ F) as R. unfold result_ast.
  destruct (parse_model a) as [[[q rest] es]|p|o|], (parse_model b) as [[[q' rest'] es']|p'|o'|];
    cbn in R |- *; try contradiction; try (rewrite R; reflexivity); try reflexivity.
  destruct R as [Hq _]. f_equal. eapply stmt_two; [intros x y Hxy _; exact Hxy|exact Hq|exact Hq].
Qed.

Lemma kw_lower_case : forall ts ts', case_related ts ts' -> Forall2 (irel eq) (kw_lower ts) (kw_lower ts').
Proof.
  intros ts ts' H. induction H; constructor; [|assumption].
  apply kw_map_case; [|assumption]. exact ci_lower.
Qed.

Lemma kw_blind_case : forall ts ts', case_related ts ts' -> kw_blind ts -> kw_blind ts'.
Proof.
  intros ts ts' H Hb. unfold kw_blind in *.
  rewrite <- (result_ast_pos _ _ (kw_upper_case _ _ H)), <- (result_ast_pos _ _ (kw_lower_case _ _ H)). exact Hb.
Qed.

(* the common case: when the parse uses no keyword token as a name, the two parses return the same
   statement, whatever the letter case of the keyword tokens *)
Theorem parse_model_kw_blind : forall ts ts', case_related ts ts' -> kw_blind ts ->
  result_same ci_byte (parse_model ts) (parse_model ts').
Proof.
  intros ts ts' H Hb.
  pose proof (parse_model_case ts ts' H) as R.
  pose proof (kw_blind_ast ts Hb) as A.
  pose proof (kw_blind_ast ts' (kw_blind_case _ _ H Hb)) as A'.
  pose proof (result_ast_pos _ _ (kw_upper_case _ _ H)) as E. unfold result_ast in E.
  destruct (parse_model ts) as [[[q rest] es]|p|o|],
           (parse_model ts') as [[[q' rest'] es']|p'|o'|];
    cbn in R |- *; try contradiction; try exact R.
  destruct R as [_ [Hr He]]. repeat split; try assumption.
  destruct (parse_model (kw_upper ts)) as [[[qu restu] esu]|pu|ou|]; cbn in A; try contradiction.
  destruct (parse_model (kw_upper ts')) as [[[qu' restu'] esu']|pu'|ou'|]; cbn in A'; try contradiction.
  destruct A as [-> _]. destruct A' as [-> _]. cbn in E. inversion E. reflexivity.
Qed.

Theorem explain_kw_blind : forall ts ts', case_related ts ts' -> kw_blind ts ->
  explain_tokens ts = explain_tokens ts'.
Proof. intros ts ts' H Hb. eapply result_same_explain. apply parse_model_kw_blind; eassumption. Qed.
