(* SELECT core -- the theorems of the fragment layer, over SelectParseModel / SelectPrintModel:

     T1  C17-F2   keywords as names in the three naming positions       (SelectCoreC17.v)
     T2  C01      the parser model and the printer model never panic    (SelectCoreSafe.v)
                  the supplied fuel always suffices                     (SelectCoreFuel.v)
     T3  C03      accepted input yields a usable statement              (SelectCoreSafe.v)

   [parse_model_fuel fuel ts] = one statement from the token list [ts] with recursion fuel [fuel]:
   (statement or None for the nil Statement, remaining tokens, p.errors).  [parse_model] supplies
   [fuel_for ts].  All theorems hold for EVERY fuel, hence for [parse_model]. *)
From Coq Require Import List NArith Bool.
From DC Require Import Base.Item Gen.TokenTable Tree.LineTree.
From DC Require Import Select.SelectParseModel Select.SelectPrintModel.
From DC Require Export Select.SelectCoreC17 Select.SelectCoreSafe Select.SelectCoreFuel.
Import ListNotations.
Local Open Scope N_scope.

(* ------------------------------------------------------------------------------------------ *)
(** * T2 (C01, fragment) *)

(* no token list and no fuel makes the parser model reach a Panic outcome *)
Theorem parse_never_panics : forall fuel ts p, parse_model_fuel fuel ts <> Panic p.
Proof.
  intros fuel ts p H. pose proof (parse_model_fuel_good fuel ts) as G. rewrite H in G. exact G.
Qed.

(* whatever the parser model returns -- with or without errors -- the printer model does not
   reach a Panic outcome on it *)
Theorem print_never_panics : forall fuel ts q rest es p,
  parse_model_fuel fuel ts = Ok (q, rest, es) -> print_model q <> Panic p.
Proof.
  intros fuel ts q rest es p H. pose proof (parse_model_fuel_good fuel ts) as G. rewrite H in G.
  destruct q as [q|]; [|discriminate]. cbn [print_model]. apply print_query_no_panic. exact G.
Qed.

(* the same for a whole script (what the correspondence runs) *)
Theorem script_never_panics : forall ts,
  (forall p, parse_script ts <> Panic p) /\
  (forall qs es p, parse_script ts = Ok (qs, es) -> print_script qs <> Panic p).
Proof.
  intros ts. pose proof (parse_script_good ts) as G. split.
  - intros p H. rewrite H in G. exact G.
  - intros qs es p H. rewrite H in G. apply print_script_no_panic. exact G.
Qed.

(* ------------------------------------------------------------------------------------------ *)
(** * T3 (C03, fragment) *)

(* every Selects member, at any depth, is a real node *)
Definition wf_stmt (q : query) : Prop := wf_query q = true.

(* when the model returns no error: the statement is a real node (not the nil Statement), it is
   well-formed, and the printer model returns non-empty lines that form one well-formed tree *)
Theorem accepted_is_usable : forall fuel ts q rest,
  parse_model_fuel fuel ts = Ok (q, rest, []) ->
  exists stmt lines,
    q = Some stmt /\ wf_stmt stmt /\
    print_model q = Ok lines /\ lines <> [] /\ check_lines lines = true.
Proof.
  intros fuel ts q rest H. pose proof (parse_model_fuel_good fuel ts) as G. rewrite H in G.
  unfold parse_model_fuel in H. apply bind_ok in H. destruct H as [[q0 s'] [Hs H]].
  inversion H; subst. clear H.
  destruct q as [stmt|].
  - assert (Hp : printable_query false stmt = true).
    { unfold parse_statement in Hs. apply bind_ok in Hs. destruct Hs as [[q1 s1] [_ Hc]].
      unfold printer_check in Hc.
      destruct q1 as [q1|]; [|discriminate].
      destruct (is_nil (errs s1) && negb (printable_query false q1)) eqn:E; [discriminate|].
      inversion Hc; subst.
      match goal with He : errs _ = [] |- _ => rewrite He in E end. cbn [is_nil andb] in E.
      destruct (printable_query false stmt); [reflexivity|discriminate]. }
    destruct (print_query_ok stmt G Hp) as [lines [Hl Hne]].
    exists stmt, lines. repeat split; try assumption.
    eapply print_query_check; eassumption.
  - exfalso. eapply stmt_none_has_error; eauto.
Qed.

(* ------------------------------------------------------------------------------------------ *)
(** * From source bytes: lexer model, parser model, printer model *)

(* SQL text -> EXPLAIN text of its first statement (with the unconsumed tokens and p.errors);
   None when the lexer model runs out of fuel (excluded by C12) *)
Definition explain_source (src : list N) : option (res (list N * list item * list err)) :=
  match LexerModel.tokenize src with
  | Some its =>
      Some (bind (run (parser_tokens its)) (fun '(ls, rest, es) => Ok (print_lines ls, rest, es)))
  | None => None
  end.
