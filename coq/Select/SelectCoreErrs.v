(* C07, fragment layer -- p.errors only grows.

   [pers r]: when the result is Ok, the state it carries has a non-empty error list.  Every function
   of the parser model maps a state with errors to a [pers] result: the model appends to p.errors
   (expect, the default branch of parseStatementByKeyword) and never removes an entry.

   Used by Select/SelectCoreClose.v: a run that ends without error never had one, so the two-run
   simulation only has to follow the error-free prefix of the short run (after the first error of
   the short run nothing is claimed, and this file shows that such a run cannot end error-free). *)
From Coq Require Import List NArith Arith Bool String.
From DC Require Import Base.Item Gen.TokenTable.
From DC Require Import Select.SelectParseModel.
Import ListNotations.
Local Open Scope N_scope.

Definition pers {X} (r : res (X * st)) : Prop :=
  match r with
  | Ok (_, s) => errs s <> []
  | _ => True
  end.

Lemma pers_bind {X Y} (r : res (X * st)) (k : X * st -> res (Y * st)) :
  pers r -> (forall x s, errs s <> [] -> pers (k (x, s))) -> pers (bind r k).
Proof. destruct r as [[x s]|p|o|]; cbn; intros Hr Hk; auto. Qed.

(* a bind over a result that carries no state *)
Lemma pers_bind_nf {X Y} (r : res X) (k : X -> res (Y * st)) :
  (forall x, pers (k x)) -> pers (bind r k).
Proof. destruct r as [x|p|o|]; cbn; intros Hk; auto. Qed.

Lemma snoc_not_nil : forall (l : list err) e, l ++ [e] <> [].
Proof. intros l e H. apply app_eq_nil in H. destruct H. discriminate. Qed.

Lemma expect_pers : forall t s b s', expect t s = (b, s') -> errs s <> [] -> errs s' <> [].
Proof.
  intros t s b s' H Hs. unfold expect in H. destruct (cur_is s t); inversion H; subst; cbn [errs next add_err].
  - exact Hs.
  - apply snoc_not_nil.
Qed.

Lemma parse_identifier_name_pers : forall s n s', parse_identifier_name s = (n, s') -> errs s <> [] -> errs s' <> [].
Proof.
  intros s n s' H Hs. unfold parse_identifier_name in H.
  repeat match type of H with
         | (if ?c then _ else _) = _ => destruct c
         end; inversion H; subst; cbn [errs next]; exact Hs.
Qed.

Lemma union_mode_pers : forall s m b s', union_mode s = (m, b, s') -> errs s <> [] -> errs s' <> [].
Proof.
  intros s m b s' H Hs. unfold union_mode in H.
  repeat match type of H with
         | (if ?c then _ else _) = _ => destruct c
         end; inversion H; subst; cbn [errs next]; exact Hs.
Qed.

Ltac errs_solve :=
  cbn [errs next add_err toks];
  repeat match goal with
         | |- errs (if ?c then _ else _) <> [] => destruct c; cbn [errs next add_err toks]
         end;
  first [assumption | apply snoc_not_nil].

(* the innermost scrutinee *)
Ltac phead t :=
  lazymatch t with
  | (if ?c then _ else _) => phead c
  | (match ?x with _ => _ end) => phead x
  | _ => t
  end.

Ltac pers_call := fail.
Ltac pers_hyp :=
  match goal with
  | H : context[pers] |- pers _ => eapply H; solve [errs_solve]
  end.

Ltac is_st_res r :=
  let t := type of r in
  let t' := eval cbv delta [R] beta in t in
  lazymatch t' with res (_ * st) => idtac end.

Ltac pers_step :=
  cbv beta zeta;
  lazymatch goal with
  | |- pers (Ok (_, _)) => unfold pers; errs_solve
  | |- pers (ret _ _) => unfold ret, pers; errs_solve
  | |- pers (OutOfFragment _) => exact I
  | |- pers OutOfFuel => exact I
  | |- pers (Panic _) => exact I
  | |- pers (bind ?r _) =>
      tryif is_st_res r
      then (apply pers_bind; [|let x := fresh "x" in let s := fresh "s" in let Hs := fresh "Hs" in
                               intros x s Hs; repeat match goal with y : (_ * _)%type |- _ => destruct y end])
      else (apply pers_bind_nf; let x := fresh "x" in intros x)
  | |- pers ?a =>
      let h := phead a in
      lazymatch h with
      | expect _ _ => let E := fresh "E" in destruct h as [? ?] eqn:E; apply expect_pers in E; [|errs_solve]
      | parse_identifier_name _ =>
          let E := fresh "E" in destruct h as [? ?] eqn:E; apply parse_identifier_name_pers in E; [|errs_solve]
      | union_mode _ =>
          let E := fresh "E" in destruct h as [[? ?] ?] eqn:E; apply union_mode_pers in E; [|errs_solve]
      | _ =>
        tryif constr_eq h a
        then first [pers_hyp | pers_call]
        else destruct h eqn:?
      end
  end.

Ltac pers_auto := repeat pers_step.

Notation PEpers pe := (forall prec s, errs s <> [] -> pers (pe prec s)).
Notation PSUpers psu := (forall s, errs s <> [] -> pers (psu s)).

Lemma parse_alias_pers : forall left s, errs s <> [] -> pers (parse_alias left s).
Proof. intros left s Hs. unfold parse_alias, set_alias. pers_auto. Qed.

Lemma parse_implicit_alias_pers : forall e s, errs s <> [] -> pers (parse_implicit_alias e s).
Proof. intros e s Hs. unfold parse_implicit_alias, set_alias. pers_auto. Qed.

Ltac pers_call ::=
  first [ eapply parse_alias_pers; solve [errs_solve]
        | eapply parse_implicit_alias_pers; solve [errs_solve] ].

Lemma expr_list_loop_pers : forall pe, PEpers pe ->
  forall fuel acc s, errs s <> [] -> pers (expr_list_loop pe fuel acc s).
Proof.
  intros pe Hpe. induction fuel as [|f IH]; intros acc s Hs; [exact I|].
  cbn [expr_list_loop]. pers_auto.
Qed.

Lemma parse_expression_list_pers : forall pe, PEpers pe ->
  forall fuel s, errs s <> [] -> pers (parse_expression_list pe fuel s).
Proof.
  intros pe Hpe fuel s Hs. unfold parse_expression_list. pers_auto.
  eapply expr_list_loop_pers; [exact Hpe|errs_solve].
Qed.

Lemma arg_list_loop_pers : forall pe, PEpers pe ->
  forall fuel acc s, errs s <> [] -> pers (arg_list_loop pe fuel acc s).
Proof.
  intros pe Hpe. induction fuel as [|f IH]; intros acc s Hs; [exact I|].
  cbn [arg_list_loop]. pers_auto.
Qed.

Lemma parse_function_argument_list_pers : forall pe, PEpers pe ->
  forall fuel s, errs s <> [] -> pers (parse_function_argument_list pe fuel s).
Proof.
  intros pe Hpe fuel s Hs. unfold parse_function_argument_list. pers_auto.
  eapply arg_list_loop_pers; [exact Hpe|errs_solve].
Qed.

Ltac pers_call ::=
  first [ eapply parse_alias_pers; solve [errs_solve]
        | eapply parse_implicit_alias_pers; solve [errs_solve]
        | eapply expr_list_loop_pers; [eassumption|solve [errs_solve]]
        | eapply arg_list_loop_pers; [eassumption|solve [errs_solve]]
        | eapply parse_expression_list_pers; [eassumption|solve [errs_solve]]
        | eapply parse_function_argument_list_pers; [eassumption|solve [errs_solve]] ].

Lemma parse_function_call_pers : forall pe, PEpers pe ->
  forall fuel name s, errs s <> [] -> pers (parse_function_call pe fuel name s).
Proof. intros pe Hpe fuel name s Hs. unfold parse_function_call. pers_auto. Qed.

Ltac pers_call ::=
  first [ eapply parse_alias_pers; solve [errs_solve]
        | eapply parse_implicit_alias_pers; solve [errs_solve]
        | eapply expr_list_loop_pers; [eassumption|solve [errs_solve]]
        | eapply arg_list_loop_pers; [eassumption|solve [errs_solve]]
        | eapply parse_expression_list_pers; [eassumption|solve [errs_solve]]
        | eapply parse_function_argument_list_pers; [eassumption|solve [errs_solve]]
        | eapply parse_function_call_pers; [eassumption|solve [errs_solve]] ].

Lemma parse_identifier_or_function_pers : forall pe, PEpers pe ->
  forall fuel s, errs s <> [] -> pers (parse_identifier_or_function pe fuel s).
Proof. intros pe Hpe fuel s Hs. unfold parse_identifier_or_function. pers_auto. Qed.

Lemma parse_keyword_as_identifier_pers : forall s, errs s <> [] -> pers (parse_keyword_as_identifier s).
Proof. intros s Hs. unfold parse_keyword_as_identifier. pers_auto. Qed.

Lemma parse_keyword_as_function_pers : forall pe, PEpers pe ->
  forall fuel s, errs s <> [] -> pers (parse_keyword_as_function pe fuel s).
Proof. intros pe Hpe fuel s Hs. unfold parse_keyword_as_function. pers_auto. Qed.

Lemma parse_number_pers : forall s, errs s <> [] -> pers (parse_number s).
Proof. intros s Hs. unfold parse_number. pers_auto. Qed.

Lemma parse_unary_minus_pers : forall pe, PEpers pe -> forall s, errs s <> [] -> pers (parse_unary_minus pe s).
Proof. intros pe Hpe s Hs. unfold parse_unary_minus. pers_auto. Qed.

Lemma parse_unary_plus_pers : forall pe, PEpers pe -> forall s, errs s <> [] -> pers (parse_unary_plus pe s).
Proof. intros pe Hpe s Hs. unfold parse_unary_plus. pers_auto. Qed.

Lemma parse_not_pers : forall pe, PEpers pe -> forall s, errs s <> [] -> pers (parse_not pe s).
Proof. intros pe Hpe s Hs. unfold parse_not. pers_auto. Qed.

Lemma parse_grouped_or_tuple_pers : forall pe psu, PEpers pe -> PSUpers psu ->
  forall s, errs s <> [] -> pers (parse_grouped_or_tuple pe psu s).
Proof. intros pe psu Hpe Hpsu s Hs. unfold parse_grouped_or_tuple. pers_auto. Qed.

Ltac pers_call ::=
  first [ eapply parse_alias_pers; solve [errs_solve]
        | eapply parse_implicit_alias_pers; solve [errs_solve]
        | eapply parse_keyword_as_identifier_pers; solve [errs_solve]
        | eapply parse_number_pers; solve [errs_solve]
        | eapply expr_list_loop_pers; [eassumption|solve [errs_solve]]
        | eapply arg_list_loop_pers; [eassumption|solve [errs_solve]]
        | eapply parse_expression_list_pers; [eassumption|solve [errs_solve]]
        | eapply parse_function_argument_list_pers; [eassumption|solve [errs_solve]]
        | eapply parse_function_call_pers; [eassumption|solve [errs_solve]]
        | eapply parse_identifier_or_function_pers; [eassumption|solve [errs_solve]]
        | eapply parse_keyword_as_function_pers; [eassumption|solve [errs_solve]]
        | eapply parse_unary_minus_pers; [eassumption|solve [errs_solve]]
        | eapply parse_unary_plus_pers; [eassumption|solve [errs_solve]]
        | eapply parse_not_pers; [eassumption|solve [errs_solve]]
        | eapply parse_grouped_or_tuple_pers; [eassumption|eassumption|solve [errs_solve]] ].

Lemma parse_prefix_pers : forall pe psu, PEpers pe -> PSUpers psu ->
  forall fuel s, errs s <> [] -> pers (parse_prefix pe psu fuel s).
Proof. intros pe psu Hpe Hpsu fuel s Hs. unfold parse_prefix. pers_auto. Qed.

Lemma parse_binary_pers : forall pe, PEpers pe ->
  forall left s, errs s <> [] -> pers (parse_binary pe left s).
Proof. intros pe Hpe left s Hs. unfold parse_binary. pers_auto. Qed.

Lemma parse_dot_access_pers : forall pe, PEpers pe ->
  forall fuel left s, errs s <> [] -> pers (parse_dot_access pe fuel left s).
Proof. intros pe Hpe fuel left s Hs. unfold parse_dot_access. pers_auto. Qed.

Ltac pers_call ::=
  first [ eapply parse_alias_pers; solve [errs_solve]
        | eapply parse_implicit_alias_pers; solve [errs_solve]
        | eapply parse_keyword_as_identifier_pers; solve [errs_solve]
        | eapply parse_number_pers; solve [errs_solve]
        | eapply expr_list_loop_pers; [eassumption|solve [errs_solve]]
        | eapply arg_list_loop_pers; [eassumption|solve [errs_solve]]
        | eapply parse_expression_list_pers; [eassumption|solve [errs_solve]]
        | eapply parse_function_argument_list_pers; [eassumption|solve [errs_solve]]
        | eapply parse_function_call_pers; [eassumption|solve [errs_solve]]
        | eapply parse_identifier_or_function_pers; [eassumption|solve [errs_solve]]
        | eapply parse_keyword_as_function_pers; [eassumption|solve [errs_solve]]
        | eapply parse_unary_minus_pers; [eassumption|solve [errs_solve]]
        | eapply parse_unary_plus_pers; [eassumption|solve [errs_solve]]
        | eapply parse_not_pers; [eassumption|solve [errs_solve]]
        | eapply parse_grouped_or_tuple_pers; [eassumption|eassumption|solve [errs_solve]]
        | eapply parse_prefix_pers; [eassumption|eassumption|solve [errs_solve]]
        | eapply parse_binary_pers; [eassumption|solve [errs_solve]]
        | eapply parse_dot_access_pers; [eassumption|solve [errs_solve]] ].

Lemma parse_infix_pers : forall pe, PEpers pe ->
  forall fuel left s, errs s <> [] -> pers (parse_infix pe fuel left s).
Proof. intros pe Hpe fuel left s Hs. unfold parse_infix. pers_auto. Qed.

Lemma order_by_loop_pers : forall pe, PEpers pe ->
  forall fuel acc s, errs s <> [] -> pers (order_by_loop pe fuel acc s).
Proof.
  intros pe Hpe. induction fuel as [|f IH]; intros acc s Hs; [exact I|].
  cbn [order_by_loop]. pers_auto.
Qed.

Lemma parse_table_expression_pers : forall psu, PSUpers psu ->
  forall s, errs s <> [] -> pers (parse_table_expression psu s).
Proof. intros psu Hpsu s Hs. unfold parse_table_expression, is_keyword_for_clause. pers_auto. Qed.

Ltac pers_call ::=
  first [ eapply parse_alias_pers; solve [errs_solve]
        | eapply parse_implicit_alias_pers; solve [errs_solve]
        | eapply parse_keyword_as_identifier_pers; solve [errs_solve]
        | eapply parse_number_pers; solve [errs_solve]
        | eapply expr_list_loop_pers; [eassumption|solve [errs_solve]]
        | eapply arg_list_loop_pers; [eassumption|solve [errs_solve]]
        | eapply parse_expression_list_pers; [eassumption|solve [errs_solve]]
        | eapply parse_function_argument_list_pers; [eassumption|solve [errs_solve]]
        | eapply parse_function_call_pers; [eassumption|solve [errs_solve]]
        | eapply parse_identifier_or_function_pers; [eassumption|solve [errs_solve]]
        | eapply parse_keyword_as_function_pers; [eassumption|solve [errs_solve]]
        | eapply parse_unary_minus_pers; [eassumption|solve [errs_solve]]
        | eapply parse_unary_plus_pers; [eassumption|solve [errs_solve]]
        | eapply parse_not_pers; [eassumption|solve [errs_solve]]
        | eapply parse_grouped_or_tuple_pers; [eassumption|eassumption|solve [errs_solve]]
        | eapply parse_prefix_pers; [eassumption|eassumption|solve [errs_solve]]
        | eapply parse_binary_pers; [eassumption|solve [errs_solve]]
        | eapply parse_dot_access_pers; [eassumption|solve [errs_solve]]
        | eapply parse_infix_pers; [eassumption|solve [errs_solve]]
        | eapply order_by_loop_pers; [eassumption|solve [errs_solve]]
        | eapply parse_table_expression_pers; [eassumption|solve [errs_solve]] ].

Lemma parse_tables_in_select_pers : forall psu, PSUpers psu ->
  forall s, errs s <> [] -> pers (parse_tables_in_select psu s).
Proof. intros psu Hpsu s Hs. unfold parse_tables_in_select. pers_auto. Qed.

Ltac pers_call ::=
  first [ eapply parse_alias_pers; solve [errs_solve]
        | eapply parse_implicit_alias_pers; solve [errs_solve]
        | eapply parse_keyword_as_identifier_pers; solve [errs_solve]
        | eapply parse_number_pers; solve [errs_solve]
        | eapply expr_list_loop_pers; [eassumption|solve [errs_solve]]
        | eapply arg_list_loop_pers; [eassumption|solve [errs_solve]]
        | eapply parse_expression_list_pers; [eassumption|solve [errs_solve]]
        | eapply parse_function_argument_list_pers; [eassumption|solve [errs_solve]]
        | eapply parse_function_call_pers; [eassumption|solve [errs_solve]]
        | eapply parse_identifier_or_function_pers; [eassumption|solve [errs_solve]]
        | eapply parse_keyword_as_function_pers; [eassumption|solve [errs_solve]]
        | eapply parse_unary_minus_pers; [eassumption|solve [errs_solve]]
        | eapply parse_unary_plus_pers; [eassumption|solve [errs_solve]]
        | eapply parse_not_pers; [eassumption|solve [errs_solve]]
        | eapply parse_grouped_or_tuple_pers; [eassumption|eassumption|solve [errs_solve]]
        | eapply parse_prefix_pers; [eassumption|eassumption|solve [errs_solve]]
        | eapply parse_binary_pers; [eassumption|solve [errs_solve]]
        | eapply parse_dot_access_pers; [eassumption|solve [errs_solve]]
        | eapply parse_infix_pers; [eassumption|solve [errs_solve]]
        | eapply order_by_loop_pers; [eassumption|solve [errs_solve]]
        | eapply parse_table_expression_pers; [eassumption|solve [errs_solve]]
        | eapply parse_tables_in_select_pers; [eassumption|solve [errs_solve]] ].

Lemma core_pers : forall f,
  (forall prec s, errs s <> [] -> pers (parse_expr f prec s)) /\
  (forall prec left s, errs s <> [] -> pers (pratt_loop f prec left s)) /\
  (forall s, errs s <> [] -> pers (parse_select f s)) /\
  (forall prefix sels modes all s, errs s <> [] -> pers (union_loop f prefix sels modes all s)) /\
  (forall s, errs s <> [] -> pers (parse_select_with_union f s)).
Proof.
  induction f as [|f IH].
  - repeat split; intros; exact I.
  - destruct IH as (IHe & IHp & IHs & IHu & IHq). repeat split.
    + intros prec s Hs. cbn [parse_expr]. pers_auto.
    + intros prec left s Hs. cbn [pratt_loop]. pers_auto.
    + intros s Hs. cbn [parse_select]. pers_auto.
    + intros prefix sels modes all s Hs. cbn [union_loop]. pers_auto.
    + intros s Hs. cbn [parse_select_with_union]. pers_auto.
Qed.

Lemma parse_expr_pers : forall f prec s, errs s <> [] -> pers (parse_expr f prec s).
Proof. intros f. exact (proj1 (core_pers f)). Qed.
Lemma pratt_loop_pers : forall f prec left s, errs s <> [] -> pers (pratt_loop f prec left s).
Proof. intros f. exact (proj1 (proj2 (core_pers f))). Qed.
Lemma parse_select_pers : forall f s, errs s <> [] -> pers (parse_select f s).
Proof. intros f. exact (proj1 (proj2 (proj2 (core_pers f)))). Qed.
Lemma union_loop_pers : forall f prefix sels modes all s,
  errs s <> [] -> pers (union_loop f prefix sels modes all s).
Proof. intros f. exact (proj1 (proj2 (proj2 (proj2 (core_pers f))))). Qed.
Lemma parse_select_with_union_pers : forall f s, errs s <> [] -> pers (parse_select_with_union f s).
Proof. intros f. exact (proj2 (proj2 (proj2 (proj2 (core_pers f))))). Qed.

(* a run of parseSelectWithUnion that ends without error started without error *)
Theorem parse_select_with_union_errs_mono : forall f s x s',
  parse_select_with_union f s = Ok (x, s') -> errs s' = [] -> errs s = [].
Proof.
  intros f s x s' H He. destruct (errs s) as [|e es] eqn:E; [reflexivity|exfalso].
  pose proof (parse_select_with_union_pers f s) as P. rewrite H in P. cbn [pers] in P.
  apply P; [rewrite E; discriminate|exact He].
Qed.
