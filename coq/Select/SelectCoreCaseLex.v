(* C05, fragment layer -- composition of the lexer half (Lexer/LexerLayout*.v, over the lexer model)
   with the parser/printer half (SelectCoreCase.v, over the SELECT-core models): two source texts with
   the same token signature have the same EXPLAIN text.

     lex_sig_raw x = lex_sig_raw y   (same tokens up to positions and comments: whitespace / comment changes)
        ==> explain_first x = explain_first y                                   [explain_layout]
     lex_sig x = lex_sig y           (... and up to the letter case of keyword-token values)
        ==> explain_first x = explain_first y
            provided the parse uses no keyword token as a name  (src_kw_blind x) [explain_layout_case]
            or, more generally, the two parses store the same names (src_names_agree x y).

   [explain_first src] = the EXPLAIN text (bytes) of the first statement of [src], with p.errors:
   LexerModel.tokenize, SelectPrintModel.parser_tokens (WHITESPACE / LINE_COMMENT / EOF items dropped:
   what the parser's nextToken skips), SelectParseModel.parse_model, SelectPrintModel.print_model,
   LineTree.print_lines.

   The `::` exception of C05 (the interior of an array/tuple literal that is the operand of a `::` cast
   keeps its source text): the fragment has NO cast -- parse_infix answers OutOfFragment OofInfixToken
   at a `::` token, parse_unary_minus OutOfFragment OofMinusCast at `-1::T`, a `[` is OofPrefixSpecial /
   OofInfixToken, a tuple OofTuple -- so the exception is outside the fragment and the fragment
   theorems need no exception clause ([cast_outside_fragment]).  Leading / trailing semicolons are the
   driver's business (Properties/C06_driver.v, C05_driver_semicolons), not parse_model's. *)
From Coq Require Import List NArith Arith Bool String.
From DC Require Import Base.Item Gen.TokenTable Tree.LineTree.
From DC Require Import Lexer.LexerModel Lexer.LexerLayoutSpec Lexer.LexerLayout.
From DC Require Import Select.SelectParseModel Select.SelectPrintModel Select.SelectAstRel Select.SelectCoreCase.
Import ListNotations.
Local Open Scope N_scope.

(* ------------------------------------------------------------------------------------------ *)
(** * From signatures to related parser tokens *)

Lemma filter_map_comm {A C} (f : A -> C) (p : C -> bool) : forall l,
  filter p (map f l) = map f (filter (fun x => p (f x)) l).
Proof. induction l as [|a l IH]; [reflexivity|]. cbn [map filter]. destruct (p (f a)); cbn [map]; rewrite IH; reflexivity. Qed.

Lemma filter_and {A} (p q : A -> bool) : forall l, filter (fun x => p x && q x) l = filter p (filter q l).
Proof.
  induction l as [|a l IH]; [reflexivity|]. cbn [filter]. destruct (q a); cbn [filter]; rewrite ?andb_true_r, ?andb_false_r.
  - destruct (p a); rewrite IH; reflexivity.
  - exact IH.
Qed.

Lemma Forall2_filter {A} (R : A -> A -> Prop) (p : A -> bool) :
  (forall a b, R a b -> p a = p b) -> forall l l', Forall2 R l l' -> Forall2 R (filter p l) (filter p l').
Proof.
  intros Hp l l' F. induction F as [|a b l l' Hab F IH]; [constructor|].
  cbn [filter]. rewrite <- (Hp _ _ Hab). destruct (p a); [constructor|]; assumption.
Qed.

Definition nc (it : item) : bool := negb (it_tok it =? T_LINE_COMMENT).
Definition p2 (it : item) : bool := negb ((it_tok it =? T_EOF) || (it_tok it =? T_WHITESPACE)).

Lemma parser_tokens_split : forall its, parser_tokens its = filter p2 (filter nc its).
Proof.
  intros its. rewrite <- filter_and. unfold parser_tokens. apply filter_ext. intros it. unfold p2, nc.
  destruct (it_tok it =? T_EOF), (it_tok it =? T_WHITESPACE), (it_tok it =? T_LINE_COMMENT); reflexivity.
Qed.

Lemma sig_raw_eq : forall its, sig_raw its = map sig_item (filter nc its).
Proof. intros its. unfold sig_raw. rewrite filter_map_comm. reflexivity. Qed.

Lemma is_keyword_same : forall t, LexerModel.is_keyword t = SelectParseModel.is_keyword t.
Proof. reflexivity. Qed.

Lemma ascii_upper_same : forall v, map ascii_upper v = to_upper v.
Proof. reflexivity. Qed.

Lemma norm_sig_case_item : forall a b, norm_sig (sig_item a) = norm_sig (sig_item b) -> case_item a b.
Proof.
  intros a b H. unfold norm_sig, sig_item in H. inversion H as [[Ht Hv Hq]]. clear H.
  repeat split; try assumption. rewrite !is_keyword_same in Hv.
  destruct (SelectParseModel.is_keyword (it_tok a)); exact Hv.
Qed.

Lemma sig_item_irel_eq : forall a b, sig_item a = sig_item b -> irel eq a b.
Proof.
  intros a b H. unfold sig_item in H. inversion H as [[Ht Hv Hq]].
  repeat split; try assumption; [|intros _; exact Hv]. rewrite Hv. apply Forall2_refl. reflexivity.
Qed.

(* equal signatures: the token lists the parser sees are case-related *)
Theorem sig_of_case_related : forall its its', sig_of its = sig_of its' ->
  case_related (parser_tokens its) (parser_tokens its').
Proof.
  intros its its' H. unfold sig_of in H. rewrite !sig_raw_eq, !map_map in H.
  apply map_eq_Forall2 in H. rewrite !parser_tokens_split. unfold case_related.
  apply Forall2_filter.
  - intros a b [Ht _]. unfold p2. rewrite Ht. reflexivity.
  - eapply Forall2_impl; [|exact H]. exact norm_sig_case_item.
Qed.

(* equal raw signatures: they differ in positions only *)
Theorem sig_raw_pos_related : forall its its', sig_raw its = sig_raw its' ->
  Forall2 (irel eq) (parser_tokens its) (parser_tokens its').
Proof.
  intros its its' H. rewrite !sig_raw_eq in H. apply map_eq_Forall2 in H. rewrite !parser_tokens_split.
  apply Forall2_filter.
  - intros a b [Ht _]. unfold p2. rewrite Ht. reflexivity.
  - eapply Forall2_impl; [|exact H]. exact sig_item_irel_eq.
Qed.

(* ------------------------------------------------------------------------------------------ *)
(** * Source text -> EXPLAIN text *)

(* the EXPLAIN text of the first statement of [src] and p.errors; None: the lexer model ran out of
   fuel (excluded by C12) *)
Definition explain_first (src : list N) : option (res (list N * list err)) :=
  match tokenize src with
  | Some its => Some (bind (explain_tokens (parser_tokens its)) (fun '(ls, es) => Ok (print_lines ls, es)))
  | None => None
  end.

(* the parse of [src] uses no keyword token as a name *)
Definition src_kw_blind (src : list N) : Prop :=
  match tokenize src with Some its => kw_blind (parser_tokens its) | None => True end.

(* the parses of [x] and [y] store the same names *)
Definition src_names_agree (x y : list N) : Prop :=
  match tokenize x, tokenize y with
  | Some its, Some its' => names_agree (parser_tokens its) (parser_tokens its')
  | _, _ => True
  end.

Lemma parse_model_pos : forall a b, Forall2 (irel eq) a b -> result_same eq (parse_model a) (parse_model b).
Proof.
  intros a b F. pose proof (parse_model_rel eq (fun x => eq_refl) eq_ci _ _ F) as R.
  destruct (parse_model a) as [[[q rest] es]|p|o|], (parse_model b) as [[[q' rest'] es']|p'|o'|];
    cbn in R |- *; try contradiction; try exact R.
  destruct R as [Hq [Hr He]]. repeat split; try assumption.
  eapply stmt_two; [intros x y Hxy _; exact Hxy|exact Hq|exact Hq].
Qed.

(* layout only: whitespace and comments *)
Theorem explain_layout : forall x y, lex_sig_raw x = lex_sig_raw y -> explain_first x = explain_first y.
Proof.
  intros x y H. unfold lex_sig_raw, explain_first in *.
  destruct (tokenize x) as [its|], (tokenize y) as [its'|]; cbn [option_map] in H; try discriminate; [|reflexivity].
  inversion H as [H']. f_equal. f_equal.
  eapply result_same_explain. apply parse_model_pos. apply sig_raw_pos_related. exact H'.
Qed.

(* layout and keyword case, when the two parses store the same names *)
Theorem explain_layout_case_names : forall x y, lex_sig x = lex_sig y -> src_names_agree x y ->
  explain_first x = explain_first y.
Proof.
  intros x y H Hn. unfold lex_sig, explain_first, src_names_agree in *.
  destruct (tokenize x) as [its|], (tokenize y) as [its'|]; cbn [option_map] in H; try discriminate; [|reflexivity].
  inversion H as [H']. f_equal. f_equal.
  apply explain_case_insensitive; [apply sig_of_case_related; exact H'|exact Hn].
Qed.

(* layout and keyword case, when no keyword token is used as a name *)
Theorem explain_layout_case : forall x y, lex_sig x = lex_sig y -> src_kw_blind x ->
  explain_first x = explain_first y.
Proof.
  intros x y H Hb. unfold lex_sig, explain_first, src_kw_blind in *.
  destruct (tokenize x) as [its|], (tokenize y) as [its'|]; cbn [option_map] in H; try discriminate; [|reflexivity].
  inversion H as [H']. f_equal. f_equal.
  apply explain_kw_blind; [apply sig_of_case_related; exact H'|exact Hb].
Qed.

(* ------------------------------------------------------------------------------------------ *)
(** * With the lexer theorems plugged in *)

(* replacing a separator (whitespace / comments, either may be empty) between a and b *)
Theorem explain_separator : forall a w w' b : list N, is_sep w -> is_sep w' ->
  boundary_ok a (w ++ b) (w' ++ b) = true ->
  explain_first (a ++ w ++ b) = explain_first (a ++ w' ++ b).
Proof. intros a w w' b Hw Hw' Hb. apply explain_layout. apply F1_general; assumption. Qed.

(* two layouts (LexerLayoutSpec.lays: covered token spellings and separators) of token sequences that
   agree up to the letter case of keyword tokens *)
Theorem explain_covered : forall x y s s', lays x s -> lays y s' -> map norm_sig s = map norm_sig s' ->
  src_kw_blind x -> explain_first x = explain_first y.
Proof. intros x y s s' Hx Hy Hs Hb. apply explain_layout_case; [|exact Hb]. eapply F12_covered; eassumption. Qed.

(* ------------------------------------------------------------------------------------------ *)
(** * The `::` exception lies outside the fragment *)

Theorem cast_outside_fragment : forall pe fuel left s,
  cur_tok s = T_COLONCOLON -> parse_infix pe fuel left s = OutOfFragment OofInfixToken.
Proof. intros pe fuel left s H. unfold parse_infix. rewrite H. reflexivity. Qed.
