(* C07, fragment layer, parser half -- a query embedded in parentheses parses to the same AST as on
   its own (SELECT-core model, Select/SelectParseModel.v).

   From the two-run simulation of Select/SelectCoreClose.v (the query parser stops at a closing
   parenthesis exactly as at the end of input):

     (0) [query_then_rparen_partial]   parseSelectWithUnion on  q ++ ) ...  returns the query of q and
                                       stands on the parenthesis.
     (a) [table_subquery_position_partial]   parseTableExpression on  ( q ) post : the Subquery node
         with exactly that query, then alias / FINAL / SAMPLE handling on post ([table_tail]).
     (b) [scalar_subquery_position_partial] / [scalar_subquery_expression_partial]   the subquery
         branch of parseGroupedOrTuple, and parseExpression going on with the Pratt loop on post.
     (c) [paren_statement_partial] / [paren_statement_same_partial]   parseParenthesizedSelect:
         ( q )  at statement level is parsed to the SAME SelectWithUnionQuery value (same Selects,
         UnionModes, UnionAll; no wrapper), whatever follows that is not UNION / EXCEPT / INTERSECT /
         FORMAT / SETTINGS.
     whole statements, for every accepted q, by symbolic execution of the model around the hole
     ([ctx_run]; the context tokens are given by kind and, where the parser reads it, value):
         SELECT * FROM ( q )                     [ctx_from_partial]
         SELECT * FROM ( q ) AS <alias>          [ctx_from_as_partial]
         SELECT * FROM ( q ) AS s WHERE s.a > 0  [ctx_from_where_partial]
         SELECT ( q )                            [ctx_scalar_partial]
         SELECT ( q ) AS <alias>                 [ctx_scalar_as_partial]
         SELECT * FROM t WHERE a = ( q )         [ctx_where_eq_partial]

   "accepted": [accepted_query q Q] := q starts with SELECT and parse_model q = Ok (Some Q, [], []).
   (A q starting with "(" is parsed by parseParenthesizedSelect at statement level and by
   parseSelectWithUnion in a subquery -- different functions; the property speaks of queries that
   start with SELECT or WITH, and WITH is outside the fragment.)

   Side condition [nt q] (SelectCoreClose): q does not end with a comma followed by WHERE / GROUP /
   HAVING / ORDER / LIMIT / INTO / SETTINGS / FORMAT.  It cannot be dropped ([*_refuted]):
   isClauseKeyword answers differently before ")" and before EOF, so
       SELECT a, limit          one column        (also: , where   , having)
       ( SELECT a, limit )      two columns
   on the model and on the Go code alike (replayed: parser.Parse + parser.Explain). *)
From Coq Require Import List NArith Arith Bool String Lia ZifyN ZifyNat ZifyBool.
From DC Require Import Base.Item Gen.TokenTable.
From DC Require Import Select.SelectParseModel Select.SelectCoreFuel Select.SelectCoreSafe Select.SelectCoreClose.
Import ListNotations.
Local Open Scope N_scope.

(* ------------------------------------------------------------------------------------------ *)
(** * A query accepted on its own *)

(* [q] starts with SELECT and the statement parser accepts it alone: completely, without error,
   as the query [Q] (WITH-first queries are outside the fragment: OofWith) *)
Definition accepted_query (q : list item) (Q : query) : Prop :=
  tok_at q = T_SELECT /\ parse_model q = Ok (Some Q, [], []).

Lemma accepted_psu : forall q Q, accepted_query q Q ->
  parse_select_with_union (fuel_for q) (mkSt q []) = Ok (Some Q, mkSt [] []) /\
  printable_query false Q = true.
Proof.
  intros q Q [Hs H]. unfold parse_model, parse_model_fuel, parse_statement, parse_statement_raw in H.
  cbv beta zeta delta [cur_tok toks] in H. cbn iota in H. rewrite Hs in H.
  change (T_SELECT =? T_SELECT) with true in H. cbn iota in H.
  destruct (parse_select_with_union (fuel_for q) (mkSt q [])) as [[q0 s1]|p|o|] eqn:Hr; cbn [bind] in H;
    try discriminate H.
  unfold printer_check in H. destruct q0 as [q'|]; cbn [bind] in H.
  - destruct (is_nil (errs s1) && negb (printable_query false q')) eqn:E; cbn [bind] in H; [discriminate H|].
    inversion H; subst. destruct s1 as [l e]. cbn [toks errs] in *. subst. split; [reflexivity|].
    cbn [is_nil andb] in E. destruct (printable_query false Q); [reflexivity|discriminate E].
  - inversion H.
Qed.

Lemma accepted_unique : forall q Q Q', accepted_query q Q -> accepted_query q Q' -> Q = Q'.
Proof. intros q Q Q' [_ H] [_ H']. rewrite H in H'. inversion H'. reflexivity. Qed.

Lemma accepted_cons : forall q Q, accepted_query q Q -> exists qh qt, q = qh :: qt /\ it_tok qh = T_SELECT.
Proof.
  intros [|qh qt] Q [Hs _]; [discriminate Hs|]. exists qh, qt. split; [reflexivity|exact Hs].
Qed.

(* ------------------------------------------------------------------------------------------ *)
(** * (0) The query parser, followed by the closing parenthesis *)

Theorem query_then_rparen_partial : forall q Q rest f',
  accepted_query q Q -> nt q -> tok_at rest = T_RPAREN ->
  (3 * List.length (q ++ rest) + 2 <= f')%nat ->
  parse_select_with_union f' (mkSt (q ++ rest) []) = Ok (Some Q, mkSt rest []).
Proof.
  intros q Q rest f' Ha Hnt Hrest Hf. destruct (accepted_psu q Q Ha) as [H _].
  exact (parse_select_with_union_close rest Hrest (fuel_for q) f' q (Some Q) H Hnt Hf).
Qed.

(* ------------------------------------------------------------------------------------------ *)
(** * (a) FROM ( q ): the table-expression position *)

(* parseTableExpression = the table source, then alias / FINAL / SAMPLE (the same text as in
   SelectParseModel.parse_table_expression, split in two) *)
Definition table_tail (src : option table_src) (s1 : st) : R table_elem :=
  bind
    (if cur_is s1 T_AS then
       let s2 := next s1 in
       if cur_is s2 T_IDENT || cur_kw s2 then Ok (cur_val s2, false, next s2) else Ok ([], false, s2)
     else
       bind (is_keyword_for_clause s1) (fun kfc =>
       if (cur_is s1 T_IDENT || cur_kw s1) && negb kfc && negb (cur_is s1 T_FINAL) &&
          negb (cur_is s1 T_SAMPLE) then
         if cur_is s1 T_PARALLEL && peek_is s1 T_WITH then Ok ([], true, s1)
         else Ok (cur_val s1, false, next s1)
       else Ok ([], false, s1)))
    (fun '(alias, early, s2) =>
     if early then ret (TableElem src alias) s2
     else if cur_is s2 T_FINAL then OutOfFragment OofFinal
     else if cur_is s2 T_SAMPLE then OutOfFragment OofSample
     else ret (TableElem src alias) s2).

Definition table_src_part (psu : PSU) (s : st) : R (option table_src) :=
  if cur_is s T_LPAREN then
    let s1 := next s in
    if cur_is s1 T_SELECT || cur_is s1 T_WITH || cur_is s1 T_LPAREN then
      bind (psu s1) (fun '(q, s2) =>
      let '(_, s3) := expect T_RPAREN s2 in
      ret (Some (TSSubquery q)) s3)
    else OutOfFragment OofTableParen
  else if cur_is s T_IDENT || cur_kw s || cur_is s T_NUMBER then
    let '(ident, s1) := parse_identifier_name s in
    if cur_is s1 T_LPAREN then OutOfFragment OofTableFunction
    else if cur_is s1 T_DOT then
      let '(table_name, s2) := parse_identifier_name (next s1) in
      ret (Some (TSIdent ident table_name)) s2
    else ret (Some (TSIdent [] ident)) s1
  else ret None s.

Lemma parse_table_expression_split : forall psu s,
  parse_table_expression psu s = bind (table_src_part psu s) (fun '(src, s1) => table_tail src s1).
Proof. reflexivity. Qed.

(* at a table-expression position,  ( q ) post  yields the Subquery node with exactly the query that
   q parses to alone, and the parser stands behind the closing parenthesis *)
Theorem table_subquery_position_partial : forall q Q lp rp post f',
  accepted_query q Q -> nt q -> it_tok lp = T_LPAREN -> it_tok rp = T_RPAREN ->
  (3 * List.length (q ++ rp :: post) + 2 <= f')%nat ->
  parse_table_expression (parse_select_with_union f') (mkSt (lp :: q ++ rp :: post) []) =
  table_tail (Some (TSSubquery (Some Q))) (mkSt post []).
Proof.
  intros q Q lp rp post f' Ha Hnt Hlp Hrp Hf.
  pose proof (query_then_rparen_partial q Q (rp :: post) f' Ha Hnt Hrp Hf) as Hq.
  destruct (accepted_cons q Q Ha) as (qh & qt & -> & Hqh).
  rewrite parse_table_expression_split. unfold table_src_part.
  cbv beta zeta delta [cur_is cur_tok next expect add_err]. cbn [toks errs tok_at tl app].
  rewrite Hlp, Hqh. change (T_LPAREN =? T_LPAREN) with true. change (T_SELECT =? T_SELECT) with true.
  cbn [orb]. cbv iota. change (qh :: qt ++ rp :: post) with ((qh :: qt) ++ rp :: post). rewrite Hq.
  cbn [bind toks errs tok_at tl]. rewrite Hrp. change (T_RPAREN =? T_RPAREN) with true. cbv iota beta.
  unfold ret. cbn [bind]. reflexivity.
Qed.

(* ------------------------------------------------------------------------------------------ *)
(** * (b) ( q ) inside an expression: the subquery branch of parseGroupedOrTuple *)

Theorem scalar_subquery_position_partial : forall pe q Q lp rp post f',
  accepted_query q Q -> nt q -> it_tok lp = T_LPAREN -> it_tok rp = T_RPAREN ->
  (3 * List.length (q ++ rp :: post) + 2 <= f')%nat ->
  parse_grouped_or_tuple pe (parse_select_with_union f') (mkSt (lp :: q ++ rp :: post) []) =
  Ok (Some (ESubquery (Some Q) []), mkSt post []).
Proof.
  intros pe q Q lp rp post f' Ha Hnt Hlp Hrp Hf.
  pose proof (query_then_rparen_partial q Q (rp :: post) f' Ha Hnt Hrp Hf) as Hq.
  destruct (accepted_cons q Q Ha) as (qh & qt & -> & Hqh).
  unfold parse_grouped_or_tuple.
  cbv beta zeta delta [cur_is cur_tok next expect add_err]. cbn [toks errs tok_at tl app].
  rewrite Hqh. change (T_SELECT =? T_RPAREN) with false. change (T_SELECT =? T_SELECT) with true.
  cbn [orb]. cbv iota. change (qh :: qt ++ rp :: post) with ((qh :: qt) ++ rp :: post). rewrite Hq.
  cbn [bind toks errs tok_at tl]. rewrite Hrp. change (T_RPAREN =? T_RPAREN) with true. cbv iota beta.
  reflexivity.
Qed.

(* the same seen from parseExpression: the prefix parser returns the Subquery and the Pratt loop
   goes on behind the closing parenthesis *)
Theorem scalar_subquery_expression_partial : forall q Q lp rp post prec f',
  accepted_query q Q -> nt q -> it_tok lp = T_LPAREN -> it_tok rp = T_RPAREN ->
  (3 * List.length (q ++ rp :: post) + 2 <= f')%nat ->
  parse_expr (S f') prec (mkSt (lp :: q ++ rp :: post) []) =
  pratt_loop f' prec (ESubquery (Some Q) []) (mkSt post []).
Proof.
  intros q Q lp rp post prec f' Ha Hnt Hlp Hrp Hf.
  cbn [parse_expr]. unfold parse_prefix. cbv beta zeta delta [cur_tok]. cbn [toks tok_at].
  rewrite Hlp.
  repeat match goal with
         | |- context[N.eqb T_LPAREN ?b] =>
             let v := eval vm_compute in (N.eqb T_LPAREN b) in change (N.eqb T_LPAREN b) with v
         | |- context[tok_in T_LPAREN ?l] =>
             let v := eval vm_compute in (tok_in T_LPAREN l) in change (tok_in T_LPAREN l) with v
         end.
  cbv iota.
  rewrite (scalar_subquery_position_partial (parse_expr f') q Q lp rp post f' Ha Hnt Hlp Hrp Hf).
  reflexivity.
Qed.

(* ------------------------------------------------------------------------------------------ *)
(** * (c) ( q ) at statement level: parseParenthesizedSelect *)

(* what may follow the closing parenthesis without being read by parseParenthesizedSelect *)
Definition paren_follow_ok (post : list item) : Prop :=
  tok_in (tok_at post) [T_UNION; T_EXCEPT; T_INTERSECT; T_FORMAT; T_SETTINGS] = false.

Lemma paren_follow_cases : forall post, paren_follow_ok post ->
  (tok_at post =? T_UNION) = false /\ (tok_at post =? T_EXCEPT) = false /\
  (tok_at post =? T_INTERSECT) = false /\ (tok_at post =? T_FORMAT) = false /\
  (tok_at post =? T_SETTINGS) = false.
Proof.
  intros post H. unfold paren_follow_ok, tok_in in H. cbn [existsb] in H.
  repeat match type of H with
         | (?a || _) = false => destruct a eqn:?; [discriminate H|cbn [orb] in H]
         end.
  repeat split; reflexivity.
Qed.

(* "the same": parseParenthesizedSelect returns the SelectWithUnionQuery of the inner query itself
   -- the same Selects, the same UnionModes, the same UnionAll flag -- not a wrapper around it *)
Theorem paren_statement_raw_partial : forall q Q lp rp post f',
  accepted_query q Q -> nt q -> it_tok lp = T_LPAREN -> it_tok rp = T_RPAREN ->
  paren_follow_ok post ->
  (3 * List.length (q ++ rp :: post) + 2 <= f')%nat ->
  parse_parenthesized_select f' (mkSt (lp :: q ++ rp :: post) []) = Ok (Some Q, mkSt post []).
Proof.
  intros q Q lp rp post f' Ha Hnt Hlp Hrp Hpost Hf.
  pose proof (query_then_rparen_partial q Q (rp :: post) f' Ha Hnt Hrp Hf) as Hq.
  destruct (paren_follow_cases post Hpost) as (Hu & He & Hi & Hfo & Hse).
  destruct (accepted_cons q Q Ha) as (qh & qt & -> & Hqh).
  unfold parse_parenthesized_select.
  cbv beta zeta delta [cur_is cur_tok next expect add_err]. cbn [toks errs tok_at tl app].
  rewrite Hqh. change (T_SELECT =? T_SELECT) with true. cbn [negb andb]. cbv iota.
  change (qh :: qt ++ rp :: post) with ((qh :: qt) ++ rp :: post). rewrite Hq.
  cbn [bind toks errs tok_at tl]. rewrite Hrp. change (T_RPAREN =? T_RPAREN) with true. cbv iota beta.
  cbn [toks]. rewrite He, Hi. cbn [orb]. cbv iota.
  destruct Q as [sl m a]. destruct f' as [|f'']; [cbn in Hf; lia|].
  cbn [union_loop]. cbv beta zeta delta [cur_is cur_tok ret]. cbn [toks]. rewrite He, Hi, Hu. cbn [orb]. cbv iota.
  cbn [bind toks]. rewrite Hfo, Hse. reflexivity.
Qed.

Theorem paren_statement_partial : forall q Q lp rp post,
  accepted_query q Q -> nt q -> it_tok lp = T_LPAREN -> it_tok rp = T_RPAREN ->
  paren_follow_ok post ->
  parse_model (lp :: q ++ rp :: post) = Ok (Some Q, post, []).
Proof.
  intros q Q lp rp post Ha Hnt Hlp Hrp Hpost.
  destruct (accepted_psu q Q Ha) as [_ Hpr].
  unfold parse_model, parse_model_fuel, parse_statement, parse_statement_raw.
  cbv beta zeta delta [cur_tok]. cbn [toks tok_at]. rewrite Hlp.
  change (T_LPAREN =? T_SELECT) with false. change (T_LPAREN =? T_LPAREN) with true. cbv iota.
  rewrite (paren_statement_raw_partial q Q lp rp post _ Ha Hnt Hlp Hrp Hpost).
  - cbn [bind printer_check errs]. rewrite Hpr. reflexivity.
  - unfold fuel_for. cbn [List.length]. lia.
Qed.

(* the statement-level form of the property:  ( q )  is parsed to the statement that  q  is parsed to *)
Corollary paren_statement_same_partial : forall q Q lp rp,
  accepted_query q Q -> nt q -> it_tok lp = T_LPAREN -> it_tok rp = T_RPAREN ->
  parse_model (lp :: q ++ [rp]) = parse_model q.
Proof.
  intros q Q lp rp Ha Hnt Hlp Hrp. rewrite (proj2 Ha).
  apply paren_statement_partial; try assumption. reflexivity.
Qed.

(* ------------------------------------------------------------------------------------------ *)
(** * Whole statements around the query *)

(* closed tests *)
Ltac ev_tests :=
  repeat match goal with
         | |- context[N.eqb ?a ?b] =>
             let v := eval vm_compute in (N.eqb a b) in
             lazymatch v with true => idtac | false => idtac end; change (N.eqb a b) with v
         | |- context[tok_in ?a ?l] =>
             let v := eval vm_compute in (tok_in a l) in
             lazymatch v with true => idtac | false => idtac end; change (tok_in a l) with v
         | |- context[is_keyword ?a] =>
             let v := eval vm_compute in (is_keyword a) in
             lazymatch v with true => idtac | false => idtac end; change (is_keyword a) with v
         end.

Ltac run_cbn :=
  cbv beta zeta delta [cur_is peek_is peek2_is cur_kw cur_tok cur_val peek_tok peek2_tok next add_err ret];
  cbn [toks errs tok_at val_at tl app bind fst snd andb orb negb it_tok it_val option_map];
  ev_tests;
  cbn [andb orb negb bind].

Ltac lhead t :=
  lazymatch t with
  | bind ?r _ => lhead r
  | (if ?c then _ else _) => lhead c
  | (match ?x with _ => _ end) => lhead x
  | _ => t
  end.

Ltac ev_more :=
  repeat match goal with
         | |- context[precedence ?a] =>
             let v := eval vm_compute in (precedence a) in
             lazymatch v with N0 => idtac | Npos _ => idtac end; change (precedence a) with v
         | |- context[N.ltb ?a ?b] =>
             let v := eval vm_compute in (N.ltb a b) in
             lazymatch v with true => idtac | false => idtac end; change (N.ltb a b) with v
         | |- context[Nat.eqb (remaining ?a) (remaining ?b)] =>
             let v := eval vm_compute in (Nat.eqb (remaining a) (remaining b)) in
             lazymatch v with true => idtac | false => idtac end; change (Nat.eqb (remaining a) (remaining b)) with v
         end.

Ltac run_norm := repeat (progress (run_cbn; ev_more; cbn [andb orb negb bind]; cbv iota beta)).

Ltac run1 :=
  run_norm;
  lazymatch goal with
  | |- ?L = _ =>
    let h := lhead L in
    lazymatch h with
    | parse_expr (S _) _ _ => cbn [parse_expr]
    | pratt_loop (S _) _ _ _ => cbn [pratt_loop]; unfold precedence_for_current
    | parse_select (S _) _ => cbn [parse_select]
    | union_loop (S _) _ _ _ _ _ => cbn [union_loop]
    | parse_select_with_union (S _) _ => cbn [parse_select_with_union]
    | expr_list_loop _ (S _) _ _ => cbn [expr_list_loop]
    | order_by_loop _ (S _) _ _ => cbn [order_by_loop]
    | dotted_loop _ _ _ => cbn [dotted_loop]
    | parse_expr ?f _ _ => is_var f; destruct f as [|f]; [exfalso; lia|]
    | pratt_loop ?f _ _ _ => is_var f; destruct f as [|f]; [exfalso; lia|]
    | parse_select ?f _ => is_var f; destruct f as [|f]; [exfalso; lia|]
    | union_loop ?f _ _ _ _ _ => is_var f; destruct f as [|f]; [exfalso; lia|]
    | parse_select_with_union ?f _ => is_var f; destruct f as [|f]; [exfalso; lia|]
    | expr_list_loop _ ?f _ _ => is_var f; destruct f as [|f]; [exfalso; lia|]
    | order_by_loop _ ?f _ _ => is_var f; destruct f as [|f]; [exfalso; lia|]
    | parse_table_expression _ (mkSt ?l _) =>
        first [ (lazymatch l with _ :: ?x ++ _ => is_var x end);
                erewrite table_subquery_position_partial
                  by first [eassumption | reflexivity | (rewrite ?app_length; cbn [List.length]; lia)]
              | rewrite parse_table_expression_split; unfold table_src_part at 1 ]
    | parse_grouped_or_tuple _ _ (mkSt ?l _) =>
        (lazymatch l with _ :: ?x ++ _ => is_var x end);
        erewrite scalar_subquery_position_partial
          by first [eassumption | reflexivity | (rewrite ?app_length; cbn [List.length]; lia)]
    | parse_prefix _ _ _ _ => unfold parse_prefix at 1
    | parse_infix _ _ _ _ => unfold parse_infix at 1
    | parse_binary _ _ _ => unfold parse_binary at 1
    | parse_alias _ _ => unfold parse_alias at 1
    | set_alias _ _ _ => unfold set_alias at 1
    | parse_expression_list _ _ _ => unfold parse_expression_list at 1
    | parse_implicit_alias _ _ => unfold parse_implicit_alias at 1
    | parse_tables_in_select _ _ => unfold parse_tables_in_select at 1
    | is_join_keyword _ => unfold is_join_keyword at 1
    | is_clause_keyword _ => unfold is_clause_keyword at 1
    | is_keyword_for_clause _ => unfold is_keyword_for_clause at 1
    | table_tail _ _ => unfold table_tail at 1
    | expect _ _ => unfold expect at 1
    | union_mode _ => unfold union_mode at 1
    | parse_identifier_or_function _ _ _ => unfold parse_identifier_or_function at 1
    | parse_keyword_as_identifier _ => unfold parse_keyword_as_identifier at 1
    | parse_number _ => unfold parse_number at 1
    | parse_dot_access _ _ _ _ => unfold parse_dot_access at 1
    | parse_unary_minus _ _ => unfold parse_unary_minus at 1
    | parse_identifier_name _ => unfold parse_identifier_name at 1
    | order_by_loop _ (S _) _ _ => cbn [order_by_loop]
    | _ =>
        (* a closed test *)
        let v := eval vm_compute in h in
        lazymatch v with
        | true => change h with true
        | false => change h with false
        end
    end
  end.

(* the tokens of a context: kinds, and the values where the parser reads them *)
Definition shape (l : list item) (spec : list (N * option (list N))) : Prop :=
  Forall2 (fun it sp => it_tok it = fst sp /\
                        match snd sp with Some v => it_val it = v | None => True end) l spec.

Definition S_ (s : string) : option (list N) := Some (bytes_of s).

Ltac shape_inv :=
  unfold shape, S_ in *;
  repeat match goal with
         | H : Forall2 _ _ (_ :: _) |- _ => inversion H; clear H; subst
         | H : Forall2 _ _ [] |- _ => inversion H; clear H; subst
         end;
  repeat match goal with
         | H : _ /\ _ |- _ => destruct H
         end;
  repeat match goal with
         | x : item |- _ =>
             lazymatch goal with
             | H : it_tok x = _ |- _ => destruct x; cbn [it_tok it_val fst snd] in *
             end
         end;
  subst.


Ltac ctx_run := shape_inv; cbn [app]; repeat run1; run_norm; reflexivity.

(* the embedding statements; [sub Q alias] etc. are the ASTs they must parse to *)
Definition from_sub (Q : query) (alias : list N) : option (list table_elem) :=
  Some [TableElem (Some (TSSubquery (Some Q))) alias].
Definition one_select (s : select) : query := Query [Some s] [] false.

(* SELECT * FROM ( q ) *)
Theorem ctx_from_raw_partial : forall q Q pre post f,
  accepted_query q Q -> nt q ->
  shape pre [(T_SELECT, None); (T_ASTERISK, None); (T_FROM, None); (T_LPAREN, None)] ->
  shape post [(T_RPAREN, None)] ->
  (3 * List.length q + 40 <= f)%nat ->
  parse_select_with_union f (mkSt (pre ++ q ++ post) []) =
  Ok (Some (one_select (Select false [EAsterisk []] (from_sub Q []) None [] None [] None None)), mkSt [] []).
Proof. intros q Q pre post f Ha Hnt Hpre Hpost Hf. ctx_run. Qed.

(* SELECT * FROM ( q ) AS <alias> *)
Theorem ctx_from_as_raw_partial : forall q Q pre post al f,
  accepted_query q Q -> nt q ->
  shape pre [(T_SELECT, None); (T_ASTERISK, None); (T_FROM, None); (T_LPAREN, None)] ->
  shape post [(T_RPAREN, None); (T_AS, None); (T_IDENT, Some al)] ->
  (3 * List.length q + 40 <= f)%nat ->
  parse_select_with_union f (mkSt (pre ++ q ++ post) []) =
  Ok (Some (one_select (Select false [EAsterisk []] (from_sub Q al) None [] None [] None None)), mkSt [] []).
Proof. intros q Q pre post al f Ha Hnt Hpre Hpost Hf. ctx_run. Qed.

(* SELECT * FROM ( q ) AS s WHERE s.a > 0 *)
Theorem ctx_from_where_raw_partial : forall q Q pre post f,
  accepted_query q Q -> nt q ->
  shape pre [(T_SELECT, None); (T_ASTERISK, None); (T_FROM, None); (T_LPAREN, None)] ->
  shape post [(T_RPAREN, None); (T_AS, None); (T_IDENT, S_ "s"); (T_WHERE, None);
              (T_IDENT, S_ "s"); (T_DOT, None); (T_IDENT, S_ "a"); (T_GT, S_ ">"); (T_NUMBER, S_ "0")] ->
  (3 * List.length q + 40 <= f)%nat ->
  parse_select_with_union f (mkSt (pre ++ q ++ post) []) =
  Ok (Some (one_select
       (Select false [EAsterisk []] (from_sub Q (bytes_of "s"))
          (Some (EBinary (bytes_of ">") (EIdent [bytes_of "s"; bytes_of "a"] [] false)
                         (Some (ELit (LInt64 0) false)) false))
          [] None [] None None)), mkSt [] []).
Proof. intros q Q pre post f Ha Hnt Hpre Hpost Hf. ctx_run. Qed.

(* SELECT ( q ) *)
Theorem ctx_scalar_raw_partial : forall q Q pre post f,
  accepted_query q Q -> nt q ->
  shape pre [(T_SELECT, None); (T_LPAREN, None)] ->
  shape post [(T_RPAREN, None)] ->
  (3 * List.length q + 40 <= f)%nat ->
  parse_select_with_union f (mkSt (pre ++ q ++ post) []) =
  Ok (Some (one_select (Select false [ESubquery (Some Q) []] None None [] None [] None None)), mkSt [] []).
Proof. intros q Q pre post f Ha Hnt Hpre Hpost Hf. ctx_run. Qed.

(* SELECT ( q ) AS <x> *)
Theorem ctx_scalar_as_raw_partial : forall q Q pre post al f,
  accepted_query q Q -> nt q ->
  shape pre [(T_SELECT, None); (T_LPAREN, None)] ->
  shape post [(T_RPAREN, None); (T_AS, None); (T_IDENT, Some al)] ->
  (3 * List.length q + 40 <= f)%nat ->
  parse_select_with_union f (mkSt (pre ++ q ++ post) []) =
  Ok (Some (one_select (Select false [ESubquery (Some Q) al] None None [] None [] None None)), mkSt [] []).
Proof. intros q Q pre post al f Ha Hnt Hpre Hpost Hf. ctx_run. Qed.

(* SELECT * FROM t WHERE a = ( q ) *)
Theorem ctx_where_eq_raw_partial : forall q Q pre post f,
  accepted_query q Q -> nt q ->
  shape pre [(T_SELECT, None); (T_ASTERISK, None); (T_FROM, None); (T_IDENT, S_ "t"); (T_WHERE, None);
             (T_IDENT, S_ "a"); (T_EQ, S_ "="); (T_LPAREN, None)] ->
  shape post [(T_RPAREN, None)] ->
  (3 * List.length q + 40 <= f)%nat ->
  parse_select_with_union f (mkSt (pre ++ q ++ post) []) =
  Ok (Some (one_select
       (Select false [EAsterisk []] (Some [TableElem (Some (TSIdent [] (bytes_of "t"))) []])
          (Some (EBinary (bytes_of "=") (EIdent [bytes_of "a"] [] false)
                         (Some (ESubquery (Some Q) [])) false))
          [] None [] None None)), mkSt [] []).
Proof. intros q Q pre post f Ha Hnt Hpre Hpost Hf. ctx_run. Qed.

(* ------------------------------------------------------------------------------------------ *)
(** * The same at the level of parse_model (statement parser + printer-fragment check) *)

Lemma select_statement_lift : forall ctx O,
  tok_at ctx = T_SELECT ->
  parse_select_with_union (fuel_for ctx) (mkSt ctx []) = Ok (Some O, mkSt [] []) ->
  printable_query false O = true ->
  parse_model ctx = Ok (Some O, [], []).
Proof.
  intros ctx O Hs H Hp. unfold parse_model, parse_model_fuel, parse_statement, parse_statement_raw.
  cbv beta zeta delta [cur_tok]. cbn [toks]. rewrite Hs. change (T_SELECT =? T_SELECT) with true. cbv iota.
  rewrite H. cbn [bind printer_check errs is_nil andb]. rewrite Hp. reflexivity.
Qed.

Lemma shape_head : forall pre x spec (l : list item),
  shape pre ((x, None) :: spec) -> tok_at (pre ++ l) = x.
Proof.
  intros pre x spec l H. unfold shape in H. inversion H as [|it sp l1 l2 [Ht _] Hr]; subst.
  cbn [app tok_at]. exact Ht.
Qed.

Lemma shape_length : forall l spec, shape l spec -> List.length l = List.length spec.
Proof. intros l spec H. unfold shape in H. induction H; [reflexivity|]. cbn [List.length]. f_equal. assumption. Qed.

(* Q inside another query must be printable as a subquery: it has no empty select list *)
Definition sub_printable (Q : query) : Prop := printable_query true Q = true.

Ltac lift_ctx thm :=
  match goal with
  | Hpre : shape ?pre _, Hpost : shape ?post _ |- parse_model (?pre ++ ?q ++ ?post) = _ =>
      apply select_statement_lift;
      [ eapply shape_head; exact Hpre
      | apply thm; try assumption; unfold fuel_for; rewrite !app_length;
        rewrite (shape_length _ _ Hpre), (shape_length _ _ Hpost); cbn [List.length]; lia
      | cbn; repeat match goal with H : sub_printable _ |- _ => unfold sub_printable in H; rewrite H end;
        reflexivity ]
  end.

Theorem ctx_from_partial : forall q Q pre post,
  accepted_query q Q -> nt q -> sub_printable Q ->
  shape pre [(T_SELECT, None); (T_ASTERISK, None); (T_FROM, None); (T_LPAREN, None)] ->
  shape post [(T_RPAREN, None)] ->
  parse_model (pre ++ q ++ post) =
  Ok (Some (one_select (Select false [EAsterisk []] (from_sub Q []) None [] None [] None None)), [], []).
Proof. intros q Q pre post Ha Hnt Hsp Hpre Hpost. lift_ctx ctx_from_raw_partial. Qed.

Theorem ctx_from_as_partial : forall q Q pre post al,
  accepted_query q Q -> nt q -> sub_printable Q ->
  shape pre [(T_SELECT, None); (T_ASTERISK, None); (T_FROM, None); (T_LPAREN, None)] ->
  shape post [(T_RPAREN, None); (T_AS, None); (T_IDENT, Some al)] ->
  parse_model (pre ++ q ++ post) =
  Ok (Some (one_select (Select false [EAsterisk []] (from_sub Q al) None [] None [] None None)), [], []).
Proof. intros q Q pre post al Ha Hnt Hsp Hpre Hpost. lift_ctx ctx_from_as_raw_partial. Qed.

Theorem ctx_from_where_partial : forall q Q pre post,
  accepted_query q Q -> nt q -> sub_printable Q ->
  shape pre [(T_SELECT, None); (T_ASTERISK, None); (T_FROM, None); (T_LPAREN, None)] ->
  shape post [(T_RPAREN, None); (T_AS, None); (T_IDENT, S_ "s"); (T_WHERE, None);
              (T_IDENT, S_ "s"); (T_DOT, None); (T_IDENT, S_ "a"); (T_GT, S_ ">"); (T_NUMBER, S_ "0")] ->
  parse_model (pre ++ q ++ post) =
  Ok (Some (one_select
       (Select false [EAsterisk []] (from_sub Q (bytes_of "s"))
          (Some (EBinary (bytes_of ">") (EIdent [bytes_of "s"; bytes_of "a"] [] false)
                         (Some (ELit (LInt64 0) false)) false))
          [] None [] None None)), [], []).
Proof. intros q Q pre post Ha Hnt Hsp Hpre Hpost. lift_ctx ctx_from_where_raw_partial. Qed.

Theorem ctx_scalar_partial : forall q Q pre post,
  accepted_query q Q -> nt q -> sub_printable Q ->
  shape pre [(T_SELECT, None); (T_LPAREN, None)] ->
  shape post [(T_RPAREN, None)] ->
  parse_model (pre ++ q ++ post) =
  Ok (Some (one_select (Select false [ESubquery (Some Q) []] None None [] None [] None None)), [], []).
Proof. intros q Q pre post Ha Hnt Hsp Hpre Hpost. lift_ctx ctx_scalar_raw_partial. Qed.

Theorem ctx_scalar_as_partial : forall q Q pre post al,
  accepted_query q Q -> nt q -> sub_printable Q ->
  shape pre [(T_SELECT, None); (T_LPAREN, None)] ->
  shape post [(T_RPAREN, None); (T_AS, None); (T_IDENT, Some al)] ->
  parse_model (pre ++ q ++ post) =
  Ok (Some (one_select (Select false [ESubquery (Some Q) al] None None [] None [] None None)), [], []).
Proof. intros q Q pre post al Ha Hnt Hsp Hpre Hpost. lift_ctx ctx_scalar_as_raw_partial. Qed.

Theorem ctx_where_eq_partial : forall q Q pre post,
  accepted_query q Q -> nt q -> sub_printable Q ->
  shape pre [(T_SELECT, None); (T_ASTERISK, None); (T_FROM, None); (T_IDENT, S_ "t"); (T_WHERE, None);
             (T_IDENT, S_ "a"); (T_EQ, S_ "="); (T_LPAREN, None)] ->
  shape post [(T_RPAREN, None)] ->
  parse_model (pre ++ q ++ post) =
  Ok (Some (one_select
       (Select false [EAsterisk []] (Some [TableElem (Some (TSIdent [] (bytes_of "t"))) []])
          (Some (EBinary (bytes_of "=") (EIdent [bytes_of "a"] [] false)
                         (Some (ESubquery (Some Q) [])) false))
          [] None [] None None)), [], []).
Proof. intros q Q pre post Ha Hnt Hsp Hpre Hpost. lift_ctx ctx_where_eq_raw_partial. Qed.

(* ------------------------------------------------------------------------------------------ *)
(** * The side condition cannot be dropped *)

Definition tk (t : N) (v : string) : item :=
  {| it_tok := t; it_val := bytes_of v; it_pos := {| p_off := 0; p_line := 1; p_col := 1 |}; it_quoted := false |}.

(* SELECT a, limit *)
Definition w_query : list item := [tk T_SELECT "SELECT"; tk T_IDENT "a"; tk T_COMMA ","; tk T_LIMIT "limit"].
Definition w_lp := tk T_LPAREN "(".
Definition w_rp := tk T_RPAREN ")".

(* alone: ONE column (a), no LIMIT expression *)
Definition w_alone : query :=
  Query [Some (Select false [EIdent [bytes_of "a"] [] false] None None [] None [] None None)] [] false.
(* in parentheses: TWO columns (a, limit) *)
Definition w_embedded : query :=
  Query [Some (Select false [EIdent [bytes_of "a"] [] false; EIdent [bytes_of "limit"] [] false]
                 None None [] None [] None None)] [] false.

Lemma witness_facts :
  accepted_query w_query w_alone /\ sub_printable w_alone /\ comma_kw_tail w_query = true /\
  w_embedded <> w_alone /\
  (* ( SELECT a, limit ) *)
  parse_model (w_lp :: w_query ++ [w_rp]) = Ok (Some w_embedded, [], []) /\
  (* SELECT * FROM ( SELECT a, limit ) *)
  parse_model ([tk T_SELECT "SELECT"; tk T_ASTERISK "*"; tk T_FROM "FROM"; w_lp] ++ w_query ++ [w_rp]) =
    Ok (Some (one_select (Select false [EAsterisk []] (from_sub w_embedded []) None [] None [] None None)), [], []) /\
  (* SELECT ( SELECT a, limit ) *)
  parse_model ([tk T_SELECT "SELECT"; w_lp] ++ w_query ++ [w_rp]) =
    Ok (Some (one_select (Select false [ESubquery (Some w_embedded) []] None None [] None [] None None)), [], []).
Proof. vm_compute. repeat split; try reflexivity. discriminate. Qed.

(* the theorems without the side condition are false *)
Lemma query_then_rparen_refuted :
  ~ (forall q Q rest f', accepted_query q Q -> tok_at rest = T_RPAREN ->
       (3 * List.length (q ++ rest) + 2 <= f')%nat ->
       parse_select_with_union f' (mkSt (q ++ rest) []) = Ok (Some Q, mkSt rest [])).
Proof.
  intros H. destruct witness_facts as (Ha & _).
  specialize (H w_query w_alone [w_rp] 40%nat Ha eq_refl ltac:(vm_compute; lia)).
  vm_compute in H. discriminate H.
Qed.

Lemma paren_statement_refuted :
  ~ (forall q Q lp rp, accepted_query q Q -> it_tok lp = T_LPAREN -> it_tok rp = T_RPAREN ->
       parse_model (lp :: q ++ [rp]) = parse_model q).
Proof.
  intros H. destruct witness_facts as (Ha & _).
  specialize (H w_query w_alone w_lp w_rp Ha eq_refl eq_refl). vm_compute in H. discriminate H.
Qed.

Lemma ctx_from_refuted :
  ~ (forall q Q pre post, accepted_query q Q -> sub_printable Q ->
       shape pre [(T_SELECT, None); (T_ASTERISK, None); (T_FROM, None); (T_LPAREN, None)] ->
       shape post [(T_RPAREN, None)] ->
       parse_model (pre ++ q ++ post) =
       Ok (Some (one_select (Select false [EAsterisk []] (from_sub Q []) None [] None [] None None)), [], [])).
Proof.
  intros H. destruct witness_facts as (Ha & Hs & _).
  specialize (H w_query w_alone [tk T_SELECT "SELECT"; tk T_ASTERISK "*"; tk T_FROM "FROM"; w_lp] [w_rp] Ha Hs).
  assert (S1 : shape [tk T_SELECT "SELECT"; tk T_ASTERISK "*"; tk T_FROM "FROM"; w_lp]
                     [(T_SELECT, None); (T_ASTERISK, None); (T_FROM, None); (T_LPAREN, None)])
    by (repeat constructor).
  assert (S2 : shape [w_rp] [(T_RPAREN, None)]) by (repeat constructor).
  specialize (H S1 S2). vm_compute in H. discriminate H.
Qed.

Lemma ctx_scalar_refuted :
  ~ (forall q Q pre post, accepted_query q Q -> sub_printable Q ->
       shape pre [(T_SELECT, None); (T_LPAREN, None)] -> shape post [(T_RPAREN, None)] ->
       parse_model (pre ++ q ++ post) =
       Ok (Some (one_select (Select false [ESubquery (Some Q) []] None None [] None [] None None)), [], [])).
Proof.
  intros H. destruct witness_facts as (Ha & Hs & _).
  specialize (H w_query w_alone [tk T_SELECT "SELECT"; w_lp] [w_rp] Ha Hs).
  assert (S1 : shape [tk T_SELECT "SELECT"; w_lp] [(T_SELECT, None); (T_LPAREN, None)]) by (repeat constructor).
  assert (S2 : shape [w_rp] [(T_RPAREN, None)]) by (repeat constructor).
  specialize (H S1 S2). vm_compute in H. discriminate H.
Qed.
