(* C04 (part B) -- count-vs-emit model of the SELECT printers of /repo/internal/explain/select.go
   (and TablesWithArrayJoin of explain.go).

   DEFINITIONS ONLY.  Hand-written transcription; the "(children N)" header is computed by the
   count functions, the children are emitted by separate code, exactly as in Go: same order of
   emission, same conditions, nothing shared between the two sides.  The tie to the Go code is the
   correspondence run  /verif/harness/cmd/selectcount  vs  /verif/driver/selectcount.

   Abstraction: a sub-node that the Go code hands to [Node(sb, x, depth)] is an already rendered
   tree ([rose]); the model assumes such a call prints exactly that one tree at that depth.  What
   the code branches on is kept: presence of each optional clause, lengths of lists, flags.

   Transcribed functions (select.go line numbers of /repo revision a9fde9fa2):
     countSelectQueryChildren                     850-912   [count_select_query_children]
     explainSelectQuery                           412-579   [explain_select_query]
     explainSelectQueryWithInheritedWith           65-205   [explain_select_query_with_inherited_with]
     unionTail and its methods format / unionSettings / selectSettings
                                                  293-321   [union_tail, tail_format, tail_union_settings, tail_select_settings]
     countSelectUnionChildrenTail                 661-699   [count_select_union_children_tail]
     explainSelectWithUnionQueryTail              339-382   [explain_select_with_union_query_tail]
     explainUnionTail                             385-411   [explain_union_tail]
     explainSelectWithUnionQueryWithInheritedWith 230-262   [explain_select_with_union_query_with_inherited_with]
     the tails passed by explainInsertQuery / explainExplainQuery / explainAsSelectWithoutFormat
       (statements.go 88-99, 943-968; select.go 329-335)    [explain_insert_select, explain_query_tail, explain_as_select_without_format]
     explainSelectIntersectExceptQuery             10-47    [explain_select_intersect_except_query]
     extractWithClause                             50-61    [extract_with_clause]
     TablesWithArrayJoin (explain.go 370-394)               [tables_with_array_join]
   Not transcribed (no separate count code; their result is an input of the model):
     expandNestedUnions / groupSelectsByUnionMode -> field [u_grouped]. *)
From Coq Require Import List NArith Bool String Ascii.
From DC Require Import Tree.LineTree.
Import ListNotations.
Local Open Scope N_scope.

(* ---------------------------------------------------------------------------------------- *)
(** * Labels *)

Fixpoint bytes_of (s : string) : list N :=
  match s with
  | EmptyString => []
  | String c s' => N_of_ascii c :: bytes_of s'
  end.

Definition L_SelectQuery := bytes_of "SelectQuery".
Definition L_SelectWithUnionQuery := bytes_of "SelectWithUnionQuery".
Definition L_SelectIntersectExceptQuery := bytes_of "SelectIntersectExceptQuery".
Definition L_ExpressionList := bytes_of "ExpressionList".
Definition L_TablesInSelectQuery := bytes_of "TablesInSelectQuery".
Definition L_TablesInSelectQueryElement := bytes_of "TablesInSelectQueryElement".
Definition L_WindowListElement := bytes_of "WindowListElement".
Definition L_Set := bytes_of "Set".
Definition L_Literal_UInt64_1 := bytes_of "Literal UInt64_1".
Definition L_Function_tuple := bytes_of "Function tuple".
(* fmt.Fprintf(sb, "%s Literal \\'%s\\'\n", indent, Filename) *)
Definition L_outfile (filename : list N) : list N :=
  bytes_of "Literal \'" ++ filename ++ bytes_of "\'".

(* ---------------------------------------------------------------------------------------- *)
(** * Emission primitives *)

(* fmt.Fprintf(sb, "%s<lab> (children %d)\n", indent(d), n): the suffix is printed even for 0 *)
Definition hdr (d : nat) (lab : list N) (n : nat) : line := mkLine d lab (Some n).
(* fmt.Fprintf(sb, "%s<lab>\n", indent(d)) *)
Definition leaf (d : nat) (lab : list N) : line := mkLine d lab None.
(* Node(sb, x, d) for an already rendered sub-node *)
Definition node (d : nat) (t : rose) : list line := render d t.
(* for _, x := range xs { Node(sb, x, d) } *)
Definition nodes (d : nat) (ts : list rose) : list line := flat_map (render d) ts.
(* if x != nil { Node(sb, x, d) } *)
Definition opt_node (d : nat) (o : option rose) : list line :=
  match o with Some t => render d t | None => [] end.
(* fmt.Fprintf(sb, "%s ExpressionList (children %d)\n", .., len(xs)); for .. { Node(sb, x, d+1) } *)
Definition expr_list (d : nat) (ts : list rose) : list line :=
  hdr d L_ExpressionList (List.length ts) :: nodes (S d) ts.

Definition nonempty {A : Type} (l : list A) : bool := match l with [] => false | _ => true end.
Definition is_some {A : Type} (o : option A) : bool := match o with Some _ => true | None => false end.
Definition pos (n : nat) : bool := match n with O => false | S _ => true end.   (* len(..) > 0 *)
Definition b2n (b : bool) : nat := if b then 1%nat else 0%nat.                   (* if b { count++ } *)
Definition when {A : Type} (b : bool) (l : list A) : list A := if b then l else [].

(* ---------------------------------------------------------------------------------------- *)
(** * The abstract AST *)

(* an element of SelectQuery.GroupBy as explainSelectQuery looks at it in GROUPING SETS mode *)
Inductive group_elem :=
| GE_tuple (parenthesized : bool) (elements : option (list rose)) (self : rose)
    (* *ast.Literal with Type == LiteralTuple; [elements] = None when Value is not []Expression;
       [self] = what Node(sb, g, _) prints for it *)
| GE_other (self : rose).

Definition ge_self (g : group_elem) : rose :=
  match g with GE_tuple _ _ s => s | GE_other s => s end.

Record select_query := mkSQ {
  sq_with : list rose;
  sq_distinct_on : list rose;
  sq_top : option rose;
  sq_columns : list rose;
  sq_from : option (list rose);          (* From != nil, and From.Tables *)
  sq_array_join : option rose;
  sq_prewhere : option rose;
  sq_where : option rose;
  sq_group_by : list group_elem;
  sq_group_by_all : bool;
  sq_grouping_sets : bool;
  sq_having : option rose;
  sq_qualify : option rose;
  sq_window : nat;                       (* len(Window) *)
  sq_order_by : list rose;
  sq_interpolate : list rose;
  sq_limit : option rose;
  sq_limit_by : list rose;
  sq_limit_by_limit : option rose;
  sq_limit_by_offset : option rose;
  sq_offset : option rose;
  sq_settings : nat;                     (* len(Settings) *)
  sq_settings_after_format : bool;
  sq_into_outfile : option (list N);     (* IntoOutfile != nil, and IntoOutfile.Filename *)
  sq_format : option rose
}.

(* a member of a Selects list that is not a *ast.SelectQuery *)
Record sel_other := mkOther {
  o_tree : rose;                         (* what Node(sb, stmt, _) prints *)
  o_with : list rose;                    (* what extractWithClause(stmt) returns *)
  o_is_union : bool                      (* stmt.( *ast.SelectWithUnionQuery) succeeds *)
}.

Inductive sel_item :=
| ItemSelect (q : select_query)
| ItemOther (o : sel_other).

Record union_query := mkUQ {
  u_selects : list sel_item;             (* n.Selects *)
  u_grouped : list sel_item;             (* groupSelectsByUnionMode(expandNestedUnions(n.Selects, n.UnionModes)) *)
  u_settings : nat;                      (* len(n.Settings) *)
  u_settings_after_format : bool;
  u_settings_before_format : bool
}.

Record intersect_query := mkIQ {
  i_selects : list sel_item;
  i_has_except : bool                    (* some operator has prefix "EXCEPT" *)
}.

(* ---------------------------------------------------------------------------------------- *)
(** * SelectQuery *)

(* countSelectQueryChildren *)
Definition count_select_query_children (n : select_query) : nat :=
  (1                                                                   (* columns ExpressionList *)
   + b2n (nonempty (sq_with n))
   + b2n (is_some (sq_from n) || is_some (sq_array_join n))
   + b2n (is_some (sq_prewhere n))
   + b2n (is_some (sq_where n))
   + b2n (nonempty (sq_group_by n) && negb (sq_group_by_all n))
   + b2n (is_some (sq_having n))
   + b2n (is_some (sq_qualify n))
   + b2n (pos (sq_window n))
   + b2n (nonempty (sq_order_by n))
   + b2n (nonempty (sq_interpolate n))
   + b2n (is_some (sq_limit_by_offset n))
   + b2n (is_some (sq_limit_by_limit n))
   + b2n (is_some (sq_limit n))
   + b2n (nonempty (sq_limit_by n))
   + b2n (is_some (sq_offset n))
   + b2n (pos (sq_settings n) && negb (sq_settings_after_format n))
   + b2n (is_some (sq_top n))
   + (if nonempty (sq_distinct_on n) then 2 else 0))%nat.

(* TablesWithArrayJoin(sb, from, arrayJoin, d) *)
Definition tables_with_array_join (d : nat) (from : option (list rose)) (aj : option rose)
  : list line :=
  let table_count :=
    ((match from with Some ts => List.length ts | None => 0 end) + b2n (is_some aj))%nat in
  hdr d L_TablesInSelectQuery table_count
  :: (match from with Some ts => nodes (S d) ts | None => [] end)
  ++ (match aj with
      | Some a => hdr (S d) L_TablesInSelectQueryElement 1 :: node (S (S d)) a
      | None => []
      end).

(* one GROUP BY element in explainSelectQuery; [d] is the depth of the SelectQuery line *)
Definition emit_group_elem (grouping_sets : bool) (d : nat) (g : group_elem) : list line :=
  if grouping_sets then
    match g with
    | GE_tuple true (Some elements) _ =>
        hdr (2 + d) L_ExpressionList 1
        :: hdr (3 + d) L_Function_tuple 1
        :: (if nonempty elements
            then hdr (4 + d) L_ExpressionList (List.length elements) :: nodes (5 + d) elements
            else [leaf (4 + d) L_ExpressionList])
    | GE_tuple true None _ => []                       (* `if elements, ok := ...; ok` without else *)
    | GE_tuple false (Some elements) _ =>
        if nonempty elements
        then hdr (2 + d) L_ExpressionList (List.length elements) :: nodes (3 + d) elements
        else [leaf (2 + d) L_ExpressionList]
    | GE_tuple false None self =>
        hdr (2 + d) L_ExpressionList 1 :: node (3 + d) self
    | GE_other self =>
        hdr (2 + d) L_ExpressionList 1 :: node (3 + d) self
    end
  else node (2 + d) (ge_self g).

(* the LIMIT / LIMIT BY / OFFSET block, identical in both SelectQuery printers *)
Definition emit_limit_block (d : nat) (n : select_query) : list line :=
  if is_some (sq_limit_by_limit n) then
    opt_node (S d) (sq_limit_by_offset n)
    ++ opt_node (S d) (sq_limit_by_limit n)
    ++ when (nonempty (sq_limit_by n)) (expr_list (S d) (sq_limit_by n))
    ++ opt_node (S d) (sq_offset n)
    ++ opt_node (S d) (sq_limit n)
  else if nonempty (sq_limit_by n) then
    opt_node (S d) (sq_limit n)
    ++ expr_list (S d) (sq_limit_by n)
  else
    opt_node (S d) (sq_offset n)
    ++ opt_node (S d) (sq_limit n).

(* explainSelectQuery(sb, n, indent(d), d) *)
Definition explain_select_query (d : nat) (n : select_query) : list line :=
  hdr d L_SelectQuery (count_select_query_children n)
  :: when (nonempty (sq_with n)) (expr_list (S d) (sq_with n))
  ++ expr_list (S d) (sq_columns n)
  ++ when (is_some (sq_from n) || is_some (sq_array_join n))
          (tables_with_array_join (S d) (sq_from n) (sq_array_join n))
  ++ opt_node (S d) (sq_prewhere n)
  ++ opt_node (S d) (sq_where n)
  ++ when (nonempty (sq_group_by n) && negb (sq_group_by_all n))
          (hdr (S d) L_ExpressionList (List.length (sq_group_by n))
           :: flat_map (emit_group_elem (sq_grouping_sets n) d) (sq_group_by n))
  ++ opt_node (S d) (sq_having n)
  ++ when (pos (sq_window n))
          (hdr (S d) L_ExpressionList (sq_window n)
           :: repeat (leaf (S (S d)) L_WindowListElement) (sq_window n))
  ++ opt_node (S d) (sq_qualify n)
  ++ when (nonempty (sq_order_by n)) (expr_list (S d) (sq_order_by n))
  ++ when (pos (sq_settings n) && nonempty (sq_interpolate n) && negb (sq_settings_after_format n))
          [leaf (S d) L_Set]
  ++ when (nonempty (sq_interpolate n)) (expr_list (S d) (sq_interpolate n))
  ++ emit_limit_block d n
  ++ when (pos (sq_settings n) && negb (nonempty (sq_interpolate n)) && negb (sq_settings_after_format n))
          [leaf (S d) L_Set]
  ++ opt_node (S d) (sq_top n)
  ++ when (nonempty (sq_distinct_on n))
          (leaf (S d) L_Literal_UInt64_1 :: expr_list (S d) (sq_distinct_on n)).

(* Node(sb, stmt, d) for a member of a Selects list *)
Definition node_item (d : nat) (s : sel_item) : list line :=
  match s with
  | ItemSelect q => explain_select_query d q
  | ItemOther o => node d (o_tree o)
  end.

(* explainSelectQueryWithInheritedWith(sb, stmt, inheritedWith, d) *)
Definition explain_select_query_with_inherited_with (d : nat) (stmt : sel_item)
           (inherited_with : list rose) : list line :=
  match stmt with
  | ItemOther o => node d (o_tree o)                       (* not a SelectQuery: output normally *)
  | ItemSelect sq =>
      if nonempty (sq_with sq) then explain_select_query d sq      (* has its own WITH *)
      else
        hdr d L_SelectQuery (count_select_query_children sq + 1)
        :: expr_list (S d) (sq_columns sq)
        ++ when (is_some (sq_from sq) || is_some (sq_array_join sq))
                (tables_with_array_join (S d) (sq_from sq) (sq_array_join sq))
        ++ opt_node (S d) (sq_prewhere sq)
        ++ opt_node (S d) (sq_where sq)
        ++ when (nonempty (sq_group_by sq) && negb (sq_group_by_all sq))
                (hdr (S d) L_ExpressionList (List.length (sq_group_by sq))
                 :: flat_map (fun g => node (2 + d) (ge_self g)) (sq_group_by sq))
        ++ opt_node (S d) (sq_having sq)
        ++ when (pos (sq_window sq))
                (hdr (S d) L_ExpressionList (sq_window sq)
                 :: repeat (leaf (S (S d)) L_WindowListElement) (sq_window sq))
        ++ opt_node (S d) (sq_qualify sq)
        ++ when (nonempty (sq_order_by sq)) (expr_list (S d) (sq_order_by sq))
        ++ when (pos (sq_settings sq) && nonempty (sq_interpolate sq) && negb (sq_settings_after_format sq))
                [leaf (S d) L_Set]
        ++ when (nonempty (sq_interpolate sq)) (expr_list (S d) (sq_interpolate sq))
        ++ emit_limit_block d sq
        ++ when (pos (sq_settings sq) && negb (nonempty (sq_interpolate sq)) && negb (sq_settings_after_format sq))
                [leaf (S d) L_Set]
        ++ opt_node (S d) (sq_top sq)
        ++ when (nonempty (sq_distinct_on sq))
                (leaf (S d) L_Literal_UInt64_1 :: expr_list (S d) (sq_distinct_on sq))
        ++ expr_list (S d) inherited_with
  end.

(* ---------------------------------------------------------------------------------------- *)
(** * SelectWithUnionQuery *)

(* extractWithClause (for a nested union the recursion result is the field o_with) *)
Definition extract_with_clause (s : sel_item) : list rose :=
  match s with
  | ItemSelect q => sq_with q
  | ItemOther o => o_with o
  end.

(* `sq, ok := sel.( *ast.SelectQuery); ok && P sq` *)
Definition is_select_with (P : select_query -> bool) (s : sel_item) : bool :=
  match s with ItemSelect q => P q | ItemOther _ => false end.

(* the first SelectQuery of the list satisfying P (`for .. { if .. { ..; break } }`) *)
Fixpoint first_select (P : select_query -> bool) (l : list sel_item) : option select_query :=
  match l with
  | [] => None
  | ItemSelect q :: r => if P q then Some q else first_select P r
  | ItemOther _ :: r => first_select P r
  end.

(* ---- unionTail: which trailing clauses are output by the enclosing node ----
   noFormatOf / noSettingsOf are *ast.SelectQuery pointers that the methods compare with the
   members of n.Selects; pointer identity is modelled by the position of the member in
   n.Selects ([None]: nil, or a pointer that is no member).  Assumption: no pointer occurs twice
   in n.Selects (true of parser output, where every node is allocated once). *)
Record union_tail := mkTail {
  t_no_format : bool;
  t_no_format_of : option nat;
  t_no_settings : bool;
  t_no_settings_of : option nat
}.

Definition tail_none : union_tail := mkTail false None false None.          (* unionTail{} *)
Definition tail_no_format : union_tail := mkTail true None false None.      (* unionTail{noFormat: true} *)

(* sq == t.noXxxOf, for the member at position i *)
Definition is_idx (o : option nat) (i : nat) : bool :=
  match o with Some j => Nat.eqb i j | None => false end.

(* func (t unionTail) format(sq) *)
Definition tail_format (t : union_tail) (i : nat) (sq : select_query) : option rose :=
  if t_no_format t || is_idx (t_no_format_of t) i then None else sq_format sq.

(* func (t unionTail) unionSettings(n) *)
Definition tail_union_settings (t : union_tail) (n : union_query) : nat :=
  if t_no_settings t then O else u_settings n.

(* func (t unionTail) selectSettings(sq) *)
Definition tail_select_settings (t : union_tail) (i : nat) (sq : select_query) : nat :=
  if is_idx (t_no_settings_of t) i then O else sq_settings sq.

(* `for _, sel := range n.Selects { if sq, ok := ..; ok && P sq { count++; break } }` with the
   position of sel: does some SelectQuery member satisfy P *)
Fixpoint exists_select_i (P : nat -> select_query -> bool) (i : nat) (l : list sel_item) : bool :=
  match l with
  | [] => false
  | ItemSelect q :: r => if P i q then true else exists_select_i P (S i) r
  | ItemOther _ :: r => exists_select_i P (S i) r
  end.

(* the same loop when its body uses the member: the first SelectQuery member satisfying P *)
Fixpoint first_select_i (P : nat -> select_query -> bool) (i : nat) (l : list sel_item)
  : option (nat * select_query) :=
  match l with
  | [] => None
  | ItemSelect q :: r => if P i q then Some (i, q) else first_select_i P (S i) r
  | ItemOther _ :: r => first_select_i P (S i) r
  end.

Definition tail_has_format (t : union_tail) (i : nat) (q : select_query) : bool :=
  is_some (tail_format t i q).

Definition tail_legacy_settings (t : union_tail) (i : nat) (q : select_query) : bool :=
  sq_settings_after_format q && pos (tail_select_settings t i q).

(* countSelectUnionChildrenTail *)
Definition count_select_union_children_tail (n : union_query) (t : union_tail) : nat :=
  (1
   + b2n (existsb (is_select_with (fun q => is_some (sq_into_outfile q))) (u_selects n))
   + b2n (exists_select_i (tail_has_format t) 0 (u_selects n))
   + b2n (u_settings_before_format n && pos (tail_union_settings t n))
   + (if u_settings_after_format n && pos (tail_union_settings t n)
      then 1
      else b2n (exists_select_i (tail_legacy_settings t) 0 (u_selects n))))%nat.

(* countSelectUnionChildren *)
Definition count_select_union_children (n : union_query) : nat :=
  count_select_union_children_tail n tail_none.

(* the INTO OUTFILE loop (textually duplicated in the two union printers) *)
Definition emit_outfile (d : nat) (n : union_query) : list line :=
  match first_select (fun q => is_some (sq_into_outfile q)) (u_selects n) with
  | Some q => match sq_into_outfile q with
              | Some f => [leaf (S d) (L_outfile f)]
              | None => []
              end
  | None => []
  end.

(* explainUnionTail(sb, n, indent(d), d, tail) *)
Definition explain_union_tail (d : nat) (n : union_query) (t : union_tail) : list line :=
  when (u_settings_before_format n && pos (tail_union_settings t n)) [leaf (S d) L_Set]
  ++ (match first_select_i (tail_has_format t) 0 (u_selects n) with
      | Some (i, q) => opt_node (S d) (tail_format t i q)
      | None => []
      end)
  ++ (if u_settings_after_format n && pos (tail_union_settings t n) then [leaf (S d) L_Set]
      else when (exists_select_i (tail_legacy_settings t) 0 (u_selects n)) [leaf (S d) L_Set]).

(* `for i, sel := range groupedSelects { if i > 0 && len(inheritedWith) > 0 {..} else {..} }` *)
Fixpoint emit_grouped (d : nat) (inherited_with : list rose) (first : bool) (l : list sel_item)
  : list line :=
  match l with
  | [] => []
  | sel :: r =>
      (if negb first && nonempty inherited_with
       then explain_select_query_with_inherited_with d sel inherited_with
       else node_item d sel)
      ++ emit_grouped d inherited_with false r
  end.

(* explainSelectWithUnionQueryTail(sb, n, indent(d), d, tail) *)
Definition explain_select_with_union_query_tail (d : nat) (n : union_query) (t : union_tail)
  : list line :=
  hdr d L_SelectWithUnionQuery (count_select_union_children_tail n t)
  :: hdr (S d) L_ExpressionList (List.length (u_grouped n))
  :: emit_grouped (S (S d))
       (match u_selects n with s :: _ => extract_with_clause s | [] => [] end)
       true (u_grouped n)
  ++ emit_outfile d n
  ++ explain_union_tail d n t.

(* explainSelectWithUnionQuery(sb, n, indent(d), d) *)
Definition explain_select_with_union_query (d : nat) (n : union_query) : list line :=
  explain_select_with_union_query_tail d n tail_none.

(* explainAsSelectWithoutFormat(sb, stmt, d) for a SelectWithUnionQuery (CREATE ... AS SELECT) *)
Definition explain_as_select_without_format (d : nat) (n : union_query) : list line :=
  explain_select_with_union_query_tail d n tail_no_format.

(* ExplainSelectWithInheritedWith(sb, stmt, inheritedWith, d): the recursion into nested unions /
   intersects is abstracted: such a member is an ItemOther whose o_tree is what is printed *)
Definition explain_select_with_inherited_with (d : nat) (inherited_with : list rose) (s : sel_item)
  : list line :=
  match s with
  | ItemSelect _ => explain_select_query_with_inherited_with d s inherited_with
  | ItemOther o => node d (o_tree o)
  end.

(* explainSelectWithUnionQueryWithInheritedWith(sb, n, inheritedWith, d, tail) *)
Definition explain_select_with_union_query_with_inherited_with (d : nat) (n : union_query)
           (inherited_with : list rose) (t : union_tail) : list line :=
  hdr d L_SelectWithUnionQuery (count_select_union_children_tail n t)
  :: hdr (S d) L_ExpressionList (List.length (u_grouped n))
  :: flat_map (explain_select_with_inherited_with (S (S d)) inherited_with) (u_grouped n)
  ++ emit_outfile d n
  ++ explain_union_tail d n t.

(* ---- the tails the enclosing statements pass (statements.go) ---- *)

(* explainInsertQuery: unionTail{noFormat: true}; with len(n.With) > 0 the inherited-WITH
   printer, else the plain one *)
Definition explain_insert_select (d : nat) (insert_with : list rose) (n : union_query) : list line :=
  if nonempty insert_with
  then explain_select_with_union_query_with_inherited_with d n insert_with tail_no_format
  else explain_select_with_union_query_tail d n tail_no_format.

(* explainExplainQuery: the tail computed from the union and its FIRST SelectQuery member
   (`for _, sel := range swu.Selects { if sq, ok := ..; ok { ...; break } }`) *)
Definition explain_query_tail (n : union_query) : union_tail :=
  let has_settings_after_format := u_settings_after_format n && pos (u_settings n) in
  match first_select_i (fun _ _ => true) 0 (u_selects n) with
  | Some (i, sq) =>
      mkTail false
             (if is_some (sq_format sq) then Some i else None)
             has_settings_after_format
             (if sq_settings_after_format sq && pos (sq_settings sq) && negb has_settings_after_format
              then Some i else None)
  | None => mkTail false None has_settings_after_format None
  end.

Definition explain_explain_select (d : nat) (n : union_query) : list line :=
  explain_select_with_union_query_tail d n (explain_query_tail n).

(* ---------------------------------------------------------------------------------------- *)
(** * SelectIntersectExceptQuery *)

Definition item_is_union (s : sel_item) : bool :=
  match s with ItemSelect _ => false | ItemOther o => o_is_union o end.

Fixpoint emit_intersect (d : nat) (has_except : bool) (inherited_with : list rose) (first : bool)
         (l : list sel_item) : list line :=
  match l with
  | [] => []
  | sel :: r =>
      (if has_except && first then
         if item_is_union sel then node_item (S d) sel
         else hdr (S d) L_SelectWithUnionQuery 1
              :: hdr (S (S d)) L_ExpressionList 1
              :: node_item (3 + d) sel
       else if negb first && nonempty inherited_with
       then explain_select_query_with_inherited_with (S d) sel inherited_with
       else node_item (S d) sel)
      ++ emit_intersect d has_except inherited_with false r
  end.

(* explainSelectIntersectExceptQuery(sb, n, indent(d), d) *)
Definition explain_select_intersect_except_query (d : nat) (n : intersect_query) : list line :=
  hdr d L_SelectIntersectExceptQuery (List.length (i_selects n))
  :: emit_intersect d (i_has_except n)
       (match i_selects n with s :: _ => extract_with_clause s | [] => [] end)
       true (i_selects n).

(* ---------------------------------------------------------------------------------------- *)
(** * What the correspondence driver prints: header count and number of lines printed directly
      beneath the first line *)

Definition header_count (ls : list line) : nat :=
  match ls with
  | l :: _ => match nkids l with Some k => k | None => 0 end
  | [] => 0
  end.

Definition direct_children (ls : list line) : nat :=
  match ls with
  | l :: r => List.length (filter (fun x => Nat.eqb (indent x) (S (indent l))) r)
  | [] => 0
  end.
