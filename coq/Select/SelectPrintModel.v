(* SELECT core -- executable model (DEFINITIONS ONLY) of the EXPLAIN printer for the AST of
   SelectParseModel.v:

     /repo/internal/explain/explain.go       Node (nil -> "Function tuple / ExpressionList"), Explain
     /repo/internal/explain/expressions.go   explainIdentifier / formatIdentifierName, explainLiteral,
                                             explainBinaryExpr (+ collectConcatOperands / collectLogicalOperands),
                                             explainUnaryExpr, explainSubquery, explainAliasedExpr, explainAsterisk
     /repo/internal/explain/functions.go     explainFunctionCall / explainFunctionCallWithAlias (plain calls)
     /repo/internal/explain/format.go        FormatLiteral, escapeStringLiteral, OperatorToFunction, ...
     /repo/internal/explain/tables.go        explainTablesInSelectQueryElement, explainTableExpression,
                                             explainTableIdentifier[WithAlias]
     /repo/internal/explain/select.go        explainOrderByElement; the SelectQuery / SelectWithUnionQuery
                                             printers are those of Select/SelectExplainModel.v, fed with the
                                             already rendered children

   Expressions are rendered to trees ([rose]); a query is rendered to lines by
   SelectExplainModel.explain_select_with_union_query.  A query below the top level (Subquery)
   is turned into a tree with the verified recogniser LineTree.parse_lines; when its lines are not one
   tree (a "(children 0)" line) the result is OutOfFragment, never a guess.

   [Panic site]: the Go printer would dereference a nil pointer there.

   What the printer model does not cover yields OutOfFragment (never a guess): [print_query] first
   tests SelectParseModel.printable_query -- identifier parts with bytes outside 1..127 or JSON-path
   parts (sanitizeUTF8 / ^ formatting), function names that handleSpecialFunction /
   NormalizeFunctionName treat specially, negated integers above 2^63 (float formatting), union-mode
   grouping, "(children 0)" below a Subquery, a Subquery with a nil query -- and only then runs the
   transcription ([explain_expr] ... are meaningful under that test only).
   SelectCoreProof.print_query_ok proves that the test is sufficient for an [Ok] result. *)
From Coq Require Import List NArith Bool String Ascii.
From DC Require Import Base.Item Gen.TokenTable Tree.LineTree Select.SelectExplainModel.
From DC Require Import Select.SelectParseModel.
Import ListNotations.
Local Open Scope N_scope.

Definition B (s : string) : list N := SelectParseModel.bytes_of s.
Definition beq := SelectParseModel.bytes_eqb.

(* ------------------------------------------------------------------------------------------ *)
(** * Strings *)

(* escapeAlias / escapeFunctionAlias / the escaping of escapeIdentifierPart:
   ReplaceAll(s, "\\", "\\\\") then ReplaceAll(_, "'", "\\'") *)
Definition escape_quotes (s : list N) : list N :=
  flat_map (fun b => if b =? 92 then [92; 92] else if b =? 39 then [92; 39] else [b]) s.

(* escapeStringLiteral — format.go:49-75 *)
Definition escape_string_literal (s : list N) : list N :=
  flat_map (fun b =>
    if b =? 92 then [92; 92; 92; 92]
    else if b =? 39 then [92; 92; 92; 39]
    else if b =? 10 then [92; 92; 110]
    else if b =? 9 then [92; 92; 116]
    else if b =? 13 then [92; 92; 114]
    else if b =? 0 then [92; 92; 48]
    else if b =? 8 then [92; 92; 98]
    else if b =? 12 then [92; 92; 102]
    else [b]) s.

(* formatIdentifierName for parts without ^ prefixes (precondition) *)
Fixpoint format_identifier_name (parts : list (list N)) : list N :=
  match parts with
  | [] => []
  | [p] => escape_quotes p
  | p :: r => escape_quotes p ++ 46 :: format_identifier_name r
  end.

(* " (alias %s)" *)
Definition alias_sfx (alias : list N) : list N := B " (alias " ++ alias ++ [41].
(* the `if alias != ""` form *)
Definition opt_alias_sfx (alias : list N) : list N :=
  match alias with [] => [] | _ => alias_sfx alias end.

(* FormatLiteral — format.go:108-145 *)
Definition format_literal (v : lit) : list N :=
  match v with
  | LInt64 n => B "UInt64_" ++ dec n                 (* val >= 0 always *)
  | LUInt64 n => B "UInt64_" ++ dec n
  | LString s => [92; 39] ++ escape_string_literal s ++ [92; 39]
  | LBool true => B "Bool_1"
  | LBool false => B "Bool_0"
  | LNull => B "NULL"
  end.

(* OperatorToFunction — format.go:476-513 *)
Definition operator_to_function (op : list N) : list N :=
  if beq op (B "+") then B "plus"
  else if beq op (B "-") then B "minus"
  else if beq op (B "*") then B "multiply"
  else if beq op (B "/") then B "divide"
  else if beq op (B "DIV") then B "intDiv"
  else if beq op (B "%") || beq op (B "MOD") then B "modulo"
  else if beq op (B "=") || beq op (B "==") then B "equals"
  else if beq op (B "!=") || beq op (B "<>") then B "notEquals"
  else if beq op (B "<") then B "less"
  else if beq op (B ">") then B "greater"
  else if beq op (B "<=") then B "lessOrEquals"
  else if beq op (B ">=") then B "greaterOrEquals"
  else if beq op (B "<=>") then B "isNotDistinctFrom"
  else if beq op (B "AND") then B "and"
  else if beq op (B "OR") then B "or"
  else if beq op (B "||") then B "concat"
  else to_lower op.

Definition unary_operator_to_function (op : unop) : list N :=
  match op with UMinus => B "negate" | UNot => B "not" end.

Definition s_concat := B "||".

(* ------------------------------------------------------------------------------------------ *)
(** * Tree building blocks *)

Definition leaf_node (l : list N) : rose := Node l [].

(* Node(sb, nil, depth): "Function tuple (children 1)" / " ExpressionList" *)
Definition nil_tuple : rose := Node (B "Function tuple") [Node (B "ExpressionList") []].

(* "Function <f>[ (alias a)] (children 1)" / " ExpressionList[ (children n)]" / the arguments *)
Definition function_node (label_rest : list N) (args : list rose) : rose :=
  Node (B "Function " ++ label_rest) [Node (B "ExpressionList") args].

(* append to the first line of a tree: "<label> (alias a)" *)
Definition with_alias (t : rose) (alias : list N) : rose :=
  match t with Node l ks => Node (l ++ alias_sfx alias) ks end.

Definition app_res (a b : res (list rose)) : res (list rose) :=
  bind a (fun x => bind b (fun y => Ok (x ++ y))).
Definition single (a : res rose) : res (list rose) := bind a (fun x => Ok [x]).

(* explainUnaryExpr's folding of "-" applied to an unparenthesised integer literal *)
Definition negated_literal (v : lit) : option (res rose) :=
  match v with
  | LInt64 n =>
      Some (if n =? 0 then Ok (leaf_node (B "Literal UInt64_0"))
            else Ok (leaf_node (B "Literal Int64_-" ++ dec n)))
  | LUInt64 n =>
      Some (if n =? 0 then Ok (leaf_node (B "Literal UInt64_0"))
            else if n <=? 9223372036854775808 then Ok (leaf_node (B "Literal Int64_-" ++ dec n))
            else OutOfFragment OofNegFloat)
  | _ => None
  end.

(* explainAliasedExpr's folding: the same as without alias (unparenthesised literal only, -0 is UInt64_0), with
   " (alias a)" appended to the Literal line *)
Definition aliased_negated_literal (v : lit) (alias : list N) : option (res rose) :=
  match negated_literal v with
  | Some r => Some (bind r (fun t => Ok (with_alias t alias)))
  | None => None
  end.

(* a nested query: its lines at depth 0, read back as one tree ([render] prints a leaf without
   suffix and parse_lines identifies "(children 0)" with it: a nested empty list would lose its
   "(children 0)"; [printable_query true] excludes it) *)
Definition tree_of_lines (ls : list line) : res rose :=
  match parse_lines ls with
  | Some t => Ok t
  | None => OutOfFragment OofNotATree
  end.

Definition empty_sq : select_query :=
  mkSQ [] [] None [] None None None None [] false false None None 0 [] [] None [] None None None 0
       false None None.

(* ------------------------------------------------------------------------------------------ *)
(** * The printer *)

Fixpoint explain_expr (e : expr) : res rose :=
  match e with
  | EIdent parts alias _ =>                                            (* explainIdentifier *)
      Ok (leaf_node (B "Identifier " ++ format_identifier_name parts ++
                     opt_alias_sfx (escape_quotes alias)))
  | ELit v _ => Ok (leaf_node (B "Literal " ++ format_literal v))      (* explainLiteral *)
  | EUnary op operand =>                                               (* explainUnaryExpr *)
      let generic :=
        bind (match operand with Some x => explain_expr x | None => Ok nil_tuple end) (fun c =>
        Ok (function_node (unary_operator_to_function op) [c])) in
      match op, operand with
      | UMinus, Some (ELit v false) =>
          match negated_literal v with Some r => r | None => generic end
      | _, _ => generic
      end
  | EBinary op l r _ =>                                                (* explainBinaryExpr *)
      let fname := operator_to_function op in
      if beq op s_concat then
        let fix operands (x : expr) : res (list rose) :=               (* collectConcatOperands *)
          match x with
          | EBinary opx a b _ =>
              if beq opx s_concat
              then app_res (operands a)
                           (match b with Some b' => operands b' | None => Ok [nil_tuple] end)
              else single (explain_expr x)
          | _ => single (explain_expr x)
          end in
        bind (app_res (operands l)
                      (match r with Some r' => operands r' | None => Ok [nil_tuple] end)) (fun args =>
        Ok (function_node fname args))
      else if beq op (B "OR") || beq op (B "AND") then
        let fix operands (x : expr) : res (list rose) :=               (* collectLogicalOperands *)
          match x with
          | EBinary opx a b parx =>
              if beq opx op && negb parx
              then app_res (operands a)
                           (match b with Some b' => operands b' | None => Ok [nil_tuple] end)
              else single (explain_expr x)
          | _ => single (explain_expr x)
          end in
        bind (app_res (operands l)
                      (match r with Some r' => operands r' | None => Ok [nil_tuple] end)) (fun args =>
        Ok (function_node fname args))
      else
        bind (explain_expr l) (fun cl =>
        bind (match r with Some r' => explain_expr r' | None => Ok nil_tuple end) (fun cr =>
        Ok (function_node fname [cl; cr])))
  | EFunc name args alias =>                                           (* explainFunctionCall *)
      bind ((fix go (l : list expr) : res (list rose) :=
               match l with
               | [] => Ok []
               | x :: r => bind (explain_expr x) (fun t => bind (go r) (fun ts => Ok (t :: ts)))
               end) args) (fun cs =>
      Ok (function_node (name ++ opt_alias_sfx (escape_quotes alias)) cs))
  | ESubquery q alias =>                                               (* explainSubquery *)
      match q with
      | None => OutOfFragment OofNilSubquery                           (* header without a child line *)
      | Some q' =>
          bind (query_uq q') (fun u =>
          bind (tree_of_lines (explain_select_with_union_query 0 u)) (fun t =>
          Ok (Node (B "Subquery" ++ opt_alias_sfx (escape_quotes alias)) [t])))
      end
  | EAsterisk table =>                                                 (* explainAsterisk, no transformers *)
      match table with
      | [] => Ok (leaf_node (B "Asterisk"))
      | _ => Ok (Node (B "QualifiedAsterisk") [leaf_node (B "Identifier " ++ table)])
      end
  | EAliased e' alias =>                                               (* explainAliasedExpr *)
      let a := escape_quotes alias in
      match e' with
      | ELit _ _ => bind (explain_expr e') (fun t => Ok (with_alias t a))
      | EBinary _ _ _ _ => bind (explain_expr e') (fun t => Ok (with_alias t a))
      | EUnary op operand =>
          let generic :=
            bind (match operand with Some x => explain_expr x | None => Ok nil_tuple end) (fun c =>
            Ok (function_node (unary_operator_to_function op ++ alias_sfx a) [c])) in
          match op, operand with
          | UMinus, Some (ELit v false) =>
              match aliased_negated_literal v a with Some r => r | None => generic end
          | _, _ => generic
          end
      | EFunc name args _ =>                                           (* explainFunctionCallWithAlias(e, n.Alias) *)
          bind ((fix go (l : list expr) : res (list rose) :=
                   match l with
                   | [] => Ok []
                   | x :: r => bind (explain_expr x) (fun t => bind (go r) (fun ts => Ok (t :: ts)))
                   end) args) (fun cs =>
          Ok (function_node (name ++ opt_alias_sfx a) cs))
      | EIdent parts _ _ =>                                            (* e.Name(), unescaped *)
          Ok (leaf_node (B "Identifier " ++ join_dot parts ++ alias_sfx a))
      | _ => explain_expr e'                                           (* default: Node(sb, n.Expr, depth) *)
      end
  end
(* the SelectWithUnionQuery as the record of SelectExplainModel *)
with query_uq (q : query) : res union_query :=
  match q with
  | Query selects modes _ =>
      if would_group selects modes then OutOfFragment OofUnionGrouping
      else
        bind ((fix go (l : list (option select)) : res (list sel_item) :=
                 match l with
                 | [] => Ok []
                 | None :: _ => Panic PanicNilSelect                  (* explainSelectQuery(nil) *)
                 | Some x :: r =>
                     bind (select_sq x) (fun i => bind (go r) (fun is_ => Ok (ItemSelect i :: is_)))
                 end) selects) (fun items =>
        Ok (mkUQ items items 0 false false))
  end
(* the SelectQuery as the record of SelectExplainModel *)
with select_sq (s : select) : res select_query :=
  match s with
  | Select _ columns from where_ group_by having order_by limit offset =>
      let exprs := fix go (l : list expr) : res (list rose) :=
        match l with
        | [] => Ok []
        | x :: r => bind (explain_expr x) (fun t => bind (go r) (fun ts => Ok (t :: ts)))
        end in
      let opt := fun (o : option expr) =>
        match o with
        | Some x => bind (explain_expr x) (fun t => Ok (Some t))
        | None => Ok None
        end in
      bind (exprs columns) (fun cols =>
      bind (match from with
            | None => Ok None
            | Some elems =>
                bind ((fix go (l : list table_elem) : res (list rose) :=
                         match l with
                         | [] => Ok []
                         | x :: r => bind (telem_rose x) (fun t => bind (go r) (fun ts => Ok (t :: ts)))
                         end) elems) (fun ts => Ok (Some ts))
            end) (fun from' =>
      bind (opt where_) (fun where' =>
      bind (exprs group_by) (fun groups =>
      bind (opt having) (fun having' =>
      bind ((fix go (l : list order_elem) : res (list rose) :=
               match l with
               | [] => Ok []
               | x :: r => bind (order_rose x) (fun t => bind (go r) (fun ts => Ok (t :: ts)))
               end) order_by) (fun orders =>
      bind (opt limit) (fun limit' =>
      bind (opt offset) (fun offset' =>
      Ok (mkSQ [] [] None cols from' None None where' (map GE_other groups) false false having' None 0
               orders [] limit' [] None None offset' 0 false None None)))))))))
  end
(* explainTablesInSelectQueryElement / explainTableExpression *)
with telem_rose (t : table_elem) : res rose :=
  match t with
  | TableElem src alias =>
      bind (match src with
            | None => Ok nil_tuple                                     (* Node(sb, n.Table = nil, depth+1) *)
            | Some (TSIdent db tbl) =>
                let name := match db with [] => tbl | _ => db ++ 46 :: tbl end in
                Ok (leaf_node (B "TableIdentifier " ++ name ++ opt_alias_sfx alias))
            | Some (TSSubquery None) => OutOfFragment OofNilSubquery
            | Some (TSSubquery (Some q)) =>
                bind (query_uq q) (fun u =>
                bind (tree_of_lines (explain_select_with_union_query 0 u)) (fun c =>
                Ok (Node (B "Subquery" ++ opt_alias_sfx alias) [c])))
            end) (fun c =>
      Ok (Node (B "TablesInSelectQueryElement") [Node (B "TableExpression") [c]]))
  end
(* explainOrderByElement *)
with order_rose (o : order_elem) : res rose :=
  match o with
  | OrderElem e _ =>
      bind (match e with Some x => explain_expr x | None => Ok nil_tuple end) (fun c =>
      Ok (Node (B "OrderByElement") [c]))
  end.

(* Explain(stmt) for a statement of the fragment *)
Definition print_query_unchecked (q : query) : res (list line) :=
  bind (query_uq q) (fun u => Ok (explain_select_with_union_query 0 u)).

Definition print_query (q : query) : res (list line) :=
  if printable_query false q then print_query_unchecked q
  else OutOfFragment OofPrinterFragment.

(* what the correspondence compares: the concatenation over all statements *)
Fixpoint print_script (qs : list query) : res (list line) :=
  match qs with
  | [] => Ok []
  | q :: r => bind (print_query q) (fun a => bind (print_script r) (fun b => Ok (a ++ b)))
  end.

(* parser + printer on a token list (one statement): the printed lines when the statement is a node *)
Definition print_model (r : option query) : res (list line) :=
  match r with
  | Some q => print_query q
  | None => Ok []
  end.

(* source bytes -> tokens as the parser sees them: LINE_COMMENT / WHITESPACE dropped, the final EOF
   item removed *)
Definition parser_tokens (its : list item) : list item :=
  filter (fun it => negb ((it_tok it =? T_EOF) || (it_tok it =? T_WHITESPACE) || (it_tok it =? T_LINE_COMMENT))) its.
