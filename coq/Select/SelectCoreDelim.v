(* C06, fragment layer -- the SELECT-core statement parser is delimiter-respecting.

   Simulation of a run of the parser model on  toks ++ rest  (rest starts with a SEMICOLON token)
   by the run on  toks  alone (the end of the list is EOF).

   Invariant.  States are related by
       R s s'  :=  toks s' = toks s ++ rest  /\  (errs s = [] -> errs s' = [])
   (the long run has consumed exactly what the short run has consumed; as long as the short run
   has no error the long run has none).  Results are related by
       simres r r' := when r = Ok (x, s):  r' = OutOfFuel  \/  r' = Ok (x, s') with R s s'
   and nothing is claimed when the short run is not Ok.  The two runs use INDEPENDENT fuels; the
   OutOfFuel alternative of the long run is excluded at the end by SelectCoreFuel.
   Every function of the model maps related states to related results ([*_sim] lemmas, closed
   over the mutual block by induction on the short run's fuel in [core_sim]).  The relation is a
   forward simulation also for runs that report errors (a failed expect fails in both runs: no
   test of the model compares with SEMICOLON or EOF except the ones listed below), so no
   "no error so far" premise has to be propagated backwards.

   What happens at the end of the short list (all checked by the proof, case toks s = []):
     * cur = EOF vs SEMICOLON.  isClauseKeyword lists both; the Pratt loop stops at EOF explicitly
       and at SEMICOLON because its precedence is LOWEST; parseExpressionList /
       parseFunctionArgumentList return the empty list at EOF at once and at SEMICOLON after
       parseExpression returned nil (same value: [*_end] lemmas); every other test names a token
       that is neither.
     * peek / peekPeek while standing on the last token(s): every such test is guarded by a test
       on cur that fails for EOF and SEMICOLON alike, and names a token that is neither.
     * the skipping loop of parseParenthesizedSelect
       (`for depth > 0 && !p.currentIs(token.EOF) && !p.currentIs(token.SEMICOLON)`) stops at
       both ([skip_parens_ext]).  Before /repo 1a6cd4528 it ran THROUGH a SEMICOLON -- the one
       real asymmetry this proof found: "(1" alone was accepted without error, followed by
       "; SELECT 2" the loop swallowed the second statement.  With the fix no side condition is
       left ([unclosed_paren_is_delimited] is the former counterexample). *)
From Coq Require Import List NArith Arith Bool String Lia ZifyN ZifyNat ZifyBool.
From DC Require Import Base.Item Gen.TokenTable.
From DC Require Import Select.SelectParseModel Select.SelectCoreFuel.
Import ListNotations.
Local Open Scope N_scope.

Section Delim.

  Variable rest : list item.
  Hypothesis Hrest : tok_at rest = T_SEMICOLON.

  Definition Rel (e e' : list err) : Prop := e = [] -> e' = [].
  Definition Rst (s s' : st) : Prop := toks s' = toks s ++ rest /\ Rel (errs s) (errs s').

  Definition simres {X} (r r' : res (X * st)) : Prop :=
    match r with
    | Ok (x, s) =>
        match r' with
        | Ok (x', s') => x' = x /\ Rst s s'
        | OutOfFuel => True
        | _ => False
        end
    | _ => True
    end.

  Lemma simres_oof : forall X (r : res (X * st)), simres r OutOfFuel.
  Proof. intros X [[x s]|p|o|]; exact I. Qed.

  Lemma simres_bind {X Y} (r r' : res (X * st)) (k k' : X * st -> res (Y * st)) :
    simres r r' ->
    (forall x s s', Rst s s' -> simres (k (x, s)) (k' (x, s'))) ->
    simres (bind r k) (bind r' k').
  Proof.
    destruct r as [[x s]|p|o|]; try (intros; exact I).
    destruct r' as [[x' s']|p'|o'|]; cbn [simres bind]; intros H Hk; try contradiction.
    - destruct H as [-> H]. apply Hk. exact H.
    - apply simres_oof.
  Qed.

  Lemma Rel_snoc : forall e e' (a b : err), Rel (e ++ [a]) (e' ++ [b]).
  Proof. intros e e' a b H. apply app_eq_nil in H. destruct H. discriminate. Qed.

  Lemma ltb_zero : forall p : N, (p <? 0) = false.
  Proof. intros p. apply N.ltb_ge. lia. Qed.

  (* ---------------------------------------------------------------------------------------- *)
  (** symbolic execution of the two runs side by side *)

  (* the qualified-name loop never steps over the SEMICOLON *)
  Definition dext (r : dotted_result) : dotted_result :=
    match r with
    | DParts p r0 => DParts p (r0 ++ rest)
    | DAsterisk t r0 => DAsterisk t (r0 ++ rest)
    | DOof o => DOof o
    end.

  Ltac acc_cbn :=
    cbv beta zeta delta [cur_is peek_is peek2_is cur_kw cur_tok cur_val peek_tok peek2_tok next add_err];
    cbn [toks errs tok_at val_at tl app bind fst snd andb orb negb dext].

  (* a token list that the long run inspects: split it *)
  Ltac expose1 :=
    match goal with
    | |- context[tok_at (?l ++ rest)] => is_var l; destruct l as [|? ?]
    | |- context[val_at (?l ++ rest)] => is_var l; destruct l as [|? ?]
    | |- context[tl (?l ++ rest)] => is_var l; destruct l as [|? ?]
    end.

  (* tests on the two end markers *)
  Ltac ev_closed :=
    repeat match goal with
           | |- context[N.eqb T_EOF ?b] =>
               let v := eval vm_compute in (N.eqb T_EOF b) in
               lazymatch v with true => idtac | false => idtac end; change (N.eqb T_EOF b) with v
           | |- context[N.eqb T_SEMICOLON ?b] =>
               let v := eval vm_compute in (N.eqb T_SEMICOLON b) in
               lazymatch v with true => idtac | false => idtac end; change (N.eqb T_SEMICOLON b) with v
           | |- context[tok_in T_EOF ?l] =>
               let v := eval vm_compute in (tok_in T_EOF l) in
               lazymatch v with true => idtac | false => idtac end; change (tok_in T_EOF l) with v
           | |- context[tok_in T_SEMICOLON ?l] =>
               let v := eval vm_compute in (tok_in T_SEMICOLON l) in
               lazymatch v with true => idtac | false => idtac end; change (tok_in T_SEMICOLON l) with v
           | |- context[is_keyword T_EOF] => change (is_keyword T_EOF) with false
           | |- context[is_keyword T_SEMICOLON] => change (is_keyword T_SEMICOLON) with false
           end.

  (* the innermost scrutinee *)
  Ltac head_of t :=
    lazymatch t with
    | bind ?r _ => head_of r
    | (if ?c then _ else _) => head_of c
    | (match ?x with _ => _ end) => head_of x
    | _ => t
    end.

  (* split only the lists that the long run's current test (or call, or result) inspects *)
  Ltac expose_head :=
    lazymatch goal with
    | |- simres _ ?b =>
        let h := head_of b in
        match h with
        | context[tok_at (?l ++ rest)] => is_var l; destruct l as [|? ?]
        | context[val_at (?l ++ rest)] => is_var l; destruct l as [|? ?]
        | context[tl (?l ++ rest)] => is_var l; destruct l as [|? ?]
        end
    end.

  Ltac end_eval := repeat (progress (rewrite ?Hrest; ev_closed; acc_cbn)).

  Ltac norm :=
    cbv beta zeta; acc_cbn; end_eval;
    repeat (expose_head; acc_cbn; end_eval).

  (* c' = c for the same test on the long and on the short state *)
  Ltac cond_eq :=
    acc_cbn; end_eval; repeat (expose1; acc_cbn; end_eval); reflexivity.

  Lemma simres_if_oof {X} (c c' : bool) (o o' : oof) (B B' : res (X * st)) :
    c' = c -> simres B B' ->
    simres (if c then OutOfFragment o else B) (if c' then OutOfFragment o' else B').
  Proof. intros -> H. destruct c; [exact I|exact H]. Qed.

  Ltac rel_solve := first [assumption | apply Rel_snoc | (intros _; reflexivity)].
  Ltac rst_solve := split; [cbn [toks]; reflexivity | cbn [errs]; rel_solve].

  Ltac destruct_pairs :=
    repeat match goal with
           | x : (_ * _)%type |- _ => destruct x
           end.

  Ltac intro_cont :=
    let x := fresh "x" in let s := fresh "s" in let s' := fresh "s" in let HR := fresh "HR" in
    let l := fresh "l" in let e := fresh "e" in let l' := fresh "l" in let e' := fresh "e" in
    let Hl := fresh "Hl" in let He := fresh "He" in
    intros x s s' HR; destruct s as [l e], s' as [l' e'], HR as [Hl He];
    cbn [toks errs] in Hl, He; subst l'; destruct_pairs.

  (* calls: extended lemma by lemma *)
  Ltac sim_call := fail.
  Ltac hyp_call :=
    match goal with
    | H : context[simres] |- simres _ _ => eapply H; solve [rst_solve | discriminate | eassumption]
    end.

  Ltac is_state_res r :=
    let t := type of r in
    let t' := eval cbv delta [R] beta in t in
    lazymatch t' with res (_ * st) => idtac end.

  (* a state chosen by a test: decide the test first *)
  Ltac expose_in c :=
    match c with
    | context[tok_at (?l ++ rest)] => is_var l; destruct l as [|? ?]
    | context[val_at (?l ++ rest)] => is_var l; destruct l as [|? ?]
    | context[tl (?l ++ rest)] => is_var l; destruct l as [|? ?]
    end.

  Ltac state_if :=
    lazymatch goal with
    | |- simres _ ?B =>
        match B with
        | context[if ?c then ?a else _] =>
            let t := type of a in lazymatch t with st => idtac end;
            first [expose_in c | destruct c eqn:?]
        end
    end.

  (* the test of the short run is, literally, the test of the long run *)
  Ltac in_long h :=
    lazymatch goal with
    | |- simres _ ?b => lazymatch b with context[h] => idtac | _ => fail "the runs test different things" end
    end.

  Ltac sim_step :=
    cbv beta zeta;
    first [ (lazymatch goal with
             | |- simres (if _ then OutOfFragment _ else _) (if _ then OutOfFragment _ else _) => idtac
             end; apply simres_if_oof; [solve [cond_eq]|]) | norm;
    first [ state_if |
    lazymatch goal with
    | |- simres (Ok _) (Ok _) => unfold simres; split; [reflexivity | rst_solve]
    | |- simres (OutOfFragment _) _ => exact I
    | |- simres (Panic _) _ => exact I
    | |- simres OutOfFuel _ => exact I
    | |- simres (bind ?r _) (bind _ _) =>
        tryif is_state_res r
        then (apply simres_bind; [|intro_cont])
        else (let h := head_of r in in_long h; destruct h eqn:?)
    | |- simres ?a _ =>
        let h := head_of a in
        tryif constr_eq h a then first [hyp_call | sim_call] else (in_long h; destruct h eqn:?)
    end ] ].

  Ltac sim_auto := repeat sim_step.

  Ltac start :=
    let l := fresh "l" in let e := fresh "e" in let l' := fresh "l" in let e' := fresh "e" in
    let Hl := fresh "Hl" in let He := fresh "He" in
    intros [l e] [l' e'] [Hl He]; cbn [toks errs] in Hl, He; subst l'.

  Notation PEsim pe pe' := (forall prec s s', Rst s s' -> simres (pe prec s) (pe' prec s')).
  Notation PSUsim psu psu' := (forall s s', Rst s s' -> simres (psu s) (psu' s')).
  (* parseExpression standing on the SEMICOLON returns nil and stays *)
  Notation PEend pe' :=
    (forall prec e', pe' prec (mkSt rest e') = OutOfFuel \/ pe' prec (mkSt rest e') = Ok (None, mkSt rest e')).

  (* ---- helpers without recursion ---- *)

  Lemma parse_alias_sim : forall left s s', Rst s s' -> toks s <> [] ->
    simres (parse_alias left s) (parse_alias left s').
  Proof.
    intros left. start. intros Hne. destruct l as [|x l]; [exfalso; apply Hne; reflexivity|]. clear Hne.
    unfold parse_alias, set_alias, ret. sim_auto.
  Qed.

  Lemma parse_implicit_alias_sim : forall e s s', Rst s s' ->
    simres (parse_implicit_alias e s) (parse_implicit_alias e s').
  Proof.
    intros e0. start. unfold parse_implicit_alias, set_alias, ret. sim_auto.
  Qed.

  Ltac sim_call ::=
    first [ eapply parse_implicit_alias_sim; solve [rst_solve]
          | eapply parse_alias_sim; solve [rst_solve | discriminate] ].

  (* ---- the comma loops ---- *)

  Lemma expr_list_loop_sim : forall pe pe', PEsim pe pe' ->
    forall fuel fuel' acc s s', Rst s s' ->
    simres (expr_list_loop pe fuel acc s) (expr_list_loop pe' fuel' acc s').
  Proof.
    intros pe pe' Hpe. induction fuel as [|f IH]; intros fuel' acc; [intros; exact I|].
    destruct fuel' as [|f']; [intros; apply simres_oof|]. start.
    cbn [expr_list_loop]. unfold is_clause_keyword, ret. sim_auto.
  Qed.

  (* the list parsers standing on the SEMICOLON: parseExpression returns nil, the list is empty *)
  Lemma parse_expression_list_sim : forall pe pe', PEsim pe pe' -> PEend pe' ->
    forall fuel fuel' s s', Rst s s' ->
    simres (parse_expression_list pe fuel s) (parse_expression_list pe' fuel' s').
  Proof.
    intros pe pe' Hpe Hend fuel fuel'. start. unfold parse_expression_list, ret.
    destruct l as [|x l].
    - norm. destruct (Hend LOWEST e0) as [-> | ->]; cbn [bind]; [apply simres_oof|].
      cbn [parse_implicit_alias]. unfold ret. cbn [bind].
      destruct fuel' as [|f']; [apply simres_oof|]. cbn [expr_list_loop]. unfold ret. sim_auto.
    - sim_auto; (eapply expr_list_loop_sim; [exact Hpe|rst_solve]).
  Qed.

  Lemma arg_list_loop_sim : forall pe pe', PEsim pe pe' ->
    forall fuel fuel' acc s s', Rst s s' ->
    simres (arg_list_loop pe fuel acc s) (arg_list_loop pe' fuel' acc s').
  Proof.
    intros pe pe' Hpe. induction fuel as [|f IH]; intros fuel' acc; [intros; exact I|].
    destruct fuel' as [|f']; [intros; apply simres_oof|]. start.
    cbn [arg_list_loop]. unfold settings_clause, ret. sim_auto.
  Qed.

  Lemma parse_function_argument_list_sim : forall pe pe', PEsim pe pe' -> PEend pe' ->
    forall fuel fuel' s s', Rst s s' ->
    simres (parse_function_argument_list pe fuel s) (parse_function_argument_list pe' fuel' s').
  Proof.
    intros pe pe' Hpe Hend fuel fuel'. start. unfold parse_function_argument_list, settings_clause, ret.
    destruct l as [|x l].
    - norm. destruct (Hend LOWEST e0) as [-> | ->]; cbn [bind]; [apply simres_oof|].
      cbn [parse_implicit_alias]. unfold ret. cbn [bind].
      destruct fuel' as [|f']; [apply simres_oof|]. cbn [arg_list_loop]. unfold ret. sim_auto.
    - sim_auto; (eapply arg_list_loop_sim; [exact Hpe|rst_solve]).
  Qed.

  Ltac sim_call ::=
    first [ eapply parse_implicit_alias_sim; solve [rst_solve]
          | eapply parse_alias_sim; solve [rst_solve | discriminate]
          | eapply expr_list_loop_sim; [eassumption|solve [rst_solve]]
          | eapply arg_list_loop_sim; [eassumption|solve [rst_solve]]
          | eapply parse_expression_list_sim; [eassumption|eassumption|solve [rst_solve]]
          | eapply parse_function_argument_list_sim; [eassumption|eassumption|solve [rst_solve]] ].

  (* ---- function calls and prefix parsers ---- *)

  Lemma parse_function_call_sim : forall pe pe', PEsim pe pe' -> PEend pe' ->
    forall fuel fuel' name s s', Rst s s' -> toks s <> [] ->
    simres (parse_function_call pe fuel name s) (parse_function_call pe' fuel' name s').
  Proof.
    intros pe pe' Hpe Hend fuel fuel' name. start. intros Hne.
    destruct l as [|x l]; [exfalso; apply Hne; reflexivity|]. clear Hne.
    unfold parse_function_call, settings_clause, expect, ret. sim_auto.
  Qed.

  Lemma rest_cons : exists sm r', rest = sm :: r' /\ it_tok sm = T_SEMICOLON.
  Proof.
    pose proof Hrest as H. destruct rest as [|sm r']; [discriminate H|]. exists sm, r'. split; [reflexivity|exact H].
  Qed.

  Lemma dotted_loop_ext : forall json l parts,
    dotted_loop json parts (l ++ rest) = dext (dotted_loop json parts l).
  Proof.
    intros json l. destruct rest_cons as (sm & r' & Er & Hsm).
    assert (H : forall n l parts, (List.length l <= n)%nat ->
                dotted_loop json parts (l ++ rest) = dext (dotted_loop json parts l)).
    { induction n as [|n IH]; intros l0 parts Hn.
      - destruct l0; [|cbn in Hn; lia].
        cbn [app dotted_loop dext]. rewrite Er. cbn [dotted_loop]. rewrite Hsm. reflexivity.
      - destruct l0 as [|d l1].
        + cbn [app dotted_loop dext]. rewrite Er. cbn [dotted_loop]. rewrite Hsm. reflexivity.
        + cbn [app dotted_loop]. destruct (it_tok d =? T_DOT); [|reflexivity]. destruct l1 as [|x l2].
          * cbn [app dext]. rewrite Er. rewrite Hsm. destruct json; reflexivity.
          * cbn [app].
            destruct (json && (it_tok x =? T_CARET)); [reflexivity|].
            destruct (json && (it_tok x =? T_COLON)); [reflexivity|].
            destruct ((it_tok x =? T_IDENT) || is_keyword (it_tok x)).
            -- apply IH. cbn [List.length] in Hn. lia.
            -- destruct (it_tok x =? T_ASTERISK); reflexivity. }
    intros parts. apply (H (List.length l)). lia.
  Qed.

  Ltac sim_call ::=
    first [ eapply parse_implicit_alias_sim; solve [rst_solve]
          | eapply parse_alias_sim; solve [rst_solve | discriminate]
          | eapply expr_list_loop_sim; [eassumption|solve [rst_solve]]
          | eapply arg_list_loop_sim; [eassumption|solve [rst_solve]]
          | eapply parse_expression_list_sim; [eassumption|eassumption|solve [rst_solve]]
          | eapply parse_function_argument_list_sim; [eassumption|eassumption|solve [rst_solve]]
          | eapply parse_function_call_sim; [eassumption|eassumption|solve [rst_solve]|discriminate] ].

  Lemma parse_identifier_or_function_sim : forall pe pe', PEsim pe pe' -> PEend pe' ->
    forall fuel fuel' s s', Rst s s' -> toks s <> [] ->
    simres (parse_identifier_or_function pe fuel s) (parse_identifier_or_function pe' fuel' s').
  Proof.
    intros pe pe' Hpe Hend fuel fuel'. start. intros Hne.
    destruct l as [|x l]; [exfalso; apply Hne; reflexivity|]. clear Hne.
    unfold parse_identifier_or_function, ret. cbv beta zeta. cbn [next toks tl app].
    rewrite dotted_loop_ext. cbn [errs]. sim_auto.
  Qed.

  Ltac nonempty l Hne := destruct l as [|? ?]; [exfalso; apply Hne; reflexivity|]; clear Hne.

  Lemma parse_keyword_as_identifier_sim : forall s s', Rst s s' -> toks s <> [] ->
    simres (parse_keyword_as_identifier s) (parse_keyword_as_identifier s').
  Proof.
    start. intros Hne. nonempty l Hne.
    unfold parse_keyword_as_identifier, ret. cbv beta zeta. cbn [next toks tl app].
    rewrite dotted_loop_ext. cbn [errs]. sim_auto.
  Qed.

  Lemma parse_keyword_as_function_sim : forall pe pe', PEsim pe pe' -> PEend pe' ->
    forall fuel fuel' s s', Rst s s' -> toks s <> [] ->
    simres (parse_keyword_as_function pe fuel s) (parse_keyword_as_function pe' fuel' s').
  Proof.
    intros pe pe' Hpe Hend fuel fuel'. start. intros Hne. nonempty l Hne.
    unfold parse_keyword_as_function, expect, ret. sim_auto.
  Qed.

  Lemma parse_number_sim : forall s s', Rst s s' -> toks s <> [] ->
    simres (parse_number s) (parse_number s').
  Proof.
    start. intros Hne. nonempty l Hne. unfold parse_number, ret. sim_auto.
  Qed.

  Lemma parse_unary_minus_sim : forall pe pe', PEsim pe pe' ->
    forall s s', Rst s s' -> toks s <> [] -> simres (parse_unary_minus pe s) (parse_unary_minus pe' s').
  Proof.
    intros pe pe' Hpe. start. intros Hne. nonempty l Hne. unfold parse_unary_minus, ret. sim_auto.
  Qed.

  Lemma parse_unary_plus_sim : forall pe pe', PEsim pe pe' ->
    forall s s', Rst s s' -> toks s <> [] -> simres (parse_unary_plus pe s) (parse_unary_plus pe' s').
  Proof.
    intros pe pe' Hpe. start. intros Hne. nonempty l Hne. unfold parse_unary_plus, ret. sim_auto.
  Qed.

  Lemma parse_not_sim : forall pe pe', PEsim pe pe' ->
    forall s s', Rst s s' -> toks s <> [] -> simres (parse_not pe s) (parse_not pe' s').
  Proof.
    intros pe pe' Hpe. start. intros Hne. nonempty l Hne. unfold parse_not, ret. sim_auto.
  Qed.

  Lemma parse_grouped_or_tuple_sim : forall pe pe' psu psu', PEsim pe pe' -> PSUsim psu psu' ->
    forall s s', Rst s s' -> toks s <> [] ->
    simres (parse_grouped_or_tuple pe psu s) (parse_grouped_or_tuple pe' psu' s').
  Proof.
    intros pe pe' psu psu' Hpe Hpsu. start. intros Hne. nonempty l Hne.
    unfold parse_grouped_or_tuple, expect, ret. sim_auto.
  Qed.

  Ltac sim_call ::=
    first [ eapply parse_implicit_alias_sim; solve [rst_solve]
          | eapply parse_alias_sim; solve [rst_solve | discriminate]
          | eapply parse_keyword_as_identifier_sim; solve [rst_solve | discriminate]
          | eapply parse_number_sim; solve [rst_solve | discriminate]
          | eapply expr_list_loop_sim; [eassumption|solve [rst_solve]]
          | eapply arg_list_loop_sim; [eassumption|solve [rst_solve]]
          | eapply parse_expression_list_sim; [eassumption|eassumption|solve [rst_solve]]
          | eapply parse_function_argument_list_sim; [eassumption|eassumption|solve [rst_solve]]
          | eapply parse_function_call_sim; [eassumption|eassumption|solve [rst_solve]|discriminate]
          | eapply parse_identifier_or_function_sim; [eassumption|eassumption|solve [rst_solve]|discriminate]
          | eapply parse_keyword_as_function_sim; [eassumption|eassumption|solve [rst_solve]|discriminate]
          | eapply parse_unary_minus_sim; [eassumption|solve [rst_solve]|discriminate]
          | eapply parse_unary_plus_sim; [eassumption|solve [rst_solve]|discriminate]
          | eapply parse_not_sim; [eassumption|solve [rst_solve]|discriminate]
          | eapply parse_grouped_or_tuple_sim; [eassumption|eassumption|solve [rst_solve]|discriminate] ].

  Lemma parse_prefix_sim : forall pe pe' psu psu', PEsim pe pe' -> PEend pe' -> PSUsim psu psu' ->
    forall fuel fuel' s s', Rst s s' ->
    simres (parse_prefix pe psu fuel s) (parse_prefix pe' psu' fuel' s').
  Proof.
    intros pe pe' psu psu' Hpe Hend Hpsu fuel fuel'. start.
    unfold parse_prefix, ret. sim_auto.
  Qed.

  (* ---- infix parsers ---- *)

  Lemma parse_binary_sim : forall pe pe', PEsim pe pe' ->
    forall left s s', Rst s s' -> toks s <> [] ->
    simres (parse_binary pe left s) (parse_binary pe' left s').
  Proof.
    intros pe pe' Hpe left. start. intros Hne. nonempty l Hne. unfold parse_binary, ret. sim_auto.
  Qed.

  Lemma parse_dot_access_sim : forall pe pe', PEsim pe pe' -> PEend pe' ->
    forall fuel fuel' left s s', Rst s s' -> toks s <> [] ->
    simres (parse_dot_access pe fuel left s) (parse_dot_access pe' fuel' left s').
  Proof.
    intros pe pe' Hpe Hend fuel fuel' left. start. intros Hne. nonempty l Hne.
    unfold parse_dot_access, ret. sim_auto.
  Qed.

  Ltac sim_call ::=
    first [ eapply parse_implicit_alias_sim; solve [rst_solve]
          | eapply parse_alias_sim; solve [rst_solve | discriminate]
          | eapply parse_keyword_as_identifier_sim; solve [rst_solve | discriminate]
          | eapply parse_number_sim; solve [rst_solve | discriminate]
          | eapply expr_list_loop_sim; [eassumption|solve [rst_solve]]
          | eapply arg_list_loop_sim; [eassumption|solve [rst_solve]]
          | eapply parse_expression_list_sim; [eassumption|eassumption|solve [rst_solve]]
          | eapply parse_function_argument_list_sim; [eassumption|eassumption|solve [rst_solve]]
          | eapply parse_function_call_sim; [eassumption|eassumption|solve [rst_solve]|discriminate]
          | eapply parse_identifier_or_function_sim; [eassumption|eassumption|solve [rst_solve]|discriminate]
          | eapply parse_keyword_as_function_sim; [eassumption|eassumption|solve [rst_solve]|discriminate]
          | eapply parse_unary_minus_sim; [eassumption|solve [rst_solve]|discriminate]
          | eapply parse_unary_plus_sim; [eassumption|solve [rst_solve]|discriminate]
          | eapply parse_not_sim; [eassumption|solve [rst_solve]|discriminate]
          | eapply parse_grouped_or_tuple_sim; [eassumption|eassumption|solve [rst_solve]|discriminate]
          | eapply parse_prefix_sim; [eassumption|eassumption|eassumption|solve [rst_solve]]
          | eapply parse_binary_sim; [eassumption|solve [rst_solve]|discriminate]
          | eapply parse_dot_access_sim; [eassumption|eassumption|solve [rst_solve]|discriminate] ].

  Lemma parse_infix_sim : forall pe pe', PEsim pe pe' -> PEend pe' ->
    forall fuel fuel' left s s', Rst s s' -> toks s <> [] ->
    simres (parse_infix pe fuel left s) (parse_infix pe' fuel' left s').
  Proof.
    intros pe pe' Hpe Hend fuel fuel' left. start. intros Hne. nonempty l Hne.
    unfold parse_infix, ret. sim_auto.
  Qed.

  Lemma order_by_loop_sim : forall pe pe', PEsim pe pe' ->
    forall fuel fuel' acc s s', Rst s s' ->
    simres (order_by_loop pe fuel acc s) (order_by_loop pe' fuel' acc s').
  Proof.
    intros pe pe' Hpe. induction fuel as [|f IH]; intros fuel' acc; [intros; exact I|].
    destruct fuel' as [|f']; [intros; apply simres_oof|]. start.
    cbn [order_by_loop]. unfold ret. sim_auto.
  Qed.

  (* ---- tables ---- *)

  Lemma parse_table_expression_sim : forall psu psu', PSUsim psu psu' ->
    forall s s', Rst s s' -> simres (parse_table_expression psu s) (parse_table_expression psu' s').
  Proof.
    intros psu psu' Hpsu. start.
    unfold parse_table_expression, parse_identifier_name, is_keyword_for_clause, expect, ret. sim_auto.
  Qed.

  Lemma parse_tables_in_select_sim : forall psu psu', PSUsim psu psu' ->
    forall s s', Rst s s' -> simres (parse_tables_in_select psu s) (parse_tables_in_select psu' s').
  Proof.
    intros psu psu' Hpsu. start. unfold parse_tables_in_select, is_join_keyword, ret.
    apply simres_bind; [eapply parse_table_expression_sim; [eassumption|rst_solve]|intro_cont]. sim_auto.
  Qed.

  (* ---- the recursive core ---- *)

  Ltac sim_call ::=
    first [ eapply parse_implicit_alias_sim; solve [rst_solve]
          | eapply parse_alias_sim; solve [rst_solve | discriminate]
          | eapply parse_keyword_as_identifier_sim; solve [rst_solve | discriminate]
          | eapply parse_number_sim; solve [rst_solve | discriminate]
          | eapply expr_list_loop_sim; [eassumption|solve [rst_solve]]
          | eapply arg_list_loop_sim; [eassumption|solve [rst_solve]]
          | eapply parse_expression_list_sim; [eassumption|eassumption|solve [rst_solve]]
          | eapply parse_function_argument_list_sim; [eassumption|eassumption|solve [rst_solve]]
          | eapply parse_function_call_sim; [eassumption|eassumption|solve [rst_solve]|discriminate]
          | eapply parse_identifier_or_function_sim; [eassumption|eassumption|solve [rst_solve]|discriminate]
          | eapply parse_keyword_as_function_sim; [eassumption|eassumption|solve [rst_solve]|discriminate]
          | eapply parse_unary_minus_sim; [eassumption|solve [rst_solve]|discriminate]
          | eapply parse_unary_plus_sim; [eassumption|solve [rst_solve]|discriminate]
          | eapply parse_not_sim; [eassumption|solve [rst_solve]|discriminate]
          | eapply parse_grouped_or_tuple_sim; [eassumption|eassumption|solve [rst_solve]|discriminate]
          | eapply parse_prefix_sim; [eassumption|eassumption|eassumption|solve [rst_solve]]
          | eapply parse_binary_sim; [eassumption|solve [rst_solve]|discriminate]
          | eapply parse_dot_access_sim; [eassumption|eassumption|solve [rst_solve]|discriminate]
          | eapply parse_infix_sim; [eassumption|eassumption|solve [rst_solve]|discriminate]
          | eapply order_by_loop_sim; [eassumption|solve [rst_solve]]
          | eapply parse_table_expression_sim; [eassumption|solve [rst_solve]]
          | eapply parse_tables_in_select_sim; [eassumption|solve [rst_solve]] ].

  Lemma parse_expr_end : forall f' prec e',
    parse_expr f' prec (mkSt rest e') = OutOfFuel \/
    parse_expr f' prec (mkSt rest e') = Ok (None, mkSt rest e').
  Proof.
    intros [|f] prec e'; [left; reflexivity|right]. cbn [parse_expr]. unfold parse_prefix, ret. norm.
    reflexivity.
  Qed.

  Lemma eqb_len_ext : forall A B a b : list item, A = a ++ rest -> B = b ++ rest ->
    Nat.eqb (List.length A) (List.length B) = Nat.eqb (List.length a) (List.length b).
  Proof.
    intros A B a b -> ->. rewrite !app_length.
    destruct (Nat.eqb (List.length a) (List.length b)) eqn:E.
    - apply Nat.eqb_eq in E. apply Nat.eqb_eq. lia.
    - apply Nat.eqb_neq in E. apply Nat.eqb_neq. lia.
  Qed.

  Lemma core_sim : forall f f',
    (forall prec s s', Rst s s' -> simres (parse_expr f prec s) (parse_expr f' prec s')) /\
    (forall prec left s s', Rst s s' -> simres (pratt_loop f prec left s) (pratt_loop f' prec left s')) /\
    (forall s s', Rst s s' -> simres (parse_select f s) (parse_select f' s')) /\
    (forall prefix sels modes all s s', Rst s s' ->
       simres (union_loop f prefix sels modes all s) (union_loop f' prefix sels modes all s')) /\
    (forall s s', Rst s s' -> simres (parse_select_with_union f s) (parse_select_with_union f' s')).
  Proof.
    induction f as [|f IH]; intros f'.
    - repeat split; intros; exact I.
    - destruct f' as [|f']; [repeat split; intros; apply simres_oof|].
      destruct (IH f') as (IHe & IHp & IHs & IHu & IHq). clear IH.
      pose proof (parse_expr_end f') as Hend.
      repeat split.
      + intros prec. start. cbn [parse_expr]. unfold ret. sim_auto.
      + intros prec left. start. cbn [pratt_loop]. unfold precedence_for_current, ret.
        destruct l as [|x l].
        * norm. change (precedence T_SEMICOLON) with 0. rewrite ltb_zero. sim_auto.
        * norm;
          (match goal with |- simres (if ?c then _ else _) _ => destruct c eqn:? end; [|sim_auto]);
          (apply simres_bind; [sim_call|intro_cont]);
          (destruct x0 as [l'|]; [|sim_auto]);
          unfold remaining; cbn [toks];
          lazymatch goal with
          | |- simres (if Nat.eqb (List.length ?a) (List.length ?b) then _ else _)
                      (if Nat.eqb (List.length ?A) (List.length ?B) then _ else _) =>
              rewrite (eqb_len_ext A B a b eq_refl eq_refl)
          end; sim_auto.
      + start. cbn [parse_select]. unfold expect, ret. sim_auto.
      + intros prefix sels modes all. start. cbn [union_loop]. unfold union_mode, ret. sim_auto.
      + start. cbn [parse_select_with_union]. unfold expect, ret. sim_auto.
  Qed.

  Lemma parse_select_with_union_sim : forall f f' s s', Rst s s' ->
    simres (parse_select_with_union f s) (parse_select_with_union f' s').
  Proof. intros f f'. exact (proj2 (proj2 (proj2 (proj2 (core_sim f f'))))). Qed.

  Lemma union_loop_sim : forall f f' prefix sels modes all s s', Rst s s' ->
    simres (union_loop f prefix sels modes all s) (union_loop f' prefix sels modes all s').
  Proof. intros f f'. exact (proj1 (proj2 (proj2 (proj2 (core_sim f f'))))). Qed.

  (* ---- statements ---- *)

  (* the skipping loop of parseParenthesizedSelect stops at the SEMICOLON
     (`for depth > 0 && !p.currentIs(token.EOF) && !p.currentIs(token.SEMICOLON)`) *)
  Lemma skip_parens_ext : forall l d, skip_parens d (l ++ rest) = skip_parens d l ++ rest.
  Proof.
    destruct rest_cons as (sm & r' & Er & Hsm).
    induction l as [|x r IH]; intros d.
    - cbn [app skip_parens]. rewrite Er. cbn [skip_parens]. rewrite Hsm. reflexivity.
    - cbn [app skip_parens]. destruct (it_tok x =? T_SEMICOLON); [reflexivity|].
      destruct (if it_tok x =? T_LPAREN then S d else if it_tok x =? T_RPAREN then Nat.pred d else d);
        [reflexivity|]. apply IH.
  Qed.

  Lemma parse_parenthesized_select_sim : forall f f' s s', Rst s s' -> toks s <> [] ->
    simres (parse_parenthesized_select f s) (parse_parenthesized_select f' s').
  Proof.
    intros f f'. start. intros Hne. nonempty l Hne.
    pose proof (parse_select_with_union_sim f f') as Hq.
    pose proof (union_loop_sim f f') as Hu.
    unfold parse_parenthesized_select, expect, ret. cbv beta zeta. acc_cbn.
    rewrite skip_parens_ext.
    destruct (skip_parens 1 l) as [|z L] eqn:Esk; sim_auto.
  Qed.

  Lemma parse_statement_raw_sim : forall f f' s s', Rst s s' -> toks s <> [] ->
    simres (parse_statement_raw f s) (parse_statement_raw f' s').
  Proof.
    intros f f'. start. intros Hne. nonempty l Hne.
    unfold parse_statement_raw, ret. norm.
    destruct (it_tok i =? T_SELECT) eqn:E1; [apply parse_select_with_union_sim; rst_solve|].
    destruct (it_tok i =? T_LPAREN) eqn:E2;
      [apply parse_parenthesized_select_sim; [rst_solve|discriminate]|].
    sim_auto.
  Qed.

  (* a statement accepted alone without error, followed by the SEMICOLON: every sufficient fuel *)
  Theorem parse_statement_raw_semi : forall f f' ts q,
    ts <> [] ->
    parse_statement_raw f (mkSt ts []) = Ok (q, mkSt [] []) ->
    (3 * List.length (ts ++ rest) + 2 <= f')%nat ->
    parse_statement_raw f' (mkSt (ts ++ rest) []) = Ok (q, mkSt rest []).
  Proof.
    intros f f' ts q Hne H Hf.
    pose proof (parse_statement_raw_sim f f' (mkSt ts []) (mkSt (ts ++ rest) [])) as S.
    specialize (S ltac:(split; [reflexivity|intros _; reflexivity]) Hne).
    rewrite H in S.
    pose proof (parse_statement_raw_fin f' (mkSt (ts ++ rest) []) Hf) as G.
    destruct (parse_statement_raw f' (mkSt (ts ++ rest) [])) as [[q' [l' e']]|p|o|]; cbn [simres fin] in S, G;
      try contradiction.
    destruct S as [-> [Hl He]]. cbn [toks errs app] in Hl, He. subst l'. rewrite (He eq_refl). reflexivity.
  Qed.

End Delim.

(* ------------------------------------------------------------------------------------------ *)
(** * The statement parser of the model is delimiter-respecting

   The C06 premise for the fragment, at full strength: every token list that the model accepts
   alone, completely and without error, is parsed to the same statement when a statement boundary
   (end of input, or a SEMICOLON token and anything after it) follows, and exactly the boundary
   is left.  No side condition: the simulation covers every path of the model, including the
   nil-operand paths ("SELECT 1 +", "SELECT a FROM", "SELECT 1 ORDER BY") and the token-skipping
   branch of parseParenthesizedSelect ("(1"). *)

(* parse_statement_raw is the transcription of parseStatement; parse_statement / parse_model_fuel
   add the printer-fragment check, which reads only the statement and whether p.errors is empty *)
Theorem parse_model_fuel_semi : forall f f' ts q rest,
  tok_at rest = T_SEMICOLON ->
  parse_model_fuel f ts = Ok (q, [], []) ->
  (3 * List.length (ts ++ rest) + 2 <= f')%nat ->
  parse_model_fuel f' (ts ++ rest) = Ok (q, rest, []).
Proof.
  intros f f' ts q rest Hrest H Hf. unfold parse_model_fuel, parse_statement in *.
  destruct (parse_statement_raw f (mkSt ts [])) as [[q0 s1]|p|o|] eqn:Hr; cbn [bind] in H; try discriminate H.
  destruct (printer_check (q0, s1)) as [[q1 s2]|p|o|] eqn:Hc; cbn [bind] in H; try discriminate H.
  inversion H; subst. clear H.
  assert (Hq : q0 = q /\ s1 = s2).
  { unfold printer_check in Hc. destruct q0 as [q'|].
    - destruct (is_nil (errs s1) && negb (printable_query false q')); [discriminate Hc|].
      inversion Hc; subst. split; reflexivity.
    - inversion Hc; subst. split; reflexivity. }
  destruct Hq as [-> ->]. destruct s2 as [l e]. cbn [toks errs] in *. subst l e.
  assert (Hne : ts <> []).
  { intros ->. vm_compute in Hr. discriminate Hr. }
  rewrite (parse_statement_raw_semi rest Hrest f f' ts q Hne Hr Hf). cbn [bind].
  unfold printer_check in *. destruct q as [q'|]; [|reflexivity]. cbn [errs] in *.
  destruct (is_nil [] && negb (printable_query false q')); [discriminate Hc|reflexivity].
Qed.

Theorem parse_model_delimited : forall ts q rest,
  (rest = [] \/ tok_at rest = T_SEMICOLON) ->
  parse_model ts = Ok (q, [], []) -> parse_model (ts ++ rest) = Ok (q, rest, []).
Proof.
  intros ts q rest [-> | Hrest] H.
  - rewrite app_nil_r. exact H.
  - unfold parse_model in *. eapply parse_model_fuel_semi; try eassumption.
    unfold fuel_for. lia.
Qed.

(* the same for the bare parser, every sufficient fuel *)
Theorem parse_statement_raw_delimited : forall f f' ts q rest,
  ts <> [] -> tok_at rest = T_SEMICOLON ->
  parse_statement_raw f (mkSt ts []) = Ok (q, mkSt [] []) ->
  (3 * List.length (ts ++ rest) + 2 <= f')%nat ->
  parse_statement_raw f' (mkSt (ts ++ rest) []) = Ok (q, mkSt rest []).
Proof. intros f f' ts q rest Hne Hrest. apply parse_statement_raw_semi; assumption. Qed.

(* The former counterexample (before /repo 1a6cd4528 the skipping loop of parseParenthesizedSelect
   ran through a SEMICOLON: "(1; SELECT 2" was ONE statement): "(1" is accepted alone without error
   (an empty SelectWithUnionQuery) and, followed by "; SELECT 2", leaves exactly "; SELECT 2". *)
Definition wtk (t : N) (v : list N) : item :=
  {| it_tok := t; it_val := v; it_pos := {| p_off := 0; p_line := 1; p_col := 1 |}; it_quoted := false |}.
Definition witness_stmt : list item := [wtk T_LPAREN [40]; wtk T_NUMBER [49]].                       (* (1 *)
Definition witness_rest : list item :=
  [wtk T_SEMICOLON [59]; wtk T_SELECT (bytes_of "SELECT"%string); wtk T_NUMBER [50]].                (* ; SELECT 2 *)

Example unclosed_paren_is_delimited :
  parse_model witness_stmt = Ok (Some (Query [] [] false), [], []) /\
  parse_model (witness_stmt ++ witness_rest) = Ok (Some (Query [] [] false), witness_rest, []).
Proof.
  assert (H : parse_model witness_stmt = Ok (Some (Query [] [] false), [], [])) by (vm_compute; reflexivity).
  split; [exact H|]. apply parse_model_delimited; [right; reflexivity|exact H].
Qed.
