(* C01 / C03, fragment layer -- safety of the SELECT-core parser model and printer model.

   * [wf_query]: every member of every Selects list, at any depth, is a real node ([Some]); the nil
     *ast.SelectQuery that the Go printer would dereference never occurs.
   * [parse_good]: for every fuel and every state, no function of the parser model returns [Panic]
     (the alias helpers are handed non-nil expressions, parseDotAccess a non-nil left operand), and
     whatever it returns [Ok] is well-formed.
   * [print_*]: on well-formed statements the printer model never returns [Panic]; on printable
     well-formed statements it returns [Ok] non-empty lines.
   * [stmt_none_has_error]: a nil statement comes with a parse error. *)
From Coq Require Import List NArith Arith Bool String Lia ZifyN ZifyNat ZifyBool.
From DC Require Import Base.Item Gen.TokenTable Tree.LineTree Tree.LineTreeProof.
From DC Require Import Select.SelectExplainModel Select.SelectExplainProof.
From DC Require Import Select.SelectParseModel Select.SelectPrintModel.
Import ListNotations.
Local Open Scope N_scope.

(* ------------------------------------------------------------------------------------------ *)
(** * Well-formedness: no nil member in any Selects list *)

Definition wf_opt {A} (f : A -> bool) (o : option A) : bool :=
  match o with Some x => f x | None => true end.

Fixpoint wf_expr (e : expr) : bool :=
  match e with
  | EIdent _ _ _ => true
  | ELit _ _ => true
  | EUnary _ o => match o with Some x => wf_expr x | None => true end
  | EBinary _ l r _ => wf_expr l && match r with Some x => wf_expr x | None => true end
  | EFunc _ args _ => forallb wf_expr args
  | ESubquery q _ => match q with Some q' => wf_query q' | None => true end
  | EAsterisk _ => true
  | EAliased e' _ => wf_expr e'
  end
with wf_query (q : query) : bool :=
  match q with
  | Query selects _ _ =>
      forallb (fun o => match o with Some s => wf_select s | None => false end) selects
  end
with wf_select (s : select) : bool :=
  match s with
  | Select _ columns from where_ group_by having order_by limit offset =>
      forallb wf_expr columns &&
      match from with Some ts => forallb wf_table ts | None => true end &&
      match where_ with Some x => wf_expr x | None => true end &&
      forallb wf_expr group_by &&
      match having with Some x => wf_expr x | None => true end &&
      forallb wf_order order_by &&
      match limit with Some x => wf_expr x | None => true end &&
      match offset with Some x => wf_expr x | None => true end
  end
with wf_table (t : table_elem) : bool :=
  match t with
  | TableElem (Some (TSSubquery (Some q))) _ => wf_query q
  | TableElem _ _ => true
  end
with wf_order (o : order_elem) : bool :=
  match o with
  | OrderElem (Some x) _ => wf_expr x
  | OrderElem None _ => true
  end.

Definition wf_sel (o : option select) : bool :=
  match o with Some s => wf_select s | None => false end.

Definition wf_src (o : table_src) : bool :=
  match o with TSSubquery (Some q) => wf_query q | _ => true end.

(* ------------------------------------------------------------------------------------------ *)
(** * The invariant attached to every result type *)

Class Inv (A : Type) := { invb : A -> bool }.
#[local] Instance I_expr : Inv expr := {| invb := wf_expr |}.
#[local] Instance I_query : Inv query := {| invb := wf_query |}.
#[local] Instance I_select : Inv select := {| invb := wf_select |}.
#[local] Instance I_table : Inv table_elem := {| invb := wf_table |}.
#[local] Instance I_src : Inv table_src := {| invb := wf_src |}.
#[local] Instance I_order : Inv order_elem := {| invb := wf_order |}.
#[local] Instance I_sels : Inv (list (option select)) | 1 := {| invb := forallb wf_sel |}.
#[local] Instance I_st : Inv st := {| invb := fun _ => true |}.
#[local] Instance I_bool : Inv bool := {| invb := fun _ => true |}.
#[local] Instance I_N : Inv N := {| invb := fun _ => true |}.
#[local] Instance I_bytes : Inv (list N) := {| invb := fun _ => true |}.
#[local] Instance I_option {A} `{Inv A} : Inv (option A) | 10 :=
  {| invb := fun o => match o with Some x => invb x | None => true end |}.
#[local] Instance I_list {A} `{Inv A} : Inv (list A) | 10 := {| invb := forallb invb |}.
#[local] Instance I_prod {A B} `{Inv A} `{Inv B} : Inv (A * B) :=
  {| invb := fun p => invb (fst p) && invb (snd p) |}.

(* no Panic, and an Ok value satisfies its invariant *)
Definition good {X} `{Inv X} (r : res X) : Prop :=
  match r with
  | Ok x => invb x = true
  | Panic _ => False
  | _ => True
  end.

Lemma good_bind {X Y} `{Inv X} `{Inv Y} (r : res X) (f : X -> res Y) :
  good r -> (forall x, invb x = true -> good (f x)) -> good (bind r f).
Proof. destruct r as [x|p|o|]; cbn; intros Hr Hf; auto. Qed.

Lemma forallb_snoc {A} (f : A -> bool) l x : forallb f (l ++ [x]) = forallb f l && f x.
Proof. rewrite forallb_app. cbn. rewrite andb_true_r. reflexivity. Qed.

Ltac inv_simpl :=
  cbn [invb I_expr I_query I_select I_table I_src I_order I_sels I_st I_bool I_N
       I_bytes I_option I_list I_prod fst snd wf_expr wf_query wf_select wf_table wf_order wf_sel
       wf_src forallb andb option_map] in *.

Ltac split_hyps :=
  repeat match goal with
         | H : _ && _ = true |- _ => apply andb_prop in H; destruct H
         | H : true = true |- _ => clear H
         end.

Ltac inv_solve :=
  inv_simpl; unfold wf_sel in *; split_hyps;
  repeat rewrite ?forallb_snoc, ?forallb_app;
  repeat (match goal with
          | H : ?x = true |- context[?x] => rewrite H
          end);
  inv_simpl; try reflexivity; auto.

(* one step of symbolic execution of a [good] goal *)
Ltac good_step :=
  match goal with
  | |- good (Ok _) => unfold good; inv_solve
  | |- good (ret _ _) => unfold ret, good; inv_solve
  | |- good (OutOfFragment _) => exact I
  | |- good OutOfFuel => exact I
  | |- good (bind _ _) => apply good_bind; [|let x := fresh "x" in let Hx := fresh "Hx" in intros x Hx]
  | |- good (if ?c then _ else _) => destruct c eqn:?
  | |- good (match ?x with _ => _ end) => destruct x eqn:?
  | |- good (let '(_, _) := ?x in _) => destruct x eqn:?
  | |- good _ => solve [eauto 4 with good]
  end.

Ltac good_auto := repeat (cbv beta zeta; good_step; inv_simpl; split_hyps; try assumption).

(* ------------------------------------------------------------------------------------------ *)
(** * The parser model never panics and builds well-formed values *)

Create HintDb good.

Notation pe_good pe := (forall prec s, good (pe prec s)).
Notation psu_good psu := (forall s, good (psu s)).

Lemma set_alias_good : forall site e alias, invb e = true -> good (set_alias site (Some e) alias).
Proof. intros site e alias He. unfold set_alias. destruct e; good_auto. Qed.
#[local] Hint Resolve set_alias_good : good.

Lemma parse_alias_good : forall e s, invb e = true -> good (parse_alias (Some e) s).
Proof. intros e s He. unfold parse_alias. good_auto. Qed.
#[local] Hint Resolve parse_alias_good : good.

Lemma parse_implicit_alias_good : forall (e : option expr) s, invb e = true -> good (parse_implicit_alias e s).
Proof. intros e s He. unfold parse_implicit_alias. good_auto. Qed.
#[local] Hint Resolve parse_implicit_alias_good : good.

Lemma expr_list_loop_good : forall pe, pe_good pe ->
  forall fuel acc s, invb acc = true -> good (expr_list_loop pe fuel acc s).
Proof.
  intros pe Hpe. induction fuel as [|f IH]; intros acc s Ha; [exact I|].
  cbn [expr_list_loop]. good_auto. apply IH. destruct o0; inv_solve.
Qed.
#[local] Hint Resolve expr_list_loop_good : good.

Lemma parse_expression_list_good : forall pe, pe_good pe ->
  forall fuel s, good (parse_expression_list pe fuel s).
Proof. intros pe Hpe fuel s. unfold parse_expression_list. good_auto. apply expr_list_loop_good; auto. destruct o0; inv_solve. Qed.
#[local] Hint Resolve parse_expression_list_good : good.

Lemma arg_list_loop_good : forall pe, pe_good pe ->
  forall fuel acc s, invb acc = true -> good (arg_list_loop pe fuel acc s).
Proof.
  intros pe Hpe. induction fuel as [|f IH]; intros acc s Ha; [exact I|].
  cbn [arg_list_loop]. good_auto. apply IH. destruct o0; inv_solve.
Qed.
#[local] Hint Resolve arg_list_loop_good : good.

Lemma parse_function_argument_list_good : forall pe, pe_good pe ->
  forall fuel s, good (parse_function_argument_list pe fuel s).
Proof. intros pe Hpe fuel s. unfold parse_function_argument_list. good_auto. apply arg_list_loop_good; auto. destruct o0; inv_solve. Qed.
#[local] Hint Resolve parse_function_argument_list_good : good.

Lemma parse_function_call_good : forall pe, pe_good pe ->
  forall fuel name s, good (parse_function_call pe fuel name s).
Proof. intros pe Hpe fuel name s. unfold parse_function_call. good_auto. Qed.
#[local] Hint Resolve parse_function_call_good : good.

Lemma parse_identifier_or_function_good : forall pe, pe_good pe ->
  forall fuel s, good (parse_identifier_or_function pe fuel s).
Proof. intros pe Hpe fuel s. unfold parse_identifier_or_function. good_auto. Qed.
#[local] Hint Resolve parse_identifier_or_function_good : good.

Lemma parse_keyword_as_identifier_good : forall s, good (parse_keyword_as_identifier s).
Proof. intros s. unfold parse_keyword_as_identifier. good_auto. Qed.
#[local] Hint Resolve parse_keyword_as_identifier_good : good.

Lemma parse_keyword_as_function_good : forall pe, pe_good pe ->
  forall fuel s, good (parse_keyword_as_function pe fuel s).
Proof. intros pe Hpe fuel s. unfold parse_keyword_as_function. good_auto. Qed.
#[local] Hint Resolve parse_keyword_as_function_good : good.

Lemma parse_number_good : forall s, good (parse_number s).
Proof. intros s. unfold parse_number. good_auto. Qed.
#[local] Hint Resolve parse_number_good : good.

Lemma parse_unary_minus_good : forall pe, pe_good pe -> forall s, good (parse_unary_minus pe s).
Proof. intros pe Hpe s. unfold parse_unary_minus. good_auto. Qed.
Lemma parse_unary_plus_good : forall pe, pe_good pe -> forall s, good (parse_unary_plus pe s).
Proof. intros pe Hpe s. unfold parse_unary_plus. good_auto. Qed.
Lemma parse_not_good : forall pe, pe_good pe -> forall s, good (parse_not pe s).
Proof. intros pe Hpe s. unfold parse_not. good_auto. Qed.
#[local] Hint Resolve parse_unary_minus_good parse_unary_plus_good parse_not_good : good.

Lemma mark_paren_wf : forall e, wf_expr (mark_paren e) = wf_expr e.
Proof. destruct e; reflexivity. Qed.

Lemma parse_grouped_or_tuple_good : forall pe psu, pe_good pe -> psu_good psu ->
  forall s, good (parse_grouped_or_tuple pe psu s).
Proof.
  intros pe psu Hpe Hpsu s. unfold parse_grouped_or_tuple. good_auto.
  destruct o; inv_simpl; [rewrite mark_paren_wf|]; inv_solve.
Qed.
#[local] Hint Resolve parse_grouped_or_tuple_good : good.

Lemma parse_prefix_good : forall pe psu, pe_good pe -> psu_good psu ->
  forall fuel s, good (parse_prefix pe psu fuel s).
Proof. intros pe psu Hpe Hpsu fuel s. unfold parse_prefix. good_auto. Qed.
#[local] Hint Resolve parse_prefix_good : good.

Lemma parse_binary_good : forall pe, pe_good pe ->
  forall l s, invb l = true -> good (parse_binary pe l s).
Proof. intros pe Hpe l s Hl. unfold parse_binary. good_auto. Qed.
#[local] Hint Resolve parse_binary_good : good.

Lemma parse_dot_access_good : forall pe, pe_good pe ->
  forall fuel l s, invb l = true -> good (parse_dot_access pe fuel (Some l) s).
Proof. intros pe Hpe fuel l s Hl. unfold parse_dot_access. good_auto. Qed.
#[local] Hint Resolve parse_dot_access_good : good.

Lemma parse_infix_good : forall pe, pe_good pe ->
  forall fuel l s, invb l = true -> good (parse_infix pe fuel l s).
Proof. intros pe Hpe fuel l s Hl. unfold parse_infix. good_auto. Qed.
#[local] Hint Resolve parse_infix_good : good.

Lemma order_by_loop_good : forall pe, pe_good pe ->
  forall fuel acc s, invb acc = true -> good (order_by_loop pe fuel acc s).
Proof.
  intros pe Hpe. induction fuel as [|f IH]; intros acc s Ha; [exact I|].
  cbn [order_by_loop]. good_auto; try (apply IH); inv_solve.
Qed.
#[local] Hint Resolve order_by_loop_good : good.

Lemma is_keyword_for_clause_good : forall s, good (is_keyword_for_clause s).
Proof. intros s. unfold is_keyword_for_clause. good_auto. Qed.
#[local] Hint Resolve is_keyword_for_clause_good : good.

Lemma parse_table_expression_good : forall psu, psu_good psu ->
  forall s, good (parse_table_expression psu s).
Proof.
  intros psu Hpsu s. unfold parse_table_expression. good_auto.
  all: match goal with |- context[match ?o with _ => _ end] => destruct o as [[? ?|[?|]]|] end; inv_solve.
Qed.
#[local] Hint Resolve parse_table_expression_good : good.

Lemma parse_tables_in_select_good : forall psu, psu_good psu ->
  forall s, good (parse_tables_in_select psu s).
Proof. intros psu Hpsu s. unfold parse_tables_in_select. good_auto. Qed.
#[local] Hint Resolve parse_tables_in_select_good : good.

Lemma core_good : forall fuel,
  (forall prec s, good (parse_expr fuel prec s)) /\
  (forall prec l s, invb l = true -> good (pratt_loop fuel prec l s)) /\
  (forall s, good (parse_select fuel s)) /\
  (forall prefix sels modes all s, invb sels = true -> good (union_loop fuel prefix sels modes all s)) /\
  (forall s, good (parse_select_with_union fuel s)).
Proof.
  induction fuel as [|f IH].
  - repeat split; intros; exact I.
  - destruct IH as (IHe & IHp & IHs & IHu & IHq). repeat split; intros.
    + cbn [parse_expr]. good_auto.
    + cbn [pratt_loop]. good_auto.
    + cbn [parse_select]. good_auto.
    + cbn [union_loop]. good_auto; try inv_solve. apply IHu. inv_solve.
    + cbn [parse_select_with_union]. good_auto; try inv_solve.
      destruct q; unfold q_selects; inv_solve.
Qed.

Lemma parse_expr_good : forall fuel, pe_good (parse_expr fuel).
Proof. intros fuel. exact (proj1 (core_good fuel)). Qed.
Lemma parse_select_good : forall fuel, psu_good (parse_select fuel).
Proof. intros fuel. exact (proj1 (proj2 (proj2 (core_good fuel)))). Qed.
Lemma union_loop_good : forall fuel prefix sels modes all s,
  invb sels = true -> good (union_loop fuel prefix sels modes all s).
Proof. intros fuel. exact (proj1 (proj2 (proj2 (proj2 (core_good fuel))))). Qed.
Lemma parse_select_with_union_good : forall fuel, psu_good (parse_select_with_union fuel).
Proof. intros fuel. exact (proj2 (proj2 (proj2 (proj2 (core_good fuel))))). Qed.
#[local] Hint Resolve parse_expr_good parse_select_good union_loop_good parse_select_with_union_good : good.

Lemma parse_parenthesized_select_good : forall fuel s, good (parse_parenthesized_select fuel s).
Proof.
  intros fuel s. unfold parse_parenthesized_select. good_auto; try inv_solve.
  apply union_loop_good. destruct o as [[sl m a]|]; inversion Heqp1; subst; inv_solve.
Qed.
#[local] Hint Resolve parse_parenthesized_select_good : good.

Lemma parse_statement_raw_good : forall fuel s, good (parse_statement_raw fuel s).
Proof. intros fuel s. unfold parse_statement_raw. good_auto. Qed.
#[local] Hint Resolve parse_statement_raw_good : good.

Lemma parse_statement_good : forall fuel s, good (parse_statement fuel s).
Proof.
  intros fuel s. unfold parse_statement. apply good_bind; [apply parse_statement_raw_good|].
  intros [q s'] H. unfold printer_check. good_auto; inv_solve.
Qed.

(* ------------------------------------------------------------------------------------------ *)
(** * Parser theorems *)

(* T2, parser half: no fuel, no token list makes the parser model panic; whatever statement it
   returns is well-formed *)
Theorem parse_model_fuel_good : forall fuel ts,
  match parse_model_fuel fuel ts with
  | Ok (q, _, _) => match q with Some q' => wf_query q' = true | None => True end
  | Panic _ => False
  | _ => True
  end.
Proof.
  intros fuel ts. unfold parse_model_fuel.
  pose proof (parse_statement_good fuel (mkSt ts [])) as H.
  destruct (parse_statement fuel (mkSt ts [])) as [[q s]|p|o|]; cbn [bind]; try exact I; try exact H.
  unfold good in H. inv_simpl. split_hyps. destruct q; [assumption|exact I].
Qed.

Theorem parse_script_good : forall ts,
  match parse_script ts with
  | Ok (qs, _) => forallb wf_query qs = true
  | Panic _ => False
  | _ => True
  end.
Proof.
  intros ts. unfold parse_script. generalize (fuel_for ts) as fuel. generalize (S (List.length ts)) as n.
  assert (H : forall n fuel acc s, forallb wf_query acc = true ->
              match script_loop n fuel acc s with
              | Ok (qs, _) => forallb wf_query qs = true
              | Panic _ => False
              | _ => True
              end).
  { induction n as [|n IH]; intros fuel acc s Ha; [exact I|].
    cbn [script_loop]. destruct (skip_semis (toks s)) as [|t l] eqn:E; [exact Ha|].
    pose proof (parse_statement_good fuel (mkSt (t :: l) (errs s))) as Hg.
    destruct (parse_statement fuel (mkSt (t :: l) (errs s))) as [[q s1]|p|o|]; cbn [bind]; try exact I; try exact Hg.
    unfold good in Hg. inv_simpl. split_hyps.
    destruct q as [q|].
    - destruct (cur_is s1 T_PARALLEL && peek_is s1 T_WITH); [exact I|].
      apply IH. rewrite forallb_snoc, Ha. assumption.
    - apply IH. exact Ha. }
  intros n fuel. apply H. reflexivity.
Qed.

(* ------------------------------------------------------------------------------------------ *)
(** * The printer model on well-formed printable statements *)

Lemma bind_ok {A C} (r : res A) (f : A -> res C) y :
  bind r f = Ok y -> exists x, r = Ok x /\ f x = Ok y.
Proof. destruct r; cbn; intros H; try discriminate. eauto. Qed.

(* the list traversals of the printer, named *)
Definition map_res {A C} (f : A -> res C) : list A -> res (list C) :=
  fix go (l : list A) : res (list C) :=
    match l with
    | [] => Ok []
    | x :: r => bind (f x) (fun t => bind (go r) (fun ts => Ok (t :: ts)))
    end.

Lemma map_res_ok {A C} (f : A -> res C) : forall l,
  Forall (fun x => exists y, f x = Ok y) l ->
  exists ys, map_res f l = Ok ys /\ List.length ys = List.length l.
Proof.
  induction l as [|a l IH]; intros H.
  - exists []. split; reflexivity.
  - inversion H as [|? ? [y Hy] Hl]; subst. destruct (IH Hl) as [ys [Hys Hlen]].
    exists (y :: ys). cbn [map_res]. rewrite Hy. cbn [bind]. fold (map_res f). rewrite Hys. cbn [bind].
    split; [reflexivity|cbn; rewrite Hlen; reflexivity].
Qed.

Definition sel_items (f : select -> res select_query) : list (option select) -> res (list sel_item) :=
  fix go (l : list (option select)) : res (list sel_item) :=
    match l with
    | [] => Ok []
    | None :: _ => Panic PanicNilSelect
    | Some x :: r => bind (f x) (fun i => bind (go r) (fun is_ => Ok (ItemSelect i :: is_)))
    end.

Lemma sel_items_ok (f : select -> res select_query) : forall l,
  Forall (fun o => exists x sq, o = Some x /\ f x = Ok sq /\ inv_select sq) l ->
  exists items, sel_items f l = Ok items /\ Forall inv_item items /\ (l <> [] -> items <> []).
Proof.
  induction l as [|a l IH]; intros H.
  - exists []. repeat split; [constructor|intros C; contradiction].
  - inversion H as [|? ? [x [sq [-> [Hf Hi]]]] Hl]; subst. destruct (IH Hl) as [items [Hit [Hall _]]].
    exists (ItemSelect sq :: items). cbn [sel_items]. rewrite Hf. cbn [bind]. fold (sel_items f).
    rewrite Hit. cbn [bind]. repeat split; [constructor; assumption|discriminate].
Qed.

(* the operand collectors of explainBinaryExpr, as stand-alone functions *)
Fixpoint concat_ops (x : expr) : res (list rose) :=
  match x with
  | EBinary opx a b _ =>
      if beq opx s_concat
      then app_res (concat_ops a) (match b with Some b' => concat_ops b' | None => Ok [nil_tuple] end)
      else single (explain_expr x)
  | _ => single (explain_expr x)
  end.

Definition logical_ops (op : list N) : expr -> res (list rose) :=
  fix operands (x : expr) : res (list rose) :=
    match x with
    | EBinary opx a b parx =>
        if beq opx op && negb parx
        then app_res (operands a) (match b with Some b' => operands b' | None => Ok [nil_tuple] end)
        else single (explain_expr x)
    | _ => single (explain_expr x)
    end.

Definition oexp (o : option expr) : res rose :=
  match o with Some x => explain_expr x | None => Ok nil_tuple end.

Lemma explain_binary_eq : forall op l r p,
  explain_expr (EBinary op l r p) =
  if beq op s_concat then
    bind (app_res (concat_ops l) (match r with Some r' => concat_ops r' | None => Ok [nil_tuple] end))
         (fun args => Ok (function_node (operator_to_function op) args))
  else if beq op (B "OR"%string) || beq op (B "AND"%string) then
    bind (app_res (logical_ops op l) (match r with Some r' => logical_ops op r' | None => Ok [nil_tuple] end))
         (fun args => Ok (function_node (operator_to_function op) args))
  else
    bind (explain_expr l) (fun cl => bind (oexp r) (fun cr =>
    Ok (function_node (operator_to_function op) [cl; cr]))).
Proof.
  intros. cbn [explain_expr]. destruct (beq op s_concat); [repeat f_equal|].
  destruct (beq op (B "OR"%string) || beq op (B "AND"%string)); repeat f_equal.
Qed.

Lemma app_res_ok : forall a b x y, a = Ok x -> b = Ok y -> app_res a b = Ok (x ++ y).
Proof. intros a b x y -> ->. reflexivity. Qed.

(* a nested query is read back as a tree *)
Lemma tree_of_union_ok : forall u, inv_union u ->
  exists t, tree_of_lines (explain_select_with_union_query 0 u) = Ok t.
Proof.
  intros u Hu. unfold tree_of_lines, explain_select_with_union_query.
  pose proof (explain_union_tree 0 u tail_none Hu) as Ht.
  apply (proj2 (parse_lines_spec _ _)) in Ht. rewrite Ht. eauto.
Qed.

Definition EOK (e : expr) : Prop :=
  wf_expr e = true -> printable_expr e = true ->
  (exists t, explain_expr e = Ok t) /\ (exists ts, concat_ops e = Ok ts) /\
  (forall op, exists ts, logical_ops op e = Ok ts).
Definition QOK (q : query) : Prop :=
  forall sub, wf_query q = true -> printable_query sub q = true ->
  exists u, query_uq q = Ok u /\ inv_union u.
Definition SOK (s : select) : Prop :=
  forall sub, wf_select s = true -> printable_select sub s = true ->
  exists sq, select_sq s = Ok sq /\ inv_select sq.
Definition TOK (t : table_elem) : Prop :=
  wf_table t = true -> printable_table t = true -> exists r, telem_rose t = Ok r.
Definition OOK (o : order_elem) : Prop :=
  wf_order o = true -> printable_order o = true -> exists r, order_rose o = Ok r.

Lemma single_ok : forall r (t : rose), r = Ok t -> single r = Ok [t].
Proof. intros r t ->. reflexivity. Qed.

(* for a node that is not a BinaryExpr the collectors return the node itself *)
Lemma EOK_from_first : forall e,
  (match e with EBinary _ _ _ _ => False | _ => True end) ->
  (exists t, explain_expr e = Ok t) ->
  (exists ts, concat_ops e = Ok ts) /\ (forall op, exists ts, logical_ops op e = Ok ts).
Proof.
  intros e Hnb [t Ht]. destruct e; try contradiction; cbn [concat_ops logical_ops];
    (split; [|intros op0]); exists [t]; apply single_ok; exact Ht.
Qed.

Definition OEOK (o : option expr) : Prop := match o with Some x => EOK x | None => True end.

Lemma oexp_ok : forall o, OEOK o ->
  wf_opt wf_expr o = true -> wf_opt printable_expr o = true -> exists c, oexp o = Ok c.
Proof.
  intros [x|] H Hw Hp; [|eexists; reflexivity]. destruct (H Hw Hp) as [[t Ht] _]. exists t. exact Ht.
Qed.

Lemma eok_leaf : forall e,
  (match e with EIdent _ _ _ | ELit _ _ | EAsterisk _ => True | _ => False end) -> EOK e.
Proof.
  intros e He Hw Hp.
  assert (H1 : exists t, explain_expr e = Ok t).
  { destruct e; try contradiction; cbn [explain_expr]; try (eexists; reflexivity).
    destruct table; eexists; reflexivity. }
  split; [exact H1|]. apply EOK_from_first; [destruct e; try contradiction; exact I|exact H1].
Qed.

Lemma eok_unary : forall op operand, OEOK operand -> EOK (EUnary op operand).
Proof.
  intros op operand IH Hw Hp.
  assert (H1 : exists t, explain_expr (EUnary op operand) = Ok t).
  { cbn [wf_expr printable_expr] in Hw, Hp. apply andb_prop in Hp. destruct Hp as [Hnf Hp].
    destruct (oexp_ok operand IH Hw Hp) as [c Hc]. unfold oexp in Hc.
    cbn [explain_expr]. rewrite Hc. cbn [bind].
    destruct op; [|eexists; reflexivity].
    destruct operand as [x|]; [|eexists; reflexivity].
    destruct x; try (eexists; reflexivity).
    destruct paren; [eexists; reflexivity|].
    destruct v; cbn [negated_literal]; try (eexists; reflexivity).
    - destruct (v =? 0); eexists; reflexivity.
    - cbn [neg_float] in Hnf. destruct (v =? 0); [eexists; reflexivity|].
      destruct (v <=? 9223372036854775808) eqn:E; [eexists; reflexivity|]. exfalso. lia. }
  split; [exact H1|]. apply EOK_from_first; [exact I|exact H1].
Qed.

Definition ops_arg (f : expr -> res (list rose)) (o : option expr) : res (list rose) :=
  match o with Some b' => f b' | None => Ok [nil_tuple] end.

Lemma eok_binary : forall op l r p, EOK l -> OEOK r -> EOK (EBinary op l r p).
Proof.
  intros op l r p IHl IHr Hw Hp.
  cbn [wf_expr printable_expr] in Hw, Hp.
  apply andb_prop in Hw. destruct Hw as [Hwl Hwr]. apply andb_prop in Hp. destruct Hp as [Hpl Hpr].
  destruct (IHl Hwl Hpl) as [[tl Htl] [[cl Hcl] Hll]].
  assert (Hr : (exists c, oexp r = Ok c) /\
               (exists ts, match r with Some r' => concat_ops r' | None => Ok [nil_tuple] end = Ok ts) /\
               (forall op0, exists ts, match r with Some r' => logical_ops op0 r' | None => Ok [nil_tuple] end = Ok ts)).
  { destruct r as [x|]; [|repeat split; intros; eexists; reflexivity].
    destruct (IHr Hwr Hpr) as [[t Ht] [[c Hc] Hlr]]. repeat split; eauto. }
  destruct Hr as [[cr Hcr] [[tr Htr] Hlr]].
  assert (H1 : exists t, explain_expr (EBinary op l r p) = Ok t).
  { rewrite explain_binary_eq. destruct (beq op s_concat).
    - rewrite (app_res_ok _ _ _ _ Hcl Htr). eexists; reflexivity.
    - destruct (beq op (B "OR"%string) || beq op (B "AND"%string)).
      + destruct (Hll op) as [a Ha]. destruct (Hlr op) as [b Hb].
        rewrite (app_res_ok _ _ _ _ Ha Hb). eexists; reflexivity.
      + rewrite Htl. cbn [bind]. rewrite Hcr. eexists; reflexivity. }
  destruct H1 as [t Ht]. split; [eauto|]. split.
  - cbn [concat_ops]. destruct (beq op s_concat).
    + rewrite (app_res_ok _ _ _ _ Hcl Htr). eauto.
    + rewrite (single_ok _ _ Ht). eauto.
  - intros op0. cbn [logical_ops]. destruct (beq op op0 && negb p).
    + destruct (Hll op0) as [a Ha]. destruct (Hlr op0) as [b Hb].
      fold (logical_ops op0). rewrite (app_res_ok _ _ _ _ Ha Hb). eauto.
    + rewrite (single_ok _ _ Ht). eauto.
Qed.

Lemma forallb_Forall {A} (f : A -> bool) l : forallb f l = true -> Forall (fun x => f x = true) l.
Proof.
  induction l as [|a l IH]; intros H; [constructor|]. cbn [forallb] in H.
  apply andb_prop in H. destruct H. constructor; auto.
Qed.

(* the inner fix of printable_expr (EFunc ..) is forallb *)
Lemma printable_args : forall args,
  (fix go (l : list expr) : bool := match l with [] => true | x :: r => printable_expr x && go r end) args
  = forallb printable_expr args.
Proof. induction args as [|a l IH]; [reflexivity|]. cbn [forallb]. rewrite <- IH. reflexivity. Qed.

Lemma exprs_ok : forall l, Forall EOK l -> forallb wf_expr l = true -> forallb printable_expr l = true ->
  exists ts, map_res explain_expr l = Ok ts /\ List.length ts = List.length l.
Proof.
  intros l H Hw Hp. apply map_res_ok.
  induction H as [|a l Ha Hl IH]; [constructor|].
  cbn [forallb] in Hw, Hp. apply andb_prop in Hw. apply andb_prop in Hp.
  destruct Hw as [Hwa Hwl]. destruct Hp as [Hpa Hpl].
  constructor; [|apply IH; assumption]. destruct (Ha Hwa Hpa) as [Ht _]. exact Ht.
Qed.

Lemma eok_func : forall name args alias, Forall EOK args -> EOK (EFunc name args alias).
Proof.
  intros name args alias IH Hw Hp.
  assert (H1 : exists t, explain_expr (EFunc name args alias) = Ok t).
  { cbn [wf_expr printable_expr] in Hw, Hp. rewrite printable_args in Hp.
    apply andb_prop in Hp. destruct Hp as [_ Hp].
    destruct (exprs_ok args IH Hw Hp) as [ts [Hts _]].
    cbn [explain_expr]. change ((fix go (l : list expr) : res (list rose) := _) args) with (map_res explain_expr args).
    rewrite Hts. eexists; reflexivity. }
  split; [exact H1|]. apply EOK_from_first; [exact I|exact H1].
Qed.

Definition OQOK (q : option query) : Prop := match q with Some q' => QOK q' | None => True end.

Lemma eok_subquery : forall q alias, OQOK q -> EOK (ESubquery q alias).
Proof.
  intros q alias IH Hw Hp.
  assert (H1 : exists t, explain_expr (ESubquery q alias) = Ok t).
  { cbn [wf_expr printable_expr] in Hw, Hp. destruct q as [q'|]; [|discriminate].
    destruct (IH true Hw Hp) as [u [Hu Hinv]]. destruct (tree_of_union_ok u Hinv) as [t Ht].
    cbn [explain_expr]. rewrite Hu. cbn [bind]. rewrite Ht. eexists; reflexivity. }
  split; [exact H1|]. apply EOK_from_first; [exact I|exact H1].
Qed.

(* what explainAliasedExpr needs below the wrapped expression *)
Definition aliased_extra (e' : expr) : Prop :=
  match e' with
  | EUnary _ o => OEOK o
  | EFunc _ args _ => Forall EOK args
  | _ => True
  end.

Lemma explain_aliased_eq : forall e' alias,
  explain_expr (EAliased e' alias) =
  let a := escape_quotes alias in
  match e' with
  | ELit _ _ => bind (explain_expr e') (fun t => Ok (with_alias t a))
  | EBinary _ _ _ _ => bind (explain_expr e') (fun t => Ok (with_alias t a))
  | EUnary op operand =>
      let generic :=
        bind (oexp operand) (fun c =>
        Ok (function_node (unary_operator_to_function op ++ alias_sfx a) [c])) in
      match op, operand with
      | UMinus, Some (ELit v false) =>
          match aliased_negated_literal v a with Some r => r | None => generic end
      | _, _ => generic
      end
  | EFunc name args _ =>
      bind (map_res explain_expr args) (fun cs => Ok (function_node (name ++ opt_alias_sfx a) cs))
  | EIdent parts _ _ => Ok (leaf_node (B "Identifier "%string ++ join_dot parts ++ alias_sfx a))
  | _ => explain_expr e'
  end.
Proof. intros e' alias. destruct e'; reflexivity. Qed.

Lemma eok_aliased : forall e' alias, EOK e' -> aliased_extra e' -> EOK (EAliased e' alias).
Proof.
  intros e' alias IH Hx Hw Hp.
  assert (H1 : exists t, explain_expr (EAliased e' alias) = Ok t).
  { cbn [wf_expr printable_expr] in Hw, Hp. destruct (IH Hw Hp) as [[t Ht] _].
    rewrite explain_aliased_eq. cbv zeta.
    destruct e'; try (rewrite Ht; eexists; reflexivity); try (eexists; reflexivity).
    - (* EUnary *)
      cbn [aliased_extra] in Hx. cbn [wf_expr printable_expr] in Hw, Hp.
      apply andb_prop in Hp. destruct Hp as [Hnf Hp].
      destruct (oexp_ok operand Hx Hw Hp) as [c Hc]. rewrite Hc. cbn [bind].
      destruct op; [|eexists; reflexivity].
      destruct operand as [x|]; [|eexists; reflexivity].
      destruct x; try (eexists; reflexivity).
      destruct paren; [eexists; reflexivity|].
      unfold aliased_negated_literal.
      destruct v; cbn [negated_literal]; try (eexists; reflexivity).
      + destruct (v =? 0); cbn [bind]; eexists; reflexivity.
      + cbn [neg_float] in Hnf. destruct (v =? 0); [cbn [bind]; eexists; reflexivity|].
        destruct (v <=? 9223372036854775808) eqn:E; [cbn [bind]; eexists; reflexivity|]. exfalso. lia.
    - (* EFunc *)
      cbn [aliased_extra] in Hx. cbn [wf_expr printable_expr] in Hw, Hp. rewrite printable_args in Hp.
      apply andb_prop in Hp. destruct Hp as [_ Hp].
      destruct (exprs_ok args Hx Hw Hp) as [ts [Hts _]].
      rewrite Hts. eexists; reflexivity. }
  split; [exact H1|]. apply EOK_from_first; [exact I|exact H1].
Qed.

Definition OSOK (o : option select) : Prop := match o with Some s => SOK s | None => True end.

Lemma printable_sels : forall sub sels,
  (fix go (l : list (option select)) : bool :=
     match l with
     | [] => true
     | Some x :: r => printable_select sub x && go r
     | None :: r => go r
     end) sels
  = forallb (fun o => match o with Some x => printable_select sub x | None => true end) sels.
Proof.
  intros sub. induction sels as [|[x|] l IH]; [reflexivity| |]; cbn [forallb]; rewrite <- IH; reflexivity.
Qed.

Lemma query_uq_eq : forall selects modes a,
  query_uq (Query selects modes a) =
  if would_group selects modes then OutOfFragment OofUnionGrouping
  else bind (sel_items select_sq selects) (fun items => Ok (mkUQ items items 0 false false)).
Proof. reflexivity. Qed.

Lemma qok : forall selects modes a, Forall OSOK selects -> QOK (Query selects modes a).
Proof.
  intros selects modes a IH sub Hw Hp.
  cbn [wf_query printable_query] in Hw, Hp. rewrite printable_sels in Hp.
  apply andb_prop in Hp. destruct Hp as [Hp Hps]. apply andb_prop in Hp. destruct Hp as [Hg _].
  rewrite query_uq_eq. destruct (would_group selects modes); [discriminate|].
  assert (Hall : Forall (fun o => exists x sq, o = Some x /\ select_sq x = Ok sq /\ inv_select sq) selects).
  { clear Hg. induction IH as [|o l Ho Hl IHl]; [constructor|].
    cbn [forallb] in Hw, Hps. apply andb_prop in Hw. apply andb_prop in Hps.
    destruct Hw as [Hwo Hwl]. destruct Hps as [Hpo Hpl].
    constructor; [|apply IHl; assumption].
    destruct o as [x|]; [|discriminate]. destruct (Ho sub Hwo Hpo) as [sq [Hsq Hi]]. eauto. }
  destruct (sel_items_ok select_sq selects Hall) as [items [Hit [Hinv _]]].
  rewrite Hit. cbn [bind]. eexists. split; [reflexivity|]. exact Hinv.
Qed.

Definition oexp_opt (o : option expr) : res (option rose) :=
  match o with Some x => bind (explain_expr x) (fun t => Ok (Some t)) | None => Ok None end.

Lemma oexp_opt_ok : forall o, OEOK o ->
  wf_opt wf_expr o = true -> wf_opt printable_expr o = true -> exists c, oexp_opt o = Ok c.
Proof.
  intros [x|] H Hw Hp; [|eexists; reflexivity]. destruct (H Hw Hp) as [[t Ht] _].
  cbn [oexp_opt]. rewrite Ht. eexists; reflexivity.
Qed.

Lemma select_sq_eq : forall d columns from where_ group_by having order_by limit offset,
  select_sq (Select d columns from where_ group_by having order_by limit offset) =
  bind (map_res explain_expr columns) (fun cols =>
  bind (match from with
        | None => Ok None
        | Some elems => bind (map_res telem_rose elems) (fun ts => Ok (Some ts))
        end) (fun from' =>
  bind (oexp_opt where_) (fun where' =>
  bind (map_res explain_expr group_by) (fun groups =>
  bind (oexp_opt having) (fun having' =>
  bind (map_res order_rose order_by) (fun orders =>
  bind (oexp_opt limit) (fun limit' =>
  bind (oexp_opt offset) (fun offset' =>
  Ok (mkSQ [] [] None cols from' None None where' (map GE_other groups) false false having' None 0
           orders [] limit' [] None None offset' 0 false None None))))))))).
Proof. reflexivity. Qed.

Lemma printable_list {A} (f : A -> bool) : forall l,
  (fix go (l : list A) : bool := match l with [] => true | x :: r => f x && go r end) l = forallb f l.
Proof. induction l as [|a l IH]; [reflexivity|]. cbn [forallb]. rewrite <- IH. reflexivity. Qed.

Lemma list_ok {A} (f : A -> res rose) (P : A -> Prop) (w p : A -> bool) :
  (forall x, P x -> w x = true -> p x = true -> exists r, f x = Ok r) ->
  forall l, Forall P l -> forallb w l = true -> forallb p l = true ->
  exists ts, map_res f l = Ok ts.
Proof.
  intros Hf l H Hw Hp. destruct (map_res_ok f l) as [ts [Hts _]]; [|eauto].
  induction H as [|a l Ha Hl IH]; [constructor|].
  cbn [forallb] in Hw, Hp. apply andb_prop in Hw. apply andb_prop in Hp.
  destruct Hw. destruct Hp. constructor; [eapply Hf; eauto|apply IH; assumption].
Qed.

Definition OTOK (o : option (list table_elem)) : Prop :=
  match o with Some ts => Forall TOK ts | None => True end.

Lemma sok : forall d columns from where_ group_by having order_by limit offset,
  Forall EOK columns -> OTOK from -> OEOK where_ -> Forall EOK group_by -> OEOK having ->
  Forall OOK order_by -> OEOK limit -> OEOK offset ->
  SOK (Select d columns from where_ group_by having order_by limit offset).
Proof.
  intros d columns from where_ group_by having order_by limit offset Hc Hf Hwh Hg Hh Ho Hl Hoff sub Hw Hp.
  cbn [wf_select printable_select] in Hw, Hp.
  rewrite !printable_list in Hp.
  repeat match goal with H : _ && _ = true |- _ => apply andb_prop in H; destruct H end.
  rewrite select_sq_eq.
  destruct (exprs_ok columns Hc) as [cols [Hcols _]]; try assumption. rewrite Hcols. cbn [bind].
  assert (Hfrom : exists f', match from with
        | None => Ok None
        | Some elems => bind (map_res telem_rose elems) (fun ts => Ok (Some ts))
        end = Ok f').
  { destruct from as [elems|]; [|eexists; reflexivity].
    match goal with Hpf : context[printable_table] |- _ => rewrite printable_list in Hpf end.
    destruct (list_ok telem_rose TOK wf_table printable_table (fun x H => H) elems) as [ts Hts]; try assumption.
    rewrite Hts. eexists; reflexivity. }
  destruct Hfrom as [f' Hf']. rewrite Hf'. cbn [bind].
  destruct (oexp_opt_ok where_ Hwh) as [w' Hw']; try assumption. rewrite Hw'. cbn [bind].
  destruct (exprs_ok group_by Hg) as [gs [Hgs _]]; try assumption. rewrite Hgs. cbn [bind].
  destruct (oexp_opt_ok having Hh) as [h' Hh']; try assumption. rewrite Hh'. cbn [bind].
  destruct (list_ok order_rose OOK wf_order printable_order (fun x H => H) order_by) as [os Hos]; try assumption.
  rewrite Hos. cbn [bind].
  destruct (oexp_opt_ok limit Hl) as [l' Hl']; try assumption. rewrite Hl'. cbn [bind].
  destruct (oexp_opt_ok offset Hoff) as [o' Ho']; try assumption. rewrite Ho'. cbn [bind].
  eexists. split; [reflexivity|].
  split; [split; [reflexivity|intros _ Hne; exfalso; apply Hne; reflexivity]|intros Hgs'; discriminate].
Qed.

Definition src_extra (src : option table_src) : Prop :=
  match src with Some (TSSubquery (Some q)) => QOK q | _ => True end.

Lemma tok : forall src alias, src_extra src -> TOK (TableElem src alias).
Proof.
  intros src alias IH Hw Hp. cbn [telem_rose].
  destruct src as [[db tbl|[q|]]|]; cbn [wf_table printable_table src_extra] in *;
    try (eexists; reflexivity); [|discriminate].
  destruct (IH true Hw Hp) as [u [Hu Hinv]]. destruct (tree_of_union_ok u Hinv) as [t Ht].
  rewrite Hu. cbn [bind]. rewrite Ht. eexists; reflexivity.
Qed.

Lemma ook : forall e desc, OEOK e -> OOK (OrderElem e desc).
Proof.
  intros e desc IH Hw Hp. cbn [order_rose].
  destruct e as [x|]; [|eexists; reflexivity]. cbn [wf_order printable_order OEOK] in *.
  destruct (IH Hw Hp) as [[t Ht] _]. rewrite Ht. eexists; reflexivity.
Qed.

Fixpoint expr_ok (e : expr) {struct e} : EOK e :=
  match e as e0 return EOK e0 with
  | EIdent parts alias paren => eok_leaf (EIdent parts alias paren) I
  | ELit v paren => eok_leaf (ELit v paren) I
  | EUnary op o =>
      eok_unary op o (match o as o0 return OEOK o0 with Some x => expr_ok x | None => I end)
  | EBinary op l r p =>
      eok_binary op l r p (expr_ok l)
        (match r as r0 return OEOK r0 with Some x => expr_ok x | None => I end)
  | EFunc name args alias =>
      eok_func name args alias
        ((fix go (l : list expr) : Forall EOK l :=
            match l with [] => Forall_nil _ | a :: r => Forall_cons a (expr_ok a) (go r) end) args)
  | ESubquery q alias =>
      eok_subquery q alias (match q as q0 return OQOK q0 with Some q' => query_ok q' | None => I end)
  | EAsterisk table => eok_leaf (EAsterisk table) I
  | EAliased e' alias =>
      eok_aliased e' alias (expr_ok e')
        (match e' as e0 return aliased_extra e0 with
         | EUnary _ o => match o as o0 return OEOK o0 with Some x => expr_ok x | None => I end
         | EFunc _ args _ =>
             (fix go (l : list expr) : Forall EOK l :=
                match l with [] => Forall_nil _ | a :: r => Forall_cons a (expr_ok a) (go r) end) args
         | _ => I
         end)
  end
with query_ok (q : query) {struct q} : QOK q :=
  match q as q0 return QOK q0 with
  | Query selects modes a =>
      qok selects modes a
        ((fix go (l : list (option select)) : Forall OSOK l :=
            match l with
            | [] => Forall_nil _
            | o :: r =>
                Forall_cons o (match o as o0 return OSOK o0 with Some s => select_ok s | None => I end) (go r)
            end) selects)
  end
with select_ok (s : select) {struct s} : SOK s :=
  match s as s0 return SOK s0 with
  | Select d columns from where_ group_by having order_by limit offset =>
      let exprs := fix go (l : list expr) : Forall EOK l :=
        match l with [] => Forall_nil _ | a :: r => Forall_cons a (expr_ok a) (go r) end in
      let opt := fun (o : option expr) =>
        match o as o0 return OEOK o0 with Some x => expr_ok x | None => I end in
      sok d columns from where_ group_by having order_by limit offset
        (exprs columns)
        (match from as f0 return OTOK f0 with
         | Some ts =>
             (fix go (l : list table_elem) : Forall TOK l :=
                match l with [] => Forall_nil _ | a :: r => Forall_cons a (table_ok a) (go r) end) ts
         | None => I
         end)
        (opt where_) (exprs group_by) (opt having)
        ((fix go (l : list order_elem) : Forall OOK l :=
            match l with [] => Forall_nil _ | a :: r => Forall_cons a (order_ok a) (go r) end) order_by)
        (opt limit) (opt offset)
  end
with table_ok (t : table_elem) {struct t} : TOK t :=
  match t as t0 return TOK t0 with
  | TableElem src alias =>
      tok src alias
        (match src as s0 return src_extra s0 with
         | Some (TSSubquery (Some q)) => query_ok q
         | _ => I
         end)
  end
with order_ok (o : order_elem) {struct o} : OOK o :=
  match o as o0 return OOK o0 with
  | OrderElem e desc =>
      ook e desc (match e as e0 return OEOK e0 with Some x => expr_ok x | None => I end)
  end.

(* ------------------------------------------------------------------------------------------ *)
(** * Printer theorems *)

Theorem print_query_ok : forall q,
  wf_query q = true -> printable_query false q = true ->
  exists lines, print_query q = Ok lines /\ lines <> [].
Proof.
  intros q Hw Hp. unfold print_query. rewrite Hp. unfold print_query_unchecked.
  destruct (query_ok q false Hw Hp) as [u [Hu _]]. rewrite Hu. cbn [bind].
  eexists. split; [reflexivity|]. unfold explain_select_with_union_query, explain_select_with_union_query_tail.
  discriminate.
Qed.

Theorem print_query_no_panic : forall q, wf_query q = true -> forall p, print_query q <> Panic p.
Proof.
  intros q Hw p. unfold print_query. destruct (printable_query false q) eqn:Hp; [|discriminate].
  destruct (print_query_ok q Hw Hp) as [lines [Hl _]]. unfold print_query in Hl. rewrite Hp in Hl.
  rewrite Hl. discriminate.
Qed.

Theorem print_script_no_panic : forall qs, forallb wf_query qs = true -> forall p, print_script qs <> Panic p.
Proof.
  induction qs as [|q qs IH]; intros Hw p; [discriminate|].
  cbn [forallb] in Hw. apply andb_prop in Hw. destruct Hw as [Hq Hqs].
  cbn [print_script]. pose proof (print_query_no_panic q Hq) as Hnp.
  destruct (print_query q) as [a|p'|o|]; cbn [bind]; try discriminate; [|exfalso; exact (Hnp p' eq_refl)].
  pose proof (IH Hqs) as Hnp'. destruct (print_script qs) as [b|p'|o|]; cbn [bind]; try discriminate.
  exfalso. exact (Hnp' p' eq_refl).
Qed.

(* ------------------------------------------------------------------------------------------ *)
(** * A nil statement comes with an error *)

Ltac inv1 H :=
  match type of H with
  | bind ?r ?k = Ok _ =>
      let x := fresh "x" in let Hr := fresh "Hr" in apply bind_ok in H; destruct H as [x [Hr H]]
  | (if ?c then _ else _) = Ok _ => destruct c eqn:?
  | (let '(_, _) := ?e in _) = Ok _ => destruct e eqn:?
  | (match ?x with _ => _ end) = Ok _ => destruct x eqn:?
  | OutOfFragment _ = Ok _ => discriminate H
  | OutOfFuel = Ok _ => discriminate H
  | Panic _ = Ok _ => discriminate H
  | ret _ _ = Ok _ => unfold ret in H
  end.
Ltac inv_all H := repeat (cbv beta zeta in H; inv1 H).

Lemma expect_false : forall t s s', expect t s = (false, s') -> errs s' <> [].
Proof.
  intros t s s' H. unfold expect in H. destruct (cur_is s t); [discriminate|].
  inversion H; subst. cbn [add_err errs]. destruct (errs s); discriminate.
Qed.

Lemma parse_select_none : forall fuel s s', parse_select fuel s = Ok (None, s') -> errs s' <> [].
Proof.
  intros fuel s s' H. destruct fuel as [|f]; [discriminate|]. cbn [parse_select] in H.
  inv_all H.
  all: try (inversion H; subst).
  - destruct b; [discriminate|]. eapply expect_false; eauto.
  - clear H. match goal with Hx : _ = Ok (None, s') |- _ => inv_all Hx; inversion Hx; subst end.
    destruct b1; [discriminate|]. eapply expect_false; eauto.
  - clear H. match goal with Hx : _ = Ok (None, s') |- _ => inv_all Hx; inversion Hx; subst end.
    destruct b1; [discriminate|]. eapply expect_false; eauto.
Qed.

Lemma psu_none : forall fuel s s', parse_select_with_union fuel s = Ok (None, s') -> errs s' <> [].
Proof.
  induction fuel as [|f IH]; intros s s' H; [discriminate|]. cbn [parse_select_with_union] in H.
  inv_all H; try (inversion H; subst). clear H.
  inv_all Hr; inversion Hr; subst.
  - eapply IH; eauto.
  - eapply parse_select_none; eauto.
Qed.

Lemma parenthesized_not_none : forall fuel s s', parse_parenthesized_select fuel s <> Ok (None, s').
Proof.
  intros fuel s s' H. unfold parse_parenthesized_select in H. inv_all H; inversion H.
Qed.

(* parseStatement returns nil only after appending to p.errors *)
Theorem stmt_none_has_error : forall fuel s s',
  parse_statement fuel s = Ok (None, s') -> errs s' <> [].
Proof.
  intros fuel s s' H. unfold parse_statement in H. apply bind_ok in H. destruct H as [[q s1] [Hr H]].
  unfold printer_check in H. destruct q as [q|].
  - destruct (is_nil (errs s1) && negb (printable_query false q)); [discriminate|inversion H].
  - inversion H; subst. unfold parse_statement_raw in Hr. inv_all Hr.
    + eapply psu_none; eauto.
    + exfalso. eapply parenthesized_not_none; eauto.
    + inversion Hr; subst. cbn [next add_err errs]. destruct (errs s); discriminate.
Qed.

(* the printed lines of a printable well-formed statement are one well-formed tree *)
Theorem print_query_check : forall q lines,
  wf_query q = true -> printable_query false q = true ->
  print_query q = Ok lines -> check_lines lines = true.
Proof.
  intros q lines Hw Hp H. unfold print_query in H. rewrite Hp in H. unfold print_query_unchecked in H.
  destruct (query_ok q false Hw Hp) as [u [Hu Hinv]]. rewrite Hu in H. cbn [bind] in H.
  inversion H; subst. unfold explain_select_with_union_query. apply explain_union_check. exact Hinv.
Qed.
