(* C05, fragment layer -- helpers for SelectCoreCase.v.

   * [expr_ind'] : the mutual induction principle of the SELECT-core AST (nested lists / options).
   * [erel brel] ... : "the same AST up to the stored NAMES": two ASTs have the same shape, the same
     literals, operators, flags and union modes, and every stored name (identifier parts, aliases,
     function names, t.* qualifiers, table / database names) is related byte by byte by [brel].
     The AST of SelectParseModel.v has no positions, so nothing else can differ.
   * [stored_names] : all the names of an AST, in traversal order.
   * facts: [printable_*] is invariant under [erel brel] when [brel] relates only bytes with the same
     ASCII upper-casing; related ASTs with the same [stored_names] are EQUAL; ASTs related by two
     relations whose intersection is the identity are EQUAL. *)
From Coq Require Import List NArith Arith Bool Lia ZifyN ZifyNat ZifyBool.
From DC Require Import Base.Item Gen.TokenTable.
From DC Require Import Select.SelectParseModel Select.SelectCoreSafe.
Import ListNotations.
Local Open Scope N_scope.

(* ------------------------------------------------------------------------------------------ *)
(** * Induction over the AST *)

Definition OP {A} (P : A -> Prop) (o : option A) : Prop :=
  match o with Some x => P x | None => True end.

Definition src_P (Pq : query -> Prop) (src : option table_src) : Prop :=
  match src with Some (TSSubquery (Some q)) => Pq q | _ => True end.

Section AstInd.
  Variables (Pe : expr -> Prop) (Pq : query -> Prop) (Ps : select -> Prop)
            (Pt : table_elem -> Prop) (Po : order_elem -> Prop).
  Hypothesis H_ident : forall p a b, Pe (EIdent p a b).
  Hypothesis H_lit : forall v b, Pe (ELit v b).
  Hypothesis H_unary : forall op o, OP Pe o -> Pe (EUnary op o).
  Hypothesis H_binary : forall op l r p, Pe l -> OP Pe r -> Pe (EBinary op l r p).
  Hypothesis H_func : forall n args a, Forall Pe args -> Pe (EFunc n args a).
  Hypothesis H_subq : forall q a, OP Pq q -> Pe (ESubquery q a).
  Hypothesis H_ast : forall t, Pe (EAsterisk t).
  Hypothesis H_aliased : forall e a, Pe e -> Pe (EAliased e a).
  Hypothesis H_query : forall sels modes all, Forall (OP Ps) sels -> Pq (Query sels modes all).
  Hypothesis H_select : forall d cols from wh gb hv ob lim off,
    Forall Pe cols -> OP (Forall Pt) from -> OP Pe wh -> Forall Pe gb -> OP Pe hv -> Forall Po ob ->
    OP Pe lim -> OP Pe off -> Ps (Select d cols from wh gb hv ob lim off).
  Hypothesis H_table : forall src alias, src_P Pq src -> Pt (TableElem src alias).
  Hypothesis H_order : forall e d, OP Pe e -> Po (OrderElem e d).

  Fixpoint expr_ind' (e : expr) {struct e} : Pe e :=
    match e as e0 return Pe e0 with
    | EIdent p a b => H_ident p a b
    | ELit v b => H_lit v b
    | EUnary op o =>
        H_unary op o (match o as o0 return OP Pe o0 with Some x => expr_ind' x | None => I end)
    | EBinary op l r p =>
        H_binary op l r p (expr_ind' l)
          (match r as r0 return OP Pe r0 with Some x => expr_ind' x | None => I end)
    | EFunc n args a =>
        H_func n args a
          ((fix go (l : list expr) : Forall Pe l :=
              match l with [] => Forall_nil _ | x :: r => Forall_cons x (expr_ind' x) (go r) end) args)
    | ESubquery q a =>
        H_subq q a (match q as q0 return OP Pq q0 with Some q' => query_ind' q' | None => I end)
    | EAsterisk t => H_ast t
    | EAliased e' a => H_aliased e' a (expr_ind' e')
    end
  with query_ind' (q : query) {struct q} : Pq q :=
    match q as q0 return Pq q0 with
    | Query sels modes a =>
        H_query sels modes a
          ((fix go (l : list (option select)) : Forall (OP Ps) l :=
              match l with
              | [] => Forall_nil _
              | o :: r =>
                  Forall_cons o (match o as o0 return OP Ps o0 with Some s => select_ind' s | None => I end)
                              (go r)
              end) sels)
    end
  with select_ind' (s : select) {struct s} : Ps s :=
    match s as s0 return Ps s0 with
    | Select d cols from wh gb hv ob lim off =>
        let exprs := fix go (l : list expr) : Forall Pe l :=
          match l with [] => Forall_nil _ | x :: r => Forall_cons x (expr_ind' x) (go r) end in
        let opt := fun (o : option expr) =>
          match o as o0 return OP Pe o0 with Some x => expr_ind' x | None => I end in
        H_select d cols from wh gb hv ob lim off
          (exprs cols)
          (match from as f0 return OP (Forall Pt) f0 with
           | Some ts =>
               (fix go (l : list table_elem) : Forall Pt l :=
                  match l with [] => Forall_nil _ | x :: r => Forall_cons x (table_ind' x) (go r) end) ts
           | None => I
           end)
          (opt wh) (exprs gb) (opt hv)
          ((fix go (l : list order_elem) : Forall Po l :=
              match l with [] => Forall_nil _ | x :: r => Forall_cons x (order_ind' x) (go r) end) ob)
          (opt lim) (opt off)
    end
  with table_ind' (t : table_elem) {struct t} : Pt t :=
    match t as t0 return Pt t0 with
    | TableElem src alias =>
        H_table src alias
          (match src as s0 return src_P Pq s0 with
           | Some (TSSubquery (Some q)) => query_ind' q
           | _ => I
           end)
    end
  with order_ind' (o : order_elem) {struct o} : Po o :=
    match o as o0 return Po o0 with
    | OrderElem e d =>
        H_order e d (match e as e0 return OP Pe e0 with Some x => expr_ind' x | None => I end)
    end.

  Definition ast_ind_all :
    (forall e, Pe e) /\ (forall q, Pq q) /\ (forall s, Ps s) /\ (forall t, Pt t) /\ (forall o, Po o) :=
    conj expr_ind' (conj query_ind' (conj select_ind' (conj table_ind' order_ind'))).
End AstInd.

(* ------------------------------------------------------------------------------------------ *)
(** * The relation *)

Inductive orel {A} (R : A -> A -> Prop) : option A -> option A -> Prop :=
| orel_none : orel R None None
| orel_some : forall x y, R x y -> orel R (Some x) (Some y).

Section Rel.
  Variable brel : N -> N -> Prop.

  Definition vrel : list N -> list N -> Prop := Forall2 brel.

  Inductive erel : expr -> expr -> Prop :=
  | er_ident : forall p p' a a' b,
      Forall2 vrel p p' -> vrel a a' -> erel (EIdent p a b) (EIdent p' a' b)
  | er_lit : forall v b, erel (ELit v b) (ELit v b)
  | er_unary : forall op o o', orel erel o o' -> erel (EUnary op o) (EUnary op o')
  | er_binary : forall op l l' r r' p,
      erel l l' -> orel erel r r' -> erel (EBinary op l r p) (EBinary op l' r' p)
  | er_func : forall n n' args args' a a',
      vrel n n' -> Forall2 erel args args' -> vrel a a' -> erel (EFunc n args a) (EFunc n' args' a')
  | er_subq : forall q q' a a',
      orel qrel q q' -> vrel a a' -> erel (ESubquery q a) (ESubquery q' a')
  | er_ast : forall t t', vrel t t' -> erel (EAsterisk t) (EAsterisk t')
  | er_aliased : forall e e' a a', erel e e' -> vrel a a' -> erel (EAliased e a) (EAliased e' a')
  with qrel : query -> query -> Prop :=
  | qr_query : forall sels sels' modes all,
      Forall2 (orel selrel) sels sels' -> qrel (Query sels modes all) (Query sels' modes all)
  with selrel : select -> select -> Prop :=
  | sr_select : forall d cols cols' from from' wh wh' gb gb' hv hv' ob ob' lim lim' off off',
      Forall2 erel cols cols' -> orel (Forall2 trel) from from' -> orel erel wh wh' ->
      Forall2 erel gb gb' -> orel erel hv hv' -> Forall2 ordrel ob ob' ->
      orel erel lim lim' -> orel erel off off' ->
      selrel (Select d cols from wh gb hv ob lim off) (Select d cols' from' wh' gb' hv' ob' lim' off')
  with trel : table_elem -> table_elem -> Prop :=
  | tr_elem : forall src src' a a',
      orel srcrel src src' -> vrel a a' -> trel (TableElem src a) (TableElem src' a')
  with srcrel : table_src -> table_src -> Prop :=
  | sr_ident : forall db db' t t', vrel db db' -> vrel t t' -> srcrel (TSIdent db t) (TSIdent db' t')
  | sr_subq : forall q q', orel qrel q q' -> srcrel (TSSubquery q) (TSSubquery q')
  with ordrel : order_elem -> order_elem -> Prop :=
  | or_elem : forall e e' d, orel erel e e' -> ordrel (OrderElem e d) (OrderElem e' d).
End Rel.

(* ------------------------------------------------------------------------------------------ *)
(** * Generic list facts *)

Lemma Forall2_refl {A} (R : A -> A -> Prop) : (forall x, R x x) -> forall l, Forall2 R l l.
Proof. intros H. induction l; constructor; auto. Qed.

Lemma Forall2_len {A B} (R : A -> B -> Prop) l l' : Forall2 R l l' -> List.length l = List.length l'.
Proof. induction 1; cbn; congruence. Qed.

Lemma Forall2_impl {A B} (R R' : A -> B -> Prop) : (forall x y, R x y -> R' x y) ->
  forall l l', Forall2 R l l' -> Forall2 R' l l'.
Proof. intros H l l' F. induction F; constructor; auto. Qed.

(* pointwise transfer of a boolean test *)
Lemma forallb_rel {A} (R : A -> A -> Prop) (f : A -> bool) l l' :
  Forall (fun x => forall y, R x y -> f x = f y) l -> Forall2 R l l' -> forallb f l = forallb f l'.
Proof.
  intros HP F. induction F as [|x y l l' Hxy F IH]; [reflexivity|].
  inversion HP; subst. cbn [forallb]. f_equal; auto.
Qed.

Lemma forallb_rel0 {A} (R : A -> A -> Prop) (f : A -> bool) :
  (forall x y, R x y -> f x = f y) -> forall l l', Forall2 R l l' -> forallb f l = forallb f l'.
Proof. intros H l l' F. induction F; [reflexivity|]. cbn [forallb]. f_equal; auto. Qed.

Lemma map_rel {A C} (R : A -> A -> Prop) (f : A -> C) :
  (forall x y, R x y -> f x = f y) -> forall l l', Forall2 R l l' -> map f l = map f l'.
Proof. intros H l l' F. induction F; [reflexivity|]. cbn [map]. f_equal; auto. Qed.

(* splitting an append by a length-preserving relation *)
Lemma app_split_rel {A} (R : A -> A -> Prop) l l' : Forall2 R l l' ->
  forall k k', l ++ k = l' ++ k' -> l = l' /\ k = k'.
Proof.
  induction 1 as [|x y l l' _ F IH]; intros k k' E; [auto|].
  cbn [app] in E. inversion E; subst. destruct (IH _ _ H1) as [-> ->]. auto.
Qed.

(* ------------------------------------------------------------------------------------------ *)
(** * Bytes with the same ASCII upper-casing *)

Definition ci_byte (a b : N) : Prop := upper_byte a = upper_byte b.

Lemma ci_lower : forall a b, ci_byte a b -> lower_byte a = lower_byte b.
Proof. unfold ci_byte, upper_byte, lower_byte. intros a b H.
  destruct ((97 <=? a) && (a <=? 122)) eqn:E1, ((97 <=? b) && (b <=? 122)) eqn:E2;
  destruct ((65 <=? a) && (a <=? 90)) eqn:E3, ((65 <=? b) && (b <=? 90)) eqn:E4; lia. Qed.

Lemma ci_lt128 : forall a b, ci_byte a b -> (a <? 128) = (b <? 128).
Proof. unfold ci_byte, upper_byte. intros a b H.
  destruct ((97 <=? a) && (a <=? 122)) eqn:E1, ((97 <=? b) && (b <=? 122)) eqn:E2; lia. Qed.

Lemma ci_pos : forall a b, ci_byte a b -> (0 <? a) = (0 <? b).
Proof. unfold ci_byte, upper_byte. intros a b H.
  destruct ((97 <=? a) && (a <=? 122)) eqn:E1, ((97 <=? b) && (b <=? 122)) eqn:E2; lia. Qed.

(* a byte that is not an ASCII letter is recognised case-blindly *)
Definition not_letter (c : N) : bool :=
  negb ((65 <=? c) && (c <=? 90)) && negb ((97 <=? c) && (c <=? 122)).

Lemma ci_eqb_nonletter : forall c a b, not_letter c = true -> ci_byte a b -> (a =? c) = (b =? c).
Proof. unfold ci_byte, upper_byte, not_letter. intros c a b Hc H.
  destruct ((97 <=? a) && (a <=? 122)) eqn:E1, ((97 <=? b) && (b <=? 122)) eqn:E2; lia. Qed.

Lemma ci_eqb_nonletter' : forall c a b, not_letter c = true -> ci_byte a b -> (c =? a) = (c =? b).
Proof. intros c a b Hc H. rewrite !(N.eqb_sym c). apply ci_eqb_nonletter; assumption. Qed.

Section RelFacts.
  Variable brel : N -> N -> Prop.
  Hypothesis brel_ci : forall a b, brel a b -> ci_byte a b.

  Notation vrel := (vrel brel).

  Lemma vrel_upper : forall a b, vrel a b -> to_upper a = to_upper b.
  Proof. intros a b H. unfold to_upper. eapply map_rel; [|exact H]. intros; apply brel_ci; assumption. Qed.

  Lemma vrel_lower : forall a b, vrel a b -> to_lower a = to_lower b.
  Proof. intros a b H. unfold to_lower. eapply map_rel; [|exact H]. intros; apply ci_lower, brel_ci; assumption. Qed.

  Lemma vrel_ascii_only : forall a b, vrel a b -> ascii_only a = ascii_only b.
  Proof. intros a b H. unfold ascii_only. eapply forallb_rel0; [|exact H]. intros; apply ci_lt128, brel_ci; assumption. Qed.

  Lemma vrel_ident_part_ok : forall a b, vrel a b -> ident_part_ok a = ident_part_ok b.
  Proof.
    intros a b H. unfold ident_part_ok. eapply forallb_rel0; [|exact H]. intros x y Hxy.
    apply brel_ci in Hxy. rewrite (ci_pos _ _ Hxy), (ci_lt128 _ _ Hxy). reflexivity.
  Qed.

  Lemma is94 : forall x : N, match x with 94 => true | _ => false end = (x =? 94).
  Proof. intros [|p]; [reflexivity|]. do 8 (try destruct p as [p|p|]; try reflexivity). Qed.

  Lemma vrel_later_part_ok : forall a b, vrel a b -> later_part_ok a = later_part_ok b.
  Proof.
    intros a b H. unfold later_part_ok. rewrite (vrel_ident_part_ok _ _ H). f_equal. f_equal.
    destruct H as [|x y l l' Hxy _]; [reflexivity|].
    apply brel_ci in Hxy. rewrite !is94. apply ci_eqb_nonletter; [reflexivity|assumption].
  Qed.

  Lemma vrel_parts_ok : forall p p', Forall2 vrel p p' -> parts_ok p = parts_ok p'.
  Proof.
    intros p p' H. destruct H as [|x y l l' Hxy F]; [reflexivity|]. cbn [parts_ok].
    rewrite (vrel_ident_part_ok _ _ Hxy). f_equal.
    eapply forallb_rel0; [|exact F]. apply vrel_later_part_ok.
  Qed.

  Lemma erel_is_subquery : forall e e', erel brel e e' -> is_subquery e = is_subquery e'.
  Proof. intros e e' H. destruct H; reflexivity. Qed.

  Lemma erel_function_is_special : forall n n' args args',
    vrel n n' -> Forall2 (erel brel) args args' -> function_is_special n args = function_is_special n' args'.
  Proof.
    intros n n' args args' Hn Ha. unfold function_is_special. rewrite (vrel_lower _ _ Hn). f_equal. f_equal.
    destruct Ha as [|x y l l' _ F]; [reflexivity|].
    destruct F as [|x2 y2 l2 l2' H2 F2]; [reflexivity|].
    destruct F2; [|reflexivity]. apply erel_is_subquery; assumption.
  Qed.

  (* the printer-model boundary does not look at the letter case of names *)
  Definition PPe (e : expr) : Prop := forall e', erel brel e e' -> printable_expr e = printable_expr e'.
  Definition PPq (q : query) : Prop := forall sub q', qrel brel q q' -> printable_query sub q = printable_query sub q'.
  Definition PPs (s : select) : Prop := forall sub s', selrel brel s s' -> printable_select sub s = printable_select sub s'.
  Definition PPt (t : table_elem) : Prop := forall t', trel brel t t' -> printable_table t = printable_table t'.
  Definition PPo (o : order_elem) : Prop := forall o', ordrel brel o o' -> printable_order o = printable_order o'.

  Lemma opt_printable : forall o o', OP PPe o -> orel (erel brel) o o' ->
    match o with Some x => printable_expr x | None => true end =
    match o' with Some x => printable_expr x | None => true end.
  Proof. intros o o' HP H. destruct H; [reflexivity|]. apply HP; assumption. Qed.

  Lemma list_printable : forall l l', Forall PPe l -> Forall2 (erel brel) l l' ->
    forallb printable_expr l = forallb printable_expr l'.
  Proof. intros l l' HP F. eapply forallb_rel; [|exact F]. exact HP. Qed.

  Lemma printable_sels_eq : forall sub (l : list (option select)),
    (fix go (l : list (option select)) : bool :=
       match l with
       | [] => true
       | Some x :: r => printable_select sub x && go r
       | None :: r => go r
       end) l =
    forallb (fun o => match o with Some x => printable_select sub x | None => true end) l.
  Proof.
    intros sub. induction l as [|[x|] l IH]; [reflexivity| |]; cbn [forallb]; rewrite <- IH; reflexivity.
  Qed.

  Lemma is_nil_rel {A} (R : A -> A -> Prop) l l' : Forall2 R l l' -> is_nil l = is_nil l'.
  Proof. destruct 1; reflexivity. Qed.

  Lemma printable_rel :
    (forall e, PPe e) /\ (forall q, PPq q) /\ (forall s, PPs s) /\ (forall t, PPt t) /\ (forall o, PPo o).
  Proof.
    apply (ast_ind_all PPe PPq PPs PPt PPo).
      - intros p a b e' H. inversion H; subst. cbn [printable_expr]. apply vrel_parts_ok; assumption.
      - intros v b e' H. inversion H; subst. reflexivity.
      - intros op o IH e' H. inversion H; subst. cbn [printable_expr]. f_equal.
        + f_equal. match goal with Ho : orel _ o _ |- _ => destruct Ho as [|x y Hxy]; [reflexivity|] end.
          destruct op; [|reflexivity]. cbn [neg_float]. destruct Hxy; reflexivity.
        + apply opt_printable; assumption.
      - intros op l r p IHl IHr e' H. inversion H; subst. cbn [printable_expr]. f_equal.
        + apply IHl; assumption.
        + apply opt_printable; assumption.
      - intros n args a IH e' H. inversion H; subst. cbn [printable_expr]. rewrite !printable_list.
        f_equal; [f_equal|].
        + apply vrel_ascii_only; assumption.
        + f_equal. apply erel_function_is_special; assumption.
        + apply list_printable; assumption.
      - intros q a IH e' H. inversion H; subst. cbn [printable_expr].
        match goal with Hq : orel _ q _ |- _ => destruct Hq as [|x y Hxy]; [reflexivity|] end.
        apply IH; assumption.
      - intros t e' H. inversion H; subst. reflexivity.
      - intros e a IH e' H. inversion H; subst. cbn [printable_expr]. apply IH; assumption.
      - intros sels modes all IH sub q' H. inversion H; subst. cbn [printable_query].
        rewrite !printable_sels_eq.
        match goal with F : Forall2 _ sels _ |- _ => rename F into HF end.
        f_equal; [f_equal|].
        + unfold would_group. rewrite (Forall2_len _ _ _ HF). reflexivity.
        + rewrite (is_nil_rel _ _ _ HF). reflexivity.
        + eapply forallb_rel; [|exact HF].
          eapply Forall_impl; [|exact IH]. intros o HP o' Ho. destruct Ho; [reflexivity|]. apply HP; assumption.
      - intros d cols from wh gb hv ob lim off Hc Hf Hw Hg Hh Ho Hl Hoff sub s' H. inversion H; subst.
        cbn [printable_select]. rewrite !printable_list.
        repeat match goal with |- _ && _ = _ && _ => f_equal end.
        + f_equal. f_equal. eapply is_nil_rel; eassumption.
        + apply list_printable; assumption.
        + match goal with Hx : orel _ from _ |- _ => destruct Hx as [|x y Hxy]; [reflexivity|] end.
          rewrite !printable_list. eapply forallb_rel; [|exact Hxy]. exact Hf.
        + apply opt_printable; assumption.
        + apply list_printable; assumption.
        + apply opt_printable; assumption.
        + eapply forallb_rel; [|eassumption]. exact Ho.
        + apply opt_printable; assumption.
        + apply opt_printable; assumption.
      - intros src alias IH t' H. inversion H; subst.
        match goal with Hx : orel _ src _ |- _ => destruct Hx as [|x y Hxy]; [reflexivity|] end.
        destruct Hxy as [|q q' Hq]; [reflexivity|]. destruct Hq as [|x y Hxy]; [reflexivity|].
        cbn [printable_table]. apply IH; assumption.
      - intros e d IH o' H. inversion H; subst.
        match goal with Hx : orel _ e _ |- _ => destruct Hx as [|x y Hxy]; [reflexivity|] end.
        cbn [printable_order]. apply IH; assumption.
  Qed.
End RelFacts.

(* ------------------------------------------------------------------------------------------ *)
(** * The names an AST stores *)

Definition onames {A} (f : A -> list (list N)) (o : option A) : list (list N) :=
  match o with Some x => f x | None => [] end.

Fixpoint names_expr (e : expr) : list (list N) :=
  match e with
  | EIdent p a _ => p ++ [a]
  | ELit _ _ => []
  | EUnary _ o => match o with Some x => names_expr x | None => [] end
  | EBinary _ l r _ => names_expr l ++ match r with Some x => names_expr x | None => [] end
  | EFunc n args a =>
      n :: a :: (fix go (l : list expr) : list (list N) :=
                   match l with [] => [] | x :: r => names_expr x ++ go r end) args
  | ESubquery q a => a :: match q with Some q' => names_query q' | None => [] end
  | EAsterisk t => [t]
  | EAliased e' a => a :: names_expr e'
  end
with names_query (q : query) : list (list N) :=
  match q with
  | Query sels _ _ =>
      (fix go (l : list (option select)) : list (list N) :=
         match l with
         | [] => []
         | Some s :: r => names_select s ++ go r
         | None :: r => go r
         end) sels
  end
with names_select (s : select) : list (list N) :=
  match s with
  | Select _ cols from wh gb hv ob lim off =>
      let exprs := fix go (l : list expr) : list (list N) :=
        match l with [] => [] | x :: r => names_expr x ++ go r end in
      let opt := fun o : option expr => match o with Some x => names_expr x | None => [] end in
      exprs cols ++
      match from with
      | Some ts => (fix go (l : list table_elem) : list (list N) :=
                      match l with [] => [] | x :: r => names_table x ++ go r end) ts
      | None => []
      end ++
      opt wh ++ exprs gb ++ opt hv ++
      (fix go (l : list order_elem) : list (list N) :=
         match l with [] => [] | x :: r => names_order x ++ go r end) ob ++
      opt lim ++ opt off
  end
with names_table (t : table_elem) : list (list N) :=
  match t with
  | TableElem src a =>
      a :: match src with
           | Some (TSIdent db tb) => [db; tb]
           | Some (TSSubquery (Some q)) => names_query q
           | _ => []
           end
  end
with names_order (o : order_elem) : list (list N) :=
  match o with
  | OrderElem e _ => match e with Some x => names_expr x | None => [] end
  end.

(* every name the statement stores: identifier parts, aliases, function names, t.* qualifiers,
   database / table names -- in source order *)
Definition stored_names (q : option query) : list (list N) := onames names_query q.

Lemma names_list {A} (f : A -> list (list N)) : forall l,
  (fix go (l : list A) : list (list N) := match l with [] => [] | x :: r => f x ++ go r end) l = flat_map f l.
Proof. induction l as [|a l IH]; [reflexivity|]. cbn [flat_map]. rewrite <- IH. reflexivity. Qed.

Lemma names_sels : forall l,
  (fix go (l : list (option select)) : list (list N) :=
     match l with
     | [] => []
     | Some s :: r => names_select s ++ go r
     | None :: r => go r
     end) l = flat_map (onames names_select) l.
Proof. induction l as [|[x|] l IH]; [reflexivity| |]; cbn [flat_map onames]; rewrite <- IH; reflexivity. Qed.

(* injectivity, continuation style *)
Definition inj_on {A} (R : A -> A -> Prop) (f : A -> list (list N)) (x : A) : Prop :=
  forall y k k', R x y -> f x ++ k = f y ++ k' -> x = y /\ k = k'.

Lemma flat_inj {A} (R : A -> A -> Prop) (f : A -> list (list N)) : forall l l',
  Forall (inj_on R f) l -> Forall2 R l l' ->
  forall k k', flat_map f l ++ k = flat_map f l' ++ k' -> l = l' /\ k = k'.
Proof.
  intros l l' HP F. induction F as [|x y l l' Hxy F IH]; intros k k' E; [auto|].
  inversion HP as [|? ? Hx Hl]; subst. cbn [flat_map] in E. rewrite <- !app_assoc in E.
  destruct (Hx _ _ _ Hxy E) as [-> E']. destruct (IH Hl _ _ E') as [-> ->]. auto.
Qed.

Lemma opt_inj {A} (R : A -> A -> Prop) (f : A -> list (list N)) : forall o o',
  OP (inj_on R f) o -> orel R o o' ->
  forall k k', onames f o ++ k = onames f o' ++ k' -> o = o' /\ k = k'.
Proof.
  intros o o' HP H k k' E. destruct H as [|x y Hxy]; [auto|].
  cbn [onames OP] in *. destruct (HP _ _ _ Hxy E) as [-> ->]. auto.
Qed.

Section Names.
  Variable brel : N -> N -> Prop.
  Notation vrel := (vrel brel).

  Lemma cons_inj_rel : forall (a a' : list N) (k k' : list (list N)), a :: k = a' :: k' -> a = a' /\ k = k'.
  Proof. intros a a' k k' E. inversion E. auto. Qed.

  Lemma names_inj :
    (forall e, inj_on (erel brel) names_expr e) /\ (forall q, inj_on (qrel brel) names_query q) /\
    (forall s, inj_on (selrel brel) names_select s) /\ (forall t, inj_on (trel brel) names_table t) /\
    (forall o, inj_on (ordrel brel) names_order o).
  Proof.
    apply (ast_ind_all (inj_on (erel brel) names_expr) (inj_on (qrel brel) names_query)
             (inj_on (selrel brel) names_select) (inj_on (trel brel) names_table)
             (inj_on (ordrel brel) names_order)).
    - intros p a b e' k k' H E. inversion H; subst. cbn [names_expr] in E. rewrite <- !app_assoc in E.
      match goal with F : Forall2 _ p _ |- _ => destruct (app_split_rel _ _ _ F _ _ E) as [-> E'] end.
      cbn [app] in E'. inversion E'; subst. auto.
    - intros v b e' k k' H E. inversion H; subst. auto.
    - intros op o IH e' k k' H E. inversion H; subst. cbn [names_expr] in E.
      match goal with Ho : orel _ o _ |- _ => destruct (opt_inj _ names_expr _ _ IH Ho _ _ E) as [-> ->] end. auto.
    - intros op l r p IHl IHr e' k k' H E. inversion H; subst. cbn [names_expr] in E. rewrite <- !app_assoc in E.
      match goal with Hl : erel _ l _ |- _ => destruct (IHl _ _ _ Hl E) as [-> E'] end.
      match goal with Ho : orel _ r _ |- _ => destruct (opt_inj _ names_expr _ _ IHr Ho _ _ E') as [-> ->] end. auto.
    - intros n args a IH e' k k' H E. inversion H; subst. cbn [names_expr] in E. rewrite !names_list in E.
      cbn [app] in E. apply cons_inj_rel in E. destruct E as [-> E]. apply cons_inj_rel in E. destruct E as [-> E].
      match goal with F : Forall2 _ args _ |- _ => destruct (flat_inj _ _ _ _ IH F _ _ E) as [-> ->] end. auto.
    - intros q a IH e' k k' H E. inversion H; subst. cbn [names_expr app] in E.
      apply cons_inj_rel in E. destruct E as [-> E].
      match goal with Ho : orel _ q _ |- _ => destruct (opt_inj _ names_query _ _ IH Ho _ _ E) as [-> ->] end. auto.
    - intros t e' k k' H E. inversion H; subst. cbn [names_expr app] in E. inversion E; subst. auto.
    - intros e a IH e' k k' H E. inversion H; subst. cbn [names_expr app] in E.
      apply cons_inj_rel in E. destruct E as [-> E].
      match goal with He : erel _ e _ |- _ => destruct (IH _ _ _ He E) as [-> ->] end. auto.
    - intros sels modes all IH q' k k' H E. inversion H; subst. cbn [names_query] in E. rewrite !names_sels in E.
      match goal with F : Forall2 _ sels _ |- _ =>
        destruct (flat_inj (orel (selrel brel)) (onames names_select) _ _ ltac:(
          eapply Forall_impl; [|exact IH]; intros o HP y k0 k0' Ho E0; eapply opt_inj; eauto) F _ _ E) as [-> ->] end.
      auto.
    - intros d cols from wh gb hv ob lim off Hc Hf Hw Hg Hh Ho Hl Hoff s' k k' H E. inversion H; subst.
      cbn [names_select] in E. rewrite !names_list in E. rewrite <- !app_assoc in E.
      change (match from with Some ts => flat_map names_table ts | None => [] end) with (onames (flat_map names_table) from) in E.
      change (match from' with Some ts => flat_map names_table ts | None => [] end) with (onames (flat_map names_table) from') in E.
      repeat match type of E with context[match ?o with Some x => names_expr x | None => [] end] =>
        change (match o with Some x => names_expr x | None => [] end) with (onames names_expr o) in E end.
      match goal with F : Forall2 _ cols _ |- _ => destruct (flat_inj _ _ _ _ Hc F _ _ E) as [-> E1] end.
      assert (Hf' : OP (inj_on (Forall2 (trel brel)) (flat_map names_table)) from).
      { destruct from as [ts|]; [|exact I]. cbn [OP] in *. intros y k0 k0' F E0. eapply flat_inj; eauto. }
      match goal with F : orel _ from _ |- _ => destruct (opt_inj _ _ _ _ Hf' F _ _ E1) as [-> E2] end.
      match goal with F : orel _ wh _ |- _ => destruct (opt_inj _ _ _ _ Hw F _ _ E2) as [-> E3] end.
      match goal with F : Forall2 _ gb _ |- _ => destruct (flat_inj _ _ _ _ Hg F _ _ E3) as [-> E4] end.
      match goal with F : orel _ hv _ |- _ => destruct (opt_inj _ _ _ _ Hh F _ _ E4) as [-> E5] end.
      match goal with F : Forall2 _ ob _ |- _ => destruct (flat_inj _ _ _ _ Ho F _ _ E5) as [-> E6] end.
      match goal with F : orel _ lim _ |- _ => destruct (opt_inj _ _ _ _ Hl F _ _ E6) as [-> E7] end.
      match goal with F : orel _ off _ |- _ => destruct (opt_inj _ _ _ _ Hoff F _ _ E7) as [-> ->] end.
      auto.
    - intros src alias IH t' k k' H E. inversion H; subst. cbn [names_table app] in E.
      apply cons_inj_rel in E. destruct E as [-> E].
      match goal with Hx : orel _ src _ |- _ => destruct Hx as [|x y Hxy]; [subst; auto|] end.
      destruct Hxy as [db db' tb tb' _ _|q q' Hq].
      + cbn [app] in E. inversion E; subst. auto.
      + destruct Hq as [|x y Hxy]; [subst; auto|]. cbn [src_P] in IH.
        destruct (IH _ _ _ Hxy E) as [-> ->]. auto.
    - intros e d IH o' k k' H E. inversion H; subst. cbn [names_order] in E.
      match goal with Ho : orel _ e _ |- _ => destruct (opt_inj _ names_expr _ _ IH Ho _ _ E) as [-> ->] end. auto.
  Qed.

  (* related statements that store the same names are the same statement *)
  Lemma stored_names_inj : forall q q',
    orel (qrel brel) q q' -> stored_names q = stored_names q' -> q = q'.
  Proof.
    intros q q' H E. destruct H as [|x y Hxy]; [reflexivity|]. cbn [stored_names onames] in E.
    destruct (proj1 (proj2 names_inj) x y [] [] Hxy) as [-> _]; [rewrite !app_nil_r; exact E|reflexivity].
  Qed.
End Names.

(* ------------------------------------------------------------------------------------------ *)
(** * Two relations whose intersection is the identity *)

Lemma Forall2_two {A} (R1 R2 : A -> A -> Prop) l l' :
  Forall (fun x => forall y, R1 x y -> R2 x y -> x = y) l -> Forall2 R1 l l' -> Forall2 R2 l l' -> l = l'.
Proof.
  intros HP F1. revert HP. induction F1 as [|x y l l' Hxy F1 IH]; intros HP F2; inversion F2; subst; [reflexivity|].
  inversion HP; subst. f_equal; auto.
Qed.

Lemma Forall2_two0 {A} (R1 R2 : A -> A -> Prop) :
  (forall x y, R1 x y -> R2 x y -> x = y) -> forall l l', Forall2 R1 l l' -> Forall2 R2 l l' -> l = l'.
Proof. intros H l l'. apply Forall2_two. apply Forall_forall. intros x _. apply H. Qed.

Lemma orel_two {A} (R1 R2 : A -> A -> Prop) o o' :
  OP (fun x => forall y, R1 x y -> R2 x y -> x = y) o -> orel R1 o o' -> orel R2 o o' -> o = o'.
Proof. intros HP H1 H2. destruct H1; inversion H2; subst; [reflexivity|]. f_equal. apply HP; assumption. Qed.

Section Two.
  Variables brel1 brel2 : N -> N -> Prop.
  Hypothesis both_eq : forall a b, brel1 a b -> brel2 a b -> a = b.

  Lemma vrel_two : forall a b, vrel brel1 a b -> vrel brel2 a b -> a = b.
  Proof. apply Forall2_two0. exact both_eq. Qed.

  Lemma parts_two : forall a b, Forall2 (vrel brel1) a b -> Forall2 (vrel brel2) a b -> a = b.
  Proof. apply Forall2_two0. exact vrel_two. Qed.

  Definition two_on {A} (R1 R2 : A -> A -> Prop) (x : A) : Prop := forall y, R1 x y -> R2 x y -> x = y.

  Ltac o2 := eapply orel_two; [eassumption|eassumption|eassumption].
  Ltac f2 := eapply Forall2_two; [eassumption|eassumption|eassumption].

  Lemma erel_two :
    (forall e, two_on (erel brel1) (erel brel2) e) /\ (forall q, two_on (qrel brel1) (qrel brel2) q) /\
    (forall s, two_on (selrel brel1) (selrel brel2) s) /\ (forall t, two_on (trel brel1) (trel brel2) t) /\
    (forall o, two_on (ordrel brel1) (ordrel brel2) o).
  Proof.
    apply (ast_ind_all (two_on (erel brel1) (erel brel2)) (two_on (qrel brel1) (qrel brel2))
             (two_on (selrel brel1) (selrel brel2)) (two_on (trel brel1) (trel brel2))
             (two_on (ordrel brel1) (ordrel brel2))).
    - intros p a b e' H1 H2. inversion H1; subst. inversion H2; subst. f_equal; [apply parts_two|apply vrel_two]; assumption.
    - intros v b e' H1 H2. inversion H1; subst. reflexivity.
    - intros op o IH e' H1 H2. inversion H1; subst. inversion H2; subst. f_equal. o2.
    - intros op l r p IHl IHr e' H1 H2. inversion H1; subst. inversion H2; subst. f_equal; [apply IHl; assumption|o2].
    - intros n args a IH e' H1 H2. inversion H1; subst. inversion H2; subst.
      f_equal; [apply vrel_two; assumption|f2|apply vrel_two; assumption].
    - intros q a IH e' H1 H2. inversion H1; subst. inversion H2; subst.
      f_equal; [o2|apply vrel_two; assumption].
    - intros t e' H1 H2. inversion H1; subst. inversion H2; subst. f_equal. apply vrel_two; assumption.
    - intros e a IH e' H1 H2. inversion H1; subst. inversion H2; subst. f_equal; [apply IH; assumption|apply vrel_two; assumption].
    - intros sels modes all IH q' H1 H2. inversion H1; subst. inversion H2; subst. f_equal.
      eapply (Forall2_two (orel (selrel brel1)) (orel (selrel brel2))); [|eassumption|eassumption].
      eapply Forall_impl; [|exact IH]. intros o HP y Ha Hb. eapply orel_two; [exact HP|exact Ha|exact Hb].
    - intros d cols from wh gb hv ob lim off Hc Hf Hw Hg Hh Ho Hl Hoff s' H1 H2.
      inversion H1; subst. inversion H2; subst.
      f_equal; try (f2); try (o2).
      eapply (orel_two (Forall2 (trel brel1)) (Forall2 (trel brel2))); [|eassumption|eassumption]. destruct from as [ts|]; [|exact I]. cbn [OP] in *.
      intros y Ha Hb. f2.
    - intros src alias IH t' H1 H2. inversion H1; subst. inversion H2; subst. f_equal; [|apply vrel_two; assumption].
      eapply (orel_two (srcrel brel1) (srcrel brel2)); [|eassumption|eassumption]. destruct src as [[db tb|[q|]]|]; cbn [OP src_P] in *; try exact I.
      + intros y Ha Hb. inversion Ha; subst. inversion Hb; subst. f_equal; apply vrel_two; assumption.
      + intros y Ha Hb. inversion Ha; subst. inversion Hb; subst. f_equal. eapply (orel_two (qrel brel1) (qrel brel2)); [|eassumption|eassumption]. exact IH.
      + intros y Ha Hb. inversion Ha; subst. inversion Hb; subst. f_equal. eapply (orel_two (qrel brel1) (qrel brel2)); [|eassumption|eassumption]. exact I.
    - intros e d IH o' H1 H2. inversion H1; subst. inversion H2; subst. f_equal. o2.
  Qed.

  Lemma stmt_two : forall q q', orel (qrel brel1) q q' -> orel (qrel brel2) q q' -> q = q'.
  Proof.
    intros q q' H1 H2. eapply (orel_two (qrel brel1) (qrel brel2)); [|eassumption|eassumption].
    destruct q; [|exact I]. apply (proj1 (proj2 erel_two)).
  Qed.
End Two.
