(* C07, fragment layer, end to end -- the EXPLAIN lines of a statement that embeds a query contain
   the EXPLAIN lines of the query as one contiguous block, shifted by the embedding depth.

   Parser half: Select/SelectCoreEmbed.v (the embedded query parses to the same AST value Q).
   Printer half, over Select/SelectPrintModel.v: the printer model renders a nested query by
   printing it at depth 0, reading the lines back as a tree (LineTree.parse_lines) and rendering
   that tree below the Subquery node.  Hence, with [subtree k t T] (t occurs k levels below the root
   of T) and LineTreeProof.render_shift,
       lines(O) = render 0 T(O) = pre ++ render k t(Q) ++ post = pre ++ map (shift k) lines(Q) ++ post
   ([holds_explain]) for every statement O that holds Q as its FROM subquery (k = 7), in a select-list
   expression (k = 5 + ...) or in its WHERE expression (k = 4 + ...)  ([query_holds]); lines are
   compared up to [nrm] (the two spellings of a leaf, as in Embed/EmbedSelect.v).
   [embeds_at ctx q k] is the fragment-level statement of C07 for one embedding; the
   [explain_ctx_*_partial] theorems establish it for the contexts of SelectCoreEmbed.v, for EVERY
   accepted q that satisfies the side condition [nt] and is printable as a subquery
   ([sub_printable]: no empty select list -- the printer model has no transcription of
   "(children 0)" below a Subquery). *)
From Coq Require Import List NArith Arith Bool String Lia.
From DC Require Import Base.Item Gen.TokenTable Tree.LineTree Tree.LineTreeProof.
From DC Require Import Select.SelectExplainModel Select.SelectExplainProof.
From DC Require Import Select.SelectParseModel Select.SelectPrintModel Select.SelectCoreSafe.
From DC Require Import Embed.EmbedSelect.
From DC Require Import Select.SelectCoreClose Select.SelectCoreEmbed.
Import ListNotations.
Local Open Scope N_scope.

(* ------------------------------------------------------------------------------------------ *)
(** * Subtrees are contiguous, shifted blocks of lines *)

(* [subtree k t T]: t occurs in T, k levels below the root *)
Inductive subtree : nat -> rose -> rose -> Prop :=
| st_here : forall t, subtree 0 t t
| st_kid : forall k t l ks c, In c ks -> subtree k t c -> subtree (S k) t (Node l ks).

Lemma flat_map_in_split {A B} (f : A -> list B) : forall l x, In x l ->
  exists pre post, flat_map f l = pre ++ f x ++ post.
Proof.
  induction l as [|a l IH]; intros x H; [contradiction|]. destruct H as [->|H].
  - exists [], (flat_map f l). reflexivity.
  - destruct (IH x H) as (pre & post & E). exists (f a ++ pre), post. cbn [flat_map]. rewrite E, app_assoc. reflexivity.
Qed.

Lemma render_subtree : forall k t T, subtree k t T ->
  forall d, exists pre post, render d T = pre ++ render (d + k) t ++ post.
Proof.
  induction 1 as [t|k t l ks c Hin Hs IH]; intros d.
  - exists [], []. rewrite Nat.add_0_r, app_nil_r. reflexivity.
  - cbn [render]. destruct (flat_map_in_split (render (S d)) ks c Hin) as (p1 & p2 & E).
    destruct (IH (S d)) as (p3 & p4 & E2). rewrite E, E2.
    exists (mkLine d l (kcount (List.length ks)) :: p1 ++ p3), (p4 ++ p2).
    replace (d + S k)%nat with (S d + k)%nat by lia. cbn [app]. f_equal. rewrite <- !app_assoc. reflexivity.
Qed.

(* the lines of a tree that contains t at level k contain the lines of t as a block shifted by k *)
Lemma subtree_block : forall k t T, subtree k t T ->
  contains_block (render 0 T) (render 0 t).
Proof.
  intros k t T H. destruct (render_subtree k t T H 0) as (pre & post & E).
  exists k, pre, post. rewrite E. cbn [Nat.add]. rewrite (render_shift t k). reflexivity.
Qed.

(* ------------------------------------------------------------------------------------------ *)
(** * Where a query sits inside the AST of another query *)

Definition plain_op (op : list N) : Prop :=
  beq op s_concat = false /\ (beq op (B "OR") || beq op (B "AND")) = false.

(* [expr_holds Q e k]: e is, or directly compares with, the subquery Q; its Subquery node is k
   levels below the root of the tree of e *)
Inductive expr_holds (Q : query) : expr -> nat -> Prop :=
| eh_sub : forall alias, expr_holds Q (ESubquery (Some Q) alias) 0
| eh_bin_r : forall op l r p k, plain_op op -> expr_holds Q r k -> expr_holds Q (EBinary op l (Some r) p) (2 + k)
| eh_bin_l : forall op l r p k, plain_op op -> expr_holds Q l k -> expr_holds Q (EBinary op l r p) (2 + k).

(* [query_holds Q O k]: the embedding statement O (one SELECT) has Q as its FROM subquery, as (part
   of) a select-list expression or as (part of) its WHERE expression; k = the depth of Q's root
   line below the root line of O *)
Inductive query_holds (Q : query) : query -> nat -> Prop :=
| qh_from : forall d cols alias w g h o l off m a,
    query_holds Q (Query [Some (Select d cols (Some [TableElem (Some (TSSubquery (Some Q))) alias])
                                         w g h o l off)] m a) 7
| qh_col : forall d c1 e c2 from w g h o l off m a k,
    expr_holds Q e k ->
    query_holds Q (Query [Some (Select d (c1 ++ e :: c2) from w g h o l off)] m a) (5 + k)
| qh_where : forall d cols from e g h o l off m a k,
    expr_holds Q e k ->
    query_holds Q (Query [Some (Select d cols from (Some e) g h o l off)] m a) (4 + k).

(* ------------------------------------------------------------------------------------------ *)
(** * The printer model on such a statement *)

(* the tree that a nested occurrence of Q is printed from: its own lines, read back *)
Definition sub_tree (Q : query) (t : rose) : Prop :=
  exists u, query_uq Q = Ok u /\ tree_of_lines (explain_select_with_union_query 0 u) = Ok t.

Lemma sub_tree_lines : forall Q t, sub_tree Q t ->
  exists u, query_uq Q = Ok u /\ nrm (explain_select_with_union_query 0 u) = render 0 t.
Proof.
  intros Q t (u & Hu & Ht). exists u. split; [exact Hu|].
  unfold tree_of_lines in Ht. destruct (parse_lines (explain_select_with_union_query 0 u)) as [t'|] eqn:E;
    [|discriminate Ht]. inversion Ht; subst. apply (proj1 (parse_lines_spec _ _)) in E. exact E.
Qed.

Lemma explain_expr_holds : forall Q e k, expr_holds Q e k ->
  forall T, explain_expr e = Ok T -> exists t, sub_tree Q t /\ subtree (S k) t T.
Proof.
  induction 1 as [alias|op l r p k Hop Hh IH|op l r p k Hop Hh IH]; intros T HT.
  - cbn [explain_expr] in HT. apply bind_ok in HT. destruct HT as (u & Hu & HT).
    apply bind_ok in HT. destruct HT as (t & Ht & HT). inversion HT; subst.
    exists t. split; [exists u; split; assumption|].
    eapply st_kid; [left; reflexivity|apply st_here].
  - rewrite explain_binary_eq in HT. destruct Hop as [H1 H2]. rewrite H1, H2 in HT.
    apply bind_ok in HT. destruct HT as (cl & Hcl & HT). apply bind_ok in HT. destruct HT as (cr & Hcr & HT).
    inversion HT; subst. cbn [oexp] in Hcr. destruct (IH cr Hcr) as (t & Hs & Hsub).
    exists t. split; [exact Hs|]. unfold function_node.
    eapply st_kid; [left; reflexivity|]. eapply st_kid; [right; left; reflexivity|exact Hsub].
  - rewrite explain_binary_eq in HT. destruct Hop as [H1 H2]. rewrite H1, H2 in HT.
    apply bind_ok in HT. destruct HT as (cl & Hcl & HT). apply bind_ok in HT. destruct HT as (cr & Hcr & HT).
    inversion HT; subst. destruct (IH cl Hcl) as (t & Hs & Hsub).
    exists t. split; [exact Hs|]. unfold function_node.
    eapply st_kid; [left; reflexivity|]. eapply st_kid; [left; reflexivity|exact Hsub].
Qed.

Lemma subtree_trans : forall b c T, subtree b c T -> forall a t, subtree a t c -> subtree (b + a) t T.
Proof.
  induction 1 as [c|b c l ks c' Hin Hs IH]; intros a t Ht; [exact Ht|].
  cbn [Nat.add]. eapply st_kid; [exact Hin|]. apply IH. exact Ht.
Qed.

Lemma map_res_app_inv {A C} (f : A -> res C) : forall l1 x l2 ys,
  map_res f (l1 ++ x :: l2) = Ok ys ->
  exists r1 y r2, ys = r1 ++ y :: r2 /\ f x = Ok y.
Proof.
  induction l1 as [|a l1 IH]; intros x l2 ys H.
  - cbn [app map_res] in H. apply bind_ok in H. destruct H as (y & Hy & H).
    apply bind_ok in H. destruct H as (ts & Hts & H). inversion H; subst.
    exists [], y, ts. split; [reflexivity|exact Hy].
  - cbn [app map_res] in H. apply bind_ok in H. destruct H as (b & Hb & H).
    apply bind_ok in H. destruct H as (ts & Hts & H). inversion H; subst.
    destruct (IH x l2 ts Hts) as (r1 & y & r2 & -> & Hy). exists (b :: r1), y, r2. split; [reflexivity|exact Hy].
Qed.

(* the tree of a one-SELECT statement *)
Lemma one_select_uq : forall s m a u,
  query_uq (Query [Some s] m a) = Ok u ->
  exists sq, select_sq s = Ok sq /\ u = mkUQ [ItemSelect sq] [ItemSelect sq] 0 false false.
Proof.
  intros s m a u H. rewrite query_uq_eq in H. destruct (would_group [Some s] m); [discriminate H|].
  apply bind_ok in H. destruct H as (items & Hi & H). inversion H; subst. clear H.
  cbn [sel_items] in Hi. apply bind_ok in Hi. destruct Hi as (sq & Hsq & Hi). cbn [bind] in Hi.
  inversion Hi; subst. exists sq. split; [exact Hsq|reflexivity].
Qed.

Lemma one_select_tree : forall sq c k t,
  In c (select_children sq) -> subtree k t c ->
  subtree (3 + k) t (union_tree (mkUQ [ItemSelect sq] [ItemSelect sq] 0 false false) tail_none).
Proof.
  intros sq c k t Hin Hs. unfold union_tree, union_children.
  eapply st_kid; [left; reflexivity|]. unfold T_EL at 1. cbn [grouped_trees u_grouped negb andb item_tree].
  eapply st_kid; [left; reflexivity|]. unfold select_tree.
  eapply st_kid; [exact Hin|exact Hs].
Qed.

Theorem query_holds_tree : forall Q O k, query_holds Q O k ->
  forall u, query_uq O = Ok u ->
  exists t, sub_tree Q t /\ subtree k t (union_tree u tail_none).
Proof.
  intros Q O k H u Hu. destruct H as [d cols alias w g h o l off m a|d c1 e c2 from w g h o l off m a k He
                                     |d cols from e g h o l off m a k He];
    destruct (one_select_uq _ _ _ _ Hu) as (sq & Hsq & ->); rewrite select_sq_eq in Hsq;
    apply bind_ok in Hsq; destruct Hsq as (cols' & Hcols & Hsq);
    apply bind_ok in Hsq; destruct Hsq as (from' & Hfrom & Hsq);
    apply bind_ok in Hsq; destruct Hsq as (where' & Hwhere & Hsq);
    apply bind_ok in Hsq; destruct Hsq as (groups & Hgroups & Hsq);
    apply bind_ok in Hsq; destruct Hsq as (having' & Hhaving & Hsq);
    apply bind_ok in Hsq; destruct Hsq as (orders & Horders & Hsq);
    apply bind_ok in Hsq; destruct Hsq as (limit' & Hlimit & Hsq);
    apply bind_ok in Hsq; destruct Hsq as (offset' & Hoffset & Hsq);
    inversion Hsq; subst; clear Hsq.
  - (* FROM ( Q ) *)
    apply bind_ok in Hfrom. destruct Hfrom as (ts & Hts & Hfrom). inversion Hfrom; subst. clear Hfrom.
    cbn [map_res] in Hts. apply bind_ok in Hts. destruct Hts as (tr & Htr & Hts). cbn [bind] in Hts.
    inversion Hts; subst. clear Hts.
    cbn [telem_rose] in Htr. apply bind_ok in Htr. destruct Htr as (c & Hc & Htr). inversion Htr; subst. clear Htr.
    apply bind_ok in Hc. destruct Hc as (uq & Huq & Hc). apply bind_ok in Hc. destruct Hc as (t & Ht & Hc).
    inversion Hc; subst. clear Hc.
    exists t. split; [exists uq; split; assumption|].
    apply (one_select_tree _ (tables_tree (Some [Node (B "TablesInSelectQueryElement")
             [Node (B "TableExpression") [Node (B "Subquery" ++ opt_alias_sfx alias) [t]]]]) None) 4).
    + unfold select_children, select_middle. cbn [sq_with nonempty when app sq_from sq_array_join is_some orb].
      right. left. reflexivity.
    + unfold tables_tree. eapply st_kid; [left; reflexivity|]. eapply st_kid; [left; reflexivity|].
      eapply st_kid; [left; reflexivity|]. eapply st_kid; [left; reflexivity|]. apply st_here.
  - (* a select-list expression *)
    destruct (map_res_app_inv _ _ _ _ _ Hcols) as (r1 & T & r2 & -> & HT).
    destruct (explain_expr_holds Q e k He T HT) as (t & Hst & Hsub).
    exists t. split; [exact Hst|].
    replace (5 + k)%nat with (3 + (1 + S k))%nat by lia.
    apply (one_select_tree _ (T_EL (r1 ++ T :: r2))).
    + unfold select_children. cbn [sq_with nonempty when app sq_columns]. left. reflexivity.
    + unfold T_EL. eapply st_kid; [apply in_elt|exact Hsub].
  - (* the WHERE expression *)
    cbn [oexp_opt] in Hwhere. apply bind_ok in Hwhere. destruct Hwhere as (T & HT & Hwhere).
    inversion Hwhere; subst. clear Hwhere.
    destruct (explain_expr_holds Q e k He T HT) as (t & Hst & Hsub).
    exists t. split; [exact Hst|].
    replace (4 + k)%nat with (3 + S k)%nat by lia.
    apply (one_select_tree _ T); [|exact Hsub].
    unfold select_children, select_middle. cbn [sq_with nonempty when app sq_columns sq_prewhere sq_where opt_list].
    right. apply in_or_app. right. left. reflexivity.
Qed.

(* ------------------------------------------------------------------------------------------ *)
(** * The EXPLAIN lines of the embedding statement contain the EXPLAIN lines of the query *)

Theorem holds_explain : forall Q O k,
  query_holds Q O k ->
  wf_query O = true -> printable_query false O = true -> printable_query false Q = true ->
  exists LO LQ pre post,
    print_query O = Ok LO /\ print_query Q = Ok LQ /\
    nrm LO = pre ++ map (shift k) (nrm LQ) ++ post.
Proof.
  intros Q O k H Hw Hp HpQ.
  destruct (query_ok O false Hw Hp) as (u & Hu & Hinv).
  destruct (query_holds_tree Q O k H u Hu) as (t & Hst & Hsub).
  destruct (sub_tree_lines Q t Hst) as (uQ & HuQ & HlQ).
  destruct (render_subtree k t _ Hsub 0) as (pre & post & E).
  exists (explain_select_with_union_query 0 u), (explain_select_with_union_query 0 uQ), pre, post.
  split; [|split].
  - unfold print_query, print_query_unchecked. rewrite Hp, Hu. reflexivity.
  - unfold print_query, print_query_unchecked. rewrite HpQ, HuQ. reflexivity.
  - unfold explain_select_with_union_query at 1. rewrite (explain_union_tree 0 u tail_none Hinv), E.
    cbn [Nat.add]. rewrite (render_shift t k), HlQ. reflexivity.
Qed.

(* what parse_model guarantees about an accepted statement *)
Lemma parse_model_ok_facts : forall ts O rest,
  parse_model ts = Ok (Some O, rest, []) -> wf_query O = true /\ printable_query false O = true.
Proof.
  intros ts O rest H. unfold parse_model in H.
  pose proof (parse_model_fuel_good (fuel_for ts) ts) as G. rewrite H in G. split; [exact G|].
  unfold parse_model_fuel in H. apply bind_ok in H. destruct H as [[q0 s'] [Hs H]]. inversion H; subst. clear H.
  unfold parse_statement in Hs. apply bind_ok in Hs. destruct Hs as [[q1 s1] [_ Hc]].
  unfold printer_check in Hc. destruct q1 as [q1|]; [|discriminate].
  destruct (is_nil (errs s1) && negb (printable_query false q1)) eqn:E; [discriminate|].
  inversion Hc; subst.
  match goal with He : errs _ = [] |- _ => rewrite He in E end. cbn [is_nil andb] in E.
  destruct (printable_query false O); [reflexivity|discriminate].
Qed.

(* C07 for one embedding, end to end over the models: the statement [ctx] and the query [q] are both
   accepted, both print, and the (normalised) lines of [ctx] contain the lines of [q] as one
   contiguous block, every line indented by k more *)
Definition embeds_at (ctx q : list item) (k : nat) : Prop :=
  exists O Q LO LQ pre post,
    parse_model ctx = Ok (Some O, [], []) /\ parse_model q = Ok (Some Q, [], []) /\
    print_query O = Ok LO /\ print_query Q = Ok LQ /\
    nrm LO = pre ++ map (shift k) (nrm LQ) ++ post.

Lemma embeds_at_contains : forall ctx q k, embeds_at ctx q k ->
  exists O Q LO LQ, parse_model ctx = Ok (Some O, [], []) /\ parse_model q = Ok (Some Q, [], []) /\
    print_query O = Ok LO /\ print_query Q = Ok LQ /\ contains_block (nrm LO) (nrm LQ).
Proof.
  intros ctx q k (O & Q & LO & LQ & pre & post & H1 & H2 & H3 & H4 & H5).
  exists O, Q, LO, LQ. repeat split; try assumption. exists k, pre, post. exact H5.
Qed.

Theorem embeds_from_parse : forall ctx q Q O k,
  accepted_query q Q -> parse_model ctx = Ok (Some O, [], []) -> query_holds Q O k ->
  embeds_at ctx q k.
Proof.
  intros ctx q Q O k Ha Hc Hh.
  destruct (parse_model_ok_facts ctx O [] Hc) as [Hw Hp].
  destruct (parse_model_ok_facts q Q [] (proj2 Ha)) as [_ HpQ].
  destruct (holds_explain Q O k Hh Hw Hp HpQ) as (LO & LQ & pre & post & H1 & H2 & H3).
  exists O, Q, LO, LQ, pre, post. repeat split; try assumption. exact (proj2 Ha).
Qed.

Lemma plain_eq : plain_op (bytes_of "=").
Proof. split; reflexivity. Qed.

Section Contexts.
  Variables (q : list item) (Q : query).
  Hypothesis Ha : accepted_query q Q.
  Hypothesis Hnt : nt q.
  Hypothesis Hsp : sub_printable Q.

  (* SELECT * FROM ( q ) *)
  Theorem explain_ctx_from_partial : forall pre post,
    shape pre [(T_SELECT, None); (T_ASTERISK, None); (T_FROM, None); (T_LPAREN, None)] ->
    shape post [(T_RPAREN, None)] ->
    embeds_at (pre ++ q ++ post) q 7.
  Proof.
    intros pre post Hpre Hpost.
    eapply embeds_from_parse; [exact Ha|exact (ctx_from_partial q Q pre post Ha Hnt Hsp Hpre Hpost)|].
    apply qh_from.
  Qed.

  (* SELECT * FROM ( q ) AS <alias> *)
  Theorem explain_ctx_from_as_partial : forall pre post al,
    shape pre [(T_SELECT, None); (T_ASTERISK, None); (T_FROM, None); (T_LPAREN, None)] ->
    shape post [(T_RPAREN, None); (T_AS, None); (T_IDENT, Some al)] ->
    embeds_at (pre ++ q ++ post) q 7.
  Proof.
    intros pre post al Hpre Hpost.
    eapply embeds_from_parse; [exact Ha|exact (ctx_from_as_partial q Q pre post al Ha Hnt Hsp Hpre Hpost)|].
    apply qh_from.
  Qed.

  (* SELECT * FROM ( q ) AS s WHERE s.a > 0 *)
  Theorem explain_ctx_from_where_partial : forall pre post,
    shape pre [(T_SELECT, None); (T_ASTERISK, None); (T_FROM, None); (T_LPAREN, None)] ->
    shape post [(T_RPAREN, None); (T_AS, None); (T_IDENT, S_ "s"); (T_WHERE, None);
                (T_IDENT, S_ "s"); (T_DOT, None); (T_IDENT, S_ "a"); (T_GT, S_ ">"); (T_NUMBER, S_ "0")] ->
    embeds_at (pre ++ q ++ post) q 7.
  Proof.
    intros pre post Hpre Hpost.
    eapply embeds_from_parse; [exact Ha|exact (ctx_from_where_partial q Q pre post Ha Hnt Hsp Hpre Hpost)|].
    apply qh_from.
  Qed.

  (* SELECT ( q ) *)
  Theorem explain_ctx_scalar_partial : forall pre post,
    shape pre [(T_SELECT, None); (T_LPAREN, None)] -> shape post [(T_RPAREN, None)] ->
    embeds_at (pre ++ q ++ post) q 5.
  Proof.
    intros pre post Hpre Hpost.
    eapply embeds_from_parse; [exact Ha|exact (ctx_scalar_partial q Q pre post Ha Hnt Hsp Hpre Hpost)|].
    apply (qh_col Q false [] (ESubquery (Some Q) []) [] None None [] None [] None None [] false 0). apply eh_sub.
  Qed.

  (* SELECT ( q ) AS <alias> *)
  Theorem explain_ctx_scalar_as_partial : forall pre post al,
    shape pre [(T_SELECT, None); (T_LPAREN, None)] ->
    shape post [(T_RPAREN, None); (T_AS, None); (T_IDENT, Some al)] ->
    embeds_at (pre ++ q ++ post) q 5.
  Proof.
    intros pre post al Hpre Hpost.
    eapply embeds_from_parse; [exact Ha|exact (ctx_scalar_as_partial q Q pre post al Ha Hnt Hsp Hpre Hpost)|].
    apply (qh_col Q false [] (ESubquery (Some Q) al) [] None None [] None [] None None [] false 0). apply eh_sub.
  Qed.

  (* SELECT * FROM t WHERE a = ( q ) *)
  Theorem explain_ctx_where_eq_partial : forall pre post,
    shape pre [(T_SELECT, None); (T_ASTERISK, None); (T_FROM, None); (T_IDENT, S_ "t"); (T_WHERE, None);
               (T_IDENT, S_ "a"); (T_EQ, S_ "="); (T_LPAREN, None)] ->
    shape post [(T_RPAREN, None)] ->
    embeds_at (pre ++ q ++ post) q 6.
  Proof.
    intros pre post Hpre Hpost.
    eapply embeds_from_parse; [exact Ha|exact (ctx_where_eq_partial q Q pre post Ha Hnt Hsp Hpre Hpost)|].
    apply qh_where. apply eh_bin_r; [exact plain_eq|apply eh_sub].
  Qed.

  (* ( q ) at statement level: the same statement, hence the same EXPLAIN lines, not even shifted *)
  Theorem explain_paren_statement_partial : forall lp rp,
    it_tok lp = T_LPAREN -> it_tok rp = T_RPAREN ->
    exists L,
      parse_model (lp :: q ++ [rp]) = Ok (Some Q, [], []) /\
      parse_model q = Ok (Some Q, [], []) /\
      print_model (Some Q) = Ok L.
  Proof.
    intros lp rp Hlp Hrp. pose proof (paren_statement_same_partial q Q lp rp Ha Hnt Hlp Hrp) as E.
    destruct (parse_model_ok_facts q Q [] (proj2 Ha)) as [Hw Hp].
    destruct (print_query_ok Q Hw Hp) as (L & HL & _).
    exists L. split; [rewrite E; exact (proj2 Ha)|]. split; [exact (proj2 Ha)|exact HL].
  Qed.
End Contexts.
