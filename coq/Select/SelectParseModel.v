(* SELECT core -- executable model (DEFINITIONS ONLY) of the part of /repo/parser/parser.go and
   /repo/parser/expression.go that parses

     statement      parseStatement / parseStatementByKeyword for the tokens SELECT and "(",
                    the default branch ("unexpected token"), every other statement keyword -> OutOfFragment
     queries        parseSelectWithUnion (UNION [ALL|DISTINCT] chains, parenthesised first operand),
                    parseParenthesizedSelect, parseSelect / parseSelectInternal with
                    DISTINCT | ALL, select list, FROM one table reference, WHERE, GROUP BY list, HAVING,
                    ORDER BY list with ASC | DESC, LIMIT n [, m], OFFSET m [ROW | ROWS]
     tables         parseTablesInSelect / parseTableElement / parseTableExpression ([db.]t, subquery,
                    AS alias, implicit alias, isKeywordForClause), parseIdentifierName
     expressions    parseExpression (Pratt loop with its no-progress guard), parsePrefixExpression,
                    parseInfixExpression, parseIdentifierOrFunction (dotted names, keywords after a dot,
                    t.* ), parseKeywordAsIdentifier, parseKeywordAsFunction, parseFunctionCall /
                    parseFunctionArgumentList,
                    parseNumber (plain decimal < 2^64), parseString, parseBoolean, parseNull,
                    parseUnaryMinus / Plus, parseNot, parseGroupedOrTuple (grouping and subquery),
                    parseAsterisk, parseBinaryExpression, parseDotAccess, parseAlias,
                    parseExpressionList / isClauseKeyword, parseImplicitAlias, parseOrderByList

   Every test the Go code makes on a path is kept; a branch that leaves the fragment yields
   [OutOfFragment reason] at the point where the Go code would take it.  The model never guesses.

   Conventions
   * Token stream: [list item] without WHITESPACE / LINE_COMMENT tokens and without the final EOF
     item; the end of the list is EOF (the Go lexer returns EOF for ever, C12).  current = head,
     peek = second, peekPeek = third element.
   * p.errors is threaded in the state; the model appends exactly where the Go code appends
     (expect, the default branch of parseStatementByKeyword).
   * A Go interface value that may be nil is an [option]; the nil *ast.SelectQuery that parseSelect
     returns after a failed expect is [None], and so is the nil *ast.SelectWithUnionQuery.
   * [Panic site]: the Go code would dereference nil / index out of range at [site].  The alias
     helpers take the possibly-nil expression they are handed in Go; [expr.Pos()] on nil is a Panic.
   * The progress guard `p.current.Pos == startPos` is modelled by comparing the lengths of the
     remaining token lists (positions of lexer output are strictly increasing, C13).
   * One fuel for recursion depth and loop iterations; [OutOfFuel] is a distinct result
     (excluded for fuel_for by SelectCoreFuel.parse_model_no_out_of_fuel).
   * The parser functions are a pure transcription: they make no test the Go code does not make
     (apart from ascii_only guards before a strings.ToUpper / ToLower comparison).  The boundary of
     the PRINTER model is the separate predicate [printable_query]; [parse_statement] declines an
     accepted statement outside it with OofPrinterFragment, [parse_statement_raw] is the bare parser. *)
From Coq Require Import List NArith Bool String Ascii.
From DC Require Import Base.Item Gen.TokenTable.
Import ListNotations.
Local Open Scope N_scope.

(* ------------------------------------------------------------------------------------------ *)
(** * Results *)

Inductive psite :=
| PanicAliasNilPos        (* parseAlias: left.Pos() with left == nil (expression.go:2553/2568) *)
| PanicImplicitAliasNilPos(* parseImplicitAlias: expr.Pos() with expr == nil (expression.go:414/426) *)
| PanicDotNilPos          (* parseDotAccess: left.Pos() with left == nil (expression.go:2436/2449) *)
| PanicNilSelect.         (* printer: explainSelectQuery / countSelectQueryChildren on a nil *ast.SelectQuery *)

Inductive oof :=
(* statement level *)
| OofStatementKind        (* parseStatementByKeyword: a statement keyword other than SELECT and "(" *)
| OofParallelWith         (* ParseStatements: PARALLEL WITH after a statement *)
(* query level *)
| OofWith                 (* parseSelectInternal: WITH *)
| OofFromFirst            (* parseSelectInternal: FROM ... SELECT *)
| OofDistinctOn | OofTop
| OofArrayJoin | OofPrewhere
| OofGroupingSets | OofRollupCube | OofGroupByAll | OofGroupWithModifier
| OofQualify | OofWindow | OofInterpolate
| OofOrderByModifier      (* NULLS FIRST/LAST, COLLATE, WITH FILL *)
| OofLimitBy | OofWithTies | OofFetch | OofWithTotals
| OofSettings | OofIntoOutfile | OofFormat
| OofIntersectExcept      (* INTERSECT / EXCEPT set operations *)
| OofUnionParenOperand    (* UNION ( ... ): nested SelectWithUnionQuery member *)
| OofUnionGrouping        (* a non-ALL -> ALL mode transition: groupSelectsByUnionMode would nest *)
| OofSubqueryEmptyList    (* a SELECT with an empty select list inside a subquery ("(children 0)" nested) *)
(* tables *)
| OofJoin                 (* isJoinKeyword: JOIN ..., comma join, ARRAY JOIN element *)
| OofTableFunction        (* t(...) in FROM *)
| OofTableParen           (* FROM ( followed by FROM / EXPLAIN / an expression *)
| OofFinal | OofSample
(* expressions *)
| OofPrefixSpecial        (* prefix token with its own parser: NAN INF [ CASE CAST EXTRACT INTERVAL EXISTS
                             PARAM ? SUBSTRING TRIM COLUMNS( ARRAY( IF FORMAT( *)
| OofKeywordFunction      (* keyword followed by ( *)
| OofInfixToken           (* ?: LIKE ILIKE REGEXP IN GLOBAL BETWEEN IS [ :: -> .N *)
| OofNotInfix             (* NOT IN / LIKE / ILIKE / REGEXP / BETWEEN *)
| OofAsteriskModifier     (* * EXCEPT / REPLACE / APPLY *)
| OofParametric           (* f(...)(...) *)
| OofAnyAll               (* comparison followed by ANY / ALL *)
| OofTypedLiteral         (* DATE / TIMESTAMP / TIME 'string' *)
| OofAtAtVariable         (* @@name *)
| OofIdentBytes           (* identifier part with a byte outside 1..127 (sanitizeUTF8), or a later part
                             starting with ^ (JSON path formatting) *)
| OofNonAscii             (* strings.ToUpper / ToLower of a value with a byte >= 128 *)
| OofJsonPath             (* a.^b / a.:T *)
| OofQualifiedColumns     (* t.COLUMNS( *)
| OofNumberFormat | OofNumberRange
| OofMinusInf | OofMinusCast | OofPlusInf
| OofEmptyTuple | OofTuple | OofExplainSubquery
| OofTupleAccess          (* x.1, (t).f, f().f *)
| OofFuncDistinct | OofFuncView | OofFuncSettings | OofFuncNulls | OofFuncFilter | OofFuncOver
| OofFuncSpecialName      (* a name explainFunctionCall treats specially *)
| OofNegFloat             (* printer: negated integer literal > 2^63 *)
| OofNilSubquery          (* printer: Subquery whose Query is a nil pointer: header without child *)
| OofNotATree             (* printer: a nested query whose lines are not one tree *)
| OofPrinterFragment.     (* parse_statement: accepted, but outside the printer model ([printable] = false) *)

Inductive res (A : Type) :=
| Ok (a : A)
| Panic (s : psite)
| OutOfFragment (r : oof)
| OutOfFuel.
Arguments Ok {A} a.
Arguments Panic {A} s.
Arguments OutOfFragment {A} r.
Arguments OutOfFuel {A}.

Definition bind {A B} (r : res A) (f : A -> res B) : res B :=
  match r with
  | Ok a => f a
  | Panic s => Panic s
  | OutOfFragment x => OutOfFragment x
  | OutOfFuel => OutOfFuel
  end.

(* p.errors entries *)
Inductive err :=
| ErrExpected (want got : N)      (* expect: "expected %s, got %s at line %d, column %d" *)
| ErrUnexpected (got : N).        (* parseStatementByKeyword default: "unexpected token %s at ..." *)

(* ------------------------------------------------------------------------------------------ *)
(** * Byte strings *)

Fixpoint bytes_of (s : string) : list N :=
  match s with
  | EmptyString => []
  | String c s' => N_of_ascii c :: bytes_of s'
  end.

Fixpoint bytes_eqb (a b : list N) : bool :=
  match a, b with
  | [], [] => true
  | x :: a', y :: b' => (x =? y) && bytes_eqb a' b'
  | _, _ => false
  end.

Definition upper_byte (b : N) : N := if (97 <=? b) && (b <=? 122) then b - 32 else b.
Definition lower_byte (b : N) : N := if (65 <=? b) && (b <=? 90) then b + 32 else b.
Definition to_upper (s : list N) : list N := map upper_byte s.    (* strings.ToUpper on ASCII *)
Definition to_lower (s : list N) : list N := map lower_byte s.    (* strings.ToLower on ASCII *)
Definition ascii_only (s : list N) : bool := forallb (fun b => b <? 128) s.

Definition is_digit_byte (b : N) : bool := (48 <=? b) && (b <=? 57).
Definition digits_val (ds : list N) : N := fold_left (fun a d => 10 * a + (d - 48)) ds 0.

Fixpoint has_prefix (p s : list N) : bool :=        (* strings.HasPrefix(s, p) *)
  match p with
  | [] => true
  | a :: p' => match s with b :: s' => (a =? b) && has_prefix p' s' | [] => false end
  end.

Definition mem_bytes (s : list N) (l : list (list N)) : bool := existsb (bytes_eqb s) l.

(* strings.Join(parts, ".") *)
Fixpoint join_dot (parts : list (list N)) : list N :=
  match parts with
  | [] => []
  | [p] => p
  | p :: r => p ++ 46 :: join_dot r
  end.

(* ------------------------------------------------------------------------------------------ *)
(** * Precedence (expression.go:31-103) *)

Definition LOWEST : N := 0.
Definition ALIAS_PREC : N := 1.
Definition TERNARY_PREC : N := 2.
Definition OR_PREC : N := 3.
Definition AND_PREC : N := 4.
Definition NOT_PREC : N := 5.
Definition COMPARE : N := 6.
Definition CONCAT_PREC : N := 7.
Definition ADD_PREC : N := 8.
Definition MUL_PREC : N := 9.
Definition UNARY : N := 10.
Definition CALL : N := 11.
Definition HIGHEST : N := 12.

Definition tok_in (t : N) (l : list N) : bool := existsb (N.eqb t) l.

Definition precedence (tok : N) : N :=
  if tok =? T_AS then ALIAS_PREC
  else if tok =? T_OR then OR_PREC
  else if tok =? T_AND then AND_PREC
  else if tok =? T_NOT then NOT_PREC
  else if tok_in tok [T_EQ; T_NEQ; T_LT; T_GT; T_LTE; T_GTE; T_LIKE; T_ILIKE; T_REGEXP; T_IN;
                      T_BETWEEN; T_IS; T_NULL_SAFE_EQ; T_GLOBAL] then COMPARE
  else if tok =? T_QUESTION then TERNARY_PREC
  else if tok =? T_CONCAT then CONCAT_PREC
  else if tok_in tok [T_PLUS; T_MINUS] then ADD_PREC
  else if tok_in tok [T_ASTERISK; T_SLASH; T_PERCENT; T_DIV; T_MOD] then MUL_PREC
  else if tok_in tok [T_LPAREN; T_LBRACKET] then CALL
  else if tok_in tok [T_EXCEPT; T_REPLACE; T_APPLY] then CALL
  else if tok =? T_COLONCOLON then CALL
  else if tok =? T_DOT then HIGHEST
  else if tok =? T_ARROW then OR_PREC
  else LOWEST.

(* token.Token.IsKeyword *)
Definition is_keyword (tok : N) : bool := (T_keyword_beg <? tok) && (tok <? T_keyword_end).

(* ------------------------------------------------------------------------------------------ *)
(** * Parser state: the token window and p.errors *)

Record st := mkSt { toks : list item; errs : list err }.

Definition tok_at (l : list item) : N := match l with x :: _ => it_tok x | [] => T_EOF end.
Definition val_at (l : list item) : list N := match l with x :: _ => it_val x | [] => [] end.

Definition cur_tok (s : st) : N := tok_at (toks s).
Definition cur_val (s : st) : list N := val_at (toks s).
Definition peek_tok (s : st) : N := tok_at (tl (toks s)).
Definition peek2_tok (s : st) : N := tok_at (tl (tl (toks s))).

Definition cur_is (s : st) (t : N) : bool := cur_tok s =? t.          (* p.currentIs(t) *)
Definition peek_is (s : st) (t : N) : bool := peek_tok s =? t.        (* p.peekIs(t) *)
Definition peek2_is (s : st) (t : N) : bool := peek2_tok s =? t.      (* p.peekPeekIs(t) *)
Definition cur_kw (s : st) : bool := is_keyword (cur_tok s).          (* p.current.Token.IsKeyword() *)

Definition next (s : st) : st := mkSt (tl (toks s)) (errs s).         (* p.nextToken() *)
Definition add_err (e : err) (s : st) : st := mkSt (toks s) (errs s ++ [e]).

(* p.expect(t) *)
Definition expect (t : N) (s : st) : bool * st :=
  if cur_is s t then (true, next s) else (false, add_err (ErrExpected t (cur_tok s)) s).

Definition remaining (s : st) : nat := List.length (toks s).

(* ------------------------------------------------------------------------------------------ *)
(** * AST (the ast.* fields the fragment sets or the printer reads) *)

Inductive unop := UMinus | UNot.                  (* UnaryExpr.Op = "-" | "NOT" *)

Inductive lit :=
| LInt64 (v : N)          (* LiteralInteger, Value int64 (0 <= v < 2^63) *)
| LUInt64 (v : N)         (* LiteralInteger, Value uint64 (2^63 <= v < 2^64) *)
| LString (s : list N)    (* LiteralString *)
| LBool (b : bool)        (* LiteralBoolean *)
| LNull.                  (* LiteralNull *)

Inductive expr :=
| EIdent (parts : list (list N)) (alias : list N) (paren : bool)   (* Identifier: Parts, Alias, Parenthesized *)
| ELit (v : lit) (paren : bool)                                    (* Literal: Parenthesized *)
| EUnary (op : unop) (operand : option expr)                       (* UnaryExpr: Operand may be nil *)
| EBinary (op : list N) (l : expr) (r : option expr) (paren : bool)(* BinaryExpr: Right may be nil *)
| EFunc (name : list N) (args : list expr) (alias : list N)        (* FunctionCall: Name, Arguments, Alias *)
| ESubquery (q : option query) (alias : list N)                    (* Subquery: Query (a *SelectWithUnionQuery, maybe nil), Alias *)
| EAsterisk (table : list N)                                       (* Asterisk: Table *)
| EAliased (e : expr) (alias : list N)                             (* AliasedExpr *)
with query :=                                                      (* SelectWithUnionQuery *)
| Query (selects : list (option select)) (modes : list (list N)) (union_all : bool)
with select :=                                                     (* SelectQuery *)
| Select (distinct : bool) (columns : list expr) (from : option (list table_elem))
         (where_ : option expr) (group_by : list expr) (having : option expr)
         (order_by : list order_elem) (limit : option expr) (offset : option expr)
with table_elem :=                                                 (* TablesInSelectQueryElement{Table: &TableExpression{Table, Alias}} *)
| TableElem (src : option table_src) (alias : list N)
with table_src :=
| TSIdent (db tbl : list N)                                        (* TableIdentifier: Database, Table *)
| TSSubquery (q : option query)                                    (* Subquery{Query} *)
with order_elem :=                                                 (* OrderByElement: Expression (maybe nil), Descending *)
| OrderElem (e : option expr) (desc : bool).

Definition q_selects (q : query) := match q with Query s _ _ => s end.
Definition q_modes (q : query) := match q with Query _ m _ => m end.
Definition q_all (q : query) := match q with Query _ _ a => a end.
Definition s_columns (s : select) := match s with Select _ c _ _ _ _ _ _ _ => c end.

(* a value together with the new parser state *)
Definition R (A : Type) : Type := res (A * st).
Definition ret {A} (a : A) (s : st) : R A := Ok (a, s).

(* ------------------------------------------------------------------------------------------ *)
(** * Small predicates of the Go code *)

(* identifier parts go through sanitizeUTF8 + escaping in the printer; parts [1:] starting with ^
   are formatted as JSON paths *)
Definition ident_part_ok (p : list N) : bool := forallb (fun b => (0 <? b) && (b <? 128)) p.
Definition later_part_ok (p : list N) : bool :=
  ident_part_ok p && negb (match p with 94 :: _ => true | _ => false end).

Definition s_DATE := bytes_of "DATE".
Definition s_TIMESTAMP := bytes_of "TIMESTAMP".
Definition s_TIME := bytes_of "TIME".
Definition s_COLUMNS := bytes_of "COLUMNS".
Definition s_TOTALS := bytes_of "TOTALS".
Definition s_ROW := bytes_of "ROW".
Definition s_ROWS := bytes_of "ROWS".
Definition s_INTERSECT := bytes_of "INTERSECT".
Definition s_IGNORE := bytes_of "IGNORE".
Definition s_RESPECT := bytes_of "RESPECT".
Definition s_FILTER := bytes_of "FILTER".
Definition s_view := bytes_of "view".
Definition s_UNION_ := bytes_of "UNION ".
Definition s_ALL := bytes_of "ALL".
Definition s_DISTINCT := bytes_of "DISTINCT".
Definition window_frame_words : list (list N) :=
  map bytes_of ["ROWS"; "RANGE"; "GROUPS"; "UNBOUNDED"; "PRECEDING"; "FOLLOWING"; "CURRENT"]%string.

(* isClauseKeyword — expression.go:208-235, complete *)
Definition is_clause_keyword (s : st) : bool :=
  let t := cur_tok s in
  if tok_in t [T_RPAREN; T_SEMICOLON; T_EOF] then true
  else if t =? T_FROM then
    if peek_is s T_LPAREN then (peek2_is s T_SELECT || peek2_is s T_WITH)
    else negb (peek_is s T_LBRACKET)
  else if tok_in t [T_WHERE; T_GROUP; T_HAVING; T_ORDER; T_LIMIT] then
    negb (peek_is s T_LPAREN) && negb (peek_is s T_LBRACKET) && negb (peek_is s T_COMMA) &&
    negb (peek_is s T_RPAREN)
  else if tok_in t [T_INTO; T_SETTINGS; T_FORMAT] then
    negb (peek_is s T_LPAREN) && negb (peek_is s T_LBRACKET) && negb (peek_is s T_EQ) &&
    negb (peek_is s T_COMMA) && negb (peek_is s T_RPAREN)
  else false.

(* isKeywordForClause — parser.go:1782-1797; the IDENT "TOTALS" test upper-cases the value *)
Definition keyword_for_clause_tokens : list N :=
  [T_WHERE; T_GROUP; T_HAVING; T_QUALIFY; T_ORDER; T_LIMIT; T_OFFSET; T_UNION; T_EXCEPT; T_SETTINGS;
   T_FORMAT; T_PREWHERE; T_JOIN; T_LEFT; T_RIGHT; T_INNER; T_FULL; T_CROSS; T_PASTE; T_ON; T_USING;
   T_GLOBAL; T_ANY; T_ALL; T_SEMI; T_ANTI; T_ASOF; T_ARRAY; T_WINDOW; T_WITH; T_INTERSECT; T_SELECT].

Definition is_keyword_for_clause (s : st) : res bool :=
  if tok_in (cur_tok s) keyword_for_clause_tokens then Ok true
  else if cur_is s T_IDENT then
    if negb (ascii_only (cur_val s)) then OutOfFragment OofNonAscii
    else Ok (bytes_eqb (to_upper (cur_val s)) s_TOTALS)
  else Ok false.

(* isJoinKeyword — parser.go:1531-1541 *)
Definition is_join_keyword (s : st) : bool :=
  tok_in (cur_tok s)
    [T_JOIN; T_INNER; T_LEFT; T_RIGHT; T_FULL; T_CROSS; T_GLOBAL; T_ANY; T_ALL; T_ASOF; T_SEMI;
     T_ANTI; T_PASTE; T_ARRAY; T_COMMA].

(* the statement keywords of parseStatementByKeyword other than SELECT and "(" *)
Definition other_statement_tokens : list N :=
  [T_WITH; T_FROM; T_INSERT; T_CREATE; T_REPLACE; T_DROP; T_ALTER; T_TRUNCATE; T_UNDROP; T_USE;
   T_DESCRIBE; T_DESC; T_SHOW; T_EXPLAIN; T_SET; T_UPDATE; T_DELETE; T_OPTIMIZE; T_SYSTEM; T_RENAME;
   T_EXCHANGE; T_EXISTS; T_DETACH; T_ATTACH; T_CHECK; T_GRANT; T_REVOKE; T_BEGIN; T_COMMIT;
   T_ROLLBACK; T_BACKUP; T_RESTORE; T_KILL].

(* ------------------------------------------------------------------------------------------ *)
(** * Alias helpers (they receive what the Go functions receive: a possibly-nil Expression) *)

(* the type switch shared by parseAlias (with_like = the extra *ast.LikeExpr case, not in the fragment)
   and parseImplicitAlias; [site] is where expr.Pos() is evaluated in the default case *)
Definition set_alias (site : psite) (e : option expr) (alias : list N) : res expr :=
  match e with
  | Some (EIdent parts _ paren) => Ok (EIdent parts alias paren)      (* e.Alias = alias; return e *)
  | Some (EFunc name args _) => Ok (EFunc name args alias)
  | Some (ESubquery q _) => Ok (ESubquery q alias)
  | Some x => Ok (EAliased x alias)                                   (* &ast.AliasedExpr{Position: left.Pos(), ...} *)
  | None => Panic site                                                (* nil.Pos() *)
  end.

(* parseAlias — expression.go:2524-2573; the state is at AS *)
Definition parse_alias (left : option expr) (s : st) : R expr :=
  let s1 := next s in                                                 (* skip AS *)
  let '(alias, s2) :=
    if cur_is s1 T_IDENT || cur_kw s1 then (cur_val s1, next s1) else ([], s1) in
  bind (set_alias PanicAliasNilPos left alias) (fun e => ret e s2).

(* parseImplicitAlias — expression.go:361-433 *)
Definition parse_implicit_alias (e : option expr) (s : st) : R (option expr) :=
  match e with
  | None => ret None s                                                (* if expr == nil { return nil } *)
  | Some _ =>
      let can_be_alias :=
        cur_is s T_IDENT || tok_in (cur_tok s) [T_KEY; T_INDEX; T_VIEW; T_DATABASE; T_TABLE; T_SYNC] in
      if can_be_alias then
        if negb (ascii_only (cur_val s)) then OutOfFragment OofNonAscii
        else
          let upper := to_upper (cur_val s) in
          if bytes_eqb upper s_INTERSECT then ret e s
          else if cur_is s T_PARALLEL && peek_is s T_WITH then ret e s
          else if mem_bytes upper window_frame_words then ret e s
          else
            let alias := cur_val s in
            bind (set_alias PanicImplicitAliasNilPos e alias) (fun e' => ret (Some e') (next s))
      else ret e s
  end.

(* ------------------------------------------------------------------------------------------ *)
(** * Prefix parsers; [pe] = parseExpression, [psu] = parseSelectWithUnion at the remaining fuel *)

Definition PE := N -> st -> R (option expr).
Definition PSU := st -> R (option query).

(* parseExpressionList — expression.go:105-134; the comma loop *)
Fixpoint expr_list_loop (pe : PE) (fuel : nat) (acc : list expr) (s : st) : R (list expr) :=
  match fuel with
  | O => OutOfFuel
  | S f =>
      if cur_is s T_COMMA then
        let s1 := next s in
        if is_clause_keyword s1 then ret acc s1
        else
          bind (pe LOWEST s1) (fun '(e, s2) =>
          bind (parse_implicit_alias e s2) (fun '(e', s3) =>
          expr_list_loop pe f (match e' with Some x => acc ++ [x] | None => acc end) s3))
      else ret acc s
  end.

Definition parse_expression_list (pe : PE) (fuel : nat) (s : st) : R (list expr) :=
  if cur_is s T_RPAREN || cur_is s T_EOF then ret [] s
  else
    bind (pe LOWEST s) (fun '(e, s1) =>
    bind (parse_implicit_alias e s1) (fun '(e', s2) =>
    expr_list_loop pe fuel (match e' with Some x => [x] | None => [] end) s2)).

(* parseNumber — plain decimal integers below 2^64; the state is at the NUMBER *)
Definition parse_number (s : st) : R (option expr) :=
  let value := cur_val s in
  if negb (forallb is_digit_byte value) || bytes_eqb value [] then OutOfFragment OofNumberFormat
  else
    let v := digits_val value in
    if v <? 9223372036854775808 then ret (Some (ELit (LInt64 v) false)) (next s)
    else if v <? 18446744073709551616 then ret (Some (ELit (LUInt64 v) false)) (next s)
    else OutOfFragment OofNumberRange.

(* the qualified-name loop shared (textually duplicated in Go) by parseIdentifierOrFunction and
   parseKeywordAsIdentifier; [json] = the ^ and : branches exist (parseIdentifierOrFunction only).
   Structural in the token list: each iteration consumes the dot and one more token.
   Result: (parts, Some state) when the loop ends, or the Asterisk for `t.*`. *)
Inductive dotted_result :=
| DParts (parts : list (list N)) (rest : list item)
| DAsterisk (table : list N) (rest : list item)
| DOof (r : oof).

Fixpoint dotted_loop (json : bool) (parts : list (list N)) (l : list item) : dotted_result :=
  match l with
  | d :: l1 =>
      if it_tok d =? T_DOT then                                     (* for p.currentIs(token.DOT) { p.nextToken() *)
        match l1 with
        | x :: l2 =>
            let t := it_tok x in
            if json && (t =? T_CARET) then DOof OofJsonPath
            else if json && (t =? T_COLON) then DOof OofJsonPath
            else if (t =? T_IDENT) || is_keyword t then dotted_loop json (parts ++ [it_val x]) l2
            else if t =? T_ASTERISK then DAsterisk (join_dot parts) l2
            else DParts parts l1                                    (* break: the dot stays consumed *)
        | [] => DParts parts l1
        end
      else DParts parts l
  | [] => DParts parts l
  end.

(* special function names of explainFunctionCallWithAlias / handleSpecialFunction /
   NormalizeFunctionName that the printer model does not cover *)
Definition special_function_names : list (list N) :=
  map bytes_of ["kql"; "view"; "date_add"; "dateadd"; "timestamp_add"; "timestampadd"; "date_sub";
                "datesub"; "timestamp_sub"; "timestampsub"; "date_diff"; "datediff"; "trim"; "ltrim";
                "rtrim"; "position"; "substring"; "anyequals"; "allnotequals"]%string.

Definition is_subquery (e : expr) : bool := match e with ESubquery _ _ => true | _ => false end.

Definition function_is_special (name : list N) (args : list expr) : bool :=
  let lower := to_lower name in
  mem_bytes lower special_function_names ||
  ((has_prefix (bytes_of "any") lower || has_prefix (bytes_of "all") lower) &&
   match args with [_; a2] => is_subquery a2 | _ => false end).

(* parseFunctionArgumentList — expression.go:275-310 (mergeMultiParamLambdas is the identity: the
   fragment has no Lambda).  [fuel] bounds the comma loop. *)
Definition settings_clause (s : st) : bool := cur_is s T_SETTINGS && negb (peek_is s T_LBRACKET).

Fixpoint arg_list_loop (pe : PE) (fuel : nat) (acc : list expr) (s : st) : R (list expr) :=
  match fuel with
  | O => OutOfFuel
  | S f =>
      if cur_is s T_COMMA then
        let s1 := next s in
        if settings_clause s1 then ret acc s1
        else
          bind (pe LOWEST s1) (fun '(e, s2) =>
          bind (parse_implicit_alias e s2) (fun '(e', s3) =>
          arg_list_loop pe f (match e' with Some x => acc ++ [x] | None => acc end) s3))
      else ret acc s
  end.

Definition parse_function_argument_list (pe : PE) (fuel : nat) (s : st) : R (list expr) :=
  if cur_is s T_RPAREN || cur_is s T_EOF || settings_clause s then ret [] s
  else
    bind (pe LOWEST s) (fun '(e, s1) =>
    bind (parse_implicit_alias e s1) (fun '(e', s2) =>
    arg_list_loop pe fuel (match e' with Some x => [x] | None => [] end) s2)).

(* parseFunctionCall — expression.go:779-856; the state is at "(" *)
Definition parse_function_call (pe : PE) (fuel : nat) (name : list N) (s : st) : R (option expr) :=
  let s1 := next s in                                                 (* skip ( *)
  if cur_is s1 T_DISTINCT && negb (peek_is s1 T_RPAREN) && negb (peek_is s1 T_COMMA)
  then OutOfFragment OofFuncDistinct
  else
    let s2 := if cur_is s1 T_ALL && negb (peek_is s1 T_RPAREN) && negb (peek_is s1 T_COMMA)
              then next s1 else s1 in
    if negb (ascii_only name) then OutOfFragment OofNonAscii
    else if bytes_eqb (to_lower name) s_view && (cur_is s2 T_SELECT || cur_is s2 T_WITH)
    then OutOfFragment OofFuncView
    else
      bind (if negb (cur_is s2 T_RPAREN) && negb (settings_clause s2)
            then parse_function_argument_list pe fuel s2 else ret [] s2) (fun '(args, s3) =>
      if settings_clause s3 then OutOfFragment OofFuncSettings
      else
        let '(_, s4) := expect T_RPAREN s3 in
        if cur_is s4 T_IDENT && negb (ascii_only (cur_val s4)) then OutOfFragment OofNonAscii
        else if cur_is s4 T_IDENT &&
                mem_bytes (to_upper (cur_val s4)) [s_IGNORE; s_RESPECT] then OutOfFragment OofFuncNulls
        else if cur_is s4 T_IDENT && bytes_eqb (to_upper (cur_val s4)) s_FILTER
        then OutOfFragment OofFuncFilter
        else if cur_is s4 T_OVER then OutOfFragment OofFuncOver
        else ret (Some (EFunc name args [])) s4).

(* parseIdentifierOrFunction — expression.go:661-777; the state is at the IDENT *)
Definition parse_identifier_or_function (pe : PE) (fuel : nat) (s : st) : R (option expr) :=
  let name := cur_val s in
  let s1 := next s in
  if cur_is s1 T_STRING && negb (ascii_only name) then OutOfFragment OofNonAscii
  else
    let upper := to_upper name in
    if cur_is s1 T_STRING && mem_bytes upper [s_DATE; s_TIMESTAMP; s_TIME]
    then OutOfFragment OofTypedLiteral
    else if has_prefix [64; 64] name then OutOfFragment OofAtAtVariable
    else if cur_is s1 T_LPAREN then parse_function_call pe fuel name s1
    else
      match dotted_loop true [name] (toks s1) with
      | DOof r => OutOfFragment r
      | DAsterisk table rest => ret (Some (EAsterisk table)) (mkSt rest (errs s1))
      | DParts parts rest =>
          let s2 := mkSt rest (errs s1) in
          if cur_is s2 T_LPAREN then
            if negb (ascii_only (last parts [])) then OutOfFragment OofNonAscii
            else if Nat.leb 2 (List.length parts) && bytes_eqb (to_upper (last parts [])) s_COLUMNS
            then OutOfFragment OofQualifiedColumns
            else parse_function_call pe fuel (join_dot parts) s2
          else ret (Some (EIdent parts [] false)) s2
      end.

(* parseKeywordAsIdentifier — expression.go:2894-2922; the state is at the keyword *)
Definition parse_keyword_as_identifier (s : st) : R (option expr) :=
  let name := cur_val s in
  let s1 := next s in
  match dotted_loop false [name] (toks s1) with
  | DOof r => OutOfFragment r
  | DAsterisk table rest => ret (Some (EAsterisk table)) (mkSt rest (errs s1))
  | DParts parts rest => ret (Some (EIdent parts [] false)) (mkSt rest (errs s1))
  end.

(* parseKeywordAsFunction — expression.go:2822-2892; the state is at the keyword, "(" follows *)
Definition parse_keyword_as_function (pe : PE) (fuel : nat) (s : st) : R (option expr) :=
  let name := cur_val s in
  let '(ok, s1) := expect T_LPAREN (next s) in
  if negb ok then ret None s1
  else if cur_is s1 T_DISTINCT && negb (peek_is s1 T_RPAREN) && negb (peek_is s1 T_COMMA)
  then OutOfFragment OofFuncDistinct
  else
    let s2 := if cur_is s1 T_ALL && negb (peek_is s1 T_RPAREN) && negb (peek_is s1 T_COMMA)
              then next s1 else s1 in
    if negb (ascii_only name) then OutOfFragment OofNonAscii
    else if bytes_eqb (to_lower name) s_view && (cur_is s2 T_SELECT || cur_is s2 T_WITH)
    then OutOfFragment OofFuncView                             (* strings.ToLower(name) == "view" *)
    else
      bind (if negb (cur_is s2 T_RPAREN) then parse_expression_list pe fuel s2 else ret [] s2)
           (fun '(args, s3) =>
      let '(_, s4) := expect T_RPAREN s3 in
      if cur_is s4 T_IDENT && negb (ascii_only (cur_val s4)) then OutOfFragment OofNonAscii
      else if cur_is s4 T_IDENT &&
              mem_bytes (to_upper (cur_val s4)) [s_IGNORE; s_RESPECT] then OutOfFragment OofFuncNulls
      else if cur_is s4 T_IDENT && bytes_eqb (to_upper (cur_val s4)) s_FILTER
      then OutOfFragment OofFuncFilter
      else if cur_is s4 T_OVER then OutOfFragment OofFuncOver
      else ret (Some (EFunc name args [])) s4).

(* parseUnaryMinus — expression.go:1131-1199; the state is at "-" *)
Definition parse_unary_minus (pe : PE) (s : st) : R (option expr) :=
  let s1 := next s in
  if cur_is s1 T_INF then OutOfFragment OofMinusInf
  else if cur_is s1 T_NUMBER && peek_is s1 T_COLONCOLON then OutOfFragment OofMinusCast
  else bind (pe UNARY s1) (fun '(operand, s2) => ret (Some (EUnary UMinus operand)) s2).

(* parseUnaryPlus — expression.go:1201-1218 *)
Definition parse_unary_plus (pe : PE) (s : st) : R (option expr) :=
  let s1 := next s in
  if cur_is s1 T_INF then OutOfFragment OofPlusInf
  else pe UNARY s1.

(* parseNot — expression.go:1220-1236 *)
Definition parse_not (pe : PE) (s : st) : R (option expr) :=
  let s1 := next s in
  bind (pe (if cur_is s1 T_LPAREN then UNARY else NOT_PREC) s1) (fun '(operand, s2) =>
  ret (Some (EUnary UNot operand)) s2).

(* the Parenthesized marking at the end of parseGroupedOrTuple *)
Definition mark_paren (e : expr) : expr :=
  match e with
  | EBinary op l r _ => EBinary op l r true
  | EIdent parts alias _ => EIdent parts alias true
  | ELit v _ => ELit v true
  | _ => e
  end.

(* parseGroupedOrTuple — expression.go:1238-1330; the state is at "(" *)
Definition parse_grouped_or_tuple (pe : PE) (psu : PSU) (s : st) : R (option expr) :=
  let s1 := next s in
  if cur_is s1 T_RPAREN then OutOfFragment OofEmptyTuple
  else if cur_is s1 T_SELECT || cur_is s1 T_WITH then
    bind (psu s1) (fun '(q, s2) =>
    let '(_, s3) := expect T_RPAREN s2 in
    ret (Some (ESubquery q [])) s3)
  else if cur_is s1 T_EXPLAIN then OutOfFragment OofExplainSubquery
  else
    bind (pe LOWEST s1) (fun '(first, s2) =>
    if cur_is s2 T_COMMA then OutOfFragment OofTuple
    else
      let '(_, s3) := expect T_RPAREN s2 in
      ret (option_map mark_paren first) s3).

(* parsePrefixExpression — expression.go:457-541 *)
Definition parse_prefix (pe : PE) (psu : PSU) (fuel : nat) (s : st) : R (option expr) :=
  let t := cur_tok s in
  if t =? T_IDENT then parse_identifier_or_function pe fuel s
  else if t =? T_NUMBER then parse_number s
  else if t =? T_STRING then ret (Some (ELit (LString (cur_val s)) false)) (next s)   (* parseString *)
  else if t =? T_TRUE then ret (Some (ELit (LBool true) false)) (next s)              (* parseBoolean *)
  else if t =? T_FALSE then ret (Some (ELit (LBool false) false)) (next s)
  else if t =? T_NULL then ret (Some (ELit LNull false)) (next s)                     (* parseNull *)
  else if tok_in t [T_NAN; T_INF] then OutOfFragment OofPrefixSpecial
  else if t =? T_MINUS then parse_unary_minus pe s
  else if t =? T_PLUS then parse_unary_plus pe s
  else if t =? T_NOT then parse_not pe s
  else if t =? T_LPAREN then parse_grouped_or_tuple pe psu s
  else if t =? T_LBRACKET then OutOfFragment OofPrefixSpecial
  else if t =? T_ASTERISK then ret (Some (EAsterisk [])) (next s)                     (* parseAsterisk *)
  else if tok_in t [T_CASE; T_CAST; T_EXTRACT] then OutOfFragment OofPrefixSpecial
  else if t =? T_INTERVAL then
    if peek_is s T_NUMBER || peek_is s T_LPAREN || peek_is s T_MINUS || peek_is s T_STRING ||
       peek_is s T_IDENT then OutOfFragment OofPrefixSpecial
    else parse_keyword_as_identifier s
  else if tok_in t [T_EXISTS; T_PARAM; T_QUESTION; T_SUBSTRING; T_TRIM] then OutOfFragment OofPrefixSpecial
  else if tok_in t [T_COLUMNS; T_ARRAY; T_FORMAT] then
    if peek_is s T_LPAREN then OutOfFragment OofPrefixSpecial else parse_keyword_as_identifier s
  else if t =? T_IF then OutOfFragment OofPrefixSpecial
  else if is_keyword t then
    if peek_is s T_LPAREN then parse_keyword_as_function pe fuel s
    else parse_keyword_as_identifier s
  else ret None s.                                                                    (* return nil *)

(* ------------------------------------------------------------------------------------------ *)
(** * Infix parsers; the Go functions receive [left] as a possibly-nil interface *)

Definition s_eq := [61]. Definition s_eq2 := [61; 61]. Definition s_ne := [33; 61].
Definition s_ne2 := [60; 62]. Definition s_lt := [60]. Definition s_gt := [62].
Definition s_le := [60; 61]. Definition s_ge := [62; 61].

Definition is_comparison_op (op : list N) : bool :=
  mem_bytes op [s_eq; s_eq2; s_ne; s_ne2; s_lt; s_le; s_gt; s_ge].

(* parseBinaryExpression — expression.go:2028-2086; the state is at the operator *)
Definition parse_binary (pe : PE) (left : expr) (s : st) : R (option expr) :=
  let op := if cur_kw s then to_upper (cur_val s) else cur_val s in
  let prec := precedence (cur_tok s) in
  if cur_kw s && negb (ascii_only (cur_val s)) then OutOfFragment OofNonAscii
  else
    let s1 := next s in
    if is_comparison_op op && (cur_is s1 T_ANY || cur_is s1 T_ALL) then OutOfFragment OofAnyAll
    else bind (pe prec s1) (fun '(rhs, s2) => ret (Some (EBinary op left rhs false)) s2).

(* parseDotAccess — expression.go:2421-2522; the state is at "." *)
Definition parse_dot_access (pe : PE) (fuel : nat) (left : option expr) (s : st) : R (option expr) :=
  let s1 := next s in
  if cur_is s1 T_CARET then OutOfFragment OofJsonPath
  else if cur_is s1 T_ASTERISK then
    match left with
    | Some _ => ret (Some (EAsterisk [])) (next s1)                   (* &ast.Asterisk{Position: left.Pos()} *)
    | None => Panic PanicDotNilPos
    end
  else if cur_is s1 T_NUMBER then OutOfFragment OofTupleAccess
  else if cur_is s1 T_IDENT || cur_kw s1 then
    match left with
    | Some (EIdent parts alias false) =>
        let parts' := parts ++ [cur_val s1] in
        let s2 := next s1 in
        if cur_is s2 T_LPAREN then parse_function_call pe fuel (join_dot parts') s2
        else if cur_is s2 T_ASTERISK then ret (Some (EAsterisk (join_dot parts'))) (next s2)
        else ret (Some (EIdent parts' alias false)) s2
    | _ => OutOfFragment OofTupleAccess
    end
  else ret left s1.

Definition binary_tokens : list N :=
  [T_PLUS; T_MINUS; T_ASTERISK; T_SLASH; T_PERCENT; T_EQ; T_NEQ; T_LT; T_GT; T_LTE; T_GTE;
   T_AND; T_OR; T_CONCAT; T_DIV; T_MOD; T_NULL_SAFE_EQ].

Definition is_asterisk (e : expr) : bool := match e with EAsterisk _ => true | _ => false end.
Definition starts_with_dot (v : list N) : bool := match v with 46 :: _ => true | _ => false end.

(* parseInfixExpression — expression.go:543-659; [left] is non-nil at every call site *)
Definition parse_infix (pe : PE) (fuel : nat) (left : expr) (s : st) : R (option expr) :=
  let t := cur_tok s in
  if tok_in t binary_tokens then parse_binary pe left s
  else if tok_in t [T_QUESTION; T_LIKE; T_ILIKE; T_REGEXP] then OutOfFragment OofInfixToken
  else if t =? T_NOT then
    let s1 := next s in
    if tok_in (cur_tok s1) [T_IN; T_LIKE; T_ILIKE; T_REGEXP; T_BETWEEN] then OutOfFragment OofNotInfix
    else ret (Some left) s1                                           (* default: return left, NOT consumed *)
  else if tok_in t [T_IN; T_GLOBAL; T_BETWEEN; T_IS] then OutOfFragment OofInfixToken
  else if t =? T_LPAREN then
    match left with
    | EIdent parts _ _ => parse_function_call pe fuel (join_dot parts) s   (* ident.Name() *)
    | EFunc _ _ _ => OutOfFragment OofParametric
    | _ => ret (Some left) s
    end
  else if t =? T_LBRACKET then OutOfFragment OofInfixToken
  else if t =? T_DOT then parse_dot_access pe fuel (Some left) s
  else if t =? T_AS then bind (parse_alias (Some left) s) (fun '(e, s1) => ret (Some e) s1)
  else if tok_in t [T_COLONCOLON; T_ARROW] then OutOfFragment OofInfixToken
  else if t =? T_EXCEPT then
    if peek_is s T_SELECT then ret (Some left) s
    else if is_asterisk left then OutOfFragment OofAsteriskModifier
    else ret (Some left) s
  else if tok_in t [T_REPLACE; T_APPLY] then
    if is_asterisk left then OutOfFragment OofAsteriskModifier else ret (Some left) s
  else if t =? T_NUMBER then
    if starts_with_dot (cur_val s) then OutOfFragment OofTupleAccess else ret (Some left) s
  else ret (Some left) s.

(* precedenceForCurrent — expression.go:90-103 *)
Definition precedence_for_current (s : st) : N :=
  if cur_is s T_NUMBER && starts_with_dot (cur_val s) then HIGHEST
  else if cur_is s T_NOT &&
          (peek_is s T_BETWEEN || peek_is s T_IN || peek_is s T_LIKE || peek_is s T_ILIKE ||
           peek_is s T_REGEXP) then COMPARE
  else precedence (cur_tok s).

(* ------------------------------------------------------------------------------------------ *)
(** * Lists *)

(* parseOrderByList — parser.go:1810-1890 *)
Fixpoint order_by_loop (pe : PE) (fuel : nat) (acc : list order_elem) (s : st) : R (list order_elem) :=
  match fuel with
  | O => OutOfFuel
  | S f =>
      bind (pe LOWEST s) (fun '(e, s1) =>
      let '(desc, s2) :=
        if cur_is s1 T_ASC then (false, next s1)
        else if cur_is s1 T_DESC then (true, next s1)
        else (false, s1) in
      if cur_is s2 T_NULLS then OutOfFragment OofOrderByModifier
      else if cur_is s2 T_COLLATE then OutOfFragment OofOrderByModifier
      else if cur_is s2 T_WITH && peek_is s2 T_FILL then OutOfFragment OofOrderByModifier
      else
        let acc' := acc ++ [OrderElem e desc] in
        if negb (cur_is s2 T_COMMA) then ret acc' s2
        else order_by_loop pe f acc' (next s2))
  end.

(* ------------------------------------------------------------------------------------------ *)
(** * Tables *)

(* parseIdentifierName — parser.go:7752-7789 *)
Definition parse_identifier_name (s : st) : list N * st :=
  if cur_is s T_IDENT || cur_kw s then (cur_val s, next s)
  else if cur_is s T_PARAM then (123 :: cur_val s ++ [125], next s)
  else if cur_is s T_NUMBER then
    let s1 := next s in
    if cur_is s1 T_IDENT then (cur_val s ++ cur_val s1, next s1) else (cur_val s, s1)
  else if cur_is s T_STRING then (cur_val s, next s)
  else ([], s).

(* parseTableExpression — parser.go:1690-1780 (wrapped in its TablesInSelectQueryElement) *)
Definition parse_table_expression (psu : PSU) (s : st) : R table_elem :=
  bind
    (if cur_is s T_LPAREN then
       let s1 := next s in
       if cur_is s1 T_SELECT || cur_is s1 T_WITH || cur_is s1 T_LPAREN then
         bind (psu s1) (fun '(q, s2) =>
         let '(_, s3) := expect T_RPAREN s2 in
         ret (Some (TSSubquery q)) s3)
       else OutOfFragment OofTableParen
     else if cur_is s T_IDENT || cur_kw s || cur_is s T_NUMBER then
       let '(ident, s1) := parse_identifier_name s in
       if cur_is s1 T_LPAREN then OutOfFragment OofTableFunction
       else if cur_is s1 T_DOT then
         let '(table_name, s2) := parse_identifier_name (next s1) in
         ret (Some (TSIdent ident table_name)) s2
       else ret (Some (TSIdent [] ident)) s1
     else ret None s)
    (fun '(src, s1) =>
     bind
       (if cur_is s1 T_AS then
          let s2 := next s1 in
          if cur_is s2 T_IDENT || cur_kw s2 then Ok (cur_val s2, false, next s2) else Ok ([], false, s2)
        else
          bind (is_keyword_for_clause s1) (fun kfc =>
          if (cur_is s1 T_IDENT || cur_kw s1) && negb kfc && negb (cur_is s1 T_FINAL) &&
             negb (cur_is s1 T_SAMPLE) then
            if cur_is s1 T_PARALLEL && peek_is s1 T_WITH then Ok ([], true, s1)   (* return expr *)
            else Ok (cur_val s1, false, next s1)
          else Ok ([], false, s1)))
       (fun '(alias, early, s2) =>
        if early then ret (TableElem src alias) s2
        else if cur_is s2 T_FINAL then OutOfFragment OofFinal
        else if cur_is s2 T_SAMPLE then OutOfFragment OofSample
        else ret (TableElem src alias) s2)).

(* parseTablesInSelect — parser.go:1507-1529 *)
Definition parse_tables_in_select (psu : PSU) (s : st) : R (list table_elem) :=
  bind (parse_table_expression psu s) (fun '(elem, s1) =>
  if is_join_keyword s1 then OutOfFragment OofJoin
  else ret [elem] s1).

(* ------------------------------------------------------------------------------------------ *)
(** * Union modes (the strings appended to UnionModes) *)

(* normalizeMode of groupSelectsByUnionMode *)
Definition normalize_mode (m : list N) : list N :=
  if Nat.ltb 6 (List.length m) && has_prefix s_UNION_ m then skipn 6 m else m.
Definition mode_is_all (m : list N) : bool := bytes_eqb (normalize_mode m) s_ALL.

(* is there an i >= 1 with modes[i] = ALL and modes[i-1] <> ALL *)
Fixpoint has_mode_transition (modes : list (list N)) : bool :=
  match modes with
  | m0 :: ((m1 :: _) as r) => (mode_is_all m1 && negb (mode_is_all m0)) || has_mode_transition r
  | _ => false
  end.

(* groupSelectsByUnionMode would build a nested query *)
Definition would_group {A} (selects : list A) (modes : list (list N)) : bool :=
  negb (Nat.ltb (List.length selects) 3 || Nat.ltb (List.length modes) 2) && has_mode_transition modes.

(* ------------------------------------------------------------------------------------------ *)
(** * The boundary of the PRINTER model, as a predicate on the AST

   [printable] is true iff SelectPrintModel covers the statement: what it excludes is printed by the
   Go code without any problem, only the printer model has no transcription for it
   (sanitizeUTF8 of exotic identifier bytes, JSON-path parts, float formatting of a negated
   integer above 2^63, function names with their own printer, "(children 0)" inside a Subquery,
   groupSelectsByUnionMode nesting, the header-without-child of a Subquery whose query pointer is nil).
   It does NOT speak about nil *ast.SelectQuery members: those are a safety matter (the Go printer
   would panic), proved absent in SelectCoreProof.v, not filtered. *)

Definition parts_ok (parts : list (list N)) : bool :=
  match parts with
  | [] => true
  | p :: r => ident_part_ok p && forallb later_part_ok r
  end.

Definition neg_float (op : unop) (operand : option expr) : bool :=
  match op, operand with
  | UMinus, Some (ELit (LUInt64 v) _) => 9223372036854775808 <? v
  | _, _ => false
  end.

Definition is_nil {A} (l : list A) : bool := match l with [] => true | _ => false end.

Fixpoint printable_expr (e : expr) : bool :=
  match e with
  | EIdent parts _ _ => parts_ok parts
  | ELit _ _ => true
  | EUnary op operand =>
      negb (neg_float op operand) &&
      match operand with Some x => printable_expr x | None => true end
  | EBinary _ l r _ =>
      printable_expr l && match r with Some x => printable_expr x | None => true end
  | EFunc name args _ =>
      ascii_only name && negb (function_is_special name args) &&
      (fix go (l : list expr) : bool :=
         match l with [] => true | x :: r => printable_expr x && go r end) args
  | ESubquery q _ =>
      match q with Some q' => printable_query true q' | None => false end
  | EAsterisk _ => true
  | EAliased e' _ => printable_expr e'
  end
with printable_query (sub : bool) (q : query) : bool :=
  match q with
  | Query selects modes _ =>
      negb (would_group selects modes) && negb (sub && is_nil selects) &&
      (fix go (l : list (option select)) : bool :=
         match l with
         | [] => true
         | Some x :: r => printable_select sub x && go r
         | None :: r => go r
         end) selects
  end
with printable_select (sub : bool) (s : select) : bool :=
  match s with
  | Select _ columns from where_ group_by having order_by limit offset =>
      let exprs := fix go (l : list expr) : bool :=
        match l with [] => true | x :: r => printable_expr x && go r end in
      let opt := fun (o : option expr) => match o with Some x => printable_expr x | None => true end in
      negb (sub && is_nil columns) && exprs columns &&
      match from with
      | None => true
      | Some elems =>
          (fix go (l : list table_elem) : bool :=
             match l with [] => true | x :: r => printable_table x && go r end) elems
      end &&
      opt where_ && exprs group_by && opt having &&
      (fix go (l : list order_elem) : bool :=
         match l with [] => true | x :: r => printable_order x && go r end) order_by &&
      opt limit && opt offset
  end
with printable_table (t : table_elem) : bool :=
  match t with
  | TableElem (Some (TSSubquery (Some q))) _ => printable_query true q
  | TableElem (Some (TSSubquery None)) _ => false
  | TableElem _ _ => true
  end
with printable_order (o : order_elem) : bool :=
  match o with
  | OrderElem (Some x) _ => printable_expr x
  | OrderElem None _ => true
  end.

(* ------------------------------------------------------------------------------------------ *)
(** * The recursive core *)

(* the ALL / DISTINCT word after UNION: (mode string, UnionAll is set, new state) *)
Definition union_mode (s : st) : list N * bool * st :=
  if cur_is s T_ALL then (s_ALL, true, next s)
  else if cur_is s T_DISTINCT then (s_DISTINCT, false, next s)
  else ([], false, s).

(* the skipping branch of parseParenthesizedSelect (parser.go:7912-7928): structural in the tokens.
   `for depth > 0 && !p.currentIs(token.EOF) && !p.currentIs(token.SEMICOLON)`.
   [depth] >= 1; returns the tokens with the closing parenthesis or the SEMICOLON at which the
   loop stopped as head (or [] at EOF) *)
Fixpoint skip_parens (depth : nat) (l : list item) : list item :=
  match l with
  | [] => []
  | x :: r =>
      if it_tok x =? T_SEMICOLON then l                       (* the statement ends here *)
      else
        let depth' :=
          if it_tok x =? T_LPAREN then S depth
          else if it_tok x =? T_RPAREN then Nat.pred depth
          else depth in
        match depth' with
        | O => l
        | S _ => skip_parens depth' r
        end
  end.

Section Core.

  Fixpoint parse_expr (fuel : nat) (prec : N) (s : st) {struct fuel} : R (option expr) :=
    match fuel with
    | O => OutOfFuel
    | S f =>
        bind (parse_prefix (parse_expr f) (parse_select_with_union f) f s) (fun '(lhs, s1) =>
        match lhs with
        | None => ret None s1
        | Some l => pratt_loop f prec l s1
        end)
    end
  (* the `for !p.currentIs(token.EOF) && precedence < p.precedenceForCurrent()` loop *)
  with pratt_loop (fuel : nat) (prec : N) (left : expr) (s : st) {struct fuel} : R (option expr) :=
    match fuel with
    | O => OutOfFuel
    | S f =>
        if negb (cur_is s T_EOF) && (prec <? precedence_for_current s) then
          bind (parse_infix (parse_expr f) f left s) (fun '(left', s') =>
          match left' with
          | None => ret None s'
          | Some l' =>
              if Nat.eqb (remaining s') (remaining s) then ret (Some l') s'   (* no progress: break *)
              else pratt_loop f prec l' s'
          end)
        else ret (Some left) s
    end
  (* parseSelect / parseSelectInternal(nil) — parser.go:1051-1416 *)
  with parse_select (fuel : nat) (s : st) {struct fuel} : R (option select) :=
    match fuel with
    | O => OutOfFuel
    | S f =>
        let pe := parse_expr f in
        let psu := parse_select_with_union f in
        if cur_is s T_WITH then OutOfFragment OofWith
        else if cur_is s T_FROM then OutOfFragment OofFromFirst
        else
          let '(ok, s1) := expect T_SELECT s in
          if negb ok then ret None s1
          else
            (* DISTINCT / ALL *)
            bind (if cur_is s1 T_DISTINCT then
                    if cur_is (next s1) T_ON then OutOfFragment OofDistinctOn
                    else Ok (true, next s1)
                  else if cur_is s1 T_ALL then Ok (false, next s1)
                  else Ok (false, s1)) (fun '(distinct, s2) =>
            if cur_is s2 T_TOP then OutOfFragment OofTop
            else
              bind (parse_expression_list pe f s2) (fun '(columns, s3) =>
              (* FROM *)
              bind (if cur_is s3 T_FROM then
                      bind (parse_tables_in_select psu (next s3)) (fun '(t, s') => ret (Some t) s')
                    else ret None s3) (fun '(from, s4) =>
              if cur_is s4 T_ARRAY || (cur_is s4 T_LEFT && peek_is s4 T_ARRAY)
              then OutOfFragment OofArrayJoin
              else if cur_is s4 T_PREWHERE then OutOfFragment OofPrewhere
              else
              (* WHERE *)
              bind (if cur_is s4 T_WHERE then pe LOWEST (next s4) else ret None s4)
                   (fun '(where_, s5) =>
              (* GROUP BY; the inner result None = `return nil` after a failed expect(BY) *)
              bind (if cur_is s5 T_GROUP then
                      let '(ok, s') := expect T_BY (next s5) in
                      if negb ok then Ok (None, s')
                      else if cur_is s' T_GROUPING && peek_is s' T_SETS then OutOfFragment OofGroupingSets
                      else if (cur_is s' T_ROLLUP || cur_is s' T_CUBE) && peek_is s' T_LPAREN
                      then OutOfFragment OofRollupCube
                      else if cur_is s' T_ALL then OutOfFragment OofGroupByAll
                      else
                        bind (parse_expression_list pe f s') (fun '(g, s'') =>
                        if cur_is s'' T_WITH &&
                           (peek_is s'' T_ROLLUP || peek_is s'' T_CUBE || peek_is s'' T_TOTALS)
                        then OutOfFragment OofGroupWithModifier
                        else Ok (Some g, s''))
                    else Ok (Some [], s5)) (fun '(group_by, s6) =>
              match group_by with
              | None => ret None s6
              | Some group_by =>
              (* HAVING *)
              bind (if cur_is s6 T_HAVING then pe LOWEST (next s6) else ret None s6)
                   (fun '(having, s7) =>
              if cur_is s7 T_QUALIFY then OutOfFragment OofQualify
              else if cur_is s7 T_WINDOW then OutOfFragment OofWindow
              else
              (* ORDER BY *)
              bind (if cur_is s7 T_ORDER then
                      let '(ok, s') := expect T_BY (next s7) in
                      if negb ok then Ok (None, s')
                      else bind (order_by_loop pe f [] s') (fun '(o, s'') => Ok (Some o, s''))
                    else Ok (Some [], s7)) (fun '(order_by, s8) =>
              match order_by with
              | None => ret None s8
              | Some order_by =>
              if cur_is s8 T_INTERPOLATE then OutOfFragment OofInterpolate
              else
              (* LIMIT n [, m] ; (limit, offset) *)
              bind (if cur_is s8 T_LIMIT then
                      bind (pe LOWEST (next s8)) (fun '(l1, s') =>
                      bind (if cur_is s' T_COMMA then
                              bind (pe LOWEST (next s')) (fun '(l2, s'') => Ok (l2, l1, s''))
                            else Ok (l1, None, s')) (fun '(lim, off, s'') =>
                      if cur_is s'' T_BY then OutOfFragment OofLimitBy
                      else if cur_is s'' T_WITH && peek_is s'' T_TIES then OutOfFragment OofWithTies
                      else Ok (lim, off, s'')))
                    else Ok (None, None, s8)) (fun '(limit, offset0, s9) =>
              (* OFFSET m [ROW | ROWS] *)
              bind (if cur_is s9 T_OFFSET then
                      bind (pe LOWEST (next s9)) (fun '(o, s') =>
                      if cur_is s' T_IDENT && negb (ascii_only (cur_val s')) then OutOfFragment OofNonAscii
                      else
                        let s'' := if cur_is s' T_IDENT &&
                                      mem_bytes (to_upper (cur_val s')) [s_ROW; s_ROWS]
                                   then next s' else s' in
                        if cur_is s'' T_BY && match limit with Some _ => true | None => false end
                        then OutOfFragment OofLimitBy
                        else Ok (o, s''))
                    else Ok (offset0, s9)) (fun '(offset, s10) =>
              if cur_is s10 T_FETCH then OutOfFragment OofFetch
              else if cur_is s10 T_WITH && peek_is s10 T_TOTALS then OutOfFragment OofWithTotals
              else if cur_is s10 T_QUALIFY then OutOfFragment OofQualify
              else if cur_is s10 T_SETTINGS then OutOfFragment OofSettings
              else if cur_is s10 T_INTO then OutOfFragment OofIntoOutfile
              else if cur_is s10 T_FORMAT then OutOfFragment OofFormat
              else
                ret (Some (Select distinct columns from where_ group_by having order_by limit offset))
                    s10))
              end))
              end)))))
    end
  (* the `for p.currentIs(UNION) || p.currentIs(EXCEPT) || p.currentIs(INTERSECT)` loop of
     parseSelectWithUnion (parser.go:697-744); [prefix] = the mode strings carry "UNION " *)
  with union_loop (fuel : nat) (prefix : bool) (selects : list (option select))
                  (modes : list (list N)) (all : bool) (s : st) {struct fuel} : R query :=
    match fuel with
    | O => OutOfFuel
    | S f =>
        if cur_is s T_EXCEPT || cur_is s T_INTERSECT then OutOfFragment OofIntersectExcept
        else if cur_is s T_UNION then
          let '(mode, set_all, s1) := union_mode (next s) in
          let modes' := modes ++ [if prefix then s_UNION_ ++ mode else mode] in
          let all' := all || set_all in
          if cur_is s1 T_LPAREN then OutOfFragment OofUnionParenOperand
          else
            bind (parse_select f s1) (fun '(sel, s2) =>
            match sel with
            | None => ret (Query selects modes' all') s2               (* break *)
            | Some x => union_loop f prefix (selects ++ [Some x]) modes' all' s2
            end)
        else ret (Query selects modes all) s
    end
  (* parseSelectWithUnion — parser.go:597-778 *)
  with parse_select_with_union (fuel : nat) (s : st) {struct fuel} : R (option query) :=
    match fuel with
    | O => OutOfFuel
    | S f =>
        bind
          (if cur_is s T_LPAREN then
             bind (parse_select_with_union f (next s)) (fun '(nested, s1) =>
             match nested with
             | None => Ok (None, s1)                                   (* return nil *)
             | Some n =>
                 let '(_, s2) := expect T_RPAREN s1 in
                 Ok (Some (q_selects n), s2)                          (* firstWasParenthesized: flattened *)
             end)
           else
             bind (parse_select f s) (fun '(sel, s1) =>
             match sel with
             | None => Ok (None, s1)                                   (* return nil *)
             | Some x => Ok (Some [Some x], s1)
             end))
          (fun '(first, s1) =>
           match first with
           | None => ret None s1
           | Some selects =>
               if cur_is s1 T_EXCEPT || cur_is s1 T_INTERSECT then OutOfFragment OofIntersectExcept
               else
                 bind (union_loop f true selects [] false s1) (fun '(q, s2) =>
                 if cur_is s2 T_SETTINGS then OutOfFragment OofSettings
                 else if cur_is s2 T_FORMAT then OutOfFragment OofFormat
                 else ret (Some q) s2)
           end)
    end.

  (* parseParenthesizedSelect — parser.go:7904-8065; the state is at "(" *)
  Definition parse_parenthesized_select (fuel : nat) (s : st) : R (option query) :=
    let s1 := next s in
    if negb (cur_is s1 T_SELECT) && negb (cur_is s1 T_WITH) && negb (cur_is s1 T_LPAREN) then
      let s2 := mkSt (skip_parens 1 (toks s1)) (errs s1) in
      let s3 := if cur_is s2 T_RPAREN then next s2 else s2 in
      ret (Some (Query [] [] false)) s3
    else
      bind (parse_select_with_union fuel s1) (fun '(inner, s2) =>
      let '(_, s3) := expect T_RPAREN s2 in
      if cur_is s3 T_EXCEPT || cur_is s3 T_INTERSECT then OutOfFragment OofIntersectExcept
      else
        let '(selects, modes, all) :=
          match inner with
          | Some (Query sl m a) => (sl, m, a)
          | None => ([], [], false)
          end in
        (* `for p.currentIs(token.UNION)`: union_loop additionally stops with OutOfFragment at
           EXCEPT / INTERSECT, which the Go loop leaves to the caller (ParseStatements: "unexpected
           token") -- a superset of the branch, never a different answer *)
        bind (union_loop fuel false selects modes all s3) (fun '(q, s4) =>
        if cur_is s4 T_FORMAT then OutOfFragment OofFormat
        else if cur_is s4 T_SETTINGS then OutOfFragment OofSettings
        else ret (Some q) s4)).

  (* parseStatement / parseStatementByKeyword — parser.go:215-366.  The reflect test of
     parseStatement maps the nil pointer (None) to the nil Statement (None). *)
  Definition parse_statement_raw (fuel : nat) (s : st) : R (option query) :=
    let t := cur_tok s in
    if t =? T_SELECT then parse_select_with_union fuel s
    else if t =? T_LPAREN then parse_parenthesized_select fuel s
    else if tok_in t other_statement_tokens then OutOfFragment OofStatementKind
    else ret None (next (add_err (ErrUnexpected t) s)).

  (* the statement of the fragment: the parser's result, declined when it was accepted (no error so
     far) but lies outside the printer model *)
  Definition printer_check (r : option query * st) : R (option query) :=
    let '(q, s) := r in
    match q with
    | Some q' =>
        if is_nil (errs s) && negb (printable_query false q') then OutOfFragment OofPrinterFragment
        else Ok (q, s)
    | None => Ok (q, s)
    end.

  Definition parse_statement (fuel : nat) (s : st) : R (option query) :=
    bind (parse_statement_raw fuel s) printer_check.
End Core.

(* ------------------------------------------------------------------------------------------ *)
(** * Entry points *)

(* fuel: every recursive call and every loop iteration below a call consumes a token or ends;
   nesting of the mutual functions between two consumed tokens is bounded by a constant
   (3 * length + 2 suffices: SelectCoreFuel.v) *)
Definition fuel_for (ts : list item) : nat := 8 * List.length ts + 16.

(* one statement from the front of [ts]: (statement, remaining tokens, p.errors) *)
Definition parse_model_fuel (fuel : nat) (ts : list item) : res (option query * list item * list err) :=
  bind (parse_statement fuel (mkSt ts [])) (fun '(q, s) => Ok (q, toks s, errs s)).

Definition parse_model (ts : list item) : res (option query * list item * list err) :=
  parse_model_fuel (fuel_for ts) ts.

(* ParseStatements (parser.go:153-194) for the correspondence driver: statements and p.errors.
   (The driver itself is modelled and proved in Driver/DriverModel.v; this loop only strings
   parse_statement together so that whole inputs can be compared.) *)
Fixpoint skip_semis (l : list item) : list item :=
  match l with
  | x :: r => if it_tok x =? T_SEMICOLON then skip_semis r else l
  | [] => []
  end.

Fixpoint script_loop (n : nat) (fuel : nat) (acc : list query) (s : st) : res (list query * list err) :=
  match n with
  | O => OutOfFuel
  | S n' =>
      match skip_semis (toks s) with
      | [] => Ok (acc, errs s)
      | l =>
          bind (parse_statement fuel (mkSt l (errs s))) (fun '(q, s1) =>
          match q with
          | Some x =>
              if cur_is s1 T_PARALLEL && peek_is s1 T_WITH then OutOfFragment OofParallelWith
              else script_loop n' fuel (acc ++ [x]) (mkSt (skip_semis (toks s1)) (errs s1))
          | None => script_loop n' fuel acc (mkSt (skip_semis (toks s1)) (errs s1))
          end)
      end
  end.

Definition parse_script (ts : list item) : res (list query * list err) :=
  script_loop (S (List.length ts)) (fuel_for ts) [] (mkSt ts []).

(* ------------------------------------------------------------------------------------------ *)
(** * Names (what the correspondence driver prints after OOF: / PANIC:) *)

Definition oof_name (r : oof) : list N :=
  bytes_of (match r with
  | OofStatementKind => "statement-kind"
  | OofParallelWith => "parallel-with"
  | OofWith => "with"
  | OofFromFirst => "from-first"
  | OofDistinctOn => "distinct-on"
  | OofTop => "top"
  | OofArrayJoin => "array-join"
  | OofPrewhere => "prewhere"
  | OofGroupingSets => "grouping-sets"
  | OofRollupCube => "rollup-cube"
  | OofGroupByAll => "group-by-all"
  | OofGroupWithModifier => "group-with-modifier"
  | OofQualify => "qualify"
  | OofWindow => "window"
  | OofInterpolate => "interpolate"
  | OofOrderByModifier => "order-by-modifier"
  | OofLimitBy => "limit-by"
  | OofWithTies => "with-ties"
  | OofFetch => "fetch"
  | OofWithTotals => "with-totals"
  | OofSettings => "settings"
  | OofIntoOutfile => "into-outfile"
  | OofFormat => "format"
  | OofIntersectExcept => "intersect-except"
  | OofUnionParenOperand => "union-paren-operand"
  | OofUnionGrouping => "union-grouping"
  | OofSubqueryEmptyList => "subquery-empty-list"
  | OofJoin => "join"
  | OofTableFunction => "table-function"
  | OofTableParen => "table-paren"
  | OofFinal => "final"
  | OofSample => "sample"
  | OofPrefixSpecial => "prefix-special"
  | OofKeywordFunction => "keyword-function"
  | OofInfixToken => "infix-token"
  | OofNotInfix => "not-infix"
  | OofAsteriskModifier => "asterisk-modifier"
  | OofParametric => "parametric"
  | OofAnyAll => "any-all"
  | OofTypedLiteral => "typed-literal"
  | OofAtAtVariable => "at-at-variable"
  | OofIdentBytes => "ident-bytes"
  | OofNonAscii => "non-ascii"
  | OofJsonPath => "json-path"
  | OofQualifiedColumns => "qualified-columns"
  | OofNumberFormat => "number-format"
  | OofNumberRange => "number-range"
  | OofMinusInf => "minus-inf"
  | OofMinusCast => "minus-cast"
  | OofPlusInf => "plus-inf"
  | OofEmptyTuple => "empty-tuple"
  | OofTuple => "tuple"
  | OofExplainSubquery => "explain-subquery"
  | OofTupleAccess => "tuple-access"
  | OofFuncDistinct => "func-distinct"
  | OofFuncView => "func-view"
  | OofFuncSettings => "func-settings"
  | OofFuncNulls => "func-nulls"
  | OofFuncFilter => "func-filter"
  | OofFuncOver => "func-over"
  | OofFuncSpecialName => "func-special-name"
  | OofNegFloat => "neg-float"
  | OofNilSubquery => "nil-subquery"
  | OofNotATree => "not-a-tree"
  | OofPrinterFragment => "printer-fragment"
  end)%string.

Definition psite_name (p : psite) : list N :=
  bytes_of (match p with
  | PanicAliasNilPos => "alias-nil-pos"
  | PanicImplicitAliasNilPos => "implicit-alias-nil-pos"
  | PanicDotNilPos => "dot-nil-pos"
  | PanicNilSelect => "nil-select"
  end)%string.
